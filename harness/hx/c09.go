package main

// C09 — per-block state views: isolation across forks, exact pruning.
//
// One "case" = a fresh home directory: genesis with some persisted accounts, (usually) a restart so
// that the account trie is empty and fills by read-through, then a random tree of unconfirmed blocks
// with per-block write sets (one Put per key per block, as Manager.Save does), reads through arbitrary
// views interleaved with the writes, stabilisations, restarts.  Every op line is executed on the REAL
// store.ChainDatabase and printed for the Lean heap model (driver c09).  After every op the direct
// oracle compares every view with the specification computed from the op history.

import (
	"fmt"
	"math/big"
	"os"
	"path/filepath"
	"sort"
	"strconv"
	"strings"

	"github.com/LemoFoundationLtd/lemochain-core/chain/account"
	"github.com/LemoFoundationLtd/lemochain-core/chain/types"
	"github.com/LemoFoundationLtd/lemochain-core/common"
	"github.com/LemoFoundationLtd/lemochain-core/store"
)

func init() { subs["c09"] = c09 }

// minimal witness of the slice-aliasing defect (also kept in harness/corpus/C09/w2-parent-read.ops)
const c09Witness = `open
key 0 00000000000000000000000000000000000003a1
key 1 00000000000000000000000000000000000003a2
key 2 00000000000000000000000000000000000003a3
key 3 00000000000000000000000000000000000003a5
key 4 00000000000000000000000000000000000003b7
block 0 - 0
put 0 1 102
stable 0
reopen
block 1 0 1
put 1 0 201
put 1 2 203
put 1 3 204
block 2 1 2
put 2 4 305
get 1 1
dump
shape`

type c09Case struct {
	c      *Ctx
	home   string
	db     *store.ChainDatabase
	keys   []common.Address
	keyIdx map[common.Address]int
	blocks map[int]*types.Block
	byHash map[common.Hash]int
	labels []int
	// specification state (from the op history only)
	parent    map[int]int
	height    map[int]uint32
	writes    map[int]map[int]int64
	live      map[int]bool
	committed map[int]bool
	stable    int
	oracle    bool
	noShape   bool // set after a multi-account Manager.Save: the junk `data` field of NON-terminal split nodes depends on the (unknown, map-iteration) order of its Puts
	log       []string
	failed    map[string]bool
}

func newC09Case(c *Ctx, oracle bool) *c09Case {
	return &c09Case{c: c, keyIdx: map[common.Address]int{}, blocks: map[int]*types.Block{}, byHash: map[common.Hash]int{},
		parent: map[int]int{}, height: map[int]uint32{}, writes: map[int]map[int]int64{}, live: map[int]bool{},
		committed: map[int]bool{}, stable: -1, oracle: oracle, failed: map[string]bool{}}
}

var c09HomeSeq int

func c09Home() string {
	base := os.TempDir()
	if st, err := os.Stat("/dev/shm"); err == nil && st.IsDir() {
		base = "/dev/shm"
	}
	c09HomeSeq++
	return filepath.Join(base, fmt.Sprintf("hx-c09-%d-%d", os.Getpid(), c09HomeSeq))
}

func (k *c09Case) close() {
	if k.db != nil {
		k.db.Close()
		k.db = nil
	}
	if k.home != "" {
		os.RemoveAll(k.home)
	}
}

func (k *c09Case) hashOf(l int) common.Hash {
	if b, ok := k.blocks[l]; ok {
		return b.Hash()
	}
	return common.BigToHash(big.NewInt(int64(1000000 + l)))
}

func (k *c09Case) fail(sig, detail string) {
	if k.failed[sig] {
		return
	}
	k.failed[sig] = true
	k.c.Fail(sig, detail, map[string]interface{}{"ops": append([]string(nil), k.log...)})
}

// specification: value written by the nearest ancestor-or-self (through stable ancestors down to genesis)
func (k *c09Case) specView(l int, key int) (int64, bool) {
	for cur, n := l, 0; cur >= 0 && n < 10000; n++ {
		if v, ok := k.writes[cur][key]; ok {
			return v, true
		}
		p, ok := k.parent[cur]
		if !ok {
			break
		}
		cur = p
	}
	return 0, false
}

func (k *c09Case) isDescendant(l, anc int) bool {
	for cur, n := l, 0; cur >= 0 && n < 10000; n++ {
		if cur == anc {
			return true
		}
		p, ok := k.parent[cur]
		if !ok {
			return false
		}
		cur = p
	}
	return false
}

func balStr(a *types.AccountData, err error) string {
	if err != nil {
		if err == store.ErrAccountNotExist {
			return "none"
		}
		return "err"
	}
	if a == nil || a.Balance == nil {
		return "nil"
	}
	return a.Balance.String()
}

// what Get would return, without its read-through side effect
func (k *c09Case) peek(l int, key int) string {
	return Safe(func() string {
		adb, err := k.db.GetActDatabase(k.hashOf(l))
		if err != nil {
			return "err"
		}
		d := adb.GetTrie().Find(k.keys[key].Hex())
		if d == nil {
			return balStr(k.db.GetAccount(k.keys[key]))
		}
		a, ok := d.(*types.AccountData)
		if !ok {
			return "badtype"
		}
		return balStr(a, nil)
	})
}

func (k *c09Case) implStable() int {
	lc := k.db.LastConfirm
	if lc == nil || lc.Block == nil {
		return -1
	}
	if l, ok := k.byHash[lc.Block.Hash()]; ok {
		return l
	}
	return -2
}

func (k *c09Case) viewable() []int {
	var out []int
	for _, l := range k.labels {
		if k.live[l] || l == k.stable {
			out = append(out, l)
		}
	}
	return out
}

// direct oracle: every view of every live block (and of the stable block) equals the specification
func (k *c09Case) checkViews(after string) {
	if !k.oracle || k.db == nil {
		return
	}
	for _, l := range k.viewable() {
		for ki := range k.keys {
			got := k.peek(l, ki)
			want := "none"
			wv, ok := k.specView(l, ki)
			if ok {
				want = strconv.FormatInt(wv, 10)
			}
			if got != want {
				class := "other"
				diskv := balStr(k.db.GetAccount(k.keys[ki]))
				if got == "panic" {
					class = "panic"
				} else if got == diskv || got == "none" {
					class = "lost-write"
				} else {
					// a value some non-ancestor wrote?
					for wl, ws := range k.writes {
						if v, ok := ws[ki]; ok && strconv.FormatInt(v, 10) == got && !k.isDescendant(l, wl) {
							class = "foreign-write"
						}
					}
					if class == "other" {
						class = "stale-write"
					}
				}
				k.fail("c09/view-mismatch/"+class, fmt.Sprintf("after `%s`: view of block %d (height %d) for key %d (%s) is %s, specification (nearest ancestor-or-self write, else stable) says %s",
					after, l, k.height[l], ki, k.keys[ki].Hex(), got, want))
				return
			}
		}
	}
}

func (k *c09Case) dump() string {
	var sb strings.Builder
	st := k.implStable()
	if st == -1 {
		sb.WriteString("st=-")
	} else {
		fmt.Fprintf(&sb, "st=%d", st)
	}
	var it []string
	k.db.IterateUnConfirms(func(b *types.Block) {
		if l, ok := k.byHash[b.Hash()]; ok {
			it = append(it, strconv.Itoa(l))
		} else {
			it = append(it, "?")
		}
	})
	sb.WriteString(" it=" + strings.Join(it, ","))
	var dk []string
	for _, a := range k.keys {
		dk = append(dk, balStr(k.db.GetAccount(a)))
	}
	sb.WriteString(" disk=" + strings.Join(dk, ","))
	for _, l := range k.labels {
		h := k.hashOf(l)
		e, u := "-", "-"
		if ok, err := k.db.IsExistByHash(h); err == nil && ok {
			e = "E"
		}
		item := k.db.UnConfirmBlocks[h]
		if item != nil {
			u = "U"
		}
		fmt.Fprintf(&sb, " | %d:%s%s", l, e, u)
		if item != nil || l == st {
			var vs []string
			for ki := range k.keys {
				vs = append(vs, k.peek(l, ki))
			}
			coll := Safe(func() string {
				adb, err := k.db.GetActDatabase(h)
				if err != nil {
					return "err"
				}
				var ht uint32
				if item != nil {
					ht = item.Block.Height()
				} else {
					ht = k.db.LastConfirm.Block.Height()
				}
				var cs []string
				for _, a := range adb.Collect(ht) {
					cs = append(cs, fmt.Sprintf("%d:%s", k.keyIdx[a.Address], a.Balance.String()))
				}
				return strings.Join(cs, ",")
			})
			sb.WriteString(" " + strings.Join(vs, ",") + " c=" + coll)
		}
	}
	return sb.String()
}

func (k *c09Case) shape() string {
	return Safe(func() string {
		tries := []*store.PatriciaTrie{k.db.LastConfirm.AccountTrieDB.GetTrie()}
		for _, l := range k.labels {
			if item := k.db.UnConfirmBlocks[k.hashOf(l)]; item != nil {
				tries = append(tries, item.AccountTrieDB.GetTrie())
			}
		}
		return store.VerifTrieShape(tries)
	})
}

func (k *c09Case) addLabel(l int) {
	i := sort.SearchInts(k.labels, l)
	if i < len(k.labels) && k.labels[i] == l {
		return
	}
	k.labels = append(k.labels, 0)
	copy(k.labels[i+1:], k.labels[i:])
	k.labels[i] = l
}

// exec runs one op line on the real code, records it, and runs the oracle.
func (k *c09Case) exec(op string) string {
	w := strings.Fields(op)
	out := "bad-op"
	atoi := func(s string) int { n, _ := strconv.Atoi(s); return n }
	if k.noShape && len(w) == 1 && w[0] == "shape" {
		return "skipped"
	}
	k.log = append(k.log, op)
	switch {
	case len(w) == 1 && w[0] == "open":
		k.close()
		k.home = c09Home()
		os.RemoveAll(k.home)
		k.db = store.NewChainDataBase(k.home)
		out = "ok"
	case len(w) == 1 && w[0] == "reopen":
		k.db.Close()
		k.db = store.NewChainDataBase(k.home)
		for l := range k.live {
			delete(k.live, l)
		}
		out = "ok"
	case len(w) == 3 && w[0] == "key":
		if atoi(w[1]) == len(k.keys) {
			a := common.HexToAddress("0x" + w[2])
			k.keyIdx[a] = len(k.keys)
			k.keys = append(k.keys, a)
			out = "ok"
		}
	case len(w) == 4 && w[0] == "block":
		l, h := atoi(w[1]), uint32(atoi(w[3]))
		k.addLabel(l)
		if _, ok := k.blocks[l]; !ok {
			ph := common.Hash{}
			p := -1
			if w[2] != "-" {
				p = atoi(w[2])
				ph = k.hashOf(p)
			}
			// TxRoot only makes the hashes of equal-height siblings differ; VersionRoot stays empty so that
			// account.Manager can open the (empty) version trie of a base block
			hd := &types.Header{Height: h, ParentHash: ph, TxRoot: common.BigToHash(big.NewInt(int64(7000 + l)))}
			b := &types.Block{}
			b.SetHeader(hd)
			k.blocks[l] = b
			k.byHash[b.Hash()] = l
			k.parent[l] = p
			k.height[l] = h
		}
		b := k.blocks[l]
		err := k.db.SetBlock(b.Hash(), b)
		switch err {
		case nil:
			out = "ok"
			k.live[l] = true
			k.writes[l] = map[int]int64{}
		case store.ErrExist:
			out = "err exist"
		case store.ErrArgInvalid:
			out = "err arg"
		default:
			out = "err other"
		}
		k.c.Count("block:" + out)
	case len(w) == 4 && w[0] == "put":
		l, ki, v := atoi(w[1]), atoi(w[2]), int64(atoi(w[3]))
		if ki < len(k.keys) {
			out = Safe(func() string {
				adb, err := k.db.GetActDatabase(k.hashOf(l))
				if err != nil {
					return "err"
				}
				acct := &types.AccountData{Address: k.keys[ki], Balance: big.NewInt(v),
					NewestRecords: map[types.ChangeLogType]types.VersionRecord{}}
				adb.Put(acct, k.height[l])
				// the caller keeps working on its object (Manager does): the trie must hold a copy
				acct.Balance.SetInt64(-4242)
				acct.NewestRecords[types.ChangeLogType(1)] = types.VersionRecord{Version: 99, Height: 99}
				return "ok"
			})
			if out == "ok" && k.live[l] {
				if _, dup := k.writes[l][ki]; !dup {
					k.writes[l][ki] = v
				}
			}
			k.c.Count("put:" + out)
		}
	case len(w) == 3 && w[0] == "get":
		l, ki := atoi(w[1]), atoi(w[2])
		if ki < len(k.keys) {
			class := "hit"
			if k.live[l] || l == k.stable {
				_ = Safe(func() string {
					adb, _ := k.db.GetActDatabase(k.hashOf(l))
					if adb.GetTrie().Find(k.keys[ki].Hex()) == nil {
						class = "read-through"
					}
					return ""
				})
			}
			out = Safe(func() string {
				adb, err := k.db.GetActDatabase(k.hashOf(l))
				if err != nil {
					return "err"
				}
				a, gerr := adb.Get(k.keys[ki])
				res := balStr(a, gerr)
				if gerr == nil && a != nil && a.Balance != nil {
					// the caller mutates what Get handed out (Manager does): must not reach the trie (Copy())
					a.Balance.SetInt64(-777)
					if a.NewestRecords != nil {
						a.NewestRecords[types.ChangeLogType(1)] = types.VersionRecord{Version: 77, Height: 77}
					}
				}
				return res
			})
			if out == "panic" {
				class = "panic"
			} else if out == "none" {
				class = "absent"
			}
			k.c.Count("get:" + class)
			if k.oracle && (k.live[l] || l == k.stable) {
				want := "none"
				if v, ok := k.specView(l, ki); ok {
					want = strconv.FormatInt(v, 10)
				}
				if out != want {
					k.fail("c09/view-mismatch/get", fmt.Sprintf("`%s` returned %s, specification says %s", op, out, want))
				}
			}
		}
	case len(w) == 2 && w[0] == "stable":
		l := atoi(w[1])
		var dropped []int
		// handles obtained before the stabilisation (account.Manager keeps am.acctDb across SetStableBlock)
		handles := map[int]*store.AccountTrieDB{}
		for _, hl := range k.labels {
			if k.live[hl] {
				hl := hl
				Safe(func() string {
					if adb, err := k.db.GetActDatabase(k.hashOf(hl)); err == nil {
						handles[hl] = adb
					}
					return ""
				})
			}
		}
		out = Safe(func() string {
			blocks, err := k.db.SetStableBlock(k.hashOf(l))
			if err != nil {
				if err == store.ErrArgInvalid {
					return "err arg"
				}
				return "err other"
			}
			var ds []string
			for _, b := range blocks {
				dl, ok := k.byHash[b.Hash()]
				if !ok {
					dl = -9
				}
				dropped = append(dropped, dl)
				ds = append(ds, strconv.Itoa(dl))
			}
			return "ok " + strings.Join(ds, ",")
		})
		k.c.Count("stable:" + firstWord(out))
		if strings.HasPrefix(out, "ok") {
			if len(dropped) > 0 {
				k.c.Count("stable:pruned-forks")
			}
			k.afterStable(l, dropped, op)
			k.checkStaleHandles(handles, op)
		}
	case len(w) == 3 && w[0] == "anc":
		h, leaf := uint32(atoi(w[1])), atoi(w[2])
		out = Safe(func() string {
			b, err := k.db.GetUnConfirmByHeight(h, k.hashOf(leaf))
			if err != nil {
				if err == store.ErrBlockNotExist {
					return "none"
				}
				return "err"
			}
			if l, ok := k.byHash[b.Hash()]; ok {
				return strconv.Itoa(l)
			}
			return "?"
		})
		k.c.Count("anc:" + map[bool]string{true: "found", false: out}[out != "none" && out != "panic"])
		k.checkAnc(int(h), leaf, out, op)
	case len(w) == 1 && w[0] == "dump":
		out = k.dump()
	case len(w) == 1 && w[0] == "shape":
		out = k.shape()
	}
	k.c.Op(op, out)
	if w[0] != "dump" && w[0] != "shape" && w[0] != "key" && k.db != nil {
		k.checkViews(op)
		k.checkTree(op)
	}
	return out
}

// record logs an op line whose effect on the real store was produced through ANOTHER entry point
// (account.Manager.GetAccount / Manager.Save) together with the answer the direct call would have given;
// the Lean model executes the line as usual.  Spec bookkeeping as in exec.
func (k *c09Case) record(op, out string) {
	w := strings.Fields(op)
	atoi := func(s string) int { n, _ := strconv.Atoi(s); return n }
	k.log = append(k.log, op)
	if w[0] == "put" && out == "ok" {
		l, ki, v := atoi(w[1]), atoi(w[2]), int64(atoi(w[3]))
		if k.live[l] {
			if _, dup := k.writes[l][ki]; !dup {
				k.writes[l][ki] = v
			}
		}
	}
	k.c.Op(op, out)
}

// saveViaManager writes the write set `ws` of the (already accepted, still empty) block l with parent p the way the
// chain does: account.NewManager(parent) → GetAccount (a read through the PARENT's view, caching in place) →
// SetBalance → Finalise → Save(l), which Puts every dirty account with dye CurrentBlockHeight().  The equivalent
// op lines for the model are `get p k` per account and then `put l k v` per account (Save iterates a Go map: the
// order of its Puts is unknown, the lines are emitted in key order — the reachable trie does not depend on it).
func (k *c09Case) saveViaManager(l, p int, ws []int, val func(l, ki int) int) bool {
	ok := true
	res := func() (r string) {
		defer func() {
			if e := recover(); e != nil {
				r = fmt.Sprintf("panic: %v", e)
			}
		}()
		am := account.NewManager(k.hashOf(p), k.db)
		if k.c.Rnd.Intn(3) == 0 && len(ws) > 0 {
			// an ABANDONED execution on the same parent first (a mined block thrown away, a sibling that failed verification):
			// the same accounts plus one more are read and overwritten, nothing is saved; then Reset(parent), as
			// TxProcessor.Process / ApplyTxs do for every block.  From here on the manager must be the view of the parent
			// again (seed C09k: a same-hash fast path of Reset kept the modified account objects): the reads below are
			// judged by c09/view-mismatch/manager-get, what Save puts by checkViews.
			extra := (ws[0] + 1) % len(k.keys)
			for _, ki := range append(append([]int(nil), ws...), extra) {
				want := k.peek(p, ki)
				acc := am.GetAccount(k.keys[ki])
				k.record(fmt.Sprintf("get %d %d", p, ki), want)
				acc.SetBalance(big.NewInt(int64(770000 + ki)))
			}
			am.Reset(k.hashOf(p))
			k.c.Count("c09:manager:abandoned-execution-then-reset")
		}
		for _, ki := range ws {
			want := k.peek(p, ki)
			acc := am.GetAccount(k.keys[ki])
			k.record(fmt.Sprintf("get %d %d", p, ki), want)
			if k.oracle {
				spec := "none"
				if v, ok := k.specView(p, ki); ok {
					spec = strconv.FormatInt(v, 10)
				}
				got := "none"
				if want != "none" {
					got = acc.GetBalance().String()
				}
				if got != spec {
					k.fail("c09/view-mismatch/manager-get", fmt.Sprintf("Manager(base %d).GetAccount(key %d) has balance %s, specification says %s", p, ki, got, spec))
				}
			}
			k.exec("dump")
			acc.SetBalance(big.NewInt(int64(val(l, ki))))
		}
		if err := am.Finalise(); err != nil {
			return "finalise:" + err.Error()
		}
		if err := am.Save(k.hashOf(l)); err != nil {
			return "save:" + err.Error()
		}
		return "ok"
	}()
	if res != "ok" {
		k.fail("c09/manager-save", fmt.Sprintf("Manager.Save for block %d (parent %d) failed: %s", l, p, res))
		ok = false
	}
	if len(ws) > 1 {
		k.noShape = true
	}
	sorted := append([]int(nil), ws...)
	sort.Ints(sorted)
	for _, ki := range sorted {
		k.record(fmt.Sprintf("put %d %d %d", l, ki, val(l, ki)), "ok")
	}
	k.exec("dump")
	k.exec("shape")
	k.checkViews(fmt.Sprintf("Manager.Save(block %d)", l))
	return ok
}

// spec bookkeeping + pruning/persistence oracle after a successful SetStableBlock(l)
func (k *c09Case) afterStable(l int, dropped []int, op string) {
	// path from l up to (excluding) the old stable block
	path := map[int]bool{}
	for cur := l; cur >= 0 && cur != k.stable && k.live[cur]; cur = k.parent[cur] {
		path[cur] = true
	}
	wantDropped := map[int]bool{}
	wantLive := map[int]bool{}
	for b := range k.live {
		if path[b] {
			continue
		}
		if k.isDescendant(b, l) {
			wantLive[b] = true
		} else {
			wantDropped[b] = true
		}
	}
	for b := range path {
		k.committed[b] = true
	}
	k.live = wantLive
	k.stable = l
	if !k.oracle {
		return
	}
	gotDropped := map[int]bool{}
	for _, d := range dropped {
		gotDropped[d] = true
	}
	if fmt.Sprint(sortedKeys(gotDropped)) != fmt.Sprint(sortedKeys(wantDropped)) {
		k.fail("c09/prune/dropped", fmt.Sprintf("`%s` dropped %v, the non-descendants are %v", op, sortedKeys(gotDropped), sortedKeys(wantDropped)))
	}
	gotLive := map[int]bool{}
	for h := range k.db.UnConfirmBlocks {
		if bl, ok := k.byHash[h]; ok {
			gotLive[bl] = true
		} else {
			gotLive[-9] = true
		}
	}
	if fmt.Sprint(sortedKeys(gotLive)) != fmt.Sprint(sortedKeys(wantLive)) {
		k.fail("c09/prune/live-set", fmt.Sprintf("after `%s` the unconfirmed set is %v, the strict descendants are %v", op, sortedKeys(gotLive), sortedKeys(wantLive)))
	}
	for d := range wantDropped {
		if ok, _ := k.db.IsExistByHash(k.hashOf(d)); ok {
			k.fail("c09/prune/exists", fmt.Sprintf("after `%s` pruned block %d still exists", op, d))
		}
	}
	for d := range path {
		if ok, _ := k.db.IsExistByHash(k.hashOf(d)); !ok {
			k.fail("c09/prune/lost-stable", fmt.Sprintf("after `%s` committed block %d does not exist", op, d))
		}
	}
	if k.implStable() != l {
		k.fail("c09/prune/last-confirm", fmt.Sprintf("after `%s` LastConfirm is %d", op, k.implStable()))
	}
	for ki, a := range k.keys {
		got := balStr(k.db.GetAccount(a))
		want := "none"
		if v, ok := k.specView(l, ki); ok {
			want = strconv.FormatInt(v, 10)
		}
		if got != want {
			k.fail("c09/persist", fmt.Sprintf("after `%s` the persisted account %d (%s) is %s, the view of the new stable block says %s", op, ki, a.Hex(), got, want))
			break
		}
	}
}

// a handle fetched before SetStableBlock must keep answering like a freshly fetched one for every block that
// is still viewable (a survivor, or the new stable block)
func (k *c09Case) checkStaleHandles(handles map[int]*store.AccountTrieDB, op string) {
	if k.db == nil {
		return
	}
	for _, l := range k.viewable() {
		old := handles[l]
		if old == nil {
			continue
		}
		for ki := range k.keys {
			got := Safe(func() string {
				d := old.GetTrie().Find(k.keys[ki].Hex())
				if d == nil {
					return balStr(k.db.GetAccount(k.keys[ki]))
				}
				a, ok := d.(*types.AccountData)
				if !ok {
					return "badtype"
				}
				return balStr(a, nil)
			})
			want := k.peek(l, ki)
			if got != want {
				k.fail("c09/stale-handle", fmt.Sprintf("after `%s` the AccountTrieDB handle of block %d fetched before the call reads %s for key %d, a fresh handle reads %s", op, l, got, ki, want))
				return
			}
		}
		k.c.Count("stale-handle:checked")
	}
}

func sortedKeys(m map[int]bool) []int {
	var out []int
	for k := range m {
		out = append(out, k)
	}
	sort.Ints(out)
	return out
}

func c09RunScript(c *Ctx, text string, oracle bool) {
	k := newC09Case(c, oracle)
	defer k.close()
	for _, line := range strings.Split(text, "\n") {
		line = strings.TrimSpace(line)
		if line == "" || strings.HasPrefix(line, "#") {
			continue
		}
		if k.db == nil && line != "open" {
			k.exec("open")
		}
		k.exec(line)
	}
}

// c09Variant reports whether the split case of PatriciaTrie.put shares the children backing array of the
// old child ("asis", the code before fix fb6e64c) or copies it ("fixed", the code in /repo).
func c09Variant() string {
	t := store.NewEmptyDatabase()
	acct := func(v int64) *types.AccountData { return &types.AccountData{Balance: big.NewInt(v)} }
	t.Put("ab1", acct(1), 1)
	t.Put("ab2", acct(2), 1)
	t.Put("ab3", acct(3), 1)
	t2 := t.Clone()
	t2.Put("ac1", acct(4), 2)
	sh := store.VerifTrieShape([]*store.PatriciaTrie{t, t2})
	// as-is: the node "b" of t2 reuses array a2 of t's node "ab": "...|a2:3/4[" appears twice
	if strings.Count(sh, "|a2:3/4[") >= 2 {
		return "asis"
	}
	return "fixed"
}

func c09CorpusDir() string {
	exe, err := os.Executable()
	if err != nil {
		return ""
	}
	return filepath.Join(filepath.Dir(exe), "..", "harness", "corpus", "C09")
}

func c09(c *Ctx) {
	if p := os.Getenv("C09_SCRIPT"); p != "" {
		b, err := os.ReadFile(p)
		if err != nil {
			panic(err)
		}
		c09RunScript(c, string(b), true)
		return
	}
	// The model is PINNED to the repaired put (fix fb6e64c).  The probe is only an oracle: if the code under test
	// shares the children backing array again, that is reported and the correspondence (model = repaired) breaks.
	c.Op("variant fixed", "ok")
	if v := c09Variant(); v != "fixed" {
		c.Count("variant:" + v)
		c.Fail("c09/put-split-aliases-child-array", "the split case of PatriciaTrie.put shares the old child's children backing array (probe on a 4-key trie: two nodes over one array)", map[string]interface{}{"probe": v})
	} else {
		c.Count("variant:fixed")
	}
	// regression corpus first (deterministic witnesses)
	c09RunScript(c, c09Witness, true)
	c.Count("corpus-script")
	if files, err := filepath.Glob(filepath.Join(c09CorpusDir(), "*.ops")); err == nil {
		sort.Strings(files)
		for _, f := range files {
			if b, err := os.ReadFile(f); err == nil {
				c09RunScript(c, string(b), true)
				c.Count("corpus-script")
			}
		}
	}
	for i := 0; i < c.N; i++ {
		if i%6 == 5 {
			c09Boot(c, i) // the genesis bootstrap: several height-0 blocks, no stable block yet (c09_boot.go)
		} else {
			c09Random(c, i)
		}
	}
	c09PutSites(c)
}

// key universe: 2-4 groups of addresses; a group shares all but the last nibble, so that its members
// become the children of one compressed edge (>= 3 children: the backing array has cap > len) and a
// key of another group splits that edge.  Returns the keys (sorted) and the group of each key.
func c09Keys(c *Ctx) ([]string, []int) {
	if c.Rnd.Intn(4) == 0 {
		return c09KeysDeep(c)
	}
	prefixes := []string{"3a", "3b", "4c", "4d", "3c"}
	c.Rnd.Shuffle(len(prefixes), func(i, j int) { prefixes[i], prefixes[j] = prefixes[j], prefixes[i] })
	ng := 2 + c.Rnd.Intn(3)
	last := "123456789abcdef"
	type kg struct {
		s string
		g int
	}
	var all []kg
	for g := 0; g < ng; g++ {
		lead := "0"
		if c.Rnd.Intn(6) == 0 {
			lead = "f" // branching at the very first nibble
		}
		m := 1 + c.Rnd.Intn(6)
		if g == 0 {
			m = 3 + c.Rnd.Intn(5)
		}
		perm := c.Rnd.Perm(len(last))
		for i := 0; i < m && len(all) < 14; i++ {
			all = append(all, kg{lead + strings.Repeat("0", 36) + prefixes[g] + string(last[perm[i]]), g})
		}
	}
	sort.Slice(all, func(i, j int) bool { return all[i].s < all[j].s })
	var ks []string
	var gs []int
	for _, x := range all {
		ks = append(ks, x.s)
		gs = append(gs, x.g)
	}
	return ks, gs
}

// deep key universe: branching at two random inner nibbles (long compressed edges above, between and below:
// `substring`, deep path cloning), leaves that differ in the last one or two nibbles, and one group with 9..16
// members under one node (children arrays grow 1→2→4→8→16).
func c09KeysDeep(c *Ctx) ([]string, []int) {
	c.Count("keys:deep")
	nib := "0123456789abcdef"
	p1 := c.Rnd.Intn(19)      // 0..18
	p2 := 20 + c.Rnd.Intn(18) // 20..37
	type kg struct {
		s string
		g int
	}
	var all []kg
	seen := map[string]bool{}
	g := 0
	nstem := 2 + c.Rnd.Intn(2)
	v1s := c.Rnd.Perm(16)
	for st := 0; st < nstem; st++ {
		nsub := 1 + c.Rnd.Intn(3)
		v2s := c.Rnd.Perm(16)
		for sb := 0; sb < nsub; sb++ {
			m := 1 + c.Rnd.Intn(4)
			if g == 0 {
				m = 9 + c.Rnd.Intn(8)
			}
			leaves := c.Rnd.Perm(16)
			for i := 0; i < m && len(all) < 30; i++ {
				b := []byte(strings.Repeat("0", 40))
				b[p1] = nib[v1s[st]]
				b[p2] = nib[v2s[sb]]
				b[39] = nib[leaves[i%16]]
				if g != 0 && c.Rnd.Intn(3) == 0 {
					b[38] = nib[c.Rnd.Intn(16)]
				}
				if !seen[string(b)] {
					seen[string(b)] = true
					all = append(all, kg{string(b), g})
				}
			}
			g++
		}
	}
	sort.Slice(all, func(i, j int) bool { return all[i].s < all[j].s })
	var ks []string
	var gs []int
	for _, x := range all {
		ks = append(ks, x.s)
		gs = append(gs, x.g)
	}
	return ks, gs
}

func c09Random(c *Ctx, idx int) {
	wild := c.Rnd.Intn(6) == 0 // malformed stream: duplicate puts, late writes, ops on pruned blocks… (oracle off)
	k := newC09Case(c, !wild)
	defer k.close()
	if wild {
		c.Count("case:wild")
	} else {
		c.Count("case:valid")
	}
	step := 0
	do := func(op string) string {
		out := k.exec(op)
		step++
		if op != "dump" && op != "shape" && !strings.HasPrefix(op, "key") {
			k.exec("dump")
			if step%4 == 0 {
				k.exec("shape")
			}
		}
		return out
	}
	do("open")
	keys, groups := c09Keys(c)
	for i, s := range keys {
		k.exec(fmt.Sprintf("key %d %s", i, s))
	}
	nk := len(keys)
	next := 0 // next label
	newLabel := func() int { next++; return next - 1 }
	val := func(l, ki int) int { return (l+1)*100 + ki + 1 }
	// genesis with persisted accounts
	persist := make([]bool, nk)
	for ki := range persist {
		persist[ki] = c.Rnd.Intn(5) < 2
	}
	// directed prefix (a third of the cases): the members W of group 0 are written by one block, the
	// members E stay on disk only (to be cached by read-through later), a child writes into another group.
	directed := c.Rnd.Intn(3) == 0
	var dirW, dirE, dirOther []int
	if directed {
		var m []int
		for ki := 0; ki < nk; ki++ {
			if groups[ki] == 0 {
				m = append(m, ki)
			} else {
				dirOther = append(dirOther, ki)
			}
		}
		if len(m) < 4 || len(dirOther) == 0 {
			directed = false
		} else {
			c.Rnd.Shuffle(len(m), func(i, j int) { m[i], m[j] = m[j], m[i] })
			ne := 1 + c.Rnd.Intn(2)
			if len(m)-ne < 3 {
				ne = 1
			}
			dirE, dirW = m[:ne], m[ne:]
			for _, ki := range dirE {
				persist[ki] = true
			}
			for _, ki := range dirW {
				persist[ki] = c.Rnd.Intn(6) == 0
			}
		}
	}
	g := newLabel()
	do(fmt.Sprintf("block %d - 0", g))
	for ki := 0; ki < nk; ki++ {
		if persist[ki] {
			do(fmt.Sprintf("put %d %d %d", g, ki, val(g, ki)))
		}
	}
	if wild && c.Rnd.Intn(4) == 0 {
		do(fmt.Sprintf("block %d %d 1", 50, g)) // child of an unstable genesis: rejected
		do(fmt.Sprintf("anc 1 %d", g))          // no stable block yet
	}
	do(fmt.Sprintf("stable %d", g))
	if directed || c.Rnd.Intn(5) != 0 {
		do("reopen")
		c.Count("restart-before-tree")
	}
	pending := map[int][]int{} // label -> keys still to write
	children := map[int]int{}
	hasPending := func(l int) bool { return len(pending[l]) > 0 }
	pathPending := func(l int) bool {
		for cur := l; cur >= 0 && k.live[cur]; cur = k.parent[cur] {
			if hasPending(cur) {
				return true
			}
		}
		return false
	}
	liveList := func() []int {
		var out []int
		for _, l := range k.labels {
			if k.live[l] {
				out = append(out, l)
			}
		}
		return out
	}
	if directed {
		c.Count("case:directed-prefix")
		p := newLabel()
		do(fmt.Sprintf("block %d %d %d", p, k.stable, k.height[k.stable]+1))
		children[k.stable]++
		for _, ki := range dirW {
			do(fmt.Sprintf("put %d %d %d", p, ki, val(p, ki)))
			if c.Rnd.Intn(8) == 0 {
				do(fmt.Sprintf("get %d %d", p, dirE[c.Rnd.Intn(len(dirE))]))
			}
		}
		nch := 1 + c.Rnd.Intn(3)
		var kidsOfP []int
		for i := 0; i < nch; i++ {
			l := newLabel()
			do(fmt.Sprintf("block %d %d %d", l, p, k.height[p]+1))
			children[p]++
			kidsOfP = append(kidsOfP, l)
			if i == 0 || c.Rnd.Intn(2) == 0 {
				ki := dirOther[c.Rnd.Intn(len(dirOther))]
				do(fmt.Sprintf("put %d %d %d", l, ki, val(l, ki)))
			}
		}
		views := append([]int{p}, kidsOfP...)
		for _, ki := range dirE {
			do(fmt.Sprintf("get %d %d", views[c.Rnd.Intn(len(views))], ki))
		}
	}
	nops := 15 + c.Rnd.Intn(40)
	maxLive := 3 + c.Rnd.Intn(6)
	for s := 0; s < nops; s++ {
		live := liveList()
		r := c.Rnd.Intn(100)
		switch {
		case r < 22: // new block
			if len(live) >= maxLive {
				continue
			}
			cands := []int{k.stable}
			for _, l := range live {
				if !hasPending(l) {
					cands = append(cands, l)
					if children[l] > 0 { // favour siblings at equal height
						cands = append(cands, l)
					}
				}
			}
			p := cands[c.Rnd.Intn(len(cands))]
			l := newLabel()
			if do(fmt.Sprintf("block %d %d %d", l, p, k.height[p]+1)) == "ok" {
				children[p]++
				if children[p] >= 2 {
					c.Count("tree:siblings")
				}
				// write set: one Put per key
				perm := c.Rnd.Perm(nk)
				if c.Rnd.Intn(5) < 3 { // mostly the members of one group (siblings under one compressed edge)
					g := groups[c.Rnd.Intn(nk)]
					var in []int
					for _, ki := range perm {
						if groups[ki] == g {
							in = append(in, ki)
						}
					}
					perm = in
				}
				nw := c.Rnd.Intn(5)
				if c.Rnd.Intn(4) == 0 {
					nw = c.Rnd.Intn(nk + 1)
				}
				if nw > len(perm) {
					nw = len(perm)
				}
				if !wild && nw > 0 && c.Rnd.Intn(3) == 0 {
					// the whole write set in one go, through account.Manager (dye = CurrentBlockHeight())
					k.saveViaManager(l, p, perm[:nw], val)
					c.Count("put:via-manager-save")
					nw = 0
					perm = nil
				} else {
					pending[l] = perm[:nw]
				}
				if nw == 0 && perm != nil {
					c.Count("block:no-writes")
				}
			}
		case r < 55: // continue a write set
			var ws []int
			for _, l := range live {
				if hasPending(l) {
					ws = append(ws, l)
				}
			}
			if len(ws) == 0 {
				continue
			}
			l := ws[c.Rnd.Intn(len(ws))]
			ki := pending[l][0]
			pending[l] = pending[l][1:]
			do(fmt.Sprintf("put %d %d %d", l, ki, val(l, ki)))
		case r < 80: // read through some view (mostly keys that exist on disk: those are cached in place)
			views := append([]int{k.stable}, live...)
			l := views[c.Rnd.Intn(len(views))]
			ki := c.Rnd.Intn(nk)
			if c.Rnd.Intn(10) < 7 { // prefer a key this view would have to fetch from disk (mutating read)
				for _, cand := range c.Rnd.Perm(nk) {
					miss := false
					Safe(func() string {
						adb, _ := k.db.GetActDatabase(k.hashOf(l))
						miss = adb.GetTrie().Find(k.keys[cand].Hex()) == nil
						return ""
					})
					if miss && balStr(k.db.GetAccount(k.keys[cand])) != "none" {
						ki = cand
						break
					}
				}
			}
			do(fmt.Sprintf("get %d %d", l, ki))
		case r < 88: // stabilise
			var cands []int
			for _, l := range live {
				if !pathPending(l) {
					cands = append(cands, l)
				}
			}
			if len(cands) == 0 {
				continue
			}
			l := cands[c.Rnd.Intn(len(cands))]
			if c.Rnd.Intn(3) != 0 { // mostly a child of the stable block
				for k.parent[l] != k.stable && k.live[k.parent[l]] {
					l = k.parent[l]
				}
			}
			do(fmt.Sprintf("stable %d", l))
			for b := range pending {
				if !k.live[b] {
					delete(pending, b)
				}
			}
		case r < 89: // restart: unconfirmed blocks are gone, the trie is empty again
			do("reopen")
			c.Count("restart-mid")
			pending = map[int][]int{}
			children = map[int]int{}
		case r < 95: // harmless malformed ops (no state change)
			switch c.Rnd.Intn(6) {
			case 0:
				do(fmt.Sprintf("block %d %d %d", g, g, 1)) // existing (committed) label
			case 1:
				if len(live) > 0 {
					p := live[c.Rnd.Intn(len(live))]
					do(fmt.Sprintf("block %d %d %d", newLabel(), p, k.height[p]+2)) // wrong height
				}
			case 2:
				do(fmt.Sprintf("block %d %d %d", newLabel(), 900+c.Rnd.Intn(5), k.height[k.stable]+1)) // unknown parent
			case 3:
				do(fmt.Sprintf("stable %d", 900+c.Rnd.Intn(5))) // unknown block
			case 4:
				do(fmt.Sprintf("get %d %d", 900+c.Rnd.Intn(5), c.Rnd.Intn(nk))) // unknown block: panics
			case 5:
				if len(live) > 0 {
					do(fmt.Sprintf("block %d %d %d", live[c.Rnd.Intn(len(live))], k.stable, k.height[k.stable]+1)) // duplicate
				}
			}
		default:
			if len(live) > 0 {
				leaf := live[c.Rnd.Intn(len(live))]
				do(fmt.Sprintf("anc %d %d", int(k.height[k.stable])+c.Rnd.Intn(4), leaf))
			}
		}
		if wild && c.Rnd.Intn(4) == 0 {
			all := append([]int{}, k.labels...)
			l := all[c.Rnd.Intn(len(all))]
			switch c.Rnd.Intn(4) {
			case 0: // a second Put of the same key by the same block / late write / write via a pruned or stable label
				do(fmt.Sprintf("put %d %d %d", l, c.Rnd.Intn(nk), 90000+s))
				c.Count("wild:put-anywhere")
			case 1:
				do(fmt.Sprintf("get %d %d", l, c.Rnd.Intn(nk)))
			case 2:
				do(fmt.Sprintf("stable %d", l))
				for b := range pending {
					if !k.live[b] {
						delete(pending, b)
					}
				}
			case 3: // re-submit a pruned block
				if !k.live[l] && l != g {
					if do(fmt.Sprintf("block %d %d %d", l, k.parent[l], k.height[l])) == "ok" {
						c.Count("wild:resubmitted")
					}
				}
			}
		}
	}
	k.exec("shape")
}

package main

// C09 — (1) the GENESIS BOOTSTRAP generator: the database has no stable block, several height-0 blocks (each with its
// own fresh trie, Puts dyed 0 = the cache dye), duplicate Puts, reads of accounts another height-0 block wrote,
// restarts inside the phase, the first SetStableBlock (drops the other height-0 blocks) and the IN-PROCESS continuation
// (no restart) on top of the new stable block.  Theorems: LemoProofs.C09.utree_inv_genesis / genesis_put_effect /
// genesis_view / utree_boot_refines.  The specification oracle stays ON for duplicate Puts in the phase (first write wins).
// (2) direct oracles for the tree queries (LemoProofs.C09.anc_spec / iterate_spec / isExist_spec / dropped_step_spec).
// (3) the call-site fact behind the usage guard of Put (who calls AccountTrieDB.Put / CandidateTrieDB.Put / Manager.Save).

import (
	"fmt"
	"math/big"
	"go/ast"
	"go/parser"
	"go/token"
	"os"
	"path/filepath"
	"sort"
	"strconv"
	"strings"

	"github.com/LemoFoundationLtd/lemochain-core/chain/account"
	"github.com/LemoFoundationLtd/lemochain-core/chain/types"
	"github.com/LemoFoundationLtd/lemochain-core/common"
)

// checkAnc: GetUnConfirmByHeight against the specification's parent map.
func (k *c09Case) checkAnc(h int, leaf int, out, op string) {
	if k.db == nil {
		return
	}
	if k.stable < 0 {
		k.c.Count("anc:no-stable")
		return
	}
	sh := int(k.height[k.stable])
	class, want := "", ""
	switch {
	case h <= sh:
		class, want = "low", "none"
	case !k.live[leaf]:
		class, want = "unknown-leaf", "none"
	case h > int(k.height[leaf]):
		class, want = "above-leaf", strconv.Itoa(leaf) // the code hands back the leaf itself
	default:
		class = "ancestor"
		cur := leaf
		for n := 0; n < 10000 && int(k.height[cur]) > h; n++ {
			cur = k.parent[cur]
		}
		want = strconv.Itoa(cur)
	}
	k.c.Count("anc-class:" + class)
	if k.oracle && out != want {
		k.fail("c09/anc-mismatch/"+class, fmt.Sprintf("`%s` returned %s, the parent map says %s (stable height %d, leaf height %d)", op, out, want, sh, k.height[leaf]))
	}
}

// checkTree: IterateUnConfirms visits exactly the live blocks, once each, parents first; IsExistByHash = live or committed.
func (k *c09Case) checkTree(after string) {
	if !k.oracle || k.db == nil {
		return
	}
	pos := map[int]int{}
	var seq []int
	bad := ""
	k.db.IterateUnConfirms(func(b *types.Block) {
		l, ok := k.byHash[b.Hash()]
		if !ok {
			bad = "unknown block"
			return
		}
		if _, dup := pos[l]; dup {
			bad = fmt.Sprintf("block %d twice", l)
		}
		pos[l] = len(seq)
		seq = append(seq, l)
	})
	for l := range k.live {
		if _, ok := pos[l]; !ok && bad == "" {
			bad = fmt.Sprintf("live block %d not visited", l)
		}
	}
	for _, l := range seq {
		if !k.live[l] && bad == "" {
			bad = fmt.Sprintf("visited %d which is not unconfirmed", l)
		}
		if p := k.parent[l]; p != k.stable && p >= 0 && bad == "" {
			if pp, ok := pos[p]; !ok || pp > pos[l] {
				bad = fmt.Sprintf("block %d before its parent %d", l, p)
			}
		}
	}
	if bad != "" {
		k.fail("c09/iterate-mismatch", fmt.Sprintf("after `%s` IterateUnConfirms gave %v: %s", after, seq, bad))
	}
	for _, l := range k.labels {
		want := k.live[l] || k.committed[l]
		got, err := k.db.IsExistByHash(k.hashOf(l))
		if err != nil || got != want {
			k.fail("c09/isexist-mismatch", fmt.Sprintf("after `%s` IsExistByHash(block %d) = %v (err %v), live-or-committed says %v", after, l, got, err, want))
			return
		}
	}
	if len(seq) > 1 {
		k.c.Count("tree:iterate-checked")
	}
}

func c09Boot(c *Ctx, idx int) {
	k := newC09Case(c, true)
	defer k.close()
	c.Count("boot:case")
	step := 0
	do := func(op string) string {
		out := k.exec(op)
		step++
		if op != "dump" && op != "shape" && !strings.HasPrefix(op, "key") {
			k.exec("dump")
			if step%3 == 0 {
				k.exec("shape")
			}
		}
		return out
	}
	do("open")
	keys, _ := c09Keys(c)
	for i, s := range keys {
		k.exec(fmt.Sprintf("key %d %s", i, s))
	}
	nk := len(keys)
	val := func(l, ki, gen int) int { return (l+1)*1000 + gen*100 + ki + 1 }
	ng := 1 + c.Rnd.Intn(3)
	c.Count(fmt.Sprintf("boot:genesis-blocks=%d", ng))
	var order []int // live height-0 blocks in insertion order
	submit := func(g int) {
		if do(fmt.Sprintf("block %d - 0", g)) == "ok" {
			order = append(order, g)
		}
	}
	submit(0)
	gen := 0
	nops := 6 + c.Rnd.Intn(14)
	for s := 0; s < nops; s++ {
		r := c.Rnd.Intn(100)
		var live []int
		for _, g := range order {
			if k.live[g] {
				live = append(live, g)
			}
		}
		switch {
		case r < 15:
			if len(live) < ng {
				for g := 0; g < ng; g++ {
					if !k.live[g] {
						submit(g)
						if len(order) > 1 {
							c.Count("boot:second-height0-block")
						}
						break
					}
				}
			}
		case r < 55: // Put (sometimes the same account again: dropped by the code, first write wins)
			if len(live) == 0 {
				continue
			}
			g := live[c.Rnd.Intn(len(live))]
			ki := c.Rnd.Intn(nk)
			if _, dup := k.writes[g][ki]; dup {
				c.Count("boot:dup-put")
			}
			for _, o := range live {
				if _, other := k.writes[o][ki]; other && o != g {
					c.Count("boot:put-account-another-height0-block-wrote")
				}
			}
			gen++
			if c.Rnd.Intn(3) == 0 {
				// the way chain/genesis.go writes the genesis accounts: account.NewManager(zero hash) -> SetBalance -> Finalise ->
				// Save(hash of the height-0 block), which Puts with dye CurrentBlockHeight() = 0 for a manager without a base block
				// (review T2/M7: `return 0` -> `return 1` there went unnoticed).  Same op line for the model as the direct Put.
				op := fmt.Sprintf("put %d %d %d", g, ki, val(g, ki, gen%9))
				v := int64(val(g, ki, gen%9))
				out := Safe(func() string {
					am := account.NewManager(common.Hash{}, k.db)
					am.GetAccount(k.keys[ki]).SetBalance(big.NewInt(v))
					if err := am.Finalise(); err != nil {
						return "finalise:" + err.Error()
					}
					if err := am.Save(k.hashOf(g)); err != nil {
						return "save:" + err.Error()
					}
					return "ok"
				})
				k.record(op, out)
				step++
				k.exec("dump")
				k.exec("shape")
				k.checkViews(op)
				k.checkTree(op)
				c.Count("boot:put-via-manager-zero-base:" + out)
				continue
			}
			do(fmt.Sprintf("put %d %d %d", g, ki, val(g, ki, gen%9)))
		case r < 80: // Get: own account, an account only ANOTHER height-0 block wrote, an absent one
			if len(live) == 0 {
				continue
			}
			g := live[c.Rnd.Intn(len(live))]
			ki := c.Rnd.Intn(nk)
			for _, o := range live {
				if o != g && len(k.writes[o]) > 0 && c.Rnd.Intn(2) == 0 {
					for cand := range k.writes[o] {
						if _, own := k.writes[g][cand]; !own {
							ki = cand
							c.Count("boot:get-account-of-other-height0-block")
						}
						break
					}
				}
			}
			do(fmt.Sprintf("get %d %d", g, ki))
		case r < 86: // restart inside the phase: everything is gone, the database is empty again
			do("reopen")
			c.Count("boot:reopen-in-phase")
			order = nil
			submit(c.Rnd.Intn(ng))
		case r < 92: // rejected / panicking ops of the phase
			switch c.Rnd.Intn(5) {
			case 0:
				do(fmt.Sprintf("block %d %d 1", 50, 0)) // child of an unstable height-0 block
			case 1:
				do(fmt.Sprintf("anc %d %d", c.Rnd.Intn(2), 0)) // no stable block: nil dereference
			case 2:
				do(fmt.Sprintf("stable %d", 900)) // unknown
			case 3:
				do(fmt.Sprintf("put %d %d %d", 901, c.Rnd.Intn(nk), 7)) // unknown block: GetActDatabase panics
			case 4:
				do(fmt.Sprintf("block %d - 0", live0(live))) // duplicate
			}
			c.Count("boot:rejected-op")
		default:
			if len(live) > 0 {
				do(fmt.Sprintf("get %d %d", 902, c.Rnd.Intn(nk))) // unknown block: panics
			}
		}
	}
	var live []int
	for _, g := range order {
		if k.live[g] {
			live = append(live, g)
		}
	}
	if len(live) == 0 {
		submit(0)
		live = []int{0}
	}
	gs := live[c.Rnd.Intn(len(live))]
	var wantDropped []string
	for _, g := range live {
		if g != gs {
			wantDropped = append(wantDropped, strconv.Itoa(g))
		}
	}
	out := do(fmt.Sprintf("stable %d", gs))
	if want := "ok " + strings.Join(wantDropped, ","); out != want {
		k.fail("c09/boot/dropped-order", fmt.Sprintf("the first SetStableBlock(%d) answered %q, the other height-0 blocks in insertion order are %q", gs, out, want))
	}
	if len(wantDropped) > 0 {
		c.Count("boot:dropped-height0-blocks")
	}
	// IN-PROCESS continuation (no restart): the stable trie still holds the genesis writes, dyed 0
	if c.Rnd.Intn(4) == 0 {
		do("reopen")
		c.Count("boot:restart-after-genesis")
	} else {
		c.Count("boot:continue-in-process")
	}
	for _, g := range live {
		if g != gs {
			do(fmt.Sprintf("block %d - 0", g)) // a dropped height-0 block again: rejected now
			break
		}
	}
	next := 10
	var tree []int
	for s := 0; s < 8+c.Rnd.Intn(10); s++ {
		r := c.Rnd.Intn(100)
		switch {
		case r < 30 && len(tree) < 5:
			p := k.stable
			if len(tree) > 0 && c.Rnd.Intn(2) == 0 {
				p = tree[c.Rnd.Intn(len(tree))]
			}
			if !k.live[p] && p != k.stable {
				continue
			}
			hasKid := false
			for _, t := range tree {
				if k.live[t] && k.parent[t] == p {
					hasKid = true
				}
			}
			_ = hasKid
			l := next
			next++
			if do(fmt.Sprintf("block %d %d %d", l, p, k.height[p]+1)) == "ok" {
				tree = append(tree, l)
				c.Count("boot:child-after-genesis")
				// its write set, before it can get children
				for _, ki := range c.Rnd.Perm(nk)[:c.Rnd.Intn(3)] {
					gen++
					do(fmt.Sprintf("put %d %d %d", l, ki, val(l, ki, gen%9)))
				}
			}
		case r < 65:
			views := []int{k.stable}
			for _, t := range tree {
				if k.live[t] {
					views = append(views, t)
				}
			}
			do(fmt.Sprintf("get %d %d", views[c.Rnd.Intn(len(views))], c.Rnd.Intn(nk)))
		case r < 80:
			var cands []int
			for _, t := range tree {
				if k.live[t] {
					cands = append(cands, t)
				}
			}
			if len(cands) > 0 {
				leaf := cands[c.Rnd.Intn(len(cands))]
				do(fmt.Sprintf("anc %d %d", int(k.height[k.stable])+c.Rnd.Intn(5), leaf))
			}
		case r < 90:
			var cands []int
			for _, t := range tree {
				if k.live[t] {
					cands = append(cands, t)
				}
			}
			if len(cands) > 0 {
				do(fmt.Sprintf("stable %d", cands[c.Rnd.Intn(len(cands))]))
				c.Count("boot:second-stable")
			}
		default:
			do(fmt.Sprintf("anc %d %d", int(k.height[k.stable])+1+c.Rnd.Intn(3), 900)) // unknown leaf
		}
	}
	k.exec("shape")
}

func live0(live []int) int {
	if len(live) == 0 {
		return 0
	}
	return live[0]
}

// c09PutSites: the usage guard of Put (one Put per account per block, before the block has children, dye = the block's
// height) is an assumption about the CALLERS.  The fact: every call of a two-argument method `Put` (outside store/leveldb,
// whose Put(key, value) is the key-value store) and every three-argument `<x>.trie.Put`, with file and enclosing function;
// and for every `<..>am.Save(h)` whether `SetBlock(h, …)` precedes it in the same function.  The model driver compares the
// line with the pinned expectation.
func c09PutSites(c *Ctx) {
	root := repoRoot()
	var puts, saves []string
	fset := token.NewFileSet()
	_ = filepath.Walk(root, func(path string, info os.FileInfo, err error) error {
		if err != nil {
			return nil
		}
		rel, _ := filepath.Rel(root, path)
		if info.IsDir() {
			if strings.HasPrefix(info.Name(), ".") && rel != "." || rel == "vendor" || rel == filepath.Join("store", "leveldb") {
				return filepath.SkipDir
			}
			return nil
		}
		if !strings.HasSuffix(path, ".go") || strings.HasSuffix(path, "_test.go") || strings.HasPrefix(info.Name(), "verif_") {
			return nil
		}
		f, perr := parser.ParseFile(fset, path, nil, 0)
		if perr != nil {
			return nil
		}
		for _, d := range f.Decls {
			fd, ok := d.(*ast.FuncDecl)
			if !ok || fd.Body == nil {
				continue
			}
			var setBlockArgs []string
			ast.Inspect(fd.Body, func(n ast.Node) bool {
				call, ok := n.(*ast.CallExpr)
				if !ok {
					return true
				}
				sel, ok := call.Fun.(*ast.SelectorExpr)
				if !ok {
					return true
				}
				recv := exprText(sel.X)
				switch {
				case sel.Sel.Name == "Put" && len(call.Args) == 2:
					puts = append(puts, fmt.Sprintf("%s:%s:%s", filepath.ToSlash(rel), fd.Name.Name, recv))
				case sel.Sel.Name == "Put" && len(call.Args) == 3 && strings.HasSuffix(recv, ".trie"):
					puts = append(puts, fmt.Sprintf("%s:%s:%s", filepath.ToSlash(rel), fd.Name.Name, recv))
				case sel.Sel.Name == "SetBlock" && len(call.Args) == 2:
					setBlockArgs = append(setBlockArgs, exprText(call.Args[0]))
				case sel.Sel.Name == "Save" && len(call.Args) == 1 && (recv == "am" || strings.HasSuffix(recv, ".am")):
					pre := "no-SetBlock-before"
					for _, a := range setBlockArgs {
						if a == exprText(call.Args[0]) {
							pre = "after-SetBlock"
						}
					}
					saves = append(saves, fmt.Sprintf("%s:%s:%s", filepath.ToSlash(rel), fd.Name.Name, pre))
				}
				return true
			})
		}
		return nil
	})
	sort.Strings(puts)
	sort.Strings(saves)
	c.Op("putsites "+strings.Join(puts, ",")+" | "+strings.Join(saves, ","), "ok")
	c.Count(fmt.Sprintf("putsites:%d-put-calls,%d-save-calls", len(puts), len(saves)))
}

func exprText(e ast.Expr) string {
	switch x := e.(type) {
	case *ast.Ident:
		return x.Name
	case *ast.SelectorExpr:
		return exprText(x.X) + "." + x.Sel.Name
	case *ast.CallExpr:
		return exprText(x.Fun) + "()"
	case *ast.StarExpr:
		return "*" + exprText(x.X)
	case *ast.ParenExpr:
		return "(" + exprText(x.X) + ")"
	case *ast.IndexExpr:
		return exprText(x.X) + "[]"
	}
	return "?"
}

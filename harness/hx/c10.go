package main

// hx c10 — election integrity (C10).
//
// Part A  `rank`    : VoteTop.Rank (the selection sort of store/vote.go) on arbitrary lists.
// Part B  histories : a real store.ChainDatabase is driven exactly like account.Manager.Save drives it
//                     (SetBlock; AccountTrieDB.Put of every changed account with the block height;
//                     CandidatesRanking(hash, voteLogs)), on random forks, with SetStableBlock and
//                     close/re-open at random points.  After every op GetCandidatesTop(hash) and the
//                     all-candidates index are printed; the Lean model (LemoModel/Ranking.lean) prints
//                     the same.  Direct oracle: the top list must be the Go full sort of the candidates
//                     that are registered in the block's own account view, cut to the list size, and
//                     must be the same on a store that was never re-opened.  (The tie defect and the
//                     empty-index-after-restart defect are repaired in /repo — fixes 991f3e9, d292196 —
//                     their oracles c10/top-not-sorted-prefix/tie and c10/restart-differs stay armed.)
// Part C  engine    : three deterministic node-toolkit scenarios around a term-snapshot block
//                     (c10_engine.go); model op `seal`.

import (
	"fmt"
	"math/big"
	"os"
	"path/filepath"
	"runtime"
	"runtime/pprof"
	"sort"
	"strings"
	"time"

	"github.com/LemoFoundationLtd/lemochain-core/chain/account"
	"github.com/LemoFoundationLtd/lemochain-core/chain/types"
	"github.com/LemoFoundationLtd/lemochain-core/common"
	"github.com/LemoFoundationLtd/lemochain-core/common/rlp"
	"github.com/LemoFoundationLtd/lemochain-core/store"
	"github.com/LemoFoundationLtd/lemochain-core/store/leveldb"
)

func init() { subs["c10"] = c10 }

// Test addresses differ in three bytes: byte 0 carries the label (so bytes.Compare = label order), byte 19
// runs the OTHER way and byte 10 is unrelated — a comparison that looked at the last byte only, at a
// little-endian number or at the hex/base26 text would rank them differently.
func c10Addr(n int) common.Address {
	var a common.Address
	a[0] = byte(n)
	a[10] = byte((n * 7) % 5)
	a[19] = byte(0xff - n)
	return a
}
func c10Num(a common.Address) int { return int(a[0]) }

type c10Acct struct {
	flag  byte // 'n' no profile, 'y' isCandidate=true, 'u' isCandidate=false
	votes int64
}

type c10Change struct {
	addr   int
	flag   byte
	votes  int64
	logged bool
}

type c10CV struct {
	addr  int
	votes int64
}

func c10AcctData(ch c10Change) *types.AccountData {
	a := &types.AccountData{
		Address:       c10Addr(ch.addr),
		Balance:       big.NewInt(100),
		NewestRecords: map[types.ChangeLogType]types.VersionRecord{},
		Candidate:     types.Candidate{Profile: types.Profile{}, Votes: big.NewInt(ch.votes)},
	}
	switch ch.flag {
	case 'y':
		a.Candidate.Profile[types.CandidateKeyIsCandidate] = types.IsCandidateNode
	case 'u':
		a.Candidate.Profile[types.CandidateKeyIsCandidate] = types.NotCandidateNode
	case 'o':
		// a candidate profile whose isCandidate entry is neither "true" nor "false" (buildProfile keeps a
		// user-supplied string on first registration), or is missing although the profile is not empty
		if ch.addr%2 == 0 {
			a.Candidate.Profile[types.CandidateKeyIsCandidate] = "yes"
		} else {
			a.Candidate.Profile[types.CandidateKeyHost] = "127.0.0.1"
		}
	}
	return a
}

func c10VoteLog(addr int, votes int64) *types.ChangeLog {
	return &types.ChangeLog{LogType: account.VotesLog, Address: c10Addr(addr), NewVal: *big.NewInt(votes)}
}

func c10Block(parent common.Hash, height uint32, id int) *types.Block {
	hd := &types.Header{Height: height, ParentHash: parent, VersionRoot: common.BigToHash(big.NewInt(int64(1000 + id)))}
	b := &types.Block{}
	b.SetHeader(hd)
	return b
}

func c10ShowCands(l []c10CV) string {
	if len(l) == 0 {
		return "-"
	}
	var ss []string
	for _, c := range l {
		ss = append(ss, fmt.Sprintf("%d:%d", c.addr, c.votes))
	}
	return strings.Join(ss, " ")
}

func c10FromStore(l []*store.Candidate) []c10CV {
	var r []c10CV
	for _, c := range l {
		r = append(r, c10CV{c10Num(c.Address), c.Total.Int64()})
	}
	return r
}

// c10FullSort: the specification — votes descending, ties by address ascending, cut to max.
func c10FullSort(l []c10CV, max int) []c10CV {
	r := append([]c10CV{}, l...)
	sort.Slice(r, func(i, j int) bool {
		if r[i].votes != r[j].votes {
			return r[i].votes > r[j].votes
		}
		return r[i].addr < r[j].addr
	})
	if len(r) > max {
		r = r[:max]
	}
	return r
}

func c10Equal(a, b []c10CV) bool {
	if len(a) != len(b) {
		return false
	}
	for i := range a {
		if a[i] != b[i] {
			return false
		}
	}
	return true
}

// one real store + the blocks known to the harness
type c10Store struct {
	dir    string
	db     *store.ChainDatabase
	blocks map[int]*types.Block
}

func c10NewStore() *c10Store {
	// the store pre-allocates its data files: a memory file system makes a case ~10x cheaper
	base := ""
	if st, err := os.Stat("/dev/shm"); err == nil && st.IsDir() {
		base = "/dev/shm"
	}
	dir, err := os.MkdirTemp(base, "hx-c10-")
	if err != nil {
		dir, err = os.MkdirTemp("", "hx-c10-")
	}
	if err != nil {
		panic(err)
	}
	return &c10Store{dir: dir, db: store.NewChainDataBase(dir), blocks: map[int]*types.Block{}}
}

// drain waits (bounded) until the store's asynchronous bitcask writer has consumed its queue.  Closing
// a store with pending writes leaves its writer goroutine blocked for ever on the error channel
// (store/sync_file_db.go) together with two 2 MB channel buffers; thousands of cases would not fit in memory.
func (s *c10Store) drain() {
	q := s.db.Beansdb.Queue
	for i := 0; i < 400; i++ {
		if len(q.SyncFileDB.WriteChan) == 0 && len(q.DoneChan) == 0 {
			if i > 0 {
				time.Sleep(200 * time.Microsecond)
			}
			return
		}
		time.Sleep(500 * time.Microsecond)
	}
}

func (s *c10Store) close() {
	defer os.RemoveAll(s.dir)
	s.drain()
	s.db.Close()
}

func (s *c10Store) genesis() {
	g := c10Block(common.Hash{}, 0, 0)
	if err := s.db.SetBlock(g.Hash(), g); err != nil {
		panic(err)
	}
	if _, err := s.db.SetStableBlock(g.Hash()); err != nil {
		panic(err)
	}
	s.blocks[0] = g
}

// showBlock prints "top=… idx=…" of a block the store still holds, "panic" otherwise.
func (s *c10Store) showBlock(id int) string {
	b := s.blocks[id]
	return Safe(func() string {
		top := c10FromStore(s.db.GetCandidatesTop(b.Hash()))
		var idx []*store.Candidate
		if cb := s.db.UnConfirmBlocks[b.Hash()]; cb != nil {
			idx = cb.CandidateTrieDB.GetAll()
		} else {
			idx = s.db.LastConfirm.CandidateTrieDB.GetAll()
		}
		il := c10FromStore(idx)
		sort.Slice(il, func(i, j int) bool { return il[i].addr < il[j].addr })
		return "top=" + c10ShowCands(top) + " idx=" + c10ShowCands(il)
	})
}

// apply = what account.Manager.Save does with the store for one new block.
func (s *c10Store) apply(id, pid int, chs []c10Change, extra []c10CV) string {
	p := s.blocks[pid]
	b := c10Block(p.Hash(), p.Height()+1, id)
	return Safe(func() string {
		if err := s.db.SetBlock(b.Hash(), b); err != nil {
			return "err " + err.Error()
		}
		s.blocks[id] = b
		adb, _ := s.db.GetActDatabase(b.Hash())
		var logs types.ChangeLogSlice
		for _, ch := range chs {
			adb.Put(c10AcctData(ch), b.Height())
			if ch.logged {
				logs = append(logs, c10VoteLog(ch.addr, ch.votes))
			}
		}
		for _, x := range extra {
			logs = append(logs, c10VoteLog(x.addr, x.votes))
		}
		s.db.CandidatesRanking(b.Hash(), logs)
		return s.showBlock(id)
	})
}

func (s *c10Store) setStable(id int) string {
	b := s.blocks[id]
	return Safe(func() string {
		if _, err := s.db.SetStableBlock(b.Hash()); err != nil {
			return "err"
		}
		cs, err := s.db.Context.GetCandidates()
		if err != nil {
			return "err " + err.Error()
		}
		l := c10FromStore(cs)
		sort.Slice(l, func(i, j int) bool { return l[i].addr < l[j].addr })
		return "persist=" + c10ShowCands(l)
	})
}

// stableCrash: SetStableBlock(id) for a child of the stable block, with the process dying inside blockCommit
// between leveldb.SetCurrentBlock and Context.Flush, and a restart.  The crash image is what such a process
// leaves on disk: everything the complete run wrote (the WAL is drained, the stable pointer moved) except
// context.data, which is still the file of before the call (it is replaced atomically, by rename).
func (s *c10Store) stableCrash(id int) string {
	ctxPath := filepath.Join(s.dir, "context.data")
	old, err := os.ReadFile(ctxPath)
	if err != nil {
		return "err read context.data"
	}
	if r := s.setStable(id); strings.HasPrefix(r, "err") || r == "panic" {
		return r
	}
	s.drain()
	s.db.Close()
	if err := os.WriteFile(ctxPath, old, 0644); err != nil {
		return "err write context.data"
	}
	return Safe(func() string {
		s.db = store.NewChainDataBase(s.dir)
		cs, err := s.db.Context.GetCandidates()
		if err != nil {
			return "err " + err.Error()
		}
		l := c10FromStore(cs)
		sort.Slice(l, func(i, j int) bool { return l[i].addr < l[j].addr })
		return "persist=" + c10ShowCands(l) + " " + s.showBlock(id)
	})
}

func (s *c10Store) reopen(drain bool) {
	if drain {
		s.drain()
	}
	s.db.Close()
	s.db = store.NewChainDataBase(s.dir)
}

// registeredInView reads every address of the universe through the block's own account view.
func (s *c10Store) registeredInView(id int, universe int) (reg []c10CV, flags map[int]byte) {
	flags = map[int]byte{}
	adb, err := s.db.GetActDatabase(s.blocks[id].Hash())
	if err != nil {
		panic(err)
	}
	for a := 1; a <= universe; a++ {
		acc, err := adb.Get(c10Addr(a))
		f := byte('n')
		if err == nil && acc != nil {
			switch acc.Candidate.Profile[types.CandidateKeyIsCandidate] {
			case types.IsCandidateNode:
				f = 'y'
				reg = append(reg, c10CV{a, acc.Candidate.Votes.Int64()})
			case types.NotCandidateNode:
				f = 'u'
			default:
				if len(acc.Candidate.Profile) > 0 {
					f = 'o'
				}
			}
		}
		flags[a] = f
	}
	return
}

type c10Live struct {
	id                 int
	pid                int
	height             int
	view               map[int]c10Acct // shadow of the account view
	tainted            bool            // an ancestor (or the block itself) already failed the oracle
	changesWithProfile []int           // addresses this block hands to the persisted candidate list when committed
}

func c10CopyView(v map[int]c10Acct) map[int]c10Acct {
	r := make(map[int]c10Acct, len(v))
	for k, x := range v {
		r[k] = x
	}
	return r
}

func c10ChangeTok(ch c10Change) string {
	l := 0
	if ch.logged {
		l = 1
	}
	return fmt.Sprintf("%d:%c:%d:%d", ch.addr, ch.flag, ch.votes, l)
}

func c10(c *Ctx) {
	oldMax := store.VerifMaxCandidateCount()
	defer store.VerifSetMaxCandidateCount(oldMax)

	c10CachePart(c) // `cc` ops: byte level of context.data's candidate slots (c10_cache.go)

	// ---------------- Part C first (its findings must not be cut by the failure cap) ----------------
	c10EnginePart(c)

	// ---------------- Part A: the selection sort alone ----------------
	nRank := c.N * 4
	for i := 0; i < nRank; i++ {
		max := 1 + c.Rnd.Intn(5)
		n := c.Rnd.Intn(9)
		var l []c10CV
		for j := 0; j < n; j++ {
			l = append(l, c10CV{1 + c.Rnd.Intn(9), int64(c.Rnd.Intn(4) * 10)})
		}
		if c.Rnd.Intn(3) == 0 { // distinct addresses, as every caller in the store guarantees
			seen := map[int]bool{}
			var d []c10CV
			for _, x := range l {
				if !seen[x.addr] {
					seen[x.addr] = true
					d = append(d, x)
				}
			}
			l = d
			c.Count("rank:distinct-addresses")
		} else {
			c.Count("rank:any-list")
		}
		var in []*store.Candidate
		for _, x := range l {
			in = append(in, &store.Candidate{Address: c10Addr(x.addr), Total: big.NewInt(x.votes)})
		}
		out := Safe(func() string {
			vt := store.NewEmptyVoteTop()
			vt.Rank(max, in)
			return c10ShowCands(c10FromStore(vt.GetTop()))
		})
		op := fmt.Sprintf("rank %d", max)
		if len(l) > 0 {
			op += " " + c10ShowCands(l)
		}
		c.Op(op, out)
		c.Count(fmt.Sprintf("rank:len=%d", len(l)))
		if want := c10ShowCands(c10FullSort(l, max)); out != want {
			c.Count("oracle:c10/ranking-not-sort")
			c10SigCount["c10/ranking-not-sort"]++
			if c10SigCount["c10/ranking-not-sort"] > c10MaxPerSig {
				continue
			}
			c.Fail("c10/ranking-not-sort", fmt.Sprintf("Rank(%d, %s) = %s, full sort = %s", max, c10ShowCands(l), out, want), nil)
		}
	}

	// ---------------- Part B: store histories ----------------
	c10DirectedPromote(c)
	for cs := 0; cs < c.N; cs++ {
		c10Case(c, cs)
	}
	if f := os.Getenv("C10_PROFILE"); f != "" { // debugging aid: where does the memory of closed stores stay?
		runtime.GC()
		if w, err := os.Create(f); err == nil {
			pprof.Lookup("goroutine").WriteTo(w, 1)
			pprof.Lookup("heap").WriteTo(w, 1)
			w.Close()
		}
	}

}

// set by the engine part: a register tx with isCandidate="yes" was packed and left that string in the account
var c10OddFlagReachable = false

// c10Guard turns a panic of the code under test that escaped a call site into a property-level failure
// c10/panic/<site> with the ops issued so far as replay (instead of a dead harness).  Use with defer.
func c10Guard(c *Ctx, what string, site *string, replay func() []string) {
	if r := recover(); r != nil {
		sig := "c10/panic/" + *site
		c.Count("oracle:" + sig)
		c10SigCount[sig]++
		if c10SigCount[sig] > c10MaxPerSig {
			return
		}
		c.Fail(sig, fmt.Sprintf("%s: the code under test panicked (%s): %v", what, *site, r), map[string]interface{}{"seed": c.Seed, "ops": replay()})
	}
}

// at most c10MaxPerSig reports per signature, so that every defect class stays visible
var c10SigCount = map[string]int{}

const c10MaxPerSig = 12

func c10Case(c *Ctx, caseNo int) {
	max := 1 + c.Rnd.Intn(4)
	if c.Rnd.Intn(3) != 0 {
		max = 2 + c.Rnd.Intn(2)
	}
	universe := max + 1 + c.Rnd.Intn(4)
	voteVals := []int64{0, 10, 10, 20, 20, 20, 30}
	nOpsExtra := 0
	switch x := c.Rnd.Intn(24); {
	case x < 3: // larger lists
		max = 5 + c.Rnd.Intn(4)
		universe = max + 1 + c.Rnd.Intn(8)
		voteVals = []int64{0, 10, 10, 20, 20, 30, 30, 40, 50}
		nOpsExtra = 8
	case x == 3 && c.Tier == "thorough": // the production size
		max = 20
		universe = 22 + c.Rnd.Intn(9)
		voteVals = []int64{0, 10, 20, 20, 30, 30, 40, 50, 60, 70}
		nOpsExtra = 16
	}
	malformed := c.Rnd.Intn(12) == 0
	// isCandidate strings other than "true"/"false": in the oracle stream only if the engine scenario has
	// shown that a register tx really puts one into an account (c10OddFlagReachable), else correspondence only
	oddCase := c.Rnd.Intn(6) == 0
	if oddCase && !c10OddFlagReachable {
		malformed = true
	}
	if oddCase {
		c.Count("case:odd-candidate-flags")
	}
	crashed := false
	store.VerifSetMaxCandidateCount(max)
	if max <= 4 {
		c.Count(fmt.Sprintf("case:max=%d", max))
	} else if max < 20 {
		c.Count("case:max=5..8")
	} else {
		c.Count("case:max=20(production)")
	}
	if malformed {
		c.Count("case:malformed-stream")
	} else {
		c.Count("case:reachable-stream")
	}

	var replay []string
	op := func(line, out string) {
		c.Op(line, out)
		replay = append(replay, line+" => "+out)
	}
	fail := func(sig, detail string) {
		c.Count("oracle:" + sig)
		c10SigCount[sig]++
		if c10SigCount[sig] > c10MaxPerSig {
			return
		}
		c.Fail(sig, detail, map[string]interface{}{"case": caseNo, "seed": c.Seed, "ops": append([]string{}, replay...)})
	}

	site := "open"
	defer c10Guard(c, fmt.Sprintf("case %d", caseNo), &site, func() []string { return append([]string{}, replay...) })
	s2 := c10NewStore() // the store under correspondence (re-opened at random points)
	s1 := c10NewStore() // reference: same ops, never re-opened
	defer Safe(func() string { s1.close(); return "" })
	defer Safe(func() string { s2.close(); return "" })
	op(fmt.Sprintf("max %d", max), "ok")
	site = "genesis"
	s1.genesis()
	s2.genesis()
	op("genesis", "ok")

	live := map[int]*c10Live{0: {id: 0, pid: 0, height: 0, view: map[int]c10Acct{}}}
	stable := 0
	nextID := 1
	reopened := false
	var dead []int

	liveIDs := func() []int {
		var ids []int
		for id := range live {
			ids = append(ids, id)
		}
		sort.Ints(ids)
		return ids
	}
	isDesc := func(id, anc int) bool { // anc is ancestor-or-self of id among live blocks
		for {
			if id == anc {
				return true
			}
			if id == stable {
				return false
			}
			id = live[id].pid
		}
	}

	// mkBlock builds one block on pid: mode 0 = random changes, 1 = at least one candidate account changes,
	// 2 = no candidate account changes.  Returns the block id.
	var ids []int
	mkBlock := func(pid int, mode int) int {
		ids = liveIDs()
		p := live[pid]
		id := nextID
		nextID++
		view := c10CopyView(p.view)
		nch := 1 + c.Rnd.Intn(3)
		if c.Rnd.Intn(6) == 0 {
			nch = 1 + c.Rnd.Intn(universe)
		}
		if p.height == 0 && c.Rnd.Intn(2) == 0 {
			nch = universe // a "genesis-like" first block registering many candidates
		}
		if nch > universe {
			nch = universe
		}
		perm := c.Rnd.Perm(universe)
		var chs []c10Change
		for _, ai := range perm[:nch] {
			a := ai + 1
			cur, ok := view[a]
			if !ok {
				cur = c10Acct{flag: 'n'}
			}
			var ch c10Change
			switch cur.flag {
			case 'n':
				if oddCase && c.Rnd.Intn(3) == 0 {
					// first registration with a user-supplied isCandidate string: profile and deposit votes are set
					ch = c10Change{a, 'o', voteVals[1+c.Rnd.Intn(len(voteVals)-1)], true}
					c.Count("chg:register-odd-flag")
				} else if c.Rnd.Intn(6) == 0 {
					ch = c10Change{a, 'n', 0, false}
					c.Count("chg:touch-noncandidate")
				} else {
					// registration: the VotesLog is present (genesis logs 0 votes, a register tx logs deposit votes)
					ch = c10Change{a, 'y', voteVals[c.Rnd.Intn(len(voteVals))], true}
					c.Count("chg:register")
					if ch.votes == 0 {
						c.Count("chg:register-zero-votes")
					}
				}
			case 'y':
				switch x := c.Rnd.Intn(20); {
				case x < 15:
					v := voteVals[c.Rnd.Intn(len(voteVals))]
					if v == cur.votes {
						ch = c10Change{a, 'y', cur.votes, false}
						c.Count("chg:touch-candidate")
					} else {
						ch = c10Change{a, 'y', v, true}
						if v > cur.votes {
							c.Count("chg:votes-up")
						} else {
							c.Count("chg:votes-down")
						}
					}
				case x < 17:
					ch = c10Change{a, 'y', cur.votes, false}
					c.Count("chg:touch-candidate")
				default:
					// un-registration sets votes to 0; a VotesLog exists only if the votes changed
					ch = c10Change{a, 'u', 0, cur.votes != 0}
					c.Count("chg:unregister")
					if cur.votes == 0 {
						c.Count("chg:unregister-zero-votes(no log)")
					}
				}
			case 'u':
				ch = c10Change{a, 'u', 0, false}
				c.Count("chg:touch-unregistered")
			case 'o':
				// it can be voted for (CallVoteTx only refuses "false" and ""), it cannot un-register
				if v := voteVals[1+c.Rnd.Intn(len(voteVals)-1)]; v != cur.votes && c.Rnd.Intn(2) == 0 {
					ch = c10Change{a, 'o', v, true}
					c.Count("chg:votes-of-odd-flag-account")
				} else {
					ch = c10Change{a, 'o', cur.votes, false}
					c.Count("chg:touch-odd-flag-account")
				}
			}
			if malformed && c.Rnd.Intn(3) == 0 {
				// outside what the chain can produce: re-registration, unlogged vote change, log without change
				switch c.Rnd.Intn(3) {
				case 0:
					ch = c10Change{a, 'y', voteVals[c.Rnd.Intn(len(voteVals))], c.Rnd.Intn(2) == 0}
				case 1:
					ch.logged = !ch.logged
				case 2:
					ch.votes = voteVals[c.Rnd.Intn(len(voteVals))]
				}
				c.Count("chg:malformed")
			}
			chs = append(chs, ch)
			view[a] = c10Acct{ch.flag, ch.votes}
		}
		switch mode {
		case 1: // at least one account with a candidate profile changes in this block
			has := false
			for _, ch := range chs {
				has = has || ch.flag != 'n'
			}
			if !has {
				chs = nil
				a := 1 + c.Rnd.Intn(universe)
				cur, ok := p.view[a]
				switch {
				case !ok || cur.flag == 'n':
					chs = append(chs, c10Change{a, 'y', voteVals[1+c.Rnd.Intn(len(voteVals)-1)], true})
				case cur.flag == 'y':
					chs = append(chs, c10Change{a, 'y', cur.votes + 10, true})
				default:
					chs = append(chs, c10Change{a, cur.flag, cur.votes, false})
				}
				view = c10CopyView(p.view)
				view[a] = c10Acct{chs[0].flag, chs[0].votes}
			}
		case 2: // no account with a candidate profile changes: the block is empty or touches a non-candidate
			chs = nil
			view = c10CopyView(p.view)
			if c.Rnd.Intn(2) == 0 {
				for a := 1; a <= universe; a++ {
					if cur, ok := view[a]; !ok || cur.flag == 'n' {
						chs = append(chs, c10Change{a, 'n', 0, false})
						view[a] = c10Acct{'n', 0}
						break
					}
				}
			}
			c.Count("blk:candidate-free")
		}
		var extra []c10CV
		if malformed && mode != 2 && c.Rnd.Intn(3) == 0 {
			ne := 1 + c.Rnd.Intn(2)
			for i := 0; i < ne; i++ {
				extra = append(extra, c10CV{1 + c.Rnd.Intn(universe), voteVals[c.Rnd.Intn(len(voteVals))]})
			}
			c.Count("blk:extra-raw-logs")
		}
		// vote logs arrive sorted by address (MergeChangeLogs); account puts in map order — irrelevant
		sort.Slice(chs, func(i, j int) bool { return chs[i].addr < chs[j].addr })
		var toks []string
		anyLog := len(extra) > 0
		for _, ch := range chs {
			toks = append(toks, c10ChangeTok(ch))
			anyLog = anyLog || ch.logged
		}
		for _, x := range extra {
			toks = append(toks, fmt.Sprintf("x%d:%d", x.addr, x.votes))
		}
		line := fmt.Sprintf("blk %d %d %s", id, pid, strings.Join(toks, " "))
		site = "ranking"
		out2 := s2.apply(id, pid, chs, extra)
		out1 := s1.apply(id, pid, chs, extra)
		op(line, out2)
		nb := &c10Live{id: id, pid: pid, height: p.height + 1, view: view, tainted: p.tainted}
		for _, ch := range chs {
			if ch.flag != 'n' {
				nb.changesWithProfile = append(nb.changesWithProfile, ch.addr)
			}
		}
		live[id] = nb
		if pid != ids[len(ids)-1] {
			c.Count("blk:fork")
		}
		if !anyLog {
			c.Count("blk:no-vote-log(early return)")
		}
		if reopened {
			c.Count("blk:after-reopen")
		}
		c10ClassifyBranch(c, p, chs, max, s2, pid, anyLog)
		if out2 == "panic" || strings.HasPrefix(out2, "err") {
			c.Count("blk:" + firstWord(out2))
			nb.tainted = true
			if !malformed {
				fail("c10/panic/ranking", fmt.Sprintf("case %d: SetBlock / AccountTrieDB.Put / CandidatesRanking: %s => %s", caseNo, line, out2))
			}
			return id
		}
		if malformed || nb.tainted {
			return id
		}
		// ---------- direct oracle ----------
		site = "view-read"
		reg, flags := s2.registeredInView(id, universe)
		for a := 1; a <= universe; a++ {
			sh, ok := view[a]
			if !ok {
				sh = c10Acct{flag: 'n'}
			}
			if flags[a] != sh.flag {
				fail("c10/view-mismatch", fmt.Sprintf("case %d block %d: account %d reads flag %c through the block's view, %c was put", caseNo, id, a, flags[a], sh.flag))
				nb.tainted = true
			}
		}
		want := c10FullSort(reg, max)
		site = "get-top"
		got := c10FromStore(s2.db.GetCandidatesTop(s2.blocks[id].Hash()))
		ref := c10FromStore(s1.db.GetCandidatesTop(s1.blocks[id].Hash()))
		_ = out1
		hasOdd := false
		for _, f := range flags {
			if f == 'o' {
				hasOdd = true
			}
		}
		// root cause of whatever diverges on this lineage
		sfx := ""
		if hasOdd {
			sfx = "/odd-candidate-flag"
			c.Count("oracle:lineage-with-odd-flag(spec comparison skipped, restart comparison armed)")
		} else if crashed {
			sfx = "/crash-context-not-flushed"
		}
		hasUnreg, unregVotes := false, false
		for _, g := range got {
			if flags[g.addr] != 'y' && flags[g.addr] != 'o' {
				hasUnreg = true
				if g.votes != 0 {
					unregVotes = true
				}
			}
		}
		ctx := fmt.Sprintf("case %d (max %d) block %d on %d: top=%s, full sort of the registered candidates of its view=%s, never-restarted store=%s", caseNo, max, id, pid, c10ShowCands(got), c10ShowCands(want), c10ShowCands(ref))
		if hasUnreg {
			if unregVotes && crashed {
				fail("c10/unregistered-returns-with-votes/crash-context-not-flushed", ctx)
			} else {
				fail("c10/top-contains-unregistered", ctx)
			}
			nb.tainted = true
		}
		if !c10Equal(got, ref) {
			fail("c10/restart-differs"+sfx, ctx)
			nb.tainted = true
		}
		if !hasOdd && !hasUnreg && !c10Equal(got, want) && c10Equal(got, ref) {
			tie := false
			for i := 0; i < len(got) && i < len(want); i++ {
				if got[i] != want[i] {
					tie = got[i].votes == want[i].votes
					break
				}
			}
			if tie {
				fail("c10/top-not-sorted-prefix/tie", ctx)
			} else {
				fail("c10/top-not-sorted-prefix", ctx)
			}
			nb.tainted = true
		}
		if !nb.tainted {
			c.Count("oracle:block-ok")
		}
		return id
	}

	doStable := func(id int) {
		ids = liveIDs()
		depth := 0
		for x := id; x != stable && depth < 4; x = live[x].pid {
			depth++
		}
		c.Count(fmt.Sprintf("op:stable-promotes-%d-block(s)-in-one-call", depth))
		site = "set-stable"
		out2 := s2.setStable(id)
		s1.setStable(id)
		op(fmt.Sprintf("stable %d", id), out2)
		if out2 == "panic" && !malformed {
			fail("c10/panic/set-stable", fmt.Sprintf("case %d: SetStableBlock(%d) panicked", caseNo, id))
		}
		c.Count("op:stable")
		var drop []int
		for _, x := range ids {
			if !isDesc(x, id) {
				drop = append(drop, x)
			}
		}
		for _, x := range drop {
			dead = append(dead, x)
			delete(live, x)
		}
		stable = id
	}
	doReopen := func() {
		ids = liveIDs()
		drained := c.Rnd.Intn(4) != 0 // 1 in 4 restarts happens with writes still queued
		site = "reopen"
		s2.reopen(drained)
		if !drained {
			c.Count("op:reopen-with-pending-writes")
		}
		out := s2.showBlock(stable)
		op("reopen", out)
		if out == "panic" {
			fail("c10/panic/get-top-after-reopen", fmt.Sprintf("case %d: after a clean re-open GetCandidatesTop(stable block %d) panics", caseNo, stable))
		}
		site = "get-top"
		c.Count("op:reopen")
		reopened = true
		for _, x := range ids {
			if x != stable {
				dead = append(dead, x)
				delete(live, x)
			}
		}
		lb := live[stable]
		if !malformed && !lb.tainted {
			want1 := c10FromStore(s1.db.GetCandidatesTop(s1.blocks[stable].Hash()))
			got := c10FromStore(s2.db.GetCandidatesTop(s2.blocks[stable].Hash()))
			if !c10Equal(got, want1) {
				sfx := ""
				for _, acc := range lb.view {
					if acc.flag == 'o' {
						sfx = "/odd-candidate-flag"
					}
				}
				if sfx == "" && crashed {
					sfx = "/crash-context-not-flushed"
				}
				fail("c10/restart-differs"+sfx, fmt.Sprintf("case %d: top of the stable block %d after re-open %s, before %s", caseNo, stable, c10ShowCands(got), c10ShowCands(want1)))
				lb.tainted = true
			}
		}
	}

	nOps := 6 + c.Rnd.Intn(14) + nOpsExtra
	for k := 0; k < nOps; k++ {
		ids = liveIDs()
		r := c.Rnd.Intn(100)
		switch {
		case r < 74 || len(ids) == 1: // ---- new block
			var pid int
			if c.Rnd.Intn(4) == 0 {
				pid = ids[c.Rnd.Intn(len(ids))] // fork anywhere
			} else {
				pid = ids[len(ids)-1] // extend the newest block
			}
			mkBlock(pid, 0)
		case r < 78 && !malformed: // ---- several blocks promoted by ONE SetStableBlock call, then a restart
			// blockCommit runs once per block of the path and each run must leave the candidate list on disk:
			// candidate changes sit in the non-last blocks, the last block (mostly) touches no candidate account
			pid := stable
			if c.Rnd.Intn(2) == 0 {
				pid = ids[len(ids)-1]
			}
			k := 2 + c.Rnd.Intn(3)
			last, okChain := pid, true
			for i := 0; i < k && okChain; i++ {
				mode := 1
				if i == k-1 {
					mode = 2
					if c.Rnd.Intn(4) == 0 {
						mode = 0
					}
				}
				last = mkBlock(last, mode)
				if _, alive := s2.blocks[last]; !alive {
					okChain = false
				}
			}
			c.Count(fmt.Sprintf("op:promote-chain(len=%d)+reopen", k))
			if okChain {
				doStable(last)
				doReopen()
			}
		case r < 84: // ---- make a block stable
			var cands []int
			for _, id := range ids {
				if id != stable {
					cands = append(cands, id)
				}
			}
			id := cands[c.Rnd.Intn(len(cands))]
			if c.Rnd.Intn(2) == 0 { // prefer the oldest unconfirmed ancestor
				for live[id].pid != stable {
					id = live[id].pid
				}
			}
			doStable(id)
		case r < 87 && func() bool { // ---- crash inside the commit of a child of the stable block
			for _, id := range ids {
				if id != stable && live[id].pid == stable {
					return true
				}
			}
			return false
		}():
			var kids []int
			for _, id := range ids {
				if id != stable && live[id].pid == stable {
					kids = append(kids, id)
				}
			}
			id := kids[c.Rnd.Intn(len(kids))]
			site = "crash-reopen"
			out2 := s2.stableCrash(id)
			s1.setStable(id)
			op(fmt.Sprintf("stablecrash %d", id), out2)
			if out2 == "panic" && !malformed {
				fail("c10/panic/crash-reopen", fmt.Sprintf("case %d: SetStableBlock(%d) / start-up on the crash image panicked", caseNo, id))
			}
			site = "get-top"
			c.Count("op:stablecrash(pointer moved, candidate list not flushed, restart)")
			for _, x := range ids {
				if x != id {
					dead = append(dead, x)
					delete(live, x)
				}
			}
			stable = id
			reopened = true
			if len(live[id].changesWithProfile) > 0 {
				crashed = true
				c.Count("op:stablecrash-loses-candidate-list-entries")
			}
			lb := live[stable]
			if !malformed && !lb.tainted {
				want1 := c10FromStore(s1.db.GetCandidatesTop(s1.blocks[stable].Hash()))
				got := c10FromStore(s2.db.GetCandidatesTop(s2.blocks[stable].Hash()))
				if !c10Equal(got, want1) {
					fail("c10/restart-differs/crash-context-not-flushed", fmt.Sprintf("case %d: top of the stable block %d after the crash restart %s, on the node that did not crash %s", caseNo, stable, c10ShowCands(got), c10ShowCands(want1)))
					lb.tainted = true
				}
			}
		case r < 90: // ---- restart
			doReopen()
		default: // ---- read a top list (also of blocks the store has dropped)
			id := ids[c.Rnd.Intn(len(ids))]
			if len(dead) > 0 && c.Rnd.Intn(3) == 0 {
				id = dead[c.Rnd.Intn(len(dead))]
				c.Count("op:top-of-dropped-block")
			} else {
				c.Count("op:top")
			}
			op(fmt.Sprintf("top %d", id), s2.showBlock(id))
		}
	}
}

// c10ClassifyBranch records which branch of updateTop the block takes, recomputed in Go from the
// parent's published list (independent of the model).
func c10ClassifyBranch(c *Ctx, p *c10Live, chs []c10Change, max int, s *c10Store, pid int, anyLog bool) {
	if !anyLog {
		return
	}
	pb, ok := s.blocks[pid]
	if !ok {
		return
	}
	var old []c10CV
	if Safe(func() string { old = c10FromStore(s.db.GetCandidatesTop(pb.Hash())); return "" }) == "panic" {
		return
	}
	unreg := map[int]bool{}
	for _, ch := range chs {
		if ch.flag == 'u' {
			unreg[ch.addr] = true
		}
	}
	merged := map[int]int64{}
	for _, o := range old {
		if !unreg[o.addr] {
			merged[o.addr] = o.votes
		}
	}
	for _, ch := range chs {
		if ch.logged && !unreg[ch.addr] {
			merged[ch.addr] = ch.votes
		}
	}
	var ml []c10CV
	for a, v := range merged {
		ml = append(ml, c10CV{a, v})
	}
	nt := c10FullSort(ml, max)
	switch {
	case len(old) < max:
		c.Count("branch:1 list-not-full -> merge")
	case len(old) > len(nt):
		c.Count("branch:2 list-shrank -> re-rank all")
	case nt[len(nt)-1].votes >= old[len(old)-1].votes:
		if nt[len(nt)-1].votes == old[len(old)-1].votes && nt[len(nt)-1].addr > old[len(old)-1].addr {
			c.Count("branch:3 keep merge (equal totals, larger address: the tie defect's guard fails)")
		} else {
			c.Count("branch:3 min-not-smaller -> keep merge")
		}
	default:
		c.Count("branch:4 min-smaller -> re-rank all")
	}
}

func c10EnginePart(c *Ctx) {
	prod := store.VerifMaxCandidateCount()
	c10OddFlagScenario(c)
	c10LatentAfterScan(c)
	nRand := 6
	if c.Tier == "thorough" {
		nRand = 40
	}
	for i := 0; i < nRand; i++ {
		c10EngineRandomRun(c, i)
	}
	store.VerifSetMaxCandidateCount(prod)
	for _, variant := range []string{"quiet", "transfer", "unregister-zero", "three-candidates", "fork"} {
		r := c10EngineScenario(c, variant)
		c.Count("engine:" + variant)
		replay := map[string]interface{}{"variant": variant, "log": r.Log}
		if r.SealOp == "" {
			for _, pr := range r.Problems {
				parts := strings.SplitN(pr, "|", 2)
				c.Count("oracle:" + parts[0])
				c.Fail(parts[0], "variant "+variant+": "+parts[1], replay)
			}
			c.Fail("c10/engine-scenario-broken", fmt.Sprintf("variant %s did not reach the snapshot block: %s / %v", variant, r.Insert, r.Log), nil)
			continue
		}
		c.Op(r.SealOp, r.Deputies+" => "+r.Loadable)
		detail := fmt.Sprintf("variant %s: top(parent)=%s votes in the parent's view=%s; deputies of the stored snapshot block=%s; NewTermRecord: %s; InsertBlock on the validating node: %s; restart of that node: %s",
			variant, r.ParentTop, r.ParentVotes, r.Deputies, r.Loadable, r.Insert, r.Restart)
		notLoadable := r.Loadable != "ok" || strings.HasPrefix(r.Insert, "panic") || strings.HasPrefix(r.Restart, "panic")
		if notLoadable && variant == "transfer" {
			c.Fail("c10/snapshot-deputies-not-loadable", detail, replay)
		} else if notLoadable {
			// only the transfer variant changes votes inside the snapshot block
			c.Fail("c10/scenario-expectation-failed/"+variant, "the snapshot block of a scenario without vote changes is not loadable: "+detail, replay)
		}
		for _, pr := range r.Problems {
			parts := strings.SplitN(pr, "|", 2)
			c.Count("oracle:" + parts[0])
			c.Fail(parts[0], "variant "+variant+": "+parts[1]+"; "+detail, replay)
		}
		if r.UnregisteredDeputy != "" {
			c.Fail("c10/top-contains-unregistered", "engine, "+detail+"; "+r.UnregisteredDeputy, replay)
		}
	}
}

// c10LatentAfterScan documents a fifth, unreachable candidate predicate: ChainDatabase.AfterScan ->
// commitCandidates -> isCandidate uses strconv.ParseBool and panics on any other string.  AfterScan has no
// caller in /repo (the WAL replay goes through BeansDB.After), so this is counted, not reported.
func c10LatentAfterScan(c *Ctx) {
	site := "latent-afterscan"
	defer c10Guard(c, "AfterScan probe", &site, func() []string { return nil })
	s := c10NewStore()
	defer s.close()
	acc := c10AcctData(c10Change{addr: 2, flag: 'o', votes: 30})
	buf, err := rlp.EncodeToBytes(acc)
	if err != nil {
		return
	}
	r := Safe(func() string { return fmt.Sprint(s.db.AfterScan(leveldb.ItemFlagAct, acc.Address.Bytes(), buf)) })
	c.Count("latent:AfterScan(account with isCandidate=yes) => " + r + " (AfterScan has no caller in /repo)")
}

// c10DirectedPromote: three blocks made stable by ONE SetStableBlock call — registrations in the first, a vote
// change in the second, nothing in the third — then a clean restart.  Every blockCommit of the call has to
// leave its candidates in context.data; the restarted node must publish what it published before.
func c10DirectedPromote(c *Ctx) {
	store.VerifSetMaxCandidateCount(2)
	s2, s1 := c10NewStore(), c10NewStore()
	defer Safe(func() string { s1.close(); return "" })
	defer Safe(func() string { s2.close(); return "" })
	var replay []string
	op := func(line, out string) {
		c.Op(line, out)
		replay = append(replay, line+" => "+out)
	}
	site := "directed-promote"
	defer c10Guard(c, "directed promote-3-then-reopen", &site, func() []string { return append([]string{}, replay...) })
	op("max 2", "ok")
	s1.genesis()
	s2.genesis()
	op("genesis", "ok")
	blocks := [][]c10Change{
		{{1, 'y', 30, true}, {2, 'y', 20, true}, {3, 'y', 10, true}},
		{{1, 'y', 5, true}},
		{},
	}
	for i, chs := range blocks {
		var toks []string
		for _, ch := range chs {
			toks = append(toks, c10ChangeTok(ch))
		}
		out := s2.apply(i+1, i, chs, nil)
		s1.apply(i+1, i, chs, nil)
		op(strings.TrimSpace(fmt.Sprintf("blk %d %d %s", i+1, i, strings.Join(toks, " "))), out)
	}
	out := s2.setStable(3)
	s1.setStable(3)
	op("stable 3", out)
	before := c10FromStore(s2.db.GetCandidatesTop(s2.blocks[3].Hash()))
	s2.reopen(true)
	op("reopen", s2.showBlock(3))
	c.Count("directed:three-blocks-promoted-in-one-call+reopen")
	after := c10FromStore(s2.db.GetCandidatesTop(s2.blocks[3].Hash()))
	ref := c10FromStore(s1.db.GetCandidatesTop(s1.blocks[3].Hash()))
	if !c10Equal(after, ref) || !c10Equal(after, before) {
		c.Count("oracle:c10/restart-differs")
		c10SigCount["c10/restart-differs"]++
		c.Fail("c10/restart-differs", fmt.Sprintf("directed: blocks 1..3 made stable by one SetStableBlock(3) (candidate changes in 1 and 2, none in 3); top of block 3 before the restart %s, after the restart %s, on the node that did not restart %s", c10ShowCands(before), c10ShowCands(after), c10ShowCands(ref)), map[string]interface{}{"directed": "promote-3-then-reopen", "ops": replay})
	}
}

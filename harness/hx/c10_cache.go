package main

// C10 `cc` ops: the REAL store.CandidateCache / store.RunContext (context.data) against the byte-level model
// LemoModel/CandCache.lean.  Every op line carries generator-chosen inputs only (addresses, totals, raw buffers,
// raw files); both sides print the map, Cur/Cap, the bytes that encodeBody would persist and the decoded list.
//
//   cc new                      fresh RunContext in an empty directory
//   cc set <addr-hex> <total>   CandidateCache.Set (total decimal, may be negative)
//   cc list                     GetCandidates, sorted          ("fail" = error or panic = NewChainDataBase panics)
//   cc reload                   Encode, copy as encodeBody does, Decode into a FRESH cache as load does
//   cc reopen                   real RunContext.Flush + NewRunContext on the same directory; prints the file (timestamp zeroed)
//   cc load <file-hex>          the bytes are written to context.data, then NewRunContext
//   cc decode <len(buf)> <length> <array-hex>   Decode on a fresh cache; cap(buf) = len(array)
//
// Direct oracle (independent of the model): the harness keeps address -> last total that was Set; after every reload /
// reopen of an honest script GetCandidates must return exactly that map: c10/candidate-cache/decode-differs
// (and c10/candidate-cache/live-differs for the running cache).

import (
	"bytes"
	"encoding/hex"
	"fmt"
	"math/big"
	"os"
	"path/filepath"
	"sort"
	"strings"

	"github.com/LemoFoundationLtd/lemochain-core/common"
	"github.com/LemoFoundationLtd/lemochain-core/store"
)

type ccH struct {
	c      *Ctx
	dir    string
	ctx    *store.RunContext
	want   map[common.Address]*big.Int // last total set per address; nil = not an honest script any more
	replay []string
}

func ccHex(b []byte) string {
	if len(b) == 0 {
		return "-"
	}
	return hex.EncodeToString(b)
}

func ccClass(msg string) string {
	switch {
	case strings.Contains(msg, "larger than ItemMaxSize"):
		return "toolarge"
	case strings.Contains(msg, "litter than len"):
		return "shortbuf"
	case strings.Contains(msg, "start != pos"):
		return "startpos"
	case strings.Contains(msg, "out of range"):
		return "bounds"
	case strings.Contains(msg, "load run context error"):
		return "loaderr"
	case strings.Contains(msg, "get candidates err"):
		return "getcands"
	}
	return "other(" + strings.ReplaceAll(msg, " ", "_") + ")"
}

func ccState(cache *store.CandidateCache) string {
	type ent struct {
		a common.Address
		p store.CandidatePos
	}
	var l []ent
	for a, p := range cache.Candidates {
		l = append(l, ent{a, p})
	}
	sort.Slice(l, func(i, j int) bool { return bytes.Compare(l[i].a[:], l[j].a[:]) < 0 })
	m := "-"
	if len(l) > 0 {
		var parts []string
		for _, e := range l {
			parts = append(parts, fmt.Sprintf("%s:%d:%d", hex.EncodeToString(e.a[:]), e.p.Pos, e.p.Len))
		}
		m = strings.Join(parts, ",")
	}
	// the section encodeBody persists: make([]byte, uint32(Cur)) overwritten by copy(.., CandidateBuf)
	buf, n := cache.Encode()
	sec := make([]byte, uint32(n))
	copy(sec, buf)
	return fmt.Sprintf("cur=%d cap=%d len=%d map=%s buf=%s", cache.Cur, cache.Cap, len(cache.CandidateBuf), m, ccHex(sec))
}

func ccList(cache *store.CandidateCache) (string, map[common.Address]*big.Int, bool) {
	got := map[common.Address]*big.Int{}
	dup := false
	out := Safe(func() string {
		l, err := cache.GetCandidates()
		if err != nil {
			return "fail"
		}
		if len(l) == 0 {
			return "ok -"
		}
		sort.Slice(l, func(i, j int) bool {
			if c := bytes.Compare(l[i].Address[:], l[j].Address[:]); c != 0 {
				return c < 0
			}
			return l[i].Total.Cmp(l[j].Total) < 0
		})
		var parts []string
		for _, x := range l {
			if _, ok := got[x.Address]; ok {
				dup = true
			}
			got[x.Address] = x.Total
			parts = append(parts, fmt.Sprintf("%s:%s", hex.EncodeToString(x.Address[:]), x.Total.String()))
		}
		return "ok " + strings.Join(parts, " ")
	})
	if out == "panic" {
		out = "fail"
	}
	return out, got, dup
}

func (h *ccH) op(op, out string) {
	h.replay = append(h.replay, op)
	h.c.Op(op, out)
}

func (h *ccH) fail(sig, detail string) {
	h.c.Count("oracle:" + sig)
	c10SigCount[sig]++
	if c10SigCount[sig] > c10MaxPerSig {
		return
	}
	rp := append([]string{}, h.replay...)
	h.c.Fail(sig, detail, map[string]interface{}{"seed": h.c.Seed, "ops": rp})
}

func (h *ccH) newCtx() {
	os.Remove(filepath.Join(h.dir, "context.data"))
	os.Remove(filepath.Join(h.dir, "context.data.tmp"))
	h.ctx = store.NewRunContext(h.dir)
}

func (h *ccH) opNew() {
	h.newCtx()
	h.want = map[common.Address]*big.Int{}
	h.replay = nil
	h.op("cc new", "ok")
}

func ccShowWant(m map[common.Address]*big.Int) string {
	var ks []common.Address
	for a := range m {
		ks = append(ks, a)
	}
	sort.Slice(ks, func(i, j int) bool { return bytes.Compare(ks[i][:], ks[j][:]) < 0 })
	var parts []string
	for _, a := range ks {
		parts = append(parts, fmt.Sprintf("%s:%s", hex.EncodeToString(a[:]), m[a].String()))
	}
	if len(parts) == 0 {
		return "ok -"
	}
	return "ok " + strings.Join(parts, " ")
}

// the direct oracle: the list must be the map of last-set values
func (h *ccH) opList(stage string) {
	out, _, _ := ccList(h.ctx.Candidates)
	h.op("cc list", out)
	if h.want == nil {
		return
	}
	if want := ccShowWant(h.want); out != want {
		sig := "c10/candidate-cache/decode-differs"
		if stage == "live" {
			sig = "c10/candidate-cache/live-differs"
		}
		h.fail(sig, fmt.Sprintf("after %s GetCandidates = %s, the values that were Set = %s", stage, out, want))
	}
}

func (h *ccH) opSet(a common.Address, t *big.Int, isNil bool) (panicked bool) {
	ts := "0"
	if t != nil {
		ts = t.String()
	}
	var arg *big.Int
	if !isNil && t != nil {
		arg = new(big.Int).Set(t)
	}
	out, msg := SafeMsg(func() string {
		err := h.ctx.Candidates.Set(&store.Candidate{Address: a, Total: arg})
		if err != nil {
			return "err:neg " + ccState(h.ctx.Candidates)
		}
		return "ok " + ccState(h.ctx.Candidates)
	})
	if out == "panic" {
		out = "panic:" + ccClass(msg)
		h.ctx.Candidates = store.NewCandidateCache()
		h.want = map[common.Address]*big.Int{}
		panicked = true
	} else if strings.HasPrefix(out, "ok ") && h.want != nil {
		if arg == nil {
			h.want[a] = new(big.Int)
		} else {
			h.want[a] = arg
		}
	}
	h.op(fmt.Sprintf("cc set %s %s", hex.EncodeToString(a[:]), ts), out)
	return
}

func (h *ccH) opReload() {
	cache := h.ctx.Candidates
	buf, n := cache.Encode()
	ln := uint32(n)
	var out string
	if ln == 0 {
		h.ctx.Candidates = store.NewCandidateCache()
		out = "fresh " + ccState(h.ctx.Candidates)
	} else {
		sec := make([]byte, ln)
		copy(sec, buf)
		fresh := store.NewCandidateCache()
		var msg string
		out, msg = SafeMsg(func() string {
			if err := fresh.Decode(sec[0:ln], int(ln)); err != nil {
				return "failed " + ccState(fresh)
			}
			return "done " + ccState(fresh)
		})
		if out == "panic" {
			out = "panic:" + ccClass(msg)
			fresh = store.NewCandidateCache()
		}
		h.ctx.Candidates = fresh
	}
	h.op("cc reload", out)
	if !strings.HasPrefix(out, "done") && !strings.HasPrefix(out, "fresh") && h.want != nil {
		h.fail("c10/candidate-cache/decode-differs", "Decode of the cache's own persisted buffer: "+firstWord(out)+"; the values that were Set = "+ccShowWant(h.want))
		h.want = nil
	}
}

func (h *ccH) readFile() []byte {
	b, _ := os.ReadFile(filepath.Join(h.dir, "context.data"))
	return b
}

func (h *ccH) reopenReal() string {
	out, msg := SafeMsg(func() string {
		h.ctx = store.NewRunContext(h.dir)
		return "ok " + ccState(h.ctx.Candidates)
	})
	if out == "panic" {
		out = "panic:" + ccClass(msg)
		h.newCtx()
	}
	return out
}

func (h *ccH) opReopen() {
	if err := h.ctx.Flush(); err != nil {
		panic(err)
	}
	file := h.readFile()
	shown := append([]byte{}, file...)
	for i := 8; i < 12 && i < len(shown); i++ {
		shown[i] = 0
	}
	out := h.reopenReal()
	h.op("cc reopen", out+" file="+ccHex(shown))
	if !strings.HasPrefix(out, "ok") && h.want != nil {
		h.fail("c10/candidate-cache/decode-differs", "NewRunContext on the file the node flushed itself: "+out)
		h.want = nil
	}
}

func (h *ccH) opLoad(file []byte) {
	if err := os.WriteFile(filepath.Join(h.dir, "context.data"), file, 0644); err != nil {
		panic(err)
	}
	out := h.reopenReal()
	h.want = nil
	h.op("cc load "+ccHex(file), out)
}

func (h *ccH) opDecode(arr []byte, blen, length int) {
	a := make([]byte, len(arr))
	copy(a, arr)
	fresh := store.NewCandidateCache()
	out, msg := SafeMsg(func() string {
		if err := fresh.Decode(a[0:blen], length); err != nil {
			return "failed " + ccState(fresh)
		}
		return "done " + ccState(fresh)
	})
	if out == "panic" {
		out = "panic:" + ccClass(msg)
		fresh = store.NewCandidateCache()
	}
	h.ctx.Candidates = fresh
	h.want = nil
	h.op(fmt.Sprintf("cc decode %d %d %s", blen, length, ccHex(arr)), out)
	h.c.Count("cc:decode:" + firstWord(out))
}

// totals at every RLP length boundary
func ccTotals() []*big.Int {
	p := func(e uint) *big.Int { return new(big.Int).Lsh(big.NewInt(1), e) }
	m := func(x *big.Int) *big.Int { return new(big.Int).Sub(x, big.NewInt(1)) }
	return []*big.Int{
		big.NewInt(0), big.NewInt(1), big.NewInt(100), big.NewInt(127), big.NewInt(128), big.NewInt(255), big.NewInt(256), big.NewInt(300),
		big.NewInt(65535), big.NewInt(65536), m(p(32)), p(32), m(p(64)), p(64), p(128), m(p(256)), p(256), p(263), m(p(264)),
	}
}

func (h *ccH) pickTotal() (*big.Int, string) {
	r := h.c.Rnd
	tot := ccTotals()
	switch x := r.Intn(20); {
	case x < 12:
		i := r.Intn(len(tot))
		return tot[i], "boundary"
	case x < 16:
		nb := 1 + r.Intn(33)
		b := make([]byte, nb)
		r.Read(b)
		return new(big.Int).SetBytes(b), "random"
	case x < 18:
		return big.NewInt(int64(r.Intn(1000))), "small"
	default:
		return new(big.Int).Lsh(big.NewInt(int64(1+r.Intn(255))), uint(8*r.Intn(33))), "byteshift"
	}
}

func (h *ccH) randAddr() common.Address {
	var a common.Address
	h.c.Rnd.Read(a[:])
	switch h.c.Rnd.Intn(6) {
	case 0:
		a[0] = 0 // leading zero byte: still 20 bytes on the wire
	case 1:
		for i := range a {
			a[i] = 0
		}
		a[19] = byte(1 + h.c.Rnd.Intn(3))
	}
	return a
}

// one honest script: Sets (new / update, growing and shrinking byte lengths), lists, reloads, reopens
func (h *ccH) honest(nAddr, nSet int) {
	r := h.c.Rnd
	h.opNew()
	var pool []common.Address
	for i := 0; i < nAddr; i++ {
		pool = append(pool, h.randAddr())
	}
	lastLen := map[common.Address]int{}
	for i := 0; i < nSet; i++ {
		a := pool[r.Intn(len(pool))]
		if i < nAddr && nAddr > 20 {
			a = pool[i] // fill phase of the big cases
		}
		t, cls := h.pickTotal()
		isNil := false
		switch x := r.Intn(60); {
		case x == 0:
			t = new(big.Int).Lsh(big.NewInt(1), uint(264+r.Intn(3)*20))
			cls = "toolarge"
		case x == 1:
			t = big.NewInt(int64(-1 - r.Intn(300)))
			cls = "negative"
		case x == 2:
			t, isNil, cls = nil, true, "nil"
		}
		h.c.Count("cc:set:total=" + cls)
		if t != nil && t.Sign() >= 0 {
			n := len(t.Bytes())
			if old, ok := lastLen[a]; ok {
				switch {
				case n > old:
					h.c.Count("cc:set:update-longer")
				case n < old:
					h.c.Count("cc:set:update-shorter")
				default:
					h.c.Count("cc:set:update-same-len")
				}
			} else {
				h.c.Count("cc:set:new")
			}
			lastLen[a] = n
		}
		if h.opSet(a, t, isNil) {
			h.c.Count("cc:set:panic")
			lastLen = map[common.Address]int{}
			continue
		}
		switch x := r.Intn(12); {
		case x == 0:
			h.opList("live")
		case x == 1:
			h.c.Count("cc:reload-mid")
			h.opReload()
			h.opList("reload")
		case x == 2:
			h.c.Count("cc:reopen-mid")
			h.opReopen()
			h.opList("reopen")
		}
	}
	h.opList("live")
	h.opReload()
	h.opList("reload")
	h.opReopen()
	h.opList("reopen")
	h.c.Count("cc:honest-script")
}

// the 2-Set witness of the two seeded regressions, every pair of boundary totals on one candidate, reload and reopen
func (h *ccH) directedPairs() {
	tot := ccTotals()
	a := common.HexToAddress("0x0102030405060708090a0b0c0d0e0f1011121314")
	b := common.HexToAddress("0x2102030405060708090a0b0c0d0e0f1011121315")
	for i, x := range tot {
		for j, y := range tot {
			if i == j || (len(x.Bytes()) == len(y.Bytes()) && (i+j)%3 != 0) {
				continue
			}
			h.opNew()
			h.opSet(a, x, false)
			h.opSet(b, big.NewInt(7), false)
			h.opSet(a, y, false)
			if (i+j)%2 == 0 {
				h.opReload()
				h.opList("reload")
			} else {
				h.opReopen()
				h.opList("reopen")
			}
			h.c.Count("cc:directed-pair")
		}
	}
}

func ccPut32(b []byte, off int, v uint32) {
	if off+4 <= len(b) {
		b[off], b[off+1], b[off+2], b[off+3] = byte(v), byte(v>>8), byte(v>>16), byte(v>>24)
	}
}

// an honest cache with k candidates; returns its persisted section
func (h *ccH) honestSection(k int) []byte {
	cache := store.NewCandidateCache()
	for i := 0; i < k; i++ {
		t, _ := h.pickTotal()
		cache.Set(&store.Candidate{Address: h.randAddr(), Total: t})
	}
	buf, n := cache.Encode()
	sec := make([]byte, n)
	copy(sec, buf)
	return sec
}

// malformed buffers for Decode: what load would hand over from a garbage / torn / stale file
func (h *ccH) garbageDecode() {
	r := h.c.Rnd
	k := 1 + r.Intn(4)
	sec := h.honestSection(k)
	if len(sec)/64 < k {
		k = len(sec) / 64 // the section holds fewer slots when two generated candidates share an address
	}
	if k == 0 {
		return
	}
	blen, length := len(sec), len(sec)
	arr := sec
	slotNo := r.Intn(k)
	cls := ""
	switch x := r.Intn(16); x {
	case 0:
		cls = "honest"
	case 1:
		cls = "zero-slot"
		for i := 0; i < 64; i++ {
			arr[slotNo*64+i] = 0
		}
	case 2:
		cls = "len-zero"
		ccPut32(arr, slotNo*64+4, 0)
	case 3:
		cls = "pos-wrong"
		ccPut32(arr, slotNo*64, uint32(r.Intn(5)*64+r.Intn(2)))
	case 4:
		cls = "len-shorter"
		ccPut32(arr, slotNo*64+4, uint32(1+r.Intn(24)))
	case 5:
		cls = "len-longer-in-slot"
		ccPut32(arr, slotNo*64+4, uint32(24+r.Intn(33)))
	case 6:
		cls = "len-past-slot"
		ccPut32(arr, slotNo*64+4, uint32(57+r.Intn(200)))
	case 7:
		cls = "len-huge"
		ccPut32(arr, slotNo*64+4, uint32(1<<31)+uint32(r.Intn(1<<30)))
	case 8:
		cls = "payload-byte-flipped"
		arr[slotNo*64+8+r.Intn(24)] ^= byte(1 << uint(r.Intn(8)))
	case 9:
		cls = "short-buf"
		blen = r.Intn(length)
	case 10:
		cls = "length-not-multiple"
		length = length - 1 - r.Intn(63)
	case 11:
		cls = "extra-capacity"
		ext := make([]byte, 1+r.Intn(100))
		r.Read(ext)
		arr = append(append([]byte{}, sec...), ext...)
		if r.Intn(2) == 0 { // the last slot's Len reaches into the capacity beyond len(buf)
			ccPut32(arr, (k-1)*64+4, uint32(57+r.Intn(len(ext))))
		}
	case 12:
		cls = "duplicate-address"
		if k >= 2 {
			copy(arr[64+8:64+64], arr[8:64])
			ccPut32(arr, 64+4, uint32(arr[4])|uint32(arr[5])<<8)
		}
	case 13:
		cls = "random-bytes"
		r.Read(arr)
	case 14:
		cls = "stale-head-longer-payload" // what the seeded regressions leave behind
		a := h.randAddr()
		c1 := store.NewCandidateCache()
		c1.Set(&store.Candidate{Address: a, Total: big.NewInt(100)})
		c2 := store.NewCandidateCache()
		c2.Set(&store.Candidate{Address: a, Total: big.NewInt(300)})
		arr = make([]byte, 64)
		copy(arr, c2.CandidateBuf[:64])
		copy(arr[:8], c1.CandidateBuf[:8])
		blen, length = 64, 64
	case 15:
		cls = "empty"
		arr, blen, length = []byte{}, 0, 0
	}
	h.c.Count("cc:decode-class:" + cls)
	h.replay = nil
	h.opDecode(arr, blen, length)
	h.opList("garbage")
	if r.Intn(3) == 0 { // go on with the cache as it is (a failed Decode leaves a partly filled map over a zero buffer)
		for i := 0; i < 1+r.Intn(3); i++ {
			var a common.Address
			if len(h.ctx.Candidates.Candidates) > 0 && r.Intn(2) == 0 {
				for x := range h.ctx.Candidates.Candidates {
					if a == (common.Address{}) || bytes.Compare(x[:], a[:]) < 0 {
						a = x
					}
				}
			} else {
				a = h.randAddr()
			}
			t, _ := h.pickTotal()
			h.c.Count("cc:set-after-garbage")
			if h.opSet(a, t, false) {
				break
			}
			h.want = nil
		}
		h.opList("garbage")
		h.opReload()
		h.opList("garbage")
	}
}

func ccFile(body []byte, fileLen uint32) []byte {
	f := make([]byte, 14)
	ccPut32(f, 0, fileLen)
	ccPut32(f, 4, 1)
	ccPut32(f, 8, 0x5f000000)
	return append(f, body...)
}

func ccItem(flg uint32, ln uint32, data []byte) []byte {
	b := make([]byte, 8)
	ccPut32(b, 0, flg)
	ccPut32(b, 4, ln)
	return append(b, data...)
}

// garbage / torn / stale context.data files for NewRunContext
func (h *ccH) garbageLoad() {
	r := h.c.Rnd
	k := r.Intn(4)
	sec := h.honestSection(k)
	if len(sec)/64 < k {
		k = len(sec) / 64
	}
	body := ccItem(2, uint32(len(sec)), sec)
	file := ccFile(body, uint32(len(body)))
	cls := ""
	switch x := r.Intn(16); x {
	case 0:
		cls = "honest"
	case 1:
		cls = "torn-anywhere"
		file = file[:r.Intn(len(file)+1)]
	case 2:
		cls = "torn-in-head"
		file = file[:r.Intn(15)]
	case 3:
		cls = "torn-at-slot-boundary"
		if k > 0 {
			file = file[:14+8+64*r.Intn(k)]
		}
	case 4:
		cls = "filelen-smaller"
		ccPut32(file, 0, uint32(r.Intn(len(body)+1)))
	case 5:
		cls = "filelen-bigger"
		ccPut32(file, 0, uint32(len(body)+1+r.Intn(200)))
	case 6:
		cls = "item-flag-other"
		ccPut32(file, 14, uint32(r.Intn(4)))
	case 7:
		cls = "item-len-other"
		ccPut32(file, 18, uint32(r.Intn(len(sec)+130)))
	case 8:
		cls = "item-len-huge"
		ccPut32(file, 18, uint32(1<<31)+uint32(r.Intn(1000)))
	case 9:
		cls = "stable-item-first"
		pre := ccItem(1, uint32(r.Intn(9)), nil)
		pre = append(pre, make([]byte, int(pre[4]))...)
		body = append(pre, body...)
		file = ccFile(body, uint32(len(body)))
	case 10:
		cls = "two-candidate-items"
		sec2 := h.honestSection(1 + r.Intn(3))
		if k > 0 && len(sec2) >= 64 && r.Intn(2) == 0 {
			copy(sec2[8:64], sec[8:64]) // same address as the first item's first slot
			ccPut32(sec2, 4, uint32(sec[4]))
		}
		body = append(body, ccItem(2, uint32(len(sec2)), sec2)...)
		file = ccFile(body, uint32(len(body)))
	case 11:
		cls = "slot-garbage"
		if k > 0 {
			s := r.Intn(k)
			switch r.Intn(4) {
			case 0:
				for i := 0; i < 64; i++ {
					file[22+s*64+i] = 0
				}
			case 1:
				ccPut32(file, 22+s*64+4, uint32(r.Intn(80)))
			case 2:
				file[22+s*64+8+r.Intn(24)] ^= byte(1 << uint(r.Intn(8)))
			case 3:
				ccPut32(file, 22+s*64, uint32(r.Intn(4)*64))
			}
		}
	case 12:
		cls = "trailing-bytes"
		ext := make([]byte, 1+r.Intn(20))
		if r.Intn(2) == 0 {
			r.Read(ext)
		}
		body = append(body, ext...)
		file = ccFile(body, uint32(len(body)))
	case 13:
		cls = "empty-file"
		file = []byte{}
	case 14:
		cls = "random-file"
		file = make([]byte, 14+r.Intn(200))
		r.Read(file)
		ccPut32(file, 0, uint32(r.Intn(300)))
	case 15:
		cls = "stale-head-longer-payload"
		a := h.randAddr()
		c1 := store.NewCandidateCache()
		c1.Set(&store.Candidate{Address: h.randAddr(), Total: big.NewInt(5)})
		c1.Set(&store.Candidate{Address: a, Total: big.NewInt(100)})
		c2 := store.NewCandidateCache()
		c2.Set(&store.Candidate{Address: h.randAddr(), Total: big.NewInt(5)})
		c2.Set(&store.Candidate{Address: a, Total: big.NewInt(300)})
		s := make([]byte, 128)
		copy(s, c2.CandidateBuf[:128])
		if r.Intn(2) == 0 {
			copy(s[64:72], c1.CandidateBuf[64:72]) // second slot stale: the map keeps slot 0, GetCandidates fails
		} else {
			copy(s[0:64], c1.CandidateBuf[64:128]) // first slot stale: silently empty
			ccPut32(s, 0, 0)
			copy(s[8:64], c2.CandidateBuf[72:128])
		}
		body = ccItem(2, 128, s)
		file = ccFile(body, uint32(len(body)))
	}
	h.c.Count("cc:load-class:" + cls)
	h.replay = nil
	h.opLoad(file)
	out, _, _ := ccList(h.ctx.Candidates)
	h.op("cc list", out)
	h.c.Count("cc:load-list:" + firstWord(out))
	if r.Intn(4) == 0 {
		t, _ := h.pickTotal()
		if !h.opSet(h.randAddr(), t, false) {
			h.opReopen()
			o2, _, _ := ccList(h.ctx.Candidates)
			h.op("cc list", o2)
		}
	}
}

func c10CachePart(c *Ctx) {
	dir, err := os.MkdirTemp("", "hx-c10cc-")
	if err != nil {
		panic(err)
	}
	defer os.RemoveAll(dir)
	h := &ccH{c: c, dir: dir}
	h.directedPairs()
	nHonest := c.N / 5
	for i := 0; i < nHonest; i++ {
		nAddr := 1 + c.Rnd.Intn(6)
		nSet := 2 + c.Rnd.Intn(24)
		h.honest(nAddr, nSet)
	}
	// the buffer grows past its first 64 slots (and again after a reload, where Cap = Cur)
	for i := 0; i < 2; i++ {
		h.honest(66+c.Rnd.Intn(8), 90)
		c.Count("cc:honest-script:more-than-64-slots")
	}
	for i := 0; i < c.N; i++ {
		h.garbageDecode()
	}
	for i := 0; i < c.N; i++ {
		h.garbageLoad()
	}
	h.newCtx()
}

package main

// C10, engine level: the deputy list written into a term-snapshot block.
//
// Seal / verifyDeputy take the ORDER of the deputies from GetCandidatesTop(parent) but the VOTES from
// the shared account manager, i.e. from the post-state of the snapshot block itself.  A balance change
// of a voter inside the snapshot block therefore changes the votes without changing the order, and
// NewTermRecord (votes must be non-increasing by rank) panics when the block becomes stable and again
// in deputynode.NewManager on every restart.
//
// Deterministic scenarios (TermDuration 6, InterimDuration 2, deputyCount 2, block every 10 s):
//  "quiet" / "transfer"  (1 genesis deputy D0, so every block is stable at once)
//   h1  founder -> U1 6,000,000 LEMO ; founder -> V 1,000 LEMO
//   h2  U1 registers as candidate (deposit 5,000,000 => 50,000 votes) ; V votes for D0 (4 votes)
//   h3..h5 empty                                  top(h5) = [U1 50000, D0 4]
//   h6  (snapshot)  "quiet": empty                deputies = [U1 50000 r0, D0 4 r1]            loadable
//                   "transfer": founder -> V 20,000,000 LEMO  (D0: 4 + 100000 votes)
//                                                 deputies = [U1 50000 r0, D0 100004 r1]       NOT loadable
//  "unregister-zero"  (2 genesis deputies D0, D1 with 0 votes)
//   h1  founder -> D1 100 LEMO (gas money) ; h2  D1 un-registers (votes 0 -> 0: no VotesLog in the block)
//   h6  (snapshot) empty                          deputies still contain D1
//  "three-candidates"  (1 genesis deputy; MORE listed candidates than deputies: the cut list[:DeputyCount])
//   h1 fund U1, U2, V ; h2 U1 registers 5,000,000 (50,000), U2 registers 6,000,000 (60,000), V votes D0 (4)
//   top(h5) = [U2 60000, U1 50000, D0 4]          deputies = [U2 60000 r0, U1 50000 r1]
//  "fork"  (2 genesis deputies, nothing becomes stable; the snapshot block's parent is NOT the current block)
//   h2 U1 registers 5,000,000, U2 6,000,000 ; h5a (on h4) empty, inserted first = current block
//   h5b (on h4) U1 adds 2,000,000 deposit (70,000 votes) ; h6 is built on h5b
//   top(h5a) = [U2 60000, U1 50000, ..]  top(h5b) = [U1 70000, U2 60000, ..]   deputies = [U1 70000 r0, U2 60000 r1]
//
// What is printed as the implementation's answer of the model op `seal` are the DeputyNodes of the block the
// validating engine STORED: InsertBlock re-seals the block with the real DPoVP.LoadTopCandidates and stores
// that.  The block handed to InsertBlock is built by the toolkit's miner path (its candidate loader is a copy);
// it must be accepted (c10/snapshot-block-rejected), the stored list must equal it, and a direct call of the
// real DPoVP.LoadTopCandidates(parent) must name the same addresses and ranks.

import (
	"fmt"
	"math/big"
	"os"
	"strings"
	"time"

	"github.com/LemoFoundationLtd/lemochain-core/chain/account"
	"github.com/LemoFoundationLtd/lemochain-core/chain/deputynode"
	"github.com/LemoFoundationLtd/lemochain-core/chain/params"
	"github.com/LemoFoundationLtd/lemochain-core/chain/types"
	"github.com/LemoFoundationLtd/lemochain-core/common"
	"github.com/LemoFoundationLtd/lemochain-core/store"
)

type c10EngineResult struct {
	ParentTop          string   // GetCandidatesTop(parent of snapshot) as "label:votes ..."
	ParentVotes        string   // votes of those candidates read from the parent's account view
	Deputies           string   // DeputyNodes of the snapshot block the validating engine STORED "n:votes:rank ..."
	SealOp             string   // the model op line
	Insert             string   // result of InsertBlock(snapshot block) on the validating node
	Loadable           string   // NewTermRecord(snapshot height, those DeputyNodes): "ok" | "panic ErrXxx"
	Restart            string   // reopening the node that stored the snapshot block
	UnregisteredDeputy string   // non-empty when a deputy of the snapshot block is not a registered candidate
	Problems           []string // "signature|detail": rejected snapshot block, stored/direct list differs, literal expectation failed
	Log                []string
}

func c10Lemo(n int64) *big.Int {
	return new(big.Int).Mul(big.NewInt(n), big.NewInt(1000000000000000000))
}

// c10TermPanic runs f and names the NewTermRecord panic, if any.
func c10TermPanic(f func()) (out string) {
	defer func() {
		if r := recover(); r != nil {
			switch r {
			case deputynode.ErrInvalidDeputyVotes:
				out = "panic ErrInvalidDeputyVotes"
			case deputynode.ErrInvalidDeputyRank:
				out = "panic ErrInvalidDeputyRank"
			case deputynode.ErrNoDeputyInBlock:
				out = "panic ErrNoDeputyInBlock"
			case deputynode.ErrInvalidSnapshotHeight:
				out = "panic ErrInvalidSnapshotHeight"
			default:
				out = "panic other"
			}
		}
	}()
	f()
	return "ok"
}

func c10ShowDeputies(ds types.DeputyNodes, num func(common.Address) int) string {
	if len(ds) == 0 {
		return "-"
	}
	var ss []string
	for _, d := range ds {
		ss = append(ss, fmt.Sprintf("%d:%s:%d", num(d.MinerAddress), d.Votes, d.Rank))
	}
	return strings.Join(ss, " ")
}

// c10SnapshotObserve: what the REAL engine made of the snapshot block `blk` (built by the toolkit's miner path
// and already handed to n.Insert with result `ins`).  Returns the deputies of the stored block (the output of
// the real RunBlock -> Seal -> DPoVP.LoadTopCandidates), or "rejected", and the problems found.
func c10SnapshotObserve(n *Node, blk *types.Block, direct string, ins string, num func(common.Address) int) (deps string, stored types.DeputyNodes, problems []string) {
	built := c10ShowDeputies(blk.DeputyNodes, num)
	var sb *types.Block
	Safe(func() string {
		b, err := n.DB.GetBlockByHash(blk.Hash())
		if err == nil {
			sb = b
		}
		return ""
	})
	if sb == nil || (ins != "<nil>" && ins != "panic") {
		problems = append(problems, fmt.Sprintf("c10/snapshot-block-rejected|the validating engine does not accept the snapshot block whose deputies are %s (the first DeputyCount entries of its parent's published list): InsertBlock = %s, stored = %v", built, ins, sb != nil))
	}
	deps = "rejected"
	if sb != nil {
		stored = sb.DeputyNodes
		deps = c10ShowDeputies(sb.DeputyNodes, num)
		if deps != built {
			problems = append(problems, fmt.Sprintf("c10/snapshot-deputies-differ/stored-block|stored block carries %s, the block handed to InsertBlock %s", deps, built))
		}
	}
	if direct != "" {
		var want []string
		for _, d := range blk.DeputyNodes {
			want = append(want, fmt.Sprintf("%d:r%d", num(d.MinerAddress), d.Rank))
		}
		if direct != strings.Join(want, " ") {
			problems = append(problems, fmt.Sprintf("c10/snapshot-deputies-differ/direct-call|DPoVP.LoadTopCandidates(parent) names [%s], the first DeputyCount entries of the parent's published list are [%s]", direct, strings.Join(want, " ")))
		}
	}
	return
}

// c10DirectLoader calls the real DPoVP.LoadTopCandidates(parentHash) of node n.  To be called while the parent is
// still held by the store (before the snapshot block is inserted: with one deputy the snapshot block becomes the
// last confirmed block at once and the parent's list is gone).  The votes come from whatever the shared account
// manager holds at that moment, so only addresses and ranks are reported.  The next RunBlock resets the manager.
func c10DirectLoader(n *Node, parentHash common.Hash, num func(common.Address) int) string {
	out, msg := SafeMsg(func() string {
		var ss []string
		for _, d := range n.BC.VerifEngine().LoadTopCandidates(parentHash) {
			ss = append(ss, fmt.Sprintf("%d:r%d", num(d.MinerAddress), d.Rank))
		}
		if len(ss) == 0 {
			return "-"
		}
		return strings.Join(ss, " ")
	})
	if msg != "" {
		return "panic " + msg
	}
	return out
}

func c10EngineScenario(c *Ctx, variant string) (res c10EngineResult) {
	site := "engine-scenario-" + variant
	defer c10Guard(c, "engine scenario "+variant, &site, func() []string { return append([]string{}, res.Log...) })
	oldT, oldI := params.TermDuration, params.InterimDuration
	params.TermDuration, params.InterimDuration = 6, 2
	defer func() { params.TermDuration, params.InterimDuration = oldT, oldI }()
	const deputyCount = 2
	store.VerifSetMaxCandidateCount(20)

	now := uint32(time.Now().Unix())
	nGenesis := 1
	if variant == "unregister-zero" || variant == "fork" {
		nGenesis = 2
	}
	w := NewWorld(nGenesis, now-500000, 10000)
	a := w.NewNode(deputyCount) // miner side
	b := w.NewNode(deputyCount) // validator side; also the node that is restarted
	bClosed := false
	defer func() {
		Safe(func() string { a.Close(); return "" })
		if !bClosed {
			Safe(func() string { b.Close(); return "" })
		}
	}()
	d0 := keyAddr(w.DeputyKeys[0])
	var d1 common.Address
	if nGenesis > 1 {
		d1 = keyAddr(w.DeputyKeys[1])
	}
	u1k, u2k, vk := detKey("c10-u1"), detKey("c10-u2"), detKey("c10-v")
	u1, u2, v := keyAddr(u1k), keyAddr(u2k), keyAddr(vk)
	num := func(x common.Address) int { // numbering used in the model op
		switch x {
		case d0:
			return 1
		case d1:
			return 2
		case u1:
			return 3
		case u2:
			return 4
		}
		return 9
	}
	label := func(x common.Address) string {
		return map[int]string{1: "D0", 2: "D1", 3: "U1", 4: "U2", 9: "?"}[num(x)]
	}
	logf := func(f string, args ...interface{}) { res.Log = append(res.Log, fmt.Sprintf(f, args...)) }
	problem := func(sig, detail string) { res.Problems = append(res.Problems, sig+"|"+detail) }

	// by-construction expectations (file header): parent's list, post-state votes, deputies
	genesisPair := "1:0 2:0"
	if strings.Compare(string(d1[:]), string(d0[:])) < 0 {
		genesisPair = "2:0 1:0"
	}
	wantTop := map[string]string{
		"quiet": "3:50000 1:4", "transfer": "3:50000 1:4", "unregister-zero": genesisPair,
		"three-candidates": "4:60000 3:50000 1:4", "fork": "3:70000 4:60000 " + genesisPair,
	}[variant]
	wantPost := map[string]string{
		"quiet": "3:50000 1:4", "transfer": "3:50000 1:100004", "unregister-zero": genesisPair,
		"three-candidates": "4:60000 3:50000 1:4", "fork": "3:70000 4:60000 " + genesisPair,
	}[variant]
	wantDeps := map[string]string{
		"quiet": "3:50000:0 1:4:1", "transfer": "3:50000:0 1:100004:1",
		"unregister-zero":  map[string]string{"1:0 2:0": "1:0:0 2:0:1", "2:0 1:0": "2:0:0 1:0:1"}[genesisPair],
		"three-candidates": "4:60000:0 3:50000:1", "fork": "3:70000:0 4:60000:1",
	}[variant]

	parent := a.BC.CurrentBlock()
	t := parent.Time() + 1
	var topToks []string
	var topAddrs []common.Address
	insertBoth := func(blk *types.Block) (ra, ma, rb, mb string) {
		// the miner's own node stores it too (a panic there is the same finding)
		ra, ma = SafeMsg(func() string { return fmt.Sprint(a.Insert(CloneBlock(blk))) })
		rb, mb = SafeMsg(func() string { return fmt.Sprint(b.Insert(CloneBlock(blk))) })
		return
	}
	for h := uint32(1); h <= 6; h++ {
		var txs types.Transactions
		opt := func(m string) TxOpt { return TxOpt{Exp: uint64(t) + 100, Msg: m} }
		switch {
		case variant == "unregister-zero" && h == 1:
			txs = append(txs, txTransfer(w.FounderKey, d1, c10Lemo(100), opt("gas-d1")))
		case variant == "unregister-zero" && h == 2:
			txs = append(txs, txRegister(w.DeputyKeys[1], nil, w.DeputyKeys[1], true, nil, opt("unreg-d1")))
		case variant == "unregister-zero":
		case (variant == "three-candidates" || variant == "fork") && h == 1:
			txs = append(txs, txTransfer(w.FounderKey, u1, c10Lemo(8000000), opt("fund-u1")))
			txs = append(txs, txTransfer(w.FounderKey, u2, c10Lemo(7000000), opt("fund-u2")))
			txs = append(txs, txTransfer(w.FounderKey, v, c10Lemo(1000), opt("fund-v")))
		case (variant == "three-candidates" || variant == "fork") && h == 2:
			txs = append(txs, txRegister(u1k, c10Lemo(5000000), detKey("c10-u1-node"), false, nil, opt("reg-u1")))
			txs = append(txs, txRegister(u2k, c10Lemo(6000000), detKey("c10-u2-node"), false, nil, opt("reg-u2")))
			if variant == "three-candidates" {
				txs = append(txs, txVote(vk, d0, opt("vote-d0")))
			}
		case variant == "three-candidates" || variant == "fork":
		case h == 1:
			txs = append(txs, txTransfer(w.FounderKey, u1, c10Lemo(6000000), opt("fund-u1")))
			txs = append(txs, txTransfer(w.FounderKey, v, c10Lemo(1000), opt("fund-v")))
		case h == 2:
			txs = append(txs, txRegister(u1k, c10Lemo(5000000), detKey("c10-u1-node"), false, nil, opt("reg-u1")))
			txs = append(txs, txVote(vk, d0, opt("vote-d0")))
		case variant == "transfer" && h == 6:
			txs = append(txs, txTransfer(w.FounderKey, v, c10Lemo(20000000), opt("fund-v-again")))
		}
		if variant == "fork" && h == 5 {
			// sibling 5a: empty, inserted first (it is the current block when 5b and 6 arrive)
			blkA, _, err := a.Build(parent, t, nil, nil)
			if err != nil {
				logf("build h5a: %v", err)
				res.Insert = "build-error"
				return
			}
			ra, _, rb, _ := insertBoth(blkA)
			logf("h5a A=%s B=%s", ra, rb)
			if ra != "<nil>" || rb != "<nil>" {
				res.Insert = "setup-insert-failed"
				return
			}
			t += 10
			txs = append(txs, txRegister(u1k, c10Lemo(2000000), detKey("c10-u1-node"), false, nil, TxOpt{Exp: uint64(t) + 100, Msg: "deposit-u1"}))
		}
		if h == 6 {
			var ps, pv []string
			am := account.NewManager(parent.Hash(), a.DB)
			for _, cd := range a.DB.GetCandidatesTop(parent.Hash()) {
				ps = append(ps, fmt.Sprintf("%s:%s", label(cd.GetAddress()), cd.GetTotal()))
				pv = append(pv, fmt.Sprintf("%s:%s", label(cd.GetAddress()), am.GetAccount(cd.GetAddress()).GetVotes()))
				topToks = append(topToks, fmt.Sprintf("%d:%s", num(cd.GetAddress()), cd.GetTotal()))
				topAddrs = append(topAddrs, cd.GetAddress())
			}
			res.ParentTop, res.ParentVotes = strings.Join(ps, " "), strings.Join(pv, " ")
			if got := strings.Join(topToks, " "); got != wantTop {
				problem("c10/scenario-expectation-failed/"+variant, fmt.Sprintf("published list of the snapshot block's parent is [%s], by construction it is [%s]", got, wantTop))
			}
			if variant == "fork" {
				if cur := b.BC.CurrentBlock(); cur.Hash() == parent.Hash() {
					logf("note: the snapshot parent IS the current block of the validating node")
					c.Count("engine:fork-scenario-parent-is-current")
				} else {
					c.Count("engine:fork-scenario-parent-is-not-current")
				}
			}
		}
		blk, invalid, err := a.Build(parent, t, txs, nil)
		if err != nil {
			logf("build h%d: %v", h, err)
			res.Insert = "build-error"
			return
		}
		if len(invalid) != 0 || len(blk.Txs) != len(txs) {
			logf("h%d: %d of %d txs packed, %d invalid", h, len(blk.Txs), len(txs), len(invalid))
			res.Insert = "tx-rejected"
			return
		}
		direct := ""
		if h == 6 {
			direct = c10DirectLoader(b, parent.Hash(), num)
		}
		ra, ma, rb, mb := insertBoth(blk)
		logf("h%d txs=%d A=%s %s B=%s %s stableB=%d", h, len(blk.Txs), ra, ma, rb, mb, b.BC.StableBlock().Height())
		if h == 6 {
			res.Insert = rb
			if mb != "" {
				res.Insert = rb + "(" + mb + ")"
			}
			deps, stored, probs := c10SnapshotObserve(b, blk, direct, rb, num)
			res.Deputies = deps
			res.Problems = append(res.Problems, probs...)
			if deps != wantDeps {
				problem("c10/scenario-expectation-failed/"+variant, fmt.Sprintf("deputies of the stored snapshot block are [%s], by construction [%s]", deps, wantDeps))
			}
			res.Loadable = c10TermPanic(func() { deputynode.NewTermRecord(blk.Height(), CloneBlock(blk).DeputyNodes) })
			if stored != nil {
				res.Loadable = c10TermPanic(func() { deputynode.NewTermRecord(blk.Height(), stored) })
			}
			// post-state of the snapshot block, read independently of block.DeputyNodes
			var post []string
			ok := Safe(func() string {
				am := account.NewManager(blk.Hash(), a.DB)
				for _, x := range topAddrs {
					acc := am.GetAccount(x)
					post = append(post, fmt.Sprintf("%d:%s", num(x), acc.GetVotes()))
					if acc.GetCandidateState(types.CandidateKeyIsCandidate) != types.IsCandidateNode {
						for _, d := range blk.DeputyNodes {
							if d.MinerAddress == x {
								res.UnregisteredDeputy = fmt.Sprintf("deputy %s (rank %d) has isCandidate=%q in the snapshot block's state and in its parent's", label(x), d.Rank, acc.GetCandidateState(types.CandidateKeyIsCandidate))
							}
						}
					}
				}
				return "ok"
			})
			if ok == "ok" {
				if got := strings.Join(post, " "); got != wantPost {
					problem("c10/scenario-expectation-failed/"+variant, fmt.Sprintf("votes in the snapshot block's state are [%s], by construction [%s]", got, wantPost))
				}
				res.SealOp = fmt.Sprintf("seal %d %d %d %s / %s", deputyCount, params.TermDuration, blk.Height(), strings.Join(topToks, " "), strings.Join(post, " "))
			} else {
				// the block was not stored: the op still goes out, with the by-construction votes
				logf("post-state of the snapshot block is not readable")
				res.SealOp = fmt.Sprintf("seal %d %d %d %s / %s", deputyCount, params.TermDuration, blk.Height(), strings.Join(topToks, " "), wantPost)
			}
		} else if ra != "<nil>" || rb != "<nil>" {
			res.Insert = "setup-insert-failed"
			return
		}
		parent = blk
		t += 10
	}
	// restart of the validator node
	var msg string
	res.Restart, msg = SafeMsg(func() string {
		b.Reopen()
		return fmt.Sprintf("ok stable=%d", b.BC.StableBlock().Height())
	})
	if msg != "" {
		res.Restart += "(" + msg + ")"
		// the engine is half-open: release what we can
		Safe(func() string { b.DB.Close(); return "" })
		os.RemoveAll(b.Dir)
		bClosed = true
	}
	return
}

package main

// C10, engine level: the deputy list written into a term-snapshot block.
//
// Seal / verifyDeputy take the ORDER of the deputies from GetCandidatesTop(parent) but the VOTES from
// the shared account manager, i.e. from the post-state of the snapshot block itself.  A balance change
// of a voter inside the snapshot block therefore changes the votes without changing the order, and
// NewTermRecord (votes must be non-increasing by rank) panics when the block becomes stable and again
// in deputynode.NewManager on every restart.
//
// Deterministic scenarios (TermDuration 6, InterimDuration 2, deputyCount 2, block every 10 s):
//  "quiet" / "transfer"  (1 genesis deputy D0, so every block is stable at once)
//   h1  founder -> U1 6,000,000 LEMO ; founder -> V 1,000 LEMO
//   h2  U1 registers as candidate (deposit 5,000,000 => 50,000 votes) ; V votes for D0 (4 votes)
//   h3..h5 empty                                  top(h5) = [U1 50000, D0 4]
//   h6  (snapshot)  "quiet": empty                deputies = [U1 50000 r0, D0 4 r1]            loadable
//                   "transfer": founder -> V 20,000,000 LEMO  (D0: 4 + 100000 votes)
//                                                 deputies = [U1 50000 r0, D0 100004 r1]       NOT loadable
//  "unregister-zero"  (2 genesis deputies D0, D1 with 0 votes)
//   h1  founder -> D1 100 LEMO (gas money) ; h2  D1 un-registers (votes 0 -> 0: no VotesLog in the block)
//   h6  (snapshot) empty                          deputies still contain D1

import (
	"fmt"
	"math/big"
	"os"
	"strings"
	"time"

	"github.com/LemoFoundationLtd/lemochain-core/chain/account"
	"github.com/LemoFoundationLtd/lemochain-core/chain/deputynode"
	"github.com/LemoFoundationLtd/lemochain-core/chain/params"
	"github.com/LemoFoundationLtd/lemochain-core/chain/types"
	"github.com/LemoFoundationLtd/lemochain-core/common"
)

type c10EngineResult struct {
	ParentTop          string // GetCandidatesTop(parent of snapshot) as "label:votes ..."
	ParentVotes        string // votes of those candidates read from the parent's account view
	Deputies           string // block.DeputyNodes of the snapshot block "n:votes:rank ..." (model numbering)
	SealOp             string // the model op line
	Insert             string // result of InsertBlock(snapshot block) on the validating node
	Loadable           string // NewTermRecord(snapshot height, block.DeputyNodes): "ok" | "panic ErrXxx"
	Restart            string // reopening the node that stored the snapshot block
	UnregisteredDeputy string // non-empty when a deputy of the snapshot block is not a registered candidate
	Log                []string
}

func c10Lemo(n int64) *big.Int {
	return new(big.Int).Mul(big.NewInt(n), big.NewInt(1000000000000000000))
}

// c10TermPanic runs f and names the NewTermRecord panic, if any.
func c10TermPanic(f func()) (out string) {
	defer func() {
		if r := recover(); r != nil {
			switch r {
			case deputynode.ErrInvalidDeputyVotes:
				out = "panic ErrInvalidDeputyVotes"
			case deputynode.ErrInvalidDeputyRank:
				out = "panic ErrInvalidDeputyRank"
			case deputynode.ErrNoDeputyInBlock:
				out = "panic ErrNoDeputyInBlock"
			case deputynode.ErrInvalidSnapshotHeight:
				out = "panic ErrInvalidSnapshotHeight"
			default:
				out = "panic other"
			}
		}
	}()
	f()
	return "ok"
}

func c10EngineScenario(variant string) (res c10EngineResult) {
	oldT, oldI := params.TermDuration, params.InterimDuration
	params.TermDuration, params.InterimDuration = 6, 2
	defer func() { params.TermDuration, params.InterimDuration = oldT, oldI }()
	const deputyCount = 2

	now := uint32(time.Now().Unix())
	nGenesis := 1
	if variant == "unregister-zero" {
		nGenesis = 2
	}
	w := NewWorld(nGenesis, now-500000, 10000)
	a := w.NewNode(deputyCount) // miner side
	b := w.NewNode(deputyCount) // validator side; also the node that is restarted
	bClosed := false
	defer func() {
		Safe(func() string { a.Close(); return "" })
		if !bClosed {
			Safe(func() string { b.Close(); return "" })
		}
	}()
	d0 := keyAddr(w.DeputyKeys[0])
	var d1 common.Address
	if nGenesis > 1 {
		d1 = keyAddr(w.DeputyKeys[1])
	}
	u1k, vk := detKey("c10-u1"), detKey("c10-v")
	u1, v := keyAddr(u1k), keyAddr(vk)
	num := func(x common.Address) int { // numbering used in the model op
		switch x {
		case d0:
			return 1
		case d1:
			return 2
		case u1:
			return 3
		}
		return 9
	}
	label := func(x common.Address) string { return map[int]string{1: "D0", 2: "D1", 3: "U1", 9: "?"}[num(x)] }
	logf := func(f string, args ...interface{}) { res.Log = append(res.Log, fmt.Sprintf(f, args...)) }

	parent := a.BC.CurrentBlock()
	t := parent.Time() + 1
	var topToks []string
	var topAddrs []common.Address
	for h := uint32(1); h <= 6; h++ {
		var txs types.Transactions
		opt := func(m string) TxOpt { return TxOpt{Exp: uint64(t) + 100, Msg: m} }
		switch {
		case variant == "unregister-zero" && h == 1:
			txs = append(txs, txTransfer(w.FounderKey, d1, c10Lemo(100), opt("gas-d1")))
		case variant == "unregister-zero" && h == 2:
			txs = append(txs, txRegister(w.DeputyKeys[1], nil, w.DeputyKeys[1], true, nil, opt("unreg-d1")))
		case variant != "unregister-zero" && h == 1:
			txs = append(txs, txTransfer(w.FounderKey, u1, c10Lemo(6000000), opt("fund-u1")))
			txs = append(txs, txTransfer(w.FounderKey, v, c10Lemo(1000), opt("fund-v")))
		case variant != "unregister-zero" && h == 2:
			txs = append(txs, txRegister(u1k, c10Lemo(5000000), detKey("c10-u1-node"), false, nil, opt("reg-u1")))
			txs = append(txs, txVote(vk, d0, opt("vote-d0")))
		case variant == "transfer" && h == 6:
			txs = append(txs, txTransfer(w.FounderKey, v, c10Lemo(20000000), opt("fund-v-again")))
		}
		if h == 6 {
			var ps, pv []string
			am := account.NewManager(parent.Hash(), a.DB)
			for _, c := range a.DB.GetCandidatesTop(parent.Hash()) {
				ps = append(ps, fmt.Sprintf("%s:%s", label(c.GetAddress()), c.GetTotal()))
				pv = append(pv, fmt.Sprintf("%s:%s", label(c.GetAddress()), am.GetAccount(c.GetAddress()).GetVotes()))
				topToks = append(topToks, fmt.Sprintf("%d:%s", num(c.GetAddress()), c.GetTotal()))
				topAddrs = append(topAddrs, c.GetAddress())
			}
			res.ParentTop, res.ParentVotes = strings.Join(ps, " "), strings.Join(pv, " ")
		}
		blk, invalid, err := a.Build(parent, t, txs, nil)
		if err != nil {
			logf("build h%d: %v", h, err)
			res.Insert = "build-error"
			return
		}
		if len(invalid) != 0 || len(blk.Txs) != len(txs) {
			logf("h%d: %d of %d txs packed, %d invalid", h, len(blk.Txs), len(txs), len(invalid))
			res.Insert = "tx-rejected"
			return
		}
		// the miner's own node stores it too (a panic there is the same finding)
		ra, ma := SafeMsg(func() string { return fmt.Sprint(a.Insert(CloneBlock(blk))) })
		rb, mb := SafeMsg(func() string { return fmt.Sprint(b.Insert(CloneBlock(blk))) })
		logf("h%d txs=%d A=%s %s B=%s %s stableB=%d", h, len(blk.Txs), ra, ma, rb, mb, b.BC.StableBlock().Height())
		if h == 6 {
			res.Insert = rb
			if mb != "" {
				res.Insert = rb + "(" + mb + ")"
			}
			var ds []string
			for _, d := range blk.DeputyNodes {
				ds = append(ds, fmt.Sprintf("%d:%s:%d", num(d.MinerAddress), d.Votes, d.Rank))
			}
			res.Deputies = "-"
			if len(ds) > 0 {
				res.Deputies = strings.Join(ds, " ")
			}
			res.Loadable = c10TermPanic(func() { deputynode.NewTermRecord(blk.Height(), CloneBlock(blk).DeputyNodes) })
			// post-state of the snapshot block, read independently of block.DeputyNodes
			var post []string
			ok := Safe(func() string {
				am := account.NewManager(blk.Hash(), a.DB)
				for _, x := range topAddrs {
					acc := am.GetAccount(x)
					post = append(post, fmt.Sprintf("%d:%s", num(x), acc.GetVotes()))
					if acc.GetCandidateState(types.CandidateKeyIsCandidate) != types.IsCandidateNode {
						for _, d := range blk.DeputyNodes {
							if d.MinerAddress == x {
								res.UnregisteredDeputy = fmt.Sprintf("deputy %s (rank %d) has isCandidate=%q in the snapshot block's state and in its parent's", label(x), d.Rank, acc.GetCandidateState(types.CandidateKeyIsCandidate))
							}
						}
					}
				}
				return "ok"
			})
			if ok == "ok" {
				res.SealOp = fmt.Sprintf("seal %d %d %d %s / %s", deputyCount, params.TermDuration, blk.Height(), strings.Join(topToks, " "), strings.Join(post, " "))
			} else {
				logf("post-state of the snapshot block is not readable")
			}
		} else if ra != "<nil>" || rb != "<nil>" {
			res.Insert = "setup-insert-failed"
			return
		}
		parent = blk
		t += 10
	}
	// restart of the validator node
	var msg string
	res.Restart, msg = SafeMsg(func() string {
		b.Reopen()
		return fmt.Sprintf("ok stable=%d", b.BC.StableBlock().Height())
	})
	if msg != "" {
		res.Restart += "(" + msg + ")"
		// the engine is half-open: release what we can
		Safe(func() string { b.DB.Close(); return "" })
		os.RemoveAll(b.Dir)
		bClosed = true
	}
	return
}

package main

// C10, engine level, randomised (review item M2): the inputs of CBlock.Ranking are produced by the REAL
// path — register / vote / transfer / un-register transactions, TxProcessor, MergeChangeLogs, Manager.Save
// (AccountTrieDB.Put of every changed account, CandidatesRanking(filterLogsByType(VotesLog))) — and
//   * every block is turned into a model op: the changed accounts are read back from the block's CBlock
//     (AccountTrieDB.Collect(height)), the vote logs from block.ChangeLogs; the model must reproduce
//     GetCandidatesTop, the all-candidates index and, after SetStableBlock, the persisted candidate list;
//   * the hypotheses of the history theorems (LemoProofs.C10.Consistent) are CHECKED on these inputs:
//     one VotesLog per address, a registered account whose votes differ from its parent's view carries a
//     VotesLog with the account's votes, only accounts with a candidate profile carry VotesLogs, a registered
//     account never loses its profile (signatures c10/save-input-inconsistent/<clause>);
//   * the direct oracles of the store part run on the real blocks (full sort of the registered candidates of
//     the block's view; a node that re-opens at random points against one that does not).
// One genesis deputy mines every block (term 0; the run ends with the snapshot block), so every block is stable
// on insertion; forks are the store part's business.  Equal deposits give equal votes: ties by address, with
// real 20-byte addresses.  The list size is 3 and there are up to 6 candidates.

import (
	"crypto/ecdsa"
	"fmt"
	"math/big"
	"sort"
	"strings"
	"time"

	"github.com/LemoFoundationLtd/lemochain-core/chain/account"
	"github.com/LemoFoundationLtd/lemochain-core/chain/deputynode"
	"github.com/LemoFoundationLtd/lemochain-core/chain/params"
	"github.com/LemoFoundationLtd/lemochain-core/chain/types"
	"github.com/LemoFoundationLtd/lemochain-core/common"
	"github.com/LemoFoundationLtd/lemochain-core/store"
)

type c10Actor struct {
	name string
	key  *ecdsa.PrivateKey
	addr common.Address
}

type c10Eng struct {
	c        *Ctx
	run      int
	a, b     *Node
	num      map[common.Address]int // order-preserving numbering of the universe
	name     map[common.Address]string
	replay   []string
	reopened bool
	tainted  bool
}

func (e *c10Eng) op(line, out string) {
	e.c.Op(line, out)
	e.replay = append(e.replay, line+" => "+out)
}

func (e *c10Eng) fail(sig, detail string) {
	e.c.Count("oracle:" + sig)
	c10SigCount[sig]++
	if c10SigCount[sig] > c10MaxPerSig {
		return
	}
	e.c.Fail(sig, "engine run "+fmt.Sprint(e.run)+": "+detail, map[string]interface{}{"engine_run": e.run, "seed": e.c.Seed, "ops": append([]string{}, e.replay...)})
}

func (e *c10Eng) cands(l []*store.Candidate) []c10CV {
	var r []c10CV
	for _, x := range l {
		n, ok := e.num[x.Address]
		if !ok {
			n = 99
		}
		r = append(r, c10CV{n, x.Total.Int64()})
	}
	return r
}

// cblockOf returns the CBlock the store holds for hash (unconfirmed or last confirmed).
func c10CBlockOf(db *store.ChainDatabase, hash common.Hash) *store.CBlock {
	if cb := db.UnConfirmBlocks[hash]; cb != nil {
		return cb
	}
	if lc := db.GetLastConfirm(); lc != nil && lc.Block != nil && lc.Block.Hash() == hash {
		return lc
	}
	return nil
}

func (e *c10Eng) show(n *Node, hash common.Hash) string {
	return Safe(func() string {
		top := e.cands(n.DB.GetCandidatesTop(hash))
		cb := c10CBlockOf(n.DB, hash)
		if cb == nil {
			return "top=" + c10ShowCands(top) + " idx=?"
		}
		idx := e.cands(cb.CandidateTrieDB.GetAll())
		sort.Slice(idx, func(i, j int) bool { return idx[i].addr < idx[j].addr })
		return "top=" + c10ShowCands(top) + " idx=" + c10ShowCands(idx)
	})
}

func c10FlagOfProfile(p types.Profile) byte {
	if len(p) == 0 {
		return 'n'
	}
	switch p[types.CandidateKeyIsCandidate] {
	case types.IsCandidateNode:
		return 'y'
	case types.NotCandidateNode:
		return 'u'
	}
	return 'o'
}

// viewOf reads flag and votes of every universe address in the view of block hash.
func (e *c10Eng) viewOf(n *Node, hash common.Hash) map[int]c10Acct {
	am := account.NewManager(hash, n.DB)
	v := map[int]c10Acct{}
	for a, k := range e.num {
		acc := am.GetAccount(a)
		v[k] = c10Acct{c10FlagOfProfile(acc.GetCandidate()), acc.GetVotes().Int64()}
	}
	return v
}

// blockOp turns a stored real block into the model op and checks the Consistent clauses on it.
func (e *c10Eng) blockOp(blk *types.Block, id, pid int, parentView map[int]c10Acct) (line string, ok bool) {
	cb := c10CBlockOf(e.a.DB, blk.Hash())
	if cb == nil {
		return "", false
	}
	logVotes := map[int]int64{}
	var extra []c10CV
	for _, lg := range blk.ChangeLogs {
		if lg.LogType != account.VotesLog {
			continue
		}
		nv, isBig := lg.NewVal.(big.Int)
		k, known := e.num[lg.Address]
		if !isBig || !known {
			e.fail("c10/save-input-inconsistent/vote-log-of-unknown-account", fmt.Sprintf("block %d: VotesLog of %s", blk.Height(), lg.Address.String()))
			continue
		}
		if _, dup := logVotes[k]; dup {
			e.fail("c10/save-input-inconsistent/duplicate-vote-log", fmt.Sprintf("block %d: two VotesLogs for %s", blk.Height(), e.name[lg.Address]))
			extra = append(extra, c10CV{k, nv.Int64()})
			continue
		}
		logVotes[k] = nv.Int64()
	}
	var chs []c10Change
	seen := map[int]bool{}
	for _, acc := range cb.AccountTrieDB.Collect(blk.Height()) {
		k, known := e.num[acc.Address]
		f := c10FlagOfProfile(acc.Candidate.Profile)
		if !known {
			if f != 'n' {
				e.fail("c10/save-input-inconsistent/candidate-outside-universe", acc.Address.String())
			}
			e.c.Count("engine:changed-account-outside-universe(no profile)")
			continue
		}
		seen[k] = true
		votes := acc.Candidate.Votes.Int64()
		lv, logged := logVotes[k]
		ch := c10Change{k, f, votes, logged}
		if logged && lv != votes {
			e.fail("c10/save-input-inconsistent/log-differs-from-account", fmt.Sprintf("block %d: %s has %d votes, its VotesLog says %d", blk.Height(), e.name[acc.Address], votes, lv))
			ch.logged = false
			extra = append(extra, c10CV{k, lv})
		}
		par := parentView[k]
		switch {
		case f == 'y' && !logged && !(par.flag == 'y' && par.votes == votes):
			e.fail("c10/save-input-inconsistent/unlogged-vote-change", fmt.Sprintf("block %d: %s is registered with %d votes (parent view: flag %c, %d votes) and the block has no VotesLog for it", blk.Height(), e.name[acc.Address], votes, par.flag, par.votes))
		case f == 'n' && logged:
			e.fail("c10/save-input-inconsistent/vote-log-of-non-candidate", fmt.Sprintf("block %d: %s has no candidate profile and a VotesLog", blk.Height(), e.name[acc.Address]))
		case f == 'u' && (votes != 0 || (par.flag == 'y' && par.votes != 0 && !logged)):
			e.fail("c10/save-input-inconsistent/unregister-without-reset", fmt.Sprintf("block %d: %s is un-registered with %d votes (parent view: flag %c, %d votes), VotesLog present: %v", blk.Height(), e.name[acc.Address], votes, par.flag, par.votes, logged))
		case f == 'n' && par.flag == 'y':
			e.fail("c10/save-input-inconsistent/profile-lost", fmt.Sprintf("block %d: %s was registered and has no profile now", blk.Height(), e.name[acc.Address]))
		}
		switch f {
		case 'y':
			if par.flag == 'n' {
				e.c.Count("engine-chg:register")
			} else if logged {
				e.c.Count("engine-chg:votes-change")
			} else {
				e.c.Count("engine-chg:touch-candidate")
			}
		case 'u':
			if par.flag == 'y' {
				e.c.Count("engine-chg:unregister")
				if !logged {
					e.c.Count("engine-chg:unregister-zero-votes(no log)")
				}
			} else {
				e.c.Count("engine-chg:touch-unregistered")
			}
		case 'o':
			e.c.Count("engine-chg:odd-flag-account")
		case 'n':
			e.c.Count("engine-chg:touch-noncandidate")
		}
		chs = append(chs, ch)
	}
	for k, lv := range logVotes {
		if !seen[k] {
			e.fail("c10/save-input-inconsistent/vote-log-without-account-change", fmt.Sprintf("block %d: VotesLog for account #%d which Save did not put", blk.Height(), k))
			extra = append(extra, c10CV{k, lv})
		}
	}
	sort.Slice(chs, func(i, j int) bool { return chs[i].addr < chs[j].addr })
	sort.Slice(extra, func(i, j int) bool { return extra[i].addr < extra[j].addr })
	var toks []string
	for _, ch := range chs {
		toks = append(toks, c10ChangeTok(ch))
	}
	for _, x := range extra {
		toks = append(toks, fmt.Sprintf("x%d:%d", x.addr, x.votes))
	}
	if len(logVotes) == 0 {
		e.c.Count("engine-blk:no-vote-log(early return)")
	}
	return strings.TrimSpace(fmt.Sprintf("blk %d %d %s", id, pid, strings.Join(toks, " "))), true
}

func (e *c10Eng) persisted(n *Node) string {
	cs, err := n.DB.Context.GetCandidates()
	if err != nil {
		return "err"
	}
	l := e.cands(cs)
	sort.Slice(l, func(i, j int) bool { return l[i].addr < l[j].addr })
	return "persist=" + c10ShowCands(l)
}

// oracle on one stored block: full sort of the registered candidates of its view; re-opened node vs not.
func (e *c10Eng) oracle(blk *types.Block, view map[int]c10Acct, max int) {
	if e.tainted {
		return
	}
	var reg []c10CV
	hasOdd := false
	for k, acc := range view {
		if acc.flag == 'y' {
			reg = append(reg, c10CV{k, acc.votes})
		}
		if acc.flag == 'o' {
			hasOdd = true
		}
	}
	want := c10FullSort(reg, max)
	got := e.cands(e.a.DB.GetCandidatesTop(blk.Hash()))
	ref := e.cands(e.b.DB.GetCandidatesTop(blk.Hash()))
	sfx := ""
	if hasOdd {
		sfx = "/odd-candidate-flag"
	}
	ctx := fmt.Sprintf("block %d (max %d): top=%s, full sort of the registered candidates of its view=%s, node that never re-opened=%s", blk.Height(), max, c10ShowCands(got), c10ShowCands(want), c10ShowCands(ref))
	hasUnreg, unregVotes := false, false
	for _, g := range got {
		if f := view[g.addr].flag; f != 'y' && f != 'o' {
			hasUnreg = true
			if g.votes != 0 {
				unregVotes = true
			}
		}
	}
	if hasUnreg {
		if unregVotes { // the known finding lists un-registered candidates with 0 votes only
			e.fail("c10/top-contains-unregistered/nonzero-votes", ctx)
		} else {
			e.fail("c10/top-contains-unregistered", ctx)
		}
		e.tainted = true
	}
	if !c10Equal(got, ref) {
		e.fail("c10/restart-differs"+sfx, ctx)
		e.tainted = true
	}
	if !hasOdd && !hasUnreg && !c10Equal(got, want) && c10Equal(got, ref) {
		tie := false
		for i := 0; i < len(got) && i < len(want); i++ {
			if got[i] != want[i] {
				tie = got[i].votes == want[i].votes
				break
			}
		}
		if tie {
			e.fail("c10/top-not-sorted-prefix/tie", ctx)
		} else {
			e.fail("c10/top-not-sorted-prefix", ctx)
		}
		e.tainted = true
	}
	if !e.tainted {
		e.c.Count("oracle:engine-block-ok")
	}
}

func c10EngineRandomRun(c *Ctx, run int) {
	oldT, oldI := params.TermDuration, params.InterimDuration
	params.TermDuration, params.InterimDuration = 8, 3
	defer func() { params.TermDuration, params.InterimDuration = oldT, oldI }()
	const max, deputyCount = 3, 2
	store.VerifSetMaxCandidateCount(max)

	now := uint32(time.Now().Unix())
	w := NewWorld(1, now-500000, 10000)
	e := &c10Eng{c: c, run: run, num: map[common.Address]int{}, name: map[common.Address]string{}}
	site := "engine-random-run"
	defer c10Guard(c, fmt.Sprintf("engine run %d", run), &site, func() []string { return append([]string{}, e.replay...) })
	e.a, e.b = w.NewNode(deputyCount), w.NewNode(deputyCount)
	defer func() {
		Safe(func() string { e.a.Close(); return "" })
		Safe(func() string { e.b.Close(); return "" })
	}()
	mk := func(name string) *c10Actor {
		k := detKey(fmt.Sprintf("c10r-%d-%s", run, name)) // fresh addresses every run: the tie order varies
		return &c10Actor{name, k, keyAddr(k)}
	}
	var candsA, voters []*c10Actor
	for i := 1; i <= 5; i++ {
		candsA = append(candsA, mk(fmt.Sprintf("C%d", i)))
	}
	for i := 1; i <= 4; i++ {
		voters = append(voters, mk(fmt.Sprintf("V%d", i)))
	}
	d0 := keyAddr(w.DeputyKeys[0])
	uni := []common.Address{d0, keyAddr(w.FounderKey)}
	e.name[d0], e.name[keyAddr(w.FounderKey)] = "D0", "founder"
	for _, x := range append(append([]*c10Actor{}, candsA...), voters...) {
		uni = append(uni, x.addr)
		e.name[x.addr] = x.name
	}
	sort.Slice(uni, func(i, j int) bool { return strings.Compare(string(uni[i][:]), string(uni[j][:])) < 0 })
	for i, a := range uni {
		e.num[a] = i + 1
	}

	e.op(fmt.Sprintf("max %d", max), "ok")
	e.op("genesis", "ok")
	g := e.a.BC.CurrentBlock()
	line, ok := e.blockOp(g, 1, 0, map[int]c10Acct{})
	if !ok {
		c.Fail("c10/engine-scenario-broken", "random run: genesis CBlock not found", nil)
		return
	}
	e.op(line, e.show(e.a, g.Hash()))
	e.op("stable 1", e.persisted(e.a))
	view := e.viewOf(e.a, g.Hash())

	regState := map[string]byte{}       // per candidate actor: 'n' 'y' 'u' 'o' — what the generator believes
	shadow := map[common.Address]byte{} // flag by construction, from the register / un-register txs really PACKED
	type intent struct {
		hash common.Hash
		addr common.Address
		flag byte
	}
	votedFor := map[string]common.Address{}
	parent := g
	t := parent.Time() + 1
	quietSnapshot := c.Rnd.Intn(2) == 0
	for h := uint32(1); h <= 8; h++ {
		var txs types.Transactions
		var intents []intent
		nmsg := 0
		opt := func() TxOpt { nmsg++; return TxOpt{Exp: uint64(t) + 100, Msg: fmt.Sprintf("r%d-h%d-%d", run, h, nmsg)} }
		if h == 1 {
			for _, x := range candsA {
				txs = append(txs, txTransfer(w.FounderKey, x.addr, c10Lemo(7000000), opt()))
			}
			for i, x := range voters {
				txs = append(txs, txTransfer(w.FounderKey, x.addr, c10Lemo(int64(1000*(1+i%2))), opt()))
			}
		} else if !(h == 8 && quietSnapshot) {
			ntx := 2 + c.Rnd.Intn(4)
			usedSender := map[common.Address]bool{}
			for i := 0; i < ntx; i++ {
				kind := c.Rnd.Intn(10)
				if h <= 3 && c.Rnd.Intn(2) == 0 {
					kind = 0 // more candidates than list slots early in the run
				}
				switch kind {
				case 0, 1, 2: // register (equal deposits => equal votes => ties by address)
					x := candsA[c.Rnd.Intn(len(candsA))]
					if regState[x.name] != 0 || usedSender[x.addr] {
						continue
					}
					dep := c10Lemo(5000000)
					if c.Rnd.Intn(3) == 0 {
						dep = c10Lemo(6000000)
					}
					var extra map[string]string
					st := byte('y')
					if c.Rnd.Intn(7) == 0 {
						extra = map[string]string{types.CandidateKeyIsCandidate: "yes"}
						st = 'o'
						c.Count("engine-tx:register-with-isCandidate=yes")
					}
					txs = append(txs, txRegister(x.key, dep, detKey("c10r-node-"+x.name+fmt.Sprint(run)), false, extra, opt()))
					if st == 'y' {
						intents = append(intents, intent{txs[len(txs)-1].Hash(), x.addr, 'y'})
					}
					regState[x.name] = st
					usedSender[x.addr] = true
					c.Count("engine-tx:register")
				case 3, 4: // vote
					v := voters[c.Rnd.Intn(len(voters))]
					if usedSender[v.addr] {
						continue
					}
					targets := []common.Address{d0}
					for _, x := range candsA {
						if regState[x.name] == 'y' || regState[x.name] == 'o' {
							targets = append(targets, x.addr)
						}
					}
					to := targets[c.Rnd.Intn(len(targets))]
					if votedFor[v.name] == to {
						continue
					}
					txs = append(txs, txVote(v.key, to, opt()))
					votedFor[v.name] = to
					usedSender[v.addr] = true
					c.Count("engine-tx:vote")
				case 5, 6, 7: // balance change of a voter: its candidate's votes follow at Finalize
					v := voters[c.Rnd.Intn(len(voters))]
					txs = append(txs, txTransfer(w.FounderKey, v.addr, c10Lemo(int64(200*(1+c.Rnd.Intn(5)))), opt()))
					c.Count("engine-tx:transfer-to-voter")
				case 8: // un-register
					x := candsA[c.Rnd.Intn(len(candsA))]
					if regState[x.name] != 'y' || usedSender[x.addr] {
						continue
					}
					txs = append(txs, txRegister(x.key, nil, detKey("c10r-node-"+x.name+fmt.Sprint(run)), true, nil, opt()))
					intents = append(intents, intent{txs[len(txs)-1].Hash(), x.addr, 'u'})
					regState[x.name] = 'u'
					usedSender[x.addr] = true
					c.Count("engine-tx:unregister")
				case 9: // update the profile of a registered candidate (no vote change)
					x := candsA[c.Rnd.Intn(len(candsA))]
					if regState[x.name] != 'y' || usedSender[x.addr] {
						continue
					}
					txs = append(txs, txRegister(x.key, nil, detKey("c10r-node-"+x.name+fmt.Sprint(run)), false, map[string]string{types.CandidateKeyIntroduction: fmt.Sprintf("h%d", h)}, opt()))
					usedSender[x.addr] = true
					c.Count("engine-tx:update-profile")
				}
			}
		}
		var topToks []string
		var topAddrs []common.Address
		if h == 8 {
			for _, cd := range e.a.DB.GetCandidatesTop(parent.Hash()) {
				topToks = append(topToks, fmt.Sprintf("%d:%s", e.num[cd.GetAddress()], cd.GetTotal()))
				topAddrs = append(topAddrs, cd.GetAddress())
			}
			// The op `seal` states "the validating node accepts the block built from ITS parent's published list".
			// The miner is node A, the validator node B: when the two already publish different lists for the parent
			// (A re-opened and its start-up filter dropped an un-registered 0-vote candidate that B, which never
			// stopped, still ranks: seed 11), the premise is gone and B rejects A's honest snapshot block.  That is a
			// consequence of the cause, so it is reported under the cause's signature -- the listed finding only if
			// every entry the two lists disagree on is an un-registered candidate with 0 votes -- and the op is skipped.
			ta, tb := e.cands(e.a.DB.GetCandidatesTop(parent.Hash())), e.cands(e.b.DB.GetCandidatesTop(parent.Hash()))
			if !c10Equal(ta, tb) {
				in := func(l []c10CV, x c10CV) bool {
					for _, y := range l {
						if y == x {
							return true
						}
					}
					return false
				}
				onlyUnreg, differing := true, 0
				for _, l := range [][2][]c10CV{{ta, tb}, {tb, ta}} {
					for _, x := range l[0] {
						if !in(l[1], x) {
							differing++
							if f := view[x.addr].flag; f == 'y' || f == 'o' || x.votes != 0 {
								onlyUnreg = false
							}
						}
					}
				}
				ctx := fmt.Sprintf("snapshot parent %d: the mining node (re-opened: %v) publishes %s, the validating node that never re-opened %s; a snapshot block built from the first list is rejected by the second node", parent.Height(), e.reopened, c10ShowCands(ta), c10ShowCands(tb))
				if onlyUnreg && differing > 0 { // (same entries in another order is not this cause)
					e.fail("c10/top-contains-unregistered", ctx)
				} else {
					e.fail("c10/restart-differs", ctx)
				}
				e.tainted = true
				c.Count("engine:snapshot-skipped-nodes-disagree-on-parent-list")
				return
			}
		}
		blk, invalid, err := e.a.Build(parent, t, txs, nil)
		if err != nil {
			c.Count("engine:build-error")
			return
		}
		c.Count(fmt.Sprintf("engine-blk:txs-packed=%d", len(blk.Txs)))
		if len(invalid) > 0 {
			c.Count("engine-tx:rejected")
		}
		direct := ""
		if h == 8 {
			direct = c10DirectLoader(e.b, parent.Hash(), func(x common.Address) int { return e.num[x] })
		}
		ra, ma := SafeMsg(func() string { return fmt.Sprint(e.a.Insert(CloneBlock(blk))) })
		rb, _ := SafeMsg(func() string { return fmt.Sprint(e.b.Insert(CloneBlock(blk))) })
		id, pid := int(h)+1, int(h)
		if line, ok := e.blockOp(blk, id, pid, view); ok {
			e.op(line, e.show(e.a, blk.Hash()))
			if lc := e.a.DB.GetLastConfirm(); lc != nil && lc.Block != nil && lc.Block.Hash() == blk.Hash() {
				e.op(fmt.Sprintf("stable %d", id), e.persisted(e.a))
			}
			parentView := view
			view = e.viewOf(e.a, blk.Hash())
			// by-construction shadow of the candidate flags: a packed register tx makes the sender a candidate, a
			// packed un-register tx un-registers it with 0 votes and a VotesLog iff it had votes
			packed := map[common.Hash]bool{}
			for _, tx := range blk.Txs {
				packed[tx.Hash()] = true
			}
			for _, in := range intents {
				if !packed[in.hash] {
					continue
				}
				if in.flag == 'y' && shadow[in.addr] == 0 {
					shadow[in.addr] = 'y'
				} else if in.flag == 'u' && shadow[in.addr] == 'y' {
					shadow[in.addr] = 'u'
					k := e.num[in.addr]
					hadVotes := parentView[k].votes != 0
					logged := false
					for _, lg := range blk.ChangeLogs {
						if lg.LogType == account.VotesLog && lg.Address == in.addr {
							logged = true
						}
					}
					if view[k].votes != 0 || logged != hadVotes {
						e.fail("c10/save-input-inconsistent/unregister-without-reset", fmt.Sprintf("block %d: %s un-registered by a packed tx: votes now %d, had %d, VotesLog present: %v", blk.Height(), e.name[in.addr], view[k].votes, parentView[k].votes, logged))
					}
				}
			}
			for _, x := range candsA {
				want := shadow[x.addr]
				if want == 0 {
					want = 'n'
				}
				if got := view[e.num[x.addr]].flag; got != want && got != 'o' {
					e.fail("c10/engine-shadow-mismatch", fmt.Sprintf("block %d: %s has candidate flag %c in the block's view, the packed register / un-register txs say %c", blk.Height(), x.name, got, want))
				}
			}
			// what the tx layer really left in the accounts
			for _, x := range candsA {
				if view[e.num[x.addr]].flag == 'o' {
					c10OddFlagReachable = true
				}
			}
			e.oracle(blk, view, max)
		}
		if h == 8 {
			// the snapshot block: what the REAL engine stored against the model op `seal`
			var post []string
			for _, x := range topAddrs { // (a rejected block leaves `view` at the parent's state; the op then fails anyway)
				post = append(post, fmt.Sprintf("%d:%d", e.num[x], view[e.num[x]].votes))
			}
			numOf := func(x common.Address) int { return e.num[x] }
			dstr, stored, probs := c10SnapshotObserve(e.b, blk, direct, rb, numOf)
			loadable := c10TermPanic(func() { deputynode.NewTermRecord(blk.Height(), CloneBlock(blk).DeputyNodes) })
			if stored != nil {
				loadable = c10TermPanic(func() { deputynode.NewTermRecord(blk.Height(), stored) })
			}
			e.op(fmt.Sprintf("seal %d %d %d %s / %s", deputyCount, params.TermDuration, blk.Height(), strings.Join(topToks, " "), strings.Join(post, " ")), dstr+" => "+loadable)
			for _, pr := range probs {
				parts := strings.SplitN(pr, "|", 2)
				e.fail(parts[0], fmt.Sprintf("snapshot block 8 with %d txs on a parent whose published list is [%s]: %s", len(blk.Txs), strings.Join(topToks, " "), parts[1]))
			}
			c.Count(fmt.Sprintf("engine:snapshot-parent-list-len=%d(deputyCount %d)", len(topToks), deputyCount))
			if loadable != "ok" || ra == "panic" || rb == "panic" {
				e.fail("c10/snapshot-deputies-not-loadable", fmt.Sprintf("snapshot block 8 with %d txs: deputies=%s; NewTermRecord: %s; InsertBlock: %s %s", len(blk.Txs), dstr, loadable, ra, ma))
				c.Count("engine:snapshot-not-loadable")
			} else {
				c.Count("engine:snapshot-loadable")
			}
			return
		}
		if ra != "<nil>" || rb != "<nil>" {
			c.Count("engine:insert-failed")
			return
		}
		if c.Rnd.Intn(4) == 0 { // restart of node A
			out, _ := SafeMsg(func() string {
				e.a.Reopen()
				return e.show(e.a, blk.Hash())
			})
			e.op("reopen", out)
			e.reopened = true
			c.Count("engine-op:reopen")
			if !e.tainted {
				got := e.cands(e.a.DB.GetCandidatesTop(blk.Hash()))
				ref := e.cands(e.b.DB.GetCandidatesTop(blk.Hash()))
				if !c10Equal(got, ref) {
					sfx := ""
					for _, acc := range view {
						if acc.flag == 'o' {
							sfx = "/odd-candidate-flag"
						}
					}
					e.fail("c10/restart-differs"+sfx, fmt.Sprintf("block %d: top after re-open %s, on the node that did not re-open %s", blk.Height(), c10ShowCands(got), c10ShowCands(ref)))
					e.tainted = true
				}
			}
		}
		parent = blk
		t += 10
	}
}

// c10OddFlagScenario (review item H1), deterministic: U1 registers normally (5,000,000 LEMO => 50,000 votes),
// U2 registers with a user-supplied isCandidate = "yes" (6,000,000 LEMO => 60,000 votes).  buildProfile keeps the
// string; the running node lists U2 (collectUnregisters only removes "false"), blockCommit persists it (profile
// not empty), start-up keeps only "true": after a restart the same block has another top list.
func c10OddFlagScenario(c *Ctx) {
	site := "engine-odd-flag-scenario"
	defer c10Guard(c, "engine odd-flag scenario", &site, func() []string { return nil })
	now := uint32(time.Now().Unix())
	w := NewWorld(1, now-500000, 10000)
	a := w.NewNode(2)
	defer func() { Safe(func() string { a.Close(); return "" }) }()
	u1k, u2k := detKey("c10-odd-u1"), detKey("c10-odd-u2")
	u1, u2 := keyAddr(u1k), keyAddr(u2k)
	d0 := keyAddr(w.DeputyKeys[0])
	label := func(x common.Address) string {
		switch x {
		case u1:
			return "U1"
		case u2:
			return "U2(isCandidate=yes)"
		case d0:
			return "D0"
		}
		return x.String()
	}
	show := func(h common.Hash) string {
		var ss []string
		for _, cd := range a.DB.GetCandidatesTop(h) {
			ss = append(ss, fmt.Sprintf("%s:%s", label(cd.GetAddress()), cd.GetTotal()))
		}
		return strings.Join(ss, " ")
	}
	parent := a.BC.CurrentBlock()
	t := parent.Time() + 1
	for h := 1; h <= 2; h++ {
		var txs types.Transactions
		opt := func(m string) TxOpt { return TxOpt{Exp: uint64(t) + 100, Msg: m} }
		if h == 1 {
			txs = append(txs, txTransfer(w.FounderKey, u1, c10Lemo(7000000), opt("f1")), txTransfer(w.FounderKey, u2, c10Lemo(7000000), opt("f2")))
		} else {
			txs = append(txs, txRegister(u1k, c10Lemo(5000000), detKey("c10-odd-n1"), false, nil, opt("r1")))
			txs = append(txs, txRegister(u2k, c10Lemo(6000000), detKey("c10-odd-n2"), false, map[string]string{types.CandidateKeyIsCandidate: "yes"}, opt("r2")))
		}
		blk, invalid, err := a.Build(parent, t, txs, nil)
		if err != nil {
			c.Count("engine:odd-flag-scenario-build-error")
			return
		}
		if h == 2 && (len(invalid) > 0 || len(blk.Txs) != 2) {
			c.Count("engine:odd-flag-register-rejected-by-the-tx-layer")
			return
		}
		if r := Safe(func() string { return fmt.Sprint(a.Insert(CloneBlock(blk))) }); r != "<nil>" {
			c.Count("engine:odd-flag-scenario-insert-failed")
			return
		}
		parent = blk
		t += 10
	}
	am := account.NewManager(parent.Hash(), a.DB)
	flag := am.GetAccount(u2).GetCandidateState(types.CandidateKeyIsCandidate)
	if flag == types.IsCandidateNode || flag == types.NotCandidateNode {
		c.Count("engine:odd-flag-normalised-by-the-tx-layer")
		return
	}
	c10OddFlagReachable = true
	c.Count("engine:odd-flag-reaches-the-account")
	before := show(parent.Hash())
	after, msg := SafeMsg(func() string { a.Reopen(); return show(parent.Hash()) })
	if after != before {
		c.Count("oracle:c10/restart-differs/odd-candidate-flag")
		c10SigCount["c10/restart-differs/odd-candidate-flag"]++
		c.Fail("c10/restart-differs/odd-candidate-flag", fmt.Sprintf("engine: U2's register tx carries isCandidate=%q and the account keeps it; top of block 2 on the running node [%s], after a clean restart [%s] %s", flag, before, after, msg), map[string]interface{}{"scenario": "odd-flag"})
	}
}

package main

// c12: issued assets are conserved; only holders / issuers move or mint them.
//
// Real engine (node toolkit): every block is built through the MINER path (n.Build: ApplyTxs with
// discards, Finalize, Seal), inserted through the VALIDATOR path (n.Insert) and confirmed by a second
// deputy, so that it is stable before the next block is built (VerifyAssetTx reads the STABLE state).
// The op lines describe each candidate asset transaction; the answer of a `tx` line is the outcome of
// that tx in the mined block (`ok` = included, `err <name>` = discarded by the miner, the name being
// found by re-running the real functions on the real pre-state of that tx); the answer of an `end`
// line is the recorded supply / freeze flag of every asset and every holder's equity as read back
// through account.NewManager(block.Hash(), db).  The Lean model (LemoModel/Assets.lean) prints the same.
//
// Direct oracles (independent of the model), evaluated on the dumps of consecutive blocks:
//   c12/supply-not-sum/<class>        recorded supply of a divisible asset != sum of the equity entries carrying its code
//   c12/third-party-debited/<class>   an equity entry decreased although its owner sent no included transfer of that id
//   c12/negative-equity               a negative equity or supply is readable
//   c12/frozen-moved/<class>          supply / equity of an asset changed in a block in which it was frozen throughout
//   c12/minted-by-non-issuer/<class>  supply or holdings of an asset grew by more than its issuer issued / replenished in the block
//   c12/honest-block-rejected         the validator path rejects the block the miner path produced

import (
	"crypto/ecdsa"
	"encoding/json"
	"fmt"
	"math/big"
	"sort"
	"strings"
	"time"

	"github.com/LemoFoundationLtd/lemochain-core/chain/account"
	"github.com/LemoFoundationLtd/lemochain-core/chain/params"
	"github.com/LemoFoundationLtd/lemochain-core/chain/transaction"
	"github.com/LemoFoundationLtd/lemochain-core/chain/types"
	"github.com/LemoFoundationLtd/lemochain-core/chain/vm"
	"github.com/LemoFoundationLtd/lemochain-core/common"
)

func init() { subs["c12"] = c12 }

type c12Tx struct {
	tx    *types.Transaction
	line  string // the model's view of the tx
	kind  string // create | issue | replenish | modify | transfer
	class string
	from  int // address label
	to    int
	h     int      // hash label: code (issue / replenish / modify), id (transfer), own hash (create)
	h2    int      // replenish: id ; issue: own tx hash
	amt   *big.Int // amount as parsed by the implementation (nil when unparsable)
}

type c12Asset struct {
	code               int
	issuer             int
	cat                uint32
	div, repl, created bool
}

type c12Entry struct {
	code int
	amt  *big.Int
	idst bool
}

type c12View struct {
	supply map[int]*big.Int
	frozen map[int]bool
	div    map[int]bool
	issuer map[int]int
	eq     map[[2]int]c12Entry
}

type c12s struct {
	c         *Ctx
	w         *World
	n         *Node
	keys      []*ecdsa.PrivateKey // by address label (nil for label 0 and contracts)
	addrs     []common.Address
	addrLabel map[common.Address]int
	hashes    []common.Hash
	hashLabel map[common.Hash]int
	codeKind  map[int]int // address label -> 0 plain, 1 contract that stops, 2 contract that reverts
	parent    *types.Block
	t         uint32
	uniq      int
	assets    []*c12Asset // harness ground truth (what was asked for; `created` once included)
	native    map[int]int // id label -> code label it was born under (issue) ; cat-1: code -> code
	ids       []int       // ids produced by included issue txs
	prev      *c12View
	taint     map[int]bool // code labels involved in a replenish under an id that is not theirs
	taintID   map[int]bool
	nUsers    int
	stop      bool
}

func (s *c12s) hl(h common.Hash) int {
	if v, ok := s.hashLabel[h]; ok {
		return v
	}
	v := len(s.hashes)
	s.hashes = append(s.hashes, h)
	s.hashLabel[h] = v
	return v
}

func (s *c12s) exp() uint64 { return uint64(s.t) + 600 }

func (s *c12s) msg() string { s.uniq++; return fmt.Sprintf("m%d", s.uniq) }

// ---- error names ------------------------------------------------------------------------------

func c12ErrName(err error) string {
	switch err {
	case nil:
		return "ok"
	case types.ErrAssetNotExist:
		return "assetNotExist"
	case types.ErrAssetIdNotExist:
		return "idNotExist"
	case types.ErrEquityNotExist:
		return "equityNotExist"
	case transaction.ErrIssueAssetAmount:
		return "issueAmount"
	case transaction.ErrIssueAssetMetaData:
		return "metaData"
	case transaction.ErrReplenishAssetAmount:
		return "replenishAmount"
	case transaction.ErrAssetIssuer:
		return "notIssuer"
	case transaction.ErrFrozenAsset:
		return "frozen"
	case transaction.ErrIsReplenishable:
		return "notReplenishable"
	case transaction.ErrIsDivisible:
		return "notDivisible"
	case transaction.ErrNotEqualAssetCode:
		return "codeMismatch"
	case transaction.ErrModifyAssetInfo:
		return "noInfo"
	case transaction.ErrMarshalAssetLength:
		return "tooLong"
	case transaction.ErrAssetCategory:
		return "category"
	case types.ErrAssetKind:
		return "kind"
	case types.ErrTokenAssetDivisible:
		return "tokenDivisible"
	case types.ErrNonFungibleAssetDivisible:
		return "nftDivisible"
	case types.ErrAssetDecimal:
		return "decimal"
	case vm.ErrAssetEquity:
		return "assetEquity"
	case vm.ErrTransferFrozenAsset:
		return "frozenTransfer"
	case vm.ErrInsufficientBalance:
		return "insufficient"
	}
	msg := err.Error()
	if strings.Contains(msg, "cannot encode negative") {
		return "rlpNegative"
	}
	if strings.Contains(msg, "negative") {
		return "negativeAmount"
	}
	switch err.(type) {
	case *json.UnmarshalTypeError, *json.SyntaxError:
		return "parse"
	}
	if strings.Contains(msg, "missing required field") || strings.Contains(msg, "json") || strings.Contains(msg, "hex") || strings.Contains(msg, "invalid") || strings.Contains(msg, "unexpected end") {
		return "parse"
	}
	return "other:" + strings.ReplaceAll(msg, " ", "_")
}

type c12FakeDB struct{ issuer common.Address }

func (f c12FakeDB) GetAssetCode(code common.Hash) (common.Address, error) { return f.issuer, nil }

// c12Variant asks the real EVM.TransferAssetTx (on a scratch account manager) whether a negative
// amount is still accepted: "asis" (code before the repair) or "fixed".
func c12Variant(n *Node) string {
	am := account.NewManager(n.BC.CurrentBlock().Hash(), n.DB)
	a, b, issuer := common.HexToAddress("0xa1a1"), common.HexToAddress("0xb1b1"), common.HexToAddress("0xc1c1")
	code := common.HexToHash("0x7777")
	if err := am.GetAccount(issuer).SetAssetCode(code, &types.Asset{Category: 1, IsDivisible: true, AssetCode: code, TotalSupply: big.NewInt(10), Issuer: issuer, Profile: types.Profile{}}); err != nil {
		panic(err)
	}
	am.GetAccount(a).SetEquityState(code, &types.AssetEquity{AssetCode: code, AssetId: code, Equity: big.NewInt(5)})
	am.GetAccount(b).SetEquityState(code, &types.AssetEquity{AssetCode: code, AssetId: code, Equity: big.NewInt(5)})
	evm := vm.NewEVM(vm.Context{}, am, vm.Config{})
	data := []byte(fmt.Sprintf(`{"assetId":"%s","transferAmount":"-1"}`, code.Hex()))
	_, _, err, _ := evm.TransferAssetTx(am.GetAccount(a), b, 100000, data, c12FakeDB{issuer})
	if err == nil {
		return "asis"
	}
	return "fixed"
}

// ---- reading the state back ------------------------------------------------------------------

func (s *c12s) view(h common.Hash) *c12View {
	am := account.NewManager(h, s.n.DB)
	v := &c12View{supply: map[int]*big.Int{}, frozen: map[int]bool{}, div: map[int]bool{}, issuer: map[int]int{}, eq: map[[2]int]c12Entry{}}
	for _, as := range s.assets {
		if !as.created {
			continue
		}
		acc := am.GetAccount(s.addrs[as.issuer])
		sup, err := acc.GetAssetCodeTotalSupply(s.hashes[as.code])
		if err != nil {
			continue
		}
		fz, _ := acc.GetAssetCodeState(s.hashes[as.code], types.AssetFreeze)
		a, _ := acc.GetAssetCode(s.hashes[as.code])
		v.supply[as.code] = new(big.Int).Set(sup)
		v.frozen[as.code] = fz == "true"
		v.div[as.code] = a.IsDivisible
		v.issuer[as.code] = s.addrLabel[a.Issuer]
	}
	for al, addr := range s.addrs {
		acc := am.GetAccount(addr)
		for hlab, hh := range s.hashes {
			if hlab == 0 {
				continue
			}
			e, err := acc.GetEquityState(hh)
			if err != nil || e == nil {
				continue
			}
			_, ierr := acc.GetAssetIdState(hh)
			amt := new(big.Int)
			if e.Equity != nil {
				amt.Set(e.Equity)
			}
			v.eq[[2]int{al, hlab}] = c12Entry{code: s.hl(e.AssetCode), amt: amt, idst: ierr == nil}
		}
	}
	return v
}

func (v *c12View) dump() string {
	var sb strings.Builder
	var codes []int
	for c := range v.supply {
		codes = append(codes, c)
	}
	sort.Ints(codes)
	for _, c := range codes {
		fz := 0
		if v.frozen[c] {
			fz = 1
		}
		sb.WriteString(fmt.Sprintf("c%d=%s/%d ", c, v.supply[c].String(), fz))
	}
	sb.WriteString("|")
	var ks [][2]int
	for k := range v.eq {
		ks = append(ks, k)
	}
	sort.Slice(ks, func(i, j int) bool {
		if ks[i][0] != ks[j][0] {
			return ks[i][0] < ks[j][0]
		}
		return ks[i][1] < ks[j][1]
	})
	for _, k := range ks {
		e := v.eq[k]
		st := 0
		if e.idst {
			st = 1
		}
		sb.WriteString(fmt.Sprintf(" %d:%d=%d,%s,%d", k[0], k[1], e.code, e.amt.String(), st))
	}
	return sb.String()
}

func (v *c12View) sumOf(code int) *big.Int {
	t := new(big.Int)
	for _, e := range v.eq {
		if e.code == code {
			t.Add(t, e.amt)
		}
	}
	return t
}

// ---- transaction constructors (op line + real tx) --------------------------------------------

// amount tokens: "s:<text>" a JSON string, "n:<text>" a bare JSON number, "missing" no such field
func c12AmtJSON(field, tok string) string {
	switch {
	case strings.HasPrefix(tok, "s:"):
		return fmt.Sprintf(`,"%s":"%s"`, field, tok[2:])
	case strings.HasPrefix(tok, "n:"):
		return fmt.Sprintf(`,"%s":%s`, field, tok[2:])
	}
	return ""
}

func (s *c12s) mkRaw(from int, to *common.Address, typ uint16, data string) *types.Transaction {
	return mkTx(s.keys[from], to, nil, []byte(data), typ, TxOpt{Exp: s.exp(), Msg: s.msg()})
}

func b2i(b bool) int {
	if b {
		return 1
	}
	return 0
}

// create: category / divisible / replenishable / decimal as given (may be invalid); fz = initial profile freeze value ("-" = key absent)
func (s *c12s) txCreate(from int, cat uint32, div, repl bool, decimal uint32, fz string, class string) *c12Tx {
	prof := types.Profile{types.AssetName: "A", types.AssetSymbol: "A"}
	if fz != "-" {
		prof[types.AssetFreeze] = fz
	}
	pj, _ := json.Marshal(prof)
	data := fmt.Sprintf(`{"category":%d,"isDivisible":%v,"decimal":%d,"isReplenishable":%v,"totalSupply":"12345","issuer":"%s","profile":%s}`, cat, div, decimal, repl, s.addrs[(from%s.nUsers)+1].String(), string(pj))
	tx := s.mkRaw(from, nil, params.CreateAssetTx, data)
	h := s.hl(tx.Hash())
	s.assets = append(s.assets, &c12Asset{code: h, issuer: from, cat: cat, div: div, repl: repl})
	return &c12Tx{tx: tx, kind: "create", class: class, from: from, h: h,
		line: fmt.Sprintf("create %d %d %d %d %d %d %s", from, h, cat, b2i(div), b2i(repl), decimal, fz)}
}

func (s *c12s) txIssue(from, to int, code common.Hash, amtTok string, metaLen int, class string) *c12Tx {
	data := fmt.Sprintf(`{"assetCode":"%s","metaData":"%s"%s}`, code.Hex(), strings.Repeat("m", metaLen), c12AmtJSON("supplyAmount", amtTok))
	tx := s.mkRaw(from, &s.addrs[to], params.IssueAssetTx, data)
	x := &c12Tx{tx: tx, kind: "issue", class: class, from: from, to: to, h: s.hl(code), h2: s.hl(tx.Hash())}
	if ia, err := types.GetIssueAsset(tx.Data()); err == nil {
		x.amt = ia.Amount
	}
	x.line = fmt.Sprintf("issue %d %d %d %d %d %s", from, to, x.h2, x.h, metaLen, amtTok)
	return x
}

func (s *c12s) txReplenish(from, to int, code, id common.Hash, amtTok string, class string) *c12Tx {
	data := fmt.Sprintf(`{"assetCode":"%s","assetId":"%s"%s}`, code.Hex(), id.Hex(), c12AmtJSON("replenishAmount", amtTok))
	tx := s.mkRaw(from, &s.addrs[to], params.ReplenishAssetTx, data)
	x := &c12Tx{tx: tx, kind: "replenish", class: class, from: from, to: to, h: s.hl(code), h2: s.hl(id)}
	if ra, err := types.GetReplenishAsset(tx.Data()); err == nil {
		x.amt = ra.Amount
	}
	x.line = fmt.Sprintf("replenish %d %d %d %d %s", from, to, x.h, x.h2, amtTok)
	return x
}

// modify: fz = new value of the freeze key, "-" = the update only touches another key, "none" = empty updateProfile
func (s *c12s) txModify(from int, code common.Hash, fz string, class string) *c12Tx {
	prof := map[string]string{}
	switch fz {
	case "none":
	case "-":
		prof["description"] = "d" + fmt.Sprint(s.uniq)
	default:
		prof[types.AssetFreeze] = fz
	}
	tx := txModifyAsset(s.keys[from], code, prof, TxOpt{Exp: s.exp(), Msg: s.msg()})
	return &c12Tx{tx: tx, kind: "modify", class: class, from: from, h: s.hl(code),
		line: fmt.Sprintf("modify %d %d %s", from, s.hl(code), fz)}
}

func (s *c12s) txTransferA(from, to int, id common.Hash, amtTok string, class string) *c12Tx {
	data := fmt.Sprintf(`{"assetId":"%s"%s}`, id.Hex(), c12AmtJSON("transferAmount", amtTok))
	tx := s.mkRaw(from, &s.addrs[to], params.TransferAssetTx, data)
	x := &c12Tx{tx: tx, kind: "transfer", class: class, from: from, to: to, h: s.hl(id)}
	if ta, err := types.GetTransferAsset(tx.Data()); err == nil {
		x.amt = ta.Amount
	}
	x.line = fmt.Sprintf("transfer %d %d %d %d %s", from, to, x.h, s.codeKind[to], amtTok)
	return x
}

// ---- one block -------------------------------------------------------------------------------

func cloneTxs(txs types.Transactions) types.Transactions {
	out := make(types.Transactions, len(txs))
	for i, tx := range txs {
		out[i] = tx.Clone()
	}
	return out
}

// diagnose re-runs the real functions on the real pre-state of a discarded tx to name the error.
func (s *c12s) diagnose(header *types.Header, prefix types.Transactions, tx *types.Transaction) string {
	return Safe(func() string {
		am := account.NewManager(header.ParentHash, s.n.DB)
		proc := transaction.NewTxProcessor(keyAddr(s.w.FounderKey), nodeChainID, parentLoader{s.n}, am, s.n.DB, s.n.DM)
		sel, _, _ := proc.ApplyTxs(header, cloneTxs(prefix), 60000)
		if len(sel) != len(prefix) {
			return "diagnose-prefix-mismatch"
		}
		if err := proc.VerifyAssetTx(tx); err != nil {
			return c12ErrName(err)
		}
		env := transaction.NewRunAssetEnv(am)
		var to common.Address
		if tx.To() != nil {
			to = *tx.To()
		}
		var err error
		switch tx.Type() {
		case params.CreateAssetTx:
			err = env.CreateAssetTx(tx.From(), tx.Data(), tx.Hash())
		case params.IssueAssetTx:
			err = env.IssueAssetTx(tx.From(), to, tx.Hash(), tx.Data())
		case params.ReplenishAssetTx:
			err = env.ReplenishAssetTx(tx.From(), to, tx.Data())
		case params.ModifyAssetTx:
			err = env.ModifyAssetProfileTx(tx.From(), tx.Data())
		case params.TransferAssetTx:
			ctx := transaction.NewEVMContext(tx, header, 0, common.Hash{}, parentLoader{s.n})
			evm := vm.NewEVM(ctx, am, vm.Config{})
			_, _, err, _ = evm.TransferAssetTx(am.GetAccount(tx.From()), to, tx.GasLimit(), tx.Data(), s.n.DB)
		}
		if err == nil {
			return "discarded-without-asset-error"
		}
		return c12ErrName(err)
	})
}

// waitIndex: EVM.TransferAssetTx finds an asset's issuer through the store's code -> issuer index, which a
// background writer fills some time AFTER the block with the create tx became stable (BeansDB.After / afterBlock).
// Until then every transfer of the asset fails with "asset does not exist".  The scenario waits for the writer,
// so that the outcome of the next block does not depend on its progress (and counts how often it had to).
func (s *c12s) waitIndex() {
	lag := false
	for _, as := range s.assets {
		if !as.created {
			continue
		}
		for i := 0; ; i++ {
			a, err := s.n.DB.GetAssetCode(s.hashes[as.code])
			if err == nil && a != (common.Address{}) {
				break
			}
			lag = true
			if i > 20000 {
				panic("c12: asset code index never written")
			}
			time.Sleep(time.Millisecond)
		}
	}
	if lag {
		s.c.Count("store:asset-code-index-lagged-behind-stable-block")
	}
}

func (s *c12s) confirmer(miner common.Address) *ecdsa.PrivateKey {
	for _, dk := range s.w.DeputyKeys {
		if keyAddr(dk) != miner {
			return dk
		}
	}
	return nil
}

// runBlock mines, validates, confirms one block of candidate txs and writes its op lines.
// Returns the outcome per candidate.
func (s *c12s) runBlock(cands []*c12Tx) []string {
	c := s.c
	outs := make([]string, len(cands))
	var txs types.Transactions
	idx := map[common.Hash]int{}
	for i, x := range cands {
		txs = append(txs, x.tx)
		idx[x.tx.Hash()] = i
		if e := x.tx.VerifyTxBody(nodeChainID, uint64(s.t), false); e != nil {
			c.Count("pool-verify:rejected:" + x.kind)
		} else {
			c.Count("pool-verify:ok")
		}
	}
	k, err := s.n.InTurn(s.parent, s.t)
	if err != nil {
		panic(err)
	}
	miner := keyAddr(k)
	header := &types.Header{ParentHash: s.parent.Hash(), MinerAddress: miner, Height: s.parent.Height() + 1, GasLimit: s.parent.GasLimit(), Time: s.t}
	var dump string
	res, pmsg := SafeMsg(func() string {
		b, invalid, err := s.n.Build(s.parent, s.t, txs, nil)
		if err != nil {
			return "builderr " + err.Error()
		}
		if e := s.n.Insert(CloneBlock(b)); e != nil {
			c.Fail("c12/honest-block-rejected", fmt.Sprintf("block %d built by the miner path is rejected by the validator path: %v", b.Height(), e), nil)
			return "rejected"
		}
		included := map[int]bool{}
		for _, tx := range b.Txs {
			if i, ok := idx[tx.Hash()]; ok {
				included[i] = true
				outs[i] = "ok"
			}
		}
		_ = invalid
		var prefix types.Transactions
		for i, x := range cands {
			if included[i] {
				prefix = append(prefix, x.tx)
				continue
			}
			outs[i] = "err " + s.diagnose(header, prefix, x.tx)
		}
		s.n.BC.InsertConfirms(b.Height(), b.Hash(), []types.SignData{Confirm(b, s.confirmer(miner))})
		if st := s.n.BC.StableBlock(); st.Hash() != b.Hash() {
			c.Fail("c12/harness/not-stable", fmt.Sprintf("block %d did not become stable", b.Height()), nil)
		}
		// bookkeeping of the harness' ground truth
		for i, x := range cands {
			if !included[i] {
				continue
			}
			switch x.kind {
			case "create":
				if as := s.asset(x.h); as != nil {
					as.created = true
					if as.cat == types.TokenAsset {
						s.native[as.code] = as.code
						if s.taintID[as.code] {
							s.taint[as.code] = true
						}
					}
				}
			case "issue":
				if as := s.asset(x.h); as != nil {
					id := s.issueID(x)
					if _, ok := s.native[id]; !ok {
						s.native[id] = as.code
					}
					if s.taintID[id] {
						s.taint[as.code] = true
					}
					s.ids = append(s.ids, id)
				}
			case "replenish":
				if nc, ok := s.native[x.h2]; !ok || nc != x.h {
					s.taint[x.h] = true
					s.taintID[x.h2] = true
					if ok {
						s.taint[nc] = true
					}
					c.Count("oracle:replenish-under-foreign-or-free-id")
				}
			}
		}
		s.waitIndex()
		v := s.view(b.Hash())
		s.oracles(b, cands, included, v)
		s.prev = v
		s.parent = b
		dump = v.dump()
		return "ok"
	})
	c.Op(fmt.Sprintf("block %d", header.Height), "ok")
	for i, x := range cands {
		o := outs[i]
		if o == "" {
			o = "err not-run"
		}
		c.Op("tx "+x.line, o)
		c.Count("tx:" + x.kind + ":" + firstWord(strings.TrimPrefix(o, "err ")))
		c.Count("class:" + x.class + ":" + firstWord(strings.TrimPrefix(o, "err ")))
	}
	if res != "ok" {
		c.Fail("c12/block-build-failed", res+" "+pmsg, nil)
		c.Op("end 0", res)
		s.stop = true
		return outs
	}
	c.Op(fmt.Sprintf("end %d", len(s.hashes)), dump)
	s.t += uint32(1 + c.Rnd.Intn(25))
	return outs
}

// ---- direct oracles --------------------------------------------------------------------------

func (s *c12s) asset(code int) *c12Asset {
	for _, as := range s.assets {
		if as.code == code {
			return as
		}
	}
	return nil
}

// issueID: the asset id an issue tx writes to (the code for a token asset, the tx hash otherwise)
func (s *c12s) issueID(x *c12Tx) int {
	if as := s.asset(x.h); as != nil && as.cat == types.TokenAsset {
		return x.h
	}
	return x.h2
}

func (s *c12s) oracles(b *types.Block, cands []*c12Tx, included map[int]bool, v *c12View) {
	c := s.c
	p := s.prev
	if p == nil {
		return
	}
	negTransferTo := map[[2]int]bool{} // (receiver, id) of included transfers with a negative amount
	negBurn := map[int]bool{}          // id of included negative-amount transfers to the burn address
	sentMax := map[[2]int]*big.Int{}   // (sender, id) -> upper bound of what the included transfers of the sender may take
	sentAll := map[[2]int]bool{}       // (sender, id) sent a non-divisible asset: the whole entry may go
	issuedTo := map[[2]int]bool{}      // (receiver, id) written by an included issue
	modified := map[int]bool{}
	issuedAmt := map[int]*big.Int{} // code -> sum of amounts the issuer issued / replenished in this block
	burnBy := map[int]bool{}
	for i, x := range cands {
		if !included[i] {
			continue
		}
		switch x.kind {
		case "transfer":
			if s.codeKind[x.to] == 2 {
				continue // execution reverted
			}
			k := [2]int{x.from, x.h}
			if sentMax[k] == nil {
				sentMax[k] = new(big.Int)
			}
			if pe, ok := p.eq[k]; ok && !p.div[pe.code] {
				sentAll[k] = true
			}
			if x.amt != nil && x.amt.Sign() > 0 && x.to != x.from {
				sentMax[k].Add(sentMax[k], x.amt)
			}
			if x.amt != nil && x.amt.Sign() < 0 {
				negTransferTo[[2]int{x.to, x.h}] = true
				if x.to == 0 {
					negBurn[x.h] = true
				}
			}
			if x.to == 0 {
				if e, ok := p.eq[k]; ok {
					burnBy[e.code] = true
				}
				if e, ok := v.eq[k]; ok {
					burnBy[e.code] = true
				}
			}
		case "issue", "replenish":
			if x.kind == "issue" {
				issuedTo[[2]int{x.to, s.issueID(x)}] = true
			}
			if issuedAmt[x.h] == nil {
				issuedAmt[x.h] = new(big.Int)
			}
			if x.amt != nil {
				issuedAmt[x.h].Add(issuedAmt[x.h], x.amt)
			}
		case "modify":
			modified[x.h] = true
		}
	}
	// negative values
	for code, sup := range v.supply {
		if sup.Sign() < 0 {
			c.Fail("c12/negative-equity", fmt.Sprintf("block %d: supply of asset c%d is %s", b.Height(), code, sup.String()), nil)
		}
	}
	for k, e := range v.eq {
		if e.amt.Sign() < 0 {
			c.Fail("c12/negative-equity", fmt.Sprintf("block %d: equity %d:%d is %s", b.Height(), k[0], k[1], e.amt.String()), nil)
		}
	}
	c.Count("oracle:no-negative:checked")
	// supply = sum (divisible assets); report the block that breaks it (or changes the gap)
	for code, sup := range v.supply {
		if !v.div[code] {
			continue
		}
		sum := v.sumOf(code)
		if sum.Cmp(sup) != 0 {
			if ps, ok := p.supply[code]; ok && new(big.Int).Sub(sum, sup).Cmp(new(big.Int).Sub(p.sumOf(code), ps)) == 0 {
				c.Count("oracle:supply-not-sum:inherited")
				continue
			}
			class := "other"
			if s.taint[code] {
				class = "foreign-asset-id"
			}
			c.Fail("c12/supply-not-sum/"+class, fmt.Sprintf("block %d: asset c%d records supply %s but its holders own %s", b.Height(), code, sup.String(), sum.String()), nil)
		} else {
			c.Count("oracle:supply-eq-sum:ok")
		}
	}
	// nobody loses more than what the transfers he sent in this block take
	for k, pe := range p.eq {
		ne, ok := v.eq[k]
		if ok && ne.code == pe.code && ne.amt.Cmp(pe.amt) >= 0 {
			continue
		}
		if ok && ne.code == pe.code && sentAll[k] {
			continue
		}
		if ok && ne.code == pe.code && sentMax[k] != nil && new(big.Int).Sub(pe.amt, ne.amt).Cmp(sentMax[k]) <= 0 {
			c.Count("oracle:debit-explained-by-own-transfers")
			continue
		}
		class := "other"
		switch {
		case negTransferTo[k]:
			class = "negative-amount"
		case issuedTo[k] && (s.taint[pe.code] || s.taintID[k[1]]):
			class = "foreign-asset-id"
		case issuedTo[k]:
			class = "issue-overwrites-entry"
		}
		after := "gone"
		if ok {
			after = fmt.Sprintf("c%d,%s", ne.code, ne.amt.String())
		}
		sent := "0"
		if sentMax[k] != nil {
			sent = sentMax[k].String()
		}
		c.Fail("c12/third-party-debited/"+class, fmt.Sprintf("block %d: equity %d:%d was c%d,%s and is %s although the transfers account %d sent of id %d in this block take at most %s", b.Height(), k[0], k[1], pe.code, pe.amt.String(), after, k[0], k[1], sent), nil)
	}
	// frozen throughout the block => nothing moves
	for code, fz := range p.frozen {
		if !fz || !v.frozen[code] || modified[code] {
			continue
		}
		moved := v.supply[code].Cmp(p.supply[code]) != 0
		for k, e := range v.eq {
			if e.code != code {
				continue
			}
			if pe, ok := p.eq[k]; !ok || pe.code != code || pe.amt.Cmp(e.amt) != 0 {
				moved = true
			}
		}
		for k, pe := range p.eq {
			if pe.code == code {
				if e, ok := v.eq[k]; !ok || e.code != code {
					moved = true
				}
			}
		}
		if moved {
			class := "other"
			if s.taint[code] {
				class = "foreign-asset-id"
			}
			c.Fail("c12/frozen-moved/"+class, fmt.Sprintf("block %d: asset c%d is frozen before and after the block and was not modified in it, but its supply / equity changed", b.Height(), code), nil)
		} else {
			c.Count("oracle:frozen-unmoved:ok")
		}
	}
	// growth only by the issuer; shrinking only by a burn
	for code, sup := range v.supply {
		ps, ok := p.supply[code]
		if !ok {
			ps = new(big.Int)
		}
		dSup := new(big.Int).Sub(sup, ps)
		dSum := new(big.Int).Sub(v.sumOf(code), p.sumOf(code))
		allowed := issuedAmt[code]
		if allowed == nil {
			allowed = new(big.Int)
		}
		what, by := "", dSup
		switch {
		case v.div[code] && dSup.Cmp(allowed) > 0:
			what = "supply"
		case v.div[code] && dSum.Cmp(allowed) > 0:
			what, by = "holdings", dSum
		case !v.div[code] && dSup.Sign() > 0 && issuedAmt[code] == nil:
			what = "supply"
		}
		if what != "" {
			cause := "other"
			for id := range negBurn {
				for k, e := range p.eq {
					if k[1] == id && e.code == code {
						cause = "negative-amount-burn"
					}
				}
			}
			if cause == "other" && s.taint[code] {
				cause = "foreign-asset-id"
			}
			c.Fail("c12/minted-by-non-issuer/"+cause, fmt.Sprintf("block %d: asset c%d: %s grew by %s (supply %s, holdings %s) but its issuer issued / replenished only %s in this block", b.Height(), code, what, by.String(), dSup.String(), dSum.String(), allowed.String()), nil)
		} else {
			c.Count("oracle:growth-by-issuer-only:ok")
		}
		if dSup.Sign() < 0 && !burnBy[code] {
			c.Fail("c12/supply-reduced-without-burn", fmt.Sprintf("block %d: supply of c%d fell by %s without a transfer to the burn address", b.Height(), code, dSup.String()), nil)
		}
	}
}

// ---- the scenario ----------------------------------------------------------------------------

// c12: episodes of at most 150 random blocks, each in a fresh world (the dump of a block reads every known
// (holder, id) pair, so one long chain would cost quadratic time); every episode starts with the scripted prefix.
func c12(c *Ctx) {
	left := c.N
	for ep := 0; ; ep++ {
		nb := left
		if nb > 150 {
			nb = 150
		}
		c12Episode(c, nb)
		c.Count("episodes")
		left -= nb
		if left <= 0 {
			break
		}
	}
}

func c12Episode(c *Ctx, nBlocks int) {
	now := uint32(time.Now().Unix())
	w := NewWorld(3, now-600000, 10000)
	n := w.NewNode(3)
	defer n.Close()
	s := &c12s{c: c, w: w, n: n, addrLabel: map[common.Address]int{}, hashLabel: map[common.Hash]int{}, codeKind: map[int]int{}, native: map[int]int{}, taint: map[int]bool{}, taintID: map[int]bool{}}
	s.hl(common.Hash{})
	// address labels: 0 = burn address, 1..nUsers = users, then two contracts
	s.nUsers = 6
	s.addrs = append(s.addrs, common.Address{})
	s.keys = append(s.keys, nil)
	for i := 0; i < s.nUsers; i++ {
		k := detKey(fmt.Sprintf("c12-u%d", i))
		s.keys = append(s.keys, k)
		s.addrs = append(s.addrs, keyAddr(k))
	}
	for i, a := range s.addrs {
		s.addrLabel[a] = i
	}
	s.parent = n.BC.CurrentBlock()
	s.t = s.parent.Time() + 1
	variant := c12Variant(n)
	c.Count("variant:" + variant)

	// block 1: fund the users; block 2: two contracts (one stops, one reverts)
	{
		var txs types.Transactions
		for i := 1; i <= s.nUsers; i++ {
			txs = append(txs, txTransfer(w.FounderKey, s.addrs[i], lemo(100000), TxOpt{Exp: s.exp(), Msg: s.msg()}))
		}
		txs = append(txs, txCreate(s.keys[1], nil, initCodeFor([]byte{0x00}), TxOpt{Exp: s.exp(), Msg: s.msg()}))
		txs = append(txs, txCreate(s.keys[1], nil, initCodeFor([]byte{0x60, 0x00, 0x60, 0x00, 0xfd}), TxOpt{Exp: s.exp(), Msg: s.msg()}))
		for round := 0; round < 2; round++ {
			var part types.Transactions
			if round == 0 {
				part = txs[:s.nUsers]
			} else {
				part = txs[s.nUsers:]
			}
			b, invalid, err := n.Build(s.parent, s.t, part, nil)
			if err != nil || len(invalid) != 0 {
				panic(fmt.Sprintf("c12 setup block: %v invalid=%d", err, len(invalid)))
			}
			if e := n.Insert(CloneBlock(b)); e != nil {
				panic(e)
			}
			n.BC.InsertConfirms(b.Height(), b.Hash(), []types.SignData{Confirm(b, s.confirmer(b.MinerAddress()))})
			if round == 1 {
				for _, cl := range b.ChangeLogs {
					if cl.LogType == account.CodeLog {
						lab := len(s.addrs)
						s.addrs = append(s.addrs, cl.Address)
						s.keys = append(s.keys, nil)
						s.addrLabel[cl.Address] = lab
						s.codeKind[lab] = 1 + (lab - s.nUsers - 1)
					}
				}
			}
			s.parent = b
			s.t += 3
		}
		if len(s.addrs) != s.nUsers+3 {
			panic("c12 setup: contracts not created")
		}
		// which of the two is the reverting one? look at the code
		for lab := s.nUsers + 1; lab < len(s.addrs); lab++ {
			code, _ := account.NewManager(s.parent.Hash(), n.DB).GetAccount(s.addrs[lab]).GetCode()
			if len(code) == 1 {
				s.codeKind[lab] = 1
			} else {
				s.codeKind[lab] = 2
			}
		}
	}
	c.Op(fmt.Sprintf("init %d %s", len(s.addrs), variant), "ok")
	s.prev = s.view(s.parent.Hash())

	s.scripted()
	for blk := 0; blk < nBlocks && !s.stop; blk++ {
		s.randomBlock()
	}
}

package main

// c12: issued assets are conserved; only holders / issuers move or mint them.
//
// Real engine (node toolkit): every block is built through the MINER path (n.Build: ApplyTxs with
// discards, Finalize, Seal), inserted through the VALIDATOR path (n.Insert) and confirmed by a second
// deputy, so that it is stable before the next block is built (VerifyAssetTx reads the STABLE state).
// Some blocks are deliberately left unconfirmed for a while, so that the stable block lags behind the parent
// (`block <h> <stable height>`).  The model is PINNED to the repaired transfer (no variant probe): a regressed
// sign check shows up as a correspondence diff AND as oracle failures.
// The op lines describe each candidate asset transaction; the answer of a `tx` line is the outcome of
// that tx in the mined block (`ok` = included, `err <name>` = discarded by the miner, the name being
// found by re-running the real functions on the real pre-state of that tx); the answer of an `end`
// line is the recorded supply / freeze flag of every asset and every holder's equity as read back
// through account.NewManager(block.Hash(), db).  The Lean model (LemoModel/Assets.lean) prints the same.
//
// Direct oracles (independent of the model), evaluated on the dumps of consecutive blocks:
//   c12/supply-not-sum/<class>        recorded supply of a divisible asset != sum of the equity entries carrying its code
//   c12/third-party-debited/<class>   an equity entry decreased although its owner sent no included transfer of that id
//   c12/negative-equity               a negative equity or supply is readable
//   c12/frozen-moved/<class>          supply / equity of an asset changed in a block in which it was frozen throughout
//   c12/frozen-asset-moved/<category> an executed transfer / burn / issue / replenish of an asset that is frozen BY CONSTRUCTION:
//                                     the freeze state is the generator's own (create profile + every executed modify, in
//                                     execution order), never read back from the implementation; category = token | non-fungible | common
//   c12/freeze-flag-differs           the freeze flag read back differs from the generator's truth
//   c12/minted-by-non-issuer/<class>  supply or holdings of an asset grew by more than its issuer issued / replenished in the block
//   c12/honest-block-rejected         the validator path rejects the block the miner path produced

import (
	"crypto/ecdsa"
	"encoding/json"
	"fmt"
	"math/big"
	"regexp"
	"sort"
	"strings"
	"time"

	"github.com/LemoFoundationLtd/lemochain-core/chain/account"
	"github.com/LemoFoundationLtd/lemochain-core/chain/params"
	"github.com/LemoFoundationLtd/lemochain-core/chain/transaction"
	"github.com/LemoFoundationLtd/lemochain-core/chain/types"
	"github.com/LemoFoundationLtd/lemochain-core/chain/vm"
	"github.com/LemoFoundationLtd/lemochain-core/common"
)

func init() { subs["c12"] = c12 }

type c12Tx struct {
	orig  *types.Transaction // pristine copy (a box tx is rewritten in place when it is executed)
	subs  []*c12Tx           // kind "box"
	pkeys []string           // kind "modify": the profile keys it writes
	fz    string             // kind "create" / "modify": the freeze value it carries ("-" / "none" / "big": none)
	tx    *types.Transaction
	line  string // the model's view of the tx
	kind  string // create | issue | replenish | modify | transfer
	class string
	from  int // address label
	to    int
	h     int      // hash label: code (issue / replenish / modify), id (transfer), own hash (create)
	h2    int      // replenish: id ; issue: own tx hash
	amt   *big.Int // amount as parsed by the implementation (nil when unparsable)
}

type c12Asset struct {
	code               int
	issuer             int
	cat                uint32
	div, repl, created bool
	createdAt          uint32
	keys               map[string]bool // profile keys the stored record has (harness ground truth)
	frozen             bool            // generator's truth: create profile + every executed modify of the freeze key, in execution order
}

type c12Entry struct {
	code int
	amt  *big.Int
	idst bool
}

type c12View struct {
	supply map[int]*big.Int
	frozen map[int]bool
	div    map[int]bool
	repl   map[int]bool
	cat    map[int]uint32
	issuer map[int]int
	eq     map[[2]int]c12Entry
}

type c12s struct {
	c         *Ctx
	w         *World
	n         *Node
	keys      []*ecdsa.PrivateKey // by address label (nil for label 0 and contracts)
	addrs     []common.Address
	addrLabel map[common.Address]int
	hashes    []common.Hash
	hashLabel map[common.Hash]int
	codeKind  map[int]int // address label -> 0 plain, 1 contract that stops, 2 contract that reverts
	parent    *types.Block
	t         uint32
	uniq      int
	assets    []*c12Asset // harness ground truth (what was asked for; `created` once included)
	native    map[int]int // id label -> code label it was born under (issue) ; cat-1: code -> code
	ids       []int       // ids produced by included issue txs
	prev      *c12View
	taint     map[int]bool // code labels involved in a replenish under an id that is not theirs
	taintID   map[int]bool
	nUsers    int
	stop      bool
	nilNext   bool // the next constructor call with receiver 0 builds a tx WITHOUT a To field (the engine then uses the zero address)
	bigNext   bool // the next create carries a 700-character description: the marshalled asset exceeds MaxMarshalAssetLength
	log       []string // op lines of this episode so far (block headers and tx / box / sub lines), for replays
	clean     bool // episode without any foreign-asset-id input: every oracle failure in it is a NEW defect
	stableH   uint32 // height of the last block the HARNESS confirmed (InsertConfirms) — not read from the engine
	unconf    int    // blocks built since the last confirmed one
}

func (s *c12s) hl(h common.Hash) int {
	if v, ok := s.hashLabel[h]; ok {
		return v
	}
	v := len(s.hashes)
	s.hashes = append(s.hashes, h)
	s.hashLabel[h] = v
	return v
}

func (s *c12s) exp() uint64 { return uint64(s.t) + 600 }

func (s *c12s) msg() string { s.uniq++; return fmt.Sprintf("m%d", s.uniq) }

// ---- error names ------------------------------------------------------------------------------

func c12ErrName(err error) string {
	switch err {
	case nil:
		return "ok"
	case types.ErrAssetNotExist:
		return "assetNotExist"
	case types.ErrAssetIdNotExist:
		return "idNotExist"
	case types.ErrEquityNotExist:
		return "equityNotExist"
	case transaction.ErrIssueAssetAmount:
		return "issueAmount"
	case transaction.ErrIssueAssetMetaData:
		return "metaData"
	case transaction.ErrReplenishAssetAmount:
		return "replenishAmount"
	case transaction.ErrAssetIssuer:
		return "notIssuer"
	case transaction.ErrFrozenAsset:
		return "frozen"
	case transaction.ErrIsReplenishable:
		return "notReplenishable"
	case transaction.ErrIsDivisible:
		return "notDivisible"
	case transaction.ErrNotEqualAssetCode:
		return "codeMismatch"
	case transaction.ErrModifyAssetInfo:
		return "noInfo"
	case transaction.ErrMarshalAssetLength:
		return "tooLong"
	case transaction.ErrAssetCategory:
		return "category"
	case types.ErrAssetKind:
		return "kind"
	case types.ErrTokenAssetDivisible:
		return "tokenDivisible"
	case types.ErrNonFungibleAssetDivisible:
		return "nftDivisible"
	case types.ErrAssetDecimal:
		return "decimal"
	case vm.ErrAssetEquity:
		return "assetEquity"
	case vm.ErrTransferFrozenAsset:
		return "frozenTransfer"
	case vm.ErrInsufficientBalance:
		return "insufficient"
	}
	msg := err.Error()
	if msg == "asset transfer amount can't be negative" { // vm.ErrNegativeAssetAmount (by text: the harness must also build against a tree without it)
		return "negativeAmount"
	}
	if msg == "rlp: cannot encode negative *big.Int" {
		return "rlpNegative"
	}
	// tx data that does not decode: the generated UnmarshalJSON reports a missing required field, hexutil
	// reports a json.UnmarshalTypeError (syntax / non-string), encoding/json a SyntaxError. Nothing else is `parse`.
	switch err.(type) {
	case *json.UnmarshalTypeError, *json.SyntaxError:
		return "parse"
	}
	if strings.HasPrefix(msg, "missing required field") {
		return "parse"
	}
	return "other:" + strings.ReplaceAll(msg, " ", "_")
}

// ---- reading the state back ------------------------------------------------------------------

func (s *c12s) view(h common.Hash) *c12View {
	am := account.NewManager(h, s.n.DB)
	v := &c12View{supply: map[int]*big.Int{}, frozen: map[int]bool{}, div: map[int]bool{}, repl: map[int]bool{}, cat: map[int]uint32{}, issuer: map[int]int{}, eq: map[[2]int]c12Entry{}}
	// every create tx ever offered (whether the harness believes it was included or not) is looked up in its sender's trie
	for _, as := range s.assets {
		acc := am.GetAccount(s.addrs[as.issuer])
		a, err := acc.GetAssetCode(s.hashes[as.code])
		if err != nil || a == nil {
			continue
		}
		sup, _ := acc.GetAssetCodeTotalSupply(s.hashes[as.code])
		fz, _ := acc.GetAssetCodeState(s.hashes[as.code], types.AssetFreeze)
		v.supply[as.code] = new(big.Int).Set(sup)
		v.frozen[as.code] = fz == "true"
		v.div[as.code] = a.IsDivisible
		v.repl[as.code] = a.IsReplenishable
		v.cat[as.code] = a.Category
		il, ok := s.addrLabel[a.Issuer]
		if !ok {
			il = 999
		}
		v.issuer[as.code] = il
	}
	for al, addr := range s.addrs {
		acc := am.GetAccount(addr)
		for hlab, hh := range s.hashes {
			e, err := acc.GetEquityState(hh)
			if err != nil || e == nil {
				continue
			}
			_, ierr := acc.GetAssetIdState(hh)
			amt := new(big.Int)
			if e.Equity != nil {
				amt.Set(e.Equity)
			}
			v.eq[[2]int{al, hlab}] = c12Entry{code: s.hl(e.AssetCode), amt: amt, idst: ierr == nil}
		}
	}
	return v
}

func (v *c12View) dump() string {
	var sb strings.Builder
	var codes []int
	for c := range v.supply {
		codes = append(codes, c)
	}
	sort.Ints(codes)
	for _, c := range codes {
		fz := 0
		if v.frozen[c] {
			fz = 1
		}
		sb.WriteString(fmt.Sprintf("c%d=%s/%d/%d/%d/%d/%d ", c, v.supply[c].String(), fz, v.issuer[c], v.cat[c], b2i(v.div[c]), b2i(v.repl[c])))
	}
	sb.WriteString("|")
	var ks [][2]int
	for k := range v.eq {
		ks = append(ks, k)
	}
	sort.Slice(ks, func(i, j int) bool {
		if ks[i][0] != ks[j][0] {
			return ks[i][0] < ks[j][0]
		}
		return ks[i][1] < ks[j][1]
	})
	for _, k := range ks {
		e := v.eq[k]
		st := 0
		if e.idst {
			st = 1
		}
		sb.WriteString(fmt.Sprintf(" %d:%d=%d,%s,%d", k[0], k[1], e.code, e.amt.String(), st))
	}
	return sb.String()
}

func (v *c12View) sumOf(code int) *big.Int {
	t := new(big.Int)
	for _, e := range v.eq {
		if e.code == code {
			t.Add(t, e.amt)
		}
	}
	return t
}

// ---- transaction constructors (op line + real tx) --------------------------------------------

// amount tokens: "s:<text>" a JSON string, "n:<text>" a bare JSON number, "missing" no such field
func c12AmtJSON(field, tok string) string {
	switch {
	case strings.HasPrefix(tok, "s:"):
		return fmt.Sprintf(`,"%s":"%s"`, field, tok[2:])
	case strings.HasPrefix(tok, "n:"):
		return fmt.Sprintf(`,"%s":%s`, field, tok[2:])
	}
	return ""
}

func (s *c12s) mkRaw(from int, to *common.Address, typ uint16, data string) *types.Transaction {
	return mkTx(s.keys[from], to, nil, []byte(data), typ, TxOpt{Exp: s.exp(), Msg: s.msg()})
}

// mkTo builds a tx with a receiver. After nilNext (receiver 0) it first builds the tx WITHOUT a To field — handleTx would
// use the zero address, i.e. burn / credit 0x0 — and checks that types.IsToExist (VerifyTxBody, pool AND block verification)
// refuses it: such a tx can reach neither the pool nor a valid block, so the explicit 0x0 form is offered instead.
func (s *c12s) mkTo(from, to int, typ uint16, data string) *types.Transaction {
	if s.nilNext && to == 0 {
		s.nilNext = false
		ntx := s.mkRaw(from, nil, typ, data)
		if e := ntx.VerifyTxBody(nodeChainID, uint64(s.t), true); e != nil {
			s.c.Count("nil-to:refused-by-VerifyTxBody-for-pool-and-block")
		} else {
			s.c.Fail("c12/harness/nil-to-passes-verification", "an asset tx without To passes VerifyTxBody: offer it to the engine", nil)
		}
	}
	s.nilNext = false
	a := s.addrs[to]
	return s.mkRaw(from, &a, typ, data)
}

// freshHash: the hash of a new create / issue tx becomes a NEW label (asset code / asset id)
func (s *c12s) freshHash(tx *types.Transaction) {
	if _, ok := s.hashLabel[tx.Hash()]; ok {
		s.c.Fail("c12/harness/hash-collision", "the hash of a newly built create / issue tx is already known: "+tx.Hash().Hex(), nil)
	}
}

var c12Decimal = regexp.MustCompile(`^[+-]?[0-9]+$`)

// checkAmount: for plain decimal tokens the amount the oracles work with (decoded by the real hexutil.Big10) must be what
// math/big reads from the same text
func (s *c12s) checkAmount(tok string, got *big.Int) {
	if !strings.HasPrefix(tok, "s:") || !c12Decimal.MatchString(tok[2:]) {
		return
	}
	want, ok := new(big.Int).SetString(tok[2:], 10)
	if !ok || got == nil || want.Cmp(got) != 0 {
		s.c.Fail("c12/harness/amount-parse", fmt.Sprintf("amount text %q: the implementation decodes %v, math/big reads %v", tok[2:], got, want), nil)
	}
}

func b2i(b bool) int {
	if b {
		return 1
	}
	return 0
}

// create: category / divisible / replenishable / decimal as given (may be invalid); fz = initial profile freeze value ("-" = key absent)
func (s *c12s) txCreate(from int, cat uint32, div, repl bool, decimal uint32, fz string, class string) *c12Tx {
	prof := types.Profile{types.AssetName: "A", types.AssetSymbol: "A"}
	if fz != "-" {
		prof[types.AssetFreeze] = fz
	}
	big := s.bigNext
	s.bigNext = false
	if big {
		prof[types.AssetDescription] = strings.Repeat("x", 700)
	}
	pj, _ := json.Marshal(prof)
	data := fmt.Sprintf(`{"category":%d,"isDivisible":%v,"decimal":%d,"isReplenishable":%v,"totalSupply":"12345","issuer":"%s","profile":%s}`, cat, div, decimal, repl, s.addrs[(from%s.nUsers)+1].String(), string(pj))
	tx := s.mkRaw(from, nil, params.CreateAssetTx, data)
	s.freshHash(tx)
	h := s.hl(tx.Hash())
	ks := map[string]bool{}
	for k := range prof {
		ks[k] = true
	}
	s.assets = append(s.assets, &c12Asset{code: h, issuer: from, cat: cat, div: div, repl: repl, keys: ks})
	return &c12Tx{tx: tx, kind: "create", class: class, from: from, h: h, fz: fz,
		line: fmt.Sprintf("create %d %d %d %d %d %d %s %d", from, h, cat, b2i(div), b2i(repl), decimal, fz, b2i(big))}
}

func (s *c12s) txIssue(from, to int, code common.Hash, amtTok string, metaLen int, class string) *c12Tx {
	data := fmt.Sprintf(`{"assetCode":"%s","metaData":"%s"%s}`, code.Hex(), strings.Repeat("m", metaLen), c12AmtJSON("supplyAmount", amtTok))
	tx := s.mkTo(from, to, params.IssueAssetTx, data)
	s.freshHash(tx)
	x := &c12Tx{tx: tx, kind: "issue", class: class, from: from, to: to, h: s.hl(code), h2: s.hl(tx.Hash())}
	if ia, err := types.GetIssueAsset(tx.Data()); err == nil {
		x.amt = ia.Amount
	}
	s.checkAmount(amtTok, x.amt)
	x.line = fmt.Sprintf("issue %d %d %d %d %d %s", from, to, x.h2, x.h, metaLen, amtTok)
	return x
}

func (s *c12s) txReplenish(from, to int, code, id common.Hash, amtTok string, class string) *c12Tx {
	data := fmt.Sprintf(`{"assetCode":"%s","assetId":"%s"%s}`, code.Hex(), id.Hex(), c12AmtJSON("replenishAmount", amtTok))
	tx := s.mkTo(from, to, params.ReplenishAssetTx, data)
	x := &c12Tx{tx: tx, kind: "replenish", class: class, from: from, to: to, h: s.hl(code), h2: s.hl(id)}
	if ra, err := types.GetReplenishAsset(tx.Data()); err == nil {
		x.amt = ra.Amount
	}
	s.checkAmount(amtTok, x.amt)
	x.line = fmt.Sprintf("replenish %d %d %d %d %s", from, to, x.h, x.h2, amtTok)
	return x
}

// modify: fz = new value of the freeze key, "-" = the update only touches another key, "none" = empty updateProfile,
// "big" = freeze := "true" together with a 700-character description (the marshalled asset exceeds the limit)
func (s *c12s) txModify(from int, code common.Hash, fz string, class string) *c12Tx {
	prof := map[string]string{}
	switch fz {
	case "none":
	case "big":
		prof[types.AssetFreeze] = "true"
		prof[types.AssetDescription] = strings.Repeat("y", 700)
	case "-":
		prof["description"] = "d" + fmt.Sprint(s.uniq)
	default:
		prof[types.AssetFreeze] = fz
	}
	tx := txModifyAsset(s.keys[from], code, prof, TxOpt{Exp: s.exp(), Msg: s.msg()})
	var pk []string
	for k := range prof {
		pk = append(pk, k)
	}
	return &c12Tx{tx: tx, kind: "modify", class: class, from: from, h: s.hl(code), pkeys: pk, fz: fz,
		line: fmt.Sprintf("modify %d %d %s", from, s.hl(code), fz)}
}

func (s *c12s) txTransferA(from, to int, id common.Hash, amtTok string, class string) *c12Tx {
	data := fmt.Sprintf(`{"assetId":"%s"%s}`, id.Hex(), c12AmtJSON("transferAmount", amtTok))
	tx := s.mkTo(from, to, params.TransferAssetTx, data)
	x := &c12Tx{tx: tx, kind: "transfer", class: class, from: from, to: to, h: s.hl(id)}
	if ta, err := types.GetTransferAsset(tx.Data()); err == nil {
		x.amt = ta.Amount
	}
	s.checkAmount(amtTok, x.amt)
	x.line = fmt.Sprintf("transfer %d %d %d %d %s", from, to, x.h, s.codeKind[to], amtTok)
	return x
}

// ---- one block -------------------------------------------------------------------------------

func cloneTxs(txs types.Transactions) types.Transactions {
	out := make(types.Transactions, len(txs))
	for i, tx := range txs {
		out[i] = tx.Clone()
	}
	return out
}

// introducesKey: a modify that writes a profile key the stored record does not have yet. If such a tx is executed and then
// REVERTED (oversized update, or a later sub-tx of its box fails), undoAssetCodeState writes the key back with the value ""
// instead of removing it: the miner's state differs from what validators compute and the miner's block is rejected.
// That is an engine defect outside C12 (reported, see epilogue); the generators avoid the trigger.
func (s *c12s) introducesKey(x *c12Tx) bool {
	if x.kind != "modify" {
		return false
	}
	as := s.asset(x.h)
	if as == nil {
		return false
	}
	for _, k := range x.pkeys {
		if !as.keys[k] {
			return true
		}
	}
	return false
}

// epilogue: two engine observations that are NOT C12 violations; they are only counted, after the last compared block.
func (s *c12s) epilogue() {
	c := s.c
	if s.stop || s.unconf != 0 {
		return
	}
	Safe(func() string {
		// (1) a discarded modify that introduced a new profile key leaves the key behind with an empty value
		var victim *c12Asset
		for _, as := range s.assets {
			if as.created && !as.keys[types.AssetDescription] && s.prev.issuer[as.code] == as.issuer {
				victim = as
				break
			}
		}
		if victim != nil {
			bad := s.txModify(victim.issuer, s.hashes[victim.code], "big", "probe")
			good := txTransfer(s.keys[1], s.addrs[2], lemo(1), TxOpt{Exp: s.exp(), Msg: s.msg()})
			b, _, err := s.n.Build(s.parent, s.t, types.Transactions{bad.tx, good}, nil)
			if err == nil {
				if e := s.n.Insert(CloneBlock(b)); e != nil {
					c.Count("engine-probe:discarded-modify-with-new-profile-key:honest-block-rejected")
				} else {
					c.Count("engine-probe:discarded-modify-with-new-profile-key:block-accepted")
					s.n.BC.InsertConfirms(b.Height(), b.Hash(), []types.SignData{Confirm(b, s.confirmer(b.MinerAddress()))})
					s.parent = b
				}
				s.t += 3
			}
		}
		// (2) an asset created by a SUB-transaction of a box never enters the store's code -> issuer index
		cr := s.txCreate(5, 1, true, true, 2, "-", "probe")
		box := s.txBoxOf(6, []*c12Tx{cr}, "probe")
		b, _, err := s.n.Build(s.parent, s.t, types.Transactions{box.tx}, nil)
		if err != nil || len(b.Txs) != 1 {
			c.Count("engine-probe:box-create:not-included")
			return ""
		}
		if e := s.n.Insert(CloneBlock(b)); e != nil {
			c.Count("engine-probe:box-create:block-rejected")
			return ""
		}
		s.n.BC.InsertConfirms(b.Height(), b.Hash(), []types.SignData{Confirm(b, s.confirmer(b.MinerAddress()))})
		s.parent = b
		for i := 0; i < 400; i++ {
			if a, err := s.n.DB.GetAssetCode(s.hashes[cr.h]); err == nil && a != (common.Address{}) {
				c.Count("engine-probe:box-create:indexed")
				return ""
			}
			time.Sleep(time.Millisecond)
		}
		if a, _ := account.NewManager(b.Hash(), s.n.DB).GetAccount(s.addrs[5]).GetAssetCode(s.hashes[cr.h]); a != nil {
			c.Count("engine-probe:box-create:asset-exists-but-never-indexed")
		}
		return ""
	})
}

// txBoxOf wraps asset txs in a box signed by `from`
func (s *c12s) txBoxOf(from int, subs []*c12Tx, class string) *c12Tx {
	var stx types.Transactions
	for _, x := range subs {
		stx = append(stx, x.tx)
	}
	tx := txBox(s.keys[from], stx, TxOpt{Exp: s.exp(), Msg: s.msg()})
	return &c12Tx{tx: tx, kind: "box", class: class, from: from, subs: subs, line: fmt.Sprintf("box %d", len(subs))}
}

func sigKey(tx *types.Transaction) string {
	if len(tx.Sigs()) == 0 {
		return ""
	}
	return string(tx.Sigs()[0])
}

// runAsset runs one asset tx through the real VerifyAssetTx + RunAssetEnv / EVM.TransferAssetTx on `am` (no gas, no signatures)
func (s *c12s) runAsset(proc *transaction.TxProcessor, am *account.Manager, header *types.Header, tx *types.Transaction) error {
	if err := proc.VerifyAssetTx(tx); err != nil {
		return err
	}
	env := transaction.NewRunAssetEnv(am)
	var to common.Address
	if tx.To() != nil {
		to = *tx.To()
	}
	var err error
	switch tx.Type() {
	case params.CreateAssetTx:
		err = env.CreateAssetTx(tx.From(), tx.Data(), tx.Hash())
	case params.IssueAssetTx:
		err = env.IssueAssetTx(tx.From(), to, tx.Hash(), tx.Data())
	case params.ReplenishAssetTx:
		err = env.ReplenishAssetTx(tx.From(), to, tx.Data())
	case params.ModifyAssetTx:
		err = env.ModifyAssetProfileTx(tx.From(), tx.Data())
	case params.TransferAssetTx:
		ctx := transaction.NewEVMContext(tx, header, 0, common.Hash{}, parentLoader{s.n})
		evm := vm.NewEVM(ctx, am, vm.Config{})
		_, _, err, _ = evm.TransferAssetTx(am.GetAccount(tx.From()), to, tx.GasLimit(), tx.Data(), s.n.DB)
	}
	return err
}

// diagnose re-runs the real functions on the real pre-state of a discarded tx (or box) to name the error, and asks
// the VALIDATOR entry point (TxProcessor.Process) whether it would accept a block that contains the discarded tx.
func (s *c12s) diagnose(header *types.Header, prefix, vprefix types.Transactions, x *c12Tx) string {
	return Safe(func() string {
		am := account.NewManager(header.ParentHash, s.n.DB)
		proc := transaction.NewTxProcessor(keyAddr(s.w.FounderKey), nodeChainID, parentLoader{s.n}, am, s.n.DB, s.n.DM)
		sel, _, _ := proc.ApplyTxs(header, cloneTxs(prefix), 60000)
		if len(sel) != len(prefix) {
			return "diagnose-prefix-mismatch"
		}
		var err error
		if x.kind == "box" {
			for _, sub := range x.subs {
				if err = s.runAsset(proc, am, header, sub.orig.Clone()); err != nil {
					break
				}
			}
		} else {
			err = s.runAsset(proc, am, header, x.orig.Clone())
		}
		// validator path: prefix + the discarded tx must be refused as "invalid transaction in block"
		am2 := account.NewManager(header.ParentHash, s.n.DB)
		proc2 := transaction.NewTxProcessor(keyAddr(s.w.FounderKey), nodeChainID, parentLoader{s.n}, am2, s.n.DB, s.n.DM)
		_, perr := proc2.Process(header, append(cloneTxs(vprefix), x.orig.Clone())) // vprefix: the txs as they stand in the mined block (gasUsed set)
		if perr == transaction.ErrInvalidTxInBlock {
			s.c.Count("validator:process-refuses-discarded-tx")
		} else {
			s.c.Fail("c12/validator-accepts-discarded-tx", fmt.Sprintf("block %d: the miner path discards `%s` but TxProcessor.Process on the same prefix answers %v", header.Height, x.line, perr), nil)
		}
		if err == nil {
			return "discarded-without-asset-error"
		}
		return c12ErrName(err)
	})
}

// waitIndex: EVM.TransferAssetTx finds an asset's issuer through the store's code -> issuer index, which a
// background writer fills some time AFTER the block with the create tx became stable (BeansDB.After / afterBlock).
// Until then every transfer of the asset fails with "asset does not exist".  The scenario waits for the writer,
// so that the outcome of the next block does not depend on its progress (and counts how often it had to).
func (s *c12s) waitIndex() {
	lag := false
	for _, as := range s.assets {
		if !as.created || as.createdAt > s.stableH {
			continue
		}
		for i := 0; ; i++ {
			a, err := s.n.DB.GetAssetCode(s.hashes[as.code])
			if err == nil && a != (common.Address{}) {
				break
			}
			lag = true
			if i > 20000 {
				panic("c12: asset code index never written")
			}
			time.Sleep(time.Millisecond)
		}
	}
	if lag {
		s.c.Count("store:asset-code-index-lagged-behind-stable-block")
	}
}

func (s *c12s) confirmer(miner common.Address) *ecdsa.PrivateKey {
	for _, dk := range s.w.DeputyKeys {
		if keyAddr(dk) != miner {
			return dk
		}
	}
	return nil
}

// runBlock mines, validates and (unless `lag`) confirms one block of candidate txs and writes its op lines.
// probe (optional): a tx offered to the miner path on the new head BEFORE the asset-code index is waited for; only counted.
func (s *c12s) runBlock(cands []*c12Tx) []string { return s.runBlockOpt(cands, false, nil) }

func (s *c12s) runBlockOpt(cands []*c12Tx, lag bool, probe *c12Tx) []string {
	c := s.c
	outs := make([]string, len(cands))
	var txs types.Transactions
	idx := map[string]int{}
	for i, x := range cands {
		if x.orig == nil {
			x.orig = x.tx.Clone()
		}
		for _, sub := range x.subs {
			if sub.orig == nil {
				sub.orig = sub.tx.Clone()
			}
		}
		txs = append(txs, x.tx)
		idx[sigKey(x.tx)] = i
		if e := x.tx.VerifyTxBody(nodeChainID, uint64(s.t), false); e != nil {
			c.Count("pool-verify:rejected:" + x.kind)
		} else {
			c.Count("pool-verify:ok")
		}
	}
	k, err := s.n.InTurn(s.parent, s.t)
	if err != nil {
		panic(err)
	}
	miner := keyAddr(k)
	header := &types.Header{ParentHash: s.parent.Hash(), MinerAddress: miner, Height: s.parent.Height() + 1, GasLimit: s.parent.GasLimit(), Time: s.t}
	stableBefore := s.n.BC.StableBlock().Height()
	if stableBefore != s.stableH {
		// s.stableH is the last block the harness itself confirmed: a lag block must really lag
		c.Fail("c12/harness/stable-height", fmt.Sprintf("the engine's stable block is %d, the last block the harness confirmed is %d", stableBefore, s.stableH), nil)
	}
	if stableBefore != s.parent.Height() {
		c.Count("block:stable-lags-behind-parent")
	}
	s.log = append(s.log, fmt.Sprintf("block %d %d", header.Height, stableBefore))
	for _, x := range cands {
		if x.kind == "box" {
			s.log = append(s.log, x.line)
			for _, sub := range x.subs {
				s.log = append(s.log, "sub "+sub.line)
			}
			s.log = append(s.log, "boxend")
		} else {
			s.log = append(s.log, "tx "+x.line)
		}
	}
	var dump string
	res, pmsg := SafeMsg(func() string {
		b, _, err := s.n.Build(s.parent, s.t, txs, nil)
		if err != nil {
			return "builderr " + err.Error()
		}
		if e := s.n.Insert(CloneBlock(b)); e != nil {
			var desc []string
			inb := map[string]bool{}
			for _, tx := range b.Txs {
				inb[sigKey(tx)] = true
			}
			for _, x := range cands {
				st := "discarded"
				if inb[sigKey(x.tx)] {
					st = "included"
				}
				desc = append(desc, fmt.Sprintf("[%s | %s | %s]", x.line, x.class, st))
			}
			c.Fail("c12/honest-block-rejected", fmt.Sprintf("block %d (stable block %d) built by the miner path is rejected by the validator path: %v; candidates: %s", b.Height(), stableBefore, e, strings.Join(desc, " ")), nil)
			return "rejected"
		}
		included := map[int]bool{}
		for _, tx := range b.Txs {
			if i, ok := idx[sigKey(tx)]; ok {
				included[i] = true
				outs[i] = "ok"
			}
		}
		var prefix types.Transactions
		for i, x := range cands {
			if included[i] {
				prefix = append(prefix, x.orig.Clone())
				continue
			}
			outs[i] = "err " + s.diagnose(header, prefix, b.Txs[:len(prefix)], x)
		}
		if !lag {
			s.n.BC.InsertConfirms(b.Height(), b.Hash(), []types.SignData{Confirm(b, s.confirmer(miner))})
			if st := s.n.BC.StableBlock(); st.Hash() != b.Hash() {
				c.Fail("c12/harness/not-stable", fmt.Sprintf("block %d did not become stable", b.Height()), nil)
			}
			s.unconf = 0
			s.stableH = b.Height()
		} else {
			s.unconf++
			c.Count("block:left-unconfirmed")
		}
		// the executed asset txs of this block, boxes flattened
		var done []*c12Tx
		for i, x := range cands {
			if !included[i] {
				continue
			}
			if x.kind == "box" {
				done = append(done, x.subs...)
				c.Count("box:included")
			} else {
				done = append(done, x)
			}
		}
		s.frozenTruth(b, done)
		// bookkeeping of the harness' ground truth
		for _, x := range done {
			switch x.kind {
			case "create":
				if as := s.asset(x.h); as != nil {
					as.created = true
					as.createdAt = b.Height()
					if as.cat == types.TokenAsset {
						s.native[as.code] = as.code
						if s.taintID[as.code] {
							s.taint[as.code] = true
						}
					}
				}
			case "issue":
				if as := s.asset(x.h); as != nil {
					id := s.issueID(x)
					if _, ok := s.native[id]; !ok {
						s.native[id] = as.code
					}
					if s.taintID[id] {
						s.taint[as.code] = true
					}
					s.ids = append(s.ids, id)
				}
			case "modify":
				if as := s.asset(x.h); as != nil {
					for _, k := range x.pkeys {
						as.keys[k] = true
					}
				}
			case "replenish":
				if nc, ok := s.native[x.h2]; (!ok && x.h2 != x.h) || (ok && nc != x.h) {
					s.taint[x.h] = true
					s.taintID[x.h2] = true
					if ok {
						s.taint[nc] = true
					}
					c.Count("oracle:replenish-under-foreign-or-free-id")
					if s.clean {
						c.Fail("c12/harness/foreign-id-in-clean-episode", x.line, nil)
					}
				}
			}
		}
		if probe != nil {
			pb, _, perr := s.n.Build(b, s.t+1, types.Transactions{probe.tx}, nil)
			switch {
			case perr != nil:
				c.Count("index-lag-probe:build-error")
			case len(pb.Txs) == 1:
				c.Count("index-lag-probe:transfer-included")
			default:
				c.Count("index-lag-probe:transfer-discarded-before-index-written")
			}
		}
		s.waitIndex()
		v := s.view(b.Hash())
		s.oracles(b, done, v)
		s.prev = v
		s.parent = b
		dump = v.dump()
		return "ok"
	})
	c.Op(fmt.Sprintf("block %d %d", header.Height, stableBefore), "ok")
	for i, x := range cands {
		o := outs[i]
		if o == "" {
			o = "err not-run"
		}
		short := firstWord(strings.TrimPrefix(o, "err "))
		if x.kind == "box" {
			c.Op(x.line, "ok")
			for _, sub := range x.subs {
				c.Op("sub "+sub.line, "ok")
			}
			c.Op("boxend", o)
		} else {
			c.Op("tx "+x.line, o)
		}
		c.Count("tx:" + x.kind + ":" + short)
		c.Count("class:" + x.class + ":" + short)
	}
	if res != "ok" {
		c.Fail("c12/block-build-failed", res+" "+pmsg, nil)
		c.Op("end 0", res)
		s.stop = true
		return outs
	}
	c.Op(fmt.Sprintf("end %d", len(s.hashes)), dump)
	s.t += uint32(1 + c.Rnd.Intn(25))
	return outs
}

// ---- direct oracles --------------------------------------------------------------------------

// replayFor: the tx list that concerns an asset — every op line of this episode that names the asset code or the asset id,
// under its block header
func (s *c12s) replayFor(code, id int) []string {
	var out []string
	header := ""
	wc, wi := fmt.Sprint(code), fmt.Sprint(id)
	for _, l := range s.log {
		if strings.HasPrefix(l, "block ") {
			header = l
			continue
		}
		hit := false
		f := strings.Fields(l)
		if len(f) > 1 {
			// positions of the hash labels (asset code / asset id / own tx hash) per tx kind, after the "tx" / "sub" word
			for _, i := range map[string][]int{"create": {3}, "issue": {4, 5}, "replenish": {4, 5}, "modify": {3}, "transfer": {4}}[f[1]] {
				if i < len(f) && (f[i] == wc || f[i] == wi) {
					hit = true
				}
			}
		}
		if hit {
			if header != "" {
				out = append(out, header)
				header = ""
			}
			out = append(out, l)
		}
	}
	return out
}

func c12CatName(cat uint32) string {
	switch cat {
	case types.TokenAsset:
		return "token"
	case types.NonFungibleAsset:
		return "non-fungible"
	case types.CommonAsset:
		return "common"
	}
	return fmt.Sprintf("category-%d", cat)
}

// gtCode: the asset code an id belongs to, by the generator's own records (issue: id -> code; an asset code used as id)
func (s *c12s) gtCode(id int) (int, bool) {
	if c, ok := s.native[id]; ok {
		return c, true
	}
	if as := s.asset(id); as != nil && as.created {
		return id, true
	}
	return 0, false
}

// frozenTruth walks the EXECUTED asset txs of the block in execution order with the generator's own freeze state
// (create profile, every executed modify of the freeze key; the checks under test read the in-block state too) and reports
// every executed transfer / burn / issue / replenish of an asset that is frozen at that point. Nothing is read back.
func (s *c12s) frozenTruth(b *types.Block, done []*c12Tx) {
	c := s.c
	for _, x := range done {
		switch x.kind {
		case "create":
			if as := s.asset(x.h); as != nil {
				as.frozen = x.fz == "true"
			}
		case "modify":
			if as := s.asset(x.h); as != nil && as.created {
				switch x.fz {
				case "-", "none", "big":
				default:
					as.frozen = x.fz == "true"
					if as.frozen {
						c.Count("freeze-truth:frozen:" + c12CatName(as.cat))
					} else {
						c.Count("freeze-truth:unfrozen:" + c12CatName(as.cat))
					}
				}
			}
		case "transfer", "issue", "replenish":
			code, ok := x.h, true
			if x.kind == "transfer" {
				code, ok = s.gtCode(x.h)
				if ok && (s.taintID[x.h] || s.taint[code]) {
					ok = false // an entry parked under a foreign id carries another code: recorded finding, not judged here
				}
			}
			as := s.asset(code)
			if !ok || as == nil || !as.created {
				continue
			}
			if !as.frozen {
				c.Count("freeze-truth:moved-while-not-frozen:" + x.kind + ":" + c12CatName(as.cat))
				continue
			}
			what := x.kind
			if x.kind == "transfer" {
				switch {
				case x.to == 0:
					what = "burn to 0x0"
				case s.codeKind[x.to] != 0:
					what = "transfer to a contract"
				default:
					what = "transfer to an account"
				}
			}
			c.Fail("c12/frozen-asset-moved/"+c12CatName(as.cat), fmt.Sprintf("block %d: asset c%d (category %d) is frozen by construction (create profile / executed modify txs), yet `%s` (%s) was executed", b.Height(), as.code, as.cat, x.line, what), s.replayFor(as.code, x.h))
		}
	}
}

func (s *c12s) asset(code int) *c12Asset {
	for _, as := range s.assets {
		if as.code == code {
			return as
		}
	}
	return nil
}

// issueID: the asset id an issue tx writes to (the code for a token asset, the tx hash otherwise)
func (s *c12s) issueID(x *c12Tx) int {
	if as := s.asset(x.h); as != nil && as.cat == types.TokenAsset {
		return x.h
	}
	return x.h2
}

func (s *c12s) oracles(b *types.Block, done []*c12Tx, v *c12View) {
	c := s.c
	p := s.prev
	if p == nil {
		return
	}
	// the flags the oracles below read back, against the generator's own records
	for _, as := range s.assets {
		if !as.created {
			continue
		}
		if fz, ok := v.frozen[as.code]; ok && fz != as.frozen {
			c.Fail("c12/freeze-flag-differs", fmt.Sprintf("block %d: asset c%d: the freeze flag read back is %v, the executed create / modify txs say %v", b.Height(), as.code, fz, as.frozen), s.replayFor(as.code, as.code))
		}
		if dv, ok := v.div[as.code]; ok && dv != as.div {
			c.Fail("c12/harness/div-flag-differs", fmt.Sprintf("block %d: asset c%d: isDivisible read back is %v, created with %v", b.Height(), as.code, dv, as.div), nil)
		}
	}
	negTransferTo := map[[2]int]bool{} // (receiver, id) of included transfers with a negative amount
	negBurn := map[int]bool{}          // id of included negative-amount transfers to the burn address
	sentMax := map[[2]int]*big.Int{}   // (sender, id) -> upper bound of what the included transfers of the sender may take
	sentAll := map[[2]int]bool{}       // (sender, id) sent a non-divisible asset: the whole entry may go
	issuedTo := map[[2]int]bool{}      // (receiver, id) written by an included issue
	modified := map[int]bool{}
	issuedAmt := map[int]*big.Int{} // code -> sum of amounts the issuer issued / replenished in this block
	burnBy := map[int]bool{}
	for _, x := range done {
		switch x.kind {
		case "transfer":
			if s.codeKind[x.to] == 2 {
				continue // execution reverted
			}
			k := [2]int{x.from, x.h}
			if sentMax[k] == nil {
				sentMax[k] = new(big.Int)
			}
			if pe, ok := p.eq[k]; ok && !p.div[pe.code] {
				sentAll[k] = true
			}
			if x.amt != nil && x.amt.Sign() > 0 && x.to != x.from {
				sentMax[k].Add(sentMax[k], x.amt)
			}
			if x.amt != nil && x.amt.Sign() < 0 {
				negTransferTo[[2]int{x.to, x.h}] = true
				if x.to == 0 {
					negBurn[x.h] = true
				}
			}
			if x.to == 0 {
				if e, ok := p.eq[k]; ok {
					burnBy[e.code] = true
				}
				if e, ok := v.eq[k]; ok {
					burnBy[e.code] = true
				}
			}
		case "issue", "replenish":
			if x.kind == "issue" {
				issuedTo[[2]int{x.to, s.issueID(x)}] = true
			}
			if issuedAmt[x.h] == nil {
				issuedAmt[x.h] = new(big.Int)
			}
			if x.amt != nil {
				issuedAmt[x.h].Add(issuedAmt[x.h], x.amt)
			}
		case "modify":
			modified[x.h] = true
		}
	}
	// negative values
	for code, sup := range v.supply {
		if sup.Sign() < 0 {
			c.Fail("c12/negative-equity", fmt.Sprintf("block %d: supply of asset c%d is %s", b.Height(), code, sup.String()), nil)
		}
	}
	for k, e := range v.eq {
		if e.amt.Sign() < 0 {
			c.Fail("c12/negative-equity", fmt.Sprintf("block %d: equity %d:%d is %s", b.Height(), k[0], k[1], e.amt.String()), nil)
		}
	}
	c.Count("oracle:no-negative:checked")
	// supply = sum (divisible assets); report the block that breaks it (or changes the gap)
	for code, sup := range v.supply {
		if !v.div[code] {
			continue
		}
		sum := v.sumOf(code)
		if sum.Cmp(sup) != 0 {
			if ps, ok := p.supply[code]; ok && new(big.Int).Sub(sum, sup).Cmp(new(big.Int).Sub(p.sumOf(code), ps)) == 0 {
				c.Count("oracle:supply-not-sum:inherited")
				continue
			}
			class := "other"
			if s.taint[code] {
				class = "foreign-asset-id"
			}
			c.Fail("c12/supply-not-sum/"+class, fmt.Sprintf("block %d: asset c%d records supply %s but its holders own %s", b.Height(), code, sup.String(), sum.String()), nil)
		} else {
			c.Count("oracle:supply-eq-sum:ok")
		}
	}
	// nobody loses more than what the transfers he sent in this block take
	for k, pe := range p.eq {
		ne, ok := v.eq[k]
		if ok && ne.code == pe.code && ne.amt.Cmp(pe.amt) >= 0 {
			continue
		}
		if ok && ne.code == pe.code && sentAll[k] {
			continue
		}
		if ok && ne.code == pe.code && sentMax[k] != nil && new(big.Int).Sub(pe.amt, ne.amt).Cmp(sentMax[k]) <= 0 {
			c.Count("oracle:debit-explained-by-own-transfers")
			continue
		}
		class := "other"
		switch {
		case negTransferTo[k]:
			class = "negative-amount"
		case issuedTo[k] && (s.taint[pe.code] || s.taintID[k[1]]):
			class = "foreign-asset-id"
		case issuedTo[k]:
			class = "issue-overwrites-entry"
		}
		after := "gone"
		if ok {
			after = fmt.Sprintf("c%d,%s", ne.code, ne.amt.String())
		}
		sent := "0"
		if sentMax[k] != nil {
			sent = sentMax[k].String()
		}
		c.Fail("c12/third-party-debited/"+class, fmt.Sprintf("block %d: equity %d:%d was c%d,%s and is %s although the transfers account %d sent of id %d in this block take at most %s", b.Height(), k[0], k[1], pe.code, pe.amt.String(), after, k[0], k[1], sent), nil)
	}
	// frozen throughout the block => nothing moves
	for code, fz := range p.frozen {
		if !fz || !v.frozen[code] || modified[code] {
			continue
		}
		if v.supply[code] == nil || p.supply[code] == nil {
			continue
		}
		moved := v.supply[code].Cmp(p.supply[code]) != 0
		for k, e := range v.eq {
			if e.code != code {
				continue
			}
			if pe, ok := p.eq[k]; !ok || pe.code != code || pe.amt.Cmp(e.amt) != 0 {
				moved = true
			}
		}
		for k, pe := range p.eq {
			if pe.code == code {
				if e, ok := v.eq[k]; !ok || e.code != code {
					moved = true
				}
			}
		}
		if moved {
			class := "other"
			if s.taint[code] {
				class = "foreign-asset-id"
			}
			c.Fail("c12/frozen-moved/"+class, fmt.Sprintf("block %d: asset c%d is frozen before and after the block and was not modified in it, but its supply / equity changed", b.Height(), code), nil)
		} else {
			c.Count("oracle:frozen-unmoved:ok")
		}
	}
	// growth only by the issuer; shrinking only by a burn
	for code, sup := range v.supply {
		ps, ok := p.supply[code]
		if !ok {
			ps = new(big.Int)
		}
		dSup := new(big.Int).Sub(sup, ps)
		dSum := new(big.Int).Sub(v.sumOf(code), p.sumOf(code))
		allowed := issuedAmt[code]
		if allowed == nil {
			allowed = new(big.Int)
		}
		what, by := "", dSup
		switch {
		case v.div[code] && dSup.Cmp(allowed) > 0:
			what = "supply"
		case v.div[code] && dSum.Cmp(allowed) > 0:
			what, by = "holdings", dSum
		case !v.div[code] && dSup.Sign() > 0 && issuedAmt[code] == nil:
			what = "supply"
		}
		if what != "" {
			cause := "other"
			for id := range negBurn {
				for k, e := range p.eq {
					if k[1] == id && e.code == code {
						cause = "negative-amount-burn"
					}
				}
			}
			if cause == "other" && s.taint[code] {
				cause = "foreign-asset-id"
			}
			c.Fail("c12/minted-by-non-issuer/"+cause, fmt.Sprintf("block %d: asset c%d: %s grew by %s (supply %s, holdings %s) but its issuer issued / replenished only %s in this block", b.Height(), code, what, by.String(), dSup.String(), dSum.String(), allowed.String()), nil)
		} else {
			c.Count("oracle:growth-by-issuer-only:ok")
		}
		if dSup.Sign() < 0 && !burnBy[code] {
			c.Fail("c12/supply-reduced-without-burn", fmt.Sprintf("block %d: supply of c%d fell by %s without a transfer to the burn address", b.Height(), code, dSup.String()), nil)
		}
	}
}

// ---- the scenario ----------------------------------------------------------------------------

// c12: episodes of at most 75 random blocks, each in a fresh world (the dump of a block reads every known
// (holder, id) pair, so one long chain would cost quadratic time); every episode starts with a scripted prefix.
// Episodes ALTERNATE: even ones contain the foreign-asset-id inputs (scripted witnesses + random replenishes under
// any id) whose failures carry the recorded class /foreign-asset-id; odd ones are CLEAN (no such input at all),
// so that any oracle failure in them is reported under a class that is not a known finding.
func c12(c *Ctx) {
	left := c.N
	for ep := 0; ; ep++ {
		nb := left
		if nb > 75 {
			nb = 75
		}
		c12Episode(c, nb, ep%2 == 1)
		c.Count("episodes")
		left -= nb
		if left <= 0 {
			break
		}
	}
}

func c12Episode(c *Ctx, nBlocks int, clean bool) {
	now := uint32(time.Now().Unix())
	w := NewWorld(3, now-600000, 10000)
	n := w.NewNode(3)
	defer n.Close()
	s := &c12s{c: c, w: w, n: n, addrLabel: map[common.Address]int{}, hashLabel: map[common.Hash]int{}, codeKind: map[int]int{}, native: map[int]int{}, taint: map[int]bool{}, taintID: map[int]bool{}}
	s.hl(common.Hash{})
	// address labels: 0 = burn address, 1..nUsers = users, then two contracts
	s.nUsers = 6
	s.addrs = append(s.addrs, common.Address{})
	s.keys = append(s.keys, nil)
	for i := 0; i < s.nUsers; i++ {
		k := detKey(fmt.Sprintf("c12-u%d", i))
		s.keys = append(s.keys, k)
		s.addrs = append(s.addrs, keyAddr(k))
	}
	for i, a := range s.addrs {
		s.addrLabel[a] = i
	}
	s.parent = n.BC.CurrentBlock()
	s.t = s.parent.Time() + 1

	// block 1: fund the users; block 2: two contracts (one stops, one reverts)
	{
		var txs types.Transactions
		for i := 1; i <= s.nUsers; i++ {
			txs = append(txs, txTransfer(w.FounderKey, s.addrs[i], lemo(100000), TxOpt{Exp: s.exp(), Msg: s.msg()}))
		}
		txs = append(txs, txCreate(s.keys[1], nil, initCodeFor([]byte{0x00}), TxOpt{Exp: s.exp(), Msg: s.msg()}))
		txs = append(txs, txCreate(s.keys[1], nil, initCodeFor([]byte{0x60, 0x00, 0x60, 0x00, 0xfd}), TxOpt{Exp: s.exp(), Msg: s.msg()}))
		for round := 0; round < 2; round++ {
			var part types.Transactions
			if round == 0 {
				part = txs[:s.nUsers]
			} else {
				part = txs[s.nUsers:]
			}
			b, invalid, err := n.Build(s.parent, s.t, part, nil)
			if err != nil || len(invalid) != 0 {
				panic(fmt.Sprintf("c12 setup block: %v invalid=%d", err, len(invalid)))
			}
			if e := n.Insert(CloneBlock(b)); e != nil {
				panic(e)
			}
			n.BC.InsertConfirms(b.Height(), b.Hash(), []types.SignData{Confirm(b, s.confirmer(b.MinerAddress()))})
			if round == 1 {
				for _, cl := range b.ChangeLogs {
					if cl.LogType == account.CodeLog {
						lab := len(s.addrs)
						s.addrs = append(s.addrs, cl.Address)
						s.keys = append(s.keys, nil)
						s.addrLabel[cl.Address] = lab
						s.codeKind[lab] = 1 + (lab - s.nUsers - 1)
					}
				}
			}
			s.parent = b
			s.t += 3
		}
		if len(s.addrs) != s.nUsers+3 {
			panic("c12 setup: contracts not created")
		}
		// which of the two is the reverting one? look at the code
		for lab := s.nUsers + 1; lab < len(s.addrs); lab++ {
			code, _ := account.NewManager(s.parent.Hash(), n.DB).GetAccount(s.addrs[lab]).GetCode()
			if len(code) == 1 {
				s.codeKind[lab] = 1
			} else {
				s.codeKind[lab] = 2
			}
		}
	}
	// the model is the repaired code; there is no probe of the implementation
	c.Op(fmt.Sprintf("init %d %d", len(s.addrs), s.parent.Height()), "ok")
	s.stableH = s.parent.Height() // the setup blocks were confirmed by the harness
	s.prev = s.view(s.parent.Hash())
	s.clean = clean
	if clean {
		c.Count("episodes:clean")
	} else {
		c.Count("episodes:with-foreign-asset-id-inputs")
	}

	s.scriptedFreeze()
	if !s.stop {
		s.scripted()
	}
	for blk := 0; blk < nBlocks && !s.stop; blk++ {
		s.randomBlock()
	}
	s.epilogue()
	if s.clean && len(s.taint)+len(s.taintID) != 0 {
		c.Fail("c12/harness/taint-in-clean-episode", "a clean episode must not contain foreign-id inputs", nil)
	}
}

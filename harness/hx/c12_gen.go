package main

// c12 generators: a scripted prefix that reproduces every anomaly class deterministically, then random blocks.

import (
	"fmt"
	"math/big"
	"strings"

	"github.com/LemoFoundationLtd/lemochain-core/chain/params"
	"github.com/LemoFoundationLtd/lemochain-core/chain/types"
	"github.com/LemoFoundationLtd/lemochain-core/common"
)

func (s *c12s) codeOf(x *c12Tx) common.Hash { return s.hashes[x.h] }

// scripted: fixed witnesses (users 1..6; burn = 0; contracts 7 (stops) and 8 (reverts) by codeKind)
func (s *c12s) scripted() {
	okC, revC := 0, 0
	for lab, k := range s.codeKind {
		if k == 1 {
			okC = lab
		}
		if k == 2 {
			revC = lab
		}
	}
	// --- block A: creation, valid and invalid
	T := s.txCreate(1, 1, true, true, 2, "false", "create:token")
	N := s.txCreate(1, 2, false, false, 0, "-", "create:nft")
	C := s.txCreate(2, 3, true, true, 18, "-", "create:common-div")
	D := s.txCreate(2, 3, false, true, 0, "-", "create:common-nondiv")
	T2 := s.txCreate(3, 1, true, false, 2, "False", "create:token-nonrepl")
	F := s.txCreate(3, 1, true, true, 2, "true", "create:frozen-at-birth")
	X := s.txCreate(4, 1, true, true, 2, "-", "create:attacker-token")
	s.runBlock([]*c12Tx{T, N, C, D, T2, F, X,
		s.txCreate(5, 0, true, true, 2, "-", "create:cat0"),
		s.txCreate(5, 4, true, true, 2, "-", "create:cat4"),
		s.txCreate(5, 1, false, true, 2, "-", "create:token-nondiv"),
		s.txCreate(5, 2, true, false, 2, "-", "create:nft-div"),
		s.txCreate(5, 2, false, true, 2, "-", "create:nft-replenishable"),
		s.txCreate(5, 3, true, true, 19, "-", "create:decimal19"),
		s.txIssue(1, 2, s.codeOf(T), "s:5", 3, "issue:same-block-as-create"),
	})
	if s.stop {
		return
	}
	cT, cN, cC, cD, cT2, cF, cX := s.codeOf(T), s.codeOf(N), s.codeOf(C), s.codeOf(D), s.codeOf(T2), s.codeOf(F), s.codeOf(X)
	// --- block B: issue
	iN := s.txIssue(1, 2, cN, "s:7", 10, "issue:nft")
	iC := s.txIssue(2, 4, cC, "s:50", 1, "issue:common-div")
	iD := s.txIssue(2, 4, cD, "s:9", 2, "issue:common-nondiv")
	iE := s.txIssue(2, 6, cC, "s:11", 0, "issue:empty-metadata")
	s.runBlock([]*c12Tx{
		s.txIssue(1, 2, cT, "s:100", 3, "issue:token"),
		s.txIssue(1, 3, cT, "s:100", 3, "issue:token"),
		s.txIssue(1, 3, cT, "s:0", 3, "issue:zero"),
		s.txIssue(1, 3, cT, "s:-5", 3, "issue:negative"),
		s.txIssue(1, 3, cT, "s:", 3, "issue:empty-string"),
		s.txIssue(1, 3, cT, "s:abc", 3, "issue:unparsable"),
		s.txIssue(1, 3, cT, "missing", 3, "issue:amount-missing"),
		s.txIssue(1, 3, cT, "s:4", 257, "issue:metadata-too-long"),
		iN, iC, iD, iE,
		s.txIssue(4, 4, cT, "s:1000", 0, "issue:non-issuer"),
		s.txIssue(3, 3, cF, "s:10", 0, "issue:frozen-at-birth"),
		s.txIssue(3, 5, cT2, "s:40", 5, "issue:token-nonrepl"),
		s.txIssue(1, 2, common.Hash{}, "s:5", 0, "issue:zero-code"),
		s.txIssue(1, 2, common.HexToHash("0xdead"), "s:5", 0, "issue:unknown-code"),
		s.txTransferA(2, 3, cT, "s:1", "transfer:same-block-as-issue"),
	})
	if s.stop {
		return
	}
	idN, idC, idD, idE := s.hashes[iN.h2], s.hashes[iC.h2], s.hashes[iD.h2], s.hashes[iE.h2]
	// --- block C1: THE witness, alone in its block: Bob (3) sends -60 to Alice (2); both hold 100
	s.runBlock([]*c12Tx{s.txTransferA(3, 2, cT, "s:-60", "transfer:negative-to-holder")})
	if s.stop {
		return
	}
	// --- block C2: the other transfer anomalies
	s.runBlock([]*c12Tx{
		s.txTransferA(6, 5, idE, "s:1", "transfer:issued-with-empty-metadata"),
		s.txTransferA(2, 3, cT, "s:0", "transfer:zero"),
		s.txTransferA(2, 3, cT, "s:1000000", "transfer:oversized"),
		s.txTransferA(2, 2, cT, "s:15", "transfer:self"),
		s.txTransferA(2, 0, cT, "s:10", "transfer:burn"),
		s.txTransferA(2, okC, cT, "s:5", "transfer:to-contract"),
		s.txTransferA(2, revC, cT, "s:5", "transfer:to-reverting-contract"),
		s.txTransferA(2, okC, cT, "s:0", "transfer:zero-to-contract"),
		s.txTransferA(5, 2, cT, "s:1", "transfer:non-holder"),
		s.txTransferA(2, 5, idN, "s:1", "transfer:nft"),
		s.txTransferA(4, 5, idD, "s:0", "transfer:nondiv-zero"),
		s.txTransferA(2, 5, cT, "s:10", "transfer:plain"),
		s.txTransferA(2, 5, cT, "s:abc", "transfer:unparsable"),
		s.txTransferA(2, 5, cT, "s:+5", "transfer:plus-sign"),
		s.txTransferA(2, 5, cT, "s:0x15", "transfer:hex-looking"),
		s.txTransferA(2, 5, cT, "s:007", "transfer:leading-zeros"),
		s.txTransferA(4, 6, idC, "s:-20", "transfer:negative-to-non-holder"),
		s.txTransferA(4, 4, idC, "s:-20", "transfer:negative-self"),
	})
	if s.stop {
		return
	}
	// --- block D: onward transfers by accounts that hold equity only through a transfer; negative burn; non-divisible
	s.runBlock([]*c12Tx{
		s.txTransferA(5, 6, idN, "s:1", "transfer:onward-nft"),
		s.txTransferA(5, 6, cT, "s:5", "transfer:onward-token"),
		s.txTransferA(2, 0, cT, "s:-7", "transfer:negative-burn"),
		s.txTransferA(2, 0, cT, "s:-100000", "transfer:negative-burn-huge"),
		s.txTransferA(4, 5, idD, "s:-3", "transfer:nondiv-negative"),
		s.txTransferA(2, 3, idN, "s:1", "transfer:nft-spent"),
		s.txReplenish(1, 6, cT, cT, "s:30", "replenish:token"),
		s.txReplenish(2, 4, cC, idC, "s:25", "replenish:common"),
		s.txReplenish(2, 4, cC, idC, "s:-25", "replenish:negative"),
		s.txReplenish(2, 4, cC, idC, "s:0", "replenish:zero"),
		s.txReplenish(4, 4, cT, cT, "s:999", "replenish:non-issuer"),
		s.txReplenish(3, 5, cT2, cT2, "s:10", "replenish:non-replenishable"),
		s.txReplenish(2, 4, cD, idD, "s:10", "replenish:non-divisible"),
		s.txReplenish(1, 2, cN, idN, "s:10", "replenish:nft"),
		s.txReplenish(2, 5, cC, cT, "s:10", "replenish:code-mismatch"),
		s.txModify(1, cT, "-", "modify:other-key"),
		s.txModify(4, cT, "true", "modify:non-issuer"),
		s.txModify(1, cT, "none", "modify:empty"),
	})
	if s.stop {
		return
	}
	// --- block E: freeze T (and in the same block: effects on later txs of the block)
	s.runBlock([]*c12Tx{
		s.txTransferA(3, 2, cT, "s:1", "transfer:before-freeze-same-block"),
		s.txModify(1, cT, "true", "modify:freeze"),
		s.txTransferA(3, 2, cT, "s:1", "transfer:after-freeze-same-block"),
		s.txModify(2, cC, "TRUE", "modify:freeze-uppercase"),
	})
	if s.stop {
		return
	}
	// --- block F: T frozen
	s.runBlock([]*c12Tx{
		s.txTransferA(3, 2, cT, "s:1", "transfer:frozen"),
		s.txTransferA(3, 0, cT, "s:1", "transfer:frozen-burn"),
		s.txTransferA(3, 2, cT, "s:-1", "transfer:frozen-negative"),
		s.txIssue(1, 2, cT, "s:5", 0, "issue:frozen"),
		s.txReplenish(1, 2, cT, cT, "s:5", "replenish:frozen"),
		s.txTransferA(4, 5, idC, "s:5", "transfer:uppercase-freeze-is-no-freeze"),
	})
	if s.stop {
		return
	}
	// --- block G: unfreeze; foreign asset id: the issuer of X replenishes X under the id of T to account 6's neighbour
	//     (account 5 holds T only by transfer, account 6 got T by replenish). Use a fresh account-free path: user 4 itself holds no T.
	s.runBlock([]*c12Tx{
		s.txModify(1, cT, "false", "modify:unfreeze"),
		s.txReplenish(4, 4, cX, cT, "s:1000000", "replenish:foreign-id"),
		s.txReplenish(4, 6, cX, cT, "s:5", "replenish:foreign-id-holder-of-other-code"),
	})
	if s.stop {
		return
	}
	// --- block H: the issuer of T issues 1 T to account 4, which pre-positioned 1000000 X under T's id
	s.runBlock([]*c12Tx{
		s.txTransferA(2, 4, cT, "s:2", "transfer:into-foreign-entry"),
		s.txIssue(1, 4, cT, "s:1", 4, "issue:onto-foreign-entry"),
	})
	if s.stop {
		return
	}
	// --- block I: the counterfeit is spendable; replenish under the hash of a future issue tx
	fut := s.txIssue(2, 5, cC, "s:8", 0, "issue:onto-replenished-future-hash")
	s.runBlock([]*c12Tx{
		s.txTransferA(4, 3, cT, "s:500000", "transfer:counterfeit"),
		s.txReplenish(2, 5, cC, s.hashes[fut.h2], "s:30", "replenish:future-issue-hash"),
	})
	if s.stop {
		return
	}
	// the issue tx signed before the previous block (expiration = its creation time + 600 s: still valid)
	s.runBlock([]*c12Tx{fut})
	if s.stop {
		return
	}
	// --- blocks K, L: a frozen asset moves: 50 X parked under T's id in account 5... (account 5 already holds T, so use
	//     the fresh id of asset C: account 6 holds nothing under idC) ; X is frozen ; a holder of C sends 10 to account 6
	s.runBlock([]*c12Tx{s.txReplenish(4, 6, cX, idC, "s:50", "replenish:foreign-id-then-freeze")})
	if s.stop {
		return
	}
	s.runBlock([]*c12Tx{s.txModify(4, cX, "true", "modify:freeze-attacker-asset")})
	if s.stop {
		return
	}
	s.runBlock([]*c12Tx{s.txTransferA(4, 6, idC, "s:10", "transfer:into-frozen-foreign-entry")})
}

// ---- random blocks ---------------------------------------------------------------------------

var c12BadAmounts = []string{"s:0", "s:", "s:-0", "s:+5", "s:-60", "s:-1", "s:007", "s:0x15", "s:0x-5", "s:0X10", "s:0x+7", "s:1e3", "s:12a",
	"s:0x", "s:-", "s:+", "s:1_000", "s:--5", "s:+-5", "s:5.0", "s:0x1f", "s:-0x5", "n:5", "n:-5", "missing",
	"s:115792089237316195423570985008687907853269984665640564039457584007913129639936",
	"s:-115792089237316195423570985008687907853269984665640564039457584007913129639936",
	"s:99999999999999999999999999999999999999999999999999999999999999999999999999999999999999999"}

func (s *c12s) amtTok(max int) string {
	r := s.c.Rnd
	switch r.Intn(10) {
	case 0, 1:
		return c12BadAmounts[r.Intn(len(c12BadAmounts))]
	case 2:
		return fmt.Sprintf("s:-%d", 1+r.Intn(max))
	case 3:
		// random short text over the parser's alphabet
		al := "0123456789+-xX_a."
		n := r.Intn(5)
		var sb strings.Builder
		for i := 0; i < n; i++ {
			sb.WriteByte(al[r.Intn(len(al))])
		}
		return "s:" + sb.String()
	}
	return fmt.Sprintf("s:%d", 1+r.Intn(max))
}

func (s *c12s) createdAssets() []*c12Asset {
	var out []*c12Asset
	for _, a := range s.assets {
		if a.created {
			out = append(out, a)
		}
	}
	return out
}

// held: (holder, id) pairs with positive equity in the last dump; spendable = the holder also has the AssetIdState
func (s *c12s) held(spendable bool) [][2]int {
	var out [][2]int
	for al := range s.addrs {
		for hlab := range s.hashes {
			if e, ok := s.prev.eq[[2]int{al, hlab}]; ok && e.amt.Sign() > 0 && (!spendable || e.idst) {
				out = append(out, [2]int{al, hlab})
			}
		}
	}
	return out
}

func (s *c12s) randomBlock() {
	r := s.c.Rnd
	nt := 1 + r.Intn(6)
	var cands []*c12Tx
	as := s.createdAssets()
	held := s.held(true)
	if len(held) == 0 || r.Intn(6) == 0 {
		held = s.held(false)
	}
	user := func() int { return 1 + r.Intn(s.nUsers) }
	anyAddr := func() int {
		switch r.Intn(8) {
		case 0:
			return 0
		case 1:
			return s.nUsers + 1 + r.Intn(2)
		}
		return user()
	}
	for i := 0; i < nt; i++ {
		k := r.Intn(100)
		switch {
		case k < 8 || len(as) == 0:
			cat := uint32(1 + r.Intn(3))
			div := cat == 1 || (cat == 3 && r.Intn(2) == 0)
			repl := r.Intn(3) > 0
			dec := uint32(r.Intn(19))
			fz := []string{"-", "-", "-", "false", "false", "true", "yes"}[r.Intn(7)]
			if r.Intn(8) == 0 { // invalid shapes
				cat = uint32(r.Intn(6))
				div = r.Intn(2) == 0
				dec = uint32(r.Intn(25))
			}
			cands = append(cands, s.txCreate(user(), cat, div, repl, dec, fz, "rnd:create"))
		case k < 30:
			a := as[r.Intn(len(as))]
			from := a.issuer
			class := "rnd:issue"
			if r.Intn(8) == 0 {
				from = user()
				class = "rnd:issue-any-sender"
			}
			meta := 1 + r.Intn(20)
			if r.Intn(10) == 0 {
				meta = 0
			}
			if r.Intn(25) == 0 {
				meta = 250 + r.Intn(12)
			}
			cands = append(cands, s.txIssue(from, anyAddr(), s.hashes[a.code], s.amtTok(150), meta, class))
		case k < 42:
			a := as[r.Intn(len(as))]
			from := a.issuer
			class := "rnd:replenish"
			if r.Intn(8) == 0 {
				from = user()
				class = "rnd:replenish-any-sender"
			}
			// id: the code itself (cat 1), an issued id, or (rarely) any known hash (foreign / free id)
			id := a.code
			switch {
			case r.Intn(6) == 0 && len(s.hashes) > 1:
				id = 1 + r.Intn(len(s.hashes)-1)
				class = "rnd:replenish-any-id"
			case a.cat != types.TokenAsset && len(s.ids) > 0:
				id = s.ids[r.Intn(len(s.ids))]
			}
			cands = append(cands, s.txReplenish(from, anyAddr(), s.hashes[a.code], s.hashes[id], s.amtTok(150), class))
		case k < 52:
			a := as[r.Intn(len(as))]
			from := a.issuer
			class := "rnd:modify"
			if r.Intn(8) == 0 {
				from = user()
				class = "rnd:modify-any-sender"
			}
			fz := []string{"true", "false", "false", "false", "-", "none", "TRUE", "1", ""}[r.Intn(9)]
			cands = append(cands, s.txModify(from, s.hashes[a.code], fz, class))
		default:
			class := "rnd:transfer"
			var from, id int
			if len(held) > 0 && r.Intn(10) > 0 {
				h := held[r.Intn(len(held))]
				from, id = h[0], h[1]
				if s.keys[from] == nil { // burn address / contract cannot sign
					from = user()
					class = "rnd:transfer-any-sender"
				}
			} else {
				from = user()
				id = r.Intn(len(s.hashes))
				class = "rnd:transfer-any-sender"
			}
			max := 150
			if e, ok := s.prev.eq[[2]int{from, id}]; ok && e.amt.IsInt64() && e.amt.Int64() > 0 && e.amt.Int64() < 1000000 {
				max = int(e.amt.Int64()) + 2
			}
			to := anyAddr()
			if r.Intn(12) == 0 {
				to = from
			}
			cands = append(cands, s.txTransferA(from, to, s.hashes[id], s.amtTok(max), class))
		}
	}
	s.runBlock(cands)
}

var _ = params.OrdinaryTx
var _ = big.NewInt

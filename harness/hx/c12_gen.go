package main

// c12 generators: a scripted prefix that reproduces every anomaly class deterministically, then random blocks.

import (
	"fmt"
	"math/big"
	"strings"

	"github.com/LemoFoundationLtd/lemochain-core/chain/params"
	"github.com/LemoFoundationLtd/lemochain-core/chain/types"
	"github.com/LemoFoundationLtd/lemochain-core/common"
)

func (s *c12s) codeOf(x *c12Tx) common.Hash { return s.hashes[x.h] }

// scriptedFreeze: "frozen assets do not move" for ALL THREE categories, by construction. Issuer 5, holder 6, receiver 3.
// For a token the asset id IS the asset code; for category 2 / 3 the id is the hash of the issue tx, so a freeze lookup keyed by
// the id instead of the code only shows on those. Every category is frozen ("true"), tried (transfer to an account, to a
// contract, to 0x0, issue, replenish — all must be refused), unfrozen by a value that is not "true" (garbage / ""), moved,
// frozen again, tried, unfrozen with "false", moved.
func (s *c12s) scriptedFreeze() {
	okC := 0
	for lab, k := range s.codeKind {
		if k == 1 {
			okC = lab
		}
	}
	type fa struct {
		name string
		cr   *c12Tx
		is   *c12Tx
		div  bool
		repl bool
	}
	as := []*fa{
		{name: "token", cr: s.txCreate(5, 1, true, true, 2, "false", "freeze:create:token"), div: true, repl: true},
		{name: "non-fungible", cr: s.txCreate(5, 2, false, false, 0, "-", "freeze:create:non-fungible")},
		{name: "common-divisible", cr: s.txCreate(5, 3, true, true, 2, "-", "freeze:create:common-divisible"), div: true, repl: true},
		{name: "common-indivisible", cr: s.txCreate(5, 3, false, false, 0, "no", "freeze:create:common-indivisible")},
	}
	born := s.txCreate(5, 3, true, true, 2, "true", "freeze:create:common-frozen-at-birth")
	blk := []*c12Tx{born}
	for _, a := range as {
		blk = append(blk, a.cr)
	}
	s.runBlock(blk)
	if s.stop {
		return
	}
	blk = []*c12Tx{s.txIssue(5, 6, s.codeOf(born), "s:10", 2, "freeze:issue:frozen-at-birth")}
	for _, a := range as {
		amt := "s:100"
		if !a.div {
			amt = "s:5"
		}
		a.is = s.txIssue(5, 6, s.codeOf(a.cr), amt, 2, "freeze:issue:"+a.name)
		blk = append(blk, a.is)
	}
	s.runBlock(blk)
	if s.stop {
		return
	}
	id := func(a *fa) common.Hash {
		if a.name == "token" {
			return s.codeOf(a.cr)
		}
		return s.hashes[a.is.h2]
	}
	tries := func(tag string) []*c12Tx {
		var out []*c12Tx
		for _, a := range as {
			out = append(out,
				s.txTransferA(6, 3, id(a), "s:1", "freeze:"+tag+":transfer-to-account:"+a.name),
				s.txTransferA(6, okC, id(a), "s:1", "freeze:"+tag+":transfer-to-contract:"+a.name),
				s.txTransferA(6, 0, id(a), "s:1", "freeze:"+tag+":burn:"+a.name),
				s.txTransferA(6, 3, id(a), "s:0", "freeze:"+tag+":zero-amount:"+a.name),
				s.txIssue(5, 6, s.codeOf(a.cr), "s:3", 2, "freeze:"+tag+":issue:"+a.name))
			if a.repl {
				out = append(out, s.txReplenish(5, 6, s.codeOf(a.cr), id(a), "s:3", "freeze:"+tag+":replenish:"+a.name))
			}
		}
		return out
	}
	setAll := func(vals []string, tag string) []*c12Tx {
		var out []*c12Tx
		for i, a := range as {
			out = append(out, s.txModify(5, s.codeOf(a.cr), vals[i%len(vals)], "freeze:"+tag+":"+a.name))
		}
		return out
	}
	// freeze; the last tx of the same block already meets the frozen asset
	s.runBlock(append(setAll([]string{"true"}, "set-true"), s.txTransferA(6, 3, id(as[2]), "s:1", "freeze:same-block-after-freeze:common-divisible")))
	if s.stop {
		return
	}
	s.runBlock(tries("frozen"))
	if s.stop {
		return
	}
	// any value other than "true" unfreezes
	s.runBlock(setAll([]string{"TRUE", "yes", "1", ""}, "set-garbage"))
	if s.stop {
		return
	}
	s.runBlock(tries("after-garbage-value"))
	if s.stop {
		return
	}
	s.runBlock(setAll([]string{"true"}, "set-true-again"))
	if s.stop {
		return
	}
	s.runBlock(tries("frozen-again"))
	if s.stop {
		return
	}
	s.runBlock(setAll([]string{"false"}, "set-false"))
	if s.stop {
		return
	}
	s.runBlock(tries("after-false"))
}

// scripted: fixed witnesses (users 1..6; burn = 0; contracts 7 (stops) and 8 (reverts) by codeKind)
func (s *c12s) scripted() {
	okC, revC := 0, 0
	for lab, k := range s.codeKind {
		if k == 1 {
			okC = lab
		}
		if k == 2 {
			revC = lab
		}
	}
	// --- block A: creation, valid and invalid
	T := s.txCreate(1, 1, true, true, 2, "false", "create:token")
	N := s.txCreate(1, 2, false, false, 0, "-", "create:nft")
	C := s.txCreate(2, 3, true, true, 18, "-", "create:common-div")
	D := s.txCreate(2, 3, false, true, 0, "-", "create:common-nondiv")
	T2 := s.txCreate(3, 1, true, false, 2, "False", "create:token-nonrepl")
	F := s.txCreate(3, 1, true, true, 2, "true", "create:frozen-at-birth")
	X := s.txCreate(4, 1, true, true, 2, "-", "create:attacker-token")
	s.bigNext = true
	big := s.txCreate(5, 1, true, true, 2, "-", "create:marshal-too-long")
	s.runBlock([]*c12Tx{T, N, C, D, T2, F, X, big,
		s.txCreate(5, 0, true, true, 2, "-", "create:cat0"),
		s.txCreate(5, 4, true, true, 2, "-", "create:cat4"),
		s.txCreate(5, 1, false, true, 2, "-", "create:token-nondiv"),
		s.txCreate(5, 2, true, false, 2, "-", "create:nft-div"),
		s.txCreate(5, 2, false, true, 2, "-", "create:nft-replenishable"),
		s.txCreate(5, 3, true, true, 19, "-", "create:decimal19"),
		s.txIssue(1, 2, s.codeOf(T), "s:5", 3, "issue:same-block-as-create"),
	})
	if s.stop {
		return
	}
	cT, cN, cC, cD, cT2, cF, cX := s.codeOf(T), s.codeOf(N), s.codeOf(C), s.codeOf(D), s.codeOf(T2), s.codeOf(F), s.codeOf(X)
	// --- block B: issue
	iN := s.txIssue(1, 2, cN, "s:7", 10, "issue:nft")
	iC := s.txIssue(2, 4, cC, "s:50", 1, "issue:common-div")
	iD := s.txIssue(2, 4, cD, "s:9", 2, "issue:common-nondiv")
	iE := s.txIssue(2, 6, cC, "s:11", 0, "issue:empty-metadata")
	s.nilNext = true
	iNil := s.txIssue(1, 0, cT, "s:3", 3, "issue:nil-to")
	unknown := common.HexToHash("0xdead")
	// offered to the miner path right after this block became stable, BEFORE the code->issuer index is waited for (only counted)
	probe := s.txTransferA(2, 3, cT, "s:1", "probe")
	s.runBlockOpt([]*c12Tx{
		iNil,
		s.txIssue(1, 2, cT, "s:100", 3, "issue:token"),
		s.txIssue(1, 3, cT, "s:100", 3, "issue:token"),
		s.txIssue(1, 3, cT, "s:0", 3, "issue:zero"),
		s.txIssue(1, 3, cT, "s:-5", 3, "issue:negative"),
		s.txIssue(1, 3, cT, "s:", 3, "issue:empty-string"),
		s.txIssue(1, 3, cT, "s:abc", 3, "issue:unparsable"),
		s.txIssue(1, 3, cT, "missing", 3, "issue:amount-missing"),
		s.txIssue(1, 3, cT, "s:4", 257, "issue:metadata-too-long"),
		iN, iC, iD, iE,
		s.txIssue(4, 4, cT, "s:1000", 0, "issue:non-issuer"),
		s.txIssue(3, 3, cF, "s:10", 0, "issue:frozen-at-birth"),
		s.txIssue(3, 5, cT2, "s:40", 5, "issue:token-nonrepl"),
		s.txIssue(1, 2, common.Hash{}, "s:5", 0, "issue:zero-code"),
		s.txIssue(1, 2, unknown, "s:5", 0, "issue:unknown-code"),
		s.txTransferA(2, 3, cT, "s:1", "transfer:same-block-as-issue"),
	}, false, probe)
	if s.stop {
		return
	}
	idN, idC, idD, idE := s.hashes[iN.h2], s.hashes[iC.h2], s.hashes[iD.h2], s.hashes[iE.h2]
	// --- blocks B2..B4: the stable block lags behind the parent: asset Y is created in a block that is NOT confirmed;
	//     the next block (built on it, also unconfirmed) cannot issue Y: VerifyAssetTx reads the STABLE state; a token
	//     issued in B (stable) still moves. After the confirmation of B3 everything is stable again.
	Y := s.txCreate(6, 1, true, true, 2, "-", "create:in-unconfirmed-block")
	s.runBlockOpt([]*c12Tx{Y}, true, nil)
	if s.stop {
		return
	}
	s.runBlockOpt([]*c12Tx{
		s.txIssue(6, 6, s.codeOf(Y), "s:5", 3, "issue:asset-created-in-unconfirmed-parent"),
		s.txModify(6, s.codeOf(Y), "true", "modify:asset-created-in-unconfirmed-parent"),
		s.txTransferA(3, 2, cT, "s:1", "transfer:while-stable-lags"),
	}, false, nil)
	if s.stop {
		return
	}
	s.runBlock([]*c12Tx{s.txIssue(6, 6, s.codeOf(Y), "s:5", 3, "issue:after-stable-caught-up")})
	if s.stop {
		return
	}
	// --- block C1: THE witness, alone in its block: Bob (3) sends -60 to Alice (2); both hold 100
	s.runBlock([]*c12Tx{s.txTransferA(3, 2, cT, "s:-60", "transfer:negative-to-holder")})
	if s.stop {
		return
	}
	// --- block C2: the other transfer anomalies
	s.runBlock([]*c12Tx{
		s.txTransferA(6, 5, idE, "s:1", "transfer:issued-with-empty-metadata"),
		s.txTransferA(2, 3, cT, "s:0", "transfer:zero"),
		s.txTransferA(2, 3, cT, "s:1000000", "transfer:oversized"),
		s.txTransferA(2, 2, cT, "s:15", "transfer:self"),
		s.txTransferA(2, 0, cT, "s:10", "transfer:burn"),
		s.txTransferA(2, okC, cT, "s:5", "transfer:to-contract"),
		s.txTransferA(2, revC, cT, "s:5", "transfer:to-reverting-contract"),
		s.txTransferA(2, okC, cT, "s:0", "transfer:zero-to-contract"),
		s.txTransferA(5, 2, cT, "s:1", "transfer:non-holder"),
		s.txTransferA(2, 5, idN, "s:1", "transfer:nft"),
		s.txTransferA(4, 5, idD, "s:0", "transfer:nondiv-zero"),
		s.txTransferA(2, 5, cT, "s:10", "transfer:plain"),
		s.txTransferA(2, 5, cT, "s:abc", "transfer:unparsable"),
		s.txTransferA(2, 5, cT, "s:+5", "transfer:plus-sign"),
		s.txTransferA(2, 5, cT, "s:0x15", "transfer:hex-looking"),
		s.txTransferA(2, 5, cT, "s:007", "transfer:leading-zeros"),
		s.txTransferA(4, 6, idC, "s:-20", "transfer:negative-to-non-holder"),
		s.txTransferA(4, 4, idC, "s:-20", "transfer:negative-self"),
		s.txTransferA(2, 5, cT, "s:\\u002d60", "transfer:escaped-minus"),
		s.txTransferA(2, 5, cT, "s:\\u0036", "transfer:escaped-digit"),
		s.nilTo().txTransferA(2, 0, cT, "s:1", "transfer:nil-to-burns"),
		s.txTransferA(2, 3, common.Hash{}, "s:1", "transfer:zero-id"),
	})
	if s.stop {
		return
	}
	// --- block C3: boxes: a box of two valid asset txs (the issue's id is the SUB tx's hash); a box whose second
	//     sub-tx fails (the whole box is discarded, the first sub-tx's effect with it); a box whose sub-txs feed each other
	s.runBlock([]*c12Tx{
		s.txBoxOf(6, []*c12Tx{s.txTransferA(3, 2, cT, "s:2", "box:transfer"), s.txIssue(2, 6, cC, "s:4", 2, "box:issue-common")}, "box:two-valid"),
		s.txBoxOf(6, []*c12Tx{s.txTransferA(3, 2, cT, "s:1", "box:transfer"), s.txTransferA(3, 2, cT, "s:999999", "box:oversized")}, "box:second-sub-fails"),
		s.txBoxOf(5, []*c12Tx{s.txIssue(1, 3, cT, "s:7", 1, "box:issue-token"), s.txTransferA(3, 0, cT, "s:7", "box:burn-what-was-issued")}, "box:issue-then-burn"),
		s.txBoxOf(5, []*c12Tx{s.txTransferA(3, 2, cT, "s:-1", "box:negative")}, "box:negative-amount"),
	})
	if s.stop {
		return
	}
	// --- block D: onward transfers by accounts that hold equity only through a transfer; negative burn; non-divisible
	s.runBlock([]*c12Tx{
		s.txTransferA(5, 6, idN, "s:1", "transfer:onward-nft"),
		s.txTransferA(5, 6, cT, "s:5", "transfer:onward-token"),
		s.txTransferA(2, 0, cT, "s:-7", "transfer:negative-burn"),
		s.txTransferA(2, 0, cT, "s:-100000", "transfer:negative-burn-huge"),
		s.txTransferA(4, 5, idD, "s:-3", "transfer:nondiv-negative"),
		s.txTransferA(2, 3, idN, "s:1", "transfer:nft-spent"),
		s.txReplenish(1, 6, cT, cT, "s:30", "replenish:token"),
		s.txReplenish(2, 4, cC, idC, "s:25", "replenish:common"),
		s.txReplenish(2, 4, cC, idC, "s:-25", "replenish:negative"),
		s.txReplenish(2, 4, cC, idC, "s:0", "replenish:zero"),
		s.txReplenish(4, 4, cT, cT, "s:999", "replenish:non-issuer"),
		s.txReplenish(3, 5, cT2, cT2, "s:10", "replenish:non-replenishable"),
		s.txReplenish(2, 4, cD, idD, "s:10", "replenish:non-divisible"),
		s.txReplenish(1, 2, cN, idN, "s:10", "replenish:nft"),
		s.txReplenish(2, 5, cC, cT, "s:10", "replenish:code-mismatch"),
		s.txModify(1, cT, "-", "modify:other-key"),
		s.txModify(4, cT, "true", "modify:non-issuer"),
		s.txModify(1, cT, "none", "modify:empty"),
		s.txModify(1, cT, "big", "modify:freeze-with-oversized-description"),
		s.txReplenish(1, 2, common.Hash{}, cT, "s:5", "replenish:zero-code"),
		s.txReplenish(1, 2, unknown, cT, "s:5", "replenish:unknown-code"),
		s.txModify(1, common.Hash{}, "true", "modify:zero-code"),
		s.txModify(1, unknown, "true", "modify:unknown-code"),
		s.txReplenish(2, 4, cC, cC, "s:6", "replenish:own-code-as-id"),
	})
	if s.stop {
		return
	}
	// --- block E: freeze T (and in the same block: effects on later txs of the block)
	s.runBlock([]*c12Tx{
		s.txTransferA(3, 2, cT, "s:1", "transfer:before-freeze-same-block"),
		s.txModify(1, cT, "true", "modify:freeze"),
		s.txTransferA(3, 2, cT, "s:1", "transfer:after-freeze-same-block"),
		s.txModify(2, cC, "TRUE", "modify:freeze-uppercase"),
	})
	if s.stop {
		return
	}
	// --- block F: T frozen
	s.runBlock([]*c12Tx{
		s.txTransferA(3, 2, cT, "s:1", "transfer:frozen"),
		s.txTransferA(3, 0, cT, "s:1", "transfer:frozen-burn"),
		s.txTransferA(3, 2, cT, "s:-1", "transfer:frozen-negative"),
		s.txIssue(1, 2, cT, "s:5", 0, "issue:frozen"),
		s.txReplenish(1, 2, cT, cT, "s:5", "replenish:frozen"),
		s.txTransferA(4, 5, idC, "s:5", "transfer:uppercase-freeze-is-no-freeze"),
	})
	if s.stop {
		return
	}
	// --- block G: unfreeze
	s.runBlock([]*c12Tx{s.txModify(1, cT, "false", "modify:unfreeze")})
	if s.stop || s.clean {
		return
	}
	// ======== from here on: the foreign-asset-id witnesses (NOT in clean episodes) ========
	// --- block G2: the issuer of X replenishes X under the id of T to itself (user 4 holds no T)
	s.runBlock([]*c12Tx{
		s.txReplenish(4, 4, cX, cT, "s:1000000", "replenish:foreign-id"),
		s.txReplenish(4, 6, cX, cT, "s:5", "replenish:foreign-id-holder-of-other-code"),
		s.txReplenish(2, 4, cC, common.Hash{}, "s:6", "replenish:zero-id"),
	})
	if s.stop {
		return
	}
	// --- block H: the issuer of T issues 1 T to account 4, which pre-positioned 1000000 X under T's id
	s.runBlock([]*c12Tx{
		s.txTransferA(2, 4, cT, "s:2", "transfer:into-foreign-entry"),
		s.txIssue(1, 4, cT, "s:1", 4, "issue:onto-foreign-entry"),
	})
	if s.stop {
		return
	}
	// --- block I: the counterfeit is spendable; replenish under the hash of a future issue tx
	fut := s.txIssue(2, 5, cC, "s:8", 0, "issue:onto-replenished-future-hash")
	s.runBlock([]*c12Tx{
		s.txTransferA(4, 3, cT, "s:500000", "transfer:counterfeit"),
		s.txReplenish(2, 5, cC, s.hashes[fut.h2], "s:30", "replenish:future-issue-hash"),
	})
	if s.stop {
		return
	}
	// the issue tx signed before the previous block (expiration = its creation time + 600 s: still valid)
	s.runBlock([]*c12Tx{fut})
	if s.stop {
		return
	}
	// --- blocks K, L: a frozen asset moves: 50 X parked under the id of asset C in account 6; X is frozen; a holder of C
	//     sends 10 to account 6
	s.runBlock([]*c12Tx{s.txReplenish(4, 6, cX, idC, "s:50", "replenish:foreign-id-then-freeze")})
	if s.stop {
		return
	}
	s.runBlock([]*c12Tx{s.txModify(4, cX, "true", "modify:freeze-attacker-asset")})
	if s.stop {
		return
	}
	s.runBlock([]*c12Tx{s.txTransferA(4, 6, idC, "s:10", "transfer:into-frozen-foreign-entry")})
}

func (s *c12s) nilTo() *c12s { s.nilNext = true; return s }

// ---- random blocks ---------------------------------------------------------------------------

var c12BadAmounts = []string{"s:0", "s:", "s:-0", "s:+5", "s:-60", "s:-1", "s:007", "s:0x15", "s:0x-5", "s:0X10", "s:0x+7", "s:1e3", "s:12a",
	"s:\\u002d60", "s:\\u0036\\u0030", "s:0x", "s:-", "s:+", "s:1_000", "s:--5", "s:+-5", "s:5.0", "s:0x1f", "s:-0x5", "n:5", "n:-5", "missing",
	"s:115792089237316195423570985008687907853269984665640564039457584007913129639936",
	"s:-115792089237316195423570985008687907853269984665640564039457584007913129639936",
	"s:99999999999999999999999999999999999999999999999999999999999999999999999999999999999999999"}

func (s *c12s) amtTok(max int) string {
	r := s.c.Rnd
	switch r.Intn(10) {
	case 0, 1:
		return c12BadAmounts[r.Intn(len(c12BadAmounts))]
	case 2:
		return fmt.Sprintf("s:-%d", 1+r.Intn(max))
	case 3:
		// random short text over the parser's alphabet
		al := "0123456789+-xX_a."
		n := r.Intn(5)
		var sb strings.Builder
		for i := 0; i < n; i++ {
			sb.WriteByte(al[r.Intn(len(al))])
		}
		return "s:" + sb.String()
	}
	return fmt.Sprintf("s:%d", 1+r.Intn(max))
}

func (s *c12s) createdAssets() []*c12Asset {
	var out []*c12Asset
	for _, a := range s.assets {
		if a.created {
			out = append(out, a)
		}
	}
	return out
}

// held: (holder, id) pairs with positive equity in the last dump; spendable = the holder also has the AssetIdState
func (s *c12s) held(spendable bool) [][2]int {
	var out [][2]int
	for al := range s.addrs {
		for hlab := range s.hashes {
			if e, ok := s.prev.eq[[2]int{al, hlab}]; ok && e.amt.Sign() > 0 && (!spendable || e.idst) {
				out = append(out, [2]int{al, hlab})
			}
		}
	}
	return out
}

func (s *c12s) randomBlock() {
	r := s.c.Rnd
	nt := 1 + r.Intn(6)
	var cands []*c12Tx
	for i := 0; i < nt; i++ {
		if r.Intn(16) == 0 {
			ns := 1 + r.Intn(3)
			var subs []*c12Tx
			for j := 0; j < ns; j++ {
				x := s.genOne()
				// no create inside a box (never indexed by the store: its equity could never move) and no modify that
				// introduces a profile key (a failing box would leave the key behind): engine defects outside C12, see epilogue
				for tries := 0; (x.kind == "create" || s.introducesKey(x)) && tries < 20; tries++ {
					s.c.Count("gen:box-sub-avoided:" + x.kind)
					x = s.genOne()
				}
				if x.kind == "create" || s.introducesKey(x) {
					x = s.txTransferA(1, 2, common.Hash{}, "s:1", "rnd:filler")
				}
				x.class = "box-sub:" + x.class
				subs = append(subs, x)
			}
			cands = append(cands, s.txBoxOf(1+r.Intn(s.nUsers), subs, "rnd:box"))
			continue
		}
		cands = append(cands, s.genOne())
	}
	// now and then a block is left unconfirmed: the stable block lags behind the parent (at most two blocks)
	lag := s.unconf < 2 && r.Intn(6) == 0
	s.runBlockOpt(cands, lag, nil)
}

// nativeIDs: issued ids that belong to asset code `code`
func (s *c12s) nativeIDs(code int) []int {
	var out []int
	for _, id := range s.ids {
		if s.native[id] == code {
			out = append(out, id)
		}
	}
	return out
}

func (s *c12s) genOne() *c12Tx {
	r := s.c.Rnd
	as := s.createdAssets()
	held := s.held(true)
	if len(held) == 0 || r.Intn(6) == 0 {
		held = s.held(false)
	}
	user := func() int { return 1 + r.Intn(s.nUsers) }
	anyAddr := func() int {
		switch r.Intn(9) {
		case 0:
			return 0
		case 1:
			return s.nUsers + 1 + r.Intn(2)
		case 2:
			if r.Intn(2) == 0 {
				s.nilNext = true // no To field at all: the engine uses the zero address
				return 0
			}
		}
		return user()
	}
	// the asset code a tx names: now and then the zero hash or a hash that names no asset
	codeOf := func(a *c12Asset) common.Hash {
		switch r.Intn(30) {
		case 0:
			return common.Hash{}
		case 1:
			return common.HexToHash("0xdead")
		}
		return s.hashes[a.code]
	}
	k := r.Intn(100)
	switch {
	case k < 8 || len(as) == 0:
		cat := uint32(1 + r.Intn(3))
		div := cat == 1 || (cat == 3 && r.Intn(2) == 0)
		repl := r.Intn(3) > 0
		dec := uint32(r.Intn(19))
		fz := []string{"-", "-", "-", "false", "false", "true", "yes"}[r.Intn(7)]
		if r.Intn(8) == 0 { // invalid shapes
			cat = uint32(r.Intn(6))
			div = r.Intn(2) == 0
			dec = uint32(r.Intn(25))
		}
		s.bigNext = r.Intn(12) == 0
		return s.txCreate(user(), cat, div, repl, dec, fz, "rnd:create")
	case k < 30:
		a := as[r.Intn(len(as))]
		from := a.issuer
		class := "rnd:issue"
		if r.Intn(8) == 0 {
			from = user()
			class = "rnd:issue-any-sender"
		}
		meta := 1 + r.Intn(20)
		if r.Intn(10) == 0 {
			meta = 0
		}
		if r.Intn(25) == 0 {
			meta = 250 + r.Intn(12)
		}
		return s.txIssue(from, anyAddr(), codeOf(a), s.amtTok(150), meta, class)
	case k < 42:
		a := as[r.Intn(len(as))]
		from := a.issuer
		class := "rnd:replenish"
		if r.Intn(8) == 0 {
			from = user()
			class = "rnd:replenish-any-sender"
		}
		// id: the code itself, or an id issued under this code; in episodes with foreign-id inputs (rarely) any known hash
		id := a.code
		if nat := s.nativeIDs(a.code); a.cat != types.TokenAsset && len(nat) > 0 && r.Intn(4) > 0 {
			id = nat[r.Intn(len(nat))]
		}
		code := codeOf(a)
		if !s.clean && r.Intn(6) == 0 {
			id = r.Intn(len(s.hashes))
			class = "rnd:replenish-any-id"
		} else if code != s.hashes[a.code] {
			id = s.hl(code) // zero / unknown code: keep id = code, so that nothing foreign is named
		}
		return s.txReplenish(from, anyAddr(), code, s.hashes[id], s.amtTok(150), class)
	case k < 52:
		a := as[r.Intn(len(as))]
		from := a.issuer
		class := "rnd:modify"
		if r.Intn(8) == 0 {
			from = user()
			class = "rnd:modify-any-sender"
		}
		fz := []string{"true", "false", "false", "false", "-", "none", "TRUE", "1", "", "big"}[r.Intn(10)]
		code := codeOf(a)
		if fz == "big" && code == s.hashes[a.code] && !(a.keys[types.AssetFreeze] && a.keys[types.AssetDescription]) {
			// an oversized update that would introduce a key: the revert leaves the key behind (engine defect outside C12)
			s.c.Count("gen:oversized-modify-avoided-on-asset-without-the-keys")
			fz = "-"
		}
		return s.txModify(from, code, fz, class)
	}
	class := "rnd:transfer"
	var from, id int
	// now and then a holding of an asset that is frozen by the generator's own records (all categories)
	var heldFrozen [][2]int
	for _, h := range s.held(true) {
		if code, ok := s.gtCode(h[1]); ok {
			if a := s.asset(code); a != nil && a.frozen && s.keys[h[0]] != nil {
				heldFrozen = append(heldFrozen, h)
			}
		}
	}
	if len(heldFrozen) > 0 && r.Intn(5) == 0 {
		h := heldFrozen[r.Intn(len(heldFrozen))]
		from, id = h[0], h[1]
		class = "rnd:transfer-of-frozen"
	} else if len(held) > 0 && r.Intn(10) > 0 {
		h := held[r.Intn(len(held))]
		from, id = h[0], h[1]
		if s.keys[from] == nil { // burn address / contract cannot sign
			from = user()
			class = "rnd:transfer-any-sender"
		}
	} else {
		from = user()
		id = r.Intn(len(s.hashes))
		class = "rnd:transfer-any-sender"
	}
	max := 150
	if e, ok := s.prev.eq[[2]int{from, id}]; ok && e.amt.IsInt64() && e.amt.Int64() > 0 && e.amt.Int64() < 1000000 {
		max = int(e.amt.Int64()) + 2
	}
	to := anyAddr()
	if r.Intn(12) == 0 {
		s.nilNext = false
		to = from
	}
	return s.txTransferA(from, to, s.hashes[id], s.amtTok(max), class)
}

var _ = params.OrdinaryTx
var _ = big.NewInt

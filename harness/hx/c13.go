package main

import (
	"fmt"
	"math/big"

	"github.com/LemoFoundationLtd/lemochain-core/chain/consensus"
	"github.com/LemoFoundationLtd/lemochain-core/chain/deputynode"
	"github.com/LemoFoundationLtd/lemochain-core/chain/miner"
	"github.com/LemoFoundationLtd/lemochain-core/chain/params"
	"github.com/LemoFoundationLtd/lemochain-core/chain/types"
	"github.com/LemoFoundationLtd/lemochain-core/common"
	"github.com/LemoFoundationLtd/lemochain-core/store"
)

func init() { subs["c13"] = c13 }

type noBlocks struct{}

func (noBlocks) GetBlockByHeight(height uint32) (*types.Block, error) {
	return nil, store.ErrBlockNotExist
}

func mkDeputies(n int, base int) types.DeputyNodes {
	var ds types.DeputyNodes
	for i := 0; i < n; i++ {
		ds = append(ds, &types.DeputyNode{
			MinerAddress: common.BigToAddress(big.NewInt(int64(base + i))),
			NodeID:       []byte{byte(base >> 8), byte(base), byte(i)},
			Rank:         uint32(i),
			Votes:        big.NewInt(int64(1000 - i)),
		})
	}
	return ds
}

func addrsOf(ds types.DeputyNodes) []string {
	var l []string
	for _, d := range ds {
		l = append(l, new(big.Int).SetBytes(d.MinerAddress[:]).String())
	}
	return l
}

func resDeputy(d *types.DeputyNode, err error) string {
	if err != nil {
		if err == deputynode.ErrNotDeputy {
			return "err ErrNotDeputy"
		}
		return "err " + err.Error()
	}
	return fmt.Sprintf("ok %d", d.Rank)
}

// c13: real scheduling functions vs. the generated/hand model, plus the direct
// oracle "a block stamped inside my own window is accepted as mine".
func c13(c *Ctx) {
	params.TermDuration = 10
	params.InterimDuration = 3
	defer func() { params.TermDuration = 1000000; params.InterimDuration = 1000 }()
	maxN := 7
	if c.Tier == "thorough" {
		maxN = 12
	}
	c.Op(fmt.Sprintf("params %d %d", params.TermDuration, params.InterimDuration), "ok")
	// term 0: deputies 100.., term 1: deputies 200.. (first `shared` of them reuse term-0 addresses)
	heights := []uint32{1, 2, 5, 13, 14, 15, 20, 24, 25}
	// Go's integer-division panics: a term without deputies (nothing loaded for the height) and a zero timeout.
	// The stamp checks come first: only stamps that pass both reach the division.
	{
		dm0 := deputynode.NewManager(5, noBlocks{})
		dm3 := deputynode.NewManager(5, noBlocks{})
		dm3.SaveSnapshot(0, mkDeputies(3, 100))
		for i := 0; i < 24; i++ {
			pts := uint32(20000000 + c.Rnd.Intn(1000000))
			mt := int64(pts)*1000 + int64(c.Rnd.Intn(50000))
			switch c.Rnd.Intn(4) {
			case 0:
				mt = int64(c.Rnd.Intn(1000000)) // below 1e10: error before the division
			case 1:
				mt = int64(pts)*1000 - 1 - int64(c.Rnd.Intn(5000)) // before the parent: error before the division
			}
			n, T, dm := 0, int64(1000*(1+c.Rnd.Intn(20))), dm0
			if i%2 == 1 {
				n, T, dm = 3, 0, dm3
			}
			hdr := &types.Header{Height: 4, Time: pts, MinerAddress: common.BigToAddress(big.NewInt(100))}
			out := Safe(func() string {
				a, err := consensus.GetCorrectMiner(hdr, mt, T, dm)
				if err == consensus.ErrSmallerMineTime {
					return "err ErrSmallerMineTime"
				}
				if err == deputynode.ErrNotDeputy {
					return "err ErrNotDeputy"
				}
				if err != nil {
					return "err " + err.Error()
				}
				return fmt.Sprintf("ok %v", a == common.Address{})
			})
			c.Op(fmt.Sprintf("cm %d false 0 %d 4 %d %d", n, pts, mt, T), out)
			c.Count(fmt.Sprintf("cm-zero-round:n=%d:T0=%v:%s", n, T == 0, firstWord(out)))
		}
	}
	iter := 0
	for iter < c.N {
		n0 := 1 + c.Rnd.Intn(maxN)
		n1 := 1 + c.Rnd.Intn(maxN)
		// seats: usually more than any term has nodes; one case in four fewer, so that the list is cut to the seats
		seats := maxN + 5
		if c.Rnd.Intn(4) == 0 {
			seats = 1 + c.Rnd.Intn(maxN)
			c.Count("manager:fewer-seats-than-nodes-possible")
		}
		dm := deputynode.NewManager(seats, noBlocks{})
		t0 := mkDeputies(n0, 100)
		t1 := mkDeputies(n1, 200)
		// share some members between terms, at different ranks
		if c.Rnd.Intn(2) == 0 {
			for i := 0; i < n1 && i < n0; i++ {
				if c.Rnd.Intn(2) == 0 {
					t1[i].MinerAddress = t0[(i+1)%n0].MinerAddress
				}
			}
			// keep addresses unique inside t1
			seen := map[common.Address]bool{}
			for i, d := range t1 {
				if seen[d.MinerAddress] {
					d.MinerAddress = common.BigToAddress(big.NewInt(int64(300 + i)))
				}
				seen[d.MinerAddress] = true
			}
		}
		dm.SaveSnapshot(0, t0)
		dm.SaveSnapshot(10, t1)
		dm.SaveSnapshot(20, t0)
		for rep := 0; rep < 12 && iter < c.N; rep++ {
			iter++
			h := heights[c.Rnd.Intn(len(heights))]
			// GROUND TRUTH by construction (harness constants T=10, I=3, not deputynode.*): heights 1..13 are signed by the
			// list snapshotted at 0, 14..23 by the one snapshotted at 10, 24..33 by the one snapshotted at 20; the first
			// height of a list (and height 1) restarts the rotation. The manager's answers are compared with it, and the
			// op lines below carry the constructed values, so a change of the term selection cannot blind the model.
			wantDeps, wantSpecial := t0, h == 1 || h == 14 || h == 24
			if h >= 14 && h <= 23 {
				wantDeps = t1
			}
			if len(wantDeps) > seats {
				wantDeps = wantDeps[:seats]
				c.Count("manager:list-cut-to-seats")
			}
			got := dm.GetDeputiesByHeight(h, true)
			same := len(got) == len(wantDeps)
			for i := 0; same && i < len(got); i++ {
				same = got[i].MinerAddress == wantDeps[i].MinerAddress && got[i].Rank == uint32(i)
			}
			if !same || dm.GetDeputiesCount(h) != len(wantDeps) {
				c.Fail("c13/fed-fact/term", fmt.Sprintf("height %d (T=10, I=3, %d seats, terms of %d / %d / %d nodes snapshotted at 0 / 10 / 20): GetDeputiesByHeight returns %d deputies %v, the list that governs the height by construction has %d", h, seats, n0, n1, n0, len(got), addrsOf(got), len(wantDeps)), nil)
			}
			if sp := h == 1 || deputynode.IsRewardBlock(h); sp != wantSpecial {
				c.Fail("c13/fed-fact/special", fmt.Sprintf("height %d (T=10, I=3): IsRewardBlock says %v, by construction the rotation restarts here: %v", h, deputynode.IsRewardBlock(h), wantSpecial), nil)
			}
			deps := wantDeps
			n := len(deps)
			special := wantSpecial
			c.Op(fmt.Sprintf("special %d", h), fmt.Sprintf("%v", h == 1 || deputynode.IsRewardBlock(h)))
			rankOf := func(a common.Address) int {
				for _, d := range deps {
					if d.MinerAddress == a {
						return int(d.Rank)
					}
				}
				return -1
			}
			// parent miner: a deputy of this height, or one of the other term, or an outsider
			var parent common.Address
			switch c.Rnd.Intn(6) {
			case 0:
				parent = common.BigToAddress(big.NewInt(999))
			case 1:
				parent = t1[c.Rnd.Intn(n1)].MinerAddress
			case 2:
				parent = t0[c.Rnd.Intn(n0)].MinerAddress
			default:
				parent = deps[c.Rnd.Intn(n)].MinerAddress
			}
			pr := rankOf(parent)
			T := int64(1000 * (1 + c.Rnd.Intn(20)))
			if c.Rnd.Intn(5) == 0 {
				T = int64(1 + c.Rnd.Intn(30000)) // not whole seconds
			}
			pts := uint32(20000000 + c.Rnd.Intn(1000000))
			pt := int64(pts) * 1000
			// elapsed: around slot boundaries, several rounds
			k := int64(c.Rnd.Intn(4*n + 2))
			if c.Rnd.Intn(6) == 0 {
				// a long outage: the parent is weeks, months or years old (a halted chain restarting, a stale genesis). The elapsed time in
				// milliseconds passes 2^31, 2^32 and multiples of it: any narrowing of the elapsed time to 32 bits on one side only
				// (verifier vs miner window) shows here and nowhere near the parent
				base := []int64{1 << 31, 1 << 32, 2 << 32, 3<<32 + 12345, 7 << 32, 400 * 86400000, 1<<32 - 1, 1<<31 - 1}[c.Rnd.Intn(8)]
				k = base/T + int64(c.Rnd.Intn(4*n+2)) - int64(2*n)
				if k < 0 {
					k = 0
				}
				c.Count("elapsed=long-outage")
			}
			delta := []int64{0, 1, -1, T / 2, T - 1}[c.Rnd.Intn(5)]
			now := pt + k*T + delta
			if c.Rnd.Intn(10) == 0 {
				now = pt - int64(c.Rnd.Intn(5000)) // clock behind the parent stamp
			}
			parentHdr := &types.Header{Height: h - 1, Time: pts, MinerAddress: parent}
			c.Count(fmt.Sprintf("n=%d", n))
			c.Count(fmt.Sprintf("special=%v", special))
			if pr < 0 {
				c.Count("parent=outsider")
			} else {
				c.Count("parent=deputy")
			}

			// (1) GetCorrectMiner at `now`
			mt := now
			out := Safe(func() string {
				a, err := consensus.GetCorrectMiner(parentHdr, mt, T, dm)
				if err != nil {
					if err == consensus.ErrSmallerMineTime {
						return "err ErrSmallerMineTime"
					}
					if err == deputynode.ErrNotDeputy {
						return "err ErrNotDeputy"
					}
					return "err " + err.Error()
				}
				return fmt.Sprintf("ok %d", rankOf(a))
			})
			c.Op(fmt.Sprintf("cm %d %v %d %d %d %d %d", n, special, pr, pts, h-1, mt, T), out)
			c.Count("cm:" + firstWord(out))

			// (2) every target deputy: distance, inverse, window, acceptance inside the window
			for me := 0; me < n; me++ {
				target := deps[me].MinerAddress
				var d uint32
				out := Safe(func() string {
					var err error
					d, err = dm.GetMinerDistance(h, parent, target)
					if err != nil {
						if err == deputynode.ErrNotDeputy {
							return "err ErrNotDeputy"
						}
						return "err " + err.Error()
					}
					return fmt.Sprintf("ok %d", d)
				})
				c.Op(fmt.Sprintf("md %d %v %d %d", n, special, pr, me), out)
				c.Count("md:" + firstWord(out))
				if firstWord(out) != "ok" {
					if special || pr >= 0 {
						c.Fail("c13/distance-error", fmt.Sprintf("GetMinerDistance failed for a deputy: h=%d n=%d pr=%d me=%d: %s", h, n, pr, me, out), nil)
					}
					continue
				}
				if d < 1 || int(d) > n {
					c.Fail("c13/distance-range", fmt.Sprintf("distance %d outside 1..%d", d, n), nil)
				}
				out = Safe(func() string { return resDeputy(dm.GetDeputyByDistance(h, parent, d)) })
				c.Op(fmt.Sprintf("dd %d %v %d %d", n, special, pr, d), out)
				if out != fmt.Sprintf("ok %d", me) {
					c.Fail("c13/distance-inverse", fmt.Sprintf("GetDeputyByDistance(GetMinerDistance(me)) != me: h=%d n=%d pr=%d me=%d d=%d got %s", h, n, pr, me, d, out), nil)
				}
				from, to := consensus.GetNextMineWindow(h, d, pt, now, T, dm)
				c.Op(fmt.Sprintf("win %d %d %d %d %d", n, d, pt, now, T), fmt.Sprintf("%d %d", from, to))
				// miner.getSleepTime: wake-up instant and deadline
				bi := int64(c.Rnd.Intn(int(T)))
				if c.Rnd.Intn(8) == 0 {
					bi = T + int64(c.Rnd.Intn(2000)) // misconfigured: interval not shorter than the slot
				}
				mn := miner.New(miner.MineConfig{SleepTime: bi, Timeout: T, ReservedPropagationTime: 0}, nil, dm, nil)
				wait, dl := mn.VerifGetSleepTime(h, d, pt, now)
				c.Op(fmt.Sprintf("sleep %d %d %d %d %d %d", n, d, pt, now, T, bi), fmt.Sprintf("%d %d", wait, dl))
				if bi < T {
					wake := now + wait
					if wait < 0 || dl != to || wake < from || wake >= to {
						c.Fail("c13/sleep-outside-window", fmt.Sprintf("getSleepTime wakes at %d (wait %d, deadline %d) but the window is [%d,%d): n=%d d=%d pt=%d now=%d T=%d interval=%d", wake, wait, dl, from, to, n, d, pt, now, T, bi), nil)
					}
					c.Count("sleep:checked")
				} else {
					c.Count("sleep:misconfigured-interval")
				}
				if !(now < to) || to-from != T || from < pt {
					c.Fail("c13/window-shape", fmt.Sprintf("window [%d,%d) now=%d pt=%d T=%d", from, to, now, pt, T), nil)
				}
				if now >= pt && to-int64(n)*T > now {
					c.Fail("c13/window-not-earliest", fmt.Sprintf("an earlier slot of the same deputy is still open: [%d,%d) now=%d n=%d T=%d", from, to, now, n, T), nil)
				}
				pts := []int64{from, to - 1, from + (to-from)/2, from + c.Rnd.Int63n(T)}
				for _, t := range pts {
					stamps := []int64{t}
					if T%1000 == 0 {
						stamps = append(stamps, t/1000*1000) // PrepareHeader stamps whole seconds
					}
					for _, st := range stamps {
						got := Safe(func() string {
							a, err := consensus.GetCorrectMiner(parentHdr, st, T, dm)
							if err != nil {
								return "err " + err.Error()
							}
							return fmt.Sprintf("ok %d", rankOf(a))
						})
						c.Count("window-probe")
						if got != fmt.Sprintf("ok %d", me) {
							c.Fail("c13/window-rejected", fmt.Sprintf("h=%d n=%d special=%v pr=%d me=%d d=%d pt=%d now=%d T=%d window=[%d,%d) t=%d: verifier says %s", h, n, special, pr, me, d, pt, now, T, from, to, st, got),
								map[string]interface{}{"h": h, "n": n, "pr": pr, "me": me, "pt": pt, "now": now, "T": T, "t": st})
						}
					}
				}
			}
			// (3) rotation: consecutive slots go to consecutive ranks
			if special || pr >= 0 {
				prev := -1
				for s := int64(0); s < int64(2*n+1); s++ {
					t := pt + s*T + c.Rnd.Int63n(T)
					a, err := consensus.GetCorrectMiner(parentHdr, t, T, dm)
					if err != nil {
						c.Fail("c13/no-miner", fmt.Sprintf("no deputy in turn at slot %d: %v", s, err), nil)
						break
					}
					r := rankOf(a)
					if prev >= 0 && r != (prev+1)%n {
						c.Fail("c13/rotation", fmt.Sprintf("slot %d belongs to rank %d after rank %d (n=%d)", s, r, prev, n), nil)
					}
					if s == 0 {
						want := 0
						if !special {
							want = (pr + 1) % n
						}
						if r != want {
							c.Fail("c13/rotation-start", fmt.Sprintf("first slot belongs to rank %d, want %d", r, want), nil)
						}
					}
					prev = r
				}
			}
		}
	}
	// term index helpers
	for h := uint32(0); h < 60; h++ {
		c.Op(fmt.Sprintf("terms %d", h), fmt.Sprintf("%v %v %d %d", deputynode.IsSnapshotBlock(h), deputynode.IsRewardBlock(h), deputynode.GetSignerTermIndexByHeight(h), deputynode.GetDeputyTermIndexByHeight(h)))
	}
}

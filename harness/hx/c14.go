package main

// hx c14 — C14 "encodings round-trip and are canonical".
//
// (a) generic stream (correspondence with lean/LemoModel/Rlp.lean + direct oracle):
//     dec <hex>        rlp.DecodeBytes into interface{}      -> "ok <tree>" | "err <Name>"
//     enc <tree>       rlp.EncodeToBytes of a []byte/[]interface{} tree -> hex
//     uint <bits> <hex>, encuint <n>, big <hex>, encbig <n>   integer codecs
//     rsplit <hex>, rcount <hex>                              raw.go Split / CountValues
//     addr <hex20>, addrdec <text>                            Lemo address text form
//     tree syntax: x<hex> = byte string, [a,b,...] = list.  "-" = empty byte string in hex arguments.
// (b) typed stream: c14_typed.go (direct oracle on the consensus types; no op lines).

import (
	"encoding/hex"
	"fmt"
	"io"
	"math/big"
	"strings"

	"github.com/LemoFoundationLtd/lemochain-core/common"
	"github.com/LemoFoundationLtd/lemochain-core/common/rlp"
)

func init() { subs["c14"] = c14 }

// c14Fail records at most 3 witnesses per signature (every occurrence is counted) so that a noisy
// class cannot exhaust the global failure cap before the typed oracle reports.
var c14FailSeen = map[string]int{}

func c14Fail(c *Ctx, sig, detail string, replay interface{}) {
	c.Count("fail:" + sig)
	c14FailSeen[sig]++
	if c14FailSeen[sig] <= 3 {
		c.Fail(sig, detail, replay)
	}
}

// set by c14_typed.go (typed direct oracle)
var c14TypedFn func(*Ctx, int)

type c14Node struct {
	leaf bool
	b    []byte
	kids []*c14Node
}

func c14hx(b []byte) string {
	if len(b) == 0 {
		return "-"
	}
	return hex.EncodeToString(b)
}

func (n *c14Node) render(sb *strings.Builder) {
	if n.leaf {
		sb.WriteString("x")
		sb.WriteString(hex.EncodeToString(n.b))
		return
	}
	sb.WriteString("[")
	for i, k := range n.kids {
		if i > 0 {
			sb.WriteString(",")
		}
		k.render(sb)
	}
	sb.WriteString("]")
}

func (n *c14Node) String() string {
	var sb strings.Builder
	n.render(&sb)
	return sb.String()
}

func (n *c14Node) iface() interface{} {
	if n.leaf {
		return n.b
	}
	l := make([]interface{}, len(n.kids))
	for i, k := range n.kids {
		l[i] = k.iface()
	}
	return l
}

func (n *c14Node) count() int {
	c := 1
	for _, k := range n.kids {
		c += k.count()
	}
	return c
}

func c14RenderIface(v interface{}, sb *strings.Builder) bool {
	switch t := v.(type) {
	case []byte:
		sb.WriteString("x")
		sb.WriteString(hex.EncodeToString(t))
	case []interface{}:
		sb.WriteString("[")
		for i, k := range t {
			if i > 0 {
				sb.WriteString(",")
			}
			if !c14RenderIface(k, sb) {
				return false
			}
		}
		sb.WriteString("]")
	default:
		sb.WriteString(fmt.Sprintf("?%T", v))
		return false
	}
	return true
}

func c14ErrName(err error) string {
	switch err {
	case io.EOF:
		return "EOF"
	case io.ErrUnexpectedEOF:
		return "UnexpectedEOF"
	case rlp.EOL:
		return "EOL"
	case rlp.ErrValueTooLarge:
		return "ValueTooLarge"
	case rlp.ErrElemTooLarge:
		return "ElemTooLarge"
	case rlp.ErrCanonSize:
		return "CanonSize"
	case rlp.ErrCanonInt:
		return "CanonInt"
	case rlp.ErrExpectedString:
		return "ExpectedString"
	case rlp.ErrExpectedList:
		return "ExpectedList"
	case rlp.ErrMoreThanOneValue:
		return "MoreThanOne"
	}
	m := err.Error()
	switch {
	case strings.Contains(m, "non-canonical integer"):
		return "CanonInt"
	case strings.Contains(m, "non-canonical size"):
		return "CanonSize"
	case strings.Contains(m, "expected input list"):
		return "ExpectedList"
	case strings.Contains(m, "expected input string or byte"):
		return "ExpectedString"
	case strings.Contains(m, "input string too long"):
		return "UintOverflow"
	}
	return "other:" + strings.ReplaceAll(m, " ", "_")
}

var c14Lens = []int{0, 0, 1, 1, 1, 2, 3, 5, 20, 32, 54, 55, 56, 57, 60, 100, 255, 256, 257, 1000}

func c14Bytes(c *Ctx, maxLen int) []byte {
	n := c14Lens[c.Rnd.Intn(len(c14Lens))]
	if c.Rnd.Intn(200) == 0 {
		n = []int{65535, 65536, 70000}[c.Rnd.Intn(3)]
	}
	if n > maxLen {
		n = c.Rnd.Intn(maxLen + 1)
	}
	b := make([]byte, n)
	c.Rnd.Read(b)
	if n > 0 {
		switch c.Rnd.Intn(6) {
		case 0:
			b[0] = 0
		case 1:
			b[0] = 0x7f
		case 2:
			b[0] = 0x80
		case 3:
			b[0] = byte(c.Rnd.Intn(128))
		}
	}
	return b
}

func c14Tree(c *Ctx, depth int, budget *int) *c14Node {
	*budget--
	if depth <= 0 || *budget <= 0 || c.Rnd.Intn(3) != 0 {
		maxLen := 70000
		if depth < 3 {
			maxLen = 300
		}
		return &c14Node{leaf: true, b: c14Bytes(c, maxLen)}
	}
	w := []int{0, 0, 1, 1, 2, 3, 4, 8, 20, 60}[c.Rnd.Intn(10)]
	n := &c14Node{}
	for i := 0; i < w && *budget > 0; i++ {
		n.kids = append(n.kids, c14Tree(c, depth-1, budget))
	}
	return n
}

func c14Head(off byte, size int) []byte {
	if size < 56 {
		return []byte{off + byte(size)}
	}
	be := big.NewInt(int64(size)).Bytes()
	return append([]byte{off + 55 + byte(len(be))}, be...)
}

// cheats: deliberately non-canonical / inconsistent headers at one node
const (
	c14CheatNone = iota
	c14CheatLongForm
	c14CheatLeadingZero
	c14CheatSingleWrapped
	c14CheatSizePlus
	c14CheatSizeMinus
	c14CheatWideSize
	c14CheatCount
)

var c14CheatNames = []string{"none", "longform", "leadzero", "single-wrapped", "size+1", "size-1", "widesize"}

func c14Enc(n *c14Node, at *int, cheat int) []byte {
	*at--
	me := *at == 0
	var payload []byte
	off := byte(0x80)
	if n.leaf {
		payload = n.b
		if len(payload) == 1 && payload[0] < 0x80 {
			if me && cheat == c14CheatSingleWrapped {
				return []byte{0x81, payload[0]}
			}
			if !me || cheat == c14CheatNone || cheat == c14CheatSingleWrapped {
				return []byte{payload[0]}
			}
			// other cheats on a single low byte: fall through with a header
		}
	} else {
		off = 0xc0
		for _, k := range n.kids {
			payload = append(payload, c14Enc(k, at, cheat)...)
		}
	}
	size := len(payload)
	var head []byte
	switch {
	case !me:
		head = c14Head(off, size)
	case cheat == c14CheatLongForm:
		be := big.NewInt(int64(size)).Bytes()
		if len(be) == 0 {
			be = []byte{0}
		}
		head = append([]byte{off + 55 + byte(len(be))}, be...)
	case cheat == c14CheatLeadingZero:
		be := append([]byte{0}, big.NewInt(int64(size)).Bytes()...)
		head = append([]byte{off + 55 + byte(len(be))}, be...)
	case cheat == c14CheatWideSize:
		be := big.NewInt(int64(size)).Bytes()
		for len(be) < 8 {
			be = append([]byte{0}, be...)
		}
		head = append([]byte{off + 55 + 8}, be...)
	case cheat == c14CheatSizePlus:
		head = c14Head(off, size+1)
	case cheat == c14CheatSizeMinus:
		if size > 0 {
			head = c14Head(off, size-1)
		} else {
			head = c14Head(off, size)
		}
	default:
		head = c14Head(off, size)
	}
	return append(head, payload...)
}

var c14Tags = []byte{0x00, 0x01, 0x7f, 0x80, 0x81, 0x82, 0xb7, 0xb8, 0xb9, 0xba, 0xbf, 0xc0, 0xc1, 0xc2, 0xf7, 0xf8, 0xf9, 0xff}

func c14Random(c *Ctx) []byte {
	n := c.Rnd.Intn(40)
	if c.Rnd.Intn(6) == 0 {
		n = c.Rnd.Intn(400)
	}
	b := make([]byte, n)
	c.Rnd.Read(b)
	if n > 0 && c.Rnd.Intn(4) != 0 {
		b[0] = c14Tags[c.Rnd.Intn(len(c14Tags))]
	}
	if n > 1 && c.Rnd.Intn(2) == 0 {
		// make the declared size plausible
		switch {
		case b[0] >= 0x80 && b[0] < 0xb8 && c.Rnd.Intn(2) == 0:
			b[0] = 0x80 + byte((n-1)%56)
		case b[0] >= 0xc0 && b[0] < 0xf8 && c.Rnd.Intn(2) == 0:
			b[0] = 0xc0 + byte((n-1)%56)
		case b[0] == 0xb8 || b[0] == 0xf8:
			b[1] = byte(n - 2)
		case (b[0] == 0xb9 || b[0] == 0xf9) && n > 2:
			b[1] = byte((n - 3) >> 8)
			b[2] = byte(n - 3)
		}
	}
	// sprinkle small items so that list payloads parse further
	if c.Rnd.Intn(3) == 0 {
		for i := 1; i < n; i++ {
			if c.Rnd.Intn(2) == 0 {
				b[i] = c14Tags[c.Rnd.Intn(len(c14Tags))]
			}
		}
	}
	return b
}

func c14Mutate(c *Ctx, b []byte) ([]byte, string) {
	out := append([]byte{}, b...)
	switch c.Rnd.Intn(6) {
	case 0:
		if len(out) > 0 {
			i := c.Rnd.Intn(len(out))
			if c.Rnd.Intn(2) == 0 {
				i = c.Rnd.Intn(min(len(out), 4))
			}
			out[i] = c14Tags[c.Rnd.Intn(len(c14Tags))]
		}
		return out, "tagbyte"
	case 1:
		if len(out) > 0 {
			out[c.Rnd.Intn(len(out))] ^= 1 << uint(c.Rnd.Intn(8))
		}
		return out, "bitflip"
	case 2:
		if len(out) > 0 {
			out = out[:c.Rnd.Intn(len(out))]
		}
		return out, "truncate"
	case 3:
		extra := make([]byte, 1+c.Rnd.Intn(3))
		c.Rnd.Read(extra)
		return append(out, extra...), "trailing"
	case 4:
		if len(out) > 1 {
			i := 1 + c.Rnd.Intn(len(out)-1)
			out = append(out[:i], out[i+1:]...)
		}
		return out, "delete"
	default:
		i := c.Rnd.Intn(len(out) + 1)
		ins := []byte{c14Tags[c.Rnd.Intn(len(c14Tags))]}
		out = append(out[:i], append(ins, out[i:]...)...)
		return out, "insert"
	}
}

// decode into interface{} with the real package; canonical answer line.
func c14Dec(b []byte) (line string, val interface{}, ok bool) {
	line = Safe(func() string {
		var v interface{}
		err := rlp.DecodeBytes(b, &v)
		if err != nil {
			return "err " + c14ErrName(err)
		}
		var sb strings.Builder
		sb.WriteString("ok ")
		if !c14RenderIface(v, &sb) {
			return "err unrenderable:" + sb.String()
		}
		val = v
		ok = true
		return sb.String()
	})
	return
}

func c14DecOp(c *Ctx, class string, b []byte, canonicalOf *c14Node) {
	if len(b) > 200000 {
		return
	}
	line, val, ok := c14Dec(b)
	c.Op("dec "+c14hx(b), line)
	c.Count("dec:" + class + ":" + c14FirstTwo(line))
	if line == "panic" {
		c14Fail(c, "c14/generic-decode-panic", "rlp.DecodeBytes into interface{} panicked on "+c14hx(b), map[string]string{"hex": c14hx(b)})
		return
	}
	if ok {
		re, err := rlp.EncodeToBytes(val)
		if err != nil || hex.EncodeToString(re) != hex.EncodeToString(b) {
			c14Fail(c, "c14/generic-noncanonical-accept", fmt.Sprintf("decoder accepted %s as %s but that value encodes to %s", c14hx(b), line, c14hx(re)), map[string]string{"hex": c14hx(b)})
		}
	}
	if canonicalOf != nil {
		want := "ok " + canonicalOf.String()
		if line != want {
			c14Fail(c, "c14/generic-roundtrip", fmt.Sprintf("decode(encode(t)) != t: t=%.300s enc=%.300s got %.300s", canonicalOf.String(), c14hx(b), line), map[string]string{"hex": c14hx(b)})
		}
	}
	// the slice based reader of raw.go on the same input
	{
		out := Safe(func() string {
			k, content, rest, err := rlp.Split(b)
			if err != nil {
				return "err " + c14ErrName(err)
			}
			return fmt.Sprintf("ok %d %s %s", int(k), c14hx(content), c14hx(rest))
		})
		c.Op("rsplit "+c14hx(b), out)
		c.Count("rsplit:" + c14FirstTwo(out))
		if out == "panic" {
			c14Fail(c, "c14/raw-split-panic", "rlp.Split panicked on "+c14hx(b), map[string]string{"hex": c14hx(b)})
		}
		// Split accepts a prefix; when the stream decoder accepts the whole input both must agree on kind/content
		if ok && strings.HasPrefix(out, "err") {
			c14Fail(c, "c14/raw-split-disagrees", fmt.Sprintf("DecodeBytes accepts %s but Split says %s", c14hx(b), out), nil)
		}
		out = Safe(func() string {
			n, err := rlp.CountValues(b)
			if err != nil {
				return "err " + c14ErrName(err)
			}
			return fmt.Sprintf("ok %d", n)
		})
		c.Op("rcount "+c14hx(b), out)
		c.Count("rcount:" + firstWord(out))
		if out == "panic" {
			c14Fail(c, "c14/raw-count-panic", "rlp.CountValues panicked on "+c14hx(b), map[string]string{"hex": c14hx(b)})
		}
	}
}

func c14FirstTwo(s string) string {
	w := strings.SplitN(s, " ", 3)
	if w[0] == "err" && len(w) > 1 {
		return "err:" + w[1]
	}
	return w[0]
}

var c14UintVals = []uint64{0, 1, 2, 0x7f, 0x80, 0x81, 0xff, 0x100, 0x101, 0xffff, 0x10000, 0xffffff, 0x1000000, 0xffffffff, 0x100000000,
	0xffffffffff, 0x10000000000, 0xffffffffffff, 0x1000000000000, 0xffffffffffffff, 0x100000000000000, 0xffffffffffffffff, 55, 56, 1024}

func c14UintOps(c *Ctx) {
	v := c14UintVals[c.Rnd.Intn(len(c14UintVals))]
	if c.Rnd.Intn(3) == 0 {
		v = c.Rnd.Uint64() >> uint(c.Rnd.Intn(64))
	}
	enc, _ := rlp.EncodeToBytes(v)
	c.Op(fmt.Sprintf("encuint %d", v), c14hx(enc))
	c.Count("encuint")
	in := enc
	class := "valid"
	switch c.Rnd.Intn(8) {
	case 0:
		in, class = c14Mutate(c, enc)
	case 1:
		// leading zero
		be := append([]byte{0}, new(big.Int).SetUint64(v).Bytes()...)
		in, class = append([]byte{0x80 + byte(len(be))}, be...), "leadzero"
	case 2:
		// low single byte wrapped
		in, class = []byte{0x81, byte(c.Rnd.Intn(128))}, "single-wrapped"
	case 3:
		in, class = c14Random(c), "random"
	case 4:
		// long form header for a short integer
		be := new(big.Int).SetUint64(v).Bytes()
		in, class = append([]byte{0xb8, byte(len(be))}, be...), "longform"
	case 5:
		// a list instead
		in, class = append([]byte{0xc0 + byte(len(enc))}, enc...), "list"
	}
	for _, bits := range []int{8, 16, 32, 64} {
		out := Safe(func() string {
			var err error
			var got uint64
			switch bits {
			case 8:
				var x uint8
				err = rlp.DecodeBytes(in, &x)
				got = uint64(x)
			case 16:
				var x uint16
				err = rlp.DecodeBytes(in, &x)
				got = uint64(x)
			case 32:
				var x uint32
				err = rlp.DecodeBytes(in, &x)
				got = uint64(x)
			default:
				var x uint64
				err = rlp.DecodeBytes(in, &x)
				got = x
			}
			if err != nil {
				return "err " + c14ErrName(err)
			}
			return fmt.Sprintf("ok %d", got)
		})
		c.Op(fmt.Sprintf("uint %d %s", bits, c14hx(in)), out)
		c.Count(fmt.Sprintf("uint%d:%s:%s", bits, class, c14FirstTwo(out)))
		if out == "panic" {
			c14Fail(c, "c14/uint-decode-panic", "uint decoder panicked on "+c14hx(in), nil)
		}
		if strings.HasPrefix(out, "ok ") {
			var got uint64
			fmt.Sscanf(out[3:], "%d", &got)
			re, _ := rlp.EncodeToBytes(got)
			if hex.EncodeToString(re) != hex.EncodeToString(in) {
				c14Fail(c, "c14/uint-noncanonical-accept", fmt.Sprintf("uint%d decoder accepted %s as %d which encodes to %s", bits, c14hx(in), got, c14hx(re)), nil)
			}
		}
		if class == "valid" {
			fits := bits == 64 || v < (uint64(1)<<uint(bits))
			if fits && out != fmt.Sprintf("ok %d", v) {
				c14Fail(c, "c14/uint-roundtrip", fmt.Sprintf("uint%d: decode(encode(%d)) = %s", bits, v, out), nil)
			}
			if !fits && strings.HasPrefix(out, "ok") {
				c14Fail(c, "c14/uint-overflow-accepted", fmt.Sprintf("uint%d accepted %d: %s", bits, v, out), nil)
			}
		}
	}
	// big integers
	bn := new(big.Int).SetUint64(v)
	switch c.Rnd.Intn(4) {
	case 0:
		bn.Lsh(bn, uint(c.Rnd.Intn(300)))
	case 1:
		raw := make([]byte, c.Rnd.Intn(70))
		c.Rnd.Read(raw)
		bn.SetBytes(raw)
	}
	benc, _ := rlp.EncodeToBytes(bn)
	c.Op("encbig "+bn.String(), c14hx(benc))
	c.Count("encbig")
	bin, bclass := benc, "valid"
	switch c.Rnd.Intn(5) {
	case 0:
		bin, bclass = c14Mutate(c, benc)
	case 1:
		be := append([]byte{0}, bn.Bytes()...)
		bin, bclass = append(c14Head(0x80, len(be)), be...), "leadzero"
	case 2:
		bin, bclass = in, "uint-input"
	}
	out := Safe(func() string {
		x := new(big.Int)
		if err := rlp.DecodeBytes(bin, x); err != nil {
			return "err " + c14ErrName(err)
		}
		return "ok " + x.String()
	})
	c.Op("big "+c14hx(bin), out)
	c.Count("big:" + bclass + ":" + c14FirstTwo(out))
	if out == "panic" {
		c14Fail(c, "c14/big-decode-panic", "big.Int decoder panicked on "+c14hx(bin), nil)
	}
	if strings.HasPrefix(out, "ok ") {
		x, _ := new(big.Int).SetString(out[3:], 10)
		re, _ := rlp.EncodeToBytes(x)
		if hex.EncodeToString(re) != hex.EncodeToString(bin) {
			c14Fail(c, "c14/big-noncanonical-accept", fmt.Sprintf("big.Int decoder accepted %s as %s which encodes to %s", c14hx(bin), x, c14hx(re)), nil)
		}
	}
	if bclass == "valid" && out != "ok "+bn.String() {
		c14Fail(c, "c14/big-roundtrip", fmt.Sprintf("decode(encode(%s)) = %s", bn, out), nil)
	}
}

const c14B26 = "83456729ABCDFGHJKNPQRSTWYZ"

func c14AddrOps(c *Ctx) {
	var a common.Address
	switch c.Rnd.Intn(6) {
	case 0: // zero
	case 1:
		a[19] = byte(c.Rnd.Intn(256))
	case 2:
		c.Rnd.Read(a[10+c.Rnd.Intn(10):])
	case 3:
		for i := range a {
			a[i] = 0xff
		}
	default:
		c.Rnd.Read(a[:])
	}
	text := a.String()
	c.Op("addr "+hex.EncodeToString(a[:]), text)
	c.Count("addr")
	in, class := text, "own"
	body := []byte(text[4:])
	switch c.Rnd.Intn(9) {
	case 0:
		in, class = strings.ToLower(text), "lower"
	case 1:
		in, class = strings.ToUpper(text), "upper"
	case 2:
		r := []byte(text)
		for i := range r {
			if c.Rnd.Intn(2) == 0 {
				r[i] = strings.ToLower(string(r[i]))[0]
			}
		}
		in, class = string(r), "mixed"
	case 3:
		i := c.Rnd.Intn(len(body))
		body[i] = c14B26[c.Rnd.Intn(26)]
		in, class = "Lemo"+string(body), "digit-corrupt"
	case 4:
		i := c.Rnd.Intn(len(body))
		body[i] = "01IOULMEVX!_-z"[c.Rnd.Intn(14)]
		in, class = "Lemo"+string(body), "invalid-char"
	case 5:
		in, class = "Lemo"+strings.Repeat("8", c.Rnd.Intn(4))+string(body), "extra-leading-8"
	case 6:
		in, class = "Lemo"+string(body[:c.Rnd.Intn(len(body))]), "short"
	case 7:
		r := make([]byte, 1+c.Rnd.Intn(45))
		for i := range r {
			r[i] = c14B26[c.Rnd.Intn(26)]
		}
		in, class = []string{"Lemo", "lemo", "LEMO", "Lem", "0x", "Lemp"}[c.Rnd.Intn(6)]+string(r), "random"
	}
	out := Safe(func() string {
		var d common.Address
		err := d.Decode(in)
		if err != nil {
			if err == common.ErrInvalidAddress {
				return "err InvalidAddress"
			}
			if err == common.ErrInvalidAddressChecksum {
				return "err InvalidAddressChecksum"
			}
			return "err other"
		}
		return "ok " + hex.EncodeToString(d[:])
	})
	c.Op("addrdec "+in, out)
	c.Count("addrdec:" + class + ":" + c14FirstTwo(out))
	okSame := out == "ok "+hex.EncodeToString(a[:])
	switch class {
	case "own", "lower", "upper", "mixed":
		if !okSame {
			c14Fail(c, "c14/address-roundtrip", fmt.Sprintf("address %x prints as %s, %s form %s decodes to %s", a[:], text, class, in, out), nil)
		}
	case "digit-corrupt":
		if okSame && in != text {
			c14Fail(c, "c14/address-corruption-same", fmt.Sprintf("%s and %s decode to the same address", text, in), nil)
		}
		if strings.HasPrefix(out, "ok") && in != text {
			c.Count("info:address-digit-corruption-accepted-as-other-address")
		}
	case "invalid-char":
		if strings.HasPrefix(out, "ok") {
			c.Count("info:address-invalid-char-accepted")
		}
	case "extra-leading-8":
		if okSame && in != text {
			c.Count("info:address-longer-text-accepted")
		}
	}
	if out == "panic" {
		c14Fail(c, "c14/address-decode-panic", "Address.Decode panicked on "+in, nil)
	}
}

func c14(c *Ctx) {
	c14FailSeen = map[string]int{}
	c14SchemaOps(c)
	c14BoundOps(c) // short/long-form header boundary family (c14_bounds.go)
	for i := 0; i < c.N; i++ {
		// 1. a tree, its canonical encoding, the enc op and the decode of the canonical bytes
		budget := 60
		t := c14Tree(c, 4, &budget)
		nodes := t.count()
		var enc []byte
		out := Safe(func() string {
			var err error
			enc, err = rlp.EncodeToBytes(t.iface())
			if err != nil {
				return "err " + err.Error()
			}
			return c14hx(enc)
		})
		if len(enc) <= 150000 {
			c.Op("enc "+t.String(), out)
			c.Count("enc")
			at := 0
			mine := c14Enc(t, &at, c14CheatNone)
			if hex.EncodeToString(mine) != hex.EncodeToString(enc) {
				c14Fail(c, "c14/generic-encode", fmt.Sprintf("encoder output %s differs from the specification encoding %s", c14hx(enc), c14hx(mine)), nil)
			}
			switch c.Rnd.Intn(5) {
			case 0, 1:
				c14DecOp(c, "canonical", enc, t)
			case 2:
				b, cl := c14Mutate(c, enc)
				c14DecOp(c, "mut-"+cl, b, nil)
			default:
				cheat := 1 + c.Rnd.Intn(c14CheatCount-1)
				at := 1 + c.Rnd.Intn(nodes)
				b := c14Enc(t, &at, cheat)
				c14DecOp(c, "cheat-"+c14CheatNames[cheat], b, nil)
			}
		}
		// 2. random / adversarial byte strings
		switch c.Rnd.Intn(12) {
		case 0:
			// huge declared sizes
			b := []byte{[]byte{0xbf, 0xff, 0xbb, 0xfb}[c.Rnd.Intn(4)]}
			ext := make([]byte, c.Rnd.Intn(10))
			c.Rnd.Read(ext)
			if len(ext) > 0 && c.Rnd.Intn(2) == 0 {
				ext[0] = 0xff
			}
			c14DecOp(c, "huge-size", append(b, ext...), nil)
		case 1:
			// deep nesting
			d := 1 + c.Rnd.Intn(300)
			if c.Tier == "thorough" && c.Rnd.Intn(10) == 0 {
				d = 2000 + c.Rnd.Intn(3000)
			}
			inner := []byte{}
			if c.Rnd.Intn(2) == 0 {
				inner = []byte{byte(c.Rnd.Intn(256))}
			}
			for k := 0; k < d; k++ {
				inner = append(c14Head(0xc0, len(inner)), inner...)
			}
			c14DecOp(c, "deep", inner, nil)
		case 2:
			c14DecOp(c, "empty", []byte{}, nil)
		default:
			c14DecOp(c, "random", c14Random(c), nil)
		}
		// 3. integers, 4. address text
		c14UintOps(c)
		c14AddrOps(c)
	}
	c14Reach(c)
	if c14TypedFn != nil {
		c14TypedFn(c, c.N)
	} else {
		c.Count("typed:MISSING")
	}
}

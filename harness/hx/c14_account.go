package main

// c14_account.go: ties of LemoModel/RlpAccount.lean (types.AccountData, the blocks message) to the code.
//
//   typed accountdata <hex>  (emitted through c14TypedOp from checkMut) real AccountData.DecodeRLP on the bytes, then the
//                            real EncodeRLP on the decoded value: "ok <hex>" | "err"
//   acctval <hex>            real AccountData.DecodeRLP into a fresh value, the decoded VALUE rendered field by field
//                            (nil-ness included; maps in key order): what the decoder keeps and what it forgets
//   acctenc <fields>         the generator's account VALUE written out field by field - the NewestRecords and the profile
//                            pairs in a generator-chosen order, which stands for the Go map iteration order - and the real
//                            EncodeRLP of that value: the model must compute the same bytes from the fields alone
//   typed blocksmsg <hex>    the receive path of a blocks message, p2p.Msg{Code: BlocksMsg}.Decode(&types.Blocks), then the
//                            send path rlp.EncodeToBytes(&blocks) of peer.SendBlocks
//   typed getblocks <hex>    GetBlocksData (through c14TypedOp, family netmsg-getblocks)
//
// The inputs are generator-chosen bytes / values; nothing on an op line is read back from the code under test.

import (
	"bytes"
	"fmt"
	"math/big"
	"sort"
	"strings"

	"github.com/LemoFoundationLtd/lemochain-core/chain/types"
	"github.com/LemoFoundationLtd/lemochain-core/common"
	"github.com/LemoFoundationLtd/lemochain-core/network/p2p"
)

func c14aBig(x *big.Int) string {
	if x == nil {
		return "nil"
	}
	return x.String()
}

func c14aProfile(p types.Profile, order []string) string {
	if p == nil {
		return "nil"
	}
	if len(p) == 0 {
		return "{}"
	}
	parts := make([]string, 0, len(p))
	for _, k := range order {
		parts = append(parts, c14hx([]byte(k))+":"+c14hx([]byte(p[k])))
	}
	return strings.Join(parts, ",")
}

func c14aRecords(m map[types.ChangeLogType]types.VersionRecord, order []types.ChangeLogType) string {
	if m == nil {
		return "nil"
	}
	if len(m) == 0 {
		return "{}"
	}
	parts := make([]string, 0, len(m))
	for _, k := range order {
		parts = append(parts, fmt.Sprintf("%d.%d.%d", uint32(k), m[k].Version, m[k].Height))
	}
	return strings.Join(parts, ",")
}

func c14aSigners(s types.Signers) string {
	if s == nil {
		return "nil"
	}
	if len(s) == 0 {
		return "[]"
	}
	parts := make([]string, 0, len(s))
	for _, x := range s {
		parts = append(parts, c14hx(x.Address[:])+"."+fmt.Sprint(x.Weight))
	}
	return strings.Join(parts, ",")
}

func c14aProfileKeys(p types.Profile) []string {
	keys := make([]string, 0, len(p))
	for k := range p {
		keys = append(keys, k)
	}
	sort.Strings(keys) // bytewise, like the model's ltBytes
	return keys
}

func c14aRecordKeys(m map[types.ChangeLogType]types.VersionRecord) []types.ChangeLogType {
	keys := make([]types.ChangeLogType, 0, len(m))
	for k := range m {
		keys = append(keys, k)
	}
	sort.Slice(keys, func(i, j int) bool { return keys[i] < keys[j] })
	return keys
}

// c14aValue renders an AccountData like Driver.C14.showAcct (maps in key order).
func c14aValue(a *types.AccountData) string {
	return fmt.Sprintf("addr=%s bal=%s code=%s sr=%s acr=%s air=%s er=%s vf=%s votes=%s prof=%s recs=%s sig=%s",
		c14hx(a.Address[:]), c14aBig(a.Balance), c14hx(a.CodeHash[:]), c14hx(a.StorageRoot[:]), c14hx(a.AssetCodeRoot[:]),
		c14hx(a.AssetIdRoot[:]), c14hx(a.EquityRoot[:]), c14hx(a.VoteFor[:]), c14aBig(a.Candidate.Votes),
		c14aProfile(a.Candidate.Profile, c14aProfileKeys(a.Candidate.Profile)),
		c14aRecords(a.NewestRecords, c14aRecordKeys(a.NewestRecords)), c14aSigners(a.Signers))
}

// c14AcctValOp: `acctval <hex>`. Decodes b once more into a FRESH AccountData with the real decoder.
func c14AcctValOp(c *Ctx, b []byte) {
	if len(b) > 5000 {
		return
	}
	a := new(types.AccountData)
	err, pan := c14tDec(b, a)
	out := "err"
	switch {
	case pan != "":
		out = "panic"
	case err == nil:
		out = "ok " + Safe(func() string { return c14aValue(a) })
		for _, nz := range []struct {
			name string
			isNil bool
		}{{"balance", a.Balance == nil}, {"votes", a.Candidate.Votes == nil}, {"profile", a.Candidate.Profile == nil},
			{"records", a.NewestRecords == nil}, {"signers", a.Signers == nil}} {
			if nz.isNil {
				// the model's `norm`: a decoded value holds no nil
				c14Fail(c, "c14/accountdata-decoded-nil/"+nz.name, "AccountData.DecodeRLP left "+nz.name+" nil", c14hx(b))
			}
		}
	}
	c.Op("acctval "+c14hx(b), out)
	c.Count("acct-op:acctval:" + firstWord(out))
}

// c14AcctEncOp: `acctenc <fields>` for a generated value. The records and the profile pairs are written in an order drawn
// from the generator (the Go map iteration order is not observable; any order must do).
func (t *c14tState) c14AcctEncOp(a *types.AccountData) {
	c := t.c
	pk := c14aProfileKeys(a.Candidate.Profile)
	t.r.Shuffle(len(pk), func(i, j int) { pk[i], pk[j] = pk[j], pk[i] })
	rk := c14aRecordKeys(a.NewestRecords)
	t.r.Shuffle(len(rk), func(i, j int) { rk[i], rk[j] = rk[j], rk[i] })
	op := fmt.Sprintf("acctenc %s %s %s %s %s %s %s %s %s %s %s %s",
		c14hx(a.Address[:]), c14aBig(a.Balance), c14hx(a.CodeHash[:]), c14hx(a.StorageRoot[:]), c14hx(a.AssetCodeRoot[:]),
		c14hx(a.AssetIdRoot[:]), c14hx(a.EquityRoot[:]), c14hx(a.VoteFor[:]), c14aBig(a.Candidate.Votes),
		c14aProfile(a.Candidate.Profile, pk), c14aRecords(a.NewestRecords, rk), c14aSigners(a.Signers))
	if len(op) > 6000 {
		c.Count("acct-op:acctenc:skipped-long")
		return
	}
	enc, err, pan := c14tEnc(a)
	out := "err"
	if pan != "" {
		out = "panic"
	} else if err == nil {
		out = c14hx(enc)
	}
	c.Op(op, out)
	c.Count("acct-op:acctenc:" + map[bool]string{true: "ok", false: out}[err == nil && pan == ""])
	c.Count(fmt.Sprintf("acct-op:acctenc:records=%s", map[bool]string{true: "shuffled", false: "le1"}[len(rk) > 1]))
}

// c14BlocksMsgOp: `typed blocksmsg <hex>` through the network's own decode path, plus the oracle that this path and
// rlp.DecodeBytes (used by the typed family "blocks") give the same verdict.
func c14BlocksMsgOp(c *Ctx, b []byte, decodeBytesAccepted bool) {
	var blocks types.Blocks
	msg := p2p.Msg{Code: p2p.BlocksMsg, Content: b}
	err, pan := c14tTry(func() error { return msg.Decode(&blocks) })
	if pan != "" {
		c14Fail(c, "c14/blocksmsg-decode-panic", "p2p.Msg.Decode(&types.Blocks): "+pan, c14hx(b))
		return
	}
	accepted := err == nil
	if accepted != decodeBytesAccepted {
		c14Fail(c, "c14/blocksmsg-decode-paths-differ", fmt.Sprintf("p2p.Msg.Decode accepts=%v, rlp.DecodeBytes accepts=%v", accepted, decodeBytesAccepted), c14hx(b))
	}
	if len(b) > 30000 {
		c.Count("typed-op:blocksmsg:skipped-long")
		return
	}
	if !c14kStrict(b, 0) {
		c.Count("typed-op:not-rlp:blocksmsg")
	}
	out := "err"
	if accepted {
		for _, blk := range blocks {
			if blk == nil {
				// the model has no nil *Block; the Block decoder cannot produce one
				c14Fail(c, "c14/blocksmsg-nil-block", "decoded blocks message holds a nil *Block", c14hx(b))
				return
			}
		}
		re, eerr, epan := c14tEnc(&blocks) // peer.SendBlocks: rlp.EncodeToBytes(&blocks)
		if eerr == nil && epan == "" {
			out = "ok " + c14hx(re)
			if !bytes.Equal(re, b) {
				// blocks ARE hashed and sent: a second wire form of the same blocks is a finding
				c14Fail(c, "c14/blocksmsg-noncanonical-accept", "blocks message accepted, re-encoding differs: "+c14hx(re), c14hx(b))
			}
		} else {
			out = "ok-but-reencode-fails"
		}
		c.Count(fmt.Sprintf("typed-op:blocksmsg:blocks=%s", map[bool]string{true: "0", false: "some"}[len(blocks) == 0]))
	}
	c.Op("typed blocksmsg "+c14hx(b), out)
	c.Count("typed-op:blocksmsg:" + firstWord(out))
}

// ---------------------------------------------------------------- the witnesses of LemoProofs/C14Account.lean

func c14aRec(t, v, h byte) []byte { return c14tList([]byte{t}, []byte{v}, []byte{h}) }

// c14aItem is `acctItem` of LemoProofs/C14Account.lean.
func c14aItem(txs, cnt, recs []byte) []byte {
	rep := func(n int, x byte) []byte { return c14tString(bytes.Repeat([]byte{x}, n)) }
	return c14tList(rep(20, 1), []byte{5}, rep(32, 2), rep(32, 2), rep(32, 2), rep(32, 2), rep(32, 2), txs, rep(20, 3),
		c14tList([]byte{0x80}, []byte{0xC0}), cnt, recs, []byte{0xC0})
}

// c14AcctWitnesses reproduces the four kernel-checked refutation witnesses of accountData_reencode_* on the real code:
// each is ACCEPTED, denotes the same account as the canonical item and re-encodes to the canonical bytes, not to itself.
// AccountData is stored, neither hashed nor sent, so this is an observation (info:accountdata-noncanonical-accept:witness-*),
// not a finding; a witness that the real code treats differently is reported as drift of the model.
func (t *c14tState) c14AcctWitnesses() {
	c := t.c
	empty, zero := []byte{0xC0}, []byte{0x80}
	one := c14tList(c14aRec(1, 2, 3))
	canon := c14aItem(empty, zero, one)
	canon2 := c14aItem(empty, zero, c14tList(c14aRec(1, 2, 3), c14aRec(2, 1, 1)))
	ws := []struct {
		name  string
		w     []byte
		canon []byte
	}{
		{"duplicate", c14aItem(empty, zero, c14tList(c14aRec(1, 9, 9), c14aRec(1, 2, 3))), canon},
		{"unsorted", c14aItem(empty, zero, c14tList(c14aRec(2, 1, 1), c14aRec(1, 2, 3))), canon2},
		{"txhashlist", c14aItem(c14tList(c14tString(bytes.Repeat([]byte{7}, 32))), zero, one), canon},
		{"txcount", c14aItem(empty, []byte{7}, one), canon},
	}
	for _, x := range append(ws, struct {
		name  string
		w     []byte
		canon []byte
	}{"canonical", canon, canon}, struct {
		name  string
		w     []byte
		canon []byte
	}{"canonical2", canon2, canon2}) {
		a, ac := new(types.AccountData), new(types.AccountData)
		err, pan := c14tDec(x.w, a)
		err2, pan2 := c14tDec(x.canon, ac)
		if err != nil || pan != "" || err2 != nil || pan2 != "" {
			c14Fail(c, "c14/accountdata-witness-drift/"+x.name, "the model's witness is not accepted by AccountData.DecodeRLP: "+c14tErrStr(err, pan)+" / "+c14tErrStr(err2, pan2), c14hx(x.w))
			continue
		}
		re, eerr, epan := c14tEnc(a)
		same := Safe(func() string { return c14aValue(a) }) == Safe(func() string { return c14aValue(ac) })
		if eerr != nil || epan != "" || !bytes.Equal(re, x.canon) || !same {
			c14Fail(c, "c14/accountdata-witness-drift/"+x.name, fmt.Sprintf("witness decodes to the canonical account: %v; re-encoding %s, expected %s (%s)", same, c14hx(re), c14hx(x.canon), c14tErrStr(eerr, epan)), c14hx(x.w))
			continue
		}
		if !bytes.Equal(x.w, x.canon) {
			c.Count("info:accountdata-noncanonical-accept:witness-" + x.name)
		}
		t.checkMut(c14tFamAccount, "witness-"+x.name, x.w)
	}
	// the ignored fields are still decoded: a malformed TxHashList entry / TxCount is an error
	for name, w := range map[string][]byte{
		"txhashlist-short-entry": c14aItem(c14tList([]byte{7}), zero, empty),
		"txcount-leading-zero":   c14aItem(empty, []byte{0x82, 0, 7}, empty),
		"txcount-too-wide":       c14aItem(empty, []byte{0x85, 1, 0, 0, 0, 0}, empty),
	} {
		if err, pan := c14tDec(w, new(types.AccountData)); err == nil || pan != "" {
			c14Fail(c, "c14/accountdata-witness-drift/"+name, "expected a decoding error: "+c14tErrStr(err, pan), c14hx(w))
		}
		t.checkMut(c14tFamAccount, "witness-"+name, w)
	}
	// what the model calls the unprepared receiver: Profile.DecodeRLP into a nil map panics on the first pair. No
	// production call site does that (AccountData.DecodeRLP, decodeAsset and account.go:468 make the map first).
	var p types.Profile
	pair := c14tList(c14tList(c14tString([]byte("k")), c14tString([]byte("v"))))
	if _, pan := c14tDec(pair, &p); pan != "" {
		c.Count("info:profile-decode-into-nil-map-panics")
	} else {
		c.Count("info:profile-decode-into-nil-map-ok")
	}
}

// c14aMutRecords: record-list mutations of an AccountData encoding (element 11).
func (t *c14tState) c14aMutRecords(p []byte) (string, []byte) {
	recs, ok := c14tSplit(p)
	if !ok || len(recs) == 0 {
		return "acct-record-dup", c14tList(c14aRec(1, 2, 3), c14aRec(1, 5, 6))
	}
	recs = c14tCopyItems(recs)
	switch k := t.rn(4); {
	case k == 0:
		return "acct-record-dup", c14tList(append(recs, recs[0])...)
	case k == 1:
		// same log type, other version, placed FIRST: the original record still wins
		if f, ok := c14tSplit(recs[0]); ok && len(f) == 3 {
			return "acct-record-dup-first", c14tList(append([][]byte{c14tList(f[0], []byte{0x2a}, f[2])}, recs...)...)
		}
		return "acct-record-dup", c14tList(append(recs, recs[0])...)
	case k == 2 && len(recs) >= 2:
		i := t.rn(len(recs) - 1)
		recs[i], recs[i+1] = recs[i+1], recs[i]
		return "acct-record-unsorted", c14tList(recs...)
	default:
		for i, j := 0, len(recs)-1; i < j; i, j = i+1, j-1 {
			recs[i], recs[j] = recs[j], recs[i]
		}
		if len(recs) >= 2 {
			return "acct-record-unsorted", c14tList(recs...)
		}
		// one record: a record with a log type above uint32 is an error, below stays canonical
		return "acct-record-wide-type", c14tList(c14tList([]byte{0x85, 1, 0, 0, 0, 0}, []byte{1}, []byte{1}))
	}
}

var _ = common.Address{}

package main

// c14_bounds.go: the short/long-form BOUNDARY family of C14 (seed independent, runs once per hx invocation).
//
// RLP writes a payload of fewer than 56 bytes with a one-byte header and everything else with tag+length field, the
// length in the fewest bytes. common/rlp tests this at seven places (Stream.readKind for strings and for lists, raw.go
// readSize, headsize, puthead, encodeStringHeader, listEnd). A one-token slip (`size < 55`) in ONE of them is invisible
// unless an input carries a LONG-FORM header of exactly that kind whose payload has EXACTLY 55 bytes and is otherwise valid.
// Here every combination is produced deliberately:
//
//   generic stream (`dec` / `rsplit` / `rcount` ops):  kind {string, list} x payload size {0,1,54,55,56,57,255,256,65535,65536}
//     x header {canonical, 1-, 2-, 3-byte length field (zero padded = leading zeros)} x position {top level, inside a list};
//     the payload is VALID content of exactly that size (lists: a concatenation of valid items).
//   typed stream (`typed <family>` ops through checkMut): an Event whose own list has 54..57 payload bytes, that Event inside an
//     AddEventLog change log and inside a list of change logs, a transaction whose Sigs list has 54..57 payload bytes, a
//     CandidateLog whose profile list / whose pair has 54..57 payload bytes, an Event whose Data string has 54..57 bytes -
//     each with the canonical and with every non-minimal header.
//
// Oracles: a non-canonical header accepted = c14/noncanonical-accept/long-form-header; a canonical one rejected =
// c14/canonical-rejected/long-form-header. The op lines carry the same inputs to the model (LemoModel.Rlp readHead/readSize).

import (
	"fmt"
	"math/rand"

	"github.com/LemoFoundationLtd/lemochain-core/chain/types"
)

var c14bSizes = []int{0, 1, 54, 55, 56, 57, 255, 256, 65535, 65536}

// c14bHead: header with a k-byte big-endian length field (zero padded); k = 0: the canonical header. nil if size does not fit.
func c14bHead(base byte, size, k int) []byte {
	if k == 0 {
		return c14tEncLen(base, size, 0)
	}
	if k < 8 && size>>(8*uint(k)) != 0 {
		return nil
	}
	lb := make([]byte, k)
	for i, x := k-1, size; i >= 0; i-- {
		lb[i] = byte(x)
		x >>= 8
	}
	return append([]byte{base + 55 + byte(k)}, lb...)
}

// c14bCanon: is the header c14bHead(_, size, k) the canonical one?
func c14bCanon(size, k int) bool {
	if k == 0 {
		return true
	}
	if size < 56 {
		return false
	}
	min := 0
	for x := size; x > 0; x >>= 8 {
		min++
	}
	return k == min
}

func c14bFormName(k int) string {
	if k == 0 {
		return "canonical"
	}
	return fmt.Sprintf("len%d", k)
}

type c14bGen struct{ r *rand.Rand }

func (g c14bGen) str(n int) []byte {
	b := make([]byte, n)
	g.r.Read(b)
	if n == 1 {
		b[0] |= 0x80 // a one-byte string that needs a header
	}
	return b
}

// item: one valid canonical item whose ENCODING has exactly L bytes (1 <= L <= 56)
func (g c14bGen) item(L, depth int) []byte {
	if L == 1 {
		return []byte{[]byte{0x00, 0x01, 0x7f, 0x80, 0xC0, byte(g.r.Intn(128))}[g.r.Intn(6)]}
	}
	if depth > 0 && g.r.Intn(3) == 0 {
		return append([]byte{0xC0 + byte(L-1)}, g.fill(L-1, depth-1)...)
	}
	return append([]byte{0x80 + byte(L-1)}, g.str(L-1)...)
}

// fill: a concatenation of valid canonical items with exactly n bytes
func (g c14bGen) fill(n, depth int) []byte {
	out := make([]byte, 0, n)
	for n > 0 {
		L := 1 + g.r.Intn(min(n, 40))
		out = append(out, g.item(L, depth)...)
		n -= L
	}
	return out
}

// fillStrings: byte strings (each 2..55 bytes long, i.e. a one-byte header) whose encodings have exactly n bytes, n >= 3
func (g c14bGen) fillStrings(n int) []byte {
	var out []byte
	for n > 0 {
		L := n
		if L > 56 {
			L = 3 + g.r.Intn(50)
		}
		if n-L > 0 && n-L < 3 {
			L = n - 3
		}
		out = append(out, append([]byte{0x80 + byte(L-1)}, g.str(L-1)...)...)
		n -= L
	}
	return out
}

// c14BoundOps: the generic stream.
func c14BoundOps(c *Ctx) {
	g := c14bGen{rand.New(rand.NewSource(14055))}
	for _, kind := range []string{"string", "list"} {
		base := byte(0x80)
		if kind == "list" {
			base = 0xC0
		}
		for _, size := range c14bSizes {
			var payload []byte
			if kind == "list" {
				payload = g.fill(size, 2)
			} else {
				payload = g.str(size)
			}
			for k := 0; k <= 3; k++ {
				head := c14bHead(base, size, k)
				if head == nil {
					continue
				}
				canon := c14bCanon(size, k)
				if k != 0 && canon {
					continue // the same bytes as k = 0
				}
				item := append(append([]byte{}, head...), payload...)
				for _, pos := range []string{"top", "nested"} {
					b := item
					if pos == "nested" {
						if size > 300 {
							continue
						}
						b = c14tList([]byte{0x01}, item, []byte{0x80})
					}
					class := fmt.Sprintf("bound-%s-%s-%s", kind, c14bFormName(k), pos)
					line, _, ok := c14Dec(b)
					c.Count(fmt.Sprintf("bound:generic:%s:size=%d:%s:%s", kind, size, c14bFormName(k), map[bool]string{true: "accept", false: "reject"}[ok]))
					switch {
					case ok && !canon:
						c14Fail(c, "c14/noncanonical-accept/long-form-header", fmt.Sprintf("generic decoder accepts a %s with %d payload bytes under the non-minimal header %s (%s): %s", kind, size, c14hx(head), pos, firstWord(line)), map[string]string{"hex": c14hx(b)})
					case !ok && canon:
						c14Fail(c, "c14/canonical-rejected/long-form-header", fmt.Sprintf("generic decoder rejects a %s with %d payload bytes under its canonical header %s (%s): %s", kind, size, c14hx(head), pos, line), map[string]string{"hex": c14hx(b)})
					}
					c14DecOp(c, class, b, nil)
				}
			}
		}
	}
}

// ---------------------------------------------------------------- typed stream

func (t *c14tState) boundCheck(f *c14tFam, what string, size, k int, head, b []byte) {
	canon := c14bCanon(size, k)
	class := fmt.Sprintf("bound-%s-%s", what, c14bFormName(k))
	err, pan := c14tDec(b, f.fresh())
	accepted := err == nil && pan == ""
	t.c.Count(fmt.Sprintf("bound:typed:%s:%s:size=%d:%s:%s", f.name, what, size, c14bFormName(k), map[bool]string{true: "accept", false: "reject"}[accepted]))
	switch {
	case accepted && !canon:
		t.fail("c14/noncanonical-accept/long-form-header", fmt.Sprintf("%s decoder accepts %s with %d payload bytes under the non-minimal header %s", f.name, what, size, c14hx(head)), c14tHex(b))
	case !accepted && canon && pan == "":
		t.fail("c14/canonical-rejected/long-form-header", fmt.Sprintf("%s decoder rejects %s with %d payload bytes under its canonical header %s: %s", f.name, what, size, c14hx(head), c14tErrStr(err, pan)), c14tHex(b))
	}
	t.checkMut(f, class, b) // typed op (model: same verdict, same re-encoding) + the standard oracles
}

func (t *c14tState) c14BoundTyped() {
	g := c14bGen{rand.New(rand.NewSource(14056))}
	addr := func() []byte { a := g.str(20); a[0] |= 1; return c14tString(a) }
	sizes := []int{54, 55, 56, 57}
	forms := []int{0, 1, 2, 3}
	each := func(size int, f func(k int, head []byte)) {
		for _, k := range forms {
			head := c14bHead(0xC0, size, k)
			if head == nil || (k != 0 && c14bCanon(size, k)) {
				continue
			}
			f(k, head)
		}
	}
	wrapLog := func(logType byte, newVal []byte) []byte {
		return c14tList([]byte{logType}, addr(), []byte{1}, newVal, []byte{0xC0})
	}
	for _, s := range sizes {
		// (1) an Event whose own list has s payload bytes: address (21) + no topics (1) + data (1 + d)
		evPayload := append(append(addr(), 0xC0), c14tString(g.str(s-23))...)
		if len(evPayload) != s {
			t.fail("c14/bounds-generator", fmt.Sprintf("event payload %d != %d", len(evPayload), s), "")
			continue
		}
		each(s, func(k int, head []byte) {
			ev := append(append([]byte{}, head...), evPayload...)
			t.boundCheck(c14tFamEvent, "event-list", s, k, head, ev)
			// (2) … nested: NewVal of an AddEventLog, and that log inside a list of change logs
			cl := wrapLog(15, ev)
			t.boundCheck(c14tFamLog, "addeventlog-event-list", s, k, head, cl)
			t.boundCheck(c14tFamLogs, "changelogs-event-list", s, k, head, c14tList(wrapLog(1, []byte{9}), cl))
		})
		// (3) a CandidateLog whose PROFILE list has s payload bytes, and one whose PAIR has s payload bytes
		for L := 1; L < 80; L++ {
			pair := c14tList([]byte{'a'}, c14tString(g.str(L)))
			if len(pair) == s {
				each(s, func(k int, head []byte) {
					prof := append(append([]byte{}, head...), pair...)
					t.boundCheck(c14tFamLog, "candidatelog-profile-list", s, k, head, wrapLog(12, prof))
				})
			}
			if pairPayload := append([]byte{'a'}, c14tString(g.str(L))...); len(pairPayload) == s {
				each(s, func(k int, head []byte) {
					p := append(append([]byte{}, head...), pairPayload...)
					t.boundCheck(c14tFamLog, "candidatelog-pair-list", s, k, head, wrapLog(12, c14tList(p)))
				})
			}
		}
		// (4) a transaction whose Sigs list (element 14 of txdata) has s payload bytes
		var tx *types.Transaction
		for i := 0; i < 20 && tx == nil; i++ {
			tx, _ = t.genTx(false)
		}
		if tx != nil {
			if enc, err, pan := c14tEnc(tx); err == nil && pan == "" {
				if items, ok := c14kSplit(enc); ok && len(items) == 16 {
					sigs := g.fillStrings(s)
					each(s, func(k int, head []byte) {
						it := c14tCopyItems(items)
						it[14] = append(append([]byte{}, head...), sigs...)
						t.boundCheck(c14tFamTx, "tx-sigs-list", s, k, head, c14tList(it...))
					})
				} else {
					t.fail("c14/bounds-generator", "cannot split the canonical transaction encoding into 16 elements", c14tHex(enc))
				}
			}
		}
		// (5) a STRING at the boundary inside a typed value: the Data of an Event with s bytes
		data := g.str(s)
		for _, k := range forms {
			head := c14bHead(0x80, s, k)
			if head == nil || (k != 0 && c14bCanon(s, k)) {
				continue
			}
			ev := c14tList(addr(), []byte{0xC0}, append(append([]byte{}, head...), data...))
			t.boundCheck(c14tFamEvent, "event-data-string", s, k, head, ev)
		}
	}
}

package main

// c14_classify.go: root-cause classification of "decoder accepted bytes that re-encode differently".
//
// The first five classes below are CLOSED findings (repaired in /repo by 05de783, ac28a64, 8a6b205, 4ab6b74 + a0389ea,
// 7e982c7): the generator keeps producing their inputs, the decoders now reject them, and the classes stay here so that
// the oracle reports the same stable signature if one of them ever returns.
//
// The class is decided from the INNERMOST typed field at which the accepted wire bytes and the
// re-encoding first differ, independent of the wrapping type and of the position:
//   header-root                   Header TxRoot/LogRoot of a length != 32 or an explicit EmptyTrieHash   (block.go:231-240)
//   nil-pointer-as-empty-list     a `rlp:"nil"` pointer field given as 0xC0                               (rlp/decode.go:455)
//   profile/<shape>               Profile.DecodeRLP laxness, pinned to its witness shapes (c14kProfileShape)    (account_data.go:91-107)
//   changelog-payload/<decoder>   NewVal/Extra of a change log, named after the registered decoder        (account/change_log.go:121-250)
//   changelog-eol                 a change log with fewer than 5 elements inside a list                   (change_log.go:103-131 + rlp/decode.go:323)
// Everything else keeps a distinct descriptive class:
//   rlp-level/<what>              the wire element itself violates the RLP canonical rules (checked by an
//                                 independent strict parser below, NOT by the package under test)
//   field/<struct>.<field>:<kind> a reflection-decoded field differs
//   <struct>-field-count, <elem>-slice-length, untyped/<family>, ...

import (
	"bytes"
	"fmt"

	"github.com/LemoFoundationLtd/lemochain-core/chain/account"
	"github.com/LemoFoundationLtd/lemochain-core/chain/types"
	"github.com/LemoFoundationLtd/lemochain-core/common/merkle"
)

type c14kKind int

const (
	c14kLeaf c14kKind = iota
	c14kStruct
	c14kSlice
	c14kProfile
	c14kRoot
	c14kOptAddr
	c14kPayload
)

type c14kTy struct {
	kind   c14kKind
	name   string
	fields []c14kField
	elem   *c14kTy
}

type c14kField struct {
	name string
	ty   *c14kTy
}

func c14kL(kind string) *c14kTy { return &c14kTy{kind: c14kLeaf, name: kind} }
func c14kS(name string, fs ...c14kField) *c14kTy {
	return &c14kTy{kind: c14kStruct, name: name, fields: fs}
}
func c14kSl(elem *c14kTy) *c14kTy             { return &c14kTy{kind: c14kSlice, name: elem.name, elem: elem} }
func c14kF(name string, ty *c14kTy) c14kField { return c14kField{name, ty} }

var (
	c14kUint    = c14kL("uint")
	c14kBig     = c14kL("big")
	c14kHash    = c14kL("hash")
	c14kAddr    = c14kL("address")
	c14kBytes   = c14kL("bytes")
	c14kString  = c14kL("string")
	c14kBool    = c14kL("bool")
	c14kSig     = &c14kTy{kind: c14kLeaf, name: "signdata"}
	c14kProf    = &c14kTy{kind: c14kProfile, name: "profile"}
	c14kRootTy  = &c14kTy{kind: c14kRoot, name: "root"}
	c14kOpt     = &c14kTy{kind: c14kOptAddr, name: "optaddr"}
	c14kPayl    = &c14kTy{kind: c14kPayload, name: "payload"}
	c14kHeader  = c14kS("header", c14kF("ParentHash", c14kHash), c14kF("MinerAddress", c14kAddr), c14kF("VersionRoot", c14kHash), c14kF("TxRoot", c14kRootTy), c14kF("LogRoot", c14kRootTy), c14kF("Height", c14kUint), c14kF("GasLimit", c14kUint), c14kF("GasUsed", c14kUint), c14kF("Time", c14kUint), c14kF("SignData", c14kBytes), c14kF("DeputyRoot", c14kBytes), c14kF("Extra", c14kString))
	c14kTx      = c14kS("tx", c14kF("Type", c14kUint), c14kF("Version", c14kUint), c14kF("ChainID", c14kUint), c14kF("From", c14kAddr), c14kF("GasPayer", c14kOpt), c14kF("Recipient", c14kOpt), c14kF("RecipientName", c14kString), c14kF("GasPrice", c14kBig), c14kF("GasLimit", c14kUint), c14kF("GasUsed", c14kUint), c14kF("Amount", c14kBig), c14kF("Data", c14kBytes), c14kF("Expiration", c14kUint), c14kF("Message", c14kString), c14kF("Sigs", c14kSl(c14kL("sig-bytes"))), c14kF("GasPayerSigs", c14kSl(c14kL("sig-bytes"))))
	c14kLog     = c14kS("changelog", c14kF("LogType", c14kUint), c14kF("Address", c14kAddr), c14kF("Version", c14kUint), c14kF("NewVal", c14kPayl), c14kF("Extra", c14kPayl))
	c14kDeputy  = c14kS("deputynode", c14kF("MinerAddress", c14kAddr), c14kF("NodeID", c14kBytes), c14kF("Rank", c14kUint), c14kF("Votes", c14kBig))
	c14kBlock   = c14kS("block", c14kF("Header", c14kHeader), c14kF("Txs", c14kSl(c14kTx)), c14kF("ChangeLogs", c14kSl(c14kLog)), c14kF("Confirms", c14kSl(c14kSig)), c14kF("DeputyNodes", c14kSl(c14kDeputy)))
	c14kAsset   = c14kS("asset", c14kF("Category", c14kUint), c14kF("IsDivisible", c14kBool), c14kF("AssetCode", c14kHash), c14kF("Decimal", c14kUint), c14kF("TotalSupply", c14kBig), c14kF("IsReplenishable", c14kBool), c14kF("Issuer", c14kAddr), c14kF("Profile", c14kProf))
	c14kEquity  = c14kS("assetequity", c14kF("AssetCode", c14kHash), c14kF("AssetId", c14kHash), c14kF("Equity", c14kBig))
	c14kEvent   = c14kS("event", c14kF("Address", c14kAddr), c14kF("Topics", c14kSl(c14kHash)), c14kF("Data", c14kBytes))
	c14kAccount = c14kS("accountdata", c14kF("Address", c14kAddr), c14kF("Balance", c14kBig), c14kF("CodeHash", c14kHash), c14kF("StorageRoot", c14kHash), c14kF("AssetCodeRoot", c14kHash), c14kF("AssetIdRoot", c14kHash), c14kF("EquityRoot", c14kHash),
		c14kF("TxHashList", c14kSl(c14kHash)), c14kF("VoteFor", c14kAddr), c14kF("Candidate", c14kS("candidate", c14kF("Votes", c14kBig), c14kF("Profile", c14kProf))), c14kF("TxCount", c14kUint),
		c14kF("NewestRecords", c14kSl(c14kS("versionrecord", c14kF("LogType", c14kUint), c14kF("Version", c14kUint), c14kF("Height", c14kUint)))), c14kF("Signers", c14kSl(c14kS("signaccount", c14kF("Address", c14kAddr), c14kF("Weight", c14kUint)))))
	c14kConfirm  = c14kS("blockconfirm", c14kF("Hash", c14kHash), c14kF("Height", c14kUint), c14kF("SignInfo", c14kSig))
	c14kConfirms = c14kS("blockconfirms", c14kF("Height", c14kUint), c14kF("Hash", c14kHash), c14kF("Pack", c14kSl(c14kSig)))
)

// family name (c14tFam.name) -> type description; nil = not described ("untyped/<family>")
func c14kFamilyTy(fam string) *c14kTy {
	switch fam {
	case "header":
		return c14kHeader
	case "block":
		return c14kBlock
	case "blocks":
		return c14kSl(c14kBlock)
	case "tx":
		return c14kTx
	case "netmsg-txs":
		return c14kSl(c14kTx)
	case "changelog":
		return c14kLog
	case "changelogs":
		return c14kSl(c14kLog)
	case "accountdata":
		return c14kAccount
	case "deputynode":
		return c14kDeputy
	case "deputynodes":
		return c14kSl(c14kDeputy)
	case "event":
		return c14kEvent
	case "asset":
		return c14kAsset
	case "assetequity":
		return c14kEquity
	case "netmsg-blockconfirm":
		return c14kConfirm
	case "netmsg-blockconfirms":
		return c14kConfirms
	case "netmsg-signdata":
		return c14kSig
	}
	return nil
}

// registered payload decoders, mirror of /repo/chain/account/change_log.go:54-72 (NewVal, Extra)
var c14kLogDecoders = map[types.ChangeLogType][2]string{
	account.BalanceLog:              {"decodeBigInt", "decodeEmptyInterface"},
	account.StorageLog:              {"decodeBytes", "decodeHash"},
	account.StorageRootLog:          {"decodeHash", "decodeEmptyInterface"},
	account.AssetCodeLog:            {"decodeAsset", "decodeHash"},
	account.AssetCodeRootLog:        {"decodeHash", "decodeEmptyInterface"},
	account.AssetCodeStateLog:       {"decodeString", "decodeProfileChangeLogExtra"},
	account.AssetCodeTotalSupplyLog: {"decodeBigInt", "decodeHash"},
	account.AssetIdLog:              {"decodeString", "decodeHash"},
	account.AssetIdRootLog:          {"decodeHash", "decodeEmptyInterface"},
	account.EquityLog:               {"decodeEquity", "decodeHash"},
	account.EquityRootLog:           {"decodeHash", "decodeEmptyInterface"},
	account.CodeLog:                 {"decodeCode", "decodeEmptyInterface"},
	account.AddEventLog:             {"decodeEvent", "decodeEmptyInterface"},
	account.SuicideLog:              {"decodeEmptyInterface", "decodeEmptyInterface"},
	account.VoteForLog:              {"decodeAddress", "decodeEmptyInterface"},
	account.VotesLog:                {"decodeBigInt", "decodeEmptyInterface"},
	account.SignerLog:               {"decodeSigners", "decodeEmptyInterface"},
	account.CandidateLog:            {"decodeCandidate", "decodeEmptyInterface"},
	account.CandidateStateLog:       {"decodeString", "decodeString"},
}

// ---- lenient item parser: bounds only, no canonical rules

func c14kItem(b []byte) (isList bool, content, rest []byte, ok bool) {
	if len(b) == 0 {
		return false, nil, nil, false
	}
	tag := b[0]
	var off, n uint64
	switch {
	case tag < 0x80:
		return false, b[:1], b[1:], true
	case tag < 0xb8:
		off, n = 1, uint64(tag-0x80)
	case tag < 0xc0:
		off = 1 + uint64(tag-0xb7)
	case tag < 0xf8:
		isList = true
		off, n = 1, uint64(tag-0xc0)
	default:
		isList = true
		off = 1 + uint64(tag-0xf7)
	}
	if off > 1 {
		if uint64(len(b)) < off {
			return false, nil, nil, false
		}
		for _, x := range b[1:off] {
			if n > (1 << 40) {
				return false, nil, nil, false
			}
			n = n<<8 | uint64(x)
		}
	}
	if n > uint64(len(b))-off {
		return false, nil, nil, false
	}
	return isList, b[off : off+n], b[off+n:], true
}

// elements of the list `elem` (which must be exactly one list item)
func c14kSplit(elem []byte) ([][]byte, bool) {
	isList, content, rest, ok := c14kItem(elem)
	if !ok || !isList || len(rest) != 0 {
		return nil, false
	}
	var items [][]byte
	for len(content) > 0 {
		_, _, r, ok := c14kItem(content)
		if !ok {
			return nil, false
		}
		items = append(items, content[:len(content)-len(r)])
		content = r
		if len(items) > 200000 {
			return nil, false
		}
	}
	return items, true
}

// c14kSplitPrefix: the elements of the list `elem` that can be read, and the unreadable tail (if any)
func c14kSplitPrefix(elem []byte) (items [][]byte, tail []byte, ok bool) {
	isList, content, rest, ok := c14kItem(elem)
	if !ok || !isList || len(rest) != 0 {
		return nil, nil, false
	}
	for len(content) > 0 {
		_, _, r, ok := c14kItem(content)
		if !ok {
			return items, content, true
		}
		items = append(items, content[:len(content)-len(r)])
		content = r
	}
	return items, nil, true
}

// ---- strict canonical checker (independent of the package under test)

// c14kHeaderCanon: b is exactly one item whose OWN header is canonical (children not inspected).
func c14kHeaderCanon(b []byte) bool {
	isList, content, rest, ok := c14kItem(b)
	if !ok || len(rest) != 0 {
		return false
	}
	if b[0] < 0x80 {
		return true
	}
	if !isList && len(content) == 1 && content[0] < 0x80 {
		return false
	}
	base := byte(0x80)
	if isList {
		base = 0xc0
	}
	return bytes.Equal(b[:len(b)-len(content)], c14tEncLen(base, len(content), 0))
}

func c14kStrict(b []byte, depth int) bool {
	if !c14kHeaderCanon(b) {
		return false
	}
	isList, _, _, _ := c14kItem(b)
	if !isList {
		return true
	}
	if depth > 64 {
		return false
	}
	items, ok := c14kSplit(b)
	if !ok {
		return false
	}
	for _, it := range items {
		if !c14kStrict(it, depth+1) {
			return false
		}
	}
	return true
}

func c14kIsShortLog(elem []byte) bool {
	items, ok := c14kSplit(elem)
	return ok && len(items) < 5
}

func c14kHasShortLog(listElem []byte) bool {
	items, ok := c14kSplit(listElem)
	if !ok {
		return false
	}
	for _, it := range items {
		if c14kIsShortLog(it) {
			return true
		}
	}
	return false
}

func c14kBE(b []byte) uint64 {
	var n uint64
	for _, x := range b {
		n = n<<8 | uint64(x)
	}
	return n
}

// c14kClassify returns (class, path). w = accepted wire element, r = the corresponding element of the re-encoding.
func c14kClassify(ty *c14kTy, w, r []byte, path string) (string, string) {
	if ty == nil {
		return "untyped", path
	}
	if ty.kind == c14kProfile {
		return c14kProfileShape(w), path
	}
	if !c14kHeaderCanon(w) {
		return "rlp-level/" + ty.name, path
	}
	switch ty.kind {
	case c14kStruct:
		ws, ok1 := c14kSplit(w)
		rs, ok2 := c14kSplit(r)
		if !ok1 && ok2 && len(rs) == len(ty.fields) {
			// the element list stops at a header that cannot be read (e.g. a lone 0xFC): if that is exactly where the
			// Profile sits, Profile.DecodeRLP has ignored the error of Stream.Kind and taken it for "size zero"
			if pre, tail, okp := c14kSplitPrefix(w); okp && len(tail) > 0 && len(pre) < len(ty.fields) &&
				ty.fields[len(pre)].ty.kind == c14kProfile && len(pre)+1 == len(ty.fields) && bytes.Equal(rs[len(pre)], []byte{0xc0}) {
				same := true
				for i := range pre {
					same = same && bytes.Equal(pre[i], rs[i])
				}
				if same {
					return "profile/empty-form", path + "." + ty.fields[len(pre)].name + "(unreadable header)"
				}
			}
		}
		if !ok1 || !ok2 {
			return ty.name + "-not-a-list", path
		}
		if ty.name == "block" && len(ws) >= 3 && c14kHasShortLog(ws[2]) {
			return "changelog-eol", path + ".ChangeLogs"
		}
		if len(ws) != len(rs) || len(ws) != len(ty.fields) {
			if len(ws)+1 == len(ty.fields) && len(rs) == len(ty.fields) && ty.fields[len(ws)].ty.kind == c14kProfile && bytes.Equal(rs[len(ws)], []byte{0xc0}) {
				return "profile/missing-field", path + "." + ty.fields[len(ws)].name + "(missing)"
			}
			return ty.name + "-field-count", path
		}
		for i := range ws {
			if bytes.Equal(ws[i], rs[i]) {
				continue
			}
			f := ty.fields[i]
			p := path + "." + f.name
			if f.ty.kind == c14kPayload {
				return c14kPayload_(types.ChangeLogType(c14kContentBE(ws[0])), i-3, ws[i], rs[i], p)
			}
			cl, pp := c14kClassify(f.ty, ws[i], rs[i], p)
			if cl == "leaf" {
				cl = "field/" + ty.name + "." + f.name + ":" + f.ty.name
			}
			return cl, pp
		}
		return ty.name + "-identical-fields", path
	case c14kSlice:
		ws, ok1 := c14kSplit(w)
		rs, ok2 := c14kSplit(r)
		if !ok1 || !ok2 {
			return ty.name + "-slice-not-a-list", path
		}
		if ty.elem.name == "changelog" {
			for _, it := range ws {
				if c14kIsShortLog(it) {
					return "changelog-eol", path
				}
			}
		}
		if len(ws) != len(rs) {
			return ty.name + "-slice-length", path
		}
		for i := range ws {
			if !bytes.Equal(ws[i], rs[i]) {
				cl, pp := c14kClassify(ty.elem, ws[i], rs[i], fmt.Sprintf("%s[%d]", path, i))
				if cl == "leaf" {
					cl = "field/" + ty.name + "-element"
				}
				return cl, pp
			}
		}
		return ty.name + "-slice-identical", path
	case c14kRoot:
		isList, content, _, _ := c14kItem(w)
		if !isList && (len(content) != 32 || bytes.Equal(content, merkle.EmptyTrieHash[:])) {
			return "header-root", path
		}
		return "field/header-root-other", path
	case c14kOptAddr:
		if bytes.Equal(w, []byte{0xc0}) {
			return "nil-pointer-as-empty-list", path
		}
		return "field/optional-address-other", path
	}
	if !c14kStrict(w, 0) {
		return "rlp-level/" + ty.name, path
	}
	return "leaf", path
}

func c14kContentBE(elem []byte) uint64 {
	_, content, _, ok := c14kItem(elem)
	if !ok || len(content) > 8 {
		return 0
	}
	return c14kBE(content)
}

// change-log payload (which = 0 NewVal, 1 Extra)
func c14kPayload_(lt types.ChangeLogType, which int, w, r []byte, path string) (string, string) {
	decs, ok := c14kLogDecoders[lt]
	if !ok || which < 0 || which > 1 {
		return "changelog-payload/unknown-log-type", path
	}
	dec := decs[which]
	path += "(" + lt.String() + ":" + dec + ")"
	isList, content, _, okw := c14kItem(w)
	nonEmptyList := okw && isList && len(content) > 0
	switch {
	case dec == "decodeAsset" && nonEmptyList:
		cl, pp := c14kClassify(c14kAsset, w, r, path)
		if cl == "leaf" {
			cl = "field/asset-in-changelog"
		}
		return cl, pp
	case dec == "decodeCandidate" && nonEmptyList:
		return c14kProfileShape(w), path
	}
	if !c14kStrict(w, 0) {
		return "rlp-level/changelog-payload", path
	}
	// pinned witness shapes of the known laxness of each decoder; anything else is a different defect
	sizeZeroNonList := okw && !isList && (len(content) == 0 || (len(w) == 1 && w[0] < 0x80))
	switch dec {
	case "decodeHash":
		if okw && !isList && len(content) != 32 {
			return "changelog-payload/decodeHash", path
		}
	case "decodeAddress":
		if okw && !isList && len(content) != 20 {
			return "changelog-payload/decodeAddress", path
		}
	case "decodeEmptyInterface", "decodeSigners", "decodeAsset", "decodeEquity", "decodeProfileChangeLogExtra":
		// `size <= 0` accepts the empty string and a single byte < 0x80 for nil, which is written 0xC0
		if sizeZeroNonList && bytes.Equal(r, []byte{0xc0}) {
			return "changelog-payload/" + dec, path
		}
	}
	return "changelog-payload-other/" + dec, path
}

// c14kProfileShape pins the known laxness of Profile.DecodeRLP (account_data.go:91-107) to its witness shapes:
//
//	profile/empty-form     a size-zero header that is not 0xC0 (0x80, a single byte < 0x80, or a non-canonical
//	                       size-zero header like 0xF800: the error of Stream.Kind is ignored)
//	profile/duplicate-key  a list of well-formed (key, value) pairs in which a key occurs twice
//	profile/unsorted       a list of well-formed pairs with distinct keys that are not in ascending order
//
// anything else that reaches a Profile is reported as profile-other (a different defect).
func c14kProfileShape(w []byte) string {
	isList, content, rest, ok := c14kItem(w)
	if !ok || len(rest) != 0 {
		return "profile-other"
	}
	if len(content) == 0 || (len(w) == 1 && w[0] < 0x80) {
		if bytes.Equal(w, []byte{0xc0}) {
			return "profile-other"
		}
		return "profile/empty-form"
	}
	if !isList || !c14kStrict(w, 0) {
		return "profile-other"
	}
	items, ok := c14kSplit(w)
	if !ok {
		return "profile-other"
	}
	var keys []string
	for _, it := range items {
		kv, ok := c14kSplit(it)
		if !ok || len(kv) != 2 {
			return "profile-other"
		}
		l1, k, _, _ := c14kItem(kv[0])
		l2, _, _, _ := c14kItem(kv[1])
		if l1 || l2 {
			return "profile-other"
		}
		keys = append(keys, string(k))
	}
	seen := map[string]bool{}
	for _, k := range keys {
		if seen[k] {
			return "profile/duplicate-key"
		}
		seen[k] = true
	}
	for i := 1; i < len(keys); i++ {
		if keys[i-1] > keys[i] {
			return "profile/unsorted"
		}
	}
	return "profile-other"
}

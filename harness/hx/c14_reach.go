package main

// c14_reach.go: generator reach added after the independent review (direct oracles, no op lines):
//   1. encoder/decoder branches for lengths >= 2^16 / 2^24 (putint, readUint with 3 and 4 size bytes)
//   2. adversarial JSON in the Data of a box transaction (Hash() -> GetBox -> UnmarshalJSON, VerifyTxBody, signers)
//   3. the p2p handshake messages authReqMsg / authRespMsg (decoded with NewStream(...,0), error dropped by the caller)
//   4. address text with non-ASCII characters, white space, NUL (strings.ToUpper is Unicode, the model is ASCII)

import (
	"bytes"
	"encoding/hex"
	"encoding/json"
	"fmt"
	"math/big"
	"strings"

	"github.com/LemoFoundationLtd/lemochain-core/chain/params"
	"github.com/LemoFoundationLtd/lemochain-core/chain/types"
	"github.com/LemoFoundationLtd/lemochain-core/common"
	"github.com/LemoFoundationLtd/lemochain-core/common/rlp"
	"github.com/LemoFoundationLtd/lemochain-core/network/p2p"
)

func c14Reach(c *Ctx) {
	c14ReachLarge(c)
	n := c.N / 10
	if n < 100 {
		n = 100
	}
	for i := 0; i < n; i++ {
		c14ReachBoxJSON(c)
		c14ReachAuth(c)
		c14ReachAddrText(c)
	}
}

// ---- 1. large lengths (implementation against the specification header c14Head; the model covers all sizes by proof)

func c14ReachLarge(c *Ctx) {
	sizes := []int{1 << 16, 1<<24 - 1, 1 << 24, 1<<24 + 1}
	if c.Tier == "thorough" {
		sizes = append(sizes, 1<<25+3)
	}
	for _, n := range sizes {
		data := make([]byte, n)
		for i := 0; i < n; i += 4099 {
			data[i] = byte(c.Rnd.Intn(256))
		}
		data[0] = 0x80
		// a string of n bytes
		out := Safe(func() string {
			enc, err := rlp.EncodeToBytes(data)
			if err != nil {
				return "encode error " + err.Error()
			}
			want := append(c14Head(0x80, n), data...)
			if !bytes.Equal(enc, want) {
				return fmt.Sprintf("string header %x, want %x", enc[:6], want[:6])
			}
			var v interface{}
			if err := rlp.DecodeBytes(enc, &v); err != nil {
				return "decode error " + err.Error()
			}
			if b, ok := v.([]byte); !ok || !bytes.Equal(b, data) {
				return "decoded value differs"
			}
			// a list whose payload is that string twice: payload >= 2n
			lst := []interface{}{data, data}
			lenc, err := rlp.EncodeToBytes(lst)
			if err != nil {
				return "list encode error " + err.Error()
			}
			lwant := append(c14Head(0xc0, 2*len(enc)), append(append([]byte{}, enc...), enc...)...)
			if !bytes.Equal(lenc, lwant) {
				return fmt.Sprintf("list header %x, want %x", lenc[:6], lwant[:6])
			}
			if err := rlp.DecodeBytes(lenc, &v); err != nil {
				return "list decode error " + err.Error()
			}
			re, _ := rlp.EncodeToBytes(v)
			if !bytes.Equal(re, lenc) {
				return "list re-encoding differs"
			}
			// one byte short / one byte long are rejected
			if err := rlp.DecodeBytes(lenc[:len(lenc)-1], &v); err == nil {
				return "truncated large list accepted"
			}
			if err := rlp.DecodeBytes(append(lenc, 0), &v); err == nil {
				return "large list with a trailing byte accepted"
			}
			if k, content, rest, err := rlp.Split(lenc); err != nil || k != rlp.List || len(content) != 2*len(enc) || len(rest) != 0 {
				return "rlp.Split on a large list"
			}
			return "ok"
		})
		c.Count(fmt.Sprintf("large:%d:%s", n, firstWord(out)))
		if out != "ok" {
			c14Fail(c, "c14/generic-large-length", fmt.Sprintf("length %d: %s", n, out), nil)
		}
	}
}

// ---- 2. adversarial box JSON

var c14BoxJSON = []string{
	`{"subTxList":[null]}`, `{"subTxList":null}`, `{"subTxList":[]}`, `{"subTxList":[{}]}`, `{"subTxList":[[]]}`, `{"subTxList":{}}`,
	`{"subTxList":[{"type":"1"}]}`, `[]`, `null`, `nul`, ``, `{}`, `{"subTxList":[null,null]}`, `{"subTxList":"x"}`, `{"subTxList":[1]}`,
	`{"subTxList":[{"type":"99999999999999999999"}]}`, `{"subTxList":[{"type":"-1"}]}`, "{\"subTxList\":[{\"type\":\"\u0000\"}]}",
	`{"subTxList":[],"subTxList":[null]}`, `{"SUBTXLIST":[null]}`, `{"subTxList":[{"sigs":[null]}]}`,
}

func c14SubTxJSON(c *Ctx, depth int) string {
	from := common.BytesToAddress([]byte{byte(1 + c.Rnd.Intn(200))})
	var tx *types.Transaction
	if depth > 0 && c.Rnd.Intn(2) == 0 {
		// a box inside a box (forbidden by VerifyTxBody, but Hash() walks it first)
		inner := `{"subTxList":[` + c14SubTxJSON(c, depth-1) + `]}`
		tx = types.NoReceiverTransaction(from, big.NewInt(0), 100, big.NewInt(1), []byte(inner), params.BoxTx, 1, 1000, "", "")
	} else {
		tx = types.NewTransaction(from, common.BytesToAddress([]byte{9}), big.NewInt(int64(c.Rnd.Intn(1000))), 100, big.NewInt(1), nil, params.OrdinaryTx, 1, 1000, "", "m")
	}
	b, _ := json.Marshal(tx)
	return string(b)
}

func c14ReachBoxJSON(c *Ctx) {
	var js string
	class := "fixed"
	switch c.Rnd.Intn(5) {
	case 0:
		js = c14BoxJSON[c.Rnd.Intn(len(c14BoxJSON))]
	case 1:
		class = "nested"
		js = `{"subTxList":[` + c14SubTxJSON(c, 1+c.Rnd.Intn(5)) + `]}`
	default:
		class = "mutated"
		base := []byte(`{"subTxList":[` + c14SubTxJSON(c, 1) + `,` + c14SubTxJSON(c, 0) + `]}`)
		for k := 0; k < 1+c.Rnd.Intn(3); k++ {
			switch c.Rnd.Intn(5) {
			case 0:
				pool := []byte("{}[]\":,0n\\ \x00\xff")
				base[c.Rnd.Intn(len(base))] = pool[c.Rnd.Intn(len(pool))]
			case 1:
				base = base[:c.Rnd.Intn(len(base)+1)]
			case 2:
				base = bytes.Replace(base, []byte(`"0x`), []byte(`"0X`), 1)
			case 3:
				i := bytes.IndexByte(base, ':')
				if i > 0 {
					base = append(base[:i+1], append([]byte("null"), base[i+1:]...)...)
				}
			default:
				base = bytes.Replace(base, []byte(`"Lemo`), []byte(`"Lemoſ`), 1)
			}
			if len(base) == 0 {
				break
			}
		}
		js = string(base)
	}
	tx := types.NoReceiverTransaction(common.BytesToAddress([]byte{1}), big.NewInt(0), 100, big.NewInt(1), []byte(js), params.BoxTx, 1, 1000, "", "")
	enc, err := rlp.EncodeToBytes(tx)
	if err != nil {
		return
	}
	var dec types.Transaction
	if err := rlp.DecodeBytes(enc, &dec); err != nil {
		c14Fail(c, "c14/box-json-roundtrip-error", "a box tx with arbitrary Data does not decode from its own RLP: "+err.Error(), js)
		return
	}
	c.Count("boxjson:" + class)
	var h1, h2 common.Hash
	calls := []struct {
		name string
		f    func()
	}{
		{"Hash", func() { h1 = tx.Hash(); h2 = dec.Hash() }},
		{"GetSigners", func() { types.MakeSigner().GetSigners(&dec); types.MakeGasPayerSigner().GetSigners(&dec) }},
		{"VerifyTxBody", func() { dec.VerifyTxBody(1, 500, false); dec.VerifyTxBody(1, 500, true) }},
		{"MarshalJSON", func() { json.Marshal(&dec) }},
		{"String", func() { _ = dec.String() }},
		{"GetBox", func() { types.GetBox(dec.Data()) }},
	}
	for _, cl := range calls {
		_, msg := SafeMsg(func() string { cl.f(); return "" })
		if msg != "" {
			c14Fail(c, "c14/box-json-panic/"+cl.name, cl.name+" panics on a box tx whose Data is "+fmt.Sprintf("%.300q", js)+": "+msg, js)
		}
	}
	if h1 != h2 {
		c14Fail(c, "c14/box-json-hash-unstable", "Hash() differs after the RLP round trip of a box tx with Data "+fmt.Sprintf("%.300q", js), js)
	}
}

// ---- 3. p2p handshake messages

func c14ReachAuth(c *Ctx) {
	mk := func(lens ...int) []byte {
		var payload []byte
		for _, n := range lens {
			b := make([]byte, n)
			c.Rnd.Read(b)
			payload = append(payload, append(c14Head(0x80, n), b...)...)
		}
		return append(c14Head(0xc0, len(payload)), payload...)
	}
	for _, which := range []string{"req", "resp"} {
		var base []byte
		if which == "req" {
			base = mk(65, 64, 32)
		} else {
			base = mk(64, 32)
		}
		in, class := base, "valid"
		if c.Rnd.Intn(3) != 0 {
			in, class = c14Mutate(c, base)
		}
		var reenc []byte
		var err error
		_, msg := SafeMsg(func() string {
			if which == "req" {
				_, reenc, err = p2p.VerifDecodeAuthReq(in)
			} else {
				_, reenc, err = p2p.VerifDecodeAuthResp(in)
			}
			return ""
		})
		c.Count("auth:" + which + ":" + class)
		switch {
		case msg != "":
			c14Fail(c, "c14/auth-decode-panic", "decoding a handshake "+which+" message panics: "+msg, hex.EncodeToString(in))
		case class == "valid" && (err != nil || !bytes.Equal(reenc, in)):
			c14Fail(c, "c14/auth-roundtrip", fmt.Sprintf("handshake %s message does not round-trip: %v", which, err), hex.EncodeToString(in))
		case err == nil && !bytes.Equal(reenc, in):
			if bytes.HasPrefix(in, reenc) {
				c.Count("info:auth-stream-decode-trailing-accepted") // NewStream(...).Decode reads ONE value; the rest of the decrypted buffer is ignored
			} else {
				c14Fail(c, "c14/auth-noncanonical-accept", "handshake "+which+" decoder accepted bytes that re-encode to "+hex.EncodeToString(reenc), hex.EncodeToString(in))
			}
		}
	}
}

// ---- 4. address text beyond ASCII

func c14ReachAddrText(c *Ctx) {
	var a common.Address
	c.Rnd.Read(a[c.Rnd.Intn(20):])
	text := a.String()
	body := []rune(text[4:])
	i := c.Rnd.Intn(len(body))
	class := ""
	switch c.Rnd.Intn(6) {
	case 0:
		// U+017F LATIN SMALL LETTER LONG S upper-cases to 'S' (a digit of the alphabet) in strings.ToUpper
		j := strings.IndexRune(string(body), 'S')
		if j < 0 {
			return
		}
		body[j] = 'ſ'
		class = "long-s-for-S"
	case 1:
		body[i] = []rune{'é', 'ß', 'ı', 'ⱥ', '世', 0x1F600, 'K'}[c.Rnd.Intn(7)]
		class = "non-ascii"
	case 2:
		body[i] = []rune{' ', '\t', '\n', 0, 0x7f}[c.Rnd.Intn(5)]
		class = "space-or-control"
	case 3:
		text = "Lemo" + string(body) + string([]rune{'ſ', 'é', ' '}[c.Rnd.Intn(3)])
		body = nil
		class = "suffix"
	case 4:
		text = string([]rune{'ſ', 'Ｌ', ' '}[c.Rnd.Intn(3)]) + text
		body = nil
		class = "prefix"
	default:
		text = "Lemo" + string([]byte{0xff, 0xfe}) + string(body[2:])
		body = nil
		class = "invalid-utf8"
	}
	if body != nil {
		text = "Lemo" + string(body)
	}
	var d common.Address
	var err error
	_, msg := SafeMsg(func() string { err = d.Decode(text); return "" })
	res := "rejected"
	if msg != "" {
		c14Fail(c, "c14/address-decode-panic", "Address.Decode panics on "+fmt.Sprintf("%q", text)+": "+msg, text)
		return
	}
	if err == nil {
		res = "accepted-other"
		if d == a {
			res = "accepted-same"
		}
	}
	c.Count("addrtext:" + class + ":" + res)
	// JSON / text unmarshalling of the same text
	_, msg = SafeMsg(func() string {
		var x common.Address
		x.UnmarshalText([]byte(text))
		js, _ := json.Marshal(text)
		x.UnmarshalJSON(js)
		common.StringToAddress(text)
		return ""
	})
	if msg != "" {
		c14Fail(c, "c14/address-decode-panic", "Address.UnmarshalText/UnmarshalJSON panics on "+fmt.Sprintf("%q", text)+": "+msg, text)
	}
	if class == "long-s-for-S" && res != "accepted-same" {
		// strings.ToUpper maps U+017F to 'S': the text is one more spelling of the same address (like lower case)
		c.Count("info:address-long-s-not-an-alias")
	}
}

package main

// c14_tie.go: ties of the TYPED layer of the C14 model to the code.
//
//   schema <GoType>      the field layout of a consensus struct, derived from the Go SOURCE of the tree under
//                        test with go/ast (never from the Lean side), rendered like Driver.C14.showSchema
//   logdec <n>           the (NewVal, Extra) payload decoders registered for change-log type n, read off the
//                        RegisterChangeLog calls and the iota block of chain/account/change_log.go
//   typed <family> <hex> (emitted from c14_typed.go: checkMut / roundTrip) the real typed decoder on the bytes,
//                        then the real encoder on the decoded value: "ok <hex>" | "err"; the model must agree on
//                        accept/reject (false rejects and false accepts) and on the re-encoding (= the value).
//                        Families: header, tx, deputynode, event, assetequity, blockconfirm, blockconfirms, handshake,
//                        asset, changelog, changelogs, (since the strictness fixes of /repo) block, accountdata, getblocks
//                        and - from c14_account.go, through p2p.Msg.Decode - blocksmsg.

import (
	"fmt"
	"go/ast"
	"go/parser"
	"go/token"
	"path/filepath"
	"reflect"
	"strconv"
	"strings"
)

type c14Src struct {
	types  map[string]ast.Expr // "pkg.Name" -> type expression
	consts map[string]int      // "pkg.Name" -> integer constant
	files  map[string][]*ast.File
}

func c14LoadSrc() (*c14Src, error) {
	s := &c14Src{types: map[string]ast.Expr{}, consts: map[string]int{}, files: map[string][]*ast.File{}}
	for pkg, dir := range map[string]string{"types": "chain/types", "network": "network", "account": "chain/account", "common": "common"} {
		fset := token.NewFileSet()
		matches, _ := filepath.Glob(filepath.Join(repoRoot(), dir, "*.go"))
		for _, fn := range matches {
			if strings.HasSuffix(fn, "_test.go") {
				continue
			}
			f, err := parser.ParseFile(fset, fn, nil, 0)
			if err != nil {
				return nil, err
			}
			s.files[pkg] = append(s.files[pkg], f)
			for _, d := range f.Decls {
				gd, ok := d.(*ast.GenDecl)
				if !ok {
					continue
				}
				for _, sp := range gd.Specs {
					switch x := sp.(type) {
					case *ast.TypeSpec:
						s.types[pkg+"."+x.Name.Name] = x.Type
					case *ast.ValueSpec:
						for i, n := range x.Names {
							if i < len(x.Values) {
								if bl, ok := x.Values[i].(*ast.BasicLit); ok && bl.Kind == token.INT {
									if v, err := strconv.ParseInt(bl.Value, 0, 64); err == nil {
										s.consts[pkg+"."+n.Name] = int(v)
									}
								}
							}
						}
					}
				}
			}
		}
	}
	return s, nil
}

func (s *c14Src) intOf(pkg string, e ast.Expr) (int, bool) {
	switch x := e.(type) {
	case *ast.BasicLit:
		v, err := strconv.ParseInt(x.Value, 0, 64)
		return int(v), err == nil
	case *ast.Ident:
		v, ok := s.consts[pkg+"."+x.Name]
		return v, ok
	case *ast.SelectorExpr:
		if p, ok := x.X.(*ast.Ident); ok {
			v, ok := s.consts[p.Name+"."+x.Sel.Name]
			return v, ok
		}
	}
	return 0, false
}

func c14IsByte(e ast.Expr) bool {
	id, ok := e.(*ast.Ident)
	return ok && (id.Name == "byte" || id.Name == "uint8")
}

// render gives the schema of a type expression as the reflection coders of common/rlp treat it.
func (s *c14Src) render(pkg string, e ast.Expr, tag string, depth int) string {
	if depth > 12 {
		return "?deep"
	}
	switch x := e.(type) {
	case *ast.Ident:
		switch x.Name {
		case "uint8", "byte":
			return "uint8"
		case "uint16":
			return "uint16"
		case "uint32":
			return "uint32"
		case "uint64", "uint":
			return "uint64"
		case "string":
			return "bytes"
		case "bool":
			return "uint8" // decodeBool = Stream.uint(8) + the 0/1 test (modelled by assetBools)
		}
		if t, ok := s.types[pkg+"."+x.Name]; ok {
			return s.render(pkg, t, tag, depth+1)
		}
		return "?" + x.Name
	case *ast.SelectorExpr:
		p, _ := x.X.(*ast.Ident)
		if p != nil && p.Name == "big" && x.Sel.Name == "Int" {
			return "big"
		}
		if p != nil {
			if t, ok := s.types[p.Name+"."+x.Sel.Name]; ok {
				return s.render(p.Name, t, tag, depth+1)
			}
			return "?" + p.Name + "." + x.Sel.Name
		}
	case *ast.StarExpr:
		inner := s.render(pkg, x.X, "", depth+1)
		if strings.Contains(tag, `rlp:"nil"`) {
			if strings.HasPrefix(inner, "fixed") {
				return "opt" + inner
			}
			return "?optnil(" + inner + ")"
		}
		return inner
	case *ast.ArrayType:
		if x.Len == nil {
			if c14IsByte(x.Elt) {
				return "bytes"
			}
			return "list(" + s.render(pkg, x.Elt, "", depth+1) + ")"
		}
		if n, ok := s.intOf(pkg, x.Len); ok && c14IsByte(x.Elt) {
			return fmt.Sprintf("fixed%d", n)
		}
		return "?array"
	case *ast.StructType:
		var fs []string
		for _, f := range x.Fields.List {
			ftag := ""
			if f.Tag != nil {
				ftag = f.Tag.Value
			}
			if strings.Contains(ftag, `rlp:\"-\"`) || strings.Contains(ftag, `rlp:"-"`) {
				continue
			}
			for _, n := range f.Names {
				if !ast.IsExported(n.Name) {
					continue
				}
				fs = append(fs, s.render(pkg, f.Type, ftag, depth+1))
			}
		}
		return "struct[" + strings.Join(fs, ",") + "]"
	case *ast.MapType:
		return "?map"
	case *ast.InterfaceType:
		return "?iface"
	}
	return "?" + reflect.TypeOf(e).String()
}

func (s *c14Src) schema(name string) string {
	switch name {
	case "rlpHeader", "txdata", "DeputyNode", "rlpEvent", "AssetEquity":
		if t, ok := s.types["types."+name]; ok {
			return s.render("types", t, "", 0)
		}
	case "rlpAccountData":
		// nested rlpCandidate{*big.Int, *Profile}: the Profile (a map with its own codec) is rendered "?map"
		if t, ok := s.types["types."+name]; ok {
			return s.render("types", t, "", 0)
		}
	case "BlockConfirmData", "BlockConfirms", "ProtocolHandshake", "GetBlocksData":
		if t, ok := s.types["network."+name]; ok {
			return s.render("network", t, "", 0)
		}
	case "AssetFields":
		// types.Asset: every field but the last, which must be the Profile
		if t, ok := s.types["types.Asset"].(*ast.StructType); ok {
			n := len(t.Fields.List)
			if id, ok := t.Fields.List[n-1].Type.(*ast.Ident); !ok || id.Name != "Profile" {
				return "?asset-last-field-is-not-Profile"
			}
			cp := *t
			fl := *t.Fields
			fl.List = t.Fields.List[:n-1]
			cp.Fields = &fl
			return s.render("types", &cp, "", 0)
		}
	}
	return "?unknown"
}

// payload decoder function name -> behaviour class as rendered by Driver.C14.showPDec.
// (What each decoder function DOES is hand-modelled in LemoModel/RlpCustom.lean and tied by the `typed changelog`
// ops; here only the registration table and the struct layouts are read off the source.)
func (s *c14Src) pdec(fn string) string {
	switch fn {
	case "decodeBigInt":
		return "strict:big"
	case "decodeBytes", "decodeString", "decodeCode":
		return "strict:bytes"
	case "decodeEvent":
		return "strict:" + s.schema("rlpEvent")
	case "decodeEmptyInterface":
		return "emptyiface"
	case "decodeHash":
		return "fixedN32"
	case "decodeAddress":
		return "fixedN20"
	case "decodeSigners":
		return "signers:" + s.render("types", s.types["types.Signers"], "", 0)
	case "decodeEquity":
		return "nilor:" + s.schema("AssetEquity")
	case "decodeProfileChangeLogExtra":
		return "nilor:" + s.render("account", s.types["account.ProfileChangeLogExtra"], "", 0)
	case "decodeAsset":
		return "asset"
	case "decodeCandidate":
		return "candidate"
	}
	return "?" + fn
}

// logTable: log type number -> "newValDecoder extraDecoder"
func (s *c14Src) logTable() map[int]string {
	num := map[string]int{}
	reg := map[int]string{}
	for _, f := range s.files["account"] {
		for _, d := range f.Decls {
			if gd, ok := d.(*ast.GenDecl); ok && gd.Tok == token.CONST {
				// the iota + 1 block starting with BalanceLog
				if len(gd.Specs) > 0 {
					if vs, ok := gd.Specs[0].(*ast.ValueSpec); ok && len(vs.Names) == 1 && vs.Names[0].Name == "BalanceLog" {
						for i, sp := range gd.Specs {
							for _, n := range sp.(*ast.ValueSpec).Names {
								num[n.Name] = i + 1
							}
						}
					}
				}
			}
		}
	}
	for _, f := range s.files["account"] {
		ast.Inspect(f, func(n ast.Node) bool {
			call, ok := n.(*ast.CallExpr)
			if !ok {
				return true
			}
			sel, ok := call.Fun.(*ast.SelectorExpr)
			if !ok || sel.Sel.Name != "RegisterChangeLog" || len(call.Args) < 4 {
				return true
			}
			name, _ := call.Args[0].(*ast.Ident)
			a, _ := call.Args[2].(*ast.Ident)
			b, _ := call.Args[3].(*ast.Ident)
			if name != nil && a != nil && b != nil {
				reg[num[name.Name]] = s.pdec(a.Name) + " " + s.pdec(b.Name)
			}
			return true
		})
	}
	return reg
}

var c14SchemaNames = []string{"rlpHeader", "txdata", "DeputyNode", "BlockConfirmData", "BlockConfirms", "ProtocolHandshake", "rlpEvent", "AssetEquity", "AssetFields",
	"rlpAccountData", "GetBlocksData"}

func c14SchemaOps(c *Ctx) {
	s, err := c14LoadSrc()
	if err != nil {
		c14Fail(c, "c14/schema-source-unreadable", err.Error(), nil)
		return
	}
	for _, n := range c14SchemaNames {
		c.Op("schema "+n, s.schema(n))
		c.Count("schema")
	}
	tbl := s.logTable()
	for i := 0; i <= 21; i++ {
		out, ok := tbl[i]
		if !ok {
			out = "none"
		}
		c.Op(fmt.Sprintf("logdec %d", i), out)
		c.Count("logdec")
	}
}

// family name of c14_typed.go -> name of the model's typed codec
var c14TypedOpName = map[string]string{
	"header": "header", "tx": "tx", "deputynode": "deputynode", "event": "event", "assetequity": "assetequity",
	"netmsg-blockconfirm": "blockconfirm", "netmsg-blockconfirms": "blockconfirms", "netmsg-handshake": "handshake",
	"asset": "asset", "changelog": "changelog", "changelogs": "changelogs", "block": "block",
	"accountdata": "accountdata", "netmsg-getblocks": "getblocks", // LemoModel/RlpAccount.lean; `typed blocksmsg` comes from c14_account.go
}

// c14TypedOp records one `typed` op. accepted/re are the real decoder's verdict and the real re-encoding.
func c14TypedOp(c *Ctx, fam string, b []byte, accepted bool, re []byte, reOK bool) {
	name, ok := c14TypedOpName[fam]
	if !ok || len(b) > 5000 && (fam != "block" || len(b) > 20000) {
		return
	}
	// Before /repo 8a6b205 + a0389ea Profile.DecodeRLP and the `size <= 0` payload tests ignored the error of
	// Stream.Kind and accepted size-zero headers that are not RLP at all (0xF800 …); such inputs used to be skipped here
	// for asset / changelog / changelogs because the item-level model starts from well-formed RLP. The repaired decoders
	// hand the error on, so the model's "generic decoder rejects => err" is the expected answer for every family.
	if !c14kStrict(b, 0) {
		c.Count("typed-op:not-rlp:" + fam)
	}
	out := "err"
	if accepted {
		if reOK {
			out = "ok " + c14hx(re)
		} else {
			out = "ok-but-reencode-fails"
		}
	}
	c.Op("typed "+name+" "+c14hx(b), out)
	c.Count("typed-op:" + fam + ":" + firstWord(out))
}

package main

// c14_typed.go: DIRECT ORACLE for property C14 on the typed consensus codecs
// (header, block, tx incl. box payloads, change logs of every type, account
// record, deputy node, event, asset, network messages, Lemo address text).
// Mostly c.Count and c.Fail; the op lines of the typed layer are written through c14TypedOp (c14_tie.go) from
// checkMut, and - for the account record and the blocks message - through c14_account.go.

import (
	"bytes"
	"crypto/ecdsa"
	"encoding/hex"
	"encoding/json"
	"fmt"
	"math/big"
	"math/rand"
	"reflect"
	"regexp"
	"sort"
	"strings"
	"sync/atomic"

	"github.com/LemoFoundationLtd/lemochain-core/chain/account"
	"github.com/LemoFoundationLtd/lemochain-core/chain/params"
	"github.com/LemoFoundationLtd/lemochain-core/chain/types"
	"github.com/LemoFoundationLtd/lemochain-core/common"
	"github.com/LemoFoundationLtd/lemochain-core/common/crypto"
	"github.com/LemoFoundationLtd/lemochain-core/common/merkle"
	"github.com/LemoFoundationLtd/lemochain-core/common/rlp"
	"github.com/LemoFoundationLtd/lemochain-core/network"
	"github.com/LemoFoundationLtd/lemochain-core/network/p2p"
)

func init() {
	subs["c14t"] = func(c *Ctx) { c14Typed(c, c.N) } // stand-alone entry for testing
	c14TypedFn = c14Typed
}

const c14tAlphabet = "83456729ABCDFGHJKNPQRSTWYZ"

type c14tFailure struct {
	detail string
	replay string
}

type c14tState struct {
	c     *Ctx
	r     *rand.Rand
	keys  []*ecdsa.PrivateKey
	fails map[string][]c14tFailure // per signature: the (up to 3) smallest witnesses
	seen  map[string]bool
	clN   int
	msgN  int
	soft  bool // the value under test is NOT producible by the repo's own constructors: count, do not fail
}

func c14tNew(c *Ctx) *c14tState {
	t := &c14tState{c: c, r: c.Rnd, fails: map[string][]c14tFailure{}, seen: map[string]bool{}}
	for i := 1; i <= 4; i++ {
		d := make([]byte, 32)
		for j := range d {
			d[j] = byte(i*37 + j)
		}
		k, err := crypto.ToECDSA(d)
		if err != nil {
			panic(err)
		}
		t.keys = append(t.keys, k)
	}
	return t
}

// fail counts every occurrence but keeps at most 3 (the shortest) witnesses per
// signature; they are handed to c.Fail by flush() at the end.
// Go pointers (e.g. a *interface{} printed by ChangeLog.String) must not reach the oracle file
var c14tPtrRe = regexp.MustCompile(`\b0xc[0-9a-f]{9}\b`)

func (t *c14tState) fail(sig, detail, replay string) {
	if t.soft {
		t.c.Count("info:unreachable-shape:" + sig)
		return
	}
	t.c.Count("fail:" + sig)
	detail = c14tPtrRe.ReplaceAllString(detail, "<ptr>")
	replay = c14tPtrRe.ReplaceAllString(replay, "<ptr>")
	if len(replay) > 6000 {
		replay = replay[:6000] + fmt.Sprintf("...(truncated, %d chars)", len(replay))
	}
	if len(detail) > 1500 {
		detail = detail[:1500] + "...(truncated)"
	}
	l := t.fails[sig]
	f := c14tFailure{detail, replay}
	if len(l) < 3 {
		l = append(l, f)
	} else {
		worst := 0
		for i := range l {
			if len(l[i].replay) > len(l[worst].replay) {
				worst = i
			}
		}
		if len(replay) >= len(l[worst].replay) {
			return
		}
		l[worst] = f
	}
	t.fails[sig] = l
}

func (t *c14tState) flush() {
	sigs := make([]string, 0, len(t.fails))
	for s := range t.fails {
		sigs = append(sigs, s)
	}
	sort.Strings(sigs)
	quota := 3
	if len(sigs)*3 > 150 {
		quota = 2
	}
	if len(sigs)*2 > 150 {
		quota = 1
	}
	for _, s := range sigs {
		l := t.fails[s]
		sort.SliceStable(l, func(i, j int) bool { return len(l[i].replay) < len(l[j].replay) })
		for i := 0; i < len(l) && i < quota; i++ {
			t.c.Fail(s, l[i].detail, l[i].replay)
		}
	}
}

// witness keeps ONE example string per key inside stats.json.
func (t *c14tState) witness(key, w string) {
	if t.seen["w:"+key] {
		return
	}
	t.seen["w:"+key] = true
	if len(w) > 400 {
		w = w[:400] + "..."
	}
	t.c.Count("witness:" + key + ":" + w)
}

func (t *c14tState) rn(n int) int { return t.r.Intn(n) }

// ---------------------------------------------------------------- safe calls

func c14tTry(f func() error) (err error, pan string) {
	out, msg := SafeMsg(func() string {
		err = f()
		return ""
	})
	if out == "panic" {
		if len(msg) > 200 {
			msg = msg[:200]
		}
		return nil, "panic: " + msg
	}
	return err, ""
}

func c14tEnc(v interface{}) (b []byte, err error, pan string) {
	err, pan = c14tTry(func() error {
		var e error
		b, e = rlp.EncodeToBytes(v)
		return e
	})
	return
}

func c14tDec(b []byte, into interface{}) (err error, pan string) {
	return c14tTry(func() error { return rlp.DecodeBytes(b, into) })
}

func c14tStr(f func() string) string {
	return Safe(f)
}

func c14tHex(b []byte) string { return hex.EncodeToString(b) }

func c14tErrStr(err error, pan string) string {
	if pan != "" {
		return pan
	}
	if err != nil {
		return "err: " + err.Error()
	}
	return "ok"
}

// ---------------------------------------------------------------- semantic comparator

var (
	c14tBigT    = reflect.TypeOf(big.Int{})
	c14tAtomicT = reflect.TypeOf(atomic.Value{})
)

// fields that the wire format drops by design
var c14tIgnore = map[string]bool{
	"ChangeLog.OldVal":        true, // `json:"-"`, "no need to save or send to others"
	"txdata.Hash":             true, // rlp:"-", JSON only
	"Event.TxHash":            true, // derived fields, "not secured by consensus"
	"Event.TxIndex":           true,
	"Event.Index":             true,
	"Event.Removed":           true,
	"EventForStorage.Removed": true,
}

type c14tCmp struct {
	diffs  []string
	shapes map[string]bool
}

func c14tBig(v reflect.Value) *big.Int {
	// v is a big.Int struct value, possibly read-only (unexported path)
	neg := v.Field(0).Bool()
	abs := v.Field(1)
	words := make([]big.Word, abs.Len())
	for i := range words {
		words[i] = big.Word(abs.Index(i).Uint())
	}
	x := new(big.Int).SetBits(words)
	if neg {
		x.Neg(x)
	}
	return x
}

func c14tEmptyLike(v reflect.Value) bool {
	if !v.IsValid() {
		return true
	}
	switch v.Kind() {
	case reflect.Ptr, reflect.Interface:
		return v.IsNil() || c14tEmptyLike(v.Elem())
	case reflect.Slice, reflect.Map:
		return v.Len() == 0
	case reflect.Struct:
		if v.Type() == c14tBigT {
			return c14tBig(v).Sign() == 0
		}
	}
	return false
}

func c14tDesc(v reflect.Value) string {
	if !v.IsValid() {
		return "untyped-nil"
	}
	switch v.Kind() {
	case reflect.Ptr, reflect.Interface:
		if v.IsNil() {
			return "nil(" + v.Type().String() + ")"
		}
		return "&" + c14tDesc(v.Elem())
	case reflect.Slice, reflect.Map:
		if v.IsNil() {
			return "nil(" + v.Type().String() + ")"
		}
		if v.Len() == 0 {
			return "empty(" + v.Type().String() + ")"
		}
		return fmt.Sprintf("%s(len %d)", v.Type().String(), v.Len())
	case reflect.Struct:
		if v.Type() == c14tBigT {
			return "big.Int(" + c14tBig(v).String() + ")"
		}
	}
	return v.Type().String()
}

func (m *c14tCmp) shape(s string) {
	if m.shapes == nil {
		m.shapes = map[string]bool{}
	}
	m.shapes[s] = true
}

func (m *c14tCmp) diff(path, msg string) {
	if len(m.diffs) < 6 {
		m.diffs = append(m.diffs, path+": "+msg)
	}
}

func (m *c14tCmp) cmp(path string, a, b reflect.Value) {
	for a.IsValid() && a.Kind() == reflect.Interface {
		if a.IsNil() {
			a = reflect.Value{}
		} else {
			a = a.Elem()
		}
	}
	for b.IsValid() && b.Kind() == reflect.Interface {
		if b.IsNil() {
			b = reflect.Value{}
		} else {
			b = b.Elem()
		}
	}
	if !a.IsValid() || !b.IsValid() {
		if c14tEmptyLike(a) && c14tEmptyLike(b) {
			if a.IsValid() != b.IsValid() {
				m.shape(c14tDesc(a) + "->" + c14tDesc(b))
			}
			return
		}
		m.diff(path, c14tDesc(a)+" vs "+c14tDesc(b))
		return
	}
	if a.Kind() == reflect.Ptr || b.Kind() == reflect.Ptr {
		if a.Kind() == reflect.Ptr && b.Kind() == reflect.Ptr {
			if a.IsNil() && b.IsNil() {
				return
			}
			if a.IsNil() || b.IsNil() {
				if c14tEmptyLike(a) && c14tEmptyLike(b) {
					m.shape(c14tDesc(a) + "->" + c14tDesc(b))
					return
				}
				m.diff(path, c14tDesc(a)+" vs "+c14tDesc(b))
				return
			}
			m.cmp(path, a.Elem(), b.Elem())
			return
		}
		m.diff(path, "pointer vs non-pointer: "+c14tDesc(a)+" vs "+c14tDesc(b))
		return
	}
	if a.Type() == c14tBigT && b.Type() == c14tBigT {
		if c14tBig(a).Cmp(c14tBig(b)) != 0 {
			m.diff(path, c14tBig(a).String()+" vs "+c14tBig(b).String())
		}
		return
	}
	if a.Kind() != b.Kind() {
		if c14tEmptyLike(a) && c14tEmptyLike(b) {
			// e.g. &Profile{} -> &[]interface{}{}: both empty; usability is judged by the Redo check
			m.shape(c14tDesc(a) + "->" + c14tDesc(b))
			return
		}
		m.diff(path, "kind "+a.Type().String()+" vs "+b.Type().String())
		return
	}
	if a.Type() != b.Type() {
		m.shape("type:" + a.Type().String() + "->" + b.Type().String())
	}
	switch a.Kind() {
	case reflect.Bool:
		if a.Bool() != b.Bool() {
			m.diff(path, fmt.Sprintf("%v vs %v", a.Bool(), b.Bool()))
		}
	case reflect.Uint, reflect.Uint8, reflect.Uint16, reflect.Uint32, reflect.Uint64, reflect.Uintptr:
		if a.Uint() != b.Uint() {
			m.diff(path, fmt.Sprintf("%d vs %d", a.Uint(), b.Uint()))
		}
	case reflect.Int, reflect.Int8, reflect.Int16, reflect.Int32, reflect.Int64:
		if a.Int() != b.Int() {
			m.diff(path, fmt.Sprintf("%d vs %d", a.Int(), b.Int()))
		}
	case reflect.String:
		if a.String() != b.String() {
			m.diff(path, fmt.Sprintf("%q vs %q", a.String(), b.String()))
		}
	case reflect.Slice:
		if a.Len() == 0 && b.Len() == 0 {
			if a.IsNil() != b.IsNil() {
				m.shape(c14tDesc(a) + "->" + c14tDesc(b))
			}
			return
		}
		if a.Len() != b.Len() {
			m.diff(path, fmt.Sprintf("len %d vs %d", a.Len(), b.Len()))
			return
		}
		if a.Type().Elem().Kind() == reflect.Uint8 {
			if !bytes.Equal(a.Bytes(), b.Bytes()) {
				m.diff(path, fmt.Sprintf("%x vs %x", a.Bytes(), b.Bytes()))
			}
			return
		}
		for i := 0; i < a.Len(); i++ {
			m.cmp(fmt.Sprintf("%s[%d]", path, i), a.Index(i), b.Index(i))
		}
	case reflect.Array:
		if a.Len() != b.Len() {
			m.diff(path, "array length")
			return
		}
		for i := 0; i < a.Len(); i++ {
			if a.Type().Elem().Kind() == reflect.Uint8 {
				if a.Index(i).Uint() != b.Index(i).Uint() {
					m.diff(path, fmt.Sprintf("byte %d: %02x vs %02x", i, a.Index(i).Uint(), b.Index(i).Uint()))
					return
				}
			} else {
				m.cmp(fmt.Sprintf("%s[%d]", path, i), a.Index(i), b.Index(i))
			}
		}
	case reflect.Map:
		if a.Len() == 0 && b.Len() == 0 {
			if a.IsNil() != b.IsNil() {
				m.shape(c14tDesc(a) + "->" + c14tDesc(b))
			}
			return
		}
		if a.Len() != b.Len() {
			m.diff(path, fmt.Sprintf("map len %d vs %d", a.Len(), b.Len()))
			return
		}
		for _, k := range a.MapKeys() {
			bv := b.MapIndex(k)
			if !bv.IsValid() {
				m.diff(path, fmt.Sprintf("key %v missing", k))
				return
			}
			m.cmp(fmt.Sprintf("%s[%v]", path, k), a.MapIndex(k), bv)
		}
	case reflect.Struct:
		tn := a.Type().Name()
		for i := 0; i < a.NumField(); i++ {
			f := a.Type().Field(i)
			if f.Type == c14tAtomicT || c14tIgnore[tn+"."+f.Name] {
				continue
			}
			if b.Type() != a.Type() {
				m.diff(path, "struct type "+a.Type().String()+" vs "+b.Type().String())
				return
			}
			m.cmp(path+"."+f.Name, a.Field(i), b.Field(i))
		}
	default:
		m.diff(path, "unsupported kind "+a.Kind().String())
	}
}

// c14tSemEq compares two values; returns diffs ("" if equal) and shape-only notes.
func c14tSemEq(a, b interface{}) (string, []string) {
	m := &c14tCmp{}
	var pan string
	_, pan = c14tTry(func() error {
		m.cmp("", reflect.ValueOf(a), reflect.ValueOf(b))
		return nil
	})
	if pan != "" {
		m.diffs = append(m.diffs, "comparator "+pan)
	}
	var shapes []string
	for s := range m.shapes {
		shapes = append(shapes, s)
	}
	sort.Strings(shapes)
	return strings.Join(m.diffs, "; "), shapes
}

// ---------------------------------------------------------------- tiny RLP splitter / builder

// c14tSplit returns the raw encodings of the elements of the list `enc`.
func c14tSplit(enc []byte) (items [][]byte, ok bool) {
	content, rest, err := rlp.SplitList(enc)
	if err != nil || len(rest) != 0 {
		return nil, false
	}
	if n, err := rlp.CountValues(content); err != nil || n > 100000 {
		return nil, false
	}
	for len(content) > 0 {
		_, _, r, err := rlp.Split(content)
		if err != nil {
			return nil, false
		}
		items = append(items, content[:len(content)-len(r)])
		content = r
	}
	return items, true
}

// c14tEncLen builds a string (base 0x80) or list (base 0xC0) header for a payload of n bytes.
// mode 0: canonical; 1: long form even if n < 56 (non-minimal); 2: long form with an extra leading zero length byte.
func c14tEncLen(base byte, n int, mode int) []byte {
	if mode == 0 && n < 56 {
		return []byte{base + byte(n)}
	}
	var lb []byte
	for x := n; x > 0; x >>= 8 {
		lb = append([]byte{byte(x)}, lb...)
	}
	if len(lb) == 0 {
		lb = []byte{0}
	}
	if mode == 2 {
		lb = append([]byte{0}, lb...)
	}
	return append([]byte{base + 55 + byte(len(lb))}, lb...)
}

func c14tList(items ...[]byte) []byte {
	payload := bytes.Join(items, nil)
	return append(c14tEncLen(0xC0, len(payload), 0), payload...)
}

func c14tString(b []byte) []byte {
	if len(b) == 1 && b[0] < 0x80 {
		return []byte{b[0]}
	}
	return append(c14tEncLen(0x80, len(b), 0), b...)
}

func c14tCopyItems(items [][]byte) [][]byte {
	out := make([][]byte, len(items))
	copy(out, items)
	return out
}

// c14tReplacePath rewrites the element reached by path (indices into nested lists) with f(elem)
// and rebuilds all enclosing list headers canonically. ok=false if the path does not exist.
func c14tReplacePath(enc []byte, path []int, f func([]byte) []byte) ([]byte, bool) {
	if len(path) == 0 {
		return f(enc), true
	}
	items, ok := c14tSplit(enc)
	if !ok || path[0] >= len(items) {
		return nil, false
	}
	items = c14tCopyItems(items)
	sub, ok := c14tReplacePath(items[path[0]], path[1:], f)
	if !ok {
		return nil, false
	}
	items[path[0]] = sub
	return c14tList(items...), true
}

// ---------------------------------------------------------------- primitive generators

func (t *c14tState) bytesN(n int) []byte {
	b := make([]byte, n)
	t.r.Read(b)
	return b
}

func (t *c14tState) pickU64() (uint64, string) {
	edges := []uint64{0, 1, 127, 128, 255, 256, 65535, 65536, 1<<32 - 1, 1 << 32, 1 << 63, 1<<64 - 1}
	if t.rn(4) == 0 {
		return t.r.Uint64() >> uint(t.rn(64)), "rand"
	}
	v := edges[t.rn(len(edges))]
	return v, fmt.Sprint(v)
}

func (t *c14tState) pickU32() (uint32, string) {
	edges := []uint32{0, 1, 127, 128, 255, 256, 65535, 65536, 1 << 31, 1<<32 - 1}
	if t.rn(4) == 0 {
		return t.r.Uint32() >> uint(t.rn(32)), "rand"
	}
	v := edges[t.rn(len(edges))]
	return v, fmt.Sprint(v)
}

func (t *c14tState) pickBig(allowNil bool) (*big.Int, string) {
	k := t.rn(10)
	if k == 0 && !allowNil {
		k = 1
	}
	switch k {
	case 0:
		return nil, "nil"
	case 1:
		return new(big.Int), "0"
	case 2:
		return big.NewInt(int64(1 + t.rn(127))), "small"
	case 3:
		return big.NewInt(128), "128"
	case 4:
		return big.NewInt(255 + int64(t.rn(2))), "255-256"
	case 5:
		return new(big.Int).SetUint64(1<<64 - 1), "2^64-1"
	case 6:
		return new(big.Int).Lsh(big.NewInt(1), 64), "2^64"
	case 7:
		return new(big.Int).Lsh(big.NewInt(1), 255), "2^255"
	case 8:
		return new(big.Int).Sub(new(big.Int).Lsh(big.NewInt(1), 256), big.NewInt(1)), "2^256-1"
	}
	return new(big.Int).SetBytes(t.bytesN(1 + t.rn(40))), "rand"
}

func (t *c14tState) pickHash() (common.Hash, string) {
	var h common.Hash
	switch t.rn(7) {
	case 0:
		return h, "zero"
	case 1:
		for i := range h {
			h[i] = 0xff
		}
		return h, "ff"
	case 2:
		copy(h[8+t.rn(20):], t.bytesN(32))
		return h, "leadzero"
	case 3:
		h[31] = byte(t.rn(3))
		return h, "tiny"
	case 4:
		return merkle.EmptyTrieHash, "emptytrie"
	}
	copy(h[:], t.bytesN(32))
	return h, "rand"
}

func (t *c14tState) pickAddr() (common.Address, string) {
	var a common.Address
	switch t.rn(7) {
	case 0:
		return a, "zero"
	case 1:
		for i := range a {
			a[i] = 0xff
		}
		return a, "ff"
	case 2:
		copy(a[1+t.rn(18):], t.bytesN(20))
		return a, "leadzero"
	case 3:
		a[19] = byte(1 + t.rn(255))
		return a, "tiny"
	case 4:
		copy(a[:], t.bytesN(20))
		for i := 10 + t.rn(9); i < 20; i++ {
			a[i] = 0
		}
		return a, "trailzero"
	}
	copy(a[:], t.bytesN(20))
	if t.rn(2) == 0 {
		a[0] = byte(1 + t.rn(3)) // address type byte
	}
	return a, "rand"
}

func (t *c14tState) pickData() ([]byte, string) {
	switch t.rn(12) {
	case 0:
		return nil, "nil"
	case 1:
		return []byte{}, "empty"
	case 2:
		return []byte{0x00}, "00"
	case 3:
		return []byte{0x7f}, "7f"
	case 4:
		return []byte{0x80}, "80"
	case 5:
		return t.bytesN(55), "55"
	case 6:
		return t.bytesN(56), "56"
	case 7:
		return t.bytesN(255), "255"
	case 8:
		return t.bytesN(256), "256"
	case 9:
		return t.bytesN(1024 + t.rn(200)), "1k"
	}
	return t.bytesN(1 + t.rn(80)), "rand"
}

// pickStr returns (string, label, isValidUTF8)
func (t *c14tState) pickStr(maxLen int) (string, string, bool) {
	switch t.rn(9) {
	case 0:
		return "", "empty", true
	case 1:
		return string([]byte{byte('a' + t.rn(26))}), "1char", true
	case 2:
		return "\x80", "1byte-80", false
	case 3:
		return strings.Repeat("x", 55), "55", true
	case 4:
		n := 56
		if n > maxLen {
			n = maxLen
		}
		return strings.Repeat("y", n), "56", true
	case 5:
		return strings.Repeat("z", maxLen), "max", true
	case 6:
		return "ab\xff\xfe\x00cd", "nonutf8", false
	case 7:
		return "héllo-世界", "utf8-multibyte", true
	}
	n := 1 + t.rn(20)
	b := make([]byte, n)
	for i := range b {
		b[i] = "abcdefghijklmnopqrstuvwxyz0123456789-_."[t.rn(39)]
	}
	return string(b), "ascii", true
}

func (t *c14tState) pickProfile(kind int) (types.Profile, string) {
	switch kind {
	case 0:
		return nil, "nil"
	case 1:
		return types.Profile{}, "empty"
	case 2:
		return types.Profile{"host": "127.0.0.1"}, "1"
	case 3:
		return types.Profile{"": "", "a": "", "b": "x"}, "emptykv"
	}
	p := types.Profile{
		types.CandidateKeyIsCandidate:   "true",
		types.CandidateKeyHost:          "www.lemochain.com",
		types.CandidateKeyPort:          "7001",
		types.CandidateKeyNodeID:        c14tHex(t.bytesN(64)),
		types.CandidateKeyIncomeAddress: "Lemo83GN72GYH2NZ8BA729Z9TCT7KQ5FC3CR6DJG",
		types.CandidateKeyIntroduction:  strings.Repeat("i", t.rn(120)),
	}
	return p, "many"
}

func (t *c14tState) pickSigners(kind int) (types.Signers, string) {
	switch kind {
	case 0:
		return nil, "nil"
	case 1:
		return types.Signers{}, "empty"
	case 2:
		a, _ := t.pickAddr()
		return types.Signers{{Address: a, Weight: uint8(t.rn(256))}}, "1"
	}
	var s types.Signers
	for i := 0; i < 2+t.rn(4); i++ {
		a, _ := t.pickAddr()
		s = append(s, types.SignAccount{Address: a, Weight: uint8(t.rn(256))})
	}
	return s, "many"
}

func (t *c14tState) pickSignData() types.SignData {
	var sd types.SignData
	switch t.rn(3) {
	case 0:
	case 1:
		copy(sd[:], t.bytesN(65))
	default:
		h, _ := t.pickHash()
		sig, err := crypto.Sign(h[:], t.keys[t.rn(len(t.keys))])
		if err == nil {
			copy(sd[:], sig)
		}
	}
	return sd
}

// ---------------------------------------------------------------- header

func (t *c14tState) genHeader() (*types.Header, *ecdsa.PrivateKey) {
	c := t.c
	h := &types.Header{}
	h.ParentHash, _ = t.pickHash()
	h.MinerAddress, _ = t.pickAddr()
	h.VersionRoot, _ = t.pickHash()
	root := func(name string) common.Hash {
		switch t.rn(4) {
		case 0:
			c.Count("typed:header:" + name + "=emptytrie")
			return merkle.EmptyTrieHash
		case 1:
			c.Count("typed:header:" + name + "=zerohash")
			return common.Hash{}
		case 2:
			c.Count("typed:header:" + name + "=leadzero")
			var x common.Hash
			copy(x[3:], t.bytesN(29))
			return x
		}
		c.Count("typed:header:" + name + "=rand")
		return common.BytesToHash(t.bytesN(32))
	}
	h.TxRoot = root("txroot")
	h.LogRoot = root("logroot")
	var l string
	h.Height, l = t.pickU32()
	c.Count("typed:header:height=" + l)
	h.Time, l = t.pickU32()
	c.Count("typed:header:time=" + l)
	h.GasLimit, l = t.pickU64()
	c.Count("typed:header:gaslimit=" + l)
	h.GasUsed, l = t.pickU64()
	c.Count("typed:header:gasused=" + l)
	switch t.rn(4) {
	case 0:
		c.Count("typed:header:deputyroot=nil")
	case 1:
		h.DeputyRoot = []byte{}
		c.Count("typed:header:deputyroot=empty")
	case 2:
		h.DeputyRoot = t.bytesN(32)
		c.Count("typed:header:deputyroot=32")
	default:
		h.DeputyRoot = t.bytesN(1 + t.rn(5))
		c.Count("typed:header:deputyroot=short")
	}
	switch t.rn(5) {
	case 0:
		c.Count("typed:header:extra=empty")
	case 1:
		h.Extra = strings.Repeat("e", 256)
		c.Count("typed:header:extra=256")
	case 2:
		h.Extra = "\xff\xfe\x80bad"
		c.Count("typed:header:extra=nonutf8")
	case 3:
		h.Extra = "a"
		c.Count("typed:header:extra=1char")
	default:
		h.Extra = "lemochain extra data"
		c.Count("typed:header:extra=short")
	}
	var key *ecdsa.PrivateKey
	switch t.rn(6) {
	case 0:
		c.Count("typed:header:sign=nil")
	case 1:
		h.SignData = []byte{}
		c.Count("typed:header:sign=empty")
	case 2:
		h.SignData = t.bytesN(65)
		c.Count("typed:header:sign=garbage65")
	case 3:
		h.SignData = t.bytesN(64)
		c.Count("typed:header:sign=garbage64")
	default:
		key = t.keys[t.rn(len(t.keys))]
		hash := h.Hash()
		sig, err := crypto.Sign(hash[:], key)
		if err != nil {
			key = nil
		} else {
			h.SignData = sig
		}
		c.Count("typed:header:sign=valid")
	}
	return h, key
}

func c14tHeaderSigner(h *types.Header) string {
	var id []byte
	err, pan := c14tTry(func() error {
		var e error
		id, e = h.SignerNodeID()
		return e
	})
	if pan != "" || err != nil {
		return c14tErrStr(err, pan)
	}
	return "ok:" + c14tHex(id)
}

// ---------------------------------------------------------------- transactions

type c14tTxMeta struct {
	labels      []string
	isBox       bool
	nilSubs     bool
	subHashes   []common.Hash
	badNameUTF8 bool
	badMsgUTF8  bool
	sigLenOK    bool
	desc        string
	// signing facts BY CONSTRUCTION (never read back from /repo's recovery): who signed, in order
	reimb        bool
	sigKeys      []*ecdsa.PrivateKey // sender signatures appended by SignTx, in order
	payerKeys    []*ecdsa.PrivateKey // gas payer signatures, in order
	senderTamper string              // "" = signatures intact; otherwise why recovery must NOT give sigKeys
	payerTamper  string
}

var c14tTxTypes = []uint16{params.OrdinaryTx, params.CreateContractTx, params.VoteTx, params.RegisterTx, params.CreateAssetTx,
	params.IssueAssetTx, params.ReplenishAssetTx, params.ModifyAssetTx, params.TransferAssetTx, params.ModifySignersTx, params.BoxTx}

var c14tTxTypeNames = map[uint16]string{params.OrdinaryTx: "ordinary", params.CreateContractTx: "createcontract", params.VoteTx: "vote",
	params.RegisterTx: "register", params.CreateAssetTx: "createasset", params.IssueAssetTx: "issueasset", params.ReplenishAssetTx: "replenishasset",
	params.ModifyAssetTx: "modifyasset", params.TransferAssetTx: "transferasset", params.ModifySignersTx: "modifysigners", params.BoxTx: "box"}

func (t *c14tState) genAssetValue() *types.Asset {
	a := &types.Asset{Category: uint32(1 + t.rn(3)), IsDivisible: t.rn(2) == 0, Decimal: uint32(t.rn(19)), IsReplenishable: t.rn(2) == 0}
	a.AssetCode, _ = t.pickHash()
	a.Issuer, _ = t.pickAddr()
	a.TotalSupply, _ = t.pickBig(false)
	switch t.rn(4) {
	case 0:
		a.Profile = types.Profile{}
	case 1:
		a.Profile = types.Profile{types.AssetName: "Demo Token"}
	default:
		a.Profile = types.Profile{types.AssetName: "Demo Token", types.AssetSymbol: "DT", types.AssetDescription: strings.Repeat("d", t.rn(100)),
			types.AssetFreeze: "false", types.AssetSuggestedGasLimit: "60000"}
	}
	return a
}

func (t *c14tState) txTypedData(txType uint16, meta *c14tTxMeta, allowBox bool) []byte {
	var v interface{}
	switch txType {
	case params.RegisterTx:
		p, _ := t.pickProfile(4)
		v = p
	case params.CreateAssetTx:
		v = t.genAssetValue()
	case params.IssueAssetTx:
		x := &types.IssueAsset{MetaData: strings.Repeat("m", t.rn(60))}
		x.AssetCode, _ = t.pickHash()
		x.Amount, _ = t.pickBig(false)
		v = x
	case params.ReplenishAssetTx:
		x := &types.ReplenishAsset{}
		x.AssetCode, _ = t.pickHash()
		x.AssetId, _ = t.pickHash()
		x.Amount, _ = t.pickBig(false)
		v = x
	case params.ModifyAssetTx:
		x := &types.ModifyAssetInfo{UpdateProfile: types.Profile{types.AssetName: "new name", types.AssetFreeze: "true"}}
		x.AssetCode, _ = t.pickHash()
		v = x
	case params.TransferAssetTx:
		x := &types.TransferAsset{}
		x.AssetId, _ = t.pickHash()
		x.Amount, _ = t.pickBig(false)
		x.Input, _ = t.pickData()
		v = x
	case params.ModifySignersTx:
		s, _ := t.pickSigners(2 + t.rn(2))
		v = struct {
			Signers types.Signers `json:"signers"`
		}{s}
	case params.BoxTx:
		if !allowBox {
			d, _ := t.pickData()
			return d
		}
		n := t.rn(4)
		var subs types.Transactions
		for i := 0; i < n; i++ {
			sub, sm := t.genTx(false)
			if sub == nil {
				continue
			}
			if sm.badMsgUTF8 {
				meta.badMsgUTF8 = true
			}
			if sm.badNameUTF8 {
				meta.badNameUTF8 = true
			}
			subs = append(subs, sub)
			var hs common.Hash
			_, _ = c14tTry(func() error { hs = sub.Hash(); return nil })
			meta.subHashes = append(meta.subHashes, hs)
		}
		meta.isBox = true
		if len(subs) == 0 && t.rn(2) == 0 {
			subs = types.Transactions{}
		}
		meta.nilSubs = subs == nil
		meta.labels = append(meta.labels, fmt.Sprintf("box-subtxs=%d", len(subs)))
		if subs == nil {
			meta.labels = append(meta.labels, "box-subtxs=nil-slice")
		}
		var data []byte
		err, pan := c14tTry(func() error {
			var e error
			data, e = types.MarshalBoxData(subs)
			return e
		})
		if err != nil || pan != "" {
			t.fail("c14/tx-encode-error", "MarshalBoxData on valid sub-txs: "+c14tErrStr(err, pan), "")
			return nil
		}
		return data
	default:
		d, l := t.pickData()
		meta.labels = append(meta.labels, "data="+l)
		return d
	}
	var data []byte
	err, pan := c14tTry(func() error {
		var e error
		data, e = json.Marshal(v)
		return e
	})
	if err != nil || pan != "" {
		t.c.Count("info:tx-data-json-marshal-failed")
		return []byte("{}")
	}
	return data
}

// genTx builds a transaction only through the exported constructors and signers of chain/types.
func (t *c14tState) genTx(allowBox bool) (*types.Transaction, *c14tTxMeta) {
	meta := &c14tTxMeta{sigLenOK: true}
	txType := c14tTxTypes[t.rn(len(c14tTxTypes))]
	if txType == params.BoxTx && !allowBox {
		txType = params.OrdinaryTx
	}
	meta.labels = append(meta.labels, "type="+c14tTxTypeNames[txType])
	from, _ := t.pickAddr()
	to, _ := t.pickAddr()
	payer, _ := t.pickAddr()
	amount, al := t.pickBig(true)
	meta.labels = append(meta.labels, "amount="+al)
	var gasPrice *big.Int
	switch t.rn(4) {
	case 0:
		meta.labels = append(meta.labels, "gasprice=nil")
	case 1:
		gasPrice = new(big.Int)
		meta.labels = append(meta.labels, "gasprice=0")
	case 2:
		gasPrice = big.NewInt(3000000000)
		meta.labels = append(meta.labels, "gasprice=3e9")
	default:
		gasPrice = new(big.Int).Lsh(big.NewInt(1), 200)
		meta.labels = append(meta.labels, "gasprice=2^200")
	}
	gasLimit, _ := t.pickU64()
	expiration, _ := t.pickU64()
	chainID := uint16([]int{0, 1, 100, 127, 128, 65535}[t.rn(6)])
	toName, nl, nameOK := t.pickStr(types.MaxTxToNameLength)
	msg, ml, msgOK := t.pickStr(types.MaxTxMessageLength)
	meta.labels = append(meta.labels, "toname="+nl, "message="+ml)
	meta.badNameUTF8 = !nameOK
	meta.badMsgUTF8 = !msgOK
	data := t.txTypedData(txType, meta, allowBox)
	needTo := types.IsToExist(txType, &to)
	if t.rn(10) == 0 {
		needTo = !needTo // codec must not care
	}
	var tx *types.Transaction
	reimb := t.rn(4) == 0
	_, pan := c14tTry(func() error {
		switch {
		case reimb && needTo:
			tx = types.NewReimbursementTransaction(from, to, payer, amount, data, txType, chainID, expiration, toName, msg)
			meta.labels = append(meta.labels, "ctor=reimbursement")
		case reimb:
			tx = types.NewReimbursementContractCreation(from, payer, amount, data, txType, chainID, expiration, toName, msg)
			meta.labels = append(meta.labels, "ctor=reimbursement-creation")
		case needTo:
			tx = types.NewTransaction(from, to, amount, gasLimit, gasPrice, data, txType, chainID, expiration, toName, msg)
			meta.labels = append(meta.labels, "ctor=new")
		case t.rn(2) == 0:
			tx = types.NewContractCreation(from, amount, gasLimit, gasPrice, data, txType, chainID, expiration, toName, msg)
			meta.labels = append(meta.labels, "ctor=creation")
		default:
			tx = types.NoReceiverTransaction(from, amount, gasLimit, gasPrice, data, txType, chainID, expiration, toName, msg)
			meta.labels = append(meta.labels, "ctor=noreceiver")
		}
		return nil
	})
	if pan != "" || tx == nil {
		t.fail("c14/tx-encode-error", "constructor "+pan, "")
		return nil, meta
	}
	nsig := t.rn(4)
	meta.labels = append(meta.labels, fmt.Sprintf("sigs=%d", nsig))
	var signer types.Signer = types.MakeSigner()
	if reimb {
		signer = types.MakeReimbursementTxSigner()
	}
	meta.reimb = reimb
	for i := 0; i < nsig; i++ {
		key := t.keys[t.rn(len(t.keys))]
		err, pan := c14tTry(func() error {
			n, e := signer.SignTx(tx, key)
			if e == nil {
				tx = n
			}
			return e
		})
		if err != nil || pan != "" {
			t.c.Count("info:tx-sign-failed")
		} else {
			meta.sigKeys = append(meta.sigKeys, key)
		}
	}
	if reimb {
		_, _ = c14tTry(func() error {
			gp := gasPrice
			if gp == nil {
				gp = big.NewInt(1)
			}
			tx = types.GasPayerSignatureTx(tx, gp, gasLimit)
			return nil
		})
		np := t.rn(3)
		meta.labels = append(meta.labels, fmt.Sprintf("payersigs=%d", np))
		for i := 0; i < np; i++ {
			key := t.keys[t.rn(len(t.keys))]
			if err, pan := c14tTry(func() error {
				n, e := types.MakeGasPayerSigner().SignTx(tx, key)
				if e == nil {
					tx = n
				}
				return e
			}); err == nil && pan == "" {
				meta.payerKeys = append(meta.payerKeys, key)
			}
		}
	}
	if t.rn(3) == 0 {
		gu, _ := t.pickU64()
		tx.SetGasUsed(gu)
		meta.labels = append(meta.labels, "gasused=set")
	}
	return tx, meta
}

// craftTx rewrites wire fields that the constructors cannot produce (GasPayer absent,
// garbage signatures) by editing the RLP and decoding it again.
func (t *c14tState) craftTx(tx *types.Transaction, meta *c14tTxMeta) *types.Transaction {
	k := t.rn(10)
	if k > 2 {
		return tx
	}
	enc, err, pan := c14tEnc(tx)
	if err != nil || pan != "" {
		return tx
	}
	items, ok := c14tSplit(enc)
	if !ok || len(items) != 16 {
		return tx
	}
	items = c14tCopyItems(items)
	switch k {
	case 0:
		items[4] = []byte{0x80}
		meta.labels = append(meta.labels, "craft=gaspayer-nil")
	case 1:
		n := 1 + t.rn(3)
		var sigs [][]byte
		for i := 0; i < n; i++ {
			sigs = append(sigs, c14tString(t.bytesN(65)))
		}
		items[14] = c14tList(sigs...)
		meta.labels = append(meta.labels, "craft=garbage-sigs65")
	case 2:
		items[14] = c14tList(c14tString(t.bytesN(t.rn(70))), c14tString(nil))
		items[15] = c14tList(c14tString(t.bytesN(t.rn(70))))
		meta.sigLenOK = false
		meta.labels = append(meta.labels, "craft=garbage-sigs-anylen")
	}
	n := new(types.Transaction)
	if err, pan := c14tDec(c14tList(items...), n); err != nil || pan != "" {
		t.c.Count("info:tx-craft-rejected")
		return tx
	}
	switch k {
	case 0:
		meta.senderTamper = "the GasPayer field (part of the signed hash) was changed after signing"
	case 1:
		meta.senderTamper = "the sender signatures were replaced by random 65-byte strings"
		meta.payerTamper = "the sender signatures (part of the gas payer's signed hash) were replaced after signing"
	case 2:
		meta.senderTamper = "the sender signatures were replaced by random strings of any length"
		meta.payerTamper = "the gas payer signatures were replaced by a random string"
	}
	return n
}

// keyAddr: the account of a signing key, from the key itself (crypto.PubkeyToAddress), not from a recovery.
func c14tKeyAddr(k *ecdsa.PrivateKey) common.Address { return crypto.PubkeyToAddress(k.PublicKey) }

// checkFedSigners compares what /repo recovers with WHO SIGNED according to the generator, position by position.
// Intact signatures: exactly the signing keys, in order (no signature at all: an error). Tampered / garbage
// signatures: no recovery, or signers that are not the original ones at any position.
func (t *c14tState) checkFedSigners(stage string, tx *types.Transaction, meta *c14tTxMeta, encHex string) {
	all := map[common.Address]bool{}
	for _, k := range t.keys {
		all[c14tKeyAddr(k)] = true
	}
	one := func(role string, s types.Signer, keys []*ecdsa.PrivateKey, tamper string) {
		var got []common.Address
		err, pan := c14tTry(func() error {
			var e error
			got, e = s.GetSigners(tx)
			return e
		})
		var want []common.Address
		for _, k := range keys {
			want = append(want, c14tKeyAddr(k))
		}
		show := func(as []common.Address) string {
			var l []string
			for _, a := range as {
				l = append(l, a.Hex())
			}
			return "[" + strings.Join(l, ",") + "]"
		}
		bad := ""
		switch {
		case pan != "":
			bad = "GetSigners panics: " + pan
		case tamper == "" && len(want) == 0:
			if err == nil {
				bad = "no signature was made but GetSigners returns " + show(got)
			}
		case tamper == "":
			if err != nil {
				bad = "GetSigners fails (" + err.Error() + ") although the tx carries " + fmt.Sprint(len(want)) + " genuine signatures"
			} else if len(got) != len(want) {
				bad = "recovered " + show(got) + ", signed by " + show(want)
			} else {
				for i := range want {
					if got[i] != want[i] {
						bad = fmt.Sprintf("position %d: recovered %s, signed by %s (recovered %s, signers %s)", i, got[i].Hex(), want[i].Hex(), show(got), show(want))
						break
					}
				}
			}
		default:
			if err == nil {
				for i := range got {
					if (i < len(want) && got[i] == want[i]) || (strings.Contains(tamper, "random") && all[got[i]]) {
						bad = fmt.Sprintf("%s, yet position %d still recovers the generator's key %s", tamper, i, got[i].Hex())
						break
					}
				}
			}
		}
		cl := "intact"
		if tamper != "" {
			cl = "tampered"
		}
		t.c.Count(fmt.Sprintf("typed:tx:fed-signers:%s:%s:%s:n=%d", stage, role, cl, len(want)))
		if bad != "" {
			t.fail("c14/fed-fact/signers", stage+" "+role+": "+bad+"; tx "+c14tTxString(tx), encHex)
		}
	}
	var sender types.Signer = types.MakeSigner()
	if meta.reimb {
		sender = types.MakeReimbursementTxSigner()
	}
	one("sender", sender, meta.sigKeys, meta.senderTamper)
	if meta.reimb {
		one("gaspayer", types.MakeGasPayerSigner(), meta.payerKeys, meta.payerTamper)
	}
}

func c14tSigners(s types.Signer, tx *types.Transaction) string {
	var as []common.Address
	err, pan := c14tTry(func() error {
		var e error
		as, e = s.GetSigners(tx)
		return e
	})
	if err != nil || pan != "" {
		return c14tErrStr(err, pan)
	}
	var sb strings.Builder
	sb.WriteString("ok:")
	for _, a := range as {
		sb.WriteString(a.Hex())
		sb.WriteString(",")
	}
	return sb.String()
}

func c14tAllSigners(tx *types.Transaction) string {
	return "default=" + c14tSigners(types.MakeSigner(), tx) + " reimb=" + c14tSigners(types.MakeReimbursementTxSigner(), tx) + " payer=" + c14tSigners(types.MakeGasPayerSigner(), tx)
}

func c14tTxHash(tx *types.Transaction) string {
	var h common.Hash
	_, pan := c14tTry(func() error { h = tx.Hash(); return nil })
	if pan != "" {
		return pan
	}
	return h.Hex()
}

func c14tTxString(tx *types.Transaction) string {
	return c14tStr(func() string { return tx.String() })
}

// ---------------------------------------------------------------- change logs

// fake processor / accessor: every method is a no-op
type c14tProc struct{}

func (c14tProc) GetAccount(addr common.Address) types.AccountAccessor { return c14tAcc{} }

type c14tAcc struct{}

func (c14tAcc) GetAddress() common.Address                                       { return common.Address{} }
func (c14tAcc) GetVersion(logType types.ChangeLogType) uint32                    { return 0 }
func (c14tAcc) GetNextVersion(logType types.ChangeLogType) uint32                { return 1 }
func (c14tAcc) GetVoteFor() common.Address                                       { return common.Address{} }
func (c14tAcc) SetVoteFor(addr common.Address)                                   {}
func (c14tAcc) GetVotes() *big.Int                                               { return new(big.Int) }
func (c14tAcc) SetVotes(votes *big.Int)                                          {}
func (c14tAcc) GetCandidate() types.Profile                                      { return nil }
func (c14tAcc) SetCandidate(profile types.Profile)                               {}
func (c14tAcc) GetCandidateState(key string) string                              { return "" }
func (c14tAcc) SetCandidateState(key string, val string)                         {}
func (c14tAcc) GetBalance() *big.Int                                             { return new(big.Int) }
func (c14tAcc) SetBalance(balance *big.Int)                                      {}
func (c14tAcc) GetCodeHash() common.Hash                                         { return common.Hash{} }
func (c14tAcc) SetCodeHash(codeHash common.Hash)                                 {}
func (c14tAcc) GetCode() (types.Code, error)                                     { return nil, nil }
func (c14tAcc) SetCode(code types.Code)                                          {}
func (c14tAcc) GetStorageRoot() common.Hash                                      { return common.Hash{} }
func (c14tAcc) SetStorageRoot(root common.Hash)                                  {}
func (c14tAcc) GetAssetCodeRoot() common.Hash                                    { return common.Hash{} }
func (c14tAcc) SetAssetCodeRoot(root common.Hash)                                {}
func (c14tAcc) GetAssetIdRoot() common.Hash                                      { return common.Hash{} }
func (c14tAcc) SetAssetIdRoot(root common.Hash)                                  {}
func (c14tAcc) GetEquityRoot() common.Hash                                       { return common.Hash{} }
func (c14tAcc) SetEquityRoot(root common.Hash)                                   {}
func (c14tAcc) GetStorageState(key common.Hash) ([]byte, error)                  { return nil, nil }
func (c14tAcc) SetStorageState(key common.Hash, value []byte) error              { return nil }
func (c14tAcc) GetAssetCode(code common.Hash) (*types.Asset, error)              { return nil, nil }
func (c14tAcc) SetAssetCode(code common.Hash, asset *types.Asset) error          { return nil }
func (c14tAcc) GetAssetCodeTotalSupply(code common.Hash) (*big.Int, error)       { return new(big.Int), nil }
func (c14tAcc) SetAssetCodeTotalSupply(code common.Hash, val *big.Int) error     { return nil }
func (c14tAcc) GetAssetCodeState(code common.Hash, key string) (string, error)   { return "", nil }
func (c14tAcc) SetAssetCodeState(code common.Hash, key string, val string) error { return nil }
func (c14tAcc) GetAssetIdState(id common.Hash) (string, error)                   { return "", nil }
func (c14tAcc) SetAssetIdState(id common.Hash, data string) error                { return nil }
func (c14tAcc) GetEquityState(id common.Hash) (*types.AssetEquity, error)        { return nil, nil }
func (c14tAcc) SetEquityState(id common.Hash, equity *types.AssetEquity) error   { return nil }
func (c14tAcc) SetSingers(signers types.Signers) error                           { return nil }
func (c14tAcc) GetSigners() types.Signers                                        { return nil }
func (c14tAcc) PushEvent(event *types.Event)                                     {}
func (c14tAcc) PopEvent() error                                                  { return nil }
func (c14tAcc) GetEvents() []*types.Event                                        { return nil }
func (c14tAcc) GetSuicide() bool                                                 { return false }
func (c14tAcc) SetSuicide(suicided bool)                                         {}
func (c14tAcc) IsEmpty() bool                                                    { return true }
func (c14tAcc) MarshalJSON() ([]byte, error)                                     { return []byte("{}"), nil }

var c14tLogTypes = []types.ChangeLogType{account.BalanceLog, account.StorageLog, account.StorageRootLog, account.AssetCodeLog,
	account.AssetCodeStateLog, account.AssetCodeRootLog, account.AssetCodeTotalSupplyLog, account.AssetIdLog, account.AssetIdRootLog,
	account.EquityLog, account.EquityRootLog, account.CandidateLog, account.CandidateStateLog, account.CodeLog, account.AddEventLog,
	account.SuicideLog, account.VoteForLog, account.VotesLog, account.SignerLog}

type c14tLogShape struct {
	name string
	// constructor-producibility of this exact dynamic shape ("reachable: yes/no + why")
	reach string
	safe  bool // round-trips; may be embedded into blocks
	mk    func(t *c14tState) (newVal, extra, oldVal interface{})
}

func c14tBigVal(x *big.Int) interface{} { return *x }

func (t *c14tState) genEvent(kind int) *types.Event {
	e := &types.Event{}
	e.Address, _ = t.pickAddr()
	switch kind % 4 {
	case 0:
		// Topics nil, Data nil
	case 1:
		e.Topics = []common.Hash{}
		e.Data = []byte{}
	case 2:
		e.Topics = []common.Hash{types.TopicContractCreation}
		e.Data = []byte{0x00}
	default:
		for i := 0; i < 1+t.rn(4); i++ {
			h, _ := t.pickHash()
			e.Topics = append(e.Topics, h)
		}
		e.Data, _ = t.pickData()
	}
	if t.rn(2) == 0 {
		e.TxHash, _ = t.pickHash()
		e.TxIndex = uint(t.rn(1000))
		e.Index = uint(t.rn(1000))
		e.Removed = t.rn(2) == 0
	}
	return e
}

func c14tLogShapes(lt types.ChangeLogType) []c14tLogShape {
	const yes = "reachable: yes (the NewXxxLog constructor stores exactly this dynamic type/shape)"
	hashExtra := func(t *c14tState) interface{} { h, _ := t.pickHash(); return h }
	bigShapes := func(withHash bool, ctor string) []c14tLogShape {
		ex := func(t *c14tState) interface{} {
			if withHash {
				return hashExtra(t)
			}
			return nil
		}
		mk := func(name string, f func(t *c14tState) *big.Int) c14tLogShape {
			return c14tLogShape{name, yes, true, func(t *c14tState) (interface{}, interface{}, interface{}) {
				return c14tBigVal(f(t)), ex(t), c14tBigVal(big.NewInt(int64(t.rn(1000))))
			}}
		}
		return []c14tLogShape{
			mk("big=0", func(t *c14tState) *big.Int { return new(big.Int) }),
			mk("big=small", func(t *c14tState) *big.Int { return big.NewInt(int64(1 + t.rn(127))) }),
			mk("big=128", func(t *c14tState) *big.Int { return big.NewInt(128) }),
			mk("big=2^255", func(t *c14tState) *big.Int { return new(big.Int).Lsh(big.NewInt(1), 255) }),
			mk("big=rand", func(t *c14tState) *big.Int { return new(big.Int).SetBytes(t.bytesN(1 + t.rn(33))) }),
			{"newval=untyped-nil", "reachable: no (" + ctor + " always stores a big.Int by value; new(big.Int).Set(nil) would panic before)", false,
				func(t *c14tState) (interface{}, interface{}, interface{}) {
					return nil, ex(t), c14tBigVal(new(big.Int))
				}},
		}
	}
	rootShapes := func() []c14tLogShape {
		mk := func(name string, f func(t *c14tState) common.Hash) c14tLogShape {
			return c14tLogShape{name, yes, true, func(t *c14tState) (interface{}, interface{}, interface{}) {
				return f(t), nil, common.Hash{}
			}}
		}
		return []c14tLogShape{
			mk("hash=zero", func(t *c14tState) common.Hash { return common.Hash{} }),
			mk("hash=rand", func(t *c14tState) common.Hash { return common.BytesToHash(t.bytesN(32)) }),
			mk("hash=leadzero", func(t *c14tState) common.Hash { return common.BytesToHash(t.bytesN(1 + t.rn(30))) }),
		}
	}
	strShapes := func(extra func(t *c14tState) interface{}) []c14tLogShape {
		mk := func(name string, s func(t *c14tState) string) c14tLogShape {
			return c14tLogShape{name, yes, true, func(t *c14tState) (interface{}, interface{}, interface{}) { return s(t), extra(t), "old" }}
		}
		return []c14tLogShape{
			mk("str=empty", func(t *c14tState) string { return "" }),
			mk("str=1char", func(t *c14tState) string { return "a" }),
			mk("str=1byte-80", func(t *c14tState) string { return "\x80" }),
			mk("str=long", func(t *c14tState) string { return strings.Repeat("v", 56+t.rn(300)) }),
			mk("str=nonutf8", func(t *c14tState) string { return "\xff\x00\xfe" }),
		}
	}
	switch lt {
	case account.BalanceLog:
		return bigShapes(false, "NewBalanceLog")
	case account.VotesLog:
		return bigShapes(false, "NewVotesLog")
	case account.AssetCodeTotalSupplyLog:
		return bigShapes(true, "NewAssetCodeTotalSupplyLog")
	case account.StorageRootLog, account.AssetCodeRootLog, account.AssetIdRootLog, account.EquityRootLog:
		return rootShapes()
	case account.StorageLog:
		mk := func(name string, f func(t *c14tState) []byte) c14tLogShape {
			return c14tLogShape{name, yes, true, func(t *c14tState) (interface{}, interface{}, interface{}) {
				return f(t), hashExtra(t), []byte(nil)
			}}
		}
		return []c14tLogShape{
			mk("bytes=nil", func(t *c14tState) []byte { return nil }),
			mk("bytes=empty", func(t *c14tState) []byte { return []byte{} }),
			mk("bytes=00", func(t *c14tState) []byte { return []byte{0} }),
			mk("bytes=7f", func(t *c14tState) []byte { return []byte{0x7f} }),
			mk("bytes=80", func(t *c14tState) []byte { return []byte{0x80} }),
			mk("bytes=32", func(t *c14tState) []byte { return t.bytesN(32) }),
			mk("bytes=100", func(t *c14tState) []byte { return t.bytesN(100) }),
		}
	case account.AssetCodeLog:
		return []c14tLogShape{
			{"asset=typed-nil", "reachable: constructor yes (NewAssetCodeLog(..., nil) stores asset.Clone() == (*types.Asset)(nil)); tx executor no (asset_tx.go:66 always passes a non-nil asset)", true, // round-trips since /repo 4e3d12b
				func(t *c14tState) (interface{}, interface{}, interface{}) {
					var a *types.Asset
					return a.Clone(), hashExtra(t), a.Clone()
				}},
			{"asset=empty-profile", yes, true, func(t *c14tState) (interface{}, interface{}, interface{}) {
				a := t.genAssetValue()
				a.Profile = nil
				a.TotalSupply = nil
				return a.Clone(), hashExtra(t), (*types.Asset)(nil)
			}},
			{"asset=profile", yes, true, func(t *c14tState) (interface{}, interface{}, interface{}) {
				a := t.genAssetValue()
				a.Profile = types.Profile{types.AssetName: "n", types.AssetSymbol: "S", "": ""}
				return a.Clone(), hashExtra(t), (*types.Asset)(nil)
			}},
		}
	case account.AssetCodeStateLog:
		return strShapes(func(t *c14tState) interface{} {
			e := &account.ProfileChangeLogExtra{}
			e.UUID, _ = t.pickHash()
			e.Key, _, _ = t.pickStr(64)
			return e
		})
	case account.AssetIdLog:
		return strShapes(hashExtra)
	case account.CandidateStateLog:
		return strShapes(func(t *c14tState) interface{} {
			return []string{"", types.CandidateKeyIsCandidate, types.CandidateKeyDepositAmount, "k"}[t.rn(4)]
		})
	case account.EquityLog:
		mk := func(name string, f func(t *c14tState) *big.Int) c14tLogShape {
			return c14tLogShape{name, yes, true, func(t *c14tState) (interface{}, interface{}, interface{}) {
				e := &types.AssetEquity{Equity: f(t)}
				e.AssetCode, _ = t.pickHash()
				e.AssetId, _ = t.pickHash()
				return e.Clone(), hashExtra(t), e.Clone()
			}}
		}
		return []c14tLogShape{
			{"equity=untyped-nil", "reachable: yes (NewEquityLog(..., nil) stores an untyped nil)", true,
				func(t *c14tState) (interface{}, interface{}, interface{}) { return nil, hashExtra(t), nil }},
			mk("equity=0", func(t *c14tState) *big.Int { return nil }),
			mk("equity=big", func(t *c14tState) *big.Int { return new(big.Int).Lsh(big.NewInt(3), 100) }),
		}
	case account.CandidateLog:
		mk := func(name, reach string, safe bool, kind int) c14tLogShape {
			return c14tLogShape{name, reach, safe, func(t *c14tState) (interface{}, interface{}, interface{}) {
				p, _ := t.pickProfile(kind)
				o := types.Profile(nil)
				return &p, nil, &o
			}}
		}
		emptyReach := "reachable: constructor yes (NewCandidateLog clones the argument: a nil/empty profile gives &Profile(nil)/&Profile{}); tx executor no (buildProfile always adds isCandidate/host/port keys)"
		return []c14tLogShape{
			mk("profile=nil-map", emptyReach, true, 0), // round-trip since /repo 29ca096
			mk("profile=empty-map", emptyReach, true, 1),
			mk("profile=1", yes, true, 2),
			mk("profile=emptykv", yes, true, 3),
			mk("profile=many", yes, true, 4),
		}
	case account.CodeLog:
		mk := func(name string, f func(t *c14tState) types.Code) c14tLogShape {
			return c14tLogShape{name, yes, true, func(t *c14tState) (interface{}, interface{}, interface{}) { return f(t), nil, nil }}
		}
		return []c14tLogShape{
			mk("code=nil", func(t *c14tState) types.Code { return nil }),
			mk("code=empty", func(t *c14tState) types.Code { return types.Code{} }),
			mk("code=00", func(t *c14tState) types.Code { return types.Code{0} }),
			mk("code=short", func(t *c14tState) types.Code { return types.Code{0x60, 0x80, 0x60, 0x40, 0x52} }),
			mk("code=long", func(t *c14tState) types.Code { return types.Code(t.bytesN(300)) }),
			{"newval=untyped-nil", "reachable: no (NewCodeLog's parameter has static type types.Code, so NewVal always holds a typed value)", false,
				func(t *c14tState) (interface{}, interface{}, interface{}) { return nil, nil, nil }},
		}
	case account.AddEventLog:
		mk := func(kind int) c14tLogShape {
			return c14tLogShape{fmt.Sprintf("event=kind%d", kind), yes, true, func(t *c14tState) (interface{}, interface{}, interface{}) {
				return t.genEvent(kind), nil, nil
			}}
		}
		return []c14tLogShape{mk(0), mk(1), mk(2), mk(3),
			{"event=nil-pointer", "reachable: constructor yes (NewAddEventLog(..., nil) stores (*types.Event)(nil), IsValuable even tests for it); tx executor no (Manager.AddEvent dereferences event.Address first, manager.go:101)", false,
				func(t *c14tState) (interface{}, interface{}, interface{}) { return (*types.Event)(nil), nil, nil }},
		}
	case account.SuicideLog:
		return []c14tLogShape{{"nil-nil", yes, true, func(t *c14tState) (interface{}, interface{}, interface{}) {
			return nil, nil, &types.AccountData{Balance: big.NewInt(5)}
		}}}
	case account.VoteForLog:
		return []c14tLogShape{{"addr", yes, true, func(t *c14tState) (interface{}, interface{}, interface{}) {
			a, _ := t.pickAddr()
			return a, nil, common.Address{}
		}}, {"addr=zero", yes, true, func(t *c14tState) (interface{}, interface{}, interface{}) {
			return common.Address{}, nil, common.Address{}
		}}}
	case account.SignerLog:
		emptyReach := "reachable: constructor yes (NewSignerLog stores its argument as is); tx executor no (setMultisigAccount requires total weight >= 100, i.e. at least one signer)"
		mk := func(name, reach string, safe bool, kind int) c14tLogShape {
			return c14tLogShape{name, reach, safe, func(t *c14tState) (interface{}, interface{}, interface{}) {
				s, _ := t.pickSigners(kind)
				return s, nil, types.Signers(nil)
			}}
		}
		return []c14tLogShape{
			mk("signers=nil", emptyReach, true, 0), // round-trip since /repo f02560a
			mk("signers=empty", emptyReach, true, 1),
			mk("signers=1", yes, true, 2),
			mk("signers=many", yes, true, 3),
		}
	}
	return nil
}

func (t *c14tState) genLog(lt types.ChangeLogType, sh c14tLogShape) *types.ChangeLog {
	l := &types.ChangeLog{LogType: lt}
	l.Address, _ = t.pickAddr()
	l.Version, _ = t.pickU32()
	l.NewVal, l.Extra, l.OldVal = sh.mk(t)
	return l
}

// genSafeLog: a change log of a random type in a shape that is known to round-trip (for blocks).
func (t *c14tState) genSafeLog() *types.ChangeLog {
	for {
		lt := c14tLogTypes[t.rn(len(c14tLogTypes))]
		shs := c14tLogShapes(lt)
		sh := shs[t.rn(len(shs))]
		if sh.safe {
			return t.genLog(lt, sh)
		}
	}
}

func c14tLogString(l *types.ChangeLog) string {
	return c14tStr(func() string { return fmt.Sprintf("%s NewVal=%T Extra=%T", l.String(), l.NewVal, l.Extra) })
}

func c14tRedo(l *types.ChangeLog) string {
	err, pan := c14tTry(func() error { return l.Redo(c14tProc{}) })
	return c14tErrStr(err, pan)
}

// ---------------------------------------------------------------- account data / deputy / asset / net messages

func (t *c14tState) genAccountData() *types.AccountData {
	c := t.c
	a := &types.AccountData{}
	a.Address, _ = t.pickAddr()
	var l string
	a.Balance, l = t.pickBig(true)
	c.Count("typed:accountdata:balance=" + l)
	a.CodeHash, _ = t.pickHash()
	a.StorageRoot, _ = t.pickHash()
	a.AssetCodeRoot, _ = t.pickHash()
	a.AssetIdRoot, _ = t.pickHash()
	a.EquityRoot, _ = t.pickHash()
	a.VoteFor, _ = t.pickAddr()
	a.Candidate.Votes, l = t.pickBig(true)
	c.Count("typed:accountdata:votes=" + l)
	a.Candidate.Profile, l = t.pickProfile(t.rn(5))
	c.Count("typed:accountdata:profile=" + l)
	switch t.rn(4) {
	case 0:
		c.Count("typed:accountdata:records=nil")
	case 1:
		a.NewestRecords = map[types.ChangeLogType]types.VersionRecord{}
		c.Count("typed:accountdata:records=empty")
	case 2:
		v, _ := t.pickU32()
		h, _ := t.pickU32()
		a.NewestRecords = map[types.ChangeLogType]types.VersionRecord{account.BalanceLog: {Version: v, Height: h}}
		c.Count("typed:accountdata:records=1")
	default:
		a.NewestRecords = map[types.ChangeLogType]types.VersionRecord{}
		for i := 0; i < 3+t.rn(17); i++ {
			v, _ := t.pickU32()
			h, _ := t.pickU32()
			k := c14tLogTypes[t.rn(len(c14tLogTypes))]
			if t.rn(8) == 0 {
				k = types.ChangeLogType(t.r.Uint32())
			}
			a.NewestRecords[k] = types.VersionRecord{Version: v, Height: h}
		}
		c.Count("typed:accountdata:records=many")
	}
	a.Signers, l = t.pickSigners(t.rn(4))
	c.Count("typed:accountdata:signers=" + l)
	return a
}

// c14tCanonAccount sorts the NewestRecords list (element 11) of an AccountData encoding.
func c14tCanonAccount(enc []byte) []byte {
	items, ok := c14tSplit(enc)
	if !ok || len(items) != 13 {
		return enc
	}
	recs, ok := c14tSplit(items[11])
	if !ok {
		return enc
	}
	recs = c14tCopyItems(recs)
	sort.Slice(recs, func(i, j int) bool { return bytes.Compare(recs[i], recs[j]) < 0 })
	items = c14tCopyItems(items)
	items[11] = c14tList(recs...)
	return c14tList(items...)
}

func (t *c14tState) genDeputy() *types.DeputyNode {
	c := t.c
	d := &types.DeputyNode{}
	d.MinerAddress, _ = t.pickAddr()
	var l string
	d.Votes, l = t.pickBig(true)
	c.Count("typed:deputynode:votes=" + l)
	switch t.rn(4) {
	case 0:
		c.Count("typed:deputynode:nodeid=nil")
	case 1:
		d.NodeID = []byte{}
		c.Count("typed:deputynode:nodeid=empty")
	default:
		d.NodeID = t.bytesN(64)
		c.Count("typed:deputynode:nodeid=64")
	}
	switch t.rn(4) {
	case 0:
		d.Rank = 0
	case 1:
		d.Rank = 65535
	case 2:
		d.Rank = 1<<32 - 1
	default:
		d.Rank, _ = t.pickU32()
	}
	c.Count(fmt.Sprintf("typed:deputynode:rank=%s", map[bool]string{true: "edge", false: "other"}[d.Rank == 0 || d.Rank == 65535 || d.Rank == 1<<32-1]))
	return d
}

type c14tMsg struct {
	name   string
	hashed bool
	gen    func(t *c14tState) interface{}
	fresh  func() interface{}
}

func (t *c14tState) genStatus() network.LatestStatus {
	s := network.LatestStatus{}
	s.CurHeight, _ = t.pickU32()
	s.CurHash, _ = t.pickHash()
	s.StaHeight, _ = t.pickU32()
	s.StaHash, _ = t.pickHash()
	return s
}

var c14tMsgs = []c14tMsg{
	{"handshake", false, func(t *c14tState) interface{} {
		m := &network.ProtocolHandshake{ChainID: uint16(t.rn(65536)), LatestStatus: t.genStatus()}
		m.GenesisHash, _ = t.pickHash()
		m.NodeVersion, _ = t.pickU32()
		return m
	}, func() interface{} { return new(network.ProtocolHandshake) }},
	{"lateststatus", false, func(t *c14tState) interface{} { s := t.genStatus(); return &s }, func() interface{} { return new(network.LatestStatus) }},
	{"getlateststatus", false, func(t *c14tState) interface{} {
		m := &network.GetLatestStatus{}
		m.Revert, _ = t.pickU32()
		return m
	}, func() interface{} { return new(network.GetLatestStatus) }},
	{"blockhash", false, func(t *c14tState) interface{} {
		m := &network.BlockHashData{}
		m.Height, _ = t.pickU32()
		m.Hash, _ = t.pickHash()
		return m
	}, func() interface{} { return new(network.BlockHashData) }},
	{"getblocks", false, func(t *c14tState) interface{} {
		m := &network.GetBlocksData{}
		m.From, _ = t.pickU32()
		m.To, _ = t.pickU32()
		return m
	}, func() interface{} { return new(network.GetBlocksData) }},
	{"getsingleblock", false, func(t *c14tState) interface{} {
		m := &network.GetSingleBlockData{}
		m.Height, _ = t.pickU32()
		m.Hash, _ = t.pickHash()
		return m
	}, func() interface{} { return new(network.GetSingleBlockData) }},
	{"blockconfirm", true, func(t *c14tState) interface{} {
		m := &network.BlockConfirmData{SignInfo: t.pickSignData()}
		m.Height, _ = t.pickU32()
		m.Hash, _ = t.pickHash()
		return m
	}, func() interface{} { return new(network.BlockConfirmData) }},
	{"getconfirminfo", false, func(t *c14tState) interface{} {
		m := &network.GetConfirmInfo{}
		m.Height, _ = t.pickU32()
		m.Hash, _ = t.pickHash()
		return m
	}, func() interface{} { return new(network.GetConfirmInfo) }},
	{"blockconfirms", true, func(t *c14tState) interface{} {
		m := &network.BlockConfirms{}
		m.Height, _ = t.pickU32()
		m.Hash, _ = t.pickHash()
		switch t.rn(3) {
		case 0:
		case 1:
			m.Pack = []types.SignData{}
		default:
			for i := 0; i < 1+t.rn(4); i++ {
				m.Pack = append(m.Pack, t.pickSignData())
			}
		}
		return m
	}, func() interface{} { return new(network.BlockConfirms) }},
	{"discoverres", false, func(t *c14tState) interface{} {
		m := &network.DiscoverResData{Sequence: uint(t.r.Uint64() >> uint(t.rn(64)))}
		switch t.rn(3) {
		case 0:
		case 1:
			m.Nodes = []string{}
		default:
			for i := 0; i < 1+t.rn(5); i++ {
				m.Nodes = append(m.Nodes, c14tHex(t.bytesN(8))+"@10.0.0.1:7001")
			}
		}
		return m
	}, func() interface{} { return new(network.DiscoverResData) }},
	{"discoverreq", false, func(t *c14tState) interface{} {
		return &network.DiscoverReqData{Sequence: uint(t.r.Uint64() >> uint(t.rn(64)))}
	}, func() interface{} { return new(network.DiscoverReqData) }},
	{"signdata", true, func(t *c14tState) interface{} { s := t.pickSignData(); return &s }, func() interface{} { return new(types.SignData) }},
	{"txs", true, func(t *c14tState) interface{} {
		var txs types.Transactions
		switch t.rn(3) {
		case 0:
			txs = types.Transactions{}
		default:
			for i := 0; i < 1+t.rn(3); i++ {
				if tx, _ := t.genTx(true); tx != nil {
					txs = append(txs, tx)
				}
			}
		}
		return &txs
	}, func() interface{} { return new(types.Transactions) }},
}

// ---------------------------------------------------------------- section A: value round trips

type c14tFam struct {
	name   string
	hashed bool
	fresh  func() interface{}
	canon  func([]byte) []byte
}

func c14tIdent(b []byte) []byte { return b }

var (
	c14tFamHeader  = &c14tFam{"header", true, func() interface{} { return new(types.Header) }, c14tIdent}
	c14tFamBlock   = &c14tFam{"block", true, func() interface{} { return new(types.Block) }, c14tIdent}
	c14tFamBlocks  = &c14tFam{"blocks", true, func() interface{} { return new(types.Blocks) }, c14tIdent}
	c14tFamTx      = &c14tFam{"tx", true, func() interface{} { return new(types.Transaction) }, c14tIdent}
	c14tFamLog     = &c14tFam{"changelog", true, func() interface{} { return new(types.ChangeLog) }, c14tIdent}
	c14tFamLogs    = &c14tFam{"changelogs", true, func() interface{} { return new(types.ChangeLogSlice) }, c14tIdent}
	c14tFamAccount = &c14tFam{"accountdata", false, func() interface{} { return new(types.AccountData) }, c14tIdent}
	c14tFamDeputy  = &c14tFam{"deputynode", true, func() interface{} { return new(types.DeputyNode) }, c14tIdent}
	c14tFamDeputys = &c14tFam{"deputynodes", true, func() interface{} { return new(types.DeputyNodes) }, c14tIdent}
	c14tFamEvent   = &c14tFam{"event", true, func() interface{} { return new(types.Event) }, c14tIdent}
	c14tFamEventSt = &c14tFam{"eventstorage", false, func() interface{} { return new(types.EventForStorage) }, c14tIdent}
	c14tFamAsset   = &c14tFam{"asset", true, func() interface{} {
		// prepared like chain/account/account.go:468-471
		return &types.Asset{TotalSupply: new(big.Int), Profile: make(types.Profile)}
	}, c14tIdent}
	c14tFamEquity = &c14tFam{"assetequity", true, func() interface{} { return &types.AssetEquity{Equity: new(big.Int)} }, c14tIdent}
)

// roundTrip runs the generic checks of section A. suffix is appended to the signatures ("" or "/<LogTypeName>").
func (t *c14tState) roundTrip(f *c14tFam, suffix string, v interface{}, desc func() string) (enc []byte, dec interface{}, ok bool) {
	fam := f.name
	enc, err, pan := c14tEnc(v)
	if err != nil || pan != "" {
		t.fail("c14/"+fam+"-encode-error"+suffix, "encoding a generated value failed: "+c14tErrStr(err, pan)+"; value: "+c14tStr(desc), c14tStr(desc))
		return nil, nil, false
	}
	dec = f.fresh()
	if err, pan := c14tDec(enc, dec); err != nil || pan != "" {
		t.fail("c14/"+fam+"-roundtrip-error"+suffix, "decode(encode(v)) failed: "+c14tErrStr(err, pan)+"; value: "+c14tStr(desc), c14tHex(enc))
		return enc, nil, false
	}
	re, err, pan := c14tEnc(dec)
	if err != nil || pan != "" {
		t.fail("c14/"+fam+"-reencode"+suffix, "re-encoding the decoded value failed: "+c14tErrStr(err, pan)+"; value: "+c14tStr(desc), c14tHex(enc))
	} else if !bytes.Equal(f.canon(re), f.canon(enc)) {
		t.fail("c14/"+fam+"-reencode"+suffix, "encode(decode(encode(v))) != encode(v): got "+c14tHex(re)+"; value: "+c14tStr(desc), c14tHex(enc))
	}
	diff, shapes := c14tSemEq(v, dec)
	if diff != "" {
		t.fail("c14/"+fam+"-value"+suffix, "decoded value differs: "+diff+"; value: "+c14tStr(desc), c14tHex(enc))
	}
	for _, s := range shapes {
		t.c.Count("info:" + fam + "-shape:" + s)
	}
	return enc, dec, true
}

func (t *c14tState) caseHeader() {
	h, key := t.genHeader()
	t.c.Count("typed:header:case")
	desc := func() string { return h.String() + " Extra=" + fmt.Sprintf("%q", h.Extra) }
	enc, dec, ok := t.roundTrip(c14tFamHeader, "", h, desc)
	if ok {
		d := dec.(*types.Header)
		var h1, h2 common.Hash
		_, p := c14tTry(func() error { h1, h2 = h.Hash(), d.Hash(); return nil })
		if p != "" || h1 != h2 {
			t.fail("c14/header-hash", fmt.Sprintf("Hash() %s -> %s %s; header %s", h1.Hex(), h2.Hex(), p, c14tStr(desc)), c14tHex(enc))
		}
		s1, s2 := c14tHeaderSigner(h), c14tHeaderSigner(d)
		if s1 != s2 {
			t.fail("c14/header-signers", "SignerNodeID before "+s1+" after "+s2, c14tHex(enc))
		}
		if key != nil {
			want := "ok:" + c14tHex(crypto.PrivateKeyToNodeID(key))
			if s2 != want {
				t.fail("c14/header-signers", "decoded header recovers "+s2+" but was signed by "+want, c14tHex(enc))
			}
			t.c.Count("typed:header:signer-recovered")
		} else {
			t.c.Count("typed:header:signer=" + firstWord(strings.SplitN(s1, ":", 2)[0]))
		}
	}
	if enc != nil {
		t.mutations(c14tFamHeader, enc)
	}
}

func (t *c14tState) genBlock() *types.Block {
	c := t.c
	h, _ := t.genHeader()
	b := &types.Block{Header: h}
	switch t.rn(4) {
	case 0:
		c.Count("typed:block:txs=nil")
	case 1:
		b.Txs = types.Transactions{}
		c.Count("typed:block:txs=empty")
	default:
		for i := 0; i < 1+t.rn(3); i++ {
			if tx, _ := t.genTx(true); tx != nil {
				b.Txs = append(b.Txs, tx)
			}
		}
		c.Count("typed:block:txs=some")
	}
	switch t.rn(4) {
	case 0:
		c.Count("typed:block:logs=nil")
	case 1:
		b.ChangeLogs = types.ChangeLogSlice{}
		c.Count("typed:block:logs=empty")
	default:
		for i := 0; i < 1+t.rn(4); i++ {
			b.ChangeLogs = append(b.ChangeLogs, t.genSafeLog())
		}
		c.Count("typed:block:logs=some")
	}
	switch t.rn(3) {
	case 0:
		c.Count("typed:block:confirms=nil")
	case 1:
		b.Confirms = []types.SignData{}
		c.Count("typed:block:confirms=empty")
	default:
		for i := 0; i < 1+t.rn(3); i++ {
			b.Confirms = append(b.Confirms, t.pickSignData())
		}
		c.Count("typed:block:confirms=some")
	}
	switch t.rn(3) {
	case 0:
		c.Count("typed:block:deputies=nil")
	case 1:
		b.DeputyNodes = types.DeputyNodes{}
		c.Count("typed:block:deputies=empty")
	default:
		for i := 0; i < 1+t.rn(3); i++ {
			b.DeputyNodes = append(b.DeputyNodes, t.genDeputy())
		}
		c.Count("typed:block:deputies=some")
	}
	return b
}

func c14tBlockRoots(b *types.Block) string {
	return c14tStr(func() string {
		return fmt.Sprintf("hash=%s txroot=%s logroot=%s deputyroot=%s signer=%s", b.Hash().Hex(), b.Txs.MerkleRootSha().Hex(),
			b.ChangeLogs.MerkleRootSha().Hex(), b.DeputyNodes.MerkleRootSha().Hex(), c14tHeaderSigner(b.Header))
	})
}

func (t *c14tState) caseBlock() {
	b := t.genBlock()
	t.c.Count("typed:block:case")
	desc := func() string { return b.String() }
	enc, dec, ok := t.roundTrip(c14tFamBlock, "", b, desc)
	if ok {
		d := dec.(*types.Block)
		r1, r2 := c14tBlockRoots(b), c14tBlockRoots(d)
		if r1 != r2 || r1 == "panic" {
			t.fail("c14/block-hash", "hash / merkle roots / signer changed by the round trip: "+r1+" -> "+r2, c14tHex(enc))
		}
	}
	if enc != nil {
		t.mutations(c14tFamBlock, enc)
	}
}

func (t *c14tState) caseBlocks() {
	var bs types.Blocks
	switch t.rn(3) {
	case 0:
		bs = types.Blocks{}
		t.c.Count("typed:blocks:empty")
	default:
		for i := 0; i < 1+t.rn(3); i++ {
			bs = append(bs, t.genBlock())
		}
		t.c.Count("typed:blocks:some")
	}
	enc, dec, ok := t.roundTrip(c14tFamBlocks, "", &bs, func() string { return fmt.Sprintf("%d blocks", len(bs)) })
	if ok {
		d := *(dec.(*types.Blocks))
		for i := range bs {
			if i < len(d) && c14tBlockRoots(bs[i]) != c14tBlockRoots(d[i]) {
				t.fail("c14/blocks-hash", fmt.Sprintf("block %d: %s -> %s", i, c14tBlockRoots(bs[i]), c14tBlockRoots(d[i])), c14tHex(enc))
			}
		}
	}
	if enc != nil {
		t.mutations(c14tFamBlocks, enc)
	}
}

func (t *c14tState) caseTx() {
	c := t.c
	tx, meta := t.genTx(true)
	if tx == nil {
		return
	}
	tx = t.craftTx(tx, meta)
	c.Count("typed:tx:case")
	for _, l := range meta.labels {
		c.Count("typed:tx:" + l)
	}
	desc := func() string { return c14tTxString(tx) }
	enc, dec, ok := t.roundTrip(c14tFamTx, "", tx, desc)
	h0 := c14tTxHash(tx)
	s0 := c14tAllSigners(tx)
	t.checkFedSigners("before", tx, meta, c14tHex(enc))
	if ok {
		d := dec.(*types.Transaction)
		t.checkFedSigners("after-rlp", d, meta, c14tHex(enc))
		if h1 := c14tTxHash(d); h1 != h0 || strings.HasPrefix(h0, "panic") {
			t.fail("c14/tx-hash", "Hash() "+h0+" -> "+h1+"; tx "+c14tStr(desc), c14tHex(enc))
		}
		if s1 := c14tAllSigners(d); s1 != s0 {
			t.fail("c14/tx-signers", "signers before: "+s0+" after: "+s1, c14tHex(enc))
		}
		if strings.Contains(s0, "ok:") {
			c.Count("typed:tx:signers-recovered")
		}
		if meta.isBox {
			t.checkBox("rlp", d, meta, enc)
		}
		// a decoded tx without GasPayer on the wire cannot be cloned / signed
		if strings.Contains(strings.Join(meta.labels, " "), "craft=gaspayer-nil") {
			if _, p := c14tTry(func() error { d.Clone(); return nil }); p != "" {
				c.Count("info:tx-nil-gaspayer-clone-panic")
			}
		}
	}
	if meta.isBox {
		t.checkBox("orig", tx, meta, enc)
		t.checkBoxForgedHashMember(tx, meta)
	}
	// JSON round trip
	var js []byte
	err, pan := c14tTry(func() error {
		var e error
		js, e = json.Marshal(tx)
		return e
	})
	if err != nil || pan != "" {
		t.fail("c14/tx-json-error", "json.Marshal(tx): "+c14tErrStr(err, pan)+"; tx "+c14tStr(desc), c14tHex(enc))
	} else {
		j := new(types.Transaction)
		err, pan := c14tTry(func() error { return json.Unmarshal(js, j) })
		switch {
		case (err != nil || pan != "") && !meta.sigLenOK && pan == "":
			c.Count("info:tx-json-rejects-own-sig-length")
		case err != nil || pan != "":
			t.fail("c14/tx-json-error", "json.Unmarshal of the tx's own JSON: "+c14tErrStr(err, pan)+"; json "+string(js), c14tHex(enc))
		default:
			c.Count("typed:tx:json-roundtrip")
			bad := ""
			if meta.badMsgUTF8 {
				bad = " (Message (of the tx or of a box sub-tx) is not valid UTF-8; VerifyTxBody only limits its length; encoding/json replaces the bytes by U+FFFD)"
			}
			nameOnly := meta.badNameUTF8 && !meta.badMsgUTF8
			hj := c14tTxHash(j)
			if hj != h0 {
				c.Count(fmt.Sprintf("info:tx-json-hash-changed-cause:nonutf8-message=%v,nonutf8-toname=%v", meta.badMsgUTF8, meta.badNameUTF8))
				if nameOnly {
					c.Count("info:tx-json-nonutf8-toname-hash-changed")
				} else {
					t.fail(c14tJSONSig(meta.badMsgUTF8, "tx-json-hash"), "Hash() "+h0+" -> "+hj+" after JSON round trip"+bad+"; tx "+c14tStr(desc), string(js))
				}
			}
			if !meta.badMsgUTF8 && !meta.badNameUTF8 {
				t.checkFedSigners("after-json", j, meta, c14tHex(enc))
			}
			if sj := c14tAllSigners(j); sj != s0 {
				if nameOnly {
					c.Count("info:tx-json-nonutf8-toname-signers-changed")
				} else {
					t.fail(c14tJSONSig(meta.badMsgUTF8, "tx-json-signers"), "signers before: "+s0+" after JSON: "+sj+bad, string(js))
				}
			}
			if enc != nil {
				ej, err, pan := c14tEnc(j)
				if err != nil || pan != "" || !bytes.Equal(ej, enc) {
					if nameOnly {
						c.Count("info:tx-json-nonutf8-toname-rlp-changed")
					} else {
						t.fail(c14tJSONSig(meta.badMsgUTF8, "tx-json-rlp"), "RLP of the JSON-round-tripped tx differs: "+c14tErrStr(err, pan)+" "+c14tHex(ej)+bad, c14tHex(enc))
					}
				}
			}
			if meta.isBox {
				t.checkBox("json", j, meta, enc)
			}
		}
	}
	if enc != nil {
		t.mutations(c14tFamTx, enc)
	}
}

// c14tJSONSig: a JSON mismatch of a tx that carries a non-UTF-8 message is the known mechanism
// (encoding/json replaces the bytes by U+FFFD); any other JSON mismatch keeps its own signature.
func c14tJSONSig(nonUTF8 bool, what string) string {
	if nonUTF8 {
		return "c14/json-non-utf8/" + what
	}
	return "c14/" + what
}

// checkBox: GetBox(data).SubTxList hashes equal the original sub-tx hashes.
func (t *c14tState) checkBox(stage string, tx *types.Transaction, meta *c14tTxMeta, enc []byte) {
	var box *types.Box
	err, pan := c14tTry(func() error {
		var e error
		box, e = types.GetBox(tx.Data())
		return e
	})
	if err != nil || pan != "" {
		if !meta.sigLenOK {
			t.c.Count("info:box-getbox-rejects-own-sig-length")
			return
		}
		if meta.nilSubs && pan == "" {
			// MarshalBoxData(nil) writes {"subTxList":null} which GetBox rejects; the tx is then hashed like an ordinary tx
			t.c.Count("info:box-marshal-nil-subtxlist-unparseable")
			return
		}
		t.fail("c14/box-subtx-hash", "GetBox on a box built by MarshalBoxData ("+stage+"): "+c14tErrStr(err, pan), c14tHex(enc))
		return
	}
	t.c.Count("typed:tx:box-checked-" + stage)
	if len(box.SubTxList) != len(meta.subHashes) {
		t.fail("c14/box-subtx-hash", fmt.Sprintf("(%s) %d sub-txs packed, %d unpacked", stage, len(meta.subHashes), len(box.SubTxList)), c14tHex(enc))
		return
	}
	for i, s := range box.SubTxList {
		if got := c14tTxHash(s); got != meta.subHashes[i].Hex() {
			why := ""
			if meta.badMsgUTF8 || meta.badNameUTF8 {
				why = " (sub-tx has a non-UTF-8 message/toName: MarshalBoxData goes through encoding/json which replaces the bytes by U+FFFD)"
			}
			if meta.badNameUTF8 && !meta.badMsgUTF8 {
				t.c.Count("info:box-subtx-nonutf8-toname-hash-changed")
				continue
			}
			t.c.Count(fmt.Sprintf("info:box-subtx-hash-changed-cause:nonutf8-message=%v", meta.badMsgUTF8))
			t.fail(c14tJSONSig(meta.badMsgUTF8, "box-subtx-hash"), fmt.Sprintf("(%s) sub-tx %d: hash %s when packed, %s after GetBox%s; sub-tx now %s", stage, i, meta.subHashes[i].Hex(), got, why, c14tTxString(s)), string(tx.Data()))
		}
	}
}

// checkBoxForgedHashMember: the "hash" member of a sub-tx inside the JSON box payload is DERIVED data (rlp:"-", unsigned). A payload that
// claims another hash (or none) for a sub-tx must decode to sub-txs whose Hash() is still the hash of their CONTENT: the box hash is taken
// over the sub-tx hashes and every duplicate / replay defence is keyed by them.
func (t *c14tState) checkBoxForgedHashMember(tx *types.Transaction, meta *c14tTxMeta) {
	if meta.badMsgUTF8 || meta.badNameUTF8 || !meta.sigLenOK || meta.nilSubs || len(meta.subHashes) == 0 {
		return
	}
	var m map[string]interface{}
	if json.Unmarshal(tx.Data(), &m) != nil {
		return
	}
	list, _ := m["subTxList"].([]interface{})
	if len(list) != len(meta.subHashes) {
		return
	}
	for _, mode := range []string{"claims-other-hash", "claims-zero-hash", "no-hash-member"} {
		for i, it := range list {
			sm, ok := it.(map[string]interface{})
			if !ok {
				return
			}
			switch mode {
			case "claims-other-hash":
				sm["hash"] = common.BytesToHash([]byte(fmt.Sprintf("c14-forged-%d-%d", i, t.c.Rnd.Int63()))).Hex()
			case "claims-zero-hash":
				sm["hash"] = common.Hash{}.Hex()
			case "no-hash-member":
				delete(sm, "hash")
			}
		}
		payload, _ := json.Marshal(m)
		var box *types.Box
		err, pan := c14tTry(func() error {
			var e error
			box, e = types.GetBox(payload)
			return e
		})
		if err != nil || pan != "" || len(box.SubTxList) != len(meta.subHashes) {
			t.c.Count("typed:tx:box-forged-hash-member:" + mode + ":rejected")
			continue
		}
		t.c.Count("typed:tx:box-forged-hash-member:" + mode + ":decoded")
		for i, sub := range box.SubTxList {
			if got := c14tTxHash(sub); got != meta.subHashes[i].Hex() {
				t.fail("c14/box-subtx-hash/json-hash-member-trusted", fmt.Sprintf("box payload whose sub-tx %d %s: GetBox gives it hash %s, the hash of its content is %s (the member is derived, unsigned data)", i, mode, got, meta.subHashes[i].Hex()), string(payload))
				break
			}
		}
	}
}

func (t *c14tState) caseChangeLog() {
	c := t.c
	n := t.clN
	t.clN++
	lt := c14tLogTypes[n%len(c14tLogTypes)]
	shs := c14tLogShapes(lt)
	sh := shs[(n/len(c14tLogTypes))%len(shs)]
	l := t.genLog(lt, sh)
	name := lt.String()
	c.Count("typed:changelog:" + name + ":" + sh.name)
	desc := func() string { return c14tLogString(l) + " shape=" + sh.name + "; " + sh.reach }
	t.soft = strings.HasPrefix(sh.reach, "reachable: no")
	enc, dec, ok := t.roundTrip(c14tFamLog, "/"+name, l, desc)
	t.soft = false
	if ok {
		d := dec.(*types.ChangeLog)
		var h1, h2 common.Hash
		_, p := c14tTry(func() error { h1, h2 = l.Hash(), d.Hash(); return nil })
		if p != "" || h1 != h2 {
			t.fail("c14/changelog-hash/"+name, fmt.Sprintf("Hash() %s -> %s %s; %s", h1.Hex(), h2.Hex(), p, c14tStr(desc)), c14tHex(enc))
		}
		r1, r2 := c14tRedo(l), c14tRedo(d)
		c.Count("typed:changelog:redo-orig=" + firstWord(r1))
		if r1 == "ok" && r2 != "ok" {
			t.fail("c14/changelog-redo-after-decode/"+name, "Redo on the original returns nil, on the decoded log: "+r2+"; original: "+c14tStr(desc)+"; decoded: "+c14tLogString(d), c14tHex(enc))
		}
	}
	if _, p := c14tTry(func() error { _, e := json.Marshal(l); return e }); p != "" {
		t.fail("c14/changelog-json-panic", p+"; "+c14tStr(desc), "")
	}
	if _, p := c14tTry(func() error { _ = l.String(); return nil }); p != "" {
		c.Count("info:changelog-string-panic")
	}
	if enc != nil {
		t.mutations(c14tFamLog, enc)
	}
	// a slice of well-formed logs every few cases
	if n%7 == 0 {
		var ls types.ChangeLogSlice
		for i := 0; i < t.rn(5); i++ {
			ls = append(ls, t.genSafeLog())
		}
		c.Count(fmt.Sprintf("typed:changelogs:len=%d", len(ls)))
		encs, decs, ok := t.roundTrip(c14tFamLogs, "", &ls, func() string { return fmt.Sprintf("%d logs", len(ls)) })
		if ok {
			d := *(decs.(*types.ChangeLogSlice))
			var r1, r2 common.Hash
			_, p := c14tTry(func() error { r1, r2 = ls.MerkleRootSha(), d.MerkleRootSha(); return nil })
			if p != "" || r1 != r2 {
				t.fail("c14/changelogs-hash", fmt.Sprintf("MerkleRootSha %s -> %s %s", r1.Hex(), r2.Hex(), p), c14tHex(encs))
			}
		}
		if _, p := c14tTry(func() error { _, e := json.Marshal(ls); return e }); p != "" {
			t.fail("c14/changelog-json-panic", "slice: "+p, c14tHex(encs))
		}
		if encs != nil {
			t.mutations(c14tFamLogs, encs)
		}
	}
}

func (t *c14tState) caseAccountData() {
	c := t.c
	a := t.genAccountData()
	c.Count("typed:accountdata:case")
	desc := func() string {
		return c14tStr(func() string {
			if a.Balance == nil {
				return "AccountData{Balance:nil ...}"
			}
			return a.String()
		})
	}
	e1, _, _ := c14tEnc(a)
	e2, _, _ := c14tEnc(a)
	e3, _, _ := c14tEnc(a)
	for k := 0; k < 6 && bytes.Equal(e1, e2) && bytes.Equal(e1, e3); k++ {
		e2, _, _ = c14tEnc(a)
		e3, _, _ = c14tEnc(a)
	}
	if !bytes.Equal(e1, e2) || !bytes.Equal(e1, e3) {
		// the encoding is persisted (store/chain_database.go): equal accounts must have equal bytes.
		// Repaired in /repo by "fix: AccountData.EncodeRLP writes NewestRecords in log type order" (07cd1f5).
		t.fail("c14/accountdata-encode-nondeterministic", fmt.Sprintf("two encodings of the same AccountData (%d version records) differ: %s vs %s", len(a.NewestRecords), c14tHex(e1), c14tHex(e2)), desc())
	}
	enc, _, _ := t.roundTrip(c14tFamAccount, "", a, desc)
	t.c14AcctEncOp(a) // `acctenc`: the model computes the encoding from the VALUE, records in a generator-chosen order
	if a.Balance == nil {
		if _, p := c14tTry(func() error { a.Copy(); return nil }); p != "" {
			c.Count("info:accountdata-nil-balance-copy-panic")
		}
	}
	if enc != nil {
		t.mutations(c14tFamAccount, enc)
	}
}

func (t *c14tState) caseDeputy() {
	d := t.genDeputy()
	t.c.Count("typed:deputynode:case")
	desc := func() string {
		return fmt.Sprintf("DeputyNode{%s %x rank=%d votes=%v}", d.MinerAddress.Hex(), d.NodeID, d.Rank, d.Votes)
	}
	enc, dec, ok := t.roundTrip(c14tFamDeputy, "", d, desc)
	if ok {
		x := dec.(*types.DeputyNode)
		var h1, h2 common.Hash
		_, p := c14tTry(func() error { h1, h2 = d.Hash(), x.Hash(); return nil })
		if p != "" || h1 != h2 {
			t.fail("c14/deputynode-hash", fmt.Sprintf("Hash() %s -> %s %s; %s", h1.Hex(), h2.Hex(), p, desc()), c14tHex(enc))
		}
	}
	if enc != nil {
		t.mutations(c14tFamDeputy, enc)
	}
	if t.rn(3) == 0 {
		var ds types.DeputyNodes
		for i := 0; i < t.rn(4); i++ {
			ds = append(ds, t.genDeputy())
		}
		t.c.Count(fmt.Sprintf("typed:deputynodes:len=%d", len(ds)))
		encs, decs, ok := t.roundTrip(c14tFamDeputys, "", &ds, func() string { return fmt.Sprintf("%d deputy nodes", len(ds)) })
		if ok {
			x := *(decs.(*types.DeputyNodes))
			var r1, r2 common.Hash
			_, p := c14tTry(func() error { r1, r2 = ds.MerkleRootSha(), x.MerkleRootSha(); return nil })
			if p != "" || r1 != r2 {
				t.fail("c14/deputynodes-hash", fmt.Sprintf("MerkleRootSha %s -> %s %s", r1.Hex(), r2.Hex(), p), c14tHex(encs))
			}
		}
		if encs != nil {
			t.mutations(c14tFamDeputys, encs)
		}
	}
}

func (t *c14tState) caseEvent() {
	kind := t.rn(4)
	e := t.genEvent(kind)
	t.c.Count(fmt.Sprintf("typed:event:kind%d", kind))
	desc := func() string { return c14tStr(func() string { return e.String() }) }
	enc, dec, ok := t.roundTrip(c14tFamEvent, "", e, desc)
	if ok {
		x := dec.(*types.Event)
		var h1, h2 common.Hash
		_, p := c14tTry(func() error { h1, h2 = e.Hash(), x.Hash(); return nil })
		if p != "" || h1 != h2 {
			t.fail("c14/event-hash", fmt.Sprintf("Hash() %s -> %s %s; %s", h1.Hex(), h2.Hex(), p, desc()), c14tHex(enc))
		}
		if (e.TxHash != common.Hash{} || e.TxIndex != 0 || e.Index != 0 || e.Removed) {
			t.c.Count("info:event-derived-fields-dropped")
		}
	}
	if enc != nil {
		t.mutations(c14tFamEvent, enc)
	}
	es := (*types.EventForStorage)(e)
	t.c.Count("typed:eventstorage:case")
	encs, _, _ := t.roundTrip(c14tFamEventSt, "", es, desc)
	if encs != nil {
		t.mutations(c14tFamEventSt, encs)
	}
}

func (t *c14tState) caseAsset() {
	c := t.c
	a := t.genAssetValue()
	switch t.rn(5) {
	case 0:
		a.Profile = nil
		c.Count("typed:asset:profile=nil")
	case 1:
		a.TotalSupply = nil
		c.Count("typed:asset:totalsupply=nil")
	default:
		c.Count(fmt.Sprintf("typed:asset:profile=%d", len(a.Profile)))
	}
	desc := func() string { return c14tStr(func() string { return a.String() }) }
	enc, _, _ := t.roundTrip(c14tFamAsset, "", a, desc)
	if enc != nil {
		var u types.Asset
		err, pan := c14tDec(enc, &u)
		switch {
		case pan != "":
			c.Count("info:asset-decode-unprepared-panic")
			t.witness("asset-decode-unprepared-panic", pan+" input="+c14tHex(enc))
		case err != nil:
			c.Count("info:asset-decode-unprepared-error")
		default:
			c.Count("info:asset-decode-unprepared-ok")
		}
		t.mutations(c14tFamAsset, enc)
	}
	q := &types.AssetEquity{}
	q.AssetCode, _ = t.pickHash()
	q.AssetId, _ = t.pickHash()
	var l string
	q.Equity, l = t.pickBig(true)
	c.Count("typed:assetequity:equity=" + l)
	ence, _, _ := t.roundTrip(c14tFamEquity, "", q, func() string { return c14tStr(func() string { return q.String() }) })
	if ence != nil {
		t.mutations(c14tFamEquity, ence)
	}
}

func (t *c14tState) caseNetMsg() {
	c := t.c
	m := c14tMsgs[t.msgN%len(c14tMsgs)]
	t.msgN++
	v := m.gen(t)
	f := &c14tFam{"netmsg-" + m.name, m.hashed, m.fresh, c14tIdent}
	c.Count("typed:netmsg:" + m.name)
	desc := func() string {
		return c14tStr(func() string { return fmt.Sprintf("%+v", reflect.ValueOf(v).Elem().Interface()) })
	}
	if m.name == "txs" {
		desc = func() string { return fmt.Sprintf("%d txs", len(*(v.(*types.Transactions)))) }
	}
	enc, dec, ok := t.roundTrip(f, "", v, desc)
	if !ok {
		return
	}
	if m.name == "txs" {
		a, b := *(v.(*types.Transactions)), *(dec.(*types.Transactions))
		var r1, r2 common.Hash
		_, p := c14tTry(func() error { r1, r2 = a.MerkleRootSha(), b.MerkleRootSha(); return nil })
		if p != "" || r1 != r2 {
			t.fail("c14/netmsg-txs-hash", fmt.Sprintf("MerkleRootSha %s -> %s %s", r1.Hex(), r2.Hex(), p), c14tHex(enc))
		}
	}
	// the path the node really uses: p2p.Msg.Decode
	x := m.fresh()
	msg := p2p.Msg{Content: enc}
	if err, pan := c14tTry(func() error { return msg.Decode(x) }); err != nil || pan != "" {
		t.fail("c14/"+f.name+"-roundtrip-error", "p2p.Msg.Decode of the message's own encoding: "+c14tErrStr(err, pan), c14tHex(enc))
	} else if diff, _ := c14tSemEq(v, x); diff != "" {
		t.fail("c14/"+f.name+"-value", "p2p.Msg.Decode: "+diff, c14tHex(enc))
	}
	y := m.fresh()
	msg2 := p2p.Msg{Content: append(append([]byte{}, enc...), t.bytesN(1+t.rn(4))...)}
	err, pan := c14tTry(func() error { return msg2.Decode(y) })
	switch {
	case pan != "":
		t.fail("c14/"+f.name+"-decode-panic", "p2p.Msg.Decode with trailing bytes: "+pan, c14tHex(msg2.Content))
	case err == nil:
		// no trailing bytes: the network path must be as strict as rlp.DecodeBytes.
		// Repaired in /repo by "fix: Msg.Decode rejects bytes after the decoded value" (52634ec).
		t.fail("c14/msg-decode-trailing-accepted", "p2p.Msg.Decode accepts bytes after the value: "+m.name, c14tHex(msg2.Content))
	default:
		c.Count("info:msg-decode-trailing-rejected")
	}
	t.mutations(f, enc)
}

// ---------------------------------------------------------------- section B: malformed stream

var c14tElemClasses = []string{"elem-80", "elem-c0", "elem-byte", "elem-8100", "elem-strlen", "elem-longform", "elem-leadzero",
	"elem-kindswap", "elem-dup", "elem-del", "elem-swap", "elem-append", "elem-nest", "elem-huge"}

var c14tWholeClasses = []string{"flip", "flipbit", "trunc", "extend", "outer-longform", "nest", "huge", "random", "random-list", "empty"}

var c14tHuge = [][]byte{
	{0xbb, 0xff, 0xff, 0xff, 0xff},
	{0xbf, 0xff, 0xff, 0xff, 0xff, 0xff, 0xff, 0xff, 0xff},
	{0xfb, 0xff, 0xff, 0xff, 0xff},
	{0xff, 0xff, 0xff, 0xff, 0xff, 0xff, 0xff, 0xff, 0xff},
	{0xbf, 0x7f, 0xff, 0xff, 0xff, 0xff, 0xff, 0xff, 0xf0},
	{0xb8, 0xff},
	{0xf9, 0xff, 0xff},
	{0xba, 0x01, 0x00, 0x00},
}

var c14tNestCache [][]byte

func c14tNests() [][]byte {
	if c14tNestCache != nil {
		return c14tNestCache
	}
	valid := []byte{0xC0}
	for i := 0; i < 2000; i++ {
		valid = c14tList(valid)
	}
	c1 := bytes.Repeat([]byte{0xc1}, 2000)
	f8 := bytes.Repeat([]byte{0xf8, 0x38}, 2000)
	// properly sized nest of single-element lists around a string
	strNest := c14tString([]byte("x"))
	for i := 0; i < 2000; i++ {
		strNest = c14tList(strNest)
	}
	c14tNestCache = [][]byte{valid, c1, f8, strNest}
	return c14tNestCache
}

func (t *c14tState) elemMut(class string, items [][]byte, i int) [][]byte {
	e := items[i]
	kind, content, _, err := rlp.Split(e)
	switch class {
	case "elem-80":
		items[i] = []byte{0x80}
	case "elem-c0":
		items[i] = []byte{0xC0}
	case "elem-byte":
		items[i] = []byte{byte(t.rn(128))}
	case "elem-8100":
		items[i] = []byte{0x81, byte(t.rn(128))}
	case "elem-strlen":
		var nc []byte
		if err == nil && kind != rlp.List && len(content) > 0 {
			switch t.rn(3) {
			case 0:
				nc = append([]byte{}, content[1:]...)
			case 1:
				nc = append(append([]byte{}, content...), byte(t.rn(256)))
			default:
				nc = append([]byte{byte(1 + t.rn(255))}, content...)
			}
		} else {
			nc = t.bytesN(1 + t.rn(40))
		}
		items[i] = c14tString(nc)
	case "elem-longform":
		if err != nil {
			break
		}
		base := byte(0x80)
		if kind == rlp.List {
			base = 0xC0
		}
		mode := 1
		if len(content) >= 56 {
			mode = 2
		}
		items[i] = append(c14tEncLen(base, len(content), mode), content...)
	case "elem-leadzero":
		if err == nil && kind != rlp.List {
			nc := append([]byte{0}, content...)
			items[i] = append(c14tEncLen(0x80, len(nc), 0), nc...)
		} else {
			items[i] = []byte{0x82, 0x00, 0x05}
		}
	case "elem-kindswap":
		if err != nil {
			break
		}
		if kind == rlp.List {
			items[i] = append(c14tEncLen(0x80, len(content), 0), content...)
		} else {
			items[i] = append(c14tEncLen(0xC0, len(content), 0), content...)
		}
	case "elem-dup":
		items = append(items[:i+1], append([][]byte{e}, items[i+1:]...)...)
	case "elem-del":
		items = append(items[:i], items[i+1:]...)
	case "elem-swap":
		if len(items) > 1 {
			j := (i + 1) % len(items)
			items[i], items[j] = items[j], items[i]
		}
	case "elem-append":
		items = append(items, [][]byte{{0x80}, {0xC0}, {0x01}, {0x83, 'a', 'b', 'c'}}[t.rn(4)])
	case "elem-nest":
		n := c14tNests()
		items[i] = n[t.rn(len(n))]
	case "elem-huge":
		items[i] = c14tHuge[t.rn(len(c14tHuge))]
	}
	return items
}

func (t *c14tState) mutPath(enc []byte, depth int, class string) ([]byte, bool) {
	items, ok := c14tSplit(enc)
	if !ok || len(items) == 0 {
		return nil, false
	}
	items = c14tCopyItems(items)
	i := t.rn(len(items))
	if depth > 0 && items[i][0] > 0xC0 && t.rn(3) != 0 {
		if sub, ok := t.mutPath(items[i], depth-1, class); ok {
			items[i] = sub
			return c14tList(items...), true
		}
	}
	items = t.elemMut(class, items, i)
	return c14tList(items...), true
}

func (t *c14tState) mutProfile(p []byte) (string, []byte) {
	pairs, ok := c14tSplit(p)
	if !ok || len(pairs) == 0 {
		a := c14tList(c14tString([]byte("k")), c14tString([]byte("v1")))
		b := c14tList(c14tString([]byte("k")), c14tString([]byte("v2")))
		return "profile-dup", c14tList(a, b)
	}
	pairs = c14tCopyItems(pairs)
	if len(pairs) >= 2 && t.rn(2) == 0 {
		for i, j := 0, len(pairs)-1; i < j; i, j = i+1, j-1 {
			pairs[i], pairs[j] = pairs[j], pairs[i]
		}
		return "profile-unsorted", c14tList(pairs...)
	}
	last := pairs[len(pairs)-1]
	if kv, ok := c14tSplit(last); ok && len(kv) == 2 && t.rn(2) == 0 {
		// same key, other value, placed right after (keeps the key order sorted)
		pairs = append(pairs, c14tList(kv[0], c14tString([]byte("other-value"))))
	} else {
		pairs = append(pairs, last)
	}
	return "profile-dup", c14tList(pairs...)
}

// famMut: mutations that need knowledge of the family's layout.
func (t *c14tState) famMut(f *c14tFam, base []byte) (string, []byte, bool) {
	rep := func(path []int, g func([]byte) []byte) ([]byte, bool) { return c14tReplacePath(base, path, g) }
	switch f.name {
	case "header":
		idx := 3 + t.rn(2)
		if t.rn(2) == 0 {
			out, ok := rep([]int{idx}, func([]byte) []byte { return c14tString(merkle.EmptyTrieHash.Bytes()) })
			return "hdr-root-unelided", out, ok
		}
		out, ok := rep([]int{idx}, func([]byte) []byte {
			n := []int{1, 2, 20, 31, 33, 40}[t.rn(6)]
			b := t.bytesN(n)
			b[0] |= 0x80
			return c14tString(b)
		})
		return "hdr-root-len", out, ok
	case "asset":
		var class string
		out, ok := rep([]int{7}, func(p []byte) []byte { var o []byte; class, o = t.mutProfile(p); return o })
		return class, out, ok
	case "accountdata":
		switch t.rn(4) {
		case 0:
			var class string
			out, ok := rep([]int{9, 1}, func(p []byte) []byte { var o []byte; class, o = t.mutProfile(p); return o })
			return class, out, ok
		case 1:
			out, ok := rep([]int{7}, func([]byte) []byte { return c14tList(c14tString(t.bytesN(32)), c14tString(t.bytesN(32))) })
			return "acct-txhashlist", out, ok
		case 2:
			out, ok := rep([]int{10}, func([]byte) []byte { return []byte{byte(1 + t.rn(127))} })
			return "acct-txcount", out, ok
		default:
			var class string
			out, ok := rep([]int{11}, func(p []byte) []byte { var o []byte; class, o = t.c14aMutRecords(p); return o })
			return class, out, ok
		}
	case "changelog":
		items, ok := c14tSplit(base)
		if !ok || len(items) != 5 {
			return "", nil, false
		}
		var class string
		switch {
		case len(items[0]) == 1 && items[0][0] == byte(account.CandidateLog):
			out, ok := rep([]int{3}, func(p []byte) []byte { var o []byte; class, o = t.mutProfile(p); return o })
			return class, out, ok
		case len(items[0]) == 1 && items[0][0] == byte(account.AssetCodeLog) && len(items[3]) > 1:
			out, ok := rep([]int{3, 7}, func(p []byte) []byte { var o []byte; class, o = t.mutProfile(p); return o })
			return class, out, ok
		}
		// drop the Extra element: the decoder then runs into the end of the list
		return "cl-missing-extra", c14tList(items[:4]...), true
	case "changelogs":
		items, ok := c14tSplit(base)
		if !ok || len(items) == 0 {
			return "cl-eol", c14tList([]byte{0xC0}), true
		}
		cl, ok := c14tSplit(items[0])
		if !ok || len(cl) != 5 {
			return "", nil, false
		}
		items = c14tCopyItems(items)
		items[0] = c14tList(cl[:4]...)
		return "cl-eol", c14tList(items...), true
	case "block":
		items, ok := c14tSplit(base)
		if !ok || len(items) != 5 {
			return "", nil, false
		}
		first := []byte{0xC0}
		if cls, ok := c14tSplit(items[2]); ok && len(cls) > 0 && t.rn(2) == 0 {
			if cl, ok := c14tSplit(cls[0]); ok && len(cl) == 5 {
				first = c14tList(cl[:4]...)
			}
		}
		// [header, txs, [truncated-changelog, confirms, deputies]]
		return "block-cl-eol", c14tList(items[0], items[1], c14tList(first, items[3], items[4])), true
	}
	return "", nil, false
}

func (t *c14tState) mutate(f *c14tFam, base []byte) (string, []byte) {
	x := t.rn(100)
	if x < 18 {
		if class, out, ok := t.famMut(f, base); ok {
			return class, out
		}
	}
	if x < 70 {
		class := c14tElemClasses[t.rn(len(c14tElemClasses))]
		if out, ok := t.mutPath(base, 3, class); ok {
			return class, out
		}
	}
	class := c14tWholeClasses[t.rn(len(c14tWholeClasses))]
	b := append([]byte{}, base...)
	switch class {
	case "flip":
		for k := 0; k < 1+t.rn(3) && len(b) > 0; k++ {
			b[t.rn(len(b))] = byte(t.rn(256))
		}
	case "flipbit":
		if len(b) > 0 {
			b[t.rn(len(b))] ^= 1 << uint(t.rn(8))
		}
	case "trunc":
		if len(b) > 0 {
			b = b[:t.rn(len(b))]
		}
	case "extend":
		if t.rn(3) == 0 {
			b = append(b, base...)
		} else {
			b = append(b, t.bytesN(1+t.rn(4))...)
		}
	case "outer-longform":
		if kind, content, rest, err := rlp.Split(base); err == nil && len(rest) == 0 {
			tag := byte(0x80)
			if kind == rlp.List {
				tag = 0xC0
			}
			mode := 1
			if len(content) >= 56 {
				mode = 2
			}
			b = append(c14tEncLen(tag, len(content), mode), content...)
		}
	case "nest":
		n := c14tNests()
		b = n[t.rn(len(n))]
	case "huge":
		b = append([]byte{}, c14tHuge[t.rn(len(c14tHuge))]...)
		if t.rn(2) == 0 {
			b = append(b, t.bytesN(t.rn(20))...)
		}
	case "random":
		b = t.bytesN(t.rn(64))
	case "random-list":
		p := t.bytesN(t.rn(80))
		b = append(c14tEncLen(0xC0, len(p), 0), p...)
	case "empty":
		b = nil
	}
	return class, b
}

func (t *c14tState) checkMut(f *c14tFam, class string, b []byte) {
	c := t.c
	v := f.fresh()
	err, pan := c14tDec(b, v)
	if pan != "" {
		c.Count("typed:" + f.name + ":mut:" + class + ":panic")
		t.fail("c14/"+f.name+"-decode-panic", "mutation "+class+": "+pan, c14tHex(b))
		return
	}
	// ties of LemoModel/RlpAccount.lean (c14_account.go): the decoded account VALUE, the network path of a blocks message
	switch f.name {
	case "accountdata":
		c14AcctValOp(c, b)
	case "blocks":
		c14BlocksMsgOp(c, b, err == nil)
	}
	if err != nil {
		c.Count("typed:" + f.name + ":mut:" + class + ":reject")
		c14TypedOp(c, f.name, b, false, nil, false)
		return
	}
	c.Count("typed:" + f.name + ":mut:" + class + ":accept")
	// tie of the typed layer of the model (LemoModel/RlpSchema.lean): whatever a reflection-based typed decoder
	// accepts, the generic decoder (the one modelled and proved canonical) accepts too.
	var gen interface{}
	if gerr, gpan := c14tDec(b, &gen); gerr != nil || gpan != "" {
		// Before /repo 8a6b205 + a0389ea the custom DecodeRLP of Profile and the change-log payload decoders ignored the
		// errors of Stream.Kind (families asset, accountdata, changelog, changelogs, block, blocks: finding profile/empty-form).
		// Repaired: a typed decoder that accepts what the generic one rejects is a failure for EVERY family.
		t.fail("c14/"+f.name+"-typed-accepts-generic-rejects", "mutation "+class+": typed decoder accepts, rlp.DecodeBytes into interface{} says "+c14tErrStr(gerr, gpan), c14tHex(b))
	}
	re, eerr, epan := c14tEnc(v)
	c14TypedOp(c, f.name, b, true, re, eerr == nil && epan == "")
	if eerr == nil && epan == "" && bytes.Equal(f.canon(re), f.canon(b)) {
		return
	}
	detail := "decoder accepted non-canonical bytes; re-encoding gives " + c14tHex(re)
	if eerr != nil || epan != "" {
		detail = "decoder accepted bytes whose decoded value cannot be re-encoded: " + c14tErrStr(eerr, epan)
	}
	if l, ok := v.(*types.ChangeLog); ok {
		var h common.Hash
		_, _ = c14tTry(func() error { h = l.Hash(); return nil })
		detail += "; Hash()=" + h.Hex() + " keccak(wire)=" + crypto.Keccak256Hash(b).Hex() + "; decoded: " + c14tLogString(l)
	}
	// root-cause class from the INNERMOST typed field at which the accepted bytes and the re-encoding first
	// differ (c14_classify.go) — independent of the wrapping type, the position and the mutation used.
	cause, path := "cannot-reencode", ""
	if eerr == nil && epan == "" {
		cause, path = c14kClassify(c14kFamilyTy(f.name), f.canon(b), f.canon(re), f.name)
		switch cause {
		case "untyped":
			cause = "untyped/" + f.name
		case "leaf":
			cause = "field/" + f.name
		}
	}
	c.Count("typed:" + f.name + ":noncanonical:" + cause + ":" + class)
	if f.hashed {
		t.fail("c14/noncanonical-accept/"+cause, "decoded as "+f.name+", differs at "+path+", mutation "+class+": "+detail, c14tHex(b))
	} else {
		c.Count("info:" + f.name + "-noncanonical-accept:" + cause)
	}
}

func (t *c14tState) mutations(f *c14tFam, base []byte) {
	k := 5
	if len(base) > 3000 {
		k = 3
	}
	t.checkMut(f, "identity", base) // the unmutated encoding: must be accepted and reproduce itself
	for i := 0; i < k; i++ {
		class, b := t.mutate(f, base)
		t.checkMut(f, class, b)
	}
}

// ---------------------------------------------------------------- address text

func (t *c14tState) caseAddress() {
	c := t.c
	a, shape := t.pickAddr()
	c.Count("typed:address:" + shape)
	var s string
	if _, p := c14tTry(func() error { s = a.String(); return nil }); p != "" {
		t.fail("c14/address-roundtrip", "String() "+p, a.Hex())
		return
	}
	okText := strings.HasPrefix(s, "Lemo") && len(s) == 40
	if okText {
		for _, ch := range s[4:] {
			if !strings.ContainsRune(c14tAlphabet, ch) {
				okText = false
			}
		}
	}
	if !okText {
		t.fail("c14/address-length", "text is not Lemo + 36 base26 characters: "+s, a.Hex())
		return
	}
	decode := func(txt string, into *common.Address) string {
		err, pan := c14tTry(func() error { return into.Decode(txt) })
		return c14tErrStr(err, pan)
	}
	var b common.Address
	var e2 error
	_, p := c14tTry(func() error { b, e2 = common.StringToAddress(s); return nil })
	if p != "" || e2 != nil || b != a {
		t.fail("c14/address-roundtrip", fmt.Sprintf("StringToAddress(%s) = %s, %v %s", s, b.Hex(), e2, p), a.Hex())
	}
	var f common.Address
	if r := decode(s, &f); r != "ok" || f != a {
		t.fail("c14/address-roundtrip", fmt.Sprintf("fresh Decode(%s) = %s, %s", s, f.Hex(), r), a.Hex())
	}
	// case variants
	mixed := []byte(s)
	for i := range mixed {
		if t.rn(2) == 0 {
			mixed[i] = strings.ToLower(string(mixed[i]))[0]
		} else {
			mixed[i] = strings.ToUpper(string(mixed[i]))[0]
		}
	}
	for _, v := range []string{strings.ToLower(s), strings.ToUpper(s), string(mixed)} {
		var x common.Address
		if r := decode(v, &x); r != "ok" || x != a {
			t.fail("c14/address-case", fmt.Sprintf("Decode(%s) = %s, %s", v, x.Hex(), r), a.Hex())
		}
	}
	// text / JSON
	{
		var x, y, z common.Address
		var txt, js []byte
		err, pan := c14tTry(func() error {
			var e error
			if txt, e = a.MarshalText(); e != nil {
				return e
			}
			if e = x.UnmarshalText(txt); e != nil {
				return e
			}
			if js, e = json.Marshal(a); e != nil {
				return e
			}
			if e = json.Unmarshal(js, &y); e != nil {
				return e
			}
			return z.UnmarshalText([]byte(a.Hex()))
		})
		if err != nil || pan != "" || x != a || y != a || z != a {
			t.fail("c14/address-json", fmt.Sprintf("text %s json %s -> %s / %s / hex %s: %s", txt, js, x.Hex(), y.Hex(), z.Hex(), c14tErrStr(err, pan)), a.Hex())
		}
		type wrap struct {
			A common.Address            `json:"a"`
			P *common.Address           `json:"p"`
			M map[common.Address]uint32 `json:"m"`
		}
		w := wrap{A: a, P: &a, M: map[common.Address]uint32{a: 7}}
		var w2 wrap
		err, pan = c14tTry(func() error {
			j, e := json.Marshal(w)
			if e != nil {
				return e
			}
			return json.Unmarshal(j, &w2)
		})
		if err != nil || pan != "" || w2.A != a || w2.P == nil || *w2.P != a || w2.M[a] != 7 {
			t.fail("c14/address-json", "struct/pointer/map-key JSON round trip: "+c14tErrStr(err, pan), a.Hex())
		}
	}
	// single-character corruption to another alphabet character
	for k := 0; k < 4; k++ {
		pos := 4 + t.rn(36)
		mb := []byte(s)
		ch := c14tAlphabet[t.rn(26)]
		if ch == mb[pos] {
			continue
		}
		mb[pos] = ch
		var x common.Address
		r := decode(string(mb), &x)
		switch {
		case strings.HasPrefix(r, "panic"):
			t.fail("c14/address-roundtrip", "Decode panics on "+string(mb)+": "+r, string(mb))
		case r != "ok":
			c.Count("info:address-corruption-rejected")
		case x == a:
			t.fail("c14/address-corruption-same", fmt.Sprintf("%s (1 char differs from %s) decodes to the same address", mb, s), string(mb))
		default:
			c.Count("info:address-corruption-accepted-different")
			t.witness("address-corruption-accepted-different", fmt.Sprintf("%s->%s decodes to %s instead of %s", s, mb, x.Hex(), a.Hex()))
		}
	}
	// corruption to a character outside the alphabet
	for k := 0; k < 4; k++ {
		pos := 4 + t.rn(36)
		mb := []byte(s)
		mb[pos] = "01IOUioluEMVX!-_ "[t.rn(17)]
		var x common.Address
		r := decode(string(mb), &x)
		switch {
		case strings.HasPrefix(r, "panic"):
			t.fail("c14/address-roundtrip", "Decode panics on "+string(mb)+": "+r, string(mb))
		case r != "ok":
			c.Count("info:address-invalid-char-rejected")
		case x == a:
			t.fail("c14/address-corruption-same", fmt.Sprintf("%q (invalid character) decodes to the same address as %s", mb, s), string(mb))
		default:
			c.Count("info:address-invalid-char-accepted")
			t.witness("address-invalid-char-accepted", fmt.Sprintf("%q decodes without error to %s (original %s = %s)", mb, x.Hex(), s, a.Hex()))
		}
	}
	// Decode into a variable that already holds data
	var stale common.Address
	for i := range stale {
		stale[i] = 0xff
	}
	if r := decode(s, &stale); r == "ok" && stale != a {
		c.Count("info:address-decode-stale-bytes")
		t.witness("address-decode-stale-bytes", fmt.Sprintf("Decode(%s) into ff..ff gives %s, expected %s", s, stale.Hex(), a.Hex()))
	} else if r == "ok" {
		c.Count("info:address-decode-nonfresh-ok")
	}
	// other lengths
	if t.rn(4) == 0 {
		for _, v := range []string{"Lemo", "Lemo8", s[:20], s + "8", s + s[4:]} {
			var x common.Address
			if r := decode(v, &x); r == "ok" {
				c.Count("info:address-wrong-length-accepted")
				t.witness("address-wrong-length-accepted", fmt.Sprintf("%q -> %s", v, x.Hex()))
			} else if strings.HasPrefix(r, "panic") {
				t.fail("c14/address-roundtrip", "Decode panics on "+v+": "+r, v)
			} else {
				c.Count("info:address-wrong-length-rejected")
			}
		}
	}
}

// ---------------------------------------------------------------- fixed probes (seed independent)

func (t *c14tState) edgeProbes() {
	c := t.c
	t.c14AcctWitnesses() // the refutation witnesses of LemoProofs/C14Account.lean on the real code
	t.c14BoundTyped()    // short/long-form header boundary family inside typed values (c14_bounds.go)
	// a Block without header cannot be encoded (Header.EncodeRLP dereferences nil)
	if _, _, p := c14tEnc(&types.Block{}); p != "" {
		c.Count("info:block-nil-header-encode-panic")
	}
	// types.Asset by value is not encodable (Profile.EncodeRLP is a pointer method)
	if _, err, _ := c14tEnc(types.Asset{TotalSupply: new(big.Int)}); err != nil {
		c.Count("info:asset-by-value-encode-error")
	}
	if _, err, _ := c14tEnc(types.AccountData{Balance: new(big.Int)}); err != nil {
		c.Count("info:accountdata-by-value-encode-error")
	}
	// every registered log type has a name and shapes here
	for _, lt := range c14tLogTypes {
		if strings.HasPrefix(lt.String(), "ChangeLogType(") || len(c14tLogShapes(lt)) == 0 {
			t.fail("c14/changelog-roundtrip-error/"+lt.String(), "log type not registered or not covered by the generator", "")
		}
	}
	// pure random / tiny inputs into every typed decoder
	fams := []*c14tFam{c14tFamHeader, c14tFamBlock, c14tFamBlocks, c14tFamTx, c14tFamLog, c14tFamLogs, c14tFamAccount, c14tFamDeputy,
		c14tFamDeputys, c14tFamEvent, c14tFamEventSt, c14tFamAsset, c14tFamEquity}
	for _, m := range c14tMsgs {
		fams = append(fams, &c14tFam{"netmsg-" + m.name, m.hashed, m.fresh, c14tIdent})
	}
	tiny := [][]byte{nil, {0x00}, {0x7f}, {0x80}, {0x81}, {0x81, 0x00}, {0xb7}, {0xb8}, {0xb8, 0x00}, {0xbf}, {0xc0}, {0xc1}, {0xc1, 0xc0}, {0xc1, 0x80},
		{0xc2, 0xc0, 0xc0}, {0xf7}, {0xf8}, {0xf8, 0x00}, {0xf8, 0x38}, {0xff}, {0xc5, 0xc0, 0xc0, 0xc0, 0xc0, 0xc0}}
	for _, f := range fams {
		for _, b := range tiny {
			t.checkMut(f, "tiny", b)
		}
		for _, b := range c14tNests() {
			t.checkMut(f, "nest", b)
		}
		for _, b := range c14tHuge {
			t.checkMut(f, "huge", b)
		}
		for i := 0; i < 20; i++ {
			t.checkMut(f, "random", t.bytesN(t.rn(48)))
		}
	}
}

// ---------------------------------------------------------------- entry

// c14Typed: DIRECT ORACLE on the implementation only (no op lines): n generated cases spread over the type families.
func c14Typed(c *Ctx, n int) {
	t := c14tNew(c)
	t.edgeProbes()
	for i := 0; i < n; i++ {
		x := t.rn(100)
		switch {
		case x < 8:
			t.caseHeader()
		case x < 14:
			t.caseBlock()
		case x < 16:
			t.caseBlocks()
		case x < 36:
			t.caseTx()
		case x < 59:
			t.caseChangeLog()
		case x < 66:
			t.caseAccountData()
		case x < 71:
			t.caseDeputy()
		case x < 76:
			t.caseEvent()
		case x < 83:
			t.caseAsset()
		case x < 92:
			t.caseNetMsg()
		default:
			t.caseAddress()
		}
	}
	t.flush()
}

package main

// C15 — no bytes from the network crash the node or make it allocate without bound.
//
// Correspondence (op lines compared with lean/Driver/C15.lean):
//   consts                       constants read from the code (MaxPackageLength, PackageMaxLen, prefix, CheckCode bound, heartbeat)
//   run <hex> / runc <chunks>    the REAL Peer.readConn + Peer.handle loop (hook network/p2p/verif_peer.go)
//                                on a fake net.Conn, vs. the model's read loop (the model of the code AS IT IS
//                                NOW: runFixed / hsStepFixed; the pre-repair model only serves the refutations)
//   allocz / hsalloc             bytes requested per step, measured with runtime.MemStats, in MiB
//   hs / hsc                     the REAL readHandshakeBuf vs. the model's pre-handshake reader
//
// AES: the model's decryption parameter is the identity.  The op line carries, for each frame, the
// raw CBC *plaintext* (padding included) when the content length is a multiple of 16; the real
// parser receives the corresponding CBC *ciphertext* (encrypted here with crypto/aes + crypto/cipher
// of the standard library, IV = key as in common/crypto/aes.go).  For other lengths the bytes are the
// same on both sides (AesDecrypt refuses them before reading them).  Trusted: stdlib CBC decrypt∘encrypt = id.
//
// ECIES: the op line carries the generator's knowledge "the ephemeral point is valid" / "the MAC is
// valid" (the model's uninterpreted predicates pointOk / macOk).
//
// Direct oracle: every panic / deadlock / disproportionate allocation is reported with c.Fail.

import (
	"bytes"
	"crypto/aes"
	"crypto/cipher"
	"crypto/ecdsa"
	"crypto/elliptic"
	"crypto/hmac"
	crand "crypto/rand"
	"crypto/sha256"
	"encoding/binary"
	"encoding/hex"
	"encoding/json"
	"fmt"
	"io"
	"math/big"
	"net"
	"os"
	"runtime"
	"strings"
	"sync/atomic"
	"time"

	"github.com/LemoFoundationLtd/lemochain-core/chain/deputynode"
	"github.com/LemoFoundationLtd/lemochain-core/chain/params"
	"github.com/LemoFoundationLtd/lemochain-core/chain/txpool"
	"github.com/LemoFoundationLtd/lemochain-core/chain/types"
	"github.com/LemoFoundationLtd/lemochain-core/common"
	"github.com/LemoFoundationLtd/lemochain-core/common/crypto"
	"github.com/LemoFoundationLtd/lemochain-core/common/crypto/ecies"
	"github.com/LemoFoundationLtd/lemochain-core/common/rlp"
	"github.com/LemoFoundationLtd/lemochain-core/network"
	"github.com/LemoFoundationLtd/lemochain-core/network/p2p"
	"github.com/LemoFoundationLtd/lemochain-core/store"
)

func init() { subs["c15"] = c15 }

// at most 3 reports per signature (the harness keeps only the first 200 failures overall)
var c15Reported = map[string]int{}

func c15Fail(c *Ctx, sig, detail string, replay interface{}) {
	c15Reported[sig]++
	if c15Reported[sig] > 3 {
		c.Count("more-failures:" + sig)
		return
	}
	c.Fail(sig, detail, replay)
}

// ---------------------------------------------------------------- fake connection

type c15Conn struct {
	chunks [][]byte
	wrote  bytes.Buffer
}

func (c *c15Conn) Read(b []byte) (int, error) {
	if len(c.chunks) == 0 {
		return 0, io.EOF
	}
	ch := c.chunks[0]
	n := copy(b, ch)
	if n == len(ch) {
		c.chunks = c.chunks[1:]
	} else {
		c.chunks[0] = ch[n:]
	}
	return n, nil
}
func (c *c15Conn) Write(b []byte) (int, error)        { return c.wrote.Write(b) }
func (c *c15Conn) Close() error                       { return nil }
func (c *c15Conn) LocalAddr() net.Addr                { return &net.TCPAddr{} }
func (c *c15Conn) RemoteAddr() net.Addr               { return &net.TCPAddr{} }
func (c *c15Conn) SetDeadline(t time.Time) error      { return nil }
func (c *c15Conn) SetReadDeadline(t time.Time) error  { return nil }
func (c *c15Conn) SetWriteDeadline(t time.Time) error { return nil }

func c15CopyChunks(chunks [][]byte) [][]byte {
	out := make([][]byte, len(chunks))
	for i, ch := range chunks {
		out[i] = append([]byte{}, ch...)
	}
	return out
}

// ---------------------------------------------------------------- AES helpers (stdlib only)

var c15Key = []byte{0x10, 0x32, 0x54, 0x76, 0x98, 0xba, 0xdc, 0xfe, 1, 2, 3, 4, 5, 6, 7, 8}

func c15CBCEnc(plain []byte) []byte {
	b, _ := aes.NewCipher(c15Key)
	out := make([]byte, len(plain))
	cipher.NewCBCEncrypter(b, c15Key[:16]).CryptBlocks(out, plain)
	return out
}

func c15CBCDec(ct []byte) []byte {
	b, _ := aes.NewCipher(c15Key)
	out := make([]byte, len(ct))
	cipher.NewCBCDecrypter(b, c15Key[:16]).CryptBlocks(out, ct)
	return out
}

// a frame as the model sees it (content = raw plaintext) and as the wire carries it
type c15Frame struct {
	hdr   []byte
	plain []byte
	wire  []byte
	class string
}

func c15Hdr(n uint32) []byte {
	h := []byte{0x5a, 0x48, 0, 0, 0, 0}
	binary.BigEndian.PutUint32(h[2:], n)
	return h
}

// frame whose raw plaintext (padding included) is given
func c15FromPlain(plain []byte, class string) c15Frame {
	f := c15Frame{hdr: c15Hdr(uint32(len(plain))), plain: plain, class: class}
	if len(plain)%16 == 0 {
		f.wire = c15CBCEnc(plain)
	} else {
		f.wire = plain
	}
	return f
}

// frame whose wire content is given
func c15FromWire(wire []byte, class string) c15Frame {
	f := c15Frame{hdr: c15Hdr(uint32(len(wire))), wire: wire, class: class}
	if len(wire)%16 == 0 {
		f.plain = c15CBCDec(wire)
	} else {
		f.plain = wire
	}
	return f
}

func c15Pad(b []byte) []byte {
	p := 16 - len(b)%16
	return append(append([]byte{}, b...), bytes.Repeat([]byte{byte(p)}, p)...)
}

func c15Msg(code uint32, payload []byte, class string) c15Frame {
	b := make([]byte, 4)
	binary.BigEndian.PutUint32(b, code)
	return c15FromPlain(c15Pad(append(b, payload...)), class)
}

func c15Hex(b []byte) string {
	if len(b) == 0 {
		return "-"
	}
	return hex.EncodeToString(b)
}

func c15Chunks(chunks [][]byte) string {
	s := make([]string, len(chunks))
	for i, ch := range chunks {
		s[i] = c15Hex(ch)
	}
	return strings.Join(s, ",")
}

// ---------------------------------------------------------------- implementation side

func c15PanicSite(msg string) string {
	switch {
	case strings.Contains(msg, "input not full blocks"):
		return "cryptblocks"
	case strings.Contains(msg, "slice bounds out of range [4:"):
		return "slice-payload"
	case strings.Contains(msg, "slice bounds out of range [:4]"):
		return "slice-code"
	case strings.Contains(msg, "makeslice"):
		return "makeslice"
	}
	return "other(" + msg + ")"
}

var c15Sig = map[string]string{
	"cryptblocks":   "c15/cryptblocks-not-multiple-of-16",
	"slice-payload": "c15/short-plaintext",
	"slice-code":    "c15/short-plaintext",
	"makeslice":     "c15/ecies-short-ciphertext",
}

func c15SigOf(site string) string {
	if s, ok := c15Sig[site]; ok {
		return s
	}
	return "c15/panic-other"
}

// one iteration of Peer.readLoop (readConn + handle), then drain newMsgCh like ReadMsg does
func c15ImplStep(p *p2p.Peer) (ev string, cont bool) {
	out, msg := SafeMsg(func() string {
		content, err := p.VerifReadConn()
		if err != nil {
			switch err {
			case io.EOF, io.ErrUnexpectedEOF:
				return "need-more"
			case p2p.ErrUnavailablePackage:
				return "err:read-unavailable"
			case p2p.ErrLengthOverflow:
				return "err:read-overflow"
			}
			return "err:read-" + err.Error()
		}
		before := p.VerifPending()
		err = p.VerifHandle(content)
		if err != nil {
			switch err {
			case crypto.ErrPKCS5UnPadding:
				return "err:unpad"
			case crypto.ErrAesCipherLength:
				return "err:badlength"
			case p2p.ErrUnavailablePackage: // CheckCode, or fewer than 4 bytes after unpadding
				return "err:handle-unavailable"
			}
			return "err:handle-" + err.Error()
		}
		if p.VerifPending() > before {
			m, _ := p.ReadMsg()
			return fmt.Sprintf("msg:%d:%d:%d", uint32(m.Code), len(m.Content), c15Chk(m.Content))
		}
		return "hb"
	})
	if out == "panic" {
		return "panic:" + c15PanicSite(msg), false
	}
	return out, out == "hb" || strings.HasPrefix(out, "msg:")
}

// position-sensitive checksum of a payload, same as Frame.chk in the model (ties the payload bytes)
func c15Chk(b []byte) uint32 {
	h := uint64(7)
	for _, x := range b {
		h = (h*31 + uint64(x)) % 4294967296
	}
	return uint32(h)
}

func c15ImplRun(chunks [][]byte) string {
	conn := &c15Conn{chunks: c15CopyChunks(chunks)}
	p := p2p.VerifNewPeer(conn, c15Key)
	var evs []string
	for i := 0; i < 100000; i++ {
		ev, cont := c15ImplStep(p)
		evs = append(evs, ev)
		if !cont {
			break
		}
	}
	return strings.Join(evs, ";")
}

var c15Prv *ecdsa.PrivateKey
var c15CliPrv *ecdsa.PrivateKey

func c15ImplHs(chunks [][]byte) string {
	conn := &c15Conn{chunks: c15CopyChunks(chunks)}
	out, msg := SafeMsg(func() string {
		buf, err := p2p.VerifReadHandshakeBuf(conn, c15Prv)
		if err != nil {
			switch err {
			case io.EOF, io.ErrUnexpectedEOF:
				return "need-more"
			case p2p.ErrUnavailablePackage:
				return "err:read-unavailable"
			case ecies.ErrInvalidMessage:
				return "err:ecies-msg"
			case ecies.ErrInvalidPublicKey:
				return "err:ecies-key"
			}
			return "err:ecies-other(" + err.Error() + ")"
		}
		return fmt.Sprintf("ok:%d", len(buf))
	})
	if out == "panic" {
		return "panic:" + c15PanicSite(msg)
	}
	return out
}

func c15Split(c *Ctx, s []byte) [][]byte {
	var chunks [][]byte
	mode := c.Rnd.Intn(4)
	for len(s) > 0 {
		var n int
		switch mode {
		case 0:
			n = 1
		case 1:
			n = 1 + c.Rnd.Intn(7)
		default:
			n = 1 + c.Rnd.Intn(len(s))
		}
		if n > len(s) {
			n = len(s)
		}
		chunks = append(chunks, s[:n])
		s = s[n:]
		if c.Rnd.Intn(6) == 0 {
			chunks = append(chunks, []byte{})
		}
	}
	if c.Rnd.Intn(8) == 0 {
		chunks = append([][]byte{{}}, chunks...)
	}
	return chunks
}

func c15Rand(c *Ctx, n int) []byte {
	b := make([]byte, n)
	c.Rnd.Read(b)
	return b
}

// ---------------------------------------------------------------- generators: frames

func c15GenFrame(c *Ctx) c15Frame {
	switch k := c.Rnd.Intn(22); {
	case k < 6: // well-formed message, every code 0..0x1F and some beyond
		code := uint32(c.Rnd.Intn(0x28))
		switch c.Rnd.Intn(8) {
		case 0:
			code = 0x1F
		case 1:
			code = 0x20
		case 2:
			code = []uint32{0xFFFFFFFF, 0x100, 0x01000001, 0x80000000}[c.Rnd.Intn(4)]
		case 3:
			code = 1
		}
		n := c.Rnd.Intn(45)
		if c.Rnd.Intn(4) == 0 {
			n = []int{0, 11, 12, 13, 27, 28, 29}[c.Rnd.Intn(7)] // around block boundaries (4+n ≡ 15,0,1 mod 16)
		}
		return c15Msg(code, c15Rand(c, n), "valid")
	case k < 9: // every length residue mod 16, arbitrary bytes
		n := 1 + c.Rnd.Intn(64)
		if n%16 == 0 {
			n++
		}
		return c15FromWire(c15Rand(c, n), fmt.Sprintf("len%%16=%d", n%16))
	case k < 12: // correctly encrypted plaintext shorter than 4 bytes
		n := c.Rnd.Intn(4)
		return c15FromPlain(c15Pad(c15Rand(c, n)), fmt.Sprintf("short-plain=%d", n))
	case k < 13: // plaintext of exactly 4 bytes / 4..6
		n := 4 + c.Rnd.Intn(3)
		b := c15Rand(c, n)
		b[0], b[1], b[2] = 0, 0, 0
		b[3] &= 0x3f
		return c15FromPlain(c15Pad(b), fmt.Sprintf("plain=%d", n))
	case k < 16: // bad paddings
		blocks := 1 + c.Rnd.Intn(3)
		p := c15Rand(c, 16*blocks)
		p[0], p[1], p[2], p[3] = 0, 0, 0, byte(c.Rnd.Intn(0x20))
		switch c.Rnd.Intn(6) {
		case 0:
			p[len(p)-1] = 0
			return c15FromPlain(p, "pad=0")
		case 1:
			p[len(p)-1] = byte(17 + c.Rnd.Intn(239))
			return c15FromPlain(p, "pad>16")
		case 2: // inconsistent padding bytes
			p[len(p)-1] = 5
			p[len(p)-2] = 5
			p[len(p)-3] = 6
			return c15FromPlain(p, "pad-inconsistent")
		case 3: // whole single block is padding
			return c15FromPlain(bytes.Repeat([]byte{16}, 16), "pad=16/16")
		case 4: // last block entirely padding
			for i := len(p) - 16; i < len(p); i++ {
				p[i] = 16
			}
			return c15FromPlain(p, "pad=16")
		default:
			p[len(p)-1] = 1
			return c15FromPlain(p, "pad=1")
		}
	case k < 18: // multiple-of-16 garbage on the wire
		return c15FromWire(c15Rand(c, 16*(1+c.Rnd.Intn(4))), "garbage16")
	case k < 19: // bad magic
		f := c15Msg(5, c15Rand(c, 8), "bad-magic")
		f.hdr[c.Rnd.Intn(2)] ^= byte(1 + c.Rnd.Intn(255))
		return f
	case k < 20: // zero length
		f := c15Msg(5, nil, "zero-length")
		f.hdr = c15Hdr(0)
		return f
	case k < 21: // oversized declared lengths (nothing needs to follow)
		f := c15Msg(5, nil, "oversize")
		f.hdr = c15Hdr([]uint32{params.MaxPackageLength + 1, 0xFFFFFFFF, 0x80000000, params.MaxPackageLength + 16}[c.Rnd.Intn(4)])
		return f
	default: // exactly the maximum declared, content missing
		f := c15Frame{hdr: c15Hdr(params.MaxPackageLength - uint32(c.Rnd.Intn(2))), class: "max-declared-truncated"}
		return f
	}
}

func c15Streams(frames []c15Frame) (wire, model []byte) {
	for _, f := range frames {
		wire = append(append(wire, f.hdr...), f.wire...)
		model = append(append(model, f.hdr...), f.plain...)
	}
	return
}

// record one `run` op + oracle
func c15RunOp(c *Ctx, wire, model []byte, classes string) string {
	out := c15ImplRun([][]byte{wire})
	c.Op("run "+c15Hex(model), out)
	c15Oracle(c, out, wire, classes)
	return out
}

func c15Oracle(c *Ctx, out string, wire []byte, classes string) {
	for _, ev := range strings.Split(out, ";") {
		c.Count("ev:" + strings.SplitN(strings.TrimPrefix(ev, "err:"), ":", 2)[0])
		if strings.HasPrefix(ev, "panic:") {
			site := strings.TrimPrefix(ev, "panic:")
			c.Count("panic-site:" + site)
			c15Fail(c, c15SigOf(site), fmt.Sprintf("Peer.readLoop path panics (%s) on a %d-byte stream [%s]; no recover on that goroutine: the process dies. stream(wire)=%s key=%x",
				site, len(wire), classes, c15Hex(wire), c15Key), map[string]interface{}{"wire": c15Hex(wire), "key": hex.EncodeToString(c15Key)})
		}
		if strings.HasPrefix(ev, "msg:") {
			var code, n int
			fmt.Sscanf(ev, "msg:%d:%d", &code, &n)
			c.Count(fmt.Sprintf("delivered-code=%#x", code))
			if code > 0x1F || code == int(p2p.HeartbeatMsg) {
				c15Fail(c, "c15/code-range", fmt.Sprintf("code %#x reached the dispatcher", code), map[string]interface{}{"wire": c15Hex(wire)})
			}
		}
	}
}

// ---------------------------------------------------------------- ECIES helpers

// concatKDF(SHA-256, z, nil, 32) and the HMAC tag, re-implemented (NIST SP 800-56 / SEC 1)
func c15EciesCraft(pub *ecies.PublicKey, ct []byte, goodTag bool) []byte {
	eph, _ := ecies.GenerateKey(crand.Reader, crypto.S256(), nil)
	z, _ := eph.GenerateShared(pub, 16, 16)
	h := sha256.New()
	h.Write([]byte{0, 0, 0, 1})
	h.Write(z)
	K := h.Sum(nil)
	Km := K[16:]
	h.Reset()
	h.Write(Km)
	Km = h.Sum(nil)
	mac := hmac.New(sha256.New, Km)
	mac.Write(ct)
	tag := mac.Sum(nil)
	if !goodTag {
		tag[3] ^= 0x40
	}
	R := elliptic.Marshal(pub.Curve, eph.PublicKey.X, eph.PublicKey.Y)
	return append(append(R, ct...), tag...)
}

func c15HsWrap(c []byte) []byte { return append(c15Hdr(uint32(len(c))), c...) }

// pointOk / macOk of an ECIES envelope computed from its BYTES with the standard library (crypto/elliptic
// on the curve, SHA-256 KDF, HMAC) and the server key — not from what the generator believes it built and
// not through ecies.Decrypt.  These are the values fed to the model's uninterpreted predicates.
func c15EciesFlags(env []byte) (pointOk, macOk bool) {
	if len(env) < 65+32 {
		return false, false
	}
	curve := crypto.S256()
	x, y := elliptic.Unmarshal(curve, env[:65])
	if x == nil || !curve.IsOnCurve(x, y) {
		return false, false
	}
	sx, _ := curve.ScalarMult(x, y, c15Prv.D.Bytes())
	z := make([]byte, 32)
	sb := sx.Bytes()
	copy(z[32-len(sb):], sb)
	h := sha256.New()
	h.Write([]byte{0, 0, 0, 1})
	h.Write(z)
	K := h.Sum(nil)
	h.Reset()
	h.Write(K[16:])
	Km := h.Sum(nil)
	mac := hmac.New(sha256.New, Km)
	mac.Write(env[65 : len(env)-32])
	return true, hmac.Equal(mac.Sum(nil), env[len(env)-32:])
}

type c15HsCase struct {
	stream []byte
	point  bool
	mac    bool
	class  string
}

func c15GenHs(c *Ctx, pub *ecies.PublicKey) c15HsCase {
	f := func(b bool) bool { return b }
	_ = f
	switch k := c.Rnd.Intn(16); {
	case k < 3: // honest ECIES message
		m, _ := ecies.Encrypt(crand.Reader, pub, c15Rand(c, c.Rnd.Intn(200)), nil, nil)
		return c15HsCase{c15HsWrap(m), true, true, "hs-valid"}
	case k < 6: // valid MAC, symmetric ciphertext shorter than the IV
		n := 1 + c.Rnd.Intn(17)
		return c15HsCase{c15HsWrap(c15EciesCraft(pub, c15Rand(c, n), true)), true, true, fmt.Sprintf("hs-ct=%d", n)}
	case k < 7: // valid point, bad MAC
		n := 1 + c.Rnd.Intn(40)
		return c15HsCase{c15HsWrap(c15EciesCraft(pub, c15Rand(c, n), false)), true, false, "hs-bad-mac"}
	case k < 8: // first byte not 2,3,4
		m := c15EciesCraft(pub, c15Rand(c, 20), true)
		m[0] = []byte{0, 1, 5, 0xff, 0x44}[c.Rnd.Intn(5)]
		return c15HsCase{c15HsWrap(m), false, false, "hs-bad-first-byte"}
	case k < 9: // compressed-point marker with 65 bytes: elliptic.Unmarshal rejects it
		m := c15EciesCraft(pub, c15Rand(c, 20), true)
		m[0] = byte(2 + c.Rnd.Intn(2))
		return c15HsCase{c15HsWrap(m), false, false, "hs-compressed-marker"}
	case k < 10: // garbage point
		m := c15Rand(c, 98+c.Rnd.Intn(60))
		m[0] = 4
		return c15HsCase{c15HsWrap(m), false, false, "hs-garbage"}
	case k < 12: // too short for ECIES (< 98)
		m := c15EciesCraft(pub, nil, true)
		m = m[:1+c.Rnd.Intn(97)]
		m[0] = 4
		return c15HsCase{c15HsWrap(m), true, false, "hs-short"}
	case k < 13:
		s := c15HsWrap(c15Rand(c, 30))
		s[c.Rnd.Intn(2)] ^= byte(1 + c.Rnd.Intn(255))
		return c15HsCase{s, false, false, "hs-bad-magic"}
	case k < 14:
		return c15HsCase{c15Hdr(0), false, false, "hs-zero-length"}
	case k < 15:
		return c15HsCase{c15Hdr(uint32(p2p.PackageMaxLen) + 1 + uint32(c.Rnd.Intn(2))*0x7fffffff), false, false, "hs-oversize"}
	default: // the bound of the handshake reader; nothing follows the 6 bytes
		if c.Rnd.Intn(4) == 0 { // accepted: the reader allocates MaxPackageLength bytes and waits
			return c15HsCase{c15Hdr(params.MaxPackageLength), false, false, "hs-declared=MaxPackageLength"}
		}
		return c15HsCase{c15Hdr(params.MaxPackageLength + 1 + uint32(c.Rnd.Intn(2))*4096), false, false, "hs-declared>MaxPackageLength"}
	}
}

func c15B(b bool) string {
	if b {
		return "1"
	}
	return "0"
}

// ---------------------------------------------------------------- handler environment

type c15Chain struct {
	calls    int64
	height   uint32
	known    map[common.Hash]bool
	confirm  int64
	inserted int64
	misses   int64 // lookups of the first missing height
	runaway  int64 // respBlocks goroutines stopped by the stub
	guard    bool  // stop runaway respBlocks goroutines (fuzz instance only)
}

func (bc *c15Chain) blk(h uint32) *types.Block {
	return &types.Block{Header: &types.Header{Height: h, Time: 1600000000 + h}}
}
func (bc *c15Chain) InsertBlock(block *types.Block) error {
	atomic.AddInt64(&bc.inserted, 1)
	return nil
}
func (bc *c15Chain) InsertConfirms(height uint32, blockHash common.Hash, sigList []types.SignData) {
	atomic.AddInt64(&bc.confirm, 1)
}
func (bc *c15Chain) IsInBlackList(b *types.Block) bool            { return false }
func (bc *c15Chain) Genesis() *types.Block                        { return bc.blk(0) }
func (bc *c15Chain) HasBlock(hash common.Hash) bool               { return bc.known[hash] }
func (bc *c15Chain) GetBlockByHash(hash common.Hash) *types.Block { return nil }
func (bc *c15Chain) GetBlockByHeight(height uint32) *types.Block {
	atomic.AddInt64(&bc.calls, 1)
	if height <= bc.height {
		return bc.blk(height)
	}
	// respBlocks does not advance past the first missing block: a GetBlocksMsg with a huge span asks for
	// the same height (To-From)/10 times on its own goroutine.  The fuzz instance ends such a goroutine
	// (otherwise a few of them spin for the rest of the run); the defect itself is measured by probe (6e).
	if bc.guard && height == bc.height+1 && atomic.AddInt64(&bc.misses, 1) > 50000 {
		atomic.StoreInt64(&bc.misses, 0)
		atomic.AddInt64(&bc.runaway, 1)
		runtime.Goexit()
	}
	return nil
}
func (bc *c15Chain) CurrentBlock() *types.Block { return bc.blk(bc.height) }
func (bc *c15Chain) StableBlock() *types.Block  { return bc.blk(bc.height - 1) }

type c15Pool struct{}

func (c15Pool) GetTxs(time uint32, size int) types.Transactions { return nil }

// AddTx refuses: on success handleTxsMsg publishes the tx to pm.txCh, which only a started
// txConfirmLoop drains; with no consumer subscribe.Send spins forever holding the router's read lock
// and the next NewProtocolManager (Sub = write lock) never returns — a harness artifact, not a finding.
func (c15Pool) AddTx(tx *types.Transaction) error { return fmt.Errorf("stub pool") }

type c15NoBlocks struct{}

func (c15NoBlocks) GetBlockByHeight(height uint32) (*types.Block, error) {
	return nil, store.ErrBlockNotExist
}

type c15Peer struct {
	id     p2p.NodeID
	writes int64
}

func (p *c15Peer) ReadMsg() (*p2p.Msg, error) { return nil, io.EOF }
func (p *c15Peer) WriteMsg(code p2p.MsgCode, msg []byte) error {
	atomic.AddInt64(&p.writes, 1)
	return nil
}
func (p *c15Peer) SetWriteDeadline(duration time.Duration)          {}
func (p *c15Peer) RNodeID() *p2p.NodeID                             { return &p.id }
func (p *c15Peer) RAddress() string                                 { return "1.2.3.4:7001" }
func (p *c15Peer) LAddress() string                                 { return "127.0.0.1:7001" }
func (p *c15Peer) DoHandshake(*ecdsa.PrivateKey, *p2p.NodeID) error { return nil }
func (p *c15Peer) Run() error                                       { return nil }
func (p *c15Peer) NeedReConnect() bool                              { return false }
func (p *c15Peer) SetStatus(status int32)                           {}
func (p *c15Peer) Close()                                           {}

func c15NewPM(dir string) (*network.ProtocolManager, *c15Chain, *network.VerifPeer) {
	bc := &c15Chain{height: 9, known: map[common.Hash]bool{}}
	for _, h := range c15Known {
		bc.known[h] = true
	}
	dm := deputynode.NewManager(5, c15NoBlocks{})
	dm.SaveSnapshot(0, types.DeputyNodes{&types.DeputyNode{
		MinerAddress: common.BigToAddress(big.NewInt(77)),
		NodeID:       crypto.PrivateKeyToNodeID(c15Prv),
		Rank:         0,
		Votes:        big.NewInt(5),
	}})
	discover := p2p.NewDiscoverManager(dir)
	pm := network.NewProtocolManager(1, p2p.NodeID{}, bc, dm, c15Pool{}, txpool.NewTxGuard(100), discover, 1, params.VersionUint(), dir)
	rp := &c15Peer{id: p2p.PubKeyToNodeID(&c15CliPrv.PublicKey)}
	vp := network.VerifNewPeer(rp)
	pm.VerifRegister(vp)
	return pm, bc, vp
}

// panic message of a rcvBlockLoop goroutine, if any ("" = none)
var c15LoopPanic atomic.Value

// the real rcvBlockLoop consumes what handleBlocksMsg pushes (it runs on a harness goroutine so that
// a panic inside the loop body is caught here instead of killing the harness)
func c15StartBlockLoop(pm *network.ProtocolManager) {
	go func() {
		defer func() {
			if r := recover(); r != nil {
				c15LoopPanic.Store(fmt.Sprint(r))
			}
		}()
		pm.VerifRcvBlockLoop()
	}()
}

// runs f with a deadline; "deadlock" if it does not return
func c15Timed(d time.Duration, f func() string) (string, string) {
	type r struct{ out, msg string }
	ch := make(chan r, 1)
	go func() {
		o, m := SafeMsg(f)
		ch <- r{o, m}
	}()
	select {
	case x := <-ch:
		return x.out, x.msg
	case <-time.After(d):
		return "deadlock", ""
	}
}

// runs f, which must bump *progress as it advances; "deadlock" if progress stops for 3 s
func c15Stall(progress *int64, f func() string) string {
	ch := make(chan string, 1)
	go func() {
		o, _ := SafeMsg(f)
		ch <- o
	}()
	last, lastAt := int64(-1), time.Now()
	for {
		select {
		case o := <-ch:
			return o
		case <-time.After(100 * time.Millisecond):
			if cur := atomic.LoadInt64(progress); cur != last {
				last, lastAt = cur, time.Now()
			} else if time.Since(lastAt) > 3*time.Second {
				return "deadlock"
			}
		}
	}
}

func c15Enc(v interface{}) []byte {
	b, err := rlp.EncodeToBytes(v)
	if err != nil {
		return []byte{0xc0}
	}
	return b
}

// a few hashes the stub chain "has" (HasBlock true): the insertBlock arm of rcvBlockLoop and the known-block
// arm of handleConfirmMsg are reached through them
var c15Known = []common.Hash{{0xaa, 1}, {0xaa, 2}, {0xaa, 3}}

func c15Hash(c *Ctx) common.Hash {
	var h common.Hash
	switch c.Rnd.Intn(5) {
	case 0:
	case 1:
		h = c15Known[c.Rnd.Intn(len(c15Known))]
	default:
		c.Rnd.Read(h[:])
	}
	return h
}

func c15U32(c *Ctx) uint32 {
	switch c.Rnd.Intn(6) {
	case 0:
		return 0
	case 1:
		return 0xFFFFFFFF
	case 2:
		return uint32(c.Rnd.Intn(12))
	case 3:
		return 0xFFFFFFFF - uint32(c.Rnd.Intn(3))
	}
	return c.Rnd.Uint32()
}

func c15NodeString(c *Ctx) string {
	ep := []string{"1.2.3.4:7001", "300.1.1.1:1", "1.2.3.4", "::1:7001", "1.2.3.4:99999", ""}[c.Rnd.Intn(6)]
	switch c.Rnd.Intn(7) {
	case 0: // a real node id
		id := p2p.PubKeyToNodeID(&c15CliPrv.PublicKey)
		return hex.EncodeToString(id[:]) + "@" + ep
	case 1: // 128 characters that are not hexadecimal
		return strings.Repeat("zz", 64) + "@" + ep
	case 2: // 128 characters with a 0x prefix: 63 bytes once the prefix is stripped
		return "0x" + strings.Repeat("1f", 63) + "@" + ep
	case 3: // 128 hex chars, not a curve point
		return strings.Repeat("11", 64) + "@" + ep
	case 4:
		return hex.EncodeToString(c15Rand(c, c.Rnd.Intn(70))) + "@" + ep
	case 5:
		return strings.Repeat("@", c.Rnd.Intn(4))
	}
	return string(c15Rand(c, c.Rnd.Intn(140)))
}

func c15Tx(c *Ctx) *types.Transaction {
	now := uint64(time.Now().Unix())
	exp := now + uint64(c.Rnd.Intn(1700))
	if c.Rnd.Intn(4) == 0 {
		exp = uint64(c.Rnd.Int63())
	}
	chain := uint16(1)
	if c.Rnd.Intn(5) == 0 {
		chain = uint16(c.Rnd.Intn(65536))
	}
	typ := uint16(c.Rnd.Intn(14))
	if c.Rnd.Intn(6) == 0 {
		typ = uint16(c.Rnd.Intn(65536))
	}
	gp := big.NewInt(int64(c.Rnd.Intn(3)) * 1000000000)
	amount := new(big.Int).Lsh(big.NewInt(int64(c.Rnd.Intn(1000))), uint(c.Rnd.Intn(300)))
	from := common.BigToAddress(big.NewInt(int64(c.Rnd.Intn(1000))))
	to := common.BigToAddress(big.NewInt(int64(c.Rnd.Intn(1000))))
	data := c15Rand(c, c.Rnd.Intn(80))
	if c.Rnd.Intn(3) == 0 {
		data = []byte(`{"` + string(c15Rand(c, 3)) + `":1}`)
	}
	name := []string{"", "abc", "a b", strings.Repeat("x", 300)}[c.Rnd.Intn(4)]
	if c.Rnd.Intn(3) == 0 {
		return types.NoReceiverTransaction(from, amount, uint64(c.Rnd.Intn(1e6)), gp, data, typ, chain, exp, name, "m")
	}
	return types.NewTransaction(from, to, amount, uint64(c.Rnd.Intn(1e6)), gp, data, typ, chain, exp, name, string(c15Rand(c, c.Rnd.Intn(20))))
}

// ---- transactions whose Data is JSON (box, asset ...) and that pass every check of VerifyTxBody that comes
// before the JSON is decoded (gas price, expiration window, chain id, amount, names, data present, `to` rule)

func c15ValidTx(c *Ctx, typ uint16, data []byte, exp uint64) *types.Transaction {
	gp := big.NewInt(int64(1+c.Rnd.Intn(3)) * 1000000000)
	amount := big.NewInt(int64(c.Rnd.Intn(1000)))
	from := common.BigToAddress(big.NewInt(int64(1 + c.Rnd.Intn(1000))))
	to := common.BigToAddress(big.NewInt(int64(1 + c.Rnd.Intn(1000))))
	switch typ {
	case params.CreateContractTx, params.RegisterTx, params.CreateAssetTx, params.ModifyAssetTx, params.BoxTx:
		return types.NoReceiverTransaction(from, amount, uint64(100000+c.Rnd.Intn(1e6)), gp, data, typ, 1, exp, "", "m")
	}
	return types.NewTransaction(from, to, amount, uint64(100000+c.Rnd.Intn(1e6)), gp, data, typ, 1, exp, "", "m")
}

// JSON of a sub-transaction.  It is marshalled as an ordinary tx and the type is patched in afterwards:
// Transaction.MarshalJSON computes Hash(), which decodes box data (and crashed on a null sub-tx itself).
func c15SubTxJSON(c *Ctx, typ uint16, data []byte, exp uint64) string {
	b, err := json.Marshal(c15ValidTx(c, params.OrdinaryTx, data, exp))
	if err != nil {
		return "{}"
	}
	j := strings.Replace(string(b), `"type":"0"`, fmt.Sprintf(`"type":"%d"`, typ), 1)
	switch typ {
	case params.CreateContractTx, params.RegisterTx, params.CreateAssetTx, params.ModifyAssetTx, params.BoxTx:
		if i := strings.Index(j, `"to":"`); i >= 0 {
			k := strings.Index(j[i+6:], `"`)
			j = j[:i] + `"to":null` + j[i+6+k+1:]
		}
	}
	return j
}

// JSON shapes for the Data of a tx of type typ: honest ones, null elements, wrong JSON types, nesting
func c15JsonData(c *Ctx, typ uint16, exp uint64) (string, string) {
	generic := [][2]string{{"null", "null"}, {"[]", "array"}, {"[null]", "array-null"}, {"{}", "empty-object"}, {"1", "number"}, {`"x"`, "string"}, {"{", "truncated"}, {`{"a":null}`, "unknown-null"}}
	pick := func(l [][2]string) (string, string) { x := l[c.Rnd.Intn(len(l))]; return x[0], x[1] }
	switch typ {
	case params.BoxTx:
		sub := c15SubTxJSON(c, params.OrdinaryTx, nil, exp+uint64(c.Rnd.Intn(60)))
		early := c15SubTxJSON(c, params.OrdinaryTx, nil, exp-1-uint64(c.Rnd.Intn(60)))
		innerNull := c15SubTxJSON(c, params.BoxTx, []byte(`{"subTxList":[null]}`), exp+5)
		innerOK := c15SubTxJSON(c, params.BoxTx, []byte(`{"subTxList":[`+sub+`]}`), exp+5)
		asset := c15SubTxJSON(c, params.CreateAssetTx, []byte(`{"category":1,"decimal":18,"isReplenishable":true,"isDivisible":true,"profile":null}`), exp+5)
		return pick(append(generic, [][2]string{
			{`{"subTxList":[null]}`, "box-null-elem"},
			{`{"subTxList":[` + sub + `,null]}`, "box-valid-then-null"},
			{`{"subTxList":[null,` + sub + `]}`, "box-null-then-valid"},
			{`{"subTxList":[null,null,null]}`, "box-nulls"},
			{`{"subTxList":[]}`, "box-zero-subtxs"},
			{`{"subTxList":null}`, "box-list-null"},
			{`{"subTxList":{}}`, "box-list-object"},
			{`{"subTxList":[{}]}`, "box-empty-subtx"},
			{`{"subTxList":[1]}`, "box-number-elem"},
			{`{"subTxList":["x"]}`, "box-string-elem"},
			{`{"subTxList":[[]]}`, "box-array-elem"},
			{`{"subTxList":[[null]]}`, "box-array-null-elem"},
			{`{"subTxList":[` + sub + `]}`, "box-valid"},
			{`{"subTxList":[` + sub + `,` + sub + `]}`, "box-duplicate-subtx"},
			{`{"subTxList":[` + early + `]}`, "box-subtx-expires-first"},
			{`{"subTxList":[` + innerNull + `]}`, "box-in-box-null"},
			{`{"subTxList":[` + innerOK + `]}`, "box-in-box"},
			{`{"subTxList":[` + asset + `]}`, "box-asset-subtx"},
			{`{"subTxList":[` + strings.Replace(sub, `"gasPrice"`, `"gasPriceX"`, 1) + `]}`, "box-subtx-missing-field"},
			{`{"subTxList":[` + strings.Replace(sub, `"sigs":[]`, `"sigs":[null]`, 1) + `]}`, "box-subtx-null-sig"},
			{`{"subTxList":[` + strings.Replace(sub, `"amount":"`, `"amount":null,"x":"`, 1) + `]}`, "box-subtx-null-amount"},
			{`{"subTxList":[` + strings.Replace(sub, `"to":"`, `"to":null,"x":"`, 1) + `]}`, "box-subtx-null-to"},
		}...))
	case params.CreateAssetTx:
		return pick(append(generic, [][2]string{
			{`{"category":1,"decimal":18,"isReplenishable":true,"isDivisible":true,"profile":{"name":"a"}}`, "asset-valid"},
			{`{"category":1,"decimal":18,"isReplenishable":true,"isDivisible":true,"profile":null}`, "asset-null-profile"},
			{`{"category":1,"decimal":18,"isReplenishable":true,"isDivisible":true,"profile":{"name":null}}`, "asset-null-profile-value"},
			{`{"category":null,"decimal":null,"isReplenishable":null,"isDivisible":null,"profile":null}`, "asset-all-null"},
			{`{"category":"1","decimal":18}`, "asset-string-category"},
			{`{"category":99,"decimal":200,"isDivisible":false}`, "asset-out-of-range"},
			{`{"category":1,"decimal":18,"isDivisible":true,"profile":[null]}`, "asset-profile-array"},
		}...))
	default: // issue / replenish / modify / transfer asset, signers, register, contract: decoded later by the processor
		return pick(append(generic, [][2]string{
			{`{"assetCode":null,"assetId":null,"supplyAmount":null,"replenishAmount":null,"transferAmount":null}`, "fields-null"},
			{`{"assetCode":"0x01","supplyAmount":"1","metaData":null}`, "issue-like"},
			{`{"assetCode":"0x01","updateProfile":null}`, "modify-null-profile"},
			{`{"signers":[null]}`, "signers-null-elem"},
			{`[{"address":null,"weight":null}]`, "signers-array-nulls"},
		}...))
	}
}

func c15JsonTx(c *Ctx) (*types.Transaction, string) {
	now := uint64(time.Now().Unix())
	exp := now + 120 + uint64(c.Rnd.Intn(1500))
	typ := []uint16{params.BoxTx, params.BoxTx, params.BoxTx, params.CreateAssetTx, params.IssueAssetTx, params.ReplenishAssetTx, params.ModifyAssetTx,
		params.TransferAssetTx, params.ModifySignersTx, params.RegisterTx, params.CreateContractTx}[c.Rnd.Intn(11)]
	data, class := c15JsonData(c, typ, exp)
	return c15ValidTx(c, typ, []byte(data), exp), fmt.Sprintf("type%d:%s", typ, class)
}

func c15Block(c *Ctx) *types.Block {
	h := &types.Header{
		ParentHash:   c15Hash(c),
		MinerAddress: common.BigToAddress(big.NewInt(int64(c.Rnd.Intn(100)))),
		Height:       c15U32(c),
		GasLimit:     c.Rnd.Uint64(),
		GasUsed:      c.Rnd.Uint64(),
		Time:         c15U32(c),
		SignData:     c15Rand(c, []int{0, 1, 64, 65, 66}[c.Rnd.Intn(5)]),
		DeputyRoot:   c15Rand(c, c.Rnd.Intn(40)),
		Extra:        string(c15Rand(c, c.Rnd.Intn(300))),
	}
	b := &types.Block{Header: h}
	for i := c.Rnd.Intn(3); i > 0; i-- {
		if c.Rnd.Intn(3) == 0 {
			tx, _ := c15JsonTx(c)
			b.Txs = append(b.Txs, tx)
		} else {
			b.Txs = append(b.Txs, c15Tx(c))
		}
	}
	for i := c.Rnd.Intn(3); i > 0; i-- {
		var s types.SignData
		c.Rnd.Read(s[:])
		b.Confirms = append(b.Confirms, s)
	}
	return b
}

// a well-typed payload for the message code (random field values), or nil if the code has none
func c15Payload(c *Ctx, code p2p.MsgCode) []byte {
	switch code {
	case p2p.LstStatusMsg:
		return c15Enc(&network.LatestStatus{CurHeight: c15U32(c), CurHash: c15Hash(c), StaHeight: c15U32(c), StaHash: c15Hash(c)})
	case p2p.GetLstStatusMsg:
		return c15Enc(&network.GetLatestStatus{Revert: c15U32(c)})
	case p2p.BlockHashMsg:
		return c15Enc(&network.BlockHashData{Height: c15U32(c), Hash: c15Hash(c)})
	case p2p.TxsMsg:
		var txs types.Transactions
		for i := c.Rnd.Intn(4); i > 0; i-- {
			if c.Rnd.Intn(2) == 0 {
				tx, class := c15JsonTx(c)
				c.Count("txjson:" + class)
				txs = append(txs, tx)
			} else {
				txs = append(txs, c15Tx(c))
			}
		}
		return c15Enc(&txs)
	case p2p.GetBlocksMsg, p2p.GetBlocksWithChangeLogMsg:
		// the span is kept small here: the unbounded loop of respBlocks is probed separately
		from := c15U32(c)
		to := from + uint32(c.Rnd.Intn(40))
		if c.Rnd.Intn(4) == 0 {
			to = from - uint32(c.Rnd.Intn(3))
		}
		return c15Enc(&network.GetBlocksData{From: from, To: to})
	case p2p.BlocksMsg:
		var bs types.Blocks
		for i := c.Rnd.Intn(4); i > 0; i-- {
			bs = append(bs, c15Block(c))
		}
		return c15Enc(&bs)
	case p2p.ConfirmMsg:
		var s types.SignData
		c.Rnd.Read(s[:])
		return c15Enc(&network.BlockConfirmData{Hash: c15Hash(c), Height: c15U32(c), SignInfo: s})
	case p2p.GetConfirmsMsg:
		return c15Enc(&network.GetConfirmInfo{Height: c15U32(c), Hash: c15Hash(c)})
	case p2p.ConfirmsMsg:
		bc := &network.BlockConfirms{Height: c15U32(c), Hash: c15Hash(c)}
		for i := c.Rnd.Intn(4); i > 0; i-- {
			var s types.SignData
			c.Rnd.Read(s[:])
			bc.Pack = append(bc.Pack, s)
		}
		return c15Enc(bc)
	case p2p.DiscoverReqMsg:
		return c15Enc(&network.DiscoverReqData{Sequence: uint(c.Rnd.Uint32())})
	case p2p.DiscoverResMsg:
		d := &network.DiscoverResData{Sequence: uint(c.Rnd.Uint32())}
		for i := c.Rnd.Intn(4); i > 0; i-- {
			d.Nodes = append(d.Nodes, c15NodeString(c))
		}
		return c15Enc(d)
	case p2p.ProHandshakeMsg:
		return c15Enc(&network.ProtocolHandshake{ChainID: uint16(c.Rnd.Intn(3)), GenesisHash: c15Hash(c), NodeVersion: c15U32(c)})
	}
	return nil
}

func c15Mutate(c *Ctx, b []byte) []byte {
	b = append([]byte{}, b...)
	if len(b) == 0 {
		return []byte{byte(c.Rnd.Intn(256))}
	}
	switch c.Rnd.Intn(6) {
	case 0:
		return b[:c.Rnd.Intn(len(b))]
	case 1:
		b[c.Rnd.Intn(len(b))] ^= byte(1 << uint(c.Rnd.Intn(8)))
	case 2:
		b[c.Rnd.Intn(len(b))] = byte(c.Rnd.Intn(256))
	case 3:
		return append(b, c15Rand(c, 1+c.Rnd.Intn(8))...)
	case 4: // huge declared length prefix
		return append([]byte{0xfb, 0xff, 0xff, 0xff, 0xff}, b...)
	case 5:
		i := c.Rnd.Intn(len(b))
		return append(append(append([]byte{}, b[:i]...), c15Rand(c, 1+c.Rnd.Intn(4))...), b[i:]...)
	}
	return b
}

// ---------------------------------------------------------------- main

func c15Keys() {
	c15Prv, _ = crypto.ToECDSA(common.FromHex("0x9c3c4a327ce214f0a1bf9cfa756fbf74f1c7322399ffff925efd8c15c49953eb"))
	c15CliPrv, _ = crypto.ToECDSA(common.FromHex("0xc21b6b2fbf230f665b936194d14da67187732bf9d28768aef1a3cbb26608f8aa"))
	deputynode.SetSelfNodeKey(c15Prv)
}

func c15(c *Ctx) {
	c15Keys()
	child := c15StartChild(c) // the close hammer / livelock / leak probes run in a child process, in parallel
	c15FlagClash(c)           // one valid tx whose contract code equals a trie node written in the same block (child process)
	srvPub := ecies.ImportECDSAPublic(&c15Prv.PublicKey)

	// (0) constants, read from the code
	maxcode := -1
	for code := 0; code < 4096; code++ {
		if !(&p2p.Msg{Code: p2p.MsgCode(code)}).CheckCode() {
			maxcode = code - 1
			break
		}
	}
	c.Op("consts", fmt.Sprintf("max=%d hsmax=%d magic=%d:%d maxcode=%d hb=%d", params.MaxPackageLength, p2p.PackageMaxLen,
		p2p.PackagePrefix[0], p2p.PackagePrefix[1], maxcode, uint32(p2p.HeartbeatMsg)))
	if len(p2p.PackagePrefix) != 2 || p2p.PackageLength != 4 {
		c15Fail(c, "c15/header-shape", "header is no longer 2+4 bytes", nil)
	}

	// (1) packFrame output is what the generator believes a valid frame is (ties c15Msg to the code)
	for i := 0; i < 20; i++ {
		p := p2p.VerifNewPeer(&c15Conn{}, c15Key)
		code := uint32(c.Rnd.Intn(0x20))
		payload := c15Rand(c, c.Rnd.Intn(40))
		var pl []byte
		if len(payload) > 0 {
			pl = payload
		}
		buf, err := p.VerifPackFrame(p2p.MsgCode(code), pl)
		f := c15Msg(code, payload, "valid")
		if err != nil || !bytes.Equal(buf, append(append([]byte{}, f.hdr...), f.wire...)) {
			c15Fail(c, "c15/generator-mismatch", "packFrame output differs from the harness' frame builder", nil)
		}
		c.Count("packframe-check")
	}

	// (2) frame streams: flat, then segmented, then truncated at every offset
	nStreams := c.N
	for it := 0; it < nStreams; it++ {
		nf := 1 + c.Rnd.Intn(3)
		var frames []c15Frame
		var classes []string
		for i := 0; i < nf; i++ {
			f := c15GenFrame(c)
			// mostly put a risky frame after valid ones
			if i < nf-1 && c.Rnd.Intn(3) != 0 {
				f = c15Msg(uint32(c.Rnd.Intn(0x20)), c15Rand(c, c.Rnd.Intn(30)), "valid")
			}
			frames = append(frames, f)
			classes = append(classes, f.class)
			c.Count("frame:" + f.class)
		}
		wire, model := c15Streams(frames)
		out := c15RunOp(c, wire, model, strings.Join(classes, ","))
		// segmented
		wch := c15Split(c, wire)
		mch := make([][]byte, len(wch))
		off := 0
		for i, ch := range wch {
			mch[i] = model[off : off+len(ch)]
			off += len(ch)
		}
		outC := c15ImplRun(wch)
		c.Op("runc "+c15Chunks(mch), outC)
		c.Count("split")
		if outC != out {
			c15Fail(c, "c15/split-variance", fmt.Sprintf("same bytes, different segmentation: %q vs %q", out, outC), map[string]interface{}{"wire": c15Hex(wire), "chunks": c15Chunks(wch)})
		}
		// truncation at every offset (a sample of streams)
		if it%25 == 0 || c.Tier == "thorough" && it%5 == 0 {
			for k := 0; k < len(wire); k++ {
				o := c15ImplRun([][]byte{wire[:k]})
				c.Op("run "+c15Hex(model[:k]), o)
				c.Count("truncation")
				if !strings.HasSuffix(o, "need-more") && !strings.HasPrefix(out, o) {
					// a truncated stream may only end earlier with need-more, or behave like the full one
					c15Fail(c, "c15/truncation", fmt.Sprintf("cut at %d: %q, full: %q", k, o, out), nil)
				}
				for _, ev := range strings.Split(o, ";") {
					if strings.HasPrefix(ev, "panic:") && !strings.Contains(out, ev) {
						c15Fail(c, c15SigOf(strings.TrimPrefix(ev, "panic:")), "panic on a truncated stream only", map[string]interface{}{"wire": c15Hex(wire[:k])})
					}
				}
			}
		}
	}
	// every length residue, every short plaintext length, every code: one deterministic pass
	for n := 1; n <= 48; n++ {
		f := c15FromWire(bytes.Repeat([]byte{0xab}, n), fmt.Sprintf("len%%16=%d", n%16))
		w, m := c15Streams([]c15Frame{f})
		c15RunOp(c, w, m, f.class)
		c.Count("sweep-length")
	}
	for n := 0; n <= 6; n++ {
		b := []byte{0, 0, 0, 7, 9, 9, 9}[:n]
		f := c15FromPlain(c15Pad(b), fmt.Sprintf("short-plain=%d", n))
		w, m := c15Streams([]c15Frame{f})
		c15RunOp(c, w, m, f.class)
		c.Count("sweep-plain")
	}
	for code := uint32(0); code <= 0x23; code++ {
		f := c15Msg(code, []byte{1, 2, 3}, "valid")
		w, m := c15Streams([]c15Frame{f, f})
		c15RunOp(c, w, m, "code-sweep")
		c.Count("sweep-code")
	}

	// (3) allocation per step, measured
	measure := func(f func()) uint64 {
		runtime.GC()
		var m0, m1 runtime.MemStats
		runtime.ReadMemStats(&m0)
		f()
		runtime.ReadMemStats(&m1)
		return m1.TotalAlloc - m0.TotalAlloc
	}
	const mib = 1 << 20
	for _, declared := range []int{mib + 4096, 2*mib + 4096, 3 * mib, mib + 4096 + 7, 2*mib + 9} {
		for _, full := range []bool{false, true} {
			declared := declared
			if full && declared%16 < 7 {
				declared = declared / 16 * 16
			} // the two last sizes stay unaligned: AesDecrypt refuses them before allocating its buffer
			provided := 0
			stream := c15Hdr(uint32(declared))
			if full {
				provided = declared
				if declared%16 == 0 {
					stream = append(stream, c15CBCEnc(make([]byte, declared))...)
				} else {
					stream = append(stream, make([]byte, declared)...)
				}
			}
			var ev string
			conn := &c15Conn{chunks: [][]byte{stream}}
			p := p2p.VerifNewPeer(conn, c15Key)
			got := measure(func() { ev, _ = c15ImplStep(p) })
			c.Op(fmt.Sprintf("allocz %d %d", declared, provided), fmt.Sprintf("%s mib=%d", ev, got/mib))
			c.Count("alloc-probe")
			// tight: header + content buffer (+ decryption buffer when the frame is complete and aligned) + 64 KiB slack
			bound := uint64(6 + declared + 65536)
			if full && declared%16 == 0 {
				bound += uint64(declared)
			}
			if got > bound {
				c15Fail(c, "c15/frame-alloc", fmt.Sprintf("one frame step (declared %d, complete=%v) allocated %d bytes > %d", declared, full, got, bound), nil)
			}
		}
	}
	// pre-handshake: 6 bytes from an unauthenticated remote; the declared length must be bounded like a frame's
	for _, declared := range []int{8*mib + 4096, 64*mib + 4096} {
		stream := c15Hdr(uint32(declared))
		var ev string
		got := measure(func() { ev = c15ImplHs([][]byte{stream}) })
		c.Op(fmt.Sprintf("hsalloc %d", declared), fmt.Sprintf("%s mib=%d", ev, got/mib))
		c.Count("hs-alloc-probe")
		bound := uint64(6 + 2*int(params.MaxPackageLength))
		if got > bound {
			c15Fail(c, "c15/handshake-alloc", fmt.Sprintf("readHandshakeBuf: a 6-byte prefix (declared length %d) from an unauthenticated remote made the node allocate %d bytes (> 6+2*MaxPackageLength=%d) before any payload byte arrived; "+
				"HandleConn sets no read deadline before the handshake, so the buffer stays pinned as long as the TCP connection is open",
				declared, got, bound), map[string]interface{}{"stream": c15Hex(stream)})
		}
	}

	// (4) pre-handshake reader
	nHs := c.N / 2
	for it := 0; it < nHs; it++ {
		hc := c15GenHs(c, srvPub)
		c.Count("hs:" + hc.class)
		if len(hc.stream) >= 6+98 && (hc.stream[6] == 2 || hc.stream[6] == 3 || hc.stream[6] == 4) {
			pOk, mOk := c15EciesFlags(hc.stream[6:])
			if pOk != hc.point || (pOk && mOk != hc.mac) {
				c15Fail(c, "c15/generator-belief", fmt.Sprintf("class %s: generator believed point=%v mac=%v, the bytes say point=%v mac=%v", hc.class, hc.point, hc.mac, pOk, mOk), nil)
			}
			hc.point, hc.mac = pOk, mOk
			c.Count("hs-flags-from-bytes")
		}
		out := c15ImplHs([][]byte{hc.stream})
		c.Op(fmt.Sprintf("hs %s %s %s", c15B(hc.point), c15B(hc.mac), c15Hex(hc.stream)), out)
		c.Count("hs-out:" + strings.SplitN(out, ":", 2)[0])
		if strings.HasPrefix(out, "panic:") {
			site := strings.TrimPrefix(out, "panic:")
			c15Fail(c, c15SigOf(site), fmt.Sprintf("serverEncHandshake/readHandshakeBuf panics (%s) on a %d-byte unauthenticated stream [%s]; it runs on the per-connection goroutine of listenLoop without recover",
				site, len(hc.stream), hc.class), map[string]interface{}{"stream": c15Hex(hc.stream), "server_key": "0x9c3c…53eb (p2p tests)"})
		}
		chunks := c15Split(c, hc.stream)
		outC := c15ImplHs(chunks)
		c.Op(fmt.Sprintf("hsc %s %s %s", c15B(hc.point), c15B(hc.mac), c15Chunks(chunks)), outC)
		if outC != out {
			c15Fail(c, "c15/split-variance", "handshake reader depends on segmentation", nil)
		}
		if it%40 == 0 && len(hc.stream) < 400 {
			for k := 0; k < len(hc.stream); k++ {
				o := c15ImplHs([][]byte{hc.stream[:k]})
				c.Op(fmt.Sprintf("hs %s %s %s", c15B(hc.point), c15B(hc.mac), c15Hex(hc.stream[:k])), o)
				c.Count("hs-truncation")
			}
		}
	}

	// (5) the whole server / client handshake on ECIES-valid envelopes around mutated RLP (oracle only)
	{
		// capture an honest client request
		cc := &c15Conn{}
		srvID := p2p.PubKeyToNodeID(&c15Prv.PublicKey)
		p2p.VerifClientEncHandshake(cc, c15CliPrv, &srvID)
		req := cc.wrote.Bytes()
		plainReq, err := p2p.VerifReadHandshakeBuf(&c15Conn{chunks: [][]byte{req}}, c15Prv)
		if err != nil || len(req) < 100 {
			c15Fail(c, "c15/harness", fmt.Sprintf("could not capture an honest handshake request: %v", err), nil)
		}
		for it := 0; it < c.N/3+20; it++ {
			pl := plainReq
			class := "req-honest"
			switch c.Rnd.Intn(5) {
			case 0:
			case 1:
				pl, class = c15Mutate(c, plainReq), "req-mutated"
			case 2:
				pl, class = c15Rand(c, c.Rnd.Intn(200)), "req-random"
			case 3:
				pl, class = nil, "req-empty"
			case 4: // well-formed list with the wrong field sizes
				pl, class = c15Enc([]interface{}{c15Rand(c, c.Rnd.Intn(70)), c15Rand(c, c.Rnd.Intn(70)), c15Rand(c, c.Rnd.Intn(40))}), "req-wrong-sizes"
			}
			m, _ := ecies.Encrypt(crand.Reader, srvPub, pl, nil, nil)
			conn := &c15Conn{chunks: [][]byte{c15HsWrap(m)}}
			out, msg := SafeMsg(func() string {
				_, _, err := p2p.VerifServerEncHandshake(conn, c15Prv)
				if err != nil {
					return "err"
				}
				return "ok"
			})
			c.Count("hsfull-server:" + class + ":" + out)
			if out == "panic" {
				c15Fail(c, "c15/handshake-panic", "serverEncHandshake panics: "+msg, map[string]interface{}{"plain": c15Hex(pl)})
			}
			// client side: the response of a malicious server
			cliPub := ecies.ImportECDSAPublic(&c15CliPrv.PublicKey)
			rp := c15Rand(c, c.Rnd.Intn(120))
			if c.Rnd.Intn(2) == 0 {
				rp = c15Enc([]interface{}{c15Rand(c, 64), c15Rand(c, 32)})
			}
			m2, _ := ecies.Encrypt(crand.Reader, cliPub, rp, nil, nil)
			conn2 := &c15Conn{chunks: [][]byte{c15HsWrap(m2)}}
			out2, msg2 := SafeMsg(func() string {
				_, err := p2p.VerifClientEncHandshake(conn2, c15CliPrv, &srvID)
				if err != nil {
					return "err"
				}
				return "ok"
			})
			c.Count("hsfull-client:" + out2)
			if out2 == "panic" {
				c15Fail(c, "c15/handshake-panic", "clientEncHandshake panics: "+msg2, map[string]interface{}{"plain": c15Hex(rp)})
			}
		}
	}

	// (6) message handlers, every code, under recover + deadline (oracle only)
	dir, _ := os.MkdirTemp("", "c15")
	defer os.RemoveAll(dir)
	{
		pm, fz, vp := c15NewPM(dir)
		fz.guard = true
		c15StartBlockLoop(pm)
		nH := c.N
		for it := 0; it < nH; it++ {
			code := p2p.MsgCode(c.Rnd.Intn(0x22))
			if c.Rnd.Intn(3) != 0 {
				code = p2p.MsgCode(1 + c.Rnd.Intn(0x0e))
			}
			payload := c15Payload(c, code)
			class := "typed"
			switch c.Rnd.Intn(6) {
			case 0:
				payload, class = c15Mutate(c, payload), "mutated"
			case 1:
				payload, class = c15Rand(c, c.Rnd.Intn(60)), "random"
			case 2:
				payload, class = nil, "empty"
			case 3: // payload of another message type
				payload, class = c15Payload(c, p2p.MsgCode(1+c.Rnd.Intn(0x0e))), "other-type"
			}
			msg := &p2p.Msg{Code: code, Content: payload, ReceivedAt: time.Now()}
			out, pmsg := c15Timed(5*time.Second, func() string {
				if err := pm.VerifWork(msg, vp); err != nil {
					return "err"
				}
				return "ok"
			})
			c.Count(fmt.Sprintf("handler:%#x:%s:%s", uint32(code), class, out))
			if out == "panic" {
				sig := "c15/handler-panic/" + fmt.Sprintf("%#x", uint32(code))
				if code == p2p.DiscoverResMsg && strings.Contains(pmsg, "nil pointer") {
					sig = "c15/discover-node-nil-deref"
				}
				if code == p2p.TxsMsg && strings.Contains(pmsg, "nil pointer") {
					sig = "c15/box-null-subtx"
				}
				c15Fail(c, sig, fmt.Sprintf("ProtocolManager.work(code=%#x) panics on a %d-byte payload (%s): %s; handlePeer has no recover", uint32(code), len(payload), class, pmsg),
					map[string]interface{}{"code": uint32(code), "payload": c15Hex(payload)})
			}
			if out == "deadlock" {
				c15Fail(c, "c15/handler-deadlock/"+fmt.Sprintf("%#x", uint32(code)), "handler did not return within 5s", map[string]interface{}{"code": uint32(code), "payload": c15Hex(payload)})
				pm, fz, vp = c15NewPM(dir)
				fz.guard = true
				c15StartBlockLoop(pm)
			}
		}
		time.Sleep(700 * time.Millisecond) // let rcvBlockLoop drain and its queue timer fire once
		if m, _ := c15LoopPanic.Load().(string); m != "" {
			c15Fail(c, "c15/rcvblockloop-panic", "ProtocolManager.rcvBlockLoop panics on blocks decoded from a BlocksMsg: "+m, nil)
		}
		c.Count("rcvblockloop-alive")
		if atomic.LoadInt64(&fz.runaway) > 0 {
			c.Count("fuzz:getblocks-runaway-goroutine-stopped")
		}
	}
	// (6b) DiscoverResMsg with a 128-character node id that is not hexadecimal (deterministic)
	{
		pm, _, vp := c15NewPM(dir)
		payload := c15Enc(&network.DiscoverResData{Sequence: 1, Nodes: []string{strings.Repeat("zz", 64) + "@1.2.3.4:7001"}})
		out, pmsg := c15Timed(5*time.Second, func() string {
			if err := pm.VerifWork(&p2p.Msg{Code: p2p.DiscoverResMsg, Content: payload}, vp); err != nil {
				return "err"
			}
			return "ok"
		})
		c.Count("discover-res-nonhex:" + out)
		if out == "panic" {
			c15Fail(c, "c15/discover-node-nil-deref", "handleDiscoverResMsg -> VerifyNode -> p2p.ParseNodeString: BytesToNodeID returns nil for a 128-char non-hex id and nodeID.PubKey() dereferences it: "+pmsg,
				map[string]interface{}{"code": uint32(p2p.DiscoverResMsg), "payload": c15Hex(payload)})
		}
	}
	// (6f) TxsMsg carrying txs whose Data is JSON: every shape, deterministically, through the real handler
	{
		pm, _, vp := c15NewPM(dir)
		now := uint64(time.Now().Unix())
		for _, typ := range []uint16{params.BoxTx, params.CreateAssetTx, params.IssueAssetTx, params.ModifySignersTx} {
			seen := map[string]bool{}
			for tries := 0; tries < 400; tries++ {
				data, class := c15JsonData(c, typ, now+600)
				if seen[class] {
					continue
				}
				seen[class] = true
				txs := types.Transactions{c15ValidTx(c, typ, []byte(data), now+600)}
				payload := c15Enc(&txs)
				out, pmsg := c15Timed(5*time.Second, func() string {
					if err := pm.VerifWork(&p2p.Msg{Code: p2p.TxsMsg, Content: payload}, vp); err != nil {
						return "err"
					}
					return "ok"
				})
				c.Count(fmt.Sprintf("txs-json-probe:type%d:%s:%s", typ, class, out))
				if out == "panic" {
					sig := "c15/txs-json-panic"
					if typ == params.BoxTx && strings.Contains(pmsg, "nil pointer") {
						sig = "c15/box-null-subtx"
					}
					c15Fail(c, sig, fmt.Sprintf("handleTxsMsg panics on a tx of type %d whose data is %s (%s): %s; it runs on handlePeer's goroutine, no recover", typ, data, class, pmsg),
						map[string]interface{}{"code": uint32(p2p.TxsMsg), "payload": c15Hex(payload), "data": data})
				}
			}
		}
		time.Sleep(100 * time.Millisecond) // goroutines spawned by handleTxsMsg (ExistTx / AddTx)
	}
	// (6g) what the pool path does with such txs once VerifyTxBody let them through: real TxPool + TxGuard
	{
		pool := txpool.NewTxPool()
		guard := txpool.NewTxGuard(uint32(time.Now().Unix()))
		for it := 0; it < c.N/2+50; it++ {
			tx, class := c15JsonTx(c)
			now := uint64(time.Now().Unix())
			out, pmsg := SafeMsg(func() string {
				tx.Hash() // every receiver of a block hashes its txs before looking at them (consensus verifyTxs)
				if err := tx.VerifyTxBody(1, now, false); err != nil {
					return "rejected"
				}
				guard.ExistTx(common.Hash{1}, tx)
				pool.AddTx(tx)
				pool.AddTx(tx)
				pool.GetTxs(uint32(now), 50)
				pool.GetTxs(uint32(now)+4000, 50) // everything timed out: delTx path
				return "accepted"
			})
			c.Count("pool-path:" + class + ":" + out)
			if out == "panic" {
				c15Fail(c, "c15/tx-json-pool-panic", fmt.Sprintf("Hash/VerifyTxBody/TxGuard/TxPool panic on a tx with JSON data (%s): %s", class, pmsg), map[string]interface{}{"data": string(tx.Data()), "type": tx.Type()})
			}
		}
	}
	// (6c) ConfirmMsg for unknown blocks at > 10240 distinct heights: ConfirmCache.Push calls Clear while holding its own mutex
	{
		pm, _, vp := c15NewPM(dir)
		sent := int64(0)
		out := c15Stall(&sent, func() string {
			for h := uint32(0); h < 10300; h++ {
				payload := c15Enc(&network.BlockConfirmData{Hash: common.Hash{1}, Height: 100 + h})
				if err := pm.VerifWork(&p2p.Msg{Code: p2p.ConfirmMsg, Content: payload}, vp); err != nil {
					return "err"
				}
				atomic.AddInt64(&sent, 1)
			}
			return "ok"
		})
		c.Count("confirm-flood:" + out)
		if out == "deadlock" {
			c15Fail(c, "c15/confirm-cache-deadlock", fmt.Sprintf("after %d ConfirmMsg (each ~105 bytes) for unknown blocks at distinct heights the next handleConfirmMsg never returns: ConfirmCache.Push -> Clear re-locks the non-reentrant mutex it holds; "+
				"every later handleConfirmMsg and every insertBlock (mergeConfirmsFromCache -> Pop) blocks forever", atomic.LoadInt64(&sent)), map[string]interface{}{"messages": atomic.LoadInt64(&sent)})
		}
	}
	// (6d) BlockCache.Add (rcvBlockLoop, block with unknown parent) at > 10240 distinct heights: same self-deadlock
	{
		bcache := network.NewBlockCache()
		added := int64(0)
		out := c15Stall(&added, func() string {
			for h := uint32(0); h < 10300; h++ {
				bcache.Add(&types.Block{Header: &types.Header{Height: 100 + h}})
				atomic.AddInt64(&added, 1)
			}
			return "ok"
		})
		c.Count("block-flood:" + out)
		if out == "deadlock" {
			c15Fail(c, "c15/block-cache-deadlock", fmt.Sprintf("BlockCache.Add never returns at the %d-th distinct height: Add -> Clear re-locks the mutex it holds; Add is called by rcvBlockLoop for every received block whose parent is unknown, so the block-receiving loop of the node stops for good",
				atomic.LoadInt64(&added)+1), map[string]interface{}{"blocks": atomic.LoadInt64(&added)})
		}
	}
	// (6e) GetBlocksMsg{From, To}: work proportional to To-From, not to the chain
	{
		pm, bc, vp := c15NewPM(dir)
		span := uint32(200000)
		atomic.StoreInt64(&bc.calls, 0)
		start := time.Now()
		pm.VerifRespBlocks(0, span, vp, false)
		calls := atomic.LoadInt64(&bc.calls)
		c.Count("getblocks-span")
		if calls > 4*int64(bc.height+1)+100 {
			c15Fail(c, "c15/getblocks-unbounded-loop", fmt.Sprintf("GetBlocksMsg{From:0,To:%d} on a chain of height %d: respBlocks made %d GetBlockByHeight lookups (%v) after the chain ended; To is a remote-chosen uint32 (up to 4.29e9 => ~4.29e8 futile lookups and log lines per 12-byte request, each request on its own goroutine)",
				span, bc.height, calls, time.Since(start).Round(time.Millisecond)), map[string]interface{}{"from": 0, "to": span, "lookups": calls})
		}
	}

	// (6h) decoded-but-absurd transactions EXECUTED on a real node: pool, miner, deputy-signed block (c15_exec.go)
	c15ExecChecks(c)
	// (7) connection life cycle: deadline, proportion, back-pressure, floods, protocol handshake (c15_conn.go)
	c15ConnChecks(c, dir)
	// (8) T2 inventories + the child's results (c15_sites.go, c15_close.go)
	c15SiteChecks(c)
	c15CloseChecks(c, child)
}

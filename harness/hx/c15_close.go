package main

// C15 — dropping a connection must be safe when several goroutines do it at once.
//
//   (T2)  c15CloseFacts: the AST of the network/p2p sources that were actually compiled into this binary is
//         scanned for every close(….stopCh) and every call of a function that closes it without locking;
//         each site is a row  stmt|function|guard  compared with the Lean table Close.closeSites
//         (`closefacts` / `closefact` op lines; the model answers `table-mismatch` on any difference).
//   (T3)  c15hammer: a child process (an unrecovered panic in Peer.readLoop kills the process — that IS the
//         violation, and the parent turns it into the oracle failure c15/close-race-panic) runs
//           - barrier rounds : 8 goroutines call Peer.Close() on one real Peer (net.Pipe) behind a start barrier
//           - byte rounds    : a real Peer runs Peer.Run(); the remote writes one well-formed frame with an
//                              unassigned code followed by 6 garbage bytes in one write; a consumer does what
//                              ProtocolManager.handlePeer does (ReadMsg, reject, Close) while readLoop closes
//                              on the garbage.

import (
	"fmt"
	"go/ast"
	"go/parser"
	"go/token"
	"net"
	"os"
	"os/exec"
	"path/filepath"
	"reflect"
	"runtime"
	"sort"
	"strconv"
	"strings"
	"sync"
	"sync/atomic"
	"time"

	"github.com/LemoFoundationLtd/lemochain-core/network/p2p"
)

func init() {
	subs["c15hammer"] = c15Hammer
	subs["c15sites"] = func(c *Ctx) { // prints the extracted fact rows (used to write the Lean tables)
		rows, err := c15SiteRows()
		fmt.Println(err)
		for _, r := range rows {
			fmt.Println("SITE", r)
		}
		rows, err = c15CloseFacts()
		fmt.Println(err)
		for _, r := range rows {
			fmt.Println("CLOSE", r)
		}
		rows, err = c15SigOrderFacts()
		fmt.Println(err)
		for _, r := range rows {
			fmt.Println("SIGORDER", r)
		}
	}
}

// ---------------------------------------------------------------- T2: close sites

func c15P2PDir() string {
	f := runtime.FuncForPC(reflect.ValueOf(p2p.NewPeer).Pointer())
	if f == nil {
		return ""
	}
	file, _ := f.FileLine(f.Entry())
	return filepath.Dir(file)
}

// X.wmu.<name>()
func c15IsWmuCall(e ast.Expr, name string) bool {
	call, ok := e.(*ast.CallExpr)
	if !ok {
		return false
	}
	sel, ok := call.Fun.(*ast.SelectorExpr)
	if !ok || sel.Sel.Name != name {
		return false
	}
	inner, ok := sel.X.(*ast.SelectorExpr)
	return ok && inner.Sel.Name == "wmu"
}

type c15Site struct {
	stmt, fn string
	held     bool
	deferred bool
}

// walks a statement list in order, tracking whether wmu is held; nested blocks inherit the current state;
// closures (go / defer func literals) start without the lock
func c15WalkStmts(list []ast.Stmt, held bool, fn string, targets map[string]bool, out *[]c15Site) {
	for _, st := range list {
		switch s := st.(type) {
		case *ast.ExprStmt:
			if c15IsWmuCall(s.X, "Lock") {
				held = true
				continue
			}
			if c15IsWmuCall(s.X, "Unlock") {
				held = false
				continue
			}
			c15ScanExpr(s, held, false, fn, targets, out)
		case *ast.DeferStmt:
			if c15IsWmuCall(s.Call, "Unlock") {
				continue // released at return: the rest of the function runs with the lock
			}
			c15ScanExpr(s, held, true, fn, targets, out)
		case *ast.GoStmt:
			c15ScanExpr(s, false, false, fn, targets, out)
		case *ast.BlockStmt:
			c15WalkStmts(s.List, held, fn, targets, out)
			held = held && !c15Unlocks(s)
		case *ast.IfStmt:
			if s.Init != nil {
				c15WalkStmts([]ast.Stmt{s.Init}, held, fn, targets, out)
			}
			c15ScanExpr(s.Cond, held, false, fn, targets, out)
			c15WalkStmts(s.Body.List, held, fn, targets, out)
			if s.Else != nil {
				c15WalkStmts([]ast.Stmt{s.Else}, held, fn, targets, out)
			}
		case *ast.ForStmt:
			c15WalkStmts(s.Body.List, held, fn, targets, out)
		case *ast.RangeStmt:
			c15WalkStmts(s.Body.List, held, fn, targets, out)
		case *ast.SwitchStmt:
			c15WalkStmts(s.Body.List, held, fn, targets, out)
		case *ast.TypeSwitchStmt:
			c15WalkStmts(s.Body.List, held, fn, targets, out)
		case *ast.SelectStmt:
			c15WalkStmts(s.Body.List, held, fn, targets, out)
		case *ast.CaseClause:
			c15WalkStmts(s.Body, held, fn, targets, out)
		case *ast.CommClause:
			c15WalkStmts(s.Body, held, fn, targets, out)
		case *ast.LabeledStmt:
			c15WalkStmts([]ast.Stmt{s.Stmt}, held, fn, targets, out)
		default:
			c15ScanExpr(st, held, false, fn, targets, out)
		}
		// flow-insensitive but conservative: a compound statement that unlocks on ANY path (not deferred)
		// leaves the lock "not held" for everything after it
		switch st.(type) {
		case *ast.IfStmt, *ast.ForStmt, *ast.RangeStmt, *ast.SwitchStmt, *ast.TypeSwitchStmt, *ast.SelectStmt, *ast.LabeledStmt:
			held = held && !c15Unlocks(st)
		}
	}
}

// does the node contain a non-deferred X.wmu.Unlock() (outside function literals)?
func c15Unlocks(n ast.Node) bool {
	found := false
	ast.Inspect(n, func(x ast.Node) bool {
		switch e := x.(type) {
		case *ast.FuncLit, *ast.DeferStmt:
			return false
		case *ast.ExprStmt:
			if c15IsWmuCall(e.X, "Unlock") {
				found = true
			}
		}
		return !found
	})
	return found
}

// finds close(X.stopCh) and calls of target functions inside a node; function literals are walked as
// closures that do not hold the lock
func c15ScanExpr(n ast.Node, held, deferred bool, fn string, targets map[string]bool, out *[]c15Site) {
	if n == nil {
		return
	}
	ast.Inspect(n, func(x ast.Node) bool {
		switch e := x.(type) {
		case *ast.FuncLit:
			c15WalkStmts(e.Body.List, false, fn, targets, out)
			return false
		case *ast.CallExpr:
			if id, ok := e.Fun.(*ast.Ident); ok && id.Name == "close" && len(e.Args) == 1 {
				if sel, ok := e.Args[0].(*ast.SelectorExpr); ok && sel.Sel.Name == "stopCh" {
					*out = append(*out, c15Site{"close(stopCh)", fn, held, deferred})
				}
			}
			if sel, ok := e.Fun.(*ast.SelectorExpr); ok && targets[sel.Sel.Name] {
				*out = append(*out, c15Site{sel.Sel.Name + "()", fn, held, deferred})
			}
			if id, ok := e.Fun.(*ast.Ident); ok && targets[id.Name] {
				*out = append(*out, c15Site{id.Name + "()", fn, held, deferred})
			}
		}
		return true
	})
}

// rows "stmt|function|guard", sorted
func c15CloseFacts() ([]string, error) {
	dir := c15P2PDir()
	if dir == "" {
		return nil, fmt.Errorf("cannot locate the network/p2p sources")
	}
	fset := token.NewFileSet()
	pkgs, err := parser.ParseDir(fset, dir, func(fi os.FileInfo) bool { return !strings.HasSuffix(fi.Name(), "_test.go") }, 0)
	if err != nil {
		return nil, err
	}
	var funcs []*ast.FuncDecl
	for _, pkg := range pkgs {
		for _, f := range pkg.Files {
			for _, d := range f.Decls {
				if fd, ok := d.(*ast.FuncDecl); ok && fd.Body != nil {
					funcs = append(funcs, fd)
				}
			}
		}
	}
	// pass 1: direct closes; a function that closes without holding the lock delegates the duty to its callers
	var direct []c15Site
	for _, fd := range funcs {
		c15WalkStmts(fd.Body.List, false, fd.Name.Name, map[string]bool{}, &direct)
	}
	targets := map[string]bool{}
	for _, s := range direct {
		if !s.held {
			targets[s.fn] = true
		}
	}
	// pass 2: call sites of those functions
	var calls []c15Site
	for _, fd := range funcs {
		var all []c15Site
		c15WalkStmts(fd.Body.List, false, fd.Name.Name, targets, &all)
		for _, s := range all {
			if s.stmt != "close(stopCh)" {
				calls = append(calls, s)
			}
		}
	}
	var rows []string
	for _, s := range direct {
		g := "via-callers"
		if s.held {
			g = "wmu-held"
		}
		rows = append(rows, s.stmt+"|"+s.fn+"|"+g)
	}
	for _, s := range calls {
		g := "unguarded"
		if s.held && !s.deferred {
			g = "wmu-held"
		} else if targets[s.fn] {
			g = "via-callers" // a delegating function calling another one: its own callers are rows too
		}
		rows = append(rows, s.stmt+"|"+s.fn+"|"+g)
	}
	sort.Strings(rows)
	return rows, nil
}

// ---------------------------------------------------------------- T3: hammer (parent side)

type c15Child struct {
	done   chan struct{}
	out    []byte
	err    error
	rounds int
	procs  int
	cmd    *exec.Cmd
	tmp    string
}

// starts `hx c15hammer` (close hammer, duplicate-connection livelock, goroutine-leak probes) in a child process
func c15StartChild(c *Ctx) *c15Child {
	ch := &c15Child{done: make(chan struct{}), rounds: 60000}
	if c.Tier == "thorough" {
		ch.rounds = 200000
	}
	exe, err := os.Executable()
	if err != nil {
		ch.err = err
		close(ch.done)
		return ch
	}
	ch.tmp, _ = os.MkdirTemp("", "c15hammer")
	ch.procs = runtime.NumCPU()
	if ch.procs < 4 {
		ch.procs = 4
	}
	ch.cmd = exec.Command(exe, "c15hammer", "-n", strconv.Itoa(ch.rounds), "-seed", strconv.FormatInt(c.Seed, 10), "-out", ch.tmp)
	ch.cmd.Env = append(os.Environ(), "GOMAXPROCS="+strconv.Itoa(ch.procs))
	go func() { ch.out, ch.err = ch.cmd.CombinedOutput(); close(ch.done) }()
	return ch
}

func c15CloseChecks(c *Ctx, ch *c15Child) {
	rows, err := c15CloseFacts()
	if err != nil {
		c15Fail(c, "c15/close-facts-unavailable", "cannot extract the close sites from the p2p sources: "+err.Error(), nil)
	}
	c.Op(fmt.Sprintf("closefacts %d", len(rows)), "ok")
	for _, r := range rows {
		c.Op("closefact "+r, "ok")
		c.Count("closefact:" + r)
		if strings.HasSuffix(r, "|unguarded") {
			c15Fail(c, "c15/close-site-unguarded", "network/p2p: "+r+" — stopCh can be closed by two goroutines at once (check-then-act in safeClose): `close of closed channel` kills the node when a connection is dropped from two places", map[string]interface{}{"row": r, "dir": c15P2PDir()})
		}
	}

	select {
	case <-ch.done:
	case <-time.After(6 * time.Minute):
		if ch.cmd != nil && ch.cmd.Process != nil {
			ch.cmd.Process.Kill()
		}
		<-ch.done
		c15Fail(c, "c15/close-hammer-stuck", "the hammer child did not finish within 6 minutes (a closer, readLoop or handlePeer is stuck)", nil)
	}
	if ch.tmp != "" {
		defer os.RemoveAll(ch.tmp)
	}
	rounds, procs, runErr := ch.rounds, ch.procs, ch.err
	out := string(ch.out)
	result := "panicked=false closed=true"
	var lines []string
	for _, l := range strings.Split(out, "\n") {
		if strings.HasPrefix(l, "hammer ") {
			lines = append(lines, l)
			c.Count("hammer:" + strings.Fields(l)[1])
		}
	}
	crashed := runErr != nil && strings.Contains(out, "close of closed channel")
	recovered := strings.Contains(out, "hammer panic ")
	if crashed || recovered {
		result = "panicked=true closed=true"
		detail := "Peer.Close from two goroutines at once: close of closed channel. "
		if crashed {
			detail += "The loser was a goroutine nobody can recover (the child process died, as the node would): " + c15StackExcerpt(out)
		} else {
			detail += strings.Join(lines, "; ")
		}
		c15Fail(c, "c15/close-race-panic", detail, map[string]interface{}{"rounds": rounds, "gomaxprocs": procs,
			"scenario": "frame with unassigned code 0x1f + 6 garbage bytes in one write, consumer closes like handlePeer while readLoop closes on the garbage; and 8 goroutines calling Close behind a barrier"})
	} else if runErr != nil {
		c15Fail(c, "c15/close-hammer-failed", "the hammer child failed: "+runErr.Error()+": "+c15Tail(out, 600), nil)
	}
	if strings.Contains(out, "hammer not-closed") {
		result = strings.Replace(result, "closed=true", "closed=false", 1)
		c15Fail(c, "c15/close-not-closed", "after every closer returned the peer is not closed", nil)
	}
	c.Op("closehammer 8", result)
	for _, l := range lines {
		switch {
		case strings.HasPrefix(l, "hammer dup-livelock"):
			c15Fail(c, "c15/dup-peer-livelock", "Server.run stops for good after a few connections with the same node id: it closes the duplicate on its own goroutine, Close publishes SrvDeletePeer and spins until delPeerCh (capacity 1, drained only by Server.run) takes it — "+l,
				map[string]interface{}{"scenario": "one established connection, then further connections that complete the handshake with the same key"})
		case strings.HasPrefix(l, "hammer handlepeer-leak"):
			c15Fail(c, "c15/handlepeer-goroutine-leak", "connections that the remote drops while idle leave ProtocolManager.handlePeer blocked for ever (handleMsg waits in msgCache.Pop and never sees the reader's error): "+l, nil)
		case strings.HasPrefix(l, "hammer handshake-leak"):
			c15Fail(c, "c15/handshake-timeout-goroutine-leak", "a remote that never answers the protocol handshake leaves the reader goroutine of peer.Handshake blocked on its unbuffered channel after the 8 s timeout: "+l, nil)
		}
	}
}

func c15Tail(s string, n int) string {
	if len(s) > n {
		return s[len(s)-n:]
	}
	return s
}

func c15StackExcerpt(out string) string {
	i := strings.Index(out, "panic: close of closed channel")
	if i < 0 {
		return ""
	}
	ex := out[i:]
	var keep []string
	for _, l := range strings.Split(ex, "\n") {
		if strings.HasPrefix(l, "panic:") || strings.Contains(l, "p2p.(*Peer)") || strings.HasPrefix(l, "created by") {
			keep = append(keep, strings.TrimSpace(l))
		}
		if len(keep) >= 8 {
			break
		}
	}
	return strings.Join(keep, " <- ")
}

// ---------------------------------------------------------------- T3: hammer (child side)

// stopCh is closed iff ReadMsg reports io.EOF once the (at most 10) queued messages are drained
func c15IsClosed(p *p2p.Peer) bool {
	res := make(chan bool, 1)
	go func() {
		for i := 0; i < 12; i++ {
			if _, err := p.ReadMsg(); err != nil {
				res <- true
				return
			}
		}
		res <- false
	}()
	select {
	case ok := <-res:
		return ok
	case <-time.After(5 * time.Second):
		return false
	}
}

func c15Hammer(c *Ctx) {
	key := []byte("0123456789abcdef")
	rounds := c.N
	var panics int32
	var first atomic.Value
	note := func(where string, r int, e interface{}) {
		atomic.AddInt32(&panics, 1)
		first.Store(fmt.Sprintf("hammer panic %s round=%d: %v", where, r, e))
	}

	// (a) barrier: 8 goroutines drop the same peer at the same time
	const closers = 8
	br := 0
	for ; br < rounds && atomic.LoadInt32(&panics) == 0; br++ {
		local, remote := net.Pipe()
		p := p2p.VerifNewPeer(local, key)
		start := make(chan struct{})
		var wg sync.WaitGroup
		for k := 0; k < closers; k++ {
			wg.Add(1)
			go func() {
				defer wg.Done()
				defer func() {
					if e := recover(); e != nil {
						note("barrier", br, e)
					}
				}()
				<-start
				p.Close()
			}()
		}
		close(start)
		wg.Wait()
		remote.Close()
		if !c15IsClosed(p) {
			fmt.Println("hammer not-closed barrier")
		}
	}
	fmt.Printf("hammer barrier rounds=%d panics=%d\n", br, atomic.LoadInt32(&panics))
	if m, _ := first.Load().(string); m != "" {
		fmt.Println(m)
	}
	// the byte scenario runs in any case (it is the remote-only trigger); own counter
	atomic.StoreInt32(&panics, 0)
	first = atomic.Value{}

	// (b) bytes: rejected message + trailing garbage; consumer closes like handlePeer, readLoop closes on the garbage
	attacker := p2p.VerifNewPeer(&c15Conn{}, key)
	frame, err := attacker.VerifPackFrame(p2p.MsgCode(0x1f), []byte{0xc0})
	if err != nil {
		fmt.Println("hammer setup-failed", err)
		os.Exit(3)
	}
	payload := append(append([]byte{}, frame...), 0xde, 0xad, 0xbe, 0xef, 0x00, 0x00)
	yr := 0
	for ; yr < rounds && atomic.LoadInt32(&panics) == 0; yr++ {
		local, remote := net.Pipe()
		p := p2p.VerifNewPeer(local, key)
		runDone := make(chan struct{})
		go func() { p.Run(); close(runDone) }() // readLoop + heartbeatLoop; a panic in there is unrecoverable
		consumerDone := make(chan struct{})
		go func() {
			defer close(consumerDone)
			defer func() {
				if e := recover(); e != nil {
					note("consumer", yr, e)
				}
			}()
			msg, err := p.ReadMsg()
			if err != nil {
				return
			}
			if msg.Code > p2p.GetBlocksWithChangeLogMsg { // ProtocolManager.work: ErrInvalidCode -> handlePeer closes the conn
				runtime.Gosched()
				p.Close()
			}
		}()
		go remote.Write(payload)
		select {
		case <-consumerDone:
		case <-time.After(20 * time.Second):
			fmt.Println("hammer stuck consumer round", yr)
			os.Exit(4)
		}
		select {
		case <-runDone:
		case <-time.After(20 * time.Second):
			fmt.Println("hammer stuck run round", yr)
			os.Exit(4)
		}
		remote.Close()
		if !c15IsClosed(p) {
			fmt.Println("hammer not-closed bytes")
		}
	}
	fmt.Printf("hammer bytes rounds=%d panics=%d\n", yr, atomic.LoadInt32(&panics))
	if m, _ := first.Load().(string); m != "" {
		fmt.Println(m)
	}
	c15ChildLeaks()
	c15ChildDupPeers() // last: on the defect it leaves Server.run spinning until the process exits
}

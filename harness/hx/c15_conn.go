package main

// C15 — life cycle of a connection beyond the byte parser (oracle only):
//   parent side (c15ConnChecks):  deadline before/while handshaking, allocation in proportion to the bytes
//       received, back-pressure of Peer.handle, same-height floods of the confirm / block caches, the protocol
//       handshake and handlePeer on fuzzed ProHandshake payloads
//   child side (quiet process, goroutine counts are meaningful):  goroutine leaks of handlePeer / peer.Handshake,
//       Server.run and duplicate connections

import (
	"crypto/ecdsa"
	"fmt"
	"io"
	"net"
	"os"
	"runtime"
	"sync"
	"sync/atomic"
	"time"

	"github.com/LemoFoundationLtd/lemochain-core/chain/params"
	"github.com/LemoFoundationLtd/lemochain-core/chain/types"
	"github.com/LemoFoundationLtd/lemochain-core/common"
	"github.com/LemoFoundationLtd/lemochain-core/network"
	"github.com/LemoFoundationLtd/lemochain-core/network/p2p"
)

// ---------------------------------------------------------------- helpers

// net.Conn that records whether any deadline was set
type c15RecConn struct {
	net.Conn
	deadlines int32
}

func (c *c15RecConn) SetDeadline(t time.Time) error {
	atomic.AddInt32(&c.deadlines, 1)
	return c.Conn.SetDeadline(t)
}
func (c *c15RecConn) SetReadDeadline(t time.Time) error {
	atomic.AddInt32(&c.deadlines, 1)
	return c.Conn.SetReadDeadline(t)
}
func (c *c15RecConn) SetWriteDeadline(t time.Time) error {
	atomic.AddInt32(&c.deadlines, 1)
	return c.Conn.SetWriteDeadline(t)
}

// a remote as ProtocolManager sees it: queued messages, then silence until it hangs up
type c15Remote struct {
	id     p2p.NodeID
	msgs   chan *p2p.Msg
	closed chan struct{}
	once   sync.Once
}

func c15NewRemote() *c15Remote {
	return &c15Remote{id: p2p.NodeID{9, 9, 9}, msgs: make(chan *p2p.Msg, 8), closed: make(chan struct{})}
}
func (p *c15Remote) ReadMsg() (*p2p.Msg, error) {
	select {
	case m := <-p.msgs:
		return m, nil
	case <-p.closed:
		return nil, io.EOF
	}
}
func (p *c15Remote) WriteMsg(code p2p.MsgCode, msg []byte) error      { return nil }
func (p *c15Remote) SetWriteDeadline(time.Duration)                  {}
func (p *c15Remote) RNodeID() *p2p.NodeID                            { return &p.id }
func (p *c15Remote) RAddress() string                                { return "1.2.3.4:7001" }
func (p *c15Remote) LAddress() string                                { return "127.0.0.1:7001" }
func (p *c15Remote) DoHandshake(*ecdsa.PrivateKey, *p2p.NodeID) error { return nil }
func (p *c15Remote) Run() error                                      { return nil }
func (p *c15Remote) NeedReConnect() bool                             { return false }
func (p *c15Remote) SetStatus(int32)                                 {}
func (p *c15Remote) Close()                                          { p.once.Do(func() { close(p.closed) }) }

func c15HonestProHandshake(pm *network.ProtocolManager, bc *c15Chain) []byte {
	return c15Enc(&network.ProtocolHandshake{ChainID: 1, GenesisHash: bc.Genesis().Hash(), NodeVersion: params.VersionUint(),
		LatestStatus: network.LatestStatus{CurHeight: 3, CurHash: common.Hash{3}, StaHeight: 2, StaHash: common.Hash{2}}})
}

// ---------------------------------------------------------------- parent side

func c15ConnChecks(c *Ctx, dir string) {
	const mib = 1 << 20
	// (a) the pre-handshake reader: a 6-byte prefix declaring MaxPackageLength, then silence
	{
		cli, srv := net.Pipe()
		rc := &c15RecConn{Conn: srv}
		p := p2p.NewPeer(rc)
		done := make(chan error, 1)
		runtime.GC()
		var m0, m1 runtime.MemStats
		runtime.ReadMemStats(&m0)
		go func() { done <- p.DoHandshake(c15Prv, nil) }()
		cli.Write(c15Hdr(params.MaxPackageLength))
		blocked := false
		select {
		case <-done:
		case <-time.After(400 * time.Millisecond):
			blocked = true
		}
		runtime.ReadMemStats(&m1)
		got := m1.TotalAlloc - m0.TotalAlloc
		dl := atomic.LoadInt32(&rc.deadlines)
		cli.Close()
		c.Count(fmt.Sprintf("hs-idle:blocked=%v:deadline=%v", blocked, dl > 0))
		if blocked && dl == 0 {
			c15Fail(c, "c15/handshake-no-deadline", fmt.Sprintf("DoHandshake: after a 6-byte prefix the handshake goroutine waits with NO deadline on the connection (SetDeadline/SetReadDeadline calls: 0) while holding a %d-byte buffer; "+
				"a remote that just keeps the socket open pins it for ever, and listenLoop accepts without limit", got), map[string]interface{}{"stream": c15Hex(c15Hdr(params.MaxPackageLength))})
		}
		// the clause "in proportion to the bytes received": 6 bytes received
		if got > 64*1024 {
			c15Fail(c, "c15/alloc-not-proportional", fmt.Sprintf("6 bytes from an unauthenticated remote (5a48 + length %d) made the node request %d bytes (%d MiB) before a single payload byte arrived — by design of `read the length, then make([]byte, length)` "+
				"in readHandshakeBuf and readConn: the cumulative bound is 2·|received| + 6 + MaxPackageLength per connection (theorem run_alloc_cumulative / alloc_not_proportional), the additive %d MiB is not in proportion to what was received, and the number of connections is not limited",
				params.MaxPackageLength, got, got/mib, params.MaxPackageLength/mib), map[string]interface{}{"stream": c15Hex(c15Hdr(params.MaxPackageLength)), "allocated": got})
		}
	}
	// (b) back-pressure: newMsgCh holds 10 messages; the 11th handle() must wait, and give up when the peer is closed
	{
		conn := &c15Conn{}
		p := p2p.VerifNewPeer(conn, c15Key)
		f := c15Msg(5, []byte{1, 2, 3}, "valid")
		for i := 0; i < 10; i++ {
			if err := p.VerifHandle(f.wire); err != nil {
				c15Fail(c, "c15/harness", "handle refused a valid frame: "+err.Error(), nil)
			}
		}
		res := make(chan error, 1)
		go func() { res <- p.VerifHandle(f.wire) }()
		select {
		case err := <-res:
			c15Fail(c, "c15/handle-backpressure", fmt.Sprintf("the 11th undelivered message did not wait for the consumer (handle returned %v, %d queued)", err, p.VerifPending()), nil)
		case <-time.After(150 * time.Millisecond):
		}
		p.Close()
		select {
		case err := <-res:
			c.Count(fmt.Sprintf("backpressure:released-by-close:%v", err == io.EOF))
			if err != io.EOF {
				c15Fail(c, "c15/handle-backpressure", fmt.Sprintf("handle blocked on a full newMsgCh returned %v after Close, want io.EOF", err), nil)
			}
		case <-time.After(3 * time.Second):
			c15Fail(c, "c15/handle-stuck-after-close", "Peer.handle waiting on a full newMsgCh does not notice that the peer was closed: readLoop (and Run, and runPeer) never finish", nil)
		}
	}
	// (c) caches bounded by the number of HEIGHTS only: a flood at one height that can never become stable
	{
		cc := network.NewConfirmCache()
		const n = 30000
		for i := 0; i < n; i++ {
			var h common.Hash
			h[0], h[1], h[2] = byte(i), byte(i>>8), byte(i>>16)
			cc.Push(&network.BlockConfirmData{Hash: h, Height: 0xFFFFFFFF})
		}
		cc.Clear(1000000) // what stableBlockLoop does with the stable height
		c.Count("confirm-same-height-flood")
		if cc.Size() >= n {
			c15Fail(c, "c15/confirm-cache-unbounded", fmt.Sprintf("%d ConfirmMsg (105 bytes each) for unknown blocks at height 0xFFFFFFFF: ConfirmCache holds %d entries; the size limit counts heights (10240), not entries, and Clear(stable) never reaches that height — retained for the life of the process", n, cc.Size()),
				map[string]interface{}{"messages": n, "height": uint32(0xFFFFFFFF)})
		}
		bc := network.NewBlockCache()
		const nb = 12000
		for i := 0; i < nb; i++ {
			bc.Add(&types.Block{Header: &types.Header{Height: 0xFFFFFFFF, GasUsed: uint64(i)}})
		}
		bc.Clear(1000000)
		c.Count("block-same-height-flood")
		if bc.Size() >= nb {
			c15Fail(c, "c15/block-cache-unbounded", fmt.Sprintf("%d blocks with unknown parents at height 0xFFFFFFFF: BlockCache holds %d blocks (whole bodies); the size limit counts heights (10240), not blocks, and Clear(stable) never reaches that height", nb, bc.Size()),
				map[string]interface{}{"blocks": nb, "height": uint32(0xFFFFFFFF)})
		}
	}
	// (d) the protocol handshake + handlePeer on fuzzed ProHandshake replies (peer.Handshake, Msg.Decode, findSyncFrom, handleMsg)
	{
		pm, bc, _ := c15NewPM(dir)
		c15StartBlockLoop(pm) // the consumer of handleBlocksMsg's 10-slot channel, as in the node
		honest := c15HonestProHandshake(pm, bc)
		for it := 0; it < c.N/4+30; it++ {
			payload, class := honest, "honest"
			code := p2p.ProHandshakeMsg
			switch c.Rnd.Intn(7) {
			case 0:
			case 1:
				payload, class = c15Mutate(c, honest), "mutated"
			case 2:
				payload, class = c15Rand(c, c.Rnd.Intn(120)), "random"
			case 3:
				payload, class = nil, "empty"
			case 4:
				payload, class = c15Payload(c, p2p.ProHandshakeMsg), "typed-random"
			case 5: // far ahead / absurd status: findSyncFrom, syncBlocks
				payload, class = c15Enc(&network.ProtocolHandshake{ChainID: 1, GenesisHash: bc.Genesis().Hash(), NodeVersion: c15U32(c),
					LatestStatus: network.LatestStatus{CurHeight: c15U32(c), CurHash: c15Hash(c), StaHeight: c15U32(c), StaHash: c15Hash(c)}}), "absurd-status"
			case 6: // another message instead of the handshake
				code = p2p.MsgCode(3 + c.Rnd.Intn(12))
				payload, class = c15Payload(c, code), "other-code"
			}
			rp := c15NewRemote()
			rp.msgs <- &p2p.Msg{Code: code, Content: payload, ReceivedAt: time.Now()}
			if c.Rnd.Intn(2) == 0 { // and a first protocol message behind it
				fc := p2p.MsgCode(3 + c.Rnd.Intn(12))
				rp.msgs <- &p2p.Msg{Code: fc, Content: c15Payload(c, fc), ReceivedAt: time.Now()}
			}
			vp := network.VerifNewPeer(rp)
			res := make(chan string, 1)
			go func() {
				o, m := SafeMsg(func() string { pm.VerifHandlePeer(vp); return "returned" })
				if o == "panic" {
					o = "panic: " + m
				}
				res <- o
			}()
			time.Sleep(time.Millisecond)
			rp.Close() // the remote hangs up
			select {
			case o := <-res:
				c.Count("handlepeer:" + class + ":" + firstWord(o))
				if firstWord(o) == "panic:" {
					c15Fail(c, "c15/handlepeer-panic", fmt.Sprintf("handlePeer panics on a %s protocol-handshake reply (code %#x, %d bytes): %s", class, uint32(code), len(payload), o),
						map[string]interface{}{"code": uint32(code), "payload": c15Hex(payload)})
				}
			case <-time.After(3 * time.Second):
				c.Count("handlepeer:" + class + ":stuck")
				c15Fail(c, "c15/handlepeer-goroutine-leak", fmt.Sprintf("handlePeer does not return after the remote hung up (%s reply)", class), map[string]interface{}{"code": uint32(code), "payload": c15Hex(payload)})
			}
		}
	}
}

// ---------------------------------------------------------------- child side

func c15ChildLeaks() {
	c15Keys()
	dir, _ := os.MkdirTemp("", "c15child")
	defer os.RemoveAll(dir)
	pm, bc, _ := c15NewPM(dir)
	honest := c15HonestProHandshake(pm, bc)

	// (1) connections dropped by the remote while idle
	time.Sleep(200 * time.Millisecond)
	before := runtime.NumGoroutine()
	const n = 40
	var returned int32
	for i := 0; i < n; i++ {
		rp := c15NewRemote()
		rp.msgs <- &p2p.Msg{Code: p2p.ProHandshakeMsg, Content: honest, ReceivedAt: time.Now()}
		vp := network.VerifNewPeer(rp)
		go func() { pm.VerifHandlePeer(vp); atomic.AddInt32(&returned, 1) }()
		time.Sleep(3 * time.Millisecond)
		rp.Close()
	}
	time.Sleep(1200 * time.Millisecond)
	after := runtime.NumGoroutine()
	// the defect leaks one goroutine per connection; a few unrelated late starters (metrics arbiter, timers) are not it
	if int(atomic.LoadInt32(&returned)) < n || after-before >= n/2 {
		fmt.Printf("hammer handlepeer-leak connections=%d returned=%d goroutines=%d->%d\n", n, atomic.LoadInt32(&returned), before, after)
	} else {
		fmt.Printf("hammer handlepeer-ok connections=%d goroutines=%d->%d\n", n, before, after)
	}

	// (2) remotes that never answer the protocol handshake (8 s timeout, all in parallel)
	before = runtime.NumGoroutine()
	const m = 12
	var wg sync.WaitGroup
	for i := 0; i < m; i++ {
		rp := c15NewRemote()
		vp := network.VerifNewPeer(rp)
		wg.Add(1)
		go func() { defer wg.Done(); pm.VerifHandlePeer(vp) }()
	}
	wg.Wait()
	time.Sleep(500 * time.Millisecond)
	after = runtime.NumGoroutine()
	if after-before >= m/2 {
		fmt.Printf("hammer handshake-leak silent-connections=%d goroutines=%d->%d\n", m, before, after)
	} else {
		fmt.Printf("hammer handshake-ok silent-connections=%d goroutines=%d->%d\n", m, before, after)
	}
	// unsubscribe: this manager has no peerLoop, and its unbuffered addPeerCh would make the Server.run of the next
	// stage spin on the AddNewPeer notification (a harness artifact, not the duplicate-connection defect)
	pm.Stop()
}

// Server.run with connections that all carry the same node id
func c15ChildDupPeers() {
	dir, _ := os.MkdirTemp("", "c15srv")
	defer os.RemoveAll(dir)
	srv := p2p.NewServer(p2p.Config{PrivateKey: c15Prv, Port: 7999}, p2p.NewDiscoverManager(dir))
	go srv.VerifRun()
	mk := func() p2p.IPeer {
		a, _ := net.Pipe()
		return p2p.VerifNewPeer(a, c15Key) // zero remote id: every connection is "the same node"
	}
	push := func(p p2p.IPeer) bool {
		select {
		case srv.VerifAddPeerCh() <- p:
			return true
		case <-time.After(3 * time.Second):
			return false
		}
	}
	push(mk())
	time.Sleep(50 * time.Millisecond)
	for i := 1; i <= 80; i++ {
		if !push(mk()) {
			fmt.Printf("hammer dup-livelock Server.run stopped consuming addPeerCh after %d duplicate connections\n", i-1)
			return
		}
	}
	fmt.Println("hammer dup-ok 80 duplicate connections handled")
	srv.VerifQuit()
}

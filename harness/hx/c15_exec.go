package main

// C15 — "the same holds for blocks, confirmations and transactions that decode successfully but are
// semantically absurd": decoded-but-absurd transactions are EXECUTED, not only decoded.
//
// Every tx of the family is put on the wire as the RLP a remote would send (a struct with the layout of the
// unexported types.txdata), decoded with p2p.Msg.Decode like handleTxsMsg / handleBlocksMsg do, and then pushed
// through a real node (store, account manager, tx pool, DPoVP) as far as each path goes:
//     gossip : VerifyTxBody -> real TxPool.AddTx / GetTxs
//     miner  : BlockAssembler.MineBlock -> TxProcessor.ApplyTxs            (what the node does at its slot)
//     block  : a block of the in-turn deputy (valid header, TxRoot, miner signature) carrying the tx,
//              BlocksMsg-encoded, Msg.Decode'd, BlockChain.InsertBlock     (what every node does on receipt)
// Any panic is the oracle failure  c15/panic/<slug of the first /repo frame>  with the wire bytes as replay.
//
// (T2) c15SigOrderFacts: in types.recoverSigners the length check lives inside crypto.Ecrecover; the rows
// "statement order inside the loop" are compared with the Lean table Frame.SigGuard.order.

import (
	"crypto/ecdsa"
	"fmt"
	"go/ast"
	"go/parser"
	"go/token"
	"go/types"
	"math/big"
	"path/filepath"
	"runtime/debug"
	"strings"
	"time"

	"github.com/LemoFoundationLtd/lemochain-core/chain/deputynode"
	"github.com/LemoFoundationLtd/lemochain-core/chain/params"
	ctypes "github.com/LemoFoundationLtd/lemochain-core/chain/types"
	"github.com/LemoFoundationLtd/lemochain-core/common"
	"github.com/LemoFoundationLtd/lemochain-core/common/rlp"
	"github.com/LemoFoundationLtd/lemochain-core/network/p2p"
)

// the RLP layout of types.txdata: what a remote peer puts on the wire
type c15WireTx struct {
	Type          uint16
	Version       uint8
	ChainID       uint16
	From          common.Address
	GasPayer      *common.Address `rlp:"nil"`
	Recipient     *common.Address `rlp:"nil"`
	RecipientName string
	GasPrice      *big.Int
	GasLimit      uint64
	GasUsed       uint64
	Amount        *big.Int
	Data          []byte
	Expiration    uint64
	Message       string
	Sigs          [][]byte
	GasPayerSigs  [][]byte
}

type c15ExecCase struct {
	class string
	wire  c15WireTx
	sign  *ecdsa.PrivateKey // re-sign the mutated body with this key (so that execution goes past the signature check)
	post  func(w *c15WireTx) // signature-level mutation applied AFTER signing
}

// runs f; on panic returns the message and the slug of the first frame inside /repo
func c15SafeSite(f func() string) (out, msg, slug string) {
	defer func() {
		if r := recover(); r != nil {
			out, msg = "panic", fmt.Sprint(r)
			slug = "unknown"
			for _, line := range strings.Split(string(debug.Stack()), "\n") {
				const pfx = "github.com/LemoFoundationLtd/lemochain-core/"
				if strings.HasPrefix(line, pfx) {
					fn := strings.TrimPrefix(line, pfx)
					if i := strings.LastIndex(fn, "("); i > 0 {
						fn = fn[:i]
					}
					slug = strings.NewReplacer("/", "-", ".", "-", "(", "", ")", "", "*", "").Replace(fn)
					break
				}
			}
		}
	}()
	return f(), "", ""
}

func c15RandSig(n int, c *Ctx) []byte {
	b := make([]byte, n)
	c.Rnd.Read(b)
	return b
}

func c15ExecFamily(c *Ctx, w *World, now uint64) []c15ExecCase {
	founder := w.FounderKey
	other := detKey("c15-other")
	to := keyAddr(detKey("c15-to"))
	otherAddr := keyAddr(other)
	base := func() c15WireTx {
		gp := keyAddr(founder) // honest txs always carry the gas payer (= sender); a nil one is a wire-only shape, see gaspayer=nil
		return c15WireTx{Type: params.OrdinaryTx, Version: ctypes.TxVersion, ChainID: nodeChainID, From: keyAddr(founder), GasPayer: &gp, Recipient: &to,
			GasPrice: new(big.Int).Set(params.MinGasPrice), GasLimit: 1000000, Amount: big.NewInt(int64(1 + c.Rnd.Intn(1000))),
			Expiration: now + 600 + uint64(c.Rnd.Intn(600)), Message: "c15"}
	}
	var fam []c15ExecCase
	add := func(class string, w c15WireTx, sign *ecdsa.PrivateKey, post func(*c15WireTx)) {
		fam = append(fam, c15ExecCase{class, w, sign, post})
	}
	add("honest", base(), founder, nil)
	// signature lengths (the body is an ordinary valid transfer signed by a funded account, then the signature is cut / padded)
	for _, n := range []int{0, 1, 31, 32, 33, 63, 64, 66, 130} {
		n := n
		add(fmt.Sprintf("sig-len=%d-of-valid", n), base(), founder, func(w *c15WireTx) {
			s := append([]byte{}, w.Sigs[0]...)
			for len(s) < n {
				s = append(s, byte(len(s)))
			}
			w.Sigs = [][]byte{s[:n]}
		})
		add(fmt.Sprintf("sig-len=%d-random", n), base(), nil, func(w *c15WireTx) { w.Sigs = [][]byte{c15RandSig(n, c)} })
		add(fmt.Sprintf("sig-valid+len=%d", n), base(), founder, func(w *c15WireTx) { w.Sigs = append(w.Sigs, c15RandSig(n, c)) })
		// gas payer signatures (reimbursement tx: gas payer differs from the sender)
		add(fmt.Sprintf("gaspayer-sig-len=%d", n), func() c15WireTx { b := base(); b.GasPayer = &otherAddr; return b }(), founder,
			func(w *c15WireTx) { w.GasPayerSigs = [][]byte{c15RandSig(n, c)} })
	}
	add("sigs-empty-list", base(), nil, func(w *c15WireTx) { w.Sigs = [][]byte{} })
	add("sigs-nil", base(), nil, func(w *c15WireTx) { w.Sigs = nil })
	for k := 1; k <= 256; k *= 4 {
		k := k
		add(fmt.Sprintf("sigs-x%d-valid", k), base(), founder, func(w *c15WireTx) {
			s := w.Sigs[0]
			w.Sigs = nil
			for i := 0; i < k; i++ {
				w.Sigs = append(w.Sigs, s)
			}
		})
		add(fmt.Sprintf("sigs-x%d-short", k), base(), nil, func(w *c15WireTx) {
			for i := 0; i < k; i++ {
				w.Sigs = append(w.Sigs, c15RandSig(i%65, c))
			}
		})
		add(fmt.Sprintf("gaspayer-sigs-x%d", k), func() c15WireTx { b := base(); b.GasPayer = &otherAddr; return b }(), founder, func(w *c15WireTx) {
			for i := 0; i < k; i++ {
				w.GasPayerSigs = append(w.GasPayerSigs, c15RandSig(65-i%3, c))
			}
		})
	}
	add("gaspayer=nil-on-wire", base(), founder, func(w *c15WireTx) { w.GasPayer = nil })
	add("sig-65-zero", base(), nil, func(w *c15WireTx) { w.Sigs = [][]byte{make([]byte, 65)} })
	add("sig-65-ff", base(), nil, func(w *c15WireTx) { w.Sigs = [][]byte{bytesOf(0xff, 65)} })
	add("sig-high-s", base(), founder, func(w *c15WireTx) { w.Sigs = [][]byte{malleate(w.Sigs[0])} })
	add("sig-bad-v", base(), founder, func(w *c15WireTx) { s := append([]byte{}, w.Sigs[0]...); s[64] = 9; w.Sigs = [][]byte{s} })
	// amounts, gas, expiration, version, type
	huge := new(big.Int).Lsh(big.NewInt(1), 300)
	max256 := new(big.Int).Sub(new(big.Int).Lsh(big.NewInt(1), 256), big.NewInt(1))
	for _, v := range []struct {
		n string
		f func(*c15WireTx)
	}{
		{"amount=0", func(w *c15WireTx) { w.Amount = big.NewInt(0) }},
		{"amount=2^256-1", func(w *c15WireTx) { w.Amount = max256 }},
		{"amount=2^300", func(w *c15WireTx) { w.Amount = huge }},
		{"gasprice=0", func(w *c15WireTx) { w.GasPrice = big.NewInt(0) }},
		{"gasprice=2^300", func(w *c15WireTx) { w.GasPrice = huge }},
		{"gaslimit=0", func(w *c15WireTx) { w.GasLimit = 0 }},
		{"gaslimit=max", func(w *c15WireTx) { w.GasLimit = ^uint64(0) }},
		{"gasused=max", func(w *c15WireTx) { w.GasUsed = ^uint64(0) }},
		{"gasprice*gaslimit-overflow", func(w *c15WireTx) { w.GasLimit = ^uint64(0); w.GasPrice = max256 }},
		{"expiration=0", func(w *c15WireTx) { w.Expiration = 0 }},
		{"expiration=past", func(w *c15WireTx) { w.Expiration = now - 1 }},
		{"expiration=max", func(w *c15WireTx) { w.Expiration = ^uint64(0) }},
		{"version=0", func(w *c15WireTx) { w.Version = 0 }},
		{"version=255", func(w *c15WireTx) { w.Version = 255 }},
		{"chainid=0", func(w *c15WireTx) { w.ChainID = 0 }},
		{"type=11", func(w *c15WireTx) { w.Type = 11 }},
		{"type=255", func(w *c15WireTx) { w.Type = 255 }},
		{"type=65535", func(w *c15WireTx) { w.Type = 65535 }},
		{"to=nil", func(w *c15WireTx) { w.Recipient = nil }},
		{"to=self", func(w *c15WireTx) { a := w.From; w.Recipient = &a }},
		{"from=zero", func(w *c15WireTx) { w.From = common.Address{} }},
		{"gaspayer=zero", func(w *c15WireTx) { w.GasPayer = &common.Address{} }},
		{"toname-300", func(w *c15WireTx) { w.RecipientName = strings.Repeat("x", 300) }},
		{"message-2000", func(w *c15WireTx) { w.Message = strings.Repeat("m", 2000) }},
		{"data-100k", func(w *c15WireTx) { w.Data = make([]byte, 100000) }},
	} {
		b := base()
		v.f(&b)
		add(v.n, b, founder, nil)
	}
	// data of the wrong shape for the type (every special type, JSON shapes and raw bytes), signed by a funded account
	for typ := uint16(1); typ <= 10; typ++ {
		seen := map[string]bool{}
		for tries := 0; tries < 60 && len(seen) < 9; tries++ {
			data, class := c15JsonData(c, typ, now+600)
			if seen[class] {
				continue
			}
			seen[class] = true
			b := base()
			b.Type = typ
			b.Data = []byte(data)
			switch typ {
			case params.CreateContractTx, params.RegisterTx, params.CreateAssetTx, params.ModifyAssetTx, params.BoxTx:
				b.Recipient = nil
			}
			add(fmt.Sprintf("type%d-data:%s", typ, class), b, founder, nil)
		}
		b := base()
		b.Type = typ
		b.Data = c15Rand(c, 1+c.Rnd.Intn(64))
		add(fmt.Sprintf("type%d-data:random-bytes", typ), b, founder, nil)
	}
	return fam
}

func bytesOf(v byte, n int) []byte {
	b := make([]byte, n)
	for i := range b {
		b[i] = v
	}
	return b
}

// wire struct -> RLP -> *Transaction through p2p.Msg.Decode (the handler's decoder); nil if it does not decode
func c15DecodeWire(ws []c15WireTx) (ctypes.Transactions, []byte) {
	payload, err := rlp.EncodeToBytes(ws)
	if err != nil {
		return nil, nil
	}
	msg := &p2p.Msg{Code: p2p.TxsMsg, Content: payload, ReceivedAt: time.Now()}
	var txs ctypes.Transactions
	if err := msg.Decode(&txs); err != nil {
		return nil, payload
	}
	return txs, payload
}

func c15ExecChecks(c *Ctx) {
	now := uint64(time.Now().Unix())
	w := NewWorld(3, uint32(now)-3600, 10000)
	n := w.NewNode(3)
	defer n.Close()
	defer deputynode.SetSelfNodeKey(c15Prv)
	head := n.BC.CurrentBlock()
	t := uint32(now)

	// an honest empty block of the in-turn deputy: the envelope for the block path
	tmpl, _, err := n.Build(head, t, nil, nil)
	if err != nil || tmpl == nil {
		c15Fail(c, "c15/harness", fmt.Sprintf("cannot build the template block: %v", err), nil)
		return
	}
	minerKey, err := n.InTurn(head, t)
	if err != nil {
		c15Fail(c, "c15/harness", "no deputy in turn: "+err.Error(), nil)
		return
	}

	report := func(path, class, msg, slug string, payload []byte) {
		c15Fail(c, "c15/panic/"+slug, fmt.Sprintf("%s path panics on a transaction that decodes successfully (%s): %s — wire (TxsMsg payload) %s", path, class, msg, c15Hex(payload)),
			map[string]interface{}{"path": path, "class": class, "txsmsg_payload": c15Hex(payload), "chain_id": nodeChainID})
	}

	accepted := 0
	for _, ec := range c15ExecFamily(c, w, now) {
		ws := ec.wire
		// sign the body as given, then apply the signature-level mutation
		if ec.sign != nil {
			if txs, _ := c15DecodeWire([]c15WireTx{ws}); len(txs) == 1 {
				if stx, err := ctypes.MakeSigner().SignTx(txs[0], ec.sign); err == nil {
					ws.Sigs = stx.Sigs()
				}
			}
		}
		if ec.post != nil {
			ec.post(&ws)
		}
		txs, payload := c15DecodeWire([]c15WireTx{ws})
		if len(txs) != 1 {
			c.Count("exec:" + ec.class + ":undecodable")
			continue
		}
		tx := txs[0]

		// gossip: what handleTxsMsg does, with the real pool
		out, msg, slug := c15SafeSite(func() string {
			if err := tx.VerifyTxBody(nodeChainID, now, false); err != nil {
				return "body-rejected"
			}
			if err := n.Pool.AddTx(tx); err != nil {
				return "pool-rejected"
			}
			n.Pool.GetTxs(uint32(now), 10)
			return "pooled"
		})
		c.Count("exec:gossip:" + out)
		if out == "panic" {
			report("gossip (VerifyTxBody/TxPool)", ec.class, msg, slug, payload)
		}

		// miner: the node's slot comes (BlockAssembler.MineBlock -> ApplyTxs)
		out, msg, slug = c15SafeSite(func() string {
			blk, invalid, err := n.Build(head, t, ctypes.Transactions{tx}, nil)
			if err != nil {
				return "mine-error"
			}
			if len(blk.Txs) == 1 {
				return "applied"
			}
			if len(invalid) == 1 {
				return "discarded"
			}
			return "skipped"
		})
		c.Count("exec:miner:" + out)
		if out == "applied" {
			accepted++
		}
		c.Count("exec-class:" + ec.class + ":" + out)
		if out == "panic" {
			report("miner (MineBlock -> ApplyTxs)", ec.class, msg, slug, payload)
		}
		n.Pool.DelTxs(ctypes.Transactions{tx})

		// block: a deputy-signed block carrying the tx, over the wire, into InsertBlock
		out, msg, slug = c15SafeSite(func() string {
			hdr := tmpl.Header // the honest header, field by field (a fresh Header has no cached signer)
			b := &ctypes.Block{Header: &ctypes.Header{ParentHash: hdr.ParentHash, MinerAddress: hdr.MinerAddress, VersionRoot: hdr.VersionRoot, LogRoot: hdr.LogRoot,
				Height: hdr.Height, GasLimit: hdr.GasLimit, GasUsed: hdr.GasUsed, Time: hdr.Time, DeputyRoot: hdr.DeputyRoot, Extra: hdr.Extra}, Txs: ctypes.Transactions{tx}}
			b.Header.TxRoot = b.Txs.MerkleRootSha()
			Resign(b, minerKey)
			pl, err := rlp.EncodeToBytes(ctypes.Blocks{b})
			if err != nil {
				return "unencodable"
			}
			var blocks ctypes.Blocks
			if err := (&p2p.Msg{Code: p2p.BlocksMsg, Content: pl}).Decode(&blocks); err != nil || len(blocks) != 1 {
				return "undecodable"
			}
			if err := n.Insert(blocks[0]); err != nil {
				return "rejected"
			}
			return "inserted"
		})
		c.Count("exec:block:" + out)
		if out == "panic" {
			report("block (BlocksMsg -> InsertBlock -> Process)", ec.class, msg, slug, payload)
		}
		if out == "inserted" { // the head moved: rebuild the envelope on the new head
			head = n.BC.CurrentBlock()
			t = head.Time() + 10
			if tmpl2, _, err := n.Build(head, t, nil, nil); err == nil {
				tmpl = tmpl2
				minerKey, _ = n.InTurn(head, t)
			}
		}
	}
	c.Count("exec-family-run")
	if accepted == 0 {
		c15Fail(c, "c15/harness", "no transaction of the family was applied by the miner path: the node fixture does not execute txs (the honest transfer must be applied)", nil)
	}

	// T2: statement order inside recoverSigners
	rows, err := c15SigOrderFacts()
	if err != nil {
		c15Fail(c, "c15/sigorder-facts-unavailable", err.Error(), nil)
	}
	c.Op(fmt.Sprintf("sigorder %d", len(rows)), "ok")
	for _, r := range rows {
		c.Op("sigorderrow "+r, "ok")
		c.Count("sigorderrow")
	}
}

// rows "index|kind|expression" for, in source order, the call of crypto.Ecrecover on sigs[i] and every slice / index
// expression over sigs[i] inside types.recoverSigners
func c15SigOrderFacts() ([]string, error) {
	dir := c15DirOf(ctypes.MakeSigner)
	if dir == "" {
		return nil, fmt.Errorf("cannot locate chain/types")
	}
	fset := token.NewFileSet()
	f, err := parser.ParseFile(fset, filepath.Join(dir, "tx_signing.go"), nil, 0)
	if err != nil {
		return nil, err
	}
	var rows []string
	for _, d := range f.Decls {
		fd, ok := d.(*ast.FuncDecl)
		if !ok || fd.Name.Name != "recoverSigners" {
			continue
		}
		type item struct {
			pos  token.Pos
			text string
		}
		var items []item
		mentionsSig := func(e ast.Expr) bool { return strings.Contains(strings.ReplaceAll(types.ExprString(e), " ", ""), "sigs[i]") }
		ast.Inspect(fd.Body, func(n ast.Node) bool {
			switch e := n.(type) {
			case *ast.CallExpr:
				if sel, ok := e.Fun.(*ast.SelectorExpr); ok && sel.Sel.Name == "Ecrecover" {
					items = append(items, item{e.Pos(), "call|" + strings.ReplaceAll(types.ExprString(e), " ", "")})
				}
			case *ast.SliceExpr:
				if mentionsSig(e.X) {
					items = append(items, item{e.Pos(), "slice|" + strings.ReplaceAll(types.ExprString(e), " ", "")})
				}
			case *ast.IndexExpr:
				if mentionsSig(e.X) { // sigs[i][64]; sigs[i] itself has X = sigs
					items = append(items, item{e.Pos(), "index|" + strings.ReplaceAll(types.ExprString(e), " ", "")})
				}
			}
			return true
		})
		// source order
		for i := 0; i < len(items); i++ {
			for j := i + 1; j < len(items); j++ {
				if items[j].pos < items[i].pos {
					items[i], items[j] = items[j], items[i]
				}
			}
		}
		for i, it := range items {
			rows = append(rows, fmt.Sprintf("%d|%s", i, it.text))
		}
	}
	if len(rows) == 0 {
		return nil, fmt.Errorf("recoverSigners not found in tx_signing.go")
	}
	return rows, nil
}

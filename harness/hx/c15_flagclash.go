package main

// C15 / C16 (no input crashes the node): a contract whose runtime CODE is byte for byte the leaf node of its own storage trie.
// SetContractCode(keccak(code), code) [flag Code] and the trie commit Put(keccak(blob), blob) [flag Trie] then use the SAME key bytes
// under two flags inside one Manager.Save. Before /repo 14469b9 FileQueue.Index was keyed by the key bytes only and the Done of the
// first record made delIndex panic in the queue goroutine: one valid transaction killed every node that saved the block (found by the
// independent review of round 8, R5-H1, from the flag-clash schedules of the C19 writer-lag model). The scenario runs in a CHILD process
// because the failure mode is the death of the process.

import (
	"bytes"
	"fmt"
	"os"
	"os/exec"
	"strings"
	"time"

	"github.com/LemoFoundationLtd/lemochain-core/chain/types"
	"github.com/LemoFoundationLtd/lemochain-core/common"
	"github.com/LemoFoundationLtd/lemochain-core/store"
	"github.com/LemoFoundationLtd/lemochain-core/store/trie"
)

func init() { subs["c15flagchild"] = c15FlagClashChild }

// c15FlagClash runs the scenario in a child process and judges its survival.
func c15FlagClash(c *Ctx) {
	exe, err := os.Executable()
	if err != nil {
		c.Fail("c15/harness/flag-clash-child", err.Error(), nil)
		return
	}
	tmp, _ := os.MkdirTemp("", "hx-c15flag-")
	defer os.RemoveAll(tmp)
	cmd := exec.Command(exe, "c15flagchild", "-n", "1", "-seed", "1", "-out", tmp)
	var out bytes.Buffer
	cmd.Stdout, cmd.Stderr = &out, &out
	done := make(chan error, 1)
	if err := cmd.Start(); err != nil {
		c.Fail("c15/harness/flag-clash-child", err.Error(), nil)
		return
	}
	go func() { done <- cmd.Wait() }()
	var werr error
	select {
	case werr = <-done:
	case <-time.After(120 * time.Second):
		cmd.Process.Kill()
		werr = fmt.Errorf("timeout")
	}
	text := out.String()
	if werr == nil && strings.Contains(text, "still alive after 3 s") && strings.Contains(text, "insert: <nil>") {
		c.Count("flag-clash:code-equals-own-storage-leaf:node-survives")
		return
	}
	tail := text
	if i := strings.Index(tail, "panic:"); i >= 0 {
		tail = tail[i:]
	}
	if len(tail) > 600 {
		tail = tail[:600]
	}
	c.Fail("c15/panic/file-queue-flag-clash", "a contract whose runtime code is byte for byte the leaf of its own storage trie (init code: SSTORE(0,1), RETURN of the 36-byte leaf blob) was mined and inserted; the node process did not survive saving the block: "+fmt.Sprint(werr)+" :: "+tail, nil)
}

func c15FlagClashChild(c *Ctx) {
	mem, _ := store.NewMemDatabase()
	tdb := store.NewTrieDatabase(mem)
	tr, err := trie.NewSecure(common.Hash{}, tdb, 0)
	if err != nil {
		panic(err)
	}
	var slot common.Hash
	if err := tr.TryUpdate(slot[:], []byte{1}); err != nil {
		panic(err)
	}
	root, err := tr.Commit(nil)
	if err != nil {
		panic(err)
	}
	blob, err := tdb.Node(root)
	if err != nil {
		panic(err)
	}
	fmt.Fprintf(os.Stderr, "leaf blob (%d bytes) %x root %x\n", len(blob), blob, root[:])
	now := uint32(time.Now().Unix())
	w := NewWorld(3, now-600000, 10000)
	n := w.NewNode(3)
	defer n.Close()
	parent := n.BC.CurrentBlock()
	t := parent.Time() + 1
	// init code: SSTORE(0,1); then deploy `blob` as the runtime code
	init := append([]byte{0x60, 0x01, 0x60, 0x00, 0x55}, initCodeFor(blob)...)
	// initCodeFor's CODECOPY offset operand counts from the start of ITS OWN header: shift it by the 5 prefix bytes
	hdrLen := len(initCodeFor(blob)) - len(blob)
	init[5+len(push(int64(len(blob))))+2] = byte(5 + hdrLen)
	tx := txCreate(w.FounderKey, nil, init, TxOpt{Exp: uint64(t) + 100, Msg: "zflag"})
	blk, inv, err := n.Build(parent, t, types.Transactions{tx}, nil)
	fmt.Fprintf(os.Stderr, "built: err=%v invalid=%d txs=%d\n", err, len(inv), len(blk.Txs))
	e := n.Insert(CloneBlock(blk))
	fmt.Fprintf(os.Stderr, "insert: %v\n", e)
	time.Sleep(3 * time.Second) // let the writer goroutines run
	fmt.Fprintf(os.Stderr, "still alive after 3 s\n")
}

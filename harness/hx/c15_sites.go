package main

// C15 (T2): inventory of the operations that can panic in the functions the frame / handshake model covers.
// Every slice expression, index expression, make, panic(...), type assertion and block-cipher call in
//   network/p2p : readConn handle unpackFrame readHandshakeBuf CheckCode
//   common/crypto : AesDecrypt PKCS5UnPadding        common/crypto/ecies : Decrypt symDecrypt
// is a row  function|kind|expression  (extracted from the sources compiled into this binary) and is compared
// with the Lean table Frame.Sites.table, where each row names the model primitive / guard / argument that
// covers it.  A new site (or a changed expression) is a `table-mismatch`: the model has to be revisited.

import (
	"fmt"
	"go/ast"
	"go/parser"
	"go/token"
	"go/types"
	"os"
	"path/filepath"
	"reflect"
	"runtime"
	"sort"
	"strings"

	"github.com/LemoFoundationLtd/lemochain-core/common/crypto"
	"github.com/LemoFoundationLtd/lemochain-core/common/crypto/ecies"
	"github.com/LemoFoundationLtd/lemochain-core/network/p2p"
)

func c15DirOf(fn interface{}) string {
	f := runtime.FuncForPC(reflect.ValueOf(fn).Pointer())
	if f == nil {
		return ""
	}
	file, _ := f.FileLine(f.Entry())
	return filepath.Dir(file)
}

func c15SiteRows() ([]string, error) {
	type scope struct {
		dir   string
		funcs map[string]bool
	}
	scopes := []scope{
		{c15DirOf(p2p.NewPeer), map[string]bool{"readConn": true, "handle": true, "unpackFrame": true, "readHandshakeBuf": true, "CheckCode": true}},
		{c15DirOf(crypto.AesDecrypt), map[string]bool{"AesDecrypt": true, "PKCS5UnPadding": true}},
		{c15DirOf(ecies.Encrypt), map[string]bool{"Decrypt": true, "symDecrypt": true}},
	}
	var rows []string
	for _, sc := range scopes {
		if sc.dir == "" {
			return nil, fmt.Errorf("cannot locate sources")
		}
		fset := token.NewFileSet()
		pkgs, err := parser.ParseDir(fset, sc.dir, func(fi os.FileInfo) bool { return !strings.HasSuffix(fi.Name(), "_test.go") }, 0)
		if err != nil {
			return nil, err
		}
		found := map[string]bool{}
		for _, pkg := range pkgs {
			for _, f := range pkg.Files {
				for _, d := range f.Decls {
					fd, ok := d.(*ast.FuncDecl)
					if !ok || fd.Body == nil || !sc.funcs[fd.Name.Name] {
						continue
					}
					found[fd.Name.Name] = true
					name := fd.Name.Name
					add := func(kind string, e ast.Expr) {
						rows = append(rows, name+"|"+kind+"|"+strings.ReplaceAll(types.ExprString(e), " ", ""))
					}
					ast.Inspect(fd.Body, func(n ast.Node) bool {
						switch e := n.(type) {
						case *ast.SliceExpr:
							add("slice", e)
						case *ast.IndexExpr:
							add("index", e)
						case *ast.TypeAssertExpr:
							add("assert", e)
						case *ast.CallExpr:
							if id, ok := e.Fun.(*ast.Ident); ok && (id.Name == "make" || id.Name == "panic") {
								add(id.Name, e)
							}
							if sel, ok := e.Fun.(*ast.SelectorExpr); ok && (sel.Sel.Name == "CryptBlocks" || sel.Sel.Name == "XORKeyStream" || sel.Sel.Name == "Uint32") {
								add("call", e)
							}
						}
						return true
					})
				}
			}
		}
		for fn := range sc.funcs {
			if !found[fn] {
				rows = append(rows, fn+"|missing|-")
			}
		}
	}
	sort.Strings(rows)
	return rows, nil
}

func c15SiteChecks(c *Ctx) {
	rows, err := c15SiteRows()
	if err != nil {
		c15Fail(c, "c15/site-facts-unavailable", "cannot extract the panic-site inventory: "+err.Error(), nil)
	}
	c.Op(fmt.Sprintf("sitefacts %d", len(rows)), "ok")
	for _, r := range rows {
		c.Op("sitefact "+r, "ok")
		c.Count("sitefact")
	}
}

package main

// C16 — contract execution is sandboxed: bounded by gas, deterministic,
// all-or-nothing, depth <= 1024.
//
// Real EVM (chain/vm) over the real account backend (account.Manager over
// store.ChainDatabase in a temp dir). Direct oracle: determinism, gas bound,
// no panic, exact revert of failed top-level calls, static calls change
// nothing, depth bound. Correspondence: the tracer's per-step resource
// accounting is replayed by the Lean model LemoModel.Evm (driver c16).

import (
	"encoding/base64"
	"encoding/hex"
	"fmt"
	"math/big"
	"os"
	"regexp"
	"sort"
	"strings"

	"github.com/LemoFoundationLtd/lemochain-core/chain/account"
	"github.com/LemoFoundationLtd/lemochain-core/chain/transaction"
	"github.com/LemoFoundationLtd/lemochain-core/chain/types"
	"github.com/LemoFoundationLtd/lemochain-core/chain/vm"
	"github.com/LemoFoundationLtd/lemochain-core/common"
	"github.com/LemoFoundationLtd/lemochain-core/common/crypto"
	"github.com/LemoFoundationLtd/lemochain-core/store"
)

func init() { subs["c16"] = c16 }

type c16World struct {
	dir       string
	db        *store.ChainDatabase
	genesis   common.Hash
	eoa       common.Address
	poor      common.Address
	rewardMgr common.Address
	slots     []common.Address
	gOK       common.Address // genesis contract: SSTORE then STOP
	gFail     common.Address // genesis contract: SSTORE then INVALID
	empties   []common.Address
	txHash    common.Hash
	watch     []common.Address
	// asset scenario (EVM.TransferAssetTx)
	assetCode  common.Hash // divisible asset, issuer = issuer
	assetCode2 common.Hash // indivisible asset
	issuer     common.Address
	holder     common.Address // owns equity of both assets
	longBudget int            // how many over-long traces may still be replayed in full
}

type c16AssetDB struct{ w *c16World }

func (d c16AssetDB) GetAssetCode(code common.Hash) (common.Address, error) {
	if code == d.w.assetCode || code == d.w.assetCode2 {
		return d.w.issuer, nil
	}
	return common.Address{}, fmt.Errorf("asset code not found")
}

func c16Addr(n int64) common.Address { return common.BigToAddress(big.NewInt(n)) }

func newC16World() *c16World {
	dir, err := os.MkdirTemp("", "c16db")
	if err != nil {
		panic(err)
	}
	w := &c16World{dir: dir}
	w.db = store.NewChainDataBase(dir)
	w.eoa = c16Addr(0xca11e4)
	w.poor = c16Addr(0xb00b00)
	w.rewardMgr = c16Addr(0x4e3a4d)
	for i := 0; i < 6; i++ {
		w.slots = append(w.slots, c16Addr(int64(0xc0de00+i)))
	}
	w.gOK = c16Addr(0x600d01)
	w.gFail = c16Addr(0xbad001)
	w.empties = []common.Address{c16Addr(0xe0e001), c16Addr(0xe0e002)}
	w.txHash = common.HexToHash("0x16161616")

	am := account.NewManager(common.Hash{}, w.db)
	am.GetAccount(w.eoa).SetBalance(new(big.Int).Lsh(big.NewInt(1), 100))
	am.GetAccount(w.poor).SetBalance(big.NewInt(5))
	am.GetAccount(w.rewardMgr).SetBalance(big.NewInt(1000000))
	for _, s := range w.slots {
		am.GetAccount(s).SetBalance(big.NewInt(1000))
		am.GetAccount(s).SetStorageState(common.BigToHash(big.NewInt(3)), []byte{9})
	}
	am.GetAccount(w.gOK).SetBalance(big.NewInt(10))
	am.GetAccount(w.gOK).SetCode(types.Code{opPUSH1, 5, opPUSH1, 1, opSSTORE, opSTOP})
	am.GetAccount(w.gFail).SetBalance(big.NewInt(10))
	am.GetAccount(w.gFail).SetCode(types.Code{opPUSH1, 5, opPUSH1, 1, opSSTORE, opINVALID})
	// address collisions by construction: the addresses a CREATE by slot 5 / by `poor` would use exist already
	// (the contract address depends on the creator and the tx hash only)
	for _, creator := range []common.Address{w.slots[5], w.poor} {
		am.GetAccount(crypto.CreateContractAddress(creator, w.txHash)).SetBalance(big.NewInt(1))
	}
	// assets: issuer holds the asset codes, holder owns equity of both
	w.issuer = c16Addr(0x155e01)
	w.holder = c16Addr(0x401de1)
	w.assetCode = common.HexToHash("0xa55e701")
	w.assetCode2 = common.HexToHash("0xa55e702")
	am.GetAccount(w.issuer).SetBalance(big.NewInt(1))
	am.GetAccount(w.holder).SetBalance(big.NewInt(1000))
	for i, code := range []common.Hash{w.assetCode, w.assetCode2} {
		if err := am.GetAccount(w.issuer).SetAssetCode(code, &types.Asset{Category: 1, IsDivisible: i == 0, AssetCode: code, Decimal: 0,
			TotalSupply: big.NewInt(100000), IsReplenishable: true, Issuer: w.issuer, Profile: types.Profile{}}); err != nil {
			panic(err)
		}
		if err := am.GetAccount(w.holder).SetEquityState(code, &types.AssetEquity{AssetCode: code, AssetId: code, Equity: big.NewInt(5000)}); err != nil {
			panic(err)
		}
	}
	if err := am.Finalise(); err != nil {
		panic(err)
	}
	logs := am.GetChangeLogs()
	header := &types.Header{
		MinerAddress: w.eoa,
		TxRoot:       (types.Transactions{}).MerkleRootSha(),
		Height:       0,
		GasLimit:     105000000,
		Time:         1538209751,
		VersionRoot:  am.GetVersionRoot(),
		LogRoot:      logs.MerkleRootSha(),
	}
	block := types.NewBlock(header, nil, logs)
	hash := block.Hash()
	if err := w.db.SetBlock(hash, block); err != nil {
		panic(err)
	}
	if err := am.Save(hash); err != nil {
		panic(err)
	}
	if _, err := w.db.SetStableBlock(hash); err != nil {
		panic(err)
	}
	w.genesis = hash

	w.watch = append(w.watch, w.eoa, w.poor, w.rewardMgr, w.gOK, w.gFail, w.issuer, w.holder, common.Address{})
	w.watch = append(w.watch, w.slots...)
	w.watch = append(w.watch, w.empties...)
	for i := 1; i <= 9; i++ {
		w.watch = append(w.watch, common.BytesToAddress([]byte{byte(i)}))
	}
	for _, s := range append([]common.Address{w.eoa, w.poor, w.rewardMgr, w.gOK, w.gFail}, w.slots...) {
		w.watch = append(w.watch, crypto.CreateContractAddress(s, w.txHash))
	}
	return w
}

func (w *c16World) close() {
	Safe(func() string { w.db.Close(); return "" })
	os.RemoveAll(w.dir)
}

// dump: the observable account state over all addresses a case can touch.
func (w *c16World) dump(am *account.Manager) string {
	var sb strings.Builder
	for _, a := range w.watch {
		acc := am.GetAccount(a)
		code, cerr := acc.GetCode()
		fmt.Fprintf(&sb, "%x:b=%s,c=%x/%v,s=%v", a[len(a)-4:], acc.GetBalance(), crypto.Keccak256(code)[:4], cerr != nil, acc.GetSuicide())
		keys := []common.Hash{}
		for k := int64(0); k < 8; k++ {
			keys = append(keys, common.BigToHash(big.NewInt(k)))
		}
		keys = append(keys, a.Hash())
		for i, k := range keys {
			v, err := acc.GetStorageState(k)
			if err != nil || len(v) > 0 {
				if len(v) > 8 {
					v = crypto.Keccak256(v)[:8]
				}
				fmt.Fprintf(&sb, ",%d=%x/%v", i, v, err != nil)
			}
		}
		for i, code := range []common.Hash{w.assetCode, w.assetCode2} {
			if eq, err := acc.GetEquityState(code); err == nil && eq != nil && eq.Equity != nil {
				fmt.Fprintf(&sb, ",q%d=%s", i, eq.Equity)
			}
			if a == w.issuer {
				if ts, err := acc.GetAssetCodeTotalSupply(code); err == nil && ts != nil {
					fmt.Fprintf(&sb, ",t%d=%s", i, ts)
				}
			}
		}
		sb.WriteByte(';')
	}
	return sb.String()
}

type c16Case struct {
	Kind   string            `json:"kind"`  // generator class
	Entry  string            `json:"entry"` // call | static | create
	Caller common.Address    `json:"-"`
	Target common.Address    `json:"-"`
	Codes  map[string]string `json:"codes"` // slot address hex -> code hex
	Input  string            `json:"input"` // hex: call data or init code
	Gas    uint64            `json:"gas"`
	Value  uint64            `json:"value"`
	CallerS string           `json:"caller"`
	TargetS string           `json:"target"`
	Prelude bool             `json:"prelude"` // an earlier successful call in the same block (its changes must survive)
	AssetTx string           `json:"assetTx"` // entry "asset": the TransferAsset JSON
	codes  map[common.Address][]byte
	input  []byte
	assetTx []byte
	maxTrace int
}

func (cs *c16Case) fill() {
	cs.Codes = map[string]string{}
	for a, c := range cs.codes {
		cs.Codes[a.Hex()] = hex.EncodeToString(c)
	}
	cs.Input = hex.EncodeToString(cs.input)
	cs.AssetTx = string(cs.assetTx)
	cs.CallerS = cs.Caller.Hex()
	cs.TargetS = cs.Target.Hex()
}

type c16Result struct {
	ret      string
	gasLeft  uint64
	err      string
	panicMsg string
	pre      string
	post     string
	logsPre  int
	logsPost int
	prefixOK bool // the change logs that existed before the call are still there, untouched
	newLogs  []string
	created  common.Address
	nonVM    string // TransferAssetTx: the non-VM error
	newTypes []int  // ChangeLogTypes of the logs the call left behind
	am       *account.Manager
}

var c16Digits = regexp.MustCompile(`[0-9]+`)
var c16NonWord = regexp.MustCompile(`[^a-z]+`)

func c16Slug(s string) string {
	s = strings.ToLower(s)
	s = c16Digits.ReplaceAllString(s, "")
	s = c16NonWord.ReplaceAllString(s, "-")
	s = strings.Trim(s, "-")
	if len(s) > 48 {
		s = s[:48]
	}
	return s
}

func c16Err(err error) string {
	if err == nil {
		return "nil"
	}
	m := err.Error()
	switch {
	case m == "out of gas":
		return "oog"
	case strings.HasPrefix(m, "invalid opcode"):
		return "invalid"
	case strings.HasPrefix(m, "stack underflow"):
		return "underflow"
	case strings.HasPrefix(m, "stack limit reached"):
		return "overflow"
	case m == "evm: write protection":
		return "writeprot"
	case m == "gas uint64 overflow":
		return "gasoverflow"
	case m == "evm: execution reverted":
		return "revert"
	case strings.HasPrefix(m, "invalid jump destination"):
		return "exec"
	case m == "evm: return data out of bounds":
		return "exec"
	case m == "max call depth exceeded":
		return "depth"
	case m == "insufficient balance for transfer":
		return "balance"
	case m == "contract address collision":
		return "collision"
	case m == "evm: max code size exceeded":
		return "codesize"
	case m == "contract creation code storage out of gas":
		return "codestore"
	case m == "no permission to call this Precompiled contract":
		return "termreward"
	}
	return "other:" + c16Slug(m)
}

func (w *c16World) newEVM(am vm.AccountManager, cfg vm.Config) *vm.EVM {
	ctx := vm.Context{
		CanTransfer:  transaction.CanTransfer,
		Transfer:     transaction.Transfer,
		GetHash:      func(n uint32) common.Hash { return common.BigToHash(big.NewInt(int64(n) + 77)) },
		TxIndex:      1,
		TxHash:       w.txHash,
		BlockHash:    common.HexToHash("0xb10c"),
		Origin:       w.eoa,
		GasPrice:     big.NewInt(1000000000),
		MinerAddress: w.eoa,
		GasLimit:     105000000,
		BlockHeight:  1000,
		Time:         1538300000,
	}
	cfg.RewardManager = w.rewardMgr
	return vm.NewEVM(ctx, am, cfg)
}

// run executes one case from a fresh state. tr may be nil (untraced).
func (w *c16World) run(cs *c16Case, tr *c16Tracer) (res c16Result) {
	am := account.NewManager(w.genesis, w.db)
	for _, s := range append(append([]common.Address{}, w.slots...), w.rewardMgr) { // deterministic order
		if code, ok := cs.codes[s]; ok {
			am.GetAccount(s).SetCode(code)
		}
	}
	cfg := vm.Config{}
	if tr != nil {
		tr.am = am
		cfg.Debug = true
		cfg.Tracer = tr
	}
	if cs.Prelude {
		// "an earlier transaction of the same block": value to a contract that writes storage, plus direct writes
		pe := w.newEVM(am, vm.Config{})
		if _, _, err := pe.Call(vm.AccountRef(w.eoa), w.gOK, nil, 100000, big.NewInt(3)); err != nil {
			panic("prelude failed: " + err.Error())
		}
		am.GetAccount(w.slots[1]).SetStorageState(common.BigToHash(big.NewInt(6)), []byte{0x66})
		am.GetAccount(w.slots[0]).SetBalance(big.NewInt(1234))
	}
	evm := w.newEVM(am, cfg)
	res.am = am
	res.pre = w.dump(am)
	before := append([]*types.ChangeLog{}, am.GetChangeLogs()...)
	res.logsPre = len(before)
	if tr != nil {
		tr.evm = evm
		tr.begin(w, cs, am)
	}
	value := new(big.Int).SetUint64(cs.Value)
	func() {
		defer func() {
			if r := recover(); r != nil {
				res.panicMsg = fmt.Sprint(r)
				res.err = "panic"
			}
		}()
		var ret []byte
		var err error
		switch cs.Entry {
		case "call":
			ret, res.gasLeft, err = evm.Call(vm.AccountRef(cs.Caller), cs.Target, cs.input, cs.Gas, value)
		case "static":
			ret, res.gasLeft, err = evm.StaticCall(vm.AccountRef(cs.Caller), cs.Target, cs.input, cs.Gas)
		case "create":
			ret, res.created, res.gasLeft, err = evm.Create(vm.AccountRef(cs.Caller), cs.input, cs.Gas, value)
		case "asset":
			var nonVM error
			ret, res.gasLeft, nonVM, err = evm.TransferAssetTx(vm.AccountRef(cs.Caller), cs.Target, cs.Gas, cs.assetTx, c16AssetDB{w})
			if nonVM != nil {
				res.nonVM = c16Slug(nonVM.Error())
			}
		}
		if len(ret) > 64 {
			ret = append(append([]byte{}, ret[:32]...), crypto.Keccak256(ret)...)
		}
		res.ret = hex.EncodeToString(ret)
		res.err = c16Err(err)
	}()
	func() {
		defer func() {
			if r := recover(); r != nil {
				res.post = "dump-panic:" + fmt.Sprint(r)
			}
		}()
		res.post = w.dump(am)
	}()
	after := am.GetChangeLogs()
	res.logsPost = len(after)
	res.prefixOK = len(after) >= len(before)
	if res.prefixOK {
		for i := range before {
			if before[i] != after[i] {
				res.prefixOK = false
			}
		}
		for _, l := range after[len(before):] {
			res.newLogs = append(res.newLogs, fmt.Sprintf("%d@%x", l.LogType, l.Address[len(l.Address)-3:]))
			res.newTypes = append(res.newTypes, int(l.LogType))
		}
	}
	if tr != nil {
		tr.finish(res)
	}
	return res
}

func (r c16Result) key() string {
	return fmt.Sprintf("ret=%s gas=%d err=%s nonvm=%s panic=%s post=%s logs=%d %v", r.ret, r.gasLeft, r.err, r.nonVM, c16Slug(r.panicMsg), r.post, r.logsPost, r.newLogs)
}

func (w *c16World) genCase(c *Ctx, g *c16Gen, iter int) *c16Case {
	r := c.Rnd
	cs := &c16Case{codes: map[common.Address][]byte{}, Caller: w.eoa, Target: w.slots[0], Entry: "call", maxTrace: 700}
	gases := []uint64{0, uint64(r.Intn(200)), uint64(r.Intn(3000)), uint64(2000 + r.Intn(30000)), 100000, 300000, 1000000, 5000000}
	cs.Gas = gases[r.Intn(len(gases))]
	cs.Value = []uint64{0, 0, 0, 1, 77, 1 << 62}[r.Intn(6)]
	n := r.Intn(19)
	if r.Intn(3) == 0 {
		cs.input = make([]byte, r.Intn(100))
		r.Read(cs.input)
	}
	switch {
	case n == 0:
		cs.Kind = "random-bytes"
		cs.codes[w.slots[0]] = g.randomBytes()
	case n == 1:
		cs.Kind = "opcode-soup"
		cs.codes[w.slots[0]] = g.opcodeSoup()
	case n == 2:
		cs.Kind = "precompile-direct"
		cs.Target = common.BytesToAddress([]byte{byte(1 + r.Intn(9))})
		cs.input = c16PrecompileInput(r, cs.Target[len(cs.Target)-1])
		if r.Intn(2) == 0 {
			cs.Caller = w.rewardMgr
		}
		if cs.Value > 1000000 {
			cs.Value = 0
		}
	case n == 3:
		cs.Kind = "precompile-via-contract"
		// copy call data to memory, call the precompile with chosen gas, then a random terminal
		pa := common.BytesToAddress([]byte{byte(1 + r.Intn(9))})
		cs.input = c16PrecompileInput(r, pa[len(pa)-1])
		a := &asm{}
		a.op(opCALLDATASIZE).push(0).push(0).op(opCALLDATACOPY)
		op := c16CallOps[r.Intn(len(c16CallOps))]
		a.push(64).push(0).op(opCALLDATASIZE).push(0)
		if op == opCALL || op == opCALLCODE {
			a.push(g.valueArg())
		}
		a.pushAddr(pa).pushBig(g.callGasArg()).op(op, opPOP)
		g.randTerminal(a)
		cs.codes[w.slots[0]] = a.b
		if r.Intn(3) == 0 {
			// make the contract itself the reward manager's delegate: call from rewardMgr
			cs.Caller = w.rewardMgr
			if cs.Value > 1000000 {
				cs.Value = 0
			}
		}
	case n == 4:
		cs.Kind = "create-top"
		cs.Entry = "create"
		if r.Intn(5) == 0 {
			cs.Caller = w.poor // its contract address is taken: collision
			if cs.Value > 5 {
				cs.Value = 0
			}
		}
		cs.input = g.initcode()
		if r.Intn(3) == 0 {
			cs.input = g.program(2)
		}
	case n == 5:
		cs.Kind = "journal-witness-shape"
		// value to a failing callee, value to a succeeding callee, then a terminal
		fail := []common.Address{w.gFail, w.slots[1]}[r.Intn(2)]
		ok := []common.Address{w.gOK, w.slots[2], w.empties[0]}[r.Intn(3)]
		ta := &asm{}
		g.terminal(ta, []int{2, 3}[r.Intn(2)])
		cs.codes[w.slots[1]] = ta.b
		cs.codes[w.slots[2]] = []byte{opSTOP}
		cs.codes[w.slots[0]] = g.journalWitness(fail, ok, []int{0, 2, 3, 5}[r.Intn(4)])
		cs.Gas = 1000000
	case n == 6 && iter%8 == 0:
		cs.Kind = "self-recursive"
		op := c16CallOps[r.Intn(len(c16CallOps))]
		cs.codes[w.slots[0]] = g.selfRecursive(op, w.slots[0], r.Intn(2) == 0)
		cs.Gas = 1 << 52
		cs.Value = 0
	case n == 16:
		// an executed jump in a code ending with PUSHn (+ t immediate bytes), every length mod 8: the lazily built
		// jump-destination bitmap is built inside opJump / opJumpi. Half of the time the code is reached through a
		// nested call of any kind first (the callee's analysis lands in the caller's destinations map).
		cs.Kind = "jump-tail"
		pn := 1 + r.Intn(32)
		if r.Intn(3) == 0 {
			pn = 32
		}
		pt := 0
		if r.Intn(3) == 0 {
			pt = r.Intn(pn + 1)
		}
		if r.Intn(2) == 0 {
			cs.codes[w.slots[0]] = g.jumpTail(pn, pt, r.Intn(8), r.Intn(7))
		} else {
			cs.codes[w.slots[1]] = g.jumpTail(pn, pt, r.Intn(8), r.Intn(7))
			a := &asm{}
			g.callStmt(a, c16CallOps[r.Intn(len(c16CallOps))], w.slots[1], big.NewInt(200000), 0, r.Intn(4))
			cs.codes[w.slots[0]] = g.jumpTailInto(a, 1+r.Intn(32), 0, r.Intn(8), r.Intn(7))
		}
		if r.Intn(4) == 0 {
			// the same bytes as init code (Create keys the map by keccak(code))
			cs.Entry = "create"
			cs.input = cs.codes[w.slots[0]]
		}
		cs.Gas = []uint64{100000, 1000000, uint64(r.Intn(300))}[r.Intn(3)]
	case n == 17 || n == 18:
		code, input, callee, kind := g.boundary(r.Intn(8))
		cs.Kind = "boundary:" + kind
		cs.codes[w.slots[0]] = code
		if callee != nil {
			cs.codes[w.slots[1]] = callee
		}
		cs.input = input
		cs.Gas = []uint64{1000000, 1000000, 100000, uint64(r.Intn(4000))}[r.Intn(4)]
		if kind == "stack-limit" {
			cs.Gas = 1000000
			cs.maxTrace = 1100
		}
		if r.Intn(5) == 0 {
			cs.Entry = "create"
			cs.input = code
		}
	default:
		cs.Kind = "nested"
		for i := len(w.slots) - 1; i >= 0; i-- {
			if i == 0 || r.Intn(3) != 0 {
				cs.codes[w.slots[i]] = g.program(len(w.slots) - 1 - i)
			}
		}
		if r.Intn(6) == 0 {
			cs.Caller = w.poor
		}
	}
	if r.Intn(7) == 0 && cs.Entry == "call" {
		cs.Entry = "static"
		cs.Value = 0
	}
	if r.Intn(9) == 0 && cs.Entry == "call" && cs.Kind != "self-recursive" {
		// the same contracts entered through EVM.TransferAssetTx
		cs.Entry = "asset"
		cs.Kind = "asset:" + cs.Kind
		cs.Value = 0
		cs.Caller = w.holder
		cs.assetTx = w.assetTxData(r, cs.input)
		switch r.Intn(8) {
		case 0:
			cs.Target = common.Address{} // destroy the asset
		case 1:
			cs.Target = w.holder // to == from
		case 2:
			cs.Target = w.empties[0]
		case 3:
			cs.Caller = w.eoa // owns no equity
		}
	}
	cs.Prelude = r.Intn(2) == 0
	cs.fill()
	return cs
}

// assetTxData: the JSON payload of a TransferAssetTx (mostly valid)
func (w *c16World) assetTxData(r interface{ Intn(int) int }, input []byte) []byte {
	id := w.assetCode
	switch r.Intn(6) {
	case 0:
		id = w.assetCode2
	case 1:
		id = common.HexToHash("0xdead")
	}
	amount := []string{"0", "1", "77", "5000", "5001", "100000000"}[r.Intn(6)]
	switch r.Intn(12) {
	case 0:
		return []byte(`{"assetId":"` + id.Hex() + `"}`)
	case 1:
		return []byte(`not json`)
	}
	return []byte(fmt.Sprintf(`{"assetId":"%s","transferAmount":"%s","input":"%s"}`, id.Hex(), amount, base64.StdEncoding.EncodeToString(input)))
}

func c16PrecompileInput(r interface {
	Intn(int) int
	Read([]byte) (int, error)
}, which byte) []byte {
	var in []byte
	switch r.Intn(4) {
	case 0:
		in = make([]byte, r.Intn(40))
	case 1:
		in = make([]byte, []int{32, 64, 96, 128, 192, 384}[r.Intn(6)])
	default:
		in = make([]byte, r.Intn(260))
	}
	r.Read(in)
	switch which {
	case 5: // modexp: small length headers most of the time
		if len(in) >= 96 && r.Intn(4) != 0 {
			for i := 0; i < 96; i++ {
				if i%32 != 31 {
					in[i] = 0
				} else {
					in[i] = byte(r.Intn(40))
				}
			}
		}
	case 6, 7, 8: // bn256: sometimes valid points (generator (1,2)) / zeros
		if r.Intn(2) == 0 {
			for i := range in {
				in[i] = 0
			}
			if len(in) >= 64 && r.Intn(2) == 0 {
				in[31] = 1
				in[63] = 2
			}
		}
	case 9:
		switch r.Intn(4) {
		case 0:
			in = []byte(fmt.Sprintf(`{"term":%d,"value":"%d"}`, r.Intn(3), r.Intn(1000000)))
		case 1:
			in = []byte(fmt.Sprintf(`{"term":%d}`, r.Intn(3)))
		case 2:
			in = []byte(fmt.Sprintf(`{"term":"0x%x","value":"%d000000000000000000"}`, r.Intn(3), r.Intn(1000000)))
		}
	}
	return in
}

func c16(c *Ctx) {
	w := newC16World()
	defer w.close()
	g := &c16Gen{r: c.Rnd, w: w, count: c.Count}

	// the opcode table as the code derives it (+ baked-table regeneration when asked)
	c16EmitTable(c, w)
	// jump-destination analysis, getData, Memory: the real functions against LemoModel.JumpAnalysis
	c16JumpPhase(c, w)
	// memory ranges: the real memorySize / gasCost / execute functions and the real Run against LemoModel.MemRange
	c16MemRangePhase(c, w)
	// length-driven precompiles, executed in a memory-capped child process
	g.adv = c16PrePhase(c, w) // adversarial memory operands also in the in-process generator, but only if the child found them harmless
	w.longBudget = 12
	if c.Tier == "thorough" {
		w.longBudget = 120
	}

	for _, cs := range w.fixedCases(g) {
		c16RunCase(c, w, cs)
	}
	for iter := 0; iter < c.N; iter++ {
		c16RunCase(c, w, w.genCase(c, g, iter))
	}
}

// fixedCases: hand-made witnesses that every run replays (independent of the seed).
func (w *c16World) fixedCases(g *c16Gen) []*c16Case {
	mk := func(kind, entry string, gas, value uint64, codes map[common.Address][]byte) *c16Case {
		cs := &c16Case{Kind: kind, Entry: entry, Caller: w.eoa, Target: w.slots[0], Gas: gas, Value: value, codes: codes, maxTrace: 700}
		return cs
	}
	var out []*c16Case
	// value to a failing callee, value to a succeeding callee, then fail (journal version counters, C07)
	for _, term := range []int{2, 3} {
		out = append(out, mk("fixed:value-fail-value-ok-fail", "call", 1000000, 0, map[common.Address][]byte{
			w.slots[0]: g.journalWitness(w.gFail, w.gOK, term),
		}))
	}
	// callee (deployed in this block) self-destructs, caller reverts
	a := &asm{}
	g.callStmt2(a, w.slots[1], 0)
	a.push(0).push(0).op(opREVERT)
	out = append(out, mk("fixed:selfdestruct-then-revert", "call", 1000000, 0, map[common.Address][]byte{
		w.slots[0]: a.b,
		w.slots[1]: (&asm{}).pushAddr(w.eoa).op(opSELFDESTRUCT).b,
	}))
	// same with a contract whose code is already stored in the database
	b := &asm{}
	b.push(0).push(0).push(0).push(0).pushAddr(w.gOK).push(100000).op(opDELEGATECALL, opPOP)
	out = append(out, mk("fixed:nested-ok-then-invalid", "call", 1000000, 5, map[common.Address][]byte{
		w.slots[0]: append(b.b, opINVALID),
	}))
	// static call into the state-writing reward precompile by the reward manager
	st := mk("fixed:static-reward-precompile", "static", 100000, 0, nil)
	st.Caller = w.rewardMgr
	st.Target = common.BytesToAddress([]byte{9})
	st.input = []byte(`{"term":"0x2","value":"835732000000000000000000"}`)
	out = append(out, st)
	// the reward manager is a contract: STATICCALL to the reward precompile (must be refused), then a
	// plain CALL to it (writes), then optionally fail
	for _, term := range []int{0, 3} {
		ra := &asm{}
		ra.op(opCALLDATASIZE).push(0).push(0).op(opCALLDATACOPY)
		ra.push(32).push(0).op(opCALLDATASIZE).push(0).pushAddr(common.BytesToAddress([]byte{9})).push(50000).op(opSTATICCALL, opPOP)
		ra.push(32).push(0).op(opCALLDATASIZE).push(0).push(0).pushAddr(common.BytesToAddress([]byte{9})).push(50000).op(opCALL, opPOP)
		g.terminal(ra, term)
		rc := mk("fixed:reward-manager-contract", "call", 1000000, 0, map[common.Address][]byte{w.rewardMgr: ra.b})
		rc.Target = w.rewardMgr
		rc.input = []byte(`{"term":"0x2","value":"835732000000000000000000"}`)
		out = append(out, rc)
		st2 := mk("fixed:reward-manager-contract", "static", 1000000, 0, map[common.Address][]byte{w.rewardMgr: ra.b})
		st2.Target = w.rewardMgr
		st2.input = rc.input
		out = append(out, st2)
	}
	// plain call of the reward precompile by the reward manager (writes storage)
	pc := mk("fixed:reward-precompile-call", "call", 100000, 0, nil)
	pc.Caller = w.rewardMgr
	pc.Target = common.BytesToAddress([]byte{9})
	pc.input = []byte(`{"term":"0x2","value":"835732000000000000000000"}`)
	out = append(out, pc)
	// a static call whose code makes a zero-value CALL to a failing contract: the platform's TopicRunFail
	// event survives the (successful) static call
	sf := &asm{}
	sf.push(0).push(0).push(0).push(0).push(0).pushAddr(w.gFail).push(50000).op(opCALL, opPOP, opSTOP)
	sfc := mk("fixed:static-inner-call-fails", "static", 200000, 0, map[common.Address][]byte{w.slots[0]: sf.b})
	out = append(out, sfc)
	// CREATE from slot 5: the target address exists (collision): all gas handed to the create is lost, no event
	col := &asm{}
	col.push(0).push(0).push(0).op(opCREATE, opPOP).push(1).push(0).op(opSSTORE, opSTOP)
	colc := mk("fixed:create-collision", "call", 1000000, 0, map[common.Address][]byte{w.slots[5]: col.b})
	colc.Target = w.slots[5]
	out = append(out, colc)
	// CREATE recursion down to the depth limit: the init code copies itself to memory and CREATEs it
	cr := &asm{}
	cr.op(0x38 /*CODESIZE*/).push(0).push(0).op(opCODECOPY)
	cr.op(0x38).push(0).push(0).op(opCREATE, opPOP, opSTOP)
	crc := mk("fixed:create-recursive", "create", 1<<53, 0, nil)
	crc.input = cr.b
	crc.maxTrace = 14000
	out = append(out, crc)
	// MaxCodeSize boundary: exactly 24576 bytes is stored, 24577 is refused
	for _, n := range []uint64{24576, 24577} {
		ia := &asm{}
		ia.push(n).push(0).op(opRETURN)
		ic := mk("fixed:create-maxcodesize", "create", 10000000, 0, nil)
		ic.input = ia.b
		out = append(out, ic)
		ic2 := mk("fixed:create-maxcodesize", "create", 4000000, 0, nil) // not enough for the deposit (200 gas/byte)
		ic2.input = ia.b
		out = append(out, ic2)
	}
	// EVM.TransferAssetTx: recipient code succeeds / fails / reverts; destroy; indivisible; bad payloads
	for i, tgt := range []common.Address{w.gOK, w.gFail, w.slots[0], w.empties[0], {}, w.holder} {
		for _, amt := range []string{"0", "77", "5001"} {
			ac := mk("fixed:asset", "asset", 200000, 0, map[common.Address][]byte{w.slots[0]: {opPUSH1, 9, opPUSH1, 2, opSSTORE, opPUSH1, 0, opPUSH1, 0, opREVERT}})
			ac.Caller = w.holder
			ac.Target = tgt
			code := w.assetCode
			if i%2 == 1 {
				code = w.assetCode2
			}
			ac.assetTx = []byte(fmt.Sprintf(`{"assetId":"%s","transferAmount":"%s","input":""}`, code.Hex(), amt))
			out = append(out, ac)
		}
	}
	// every PUSHn as the last opcode of a code of every length mod 8, reached by an executed jump (the bitmap is built
	// inside opJump / opJumpi); PUSH32 as the very last byte with every variant at every residue; the same as init code
	for n := 1; n <= 32; n++ {
		for res := 0; res < 8; res++ {
			t := 0
			if (n+res)%3 == 0 {
				t = n / 2
			}
			out = append(out, mk("fixed:jump-tail", "call", 100000, 0, map[common.Address][]byte{w.slots[0]: g.jumpTail(n, t, res, (n+res)%7)}))
		}
	}
	for res := 0; res < 8; res++ {
		for v := 0; v < 7; v++ {
			out = append(out, mk("fixed:jump-tail-push32-last", "call", 100000, 0, map[common.Address][]byte{w.slots[0]: g.jumpTail(32, 0, res, v)}))
		}
		ic := mk("fixed:jump-tail-initcode", "create", 200000, 0, nil)
		ic.input = g.jumpTail(32, 0, res, res%7)
		out = append(out, ic)
		sc := mk("fixed:jump-tail-static", "static", 100000, 0, map[common.Address][]byte{w.slots[0]: g.jumpTail(32, 0, res, 1)})
		out = append(out, sc)
	}
	// the 8-byte witness of the allocation slack (PUSH1 3 JUMP JUMPDEST STOP STOP STOP PUSH32)
	out = append(out, mk("fixed:jump-tail-witness", "call", 100000, 0, map[common.Address][]byte{w.slots[0]: {0x60, 0x03, 0x56, 0x5b, 0x00, 0x00, 0x00, 0x7f}}))
	// interpreter index arithmetic at its boundaries: four programs of every sub-family
	for which := 0; which < 8; which++ {
		for k := 0; k < 4; k++ {
			code, input, callee, kind := g.boundary(which)
			bc := mk("fixed:boundary:"+kind, "call", 1000000, 0, map[common.Address][]byte{w.slots[0]: code})
			if callee != nil {
				bc.codes[w.slots[1]] = callee
			}
			bc.input = input
			if kind == "stack-limit" {
				if k > 0 {
					continue
				}
				bc.maxTrace = 1100
			}
			out = append(out, bc)
		}
	}
	// depth limit
	for _, op := range []byte{opCALL, opDELEGATECALL} {
		d := mk("fixed:self-recursive", "call", 1<<52, 0, map[common.Address][]byte{w.slots[0]: g.selfRecursive(op, w.slots[0], op == opCALL)})
		d.maxTrace = 14000
		out = append(out, d)
	}
	for _, cs := range out {
		if cs.codes == nil {
			cs.codes = map[common.Address][]byte{}
		}
		cs.fill()
	}
	return out
}

func c16RunCase(c *Ctx, w *c16World, cs *c16Case) {
	c.Count("kind=" + cs.Kind)
	c.Count("entry=" + cs.Entry)
	r1 := w.run(cs, nil)
	r2 := w.run(cs, nil)
	tr := &c16Tracer{max: 20000}
	r3 := w.run(cs, tr)
	c.Count("result=" + strings.SplitN(r1.err, ":", 2)[0])
	if os.Getenv("VERIF_C16_DEBUG") != "" {
		fmt.Fprintf(os.Stderr, "#%s %s gas=%d value=%d -> err=%s/%s left=%d panic=%q logs=%d->%d (+%d) steps=%d maxdepth=%d\n", cs.Kind, cs.Entry, cs.Gas, cs.Value, r1.err, r1.nonVM, r1.gasLeft, r1.panicMsg, r1.logsPre, r1.logsPost, len(r1.newLogs), tr.nsteps, tr.maxDepth)
	}

	// (O1) no panic
	if r1.panicMsg != "" {
		c.Count("panic")
		c.Fail("c16/panic/"+c16Slug(r1.panicMsg), fmt.Sprintf("EVM %s panicked: %s (kind=%s gas=%d value=%d)", cs.Entry, r1.panicMsg, cs.Kind, cs.Gas, cs.Value), cs)
		return
	}
	// (O2) determinism (untraced twice, traced once)
	if r1.key() != r2.key() {
		c.Fail("c16/nondeterministic", fmt.Sprintf("two runs from the same state differ:\n%s\n%s", r1.key(), r2.key()), cs)
	} else if r1.key() != r3.key() {
		c.Fail("c16/tracer-changes-result", fmt.Sprintf("traced run differs:\n%s\n%s", r1.key(), r3.key()), cs)
	}
	// (O3) gas bound
	if r1.gasLeft > cs.Gas {
		c.Fail("c16/gas-exceeds-supplied", fmt.Sprintf("gas left %d > supplied %d", r1.gasLeft, cs.Gas), cs)
	}
	// (O4') TransferAssetTx: any failure (VM or not) leaves the state, equities included, as before
	if cs.Entry == "asset" {
		c.Count("asset:vm=" + strings.SplitN(r1.err, ":", 2)[0] + "/nonvm=" + r1.nonVM)
		if r1.err != "nil" || r1.nonVM != "" {
			if r1.pre != r1.post {
				c.Fail(c16FailSig(r1.pre, r1.post, tr), fmt.Sprintf("TransferAssetTx vmErr=%s err=%s but state differs: %s", r1.err, r1.nonVM, c16Diff(r1.pre, r1.post)), cs)
			}
			if len(r1.newLogs) > 0 {
				c.Fail("c16/asset-failed-left-logs", fmt.Sprintf("TransferAssetTx vmErr=%s err=%s left change logs %v", r1.err, r1.nonVM, r1.newLogs), cs)
			}
			if r1.nonVM != "" && r1.gasLeft != cs.Gas {
				c.Fail("c16/asset-nonvm-error-used-gas", fmt.Sprintf("non-VM error %s but gas %d -> %d", r1.nonVM, cs.Gas, r1.gasLeft), cs)
			}
		}
	}
	// (O4) failed call leaves the state as before (apart from the platform's failure event)
	if r1.err != "nil" && cs.Entry != "asset" {
		c.Count("nontrivial:failed-top-level")
		if r1.pre != r1.post {
			c.Fail(c16FailSig(r1.pre, r1.post, tr), fmt.Sprintf("err=%s but state differs: %s", r1.err, c16Diff(r1.pre, r1.post)), cs)
		}
		if !r1.prefixOK {
			c.Fail("c16/failed-call-lost-logs", fmt.Sprintf("err=%s: change logs recorded before the call were removed or replaced (%d -> %d)", r1.err, r1.logsPre, r1.logsPost), cs)
		}
		bad := false
		for _, l := range r1.newLogs {
			if !strings.HasPrefix(l, fmt.Sprintf("%d@", account.AddEventLog)) {
				bad = true
			}
		}
		if bad || len(r1.newLogs) > 1 {
			c.Fail("c16/failed-call-left-logs", fmt.Sprintf("err=%s: change logs left behind: %v", r1.err, r1.newLogs), cs)
		}
	}
	// (O5) static call changes nothing
	if cs.Entry == "static" {
		c.Count("nontrivial:static")
		if r1.pre != r1.post {
			c.Fail("c16/static-changed-state/"+c16DiffClass(r1.pre, r1.post), fmt.Sprintf("static call changed state: %s", c16Diff(r1.pre, r1.post)), cs)
		}
		var odd []string
		for _, l := range r1.newLogs {
			if !strings.HasPrefix(l, fmt.Sprintf("%d@", account.AddEventLog)) && !strings.HasPrefix(l, fmt.Sprintf("%d@", account.BalanceLog)) {
				odd = append(odd, l)
			}
		}
		if len(odd) > 0 && r1.pre == r1.post {
			c.Fail("c16/static-wrote-logs", fmt.Sprintf("static call left change logs %v", odd), cs)
		}
		if len(r1.newLogs) > 0 {
			c.Count("static:left-noop-balance-or-event-logs")
			// do the surviving no-op balance logs / failure events change what the block commits to?
			if d := w.versionDiff(cs, r1.am); d != "" {
				c.Count("static:changes-version-root")
				cause := "balance-noop"
				for _, t := range r1.newTypes {
					if t == int(account.AddEventLog) {
						cause = "fail-event"
					}
				}
				c.Fail("c16/static-changed-version-root/"+cause, "a static call left only no-op balance logs / failure events ("+strings.Join(r1.newLogs, " ")+") but the finalised version records differ from those of the same block without the call: "+d, cs)
			}
		}
	}
	// (O6) trace-level checks + correspondence lines
	tr.check(c, cs)
	tr.emit(c, cs, r3)
}

// c16Diff lists the per-address entries of two dumps that differ.
func c16Diff(a, b string) string {
	x, y := strings.Split(a, ";"), strings.Split(b, ";")
	var out []string
	for i := 0; i < len(x) && i < len(y); i++ {
		if x[i] != y[i] {
			out = append(out, x[i]+" -> "+y[i])
		}
	}
	if len(x) != len(y) {
		out = append(out, "<dump shape differs> "+b)
	}
	return strings.Join(out, " | ")
}

// c16FailSig: root-cause signature of "a failed entry left the state changed".
//   .../code[/+others]              the code of an account is gone (undoSuicide restores the hash only)
//   .../after-suicide-undo/<attrs>  other attributes of an account that executed SELFDESTRUCT in a reverted frame
//   .../<attrs>                     anything else
func c16FailSig(pre, post string, tr *c16Tracer) string {
	cls := c16DiffClass(pre, post)
	parts := strings.Split(cls, "+")
	hasCode := false
	var others []string
	for _, p := range parts {
		if p == "code" {
			hasCode = true
		} else {
			others = append(others, p)
		}
	}
	if hasCode {
		if len(others) == 0 {
			return "c16/failed-call-changed-state/code"
		}
		return "c16/failed-call-changed-state/code/+" + strings.Join(others, "+")
	}
	x, y := strings.Split(pre, ";"), strings.Split(post, ";")
	all := len(x) == len(y)
	for i := 0; all && i < len(x); i++ {
		if x[i] != y[i] && !tr.destructed[strings.SplitN(x[i], ":", 2)[0]] {
			all = false
		}
	}
	if all && len(tr.destructed) > 0 {
		return "c16/failed-call-changed-state/after-suicide-undo/" + cls
	}
	return "c16/failed-call-changed-state/" + cls
}

// c16DiffClass names the attributes (balance/code/suicide/storage) that differ between two dumps.
func c16DiffClass(a, b string) string {
	x, y := strings.Split(a, ";"), strings.Split(b, ";")
	cls := map[string]int{}
	if len(x) != len(y) {
		return "shape"
	}
	for i := range x {
		if x[i] == y[i] {
			continue
		}
		fa, fb := strings.Split(x[i], ","), strings.Split(y[i], ",")
		for j := 0; j < len(fa) || j < len(fb); j++ {
			var p, q string
			if j < len(fa) {
				p = fa[j]
			}
			if j < len(fb) {
				q = fb[j]
			}
			if p == q {
				continue
			}
			switch {
			case j == 0:
				cls["balance"]++
			case j == 1:
				cls["code"]++
			case j == 2:
				cls["suicide"]++
			default:
				cls["storage"]++
			}
		}
	}
	return strings.Join(c16SortedKeys(cls), "+")
}

// versionDiff finalises the manager that executed the case and a manager that only did the set-up,
// and compares version root and per-account emptiness.
func (w *c16World) versionDiff(cs *c16Case, after *account.Manager) (diff string) {
	defer func() {
		if r := recover(); r != nil {
			diff = "finalise panicked: " + fmt.Sprint(r)
		}
	}()
	base := *cs
	base.Entry = "none"
	rb := w.run(&base, nil)
	for _, am := range []*account.Manager{rb.am, after} {
		am.MergeChangeLogs()
		if err := am.Finalise(); err != nil {
			return "finalise: " + err.Error()
		}
	}
	var out []string
	if rb.am.GetVersionRoot() != after.GetVersionRoot() {
		out = append(out, "version root differs")
	}
	for _, a := range w.watch {
		if rb.am.GetAccount(a).IsEmpty() != after.GetAccount(a).IsEmpty() {
			out = append(out, fmt.Sprintf("IsEmpty(%x) %v -> %v", a[len(a)-3:], rb.am.GetAccount(a).IsEmpty(), after.GetAccount(a).IsEmpty()))
		}
	}
	return strings.Join(out, "; ")
}

func c16SortedKeys(m map[string]int) []string {
	k := make([]string, 0, len(m))
	for s := range m {
		k = append(k, s)
	}
	sort.Strings(k)
	return k
}

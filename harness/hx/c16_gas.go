package main

// C16: the gas an instruction must be charged, recomputed by the harness from the traced stack operands
// (memory ranges and per-word / per-byte parts from the probed jump table, memory fee 3w + w²/512 minus what
// the frame already paid, EXP / SSTORE / SELFDESTRUCT / CALL-new-account from the operands and three account
// getters). Mirrors LemoModel.EvmGas.gasOf; it exists on the Go side so that a mismatch is reported as a direct
// oracle failure carrying the bytecode (c16/gas-cost-mismatch/<op>, c16/mem-overflow-not-refused/<op>).

import (
	"fmt"
	"math/big"
	"strings"

	"github.com/LemoFoundationLtd/lemochain-core/chain/params"
	"github.com/LemoFoundationLtd/lemochain-core/chain/vm"
)

var c16Tab [256]vm.VerifOp // filled by c16EmitTable

var c16Two64 = new(big.Int).Lsh(big.NewInt(1), 64)

const c16MemLimit = 0xffffffffe0

func c16MemFee(w uint64) *big.Int {
	x := new(big.Int).SetUint64(w)
	q := new(big.Int).Mul(x, x)
	q.Div(q, big.NewInt(int64(params.QuadCoeffDiv)))
	return q.Add(q, new(big.Int).Mul(x, big.NewInt(int64(params.MemoryGas))))
}

func c16StackAt(st []*big.Int, i int) *big.Int {
	if i < len(st) {
		return st[i]
	}
	return new(big.Int)
}

// c16MemSize: operation.memorySize recomputed from the probed ranges
func c16MemSize(o *vm.VerifOp, st []*big.Int) *big.Int {
	max := new(big.Int)
	for _, r := range o.MemRanges {
		size := new(big.Int).SetUint64(r.ConstSize)
		if r.SizeSlot >= 0 {
			size = c16StackAt(st, r.SizeSlot)
		}
		if size.Sign() == 0 {
			continue
		}
		if e := new(big.Int).Add(c16StackAt(st, r.Off), size); e.Cmp(max) > 0 {
			max = e
		}
	}
	return max
}

// c16ExpectedGas: "memov" | "gaserr" | "cost" with the cost (without the callee's share for the call family)
// and the words of memory after the step.
func c16ExpectedGas(s *c16Step) (kind string, cost *big.Int, newWords uint64) {
	o := &c16Tab[s.op]
	cur := uint64(s.memBefore)
	newWords = cur
	ms := new(big.Int)
	if o.HasMem {
		ms = c16MemSize(o, s.st)
		if new(big.Int).Add(ms, big.NewInt(31)).Cmp(c16Two64) >= 0 {
			return "memov", nil, cur
		}
	}
	w := (ms.Uint64() + 31) / 32
	if w*32 > c16MemLimit {
		return "gaserr", nil, cur
	}
	cost = new(big.Int).SetUint64(o.MinGas)
	if w > cur {
		cost.Add(cost, new(big.Int).Sub(c16MemFee(w), c16MemFee(cur)))
		newWords = w
	}
	switch {
	case o.PerWord > 0:
		n := c16StackAt(s.st, o.DynSlot)
		if n.Cmp(c16Two64) >= 0 {
			return "gaserr", nil, cur
		}
		cost.Add(cost, new(big.Int).SetUint64((n.Uint64()+31)/32*o.PerWord))
	case o.PerByte > 0:
		n := c16StackAt(s.st, o.DynSlot)
		p := new(big.Int).Mul(n, new(big.Int).SetUint64(o.PerByte))
		if n.Cmp(c16Two64) >= 0 || p.Cmp(c16Two64) >= 0 {
			return "gaserr", nil, cur
		}
		cost.Add(cost, p)
	}
	switch s.op {
	case opEXP:
		cost.Add(cost, big.NewInt(int64((c16StackAt(s.st, 1).BitLen()+7)/8)*int64(params.DefaultGasTable.ExpByte)))
	case opSSTORE:
		if s.bits[0] && c16StackAt(s.st, 1).Sign() != 0 {
			cost.SetUint64(params.SstoreSetGas)
		}
	case opSELFDESTRUCT:
		if s.bits[1] {
			cost.Add(cost, new(big.Int).SetUint64(params.DefaultGasTable.CreateBySuicide))
		}
	case opCALL:
		if c16StackAt(s.st, 2).Sign() != 0 {
			if s.bits[2] {
				cost.Add(cost, new(big.Int).SetUint64(params.CallNewAccountGas))
			} else {
				cost.Add(cost, new(big.Int).SetUint64(params.CallValueTransferGas))
			}
		}
	case opCALLCODE:
		if c16StackAt(s.st, 2).Sign() != 0 {
			cost.Add(cost, new(big.Int).SetUint64(params.CallValueTransferGas))
		}
	}
	return "cost", cost, newWords
}

// c16CheckGas: the direct oracle on one traced step
func c16CheckGas(c *Ctx, cs *c16Case, s *c16Step) {
	o := &c16Tab[s.op]
	if !o.Valid || s.stackLen < o.MinStack || s.stackLen > o.MaxStack {
		return
	}
	switch s.err { // the step failed before the memory / gas stage
	case "invalid", "underflow", "overflow", "writeprot":
		return
	}
	name := strings.ToLower(vm.OpCode(s.op).String())
	kind, cost, newWords := c16ExpectedGas(s)
	fail := func(sig, what string) {
		st := []string{}
		for _, v := range s.st {
			st = append(st, v.String())
		}
		c.Fail(sig+"/"+name, fmt.Sprintf("%s at pc %d depth %d: %s (stack top-first %v, memory %d words, gas %d, traced cost %d, traced error %q)", vm.OpCode(s.op), s.pc, s.depth, what, st, s.memBefore, s.gas, s.cost, s.err), cs)
	}
	switch kind {
	case "memov":
		if s.err != "gasoverflow" {
			fail("c16/mem-overflow-not-refused", "the memory operands need >= 2^64-31 bytes; the interpreter must refuse with errGasUintOverflow")
		}
		return
	case "gaserr":
		if s.err != "oog" {
			fail("c16/gas-cost-mismatch", "the gas function must fail (memory above 0xffffffffe0 or a 64-bit overflow of an operand) and the step end out of gas")
		}
		return
	}
	if s.err == "gasoverflow" {
		fail("c16/gas-cost-mismatch", "errGasUintOverflow although the operands fit")
		return
	}
	total := new(big.Int).Set(cost)
	if isCallFamily(s.op) {
		// the callee's share is checked separately (63/64 rule); an error inside the gas function leaves a stale temp
		if s.err == "oog" {
			return
		}
		total.Add(total, new(big.Int).SetUint64(s.temp))
	}
	if s.err == "oog" {
		if total.IsUint64() && total.Uint64() <= s.gas {
			fail("c16/gas-cost-mismatch", fmt.Sprintf("out of gas although the expected cost %s is affordable", total))
		}
		return
	}
	if !total.IsUint64() || total.Uint64() != s.cost {
		fail("c16/gas-cost-mismatch", fmt.Sprintf("expected cost %s (constant %d + memory %d->%d words + operand part)", total, o.MinGas, s.memBefore, newWords))
	}
	if uint64(s.memAfter) != newWords {
		fail("c16/gas-cost-mismatch", fmt.Sprintf("memory is %d words after the gas stage, the operands need %d", s.memAfter, newWords))
	}
}

package main

// C16: bytecode generators (tiny assembler + grammar).

import (
	"math/big"
	"math/rand"

	"github.com/LemoFoundationLtd/lemochain-core/common"
)

const (
	opSTOP         = 0x00
	opADD          = 0x01
	opMUL          = 0x02
	opSUB          = 0x03
	opEXP          = 0x0a
	opISZERO       = 0x15
	opSHA3         = 0x20
	opADDRESS      = 0x30
	opBALANCE      = 0x31
	opCALLVALUE    = 0x34
	opCALLDATASIZE = 0x36
	opCALLDATACOPY = 0x37
	opCODECOPY     = 0x39
	opEXTCODESIZE  = 0x3b
	opEXTCODECOPY  = 0x3c
	opRETDATASIZE  = 0x3d
	opRETDATACOPY  = 0x3e
	opPOP          = 0x50
	opMLOAD        = 0x51
	opMSTORE       = 0x52
	opMSTORE8      = 0x53
	opSLOAD        = 0x54
	opSSTORE       = 0x55
	opJUMP         = 0x56
	opJUMPI        = 0x57
	opGAS          = 0x5a
	opJUMPDEST     = 0x5b
	opPUSH1        = 0x60
	opDUP1         = 0x80
	opSWAP1        = 0x90
	opLOG0         = 0xa0
	opCREATE       = 0xf0
	opCALL         = 0xf1
	opCALLCODE     = 0xf2
	opRETURN       = 0xf3
	opDELEGATECALL = 0xf4
	opSTATICCALL   = 0xfa
	opREVERT       = 0xfd
	opINVALID      = 0xfe
	opSELFDESTRUCT = 0xff
)

type asm struct{ b []byte }

func (a *asm) op(o ...byte) *asm { a.b = append(a.b, o...); return a }
func (a *asm) pc() int           { return len(a.b) }

func (a *asm) pushBytes(v []byte) *asm {
	for len(v) > 1 && v[0] == 0 {
		v = v[1:]
	}
	if len(v) == 0 {
		v = []byte{0}
	}
	if len(v) > 32 {
		v = v[len(v)-32:]
	}
	a.b = append(a.b, byte(opPUSH1+len(v)-1))
	a.b = append(a.b, v...)
	return a
}
func (a *asm) push(n uint64) *asm           { return a.pushBytes(new(big.Int).SetUint64(n).Bytes()) }
func (a *asm) pushBig(n *big.Int) *asm      { return a.pushBytes(n.Bytes()) }
func (a *asm) pushAddr(x common.Address) *asm { return a.pushBytes(x.Bytes()) }

// push2 pushes a 2-byte immediate (used for jump targets so that sizes are known in advance).
func (a *asm) push2(n int) *asm { return a.op(opPUSH1+1, byte(n>>8), byte(n)) }

// label placeholder: returns the position of the 2 immediate bytes to patch.
func (a *asm) push2hole() int { a.op(opPUSH1+1, 0, 0); return len(a.b) - 2 }
func (a *asm) patch(hole, target int) {
	a.b[hole] = byte(target >> 8)
	a.b[hole+1] = byte(target)
}

// storeBytes writes data into memory at offset 0.. with MSTOREs.
func (a *asm) storeBytes(data []byte) *asm {
	for off := 0; off < len(data); off += 32 {
		chunk := make([]byte, 32)
		copy(chunk, data[off:])
		a.op(opPUSH1 + 31).op(chunk...)
		a.push(uint64(off)).op(opMSTORE)
	}
	return a
}

type c16Gen struct {
	adv   bool // offsets near 2^64 / 2^63 / 2^256 allowed
	r     *rand.Rand
	w     *c16World
	count func(string)
}

func (g *c16Gen) smallVal() uint64 {
	switch g.r.Intn(5) {
	case 0:
		return 0
	case 1:
		return 1
	default:
		return uint64(g.r.Intn(300))
	}
}

var c16AdvOffsets = func() []*big.Int {
	p2 := func(n uint) *big.Int { return new(big.Int).Lsh(big.NewInt(1), n) }
	sub := func(v *big.Int, k int64) *big.Int { return new(big.Int).Sub(v, big.NewInt(k)) }
	return []*big.Int{p2(63), sub(p2(64), 1), sub(p2(64), 32), sub(p2(64), 33), p2(32), p2(40), sub(p2(256), 1), p2(64), sub(p2(63), 1)}
}()

func (g *c16Gen) memOff() *big.Int {
	if g.adv && g.r.Intn(12) == 0 {
		return c16AdvOffsets[g.r.Intn(len(c16AdvOffsets))]
	}
	switch g.r.Intn(20) {
	case 0:
		return new(big.Int).Lsh(big.NewInt(1), uint(20+g.r.Intn(60))) // far away: gas overflow / OOG
	case 1:
		return new(big.Int).SetUint64(uint64(1000 + g.r.Intn(100000)))
	default:
		return new(big.Int).SetUint64(uint64(g.r.Intn(200)))
	}
}

// argOff: offsets of call arguments, REVERT data and CREATE code: mostly small, sometimes far / adversarial
func (g *c16Gen) argOff() *big.Int {
	if g.r.Intn(8) == 0 {
		return g.memOff()
	}
	return new(big.Int).SetUint64(uint64(g.r.Intn(64)))
}

func (g *c16Gen) anyAddr() common.Address {
	w := g.w
	switch g.r.Intn(12) {
	case 0:
		return w.empties[g.r.Intn(len(w.empties))]
	case 1:
		return common.BytesToAddress([]byte{byte(1 + g.r.Intn(9))})
	case 2:
		return w.eoa
	case 3:
		return w.gOK
	case 4:
		return w.gFail
	default:
		return w.slots[g.r.Intn(len(w.slots))]
	}
}

func (g *c16Gen) callGasArg() *big.Int {
	switch g.r.Intn(8) {
	case 0:
		return new(big.Int)
	case 1:
		return new(big.Int).SetUint64(uint64(g.r.Intn(3000)))
	case 2:
		return new(big.Int).Lsh(big.NewInt(1), uint(64+g.r.Intn(190))) // > 64 bit: "all but 1/64"
	case 3:
		return new(big.Int).SetUint64(^uint64(0))
	default:
		return new(big.Int).SetUint64(uint64(5000 + g.r.Intn(200000)))
	}
}

func (g *c16Gen) valueArg() uint64 {
	switch g.r.Intn(6) {
	case 0, 1, 2:
		return 0
	case 3:
		return 1
	case 4:
		return uint64(1 + g.r.Intn(50))
	default:
		return uint64(100000 + g.r.Intn(1000)) // more than any slot owns
	}
}

// terminal emits a frame-ending construct.
func (g *c16Gen) terminal(a *asm, kind int) {
	switch kind {
	case 0:
		a.op(opSTOP)
		g.count("gen:term=stop")
	case 1:
		a.push(uint64(g.r.Intn(64))).pushBig(g.memOff()).op(opRETURN)
		g.count("gen:term=return")
	case 2:
		a.push(uint64(g.r.Intn(64))).pushBig(g.argOff()).op(opREVERT)
		g.count("gen:term=revert")
	case 3:
		a.op(opINVALID)
		g.count("gen:term=invalid")
	case 4:
		a.pushAddr(g.anyAddr()).op(opSELFDESTRUCT)
		g.count("gen:term=selfdestruct")
	case 5:
		a.push(uint64(g.r.Intn(5))).op(opJUMP) // bad jump
		g.count("gen:term=badjump")
	case 6:
		a.op(opPOP) // stack underflow at a statement boundary
		g.count("gen:term=underflow")
	case 7:
		a.op(byte(0x0c + g.r.Intn(4))) // undefined opcode
		g.count("gen:term=undefined")
	case 8:
		// stack overflow loop
		l := a.pc()
		a.op(opJUMPDEST).push(0).push2(l).op(opJUMP)
		g.count("gen:term=stackoverflow")
	case 9:
		// infinite loop -> out of gas
		l := a.pc()
		a.op(opJUMPDEST).push2(l).op(opJUMP)
		g.count("gen:term=infinite")
	default:
		// fall off the end
		g.count("gen:term=falloff")
	}
}

func (g *c16Gen) randTerminal(a *asm) {
	k := []int{0, 0, 0, 1, 1, 2, 2, 2, 3, 3, 4, 5, 6, 7, 8, 9, 10}
	g.terminal(a, k[g.r.Intn(len(k))])
}

// callStmt: push args and do a call of kind `op` to `to`; after: 0 pop result, 1 revert-if-failed, 2 invalid-if-failed, 3 revert-if-succeeded
func (g *c16Gen) callStmt(a *asm, op byte, to common.Address, gas *big.Int, value uint64, after int) {
	a.push(uint64(g.r.Intn(40))) // retSize
	a.pushBig(g.argOff())        // retOff
	a.push(uint64(g.r.Intn(40))) // inSize
	a.pushBig(g.argOff())        // inOff
	if op == opCALL || op == opCALLCODE {
		a.push(value)
	}
	a.pushAddr(to)
	a.pushBig(gas)
	a.op(op)
	switch after {
	case 0:
		a.op(opPOP)
	case 1, 2:
		h := a.push2hole()
		a.op(opJUMPI)
		if after == 1 {
			a.push(0).push(0).op(opREVERT)
		} else {
			a.op(opINVALID)
		}
		a.patch(h, a.pc())
		a.op(opJUMPDEST)
	case 3:
		a.op(opISZERO)
		h := a.push2hole()
		a.op(opJUMPI)
		a.push(0).push(0).op(opREVERT)
		a.patch(h, a.pc())
		a.op(opJUMPDEST)
	}
}

var c16CallOps = []byte{opCALL, opCALL, opCALL, opCALLCODE, opDELEGATECALL, opSTATICCALL}

// initcode variants for CREATE
func (g *c16Gen) initcode() []byte {
	a := &asm{}
	switch g.r.Intn(9) {
	case 0: // returns small runtime code
		rt := []byte{opPUSH1, byte(g.r.Intn(256)), opPUSH1, byte(g.r.Intn(4)), opSSTORE, opSTOP}
		a.storeBytes(rt).push(uint64(len(rt))).push(0).op(opRETURN)
		g.count("gen:init=runtime")
	case 1: // constructor writes then returns empty
		a.push(7).push(uint64(g.r.Intn(4))).op(opSSTORE).op(opSTOP)
		g.count("gen:init=sstore-stop")
	case 2:
		a.push(7).push(1).op(opSSTORE).push(0).push(0).op(opREVERT)
		g.count("gen:init=sstore-revert")
	case 3:
		a.push(7).push(1).op(opSSTORE).op(opINVALID)
		g.count("gen:init=sstore-invalid")
	case 4: // code too large
		if g.r.Intn(2) == 0 {
			a.push(uint64(24575 + g.r.Intn(4))).push(0).op(opRETURN) // around the MaxCodeSize boundary (24576 is the last accepted)
			g.count("gen:init=codesize-boundary")
		} else {
			a.push(uint64(24577 + g.r.Intn(3000))).push(0).op(opRETURN)
			g.count("gen:init=too-large")
		}
	case 5: // large code: code-store out of gas likely
		a.push(uint64(200 + g.r.Intn(5000))).push(0).op(opRETURN)
		g.count("gen:init=large")
	case 6:
		g.count("gen:init=empty")
	case 7: // nested call inside the constructor
		g.callStmt(a, c16CallOps[g.r.Intn(len(c16CallOps))], g.anyAddr(), g.callGasArg(), g.valueArg(), g.r.Intn(4))
		g.randTerminal(a)
		g.count("gen:init=calls")
	default:
		n := g.r.Intn(20)
		for i := 0; i < n; i++ {
			a.op(byte(g.r.Intn(256)))
		}
		g.count("gen:init=random")
	}
	return a.b
}

// stmt emits one stack-neutral statement.
func (g *c16Gen) stmt(a *asm, depthBudget int) {
	switch k := g.r.Intn(30); {
	case k < 5:
		a.push(g.smallVal()).push(uint64(g.r.Intn(4))).op(opSSTORE)
		g.count("gen:stmt=sstore")
	case k < 6:
		if g.r.Intn(2) == 0 {
			a.pushBig(g.memOff()).op(opMLOAD, opPOP)
			g.count("gen:stmt=mload")
		} else {
			a.push(uint64(g.r.Intn(4))).op(opSLOAD, opPOP)
			g.count("gen:stmt=sload")
		}
	case k < 8:
		a.push(g.smallVal()).pushBig(g.memOff()).op(opMSTORE)
		g.count("gen:stmt=mstore")
	case k < 9:
		a.push(g.smallVal()).pushBig(g.memOff()).op(opMSTORE8)
		g.count("gen:stmt=mstore8")
	case k < 11:
		n := g.r.Intn(5)
		for i := 0; i < n; i++ {
			a.push(uint64(g.r.Intn(1000)))
		}
		a.push(uint64(g.r.Intn(70))).pushBig(g.memOff()).op(byte(opLOG0 + n))
		g.count("gen:stmt=log")
	case k < 13:
		a.push(g.smallVal()).push(g.smallVal()).op(byte(1 + g.r.Intn(11))).op(opPOP)
		g.count("gen:stmt=arith")
	case k < 14:
		a.pushBig(new(big.Int).Lsh(big.NewInt(1), uint(g.r.Intn(256)))).push(3).op(opEXP, opPOP)
		g.count("gen:stmt=exp")
	case k < 15:
		a.push(uint64(g.r.Intn(100))).pushBig(g.memOff()).op(opSHA3, opPOP)
		g.count("gen:stmt=sha3")
	case k < 16:
		a.pushAddr(g.anyAddr()).op([]byte{opBALANCE, opEXTCODESIZE}[g.r.Intn(2)], opPOP)
		g.count("gen:stmt=ext-read")
	case k < 17:
		a.push(uint64(g.r.Intn(64))).push(uint64(g.r.Intn(64))).pushBig(g.memOff())
		switch g.r.Intn(4) {
		case 0:
			a.op(opCALLDATACOPY)
		case 1:
			a.op(opCODECOPY)
		case 2:
			a.op(opRETDATACOPY) // may fail: return data out of bounds
		default:
			a.pushAddr(g.anyAddr()).op(opEXTCODECOPY)
		}
		g.count("gen:stmt=copy")
	case k < 18:
		// bounded loop
		a.push(uint64(1 + g.r.Intn(5)))
		l := a.pc()
		a.op(opJUMPDEST)
		a.push(g.smallVal()).push(uint64(g.r.Intn(4))).op(opSSTORE)
		a.push(1).op(opSWAP1, opSUB, opDUP1).push2(l).op(opJUMPI, opPOP)
		g.count("gen:stmt=loop")
	case k < 20:
		a.storeInit(g)
		g.count("gen:stmt=create")
	case k < 21:
		a.op(opGAS, opPOP, 0x58 /*PC*/, opPOP, 0x59 /*MSIZE*/, opPOP)
		g.count("gen:stmt=misc")
	case k < 22:
		// a few random valid-looking opcodes (may break the stack discipline)
		n := 1 + g.r.Intn(3)
		for i := 0; i < n; i++ {
			a.op(byte(g.r.Intn(256)))
		}
		g.count("gen:stmt=noise")
	default:
		op := c16CallOps[g.r.Intn(len(c16CallOps))]
		var to common.Address
		if depthBudget > 0 && g.r.Intn(4) != 0 {
			to = g.w.slots[g.r.Intn(len(g.w.slots))]
		} else {
			to = g.anyAddr()
		}
		g.callStmt(a, op, to, g.callGasArg(), g.valueArg(), g.r.Intn(4))
		g.count("gen:stmt=call")
	}
}

func (a *asm) storeInit(g *c16Gen) {
	ic := g.initcode()
	a.storeBytes(ic)
	if g.r.Intn(10) == 0 {
		a.push(uint64(len(ic))).pushBig(g.memOff()).push(g.valueArg()).op(opCREATE, opPOP) // code taken from a far offset
	} else {
		a.push(uint64(len(ic))).push(0).push(g.valueArg()).op(opCREATE, opPOP)
	}
}

// program: a structured program
func (g *c16Gen) program(depthBudget int) []byte {
	a := &asm{}
	n := g.r.Intn(6)
	for i := 0; i < n; i++ {
		g.stmt(a, depthBudget)
	}
	g.randTerminal(a)
	return a.b
}

// randomBytes: unstructured byte soup
func (g *c16Gen) randomBytes() []byte {
	n := g.r.Intn(80)
	b := make([]byte, n)
	g.r.Read(b)
	return b
}

// opcodeSoup: valid opcodes with immediates, biased to keep the stack non-empty
func (g *c16Gen) opcodeSoup() []byte {
	a := &asm{}
	n := 5 + g.r.Intn(60)
	for i := 0; i < n; i++ {
		if g.r.Intn(3) == 0 {
			a.push(g.smallVal())
		} else {
			a.op(byte(g.r.Intn(256)))
		}
	}
	return a.b
}

// selfRecursive: calls itself with all gas, using call kind `op`
func (g *c16Gen) selfRecursive(op byte, self common.Address, failAfter bool) []byte {
	a := &asm{}
	a.push(1).push(0).op(opSSTORE) // a write per level
	a.push(0).push(0).push(0).push(0)
	if op == opCALL || op == opCALLCODE {
		a.push(0)
	}
	a.pushAddr(self).op(opGAS).op(op).op(opPOP)
	if failAfter {
		a.op(opINVALID)
	} else {
		a.op(opSTOP)
	}
	return a.b
}

// journalWitness: value to a failing callee, value to a succeeding callee, then fail.
func (g *c16Gen) journalWitness(failing, ok common.Address, term int) []byte {
	a := &asm{}
	g.callStmt2(a, failing, 1)
	g.callStmt2(a, ok, 1)
	g.terminal(a, term)
	return a.b
}

func (g *c16Gen) callStmt2(a *asm, to common.Address, value uint64) {
	a.push(0).push(0).push(0).push(0).push(value).pushAddr(to).push(50000).op(opCALL, opPOP)
}

package main

// C16: bytecode generators (tiny assembler + grammar).

import (
	"fmt"
	"math/big"
	"math/rand"

	"github.com/LemoFoundationLtd/lemochain-core/common"
)

const (
	opSTOP         = 0x00
	opADD          = 0x01
	opMUL          = 0x02
	opSUB          = 0x03
	opEXP          = 0x0a
	opISZERO       = 0x15
	opSHA3         = 0x20
	opADDRESS      = 0x30
	opBALANCE      = 0x31
	opCALLVALUE    = 0x34
	opCALLDATASIZE = 0x36
	opCALLDATACOPY = 0x37
	opCODECOPY     = 0x39
	opEXTCODESIZE  = 0x3b
	opEXTCODECOPY  = 0x3c
	opRETDATASIZE  = 0x3d
	opRETDATACOPY  = 0x3e
	opPOP          = 0x50
	opMLOAD        = 0x51
	opMSTORE       = 0x52
	opMSTORE8      = 0x53
	opSLOAD        = 0x54
	opSSTORE       = 0x55
	opJUMP         = 0x56
	opJUMPI        = 0x57
	opGAS          = 0x5a
	opJUMPDEST     = 0x5b
	opPUSH1        = 0x60
	opDUP1         = 0x80
	opSWAP1        = 0x90
	opLOG0         = 0xa0
	opCREATE       = 0xf0
	opCALL         = 0xf1
	opCALLCODE     = 0xf2
	opRETURN       = 0xf3
	opDELEGATECALL = 0xf4
	opSTATICCALL   = 0xfa
	opREVERT       = 0xfd
	opINVALID      = 0xfe
	opSELFDESTRUCT = 0xff
)

type asm struct{ b []byte }

func (a *asm) op(o ...byte) *asm { a.b = append(a.b, o...); return a }
func (a *asm) pc() int           { return len(a.b) }

func (a *asm) pushBytes(v []byte) *asm {
	for len(v) > 1 && v[0] == 0 {
		v = v[1:]
	}
	if len(v) == 0 {
		v = []byte{0}
	}
	if len(v) > 32 {
		v = v[len(v)-32:]
	}
	a.b = append(a.b, byte(opPUSH1+len(v)-1))
	a.b = append(a.b, v...)
	return a
}
func (a *asm) push(n uint64) *asm           { return a.pushBytes(new(big.Int).SetUint64(n).Bytes()) }
func (a *asm) pushBig(n *big.Int) *asm      { return a.pushBytes(n.Bytes()) }
func (a *asm) pushAddr(x common.Address) *asm { return a.pushBytes(x.Bytes()) }

// push2 pushes a 2-byte immediate (used for jump targets so that sizes are known in advance).
func (a *asm) push2(n int) *asm { return a.op(opPUSH1+1, byte(n>>8), byte(n)) }

// label placeholder: returns the position of the 2 immediate bytes to patch.
func (a *asm) push2hole() int { a.op(opPUSH1+1, 0, 0); return len(a.b) - 2 }
func (a *asm) patch(hole, target int) {
	a.b[hole] = byte(target >> 8)
	a.b[hole+1] = byte(target)
}

// storeBytes writes data into memory at offset 0.. with MSTOREs.
func (a *asm) storeBytes(data []byte) *asm {
	for off := 0; off < len(data); off += 32 {
		chunk := make([]byte, 32)
		copy(chunk, data[off:])
		a.op(opPUSH1 + 31).op(chunk...)
		a.push(uint64(off)).op(opMSTORE)
	}
	return a
}

type c16Gen struct {
	adv   bool // offsets near 2^64 / 2^63 / 2^256 allowed
	r     *rand.Rand
	w     *c16World
	count func(string)
}

func (g *c16Gen) smallVal() uint64 {
	switch g.r.Intn(5) {
	case 0:
		return 0
	case 1:
		return 1
	default:
		return uint64(g.r.Intn(300))
	}
}

var c16AdvOffsets = func() []*big.Int {
	p2 := func(n uint) *big.Int { return new(big.Int).Lsh(big.NewInt(1), n) }
	sub := func(v *big.Int, k int64) *big.Int { return new(big.Int).Sub(v, big.NewInt(k)) }
	return []*big.Int{p2(63), sub(p2(64), 1), sub(p2(64), 32), sub(p2(64), 33), p2(32), p2(40), sub(p2(256), 1), p2(64), sub(p2(63), 1)}
}()

func (g *c16Gen) memOff() *big.Int {
	if g.adv && g.r.Intn(12) == 0 {
		return c16AdvOffsets[g.r.Intn(len(c16AdvOffsets))]
	}
	switch g.r.Intn(20) {
	case 0:
		return new(big.Int).Lsh(big.NewInt(1), uint(20+g.r.Intn(60))) // far away: gas overflow / OOG
	case 1:
		return new(big.Int).SetUint64(uint64(1000 + g.r.Intn(100000)))
	default:
		return new(big.Int).SetUint64(uint64(g.r.Intn(200)))
	}
}

// argOff: offsets of call arguments, REVERT data and CREATE code: mostly small, sometimes far / adversarial
func (g *c16Gen) argOff() *big.Int {
	if g.r.Intn(8) == 0 {
		return g.memOff()
	}
	return new(big.Int).SetUint64(uint64(g.r.Intn(64)))
}

func (g *c16Gen) anyAddr() common.Address {
	w := g.w
	switch g.r.Intn(12) {
	case 0:
		return w.empties[g.r.Intn(len(w.empties))]
	case 1:
		return common.BytesToAddress([]byte{byte(1 + g.r.Intn(9))})
	case 2:
		return w.eoa
	case 3:
		return w.gOK
	case 4:
		return w.gFail
	default:
		return w.slots[g.r.Intn(len(w.slots))]
	}
}

func (g *c16Gen) callGasArg() *big.Int {
	switch g.r.Intn(8) {
	case 0:
		return new(big.Int)
	case 1:
		return new(big.Int).SetUint64(uint64(g.r.Intn(3000)))
	case 2:
		return new(big.Int).Lsh(big.NewInt(1), uint(64+g.r.Intn(190))) // > 64 bit: "all but 1/64"
	case 3:
		return new(big.Int).SetUint64(^uint64(0))
	default:
		return new(big.Int).SetUint64(uint64(5000 + g.r.Intn(200000)))
	}
}

func (g *c16Gen) valueArg() uint64 {
	switch g.r.Intn(6) {
	case 0, 1, 2:
		return 0
	case 3:
		return 1
	case 4:
		return uint64(1 + g.r.Intn(50))
	default:
		return uint64(100000 + g.r.Intn(1000)) // more than any slot owns
	}
}

// terminal emits a frame-ending construct.
func (g *c16Gen) terminal(a *asm, kind int) {
	switch kind {
	case 0:
		a.op(opSTOP)
		g.count("gen:term=stop")
	case 1:
		a.push(uint64(g.r.Intn(64))).pushBig(g.memOff()).op(opRETURN)
		g.count("gen:term=return")
	case 2:
		a.push(uint64(g.r.Intn(64))).pushBig(g.argOff()).op(opREVERT)
		g.count("gen:term=revert")
	case 3:
		a.op(opINVALID)
		g.count("gen:term=invalid")
	case 4:
		a.pushAddr(g.anyAddr()).op(opSELFDESTRUCT)
		g.count("gen:term=selfdestruct")
	case 5:
		a.push(uint64(g.r.Intn(5))).op(opJUMP) // bad jump
		g.count("gen:term=badjump")
	case 6:
		a.op(opPOP) // stack underflow at a statement boundary
		g.count("gen:term=underflow")
	case 7:
		a.op(byte(0x0c + g.r.Intn(4))) // undefined opcode
		g.count("gen:term=undefined")
	case 8:
		// stack overflow loop
		l := a.pc()
		a.op(opJUMPDEST).push(0).push2(l).op(opJUMP)
		g.count("gen:term=stackoverflow")
	case 9:
		// infinite loop -> out of gas
		l := a.pc()
		a.op(opJUMPDEST).push2(l).op(opJUMP)
		g.count("gen:term=infinite")
	default:
		// fall off the end
		g.count("gen:term=falloff")
	}
}

func (g *c16Gen) randTerminal(a *asm) {
	k := []int{0, 0, 0, 1, 1, 2, 2, 2, 3, 3, 4, 5, 6, 7, 8, 9, 10}
	g.terminal(a, k[g.r.Intn(len(k))])
}

// callStmt: push args and do a call of kind `op` to `to`; after: 0 pop result, 1 revert-if-failed, 2 invalid-if-failed, 3 revert-if-succeeded
func (g *c16Gen) callStmt(a *asm, op byte, to common.Address, gas *big.Int, value uint64, after int) {
	a.push(uint64(g.r.Intn(40))) // retSize
	a.pushBig(g.argOff())        // retOff
	a.push(uint64(g.r.Intn(40))) // inSize
	a.pushBig(g.argOff())        // inOff
	if op == opCALL || op == opCALLCODE {
		a.push(value)
	}
	a.pushAddr(to)
	a.pushBig(gas)
	a.op(op)
	switch after {
	case 0:
		a.op(opPOP)
	case 1, 2:
		h := a.push2hole()
		a.op(opJUMPI)
		if after == 1 {
			a.push(0).push(0).op(opREVERT)
		} else {
			a.op(opINVALID)
		}
		a.patch(h, a.pc())
		a.op(opJUMPDEST)
	case 3:
		a.op(opISZERO)
		h := a.push2hole()
		a.op(opJUMPI)
		a.push(0).push(0).op(opREVERT)
		a.patch(h, a.pc())
		a.op(opJUMPDEST)
	}
}

var c16CallOps = []byte{opCALL, opCALL, opCALL, opCALLCODE, opDELEGATECALL, opSTATICCALL}

// initcode variants for CREATE
func (g *c16Gen) initcode() []byte {
	a := &asm{}
	switch g.r.Intn(9) {
	case 0: // returns small runtime code
		rt := []byte{opPUSH1, byte(g.r.Intn(256)), opPUSH1, byte(g.r.Intn(4)), opSSTORE, opSTOP}
		a.storeBytes(rt).push(uint64(len(rt))).push(0).op(opRETURN)
		g.count("gen:init=runtime")
	case 1: // constructor writes then returns empty
		a.push(7).push(uint64(g.r.Intn(4))).op(opSSTORE).op(opSTOP)
		g.count("gen:init=sstore-stop")
	case 2:
		a.push(7).push(1).op(opSSTORE).push(0).push(0).op(opREVERT)
		g.count("gen:init=sstore-revert")
	case 3:
		a.push(7).push(1).op(opSSTORE).op(opINVALID)
		g.count("gen:init=sstore-invalid")
	case 4: // code too large
		if g.r.Intn(2) == 0 {
			a.push(uint64(24575 + g.r.Intn(4))).push(0).op(opRETURN) // around the MaxCodeSize boundary (24576 is the last accepted)
			g.count("gen:init=codesize-boundary")
		} else {
			a.push(uint64(24577 + g.r.Intn(3000))).push(0).op(opRETURN)
			g.count("gen:init=too-large")
		}
	case 5: // large code: code-store out of gas likely
		a.push(uint64(200 + g.r.Intn(5000))).push(0).op(opRETURN)
		g.count("gen:init=large")
	case 6:
		g.count("gen:init=empty")
	case 7: // nested call inside the constructor
		g.callStmt(a, c16CallOps[g.r.Intn(len(c16CallOps))], g.anyAddr(), g.callGasArg(), g.valueArg(), g.r.Intn(4))
		g.randTerminal(a)
		g.count("gen:init=calls")
	default:
		n := g.r.Intn(20)
		for i := 0; i < n; i++ {
			a.op(byte(g.r.Intn(256)))
		}
		g.count("gen:init=random")
	}
	return a.b
}

// stmt emits one stack-neutral statement.
func (g *c16Gen) stmt(a *asm, depthBudget int) {
	switch k := g.r.Intn(30); {
	case k < 5:
		a.push(g.smallVal()).push(uint64(g.r.Intn(4))).op(opSSTORE)
		g.count("gen:stmt=sstore")
	case k < 6:
		if g.r.Intn(2) == 0 {
			a.pushBig(g.memOff()).op(opMLOAD, opPOP)
			g.count("gen:stmt=mload")
		} else {
			a.push(uint64(g.r.Intn(4))).op(opSLOAD, opPOP)
			g.count("gen:stmt=sload")
		}
	case k < 8:
		a.push(g.smallVal()).pushBig(g.memOff()).op(opMSTORE)
		g.count("gen:stmt=mstore")
	case k < 9:
		a.push(g.smallVal()).pushBig(g.memOff()).op(opMSTORE8)
		g.count("gen:stmt=mstore8")
	case k < 11:
		n := g.r.Intn(5)
		for i := 0; i < n; i++ {
			a.push(uint64(g.r.Intn(1000)))
		}
		a.push(uint64(g.r.Intn(70))).pushBig(g.memOff()).op(byte(opLOG0 + n))
		g.count("gen:stmt=log")
	case k < 13:
		a.push(g.smallVal()).push(g.smallVal()).op(byte(1 + g.r.Intn(11))).op(opPOP)
		g.count("gen:stmt=arith")
	case k < 14:
		a.pushBig(new(big.Int).Lsh(big.NewInt(1), uint(g.r.Intn(256)))).push(3).op(opEXP, opPOP)
		g.count("gen:stmt=exp")
	case k < 15:
		a.push(uint64(g.r.Intn(100))).pushBig(g.memOff()).op(opSHA3, opPOP)
		g.count("gen:stmt=sha3")
	case k < 16:
		a.pushAddr(g.anyAddr()).op([]byte{opBALANCE, opEXTCODESIZE}[g.r.Intn(2)], opPOP)
		g.count("gen:stmt=ext-read")
	case k < 17:
		a.push(uint64(g.r.Intn(64))).push(uint64(g.r.Intn(64))).pushBig(g.memOff())
		switch g.r.Intn(4) {
		case 0:
			a.op(opCALLDATACOPY)
		case 1:
			a.op(opCODECOPY)
		case 2:
			a.op(opRETDATACOPY) // may fail: return data out of bounds
		default:
			a.pushAddr(g.anyAddr()).op(opEXTCODECOPY)
		}
		g.count("gen:stmt=copy")
	case k < 18:
		// bounded loop
		a.push(uint64(1 + g.r.Intn(5)))
		l := a.pc()
		a.op(opJUMPDEST)
		a.push(g.smallVal()).push(uint64(g.r.Intn(4))).op(opSSTORE)
		a.push(1).op(opSWAP1, opSUB, opDUP1).push2(l).op(opJUMPI, opPOP)
		g.count("gen:stmt=loop")
	case k < 20:
		a.storeInit(g)
		g.count("gen:stmt=create")
	case k < 21:
		a.op(opGAS, opPOP, 0x58 /*PC*/, opPOP, 0x59 /*MSIZE*/, opPOP)
		g.count("gen:stmt=misc")
	case k < 22:
		// a few random valid-looking opcodes (may break the stack discipline)
		n := 1 + g.r.Intn(3)
		for i := 0; i < n; i++ {
			a.op(byte(g.r.Intn(256)))
		}
		g.count("gen:stmt=noise")
	default:
		op := c16CallOps[g.r.Intn(len(c16CallOps))]
		var to common.Address
		if depthBudget > 0 && g.r.Intn(4) != 0 {
			to = g.w.slots[g.r.Intn(len(g.w.slots))]
		} else {
			to = g.anyAddr()
		}
		g.callStmt(a, op, to, g.callGasArg(), g.valueArg(), g.r.Intn(4))
		g.count("gen:stmt=call")
	}
}

func (a *asm) storeInit(g *c16Gen) {
	ic := g.initcode()
	a.storeBytes(ic)
	if g.r.Intn(10) == 0 {
		a.push(uint64(len(ic))).pushBig(g.memOff()).push(g.valueArg()).op(opCREATE, opPOP) // code taken from a far offset
	} else {
		a.push(uint64(len(ic))).push(0).push(g.valueArg()).op(opCREATE, opPOP)
	}
}

// program: a structured program
func (g *c16Gen) program(depthBudget int) []byte {
	a := &asm{}
	n := g.r.Intn(6)
	for i := 0; i < n; i++ {
		g.stmt(a, depthBudget)
	}
	g.randTerminal(a)
	return a.b
}

// randomBytes: unstructured byte soup
func (g *c16Gen) randomBytes() []byte {
	n := g.r.Intn(80)
	b := make([]byte, n)
	g.r.Read(b)
	return b
}

// opcodeSoup: valid opcodes with immediates, biased to keep the stack non-empty
func (g *c16Gen) opcodeSoup() []byte {
	a := &asm{}
	n := 5 + g.r.Intn(60)
	for i := 0; i < n; i++ {
		if g.r.Intn(3) == 0 {
			a.push(g.smallVal())
		} else {
			a.op(byte(g.r.Intn(256)))
		}
	}
	return a.b
}

// selfRecursive: calls itself with all gas, using call kind `op`
func (g *c16Gen) selfRecursive(op byte, self common.Address, failAfter bool) []byte {
	a := &asm{}
	a.push(1).push(0).op(opSSTORE) // a write per level
	a.push(0).push(0).push(0).push(0)
	if op == opCALL || op == opCALLCODE {
		a.push(0)
	}
	a.pushAddr(self).op(opGAS).op(op).op(opPOP)
	if failAfter {
		a.op(opINVALID)
	} else {
		a.op(opSTOP)
	}
	return a.b
}

// journalWitness: value to a failing callee, value to a succeeding callee, then fail.
func (g *c16Gen) journalWitness(failing, ok common.Address, term int) []byte {
	a := &asm{}
	g.callStmt2(a, failing, 1)
	g.callStmt2(a, ok, 1)
	g.terminal(a, term)
	return a.b
}

func (g *c16Gen) callStmt2(a *asm, to common.Address, value uint64) {
	a.push(0).push(0).push(0).push(0).push(value).pushAddr(to).push(50000).op(opCALL, opPOP)
}

// ---------------------------------------------------------------------------------------------------------------
// Families that drive the interpreter's index arithmetic to its boundaries (no-crash oracle O1).

// jumpTail: code that EXECUTES a jump — the jump-destination bitmap is built lazily, inside the first
// JUMP / taken JUMPI with an in-range destination (Interpreter.Run -> opJump -> destinations.has -> codeBitmap) —
// and that ends with PUSHn followed by t <= n immediate bytes, with total length = res (mod 8).
//   variant 0 JUMP to a JUMPDEST, then STOP          3 jump into the immediate bytes of the tail (a 0x5b there)
//   variant 1 taken JUMPI, then fall through the      4 jump onto the trailing PUSHn opcode itself
//             padding into the trailing PUSHn          5 jump to len(code) (out of range: nothing is analysed)
//   variant 2 JUMPI not taken, then JUMP, fall through  6 JUMP, then fall through into the (truncated) trailing PUSHn
func (g *c16Gen) jumpTail(n, t, res, variant int) []byte {
	return g.jumpTailInto(&asm{}, n, t, res, variant)
}

// jumpTailInto appends the construct to a (destinations are absolute positions, 2-byte immediates).
func (g *c16Gen) jumpTailInto(a *asm, n, t, res, variant int) []byte {
	if t > n {
		t = n
	}
	var holes []int
	switch variant {
	case 1:
		a.op(opPUSH1, 1)
		holes = append(holes, a.push2hole())
		a.op(opJUMPI)
	case 2:
		a.op(opPUSH1, 0)
		holes = append(holes, a.push2hole())
		a.op(opJUMPI)
		holes = append(holes, a.push2hole())
		a.op(opJUMP)
	default:
		holes = append(holes, a.push2hole())
		a.op(opJUMP)
	}
	land := a.pc()
	a.op(opJUMPDEST)
	fall := variant == 1 || variant == 6 || variant == 2
	if !fall {
		a.op(opSTOP)
	}
	tailLen := 1 + t
	pad := ((res-(a.pc()+tailLen))%8 + 8) % 8
	for i := 0; i < pad; i++ {
		a.op(opJUMPDEST)
	}
	pushAt := a.pc()
	a.op(byte(opPUSH1 + n - 1))
	for i := 0; i < t; i++ {
		a.op(opJUMPDEST)
	}
	dest := land
	switch variant {
	case 3:
		if t > 0 {
			dest = pushAt + 1 + g.r.Intn(t)
		} else {
			dest = pushAt
		}
	case 4:
		dest = pushAt
	case 5:
		dest = a.pc()
	}
	for _, h := range holes {
		a.patch(h, dest)
	}
	g.count(fmt.Sprintf("gen:jump-tail/variant=%d", variant))
	g.count(fmt.Sprintf("gen:jump-tail/len-mod-8=%d", len(a.b)%8))
	if n == 32 && t == 0 && len(a.b)%8 == 0 {
		g.count("gen:jump-tail/push32-last-byte-len-multiple-of-8")
	}
	return a.b
}

// c16Edges: offsets / sizes around the end of a data area of length n, and around the integer widths
func c16Edges(n int) []*big.Int {
	p2 := func(k uint) *big.Int { return new(big.Int).Lsh(big.NewInt(1), k) }
	sub := func(v *big.Int, k int64) *big.Int { return new(big.Int).Sub(v, big.NewInt(k)) }
	out := []*big.Int{}
	for _, v := range []int{0, 1, n - 33, n - 32, n - 31, n - 1, n, n + 1, n + 31, n + 32} {
		if v >= 0 {
			out = append(out, big.NewInt(int64(v)))
		}
	}
	return append(out, sub(p2(63), 1), p2(63), sub(p2(64), 32), sub(p2(64), 1), p2(64), new(big.Int).Add(p2(64), big.NewInt(int64(n))), p2(255), sub(p2(256), 1))
}

func (g *c16Gen) pick(v []*big.Int) *big.Int { return v[g.r.Intn(len(v))] }

// boundary: one program per sub-family; returns the code, the call data and (for the return-data family) the code of
// the callee in slot 1.
func (g *c16Gen) boundary(which int) (code, input, callee []byte, kind string) {
	r := g.r
	a := &asm{}
	small := func() *big.Int { return big.NewInt(int64([]int{0, 1, 31, 32, 33, 64}[r.Intn(6)])) }
	switch which {
	case 0: // CALLDATALOAD around the end of the call data
		kind = "calldataload-edges"
		n := []int{0, 1, 31, 32, 33, 64, r.Intn(100)}[r.Intn(7)]
		input = make([]byte, n)
		r.Read(input)
		for i := 0; i < 6; i++ {
			a.pushBig(g.pick(c16Edges(n))).op(0x35 /*CALLDATALOAD*/, opPOP)
		}
		a.pushBig(g.pick(c16Edges(n))).op(0x35).push(0).op(opMSTORE).push(32).push(0).op(opRETURN)
	case 1: // CALLDATACOPY / CODECOPY / EXTCODECOPY: source range straddling the end of the data; length 0 at huge offsets
		kind = "copy-edges"
		n := []int{0, 1, 32, 33, r.Intn(100)}[r.Intn(5)]
		input = make([]byte, n)
		r.Read(input)
		for i := 0; i < 4; i++ {
			op := []byte{opCALLDATACOPY, opCODECOPY, opEXTCODECOPY}[r.Intn(3)]
			srcLen := n
			if op != opCALLDATACOPY {
				srcLen = 60 // about the size of this code / of the genesis contracts
			}
			var length, memOff *big.Int
			if r.Intn(4) == 0 {
				length, memOff = new(big.Int), g.pick(c16Edges(srcLen)) // nothing copied: no expansion whatever the offsets
			} else {
				length, memOff = g.pick([]*big.Int{big.NewInt(1), big.NewInt(32), big.NewInt(int64(srcLen)), big.NewInt(int64(srcLen + 1)), big.NewInt(int64(r.Intn(70)))}), small()
			}
			a.pushBig(length).pushBig(g.pick(c16Edges(srcLen))).pushBig(memOff)
			if op == opEXTCODECOPY {
				a.pushAddr([]common.Address{g.w.gOK, g.w.slots[0], g.w.eoa, g.w.empties[0], common.BytesToAddress([]byte{4})}[r.Intn(5)])
			}
			a.op(op)
		}
		a.op(0x59 /*MSIZE*/).push(0).op(opMSTORE).push(64).push(0).op(opRETURN)
	case 2: // RETURNDATACOPY around the end of the return data (errReturnDataOutOfBounds / 64-bit overflow of offset+length)
		kind = "returndatacopy-edges"
		k := []int{0, 1, 32, 33, r.Intn(70)}[r.Intn(5)]
		callee = (&asm{}).push(uint64(k)).push(0).op(opRETURN).b
		switch r.Intn(4) {
		case 0: // no call before: the return data buffer is nil
			k = 0
		case 1: // return data of the identity precompile
			a.push(uint64(k)).push(0).push(uint64(k)).push(0).push(0).pushAddr(common.BytesToAddress([]byte{4})).push(50000).op(opCALL, opPOP)
		case 2: // a REVERTing callee also leaves return data
			callee = (&asm{}).push(uint64(k)).push(0).op(opREVERT).b
			a.push(0).push(0).push(0).push(0).push(0).pushAddr(g.w.slots[1]).push(50000).op(opCALL, opPOP)
		default:
			a.push(0).push(0).push(0).push(0).push(0).pushAddr(g.w.slots[1]).push(50000).op(opCALL, opPOP)
		}
		p2 := func(n uint) *big.Int { return new(big.Int).Lsh(big.NewInt(1), n) }
		K := int64(k)
		type ol struct{ off, n *big.Int }
		cands := []ol{{big.NewInt(0), big.NewInt(K)}, {big.NewInt(0), big.NewInt(K + 1)}, {big.NewInt(K), big.NewInt(0)}, {big.NewInt(K + 1), big.NewInt(0)},
			{big.NewInt(K - 1), big.NewInt(1)}, {big.NewInt(K - 1), big.NewInt(2)}, {big.NewInt(K / 2), big.NewInt(K - K/2)},
			{new(big.Int).Sub(p2(64), big.NewInt(1)), big.NewInt(1)}, {new(big.Int).Sub(p2(64), big.NewInt(1)), big.NewInt(0)}, {p2(64), big.NewInt(0)},
			{big.NewInt(1), new(big.Int).Sub(p2(64), big.NewInt(1))}, {new(big.Int).Sub(p2(256), big.NewInt(1)), big.NewInt(1)}, {new(big.Int).Sub(p2(256), big.NewInt(1)), big.NewInt(0)},
			{new(big.Int).Sub(p2(64), big.NewInt(K)), big.NewInt(K)}}
		c := cands[r.Intn(len(cands))]
		if c.off.Sign() < 0 {
			c.off = big.NewInt(0)
		}
		a.op(opRETDATASIZE, opPOP)
		a.pushBig(c.n).pushBig(c.off).pushBig(small()).op(opRETDATACOPY)
		a.op(0x59).push(0).op(opMSTORE).push(64).push(0).op(opRETURN)
	case 3: // MSTORE8 / MLOAD / MSTORE / SHA3 at the word boundaries of the current memory size
		kind = "memory-word-edges"
		if r.Intn(2) == 0 {
			a.push(0xaa).push(0).op(opMSTORE) // msize 32
		}
		for i := 0; i < 8; i++ {
			off := big.NewInt(int64([]int{0, 1, 30, 31, 32, 33, 62, 63, 64, 65, 95, 96}[r.Intn(12)]))
			switch r.Intn(6) {
			case 0:
				a.push(0x1ff).pushBig(off).op(opMSTORE8)
			case 1:
				a.pushBig(off).op(opMLOAD, opPOP)
			case 2:
				a.push(0x1234).pushBig(off).op(opMSTORE)
			case 3: // SHA3: size 0 (any offset, nothing read), size 1 at the edge, on empty memory when first
				a.pushBig([]*big.Int{new(big.Int), big.NewInt(1), big.NewInt(32), big.NewInt(33)}[r.Intn(4)]).pushBig(off).op(opSHA3, opPOP)
			case 4:
				a.push(0).pushBig(g.pick(c16Edges(64))).op(opSHA3, opPOP) // size 0 at any offset
			default:
				a.op(0x59, opPOP)
			}
		}
		a.op(0x59).push(0).op(opMSTORE).push(32).push(0).op(opRETURN)
	case 4: // DUPn / SWAPn with exactly n-1 / n / n+1 items
		kind = "dup-swap-depth"
		n := 1 + r.Intn(16)
		swap := r.Intn(2) == 0
		need := n
		if swap {
			need = n + 1
		}
		have := need - 1 + r.Intn(2) // one short (stack underflow) or exactly enough
		for i := 0; i < have; i++ {
			a.push(uint64(i + 1))
		}
		if swap {
			a.op(byte(opSWAP1 + n - 1))
		} else {
			a.op(byte(opDUP1 + n - 1))
		}
		a.push(0).op(opMSTORE).push(32).push(0).op(opRETURN)
	case 5: // the stack limit: 1023 / 1024 items, then DUP / SWAP16 / PUSH / a zero-push opcode
		kind = "stack-limit"
		h := 1023 + r.Intn(2)
		for i := 0; i < h; i++ {
			a.op(0x58 /*PC*/)
		}
		switch r.Intn(5) {
		case 0:
			a.op(byte(opDUP1 + r.Intn(16)))
		case 1:
			a.op(byte(opSWAP1 + r.Intn(16)))
		case 2:
			a.op(opPUSH1+31, 1)
		case 3:
			a.op(opADD) // shrinks: fine at the limit
		default:
			a.op(0x58)
		}
		a.op(opSTOP)
	case 6: // BYTE / SIGNEXTEND index operands at 31 / 32 / the integer widths
		kind = "byte-signextend-edges"
		p2 := func(n uint) *big.Int { return new(big.Int).Lsh(big.NewInt(1), n) }
		idx := []*big.Int{big.NewInt(0), big.NewInt(1), big.NewInt(30), big.NewInt(31), big.NewInt(32), big.NewInt(33), p2(31), p2(32), p2(63), p2(64),
			new(big.Int).Add(p2(64), big.NewInt(31)), new(big.Int).Add(p2(64), big.NewInt(3)), p2(255), new(big.Int).Sub(p2(256), big.NewInt(1))}
		vals := []*big.Int{big.NewInt(0x7f), big.NewInt(0x80), big.NewInt(0xff), big.NewInt(0x8000), p2(255), new(big.Int).Sub(p2(256), big.NewInt(1)), new(big.Int).Sub(p2(255), big.NewInt(1))}
		for i := 0; i < 5; i++ {
			a.pushBig(g.pick(vals)).pushBig(g.pick(idx)).op([]byte{0x1a /*BYTE*/, 0x0b /*SIGNEXTEND*/}[r.Intn(2)])
			a.push(uint64(32 * i)).op(opMSTORE)
		}
		a.push(160).push(0).op(opRETURN)
	default: // a PUSHn executed at the very end of the code (immediate truncated by the end): no jump, straight line
		kind = "push-truncated-at-end"
		n := 1 + r.Intn(32)
		t := r.Intn(n + 1)
		a.op(c16PadJumpdests(r.Intn(8))...)
		a.op(byte(opPUSH1 + n - 1))
		for i := 0; i < t; i++ {
			a.op(0xee)
		}
	}
	g.count("gen:boundary=" + kind)
	return a.b, input, callee, kind
}

func c16PadJumpdests(n int) []byte {
	b := make([]byte, n)
	for i := range b {
		b[i] = opJUMPDEST
	}
	return b
}

package main

// C16: the jump-destination analysis (chain/vm/analysis.go codeBitmap / destinations.has), the byte-slice
// helpers (common.go getData / getDataBig) and the memory store (memory.go Set / Get / GetPtr / Resize),
// called directly (hook chain/vm/verif_analysis.go) on generator-chosen inputs and answered by the Lean
// model LemoModel.JumpAnalysis (driver c16). Theorems: LemoProofs/C16Jump.lean.
//
// Ops (every input on the line is chosen here, nothing is read back from the code under test):
//   jd  <code> <d1,d2,…>           len(bits), bits, has(d) on a FRESH destinations map per destination
//   jdc <key> <code> <dest>        has(...) on a PERSISTENT destinations map (the lazy per-hash cache; the same
//                                  key with another code = a stale entry, deliberately)
//   jdc-reset                      a new map
//   gd  <data> <start> <size>      getData (uint64 arithmetic)
//   gdb <data> <start> <size>      getDataBig
//   mset <buf> <len> <off> <size> <value> / mget|mptr <buf> <len> <off> <size> / mres <buf> <len> <size>
// Direct oracle: c16/panic/jump-analysis (codeBitmap / has on a coherent map panics), c16/panic/getdata,
// c16/panic/memory (Set / Get inside the resized range panics).

import (
	"encoding/hex"
	"fmt"
	"math/big"
	"strings"

	"github.com/LemoFoundationLtd/lemochain-core/chain/vm"
	"github.com/LemoFoundationLtd/lemochain-core/common"
)

func c16Hex(b []byte) string {
	if len(b) == 0 {
		return "-"
	}
	return hex.EncodeToString(b)
}

var (
	c16P62  = new(big.Int).Lsh(big.NewInt(1), 62)
	c16P63  = new(big.Int).Lsh(big.NewInt(1), 63)
	c16P64  = new(big.Int).Lsh(big.NewInt(1), 64)
	c16P256 = new(big.Int).Lsh(big.NewInt(1), 256)
)

func c16BigSub(v *big.Int, k int64) *big.Int { return new(big.Int).Sub(v, big.NewInt(k)) }
func c16BigAdd(v *big.Int, k int64) *big.Int { return new(big.Int).Add(v, big.NewInt(k)) }

// c16JumpDests: the destinations probed for a code of length n
func c16JumpDests(n int, extra []int) []*big.Int {
	out := []*big.Int{}
	seen := map[string]bool{}
	add := func(v *big.Int) {
		if v.Sign() >= 0 && !seen[v.String()] {
			seen[v.String()] = true
			out = append(out, v)
		}
	}
	for _, e := range extra {
		add(big.NewInt(int64(e)))
	}
	add(big.NewInt(0))
	add(big.NewInt(int64(n - 1)))
	add(big.NewInt(int64(n)))
	add(big.NewInt(int64(n + 1)))
	add(c16BigSub(c16P62, 1))
	add(c16P62)
	add(c16P63)
	add(c16BigSub(c16P64, 1))
	add(c16P64)                            // Uint64() = 0: only the BitLen guard rejects it
	add(c16BigAdd(c16P64, int64(n/2)))     // Uint64() in range
	add(c16BigSub(c16P256, 1))
	return out
}

// c16JD emits one `jd` op.
func c16JD(c *Ctx, kind string, code []byte, extra []int) {
	c.Count("jd:kind=" + kind)
	c.Count(fmt.Sprintf("jd:len-mod-8=%d", len(code)%8))
	dests := c16JumpDests(len(code), extra)
	ds := make([]string, len(dests))
	for i, d := range dests {
		ds[i] = d.String()
	}
	op := fmt.Sprintf("jd %s %s", c16Hex(code), strings.Join(ds, ","))
	panicked := ""
	var bits []byte
	first, msg := SafeMsg(func() string {
		bits = vm.VerifCodeBitmap(code)
		return fmt.Sprintf("len=%d bits=%s", len(bits), c16Hex(bits))
	})
	if first == "panic" {
		first = "len=panic bits=panic"
		panicked = "codeBitmap: " + msg
	}
	hs := make([]string, len(dests))
	for i, d := range dests {
		r, m := SafeMsg(func() string {
			// a fresh map per destination: the vector is built lazily inside has, as opJump does it
			return b01s(vm.NewVerifDestinations().Has(common.BigToHash(big.NewInt(1)), code, d))
		})
		if r == "panic" {
			r = "p"
			if panicked == "" {
				panicked = fmt.Sprintf("destinations.has(dest=%s): %s", d, m)
			}
			c.Count("jd:has=panic")
		} else {
			c.Count("jd:has=" + r)
		}
		hs[i] = r
	}
	c.Op(op, first+" has="+strings.Join(hs, ","))
	if panicked != "" {
		c.Fail("c16/panic/jump-analysis", fmt.Sprintf("the jump-destination analysis panicked on code %s (len %d, kind %s): %s", c16Hex(code), len(code), kind, panicked),
			map[string]string{"code": c16Hex(code), "kind": kind})
	}
}

func b01s(b bool) string {
	if b {
		return "1"
	}
	return "0"
}

// filler: n bytes that are not PUSH opcodes (STOP / JUMPDEST / ADD / JUMP …)
func c16Filler(r interface{ Intn(int) int }, n int) []byte {
	pool := []byte{opSTOP, opJUMPDEST, opJUMPDEST, opADD, opPOP, opJUMP, 0x80, 0xfe, 0x5f, 0x80}
	b := make([]byte, n)
	for i := range b {
		b[i] = pool[r.Intn(len(pool))]
	}
	return b
}

// c16JumpPhase: systematic + random `jd` ops, cache ops, getData and memory ops.
func c16JumpPhase(c *Ctx, w *c16World) {
	r := c.Rnd
	// (a) every PUSHn as the LAST byte of a code of every length 1..80 (so every length mod 8, ten times)
	for L := 0; L <= 80; L++ {
		if L == 0 {
			c16JD(c, "empty", nil, nil)
			continue
		}
		for n := 1; n <= 32; n++ {
			code := append(c16Filler(r, L-1), byte(opPUSH1+n-1))
			c16JD(c, "pushN-last-byte", code, []int{L - 2})
		}
	}
	// (b) code ending INSIDE push data: PUSHn followed by t < n data bytes (the data bytes are JUMPDESTs), every n,
	//     the total length covering every residue mod 8
	for n := 1; n <= 32; n++ {
		for t := 0; t < n; t += 1 + n/6 {
			for pad := 0; pad < 8; pad++ {
				code := c16Filler(r, pad)
				p := len(code)
				code = append(code, byte(opPUSH1+n-1))
				for i := 0; i < t; i++ {
					code = append(code, opJUMPDEST)
				}
				c16JD(c, "ends-inside-push-data", code, []int{p, p + 1, p + t})
			}
		}
	}
	// (c) JUMPDEST inside push data, followed by real JUMPDESTs; PUSH32 chains; PUSH data that looks like PUSH opcodes
	for i := 0; i < 60; i++ {
		a := &asm{}
		var probe []int
		for k := 0; k < 1+r.Intn(5); k++ {
			a.op(c16Filler(r, r.Intn(4))...)
			n := 1 + r.Intn(32)
			a.op(byte(opPUSH1 + n - 1))
			for j := 0; j < n; j++ {
				probe = append(probe, a.pc())
				a.op([]byte{opJUMPDEST, opJUMPDEST, 0x7f, 0x60, 0x00}[r.Intn(5)])
			}
			probe = append(probe, a.pc())
			a.op(opJUMPDEST)
		}
		if len(probe) > 12 {
			r2 := probe[:0]
			for _, p := range probe {
				if r.Intn(len(probe)) < 12 {
					r2 = append(r2, p)
				}
			}
			probe = r2
		}
		c16JD(c, "jumpdest-inside-push-data", a.b, probe)
	}
	// (d) random bytes / push-heavy random bytes, lengths 0..200
	nr := 150 + c.N/10
	for i := 0; i < nr; i++ {
		n := r.Intn(90)
		if r.Intn(8) == 0 {
			n = r.Intn(300)
		}
		b := make([]byte, n)
		r.Read(b)
		kind := "random"
		if r.Intn(2) == 0 {
			kind = "random-push-heavy"
			for j := range b {
				switch r.Intn(4) {
				case 0:
					b[j] = byte(opPUSH1 + r.Intn(32))
				case 1:
					b[j] = opJUMPDEST
				}
			}
		}
		var probe []int
		for k := 0; k < 4 && n > 0; k++ {
			probe = append(probe, r.Intn(n))
		}
		c16JD(c, kind, b, probe)
	}
	// (e) the witness of the seeded allocation change and its family (STOP^(8k+7) PUSH32)
	c16JD(c, "witness-8-bytes-push32-last", []byte{0x60, 0x03, 0x56, 0x5b, 0x00, 0x00, 0x00, 0x7f}, []int{3})
	for k := 0; k < 6; k++ {
		code := append(make([]byte, 8*k+7), 0x7f)
		c16JD(c, "stops-then-push32", code, []int{8*k + 6})
	}

	c16CachePhase(c, r)
	c16GetDataPhase(c, r)
	c16MemPhase(c, r)
}

// c16CachePhase: the lazy per-code-hash cache. Coherent use (one code per key) must never panic; the same key with
// another code (a stale vector) is answered by the model too (it may panic on both sides).
func c16CachePhase(c *Ctx, r interface {
	Intn(int) int
	Read([]byte) (int, error)
}) {
	d := vm.NewVerifDestinations()
	codes := map[int][]byte{}
	mk := func() []byte {
		a := &asm{}
		for k := 0; k < 1+r.Intn(6); k++ {
			a.op(c16Filler(r, r.Intn(6))...)
			if r.Intn(2) == 0 {
				n := 1 + r.Intn(32)
				a.op(byte(opPUSH1 + n - 1))
				t := n
				if r.Intn(4) == 0 {
					t = r.Intn(n + 1)
				}
				for j := 0; j < t; j++ {
					a.op(opJUMPDEST)
				}
			}
		}
		return a.b
	}
	for i := 0; i < 400; i++ {
		if i%80 == 79 {
			c.Op("jdc-reset", "ok")
			d = vm.NewVerifDestinations()
			codes = map[int][]byte{}
			continue
		}
		key := 1 + r.Intn(6)
		code, have := codes[key]
		stale := false
		switch {
		case !have:
			code = mk()
			codes[key] = code
			c.Count("jdc:first-use")
		case r.Intn(10) == 0:
			// another code under the same key: the cached vector is stale (longer or shorter code)
			code = mk()
			if r.Intn(2) == 0 {
				code = append(code, c16Filler(r, 40+r.Intn(60))...)
			}
			stale = true
			c.Count("jdc:stale-entry")
		default:
			c.Count("jdc:cache-hit")
		}
		var dest *big.Int
		switch r.Intn(8) {
		case 0:
			dest = big.NewInt(int64(len(code)))
		case 1:
			dest = c16BigAdd(c16P64, 1)
		default:
			if len(code) > 0 {
				dest = big.NewInt(int64(r.Intn(len(code))))
			} else {
				dest = big.NewInt(0)
			}
		}
		h := common.BigToHash(big.NewInt(int64(key)))
		out, msg := SafeMsg(func() string { return "has=" + b01s(d.Has(h, code, dest)) })
		if out == "panic" {
			out = "has=p"
			c.Count("jdc:panic")
			if !stale {
				// a panic with a coherent history? only if an earlier stale use left the key poisoned
				c.Count("jdc:panic-after-poisoning")
			}
			_ = msg
		}
		bits, ok := d.Bits(h)
		cached := "-"
		if ok {
			cached = fmt.Sprint(len(bits))
		}
		c.Op(fmt.Sprintf("jdc %d %s %s", key, c16Hex(code), dest), fmt.Sprintf("%s n=%d cached=%s", out, d.Len(), cached))
	}
	c.Op("jdc-reset", "ok")
	// coherent only: one code per key, many destinations; any panic is a defect
	d = vm.NewVerifDestinations()
	for key := 1; key <= 40; key++ {
		code := mk()
		h := common.BigToHash(big.NewInt(int64(key)))
		for k := 0; k < 4; k++ {
			dest := big.NewInt(int64(r.Intn(len(code) + 2)))
			out, msg := SafeMsg(func() string { return "has=" + b01s(d.Has(h, code, dest)) })
			if out == "panic" {
				out = "has=p"
				c.Fail("c16/panic/jump-analysis", fmt.Sprintf("destinations.has panicked on a coherent cache: code %s dest %s: %s", c16Hex(code), dest, msg), map[string]string{"code": c16Hex(code)})
			}
			bits, ok := d.Bits(h)
			cached := "-"
			if ok {
				cached = fmt.Sprint(len(bits))
			}
			c.Count("jdc:coherent")
			c.Op(fmt.Sprintf("jdc %d %s %s", key, c16Hex(code), dest), fmt.Sprintf("%s n=%d cached=%s", out, d.Len(), cached))
		}
	}
	c.Op("jdc-reset", "ok")
}

// c16GetDataPhase: getData / getDataBig at the ends of the data. Sizes that would make RightPadBytes allocate
// more than 4 KiB are not generated (4096 < size mod 2^64 < 2^63).
func c16GetDataPhase(c *Ctx, r interface {
	Intn(int) int
	Read([]byte) (int, error)
}) {
	max64 := c16BigSub(c16P64, 1)
	for i := 0; i < 500; i++ {
		n := []int{0, 1, 31, 32, 33, 64, r.Intn(100)}[r.Intn(7)]
		data := make([]byte, n)
		r.Read(data)
		N := int64(n)
		starts := []*big.Int{big.NewInt(0), big.NewInt(N - 1), big.NewInt(N), big.NewInt(N + 1), big.NewInt(N - 32), big.NewInt(N - 31), big.NewInt(int64(r.Intn(n + 40))),
			c16BigSub(c16P63, 1), c16P63, max64, c16P64, c16BigAdd(c16P64, 1), c16BigSub(c16P256, 1)}
		sizes := []*big.Int{big.NewInt(0), big.NewInt(1), big.NewInt(32), big.NewInt(N), big.NewInt(N + 1), big.NewInt(int64(r.Intn(80))), big.NewInt(int64(r.Intn(4096))),
			c16P63, max64, c16BigSub(max64, N), c16BigSub(max64, N-1), c16P64, c16BigAdd(c16P64, 5), c16BigSub(c16P256, 1)}
		start := starts[r.Intn(len(starts))]
		size := sizes[r.Intn(len(sizes))]
		if start.Sign() < 0 {
			start = big.NewInt(0)
		}
		if size.Sign() < 0 {
			size = big.NewInt(0)
		}
		// getDataBig
		out, msg := SafeMsg(func() string { return c16Hex(vm.VerifGetDataBig(data, start, size)) })
		c.Count("gdb:" + c16DataClass(n, start, size, out))
		c.Op(fmt.Sprintf("gdb %s %s %s", c16Hex(data), start, size), out)
		if out == "panic" {
			c.Fail("c16/panic/getdata", fmt.Sprintf("getDataBig(len %d, start %s, size %s) panicked: %s", n, start, size, msg), map[string]string{"data": c16Hex(data), "start": start.String(), "size": size.String()})
		}
		// getData: uint64 operands
		if start.Cmp(max64) <= 0 && size.Cmp(max64) <= 0 {
			s, z := start.Uint64(), size.Uint64()
			out, _ := SafeMsg(func() string { return c16Hex(vm.VerifGetData(data, s, z)) })
			cl := c16DataClass(n, start, size, out)
			c.Count("gd:" + cl)
			c.Op(fmt.Sprintf("gd %s %d %d", c16Hex(data), s, z), out)
			// the wrap-around of start+size is a modelled, gas-unreachable panic (getData_wrap_panics); anything else is a defect
			clamped := s
			if clamped > uint64(n) {
				clamped = uint64(n)
			}
			if out == "panic" && clamped+z >= clamped {
				c.Fail("c16/panic/getdata", fmt.Sprintf("getData(len %d, start %d, size %d) panicked without uint64 wrap-around", n, s, z), map[string]string{"data": c16Hex(data)})
			}
		}
	}
}

func c16DataClass(n int, start, size *big.Int, out string) string {
	cl := "start<len"
	switch start.Cmp(big.NewInt(int64(n))) {
	case 0:
		cl = "start=len"
	case 1:
		cl = "start>len"
	}
	if start.Cmp(c16P63) >= 0 {
		cl = "start>=2^63"
	}
	end := new(big.Int).Add(start, size)
	switch {
	case size.Sign() == 0:
		cl += "/size=0"
	case size.Cmp(c16P63) >= 0:
		cl += "/size>=2^63"
	case end.Cmp(big.NewInt(int64(n))) <= 0:
		cl += "/inside"
	default:
		cl += "/padded"
	}
	if out == "panic" {
		cl += "/panic"
	}
	return cl
}

// c16MemPhase: Memory.Set / Get / GetPtr / Resize on stores with chosen length and capacity.
func c16MemPhase(c *Ctx, r interface {
	Intn(int) int
	Read([]byte) (int, error)
}) {
	for i := 0; i < 500; i++ {
		capN := []int{0, 1, 32, 33, 64, 96, r.Intn(130)}[r.Intn(7)]
		lenN := capN
		if capN > 0 && r.Intn(3) == 0 {
			lenN = r.Intn(capN + 1)
		}
		mk := func() ([]byte, *vm.Memory) {
			buf := make([]byte, capN)
			return buf, vm.VerifNewMemory(buf, lenN)
		}
		content := make([]byte, capN)
		r.Read(content)
		pick := func(cands ...int) uint64 {
			v := cands[r.Intn(len(cands))]
			if v < 0 {
				v = 0
			}
			return uint64(v)
		}
		switch r.Intn(4) {
		case 0: // Set
			buf, m := mk()
			copy(buf, content)
			size := pick(0, 1, 32, lenN, lenN+1, r.Intn(lenN+2), r.Intn(capN+2))
			off := pick(0, lenN-int(size), lenN-int(size)+1, capN-int(size), capN-int(size)+1, lenN, r.Intn(capN+2))
			if r.Intn(2) == 0 && lenN > 0 {
				// inside the visible store by construction (what Resize guarantees in the interpreter)
				size = uint64(r.Intn(lenN + 1))
				off = uint64(r.Intn(lenN - int(size) + 1))
				if r.Intn(3) == 0 {
					off = uint64(lenN) - size // flush with the end
				}
			} else if r.Intn(12) == 0 {
				off = ^uint64(0) - uint64(r.Intn(40)) // offset+size wraps
			}
			vlen := int(size)
			if r.Intn(4) == 0 {
				vlen = r.Intn(int(size) + 3)
			}
			value := make([]byte, vlen)
			r.Read(value)
			out, msg := SafeMsg(func() string {
				m.Set(off, size, value)
				return fmt.Sprintf("len=%d buf=%s", m.Len(), c16Hex(vm.VerifMemoryBuf(m)))
			})
			inRange := off+size >= off && off+size <= uint64(lenN)
			c.Count(fmt.Sprintf("mset:in-range=%v/%s", inRange, firstWord(out)[:3]))
			c.Op(fmt.Sprintf("mset %s %d %d %d %s", c16Hex(content), lenN, off, size, c16Hex(value)), out)
			if out == "panic" && inRange {
				c.Fail("c16/panic/memory", fmt.Sprintf("Memory.Set(%d, %d) on a store of %d bytes panicked: %s", off, size, lenN, msg), nil)
			}
		case 1, 2: // Get / GetPtr
			buf, m := mk()
			copy(buf, content)
			size := pick(0, 1, 32, lenN, lenN+1, r.Intn(lenN+2), r.Intn(capN+2))
			off := pick(0, lenN-int(size), lenN-int(size)+1, capN-int(size), capN-int(size)+1, lenN, lenN-1, r.Intn(capN+2))
			if r.Intn(2) == 0 && lenN > 0 {
				size = uint64(r.Intn(lenN + 1))
				off = uint64(r.Intn(lenN - int(size) + 1))
				if r.Intn(3) == 0 {
					off = uint64(lenN) - size
				}
			}
			name := "mget"
			out, msg := SafeMsg(func() string { return c16Hex(m.Get(int64(off), int64(size))) })
			if r.Intn(2) == 0 {
				name = "mptr"
				out, msg = SafeMsg(func() string { return c16Hex(m.GetPtr(int64(off), int64(size))) })
			}
			inRange := off+size <= uint64(lenN)
			c.Count(fmt.Sprintf("%s:in-range=%v/panic=%v", name, inRange, out == "panic"))
			c.Op(fmt.Sprintf("%s %s %d %d %d", name, c16Hex(content), lenN, off, size), out)
			if out == "panic" && inRange {
				c.Fail("c16/panic/memory", fmt.Sprintf("Memory.%s(%d, %d) on a store of %d bytes panicked: %s", name, off, size, lenN, msg), nil)
			}
		default: // Resize
			buf, m := mk()
			copy(buf, content)
			size := pick(0, lenN-1, lenN, lenN+1, capN, capN+1, capN+32, r.Intn(300))
			out, msg := SafeMsg(func() string {
				m.Resize(size)
				return fmt.Sprintf("len=%d vis=%s", m.Len(), c16Hex(m.Data()))
			})
			c.Count(fmt.Sprintf("mres:grow=%v/within-cap=%v", size > uint64(lenN), size <= uint64(capN)))
			c.Op(fmt.Sprintf("mres %s %d %d", c16Hex(content), lenN, size), out)
			if out == "panic" {
				c.Fail("c16/panic/memory", fmt.Sprintf("Memory.Resize(%d) panicked: %s", size, msg), nil)
			}
		}
	}
}

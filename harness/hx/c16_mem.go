package main

// C16: every memory-touching instruction stays inside the memory the interpreter resized for it.
// The REAL memorySize / gasCost / execute functions of the jump table that NewInterpreter installs (hook
// chain/vm/verif_memrange.go), the REAL Interpreter.Run (one-instruction programs under a tracer) and the
// SOURCE of the instruction bodies (go/ast) against the Lean model LemoModel.MemRange (driver c16).
// Theorems: LemoProofs/C16Mem.lean. The opcode list is the set of rows of the live table that have a
// memorySize function (c16Tab, filled by c16EmitTable), so a new memory opcode gets op lines the model refuses.
//
// Ops (every input on the line is chosen here or parsed from the source, nothing is read back from the code):
//   mra <op> <execute fn>            go/ast: the name of the row's memorySize function and every use of the
//                                    `memory` parameter in the body of its execute function, operands rendered
//                                    with the pop order (s0 = first pop):   mem=<fn|-> calls=<c1;c2|->
//   mrt <fn>                         go/ast: the term a function of memory_table.go returns, local variables substituted
//   mrg <op> <memorySize>            the row's REAL gas function on an all-zero stack and empty memory: ok cost=<gas> | err  (memoryGasCost's
//                                    bound and its uint64 arithmetic, incl. the wrap-around of words*words from 2^37 bytes on)
//   mrs <op> <gas> <w0,w1,…>         msz=<real memorySize(stack)> + the verdict of the REAL Run on the program
//                                    PUSH32 w_k … PUSH32 w_0 OP with <gas> left at OP:  ovf | oog | ok mem=<len after Resize>
//   mrx r|s <op> <w…> <buf> <len> <input> <code> <ext> <ret>
//                                    the REAL execute function on a store with the given backing array / length;
//                                    r: after the real Resize to the real memorySize rounded up (what Run does),
//                                    s: WITHOUT any resize (short store: the model must predict the panics):
//                                    panic | len=<n> vis|buf=<bytes> read=<bytes the body read>
// Direct oracle: c16/panic/memory-range (a body panics although the store was resized as Run resizes it, in the
// real Run or in mode r).

import (
	"fmt"
	"go/ast"
	"go/parser"
	"go/token"
	"math/big"
	"path/filepath"
	"strings"
	"time"

	"github.com/LemoFoundationLtd/lemochain-core/chain/account"
	"github.com/LemoFoundationLtd/lemochain-core/chain/transaction"
	"github.com/LemoFoundationLtd/lemochain-core/chain/vm"
	"github.com/LemoFoundationLtd/lemochain-core/common"
	"github.com/LemoFoundationLtd/lemochain-core/common/crypto"
)

type c16Rand interface {
	Intn(int) int
	Read([]byte) (int, error)
}

func c16MemRangePhase(c *Ctx, w *c16World) {
	c16MemAst(c)
	c16MemGasBound(c, w)
	c16MemStage(c, w)
	c16MemExec(c, w)
}

// the thorough tier repeats the random parts of the stage / body phases
func c16MemReps(c *Ctx) int {
	if c.Tier == "thorough" {
		return 8
	}
	return 1
}

/* ---------- mra: the source ---------- */

type c16BodyWalk struct {
	pops map[*ast.CallExpr]int
	env  map[string]string
}

func c16IsPop(e ast.Expr) bool {
	call, ok := e.(*ast.CallExpr)
	if !ok || len(call.Args) != 0 {
		return false
	}
	sel, ok := call.Fun.(*ast.SelectorExpr)
	if !ok || sel.Sel.Name != "pop" {
		return false
	}
	id, ok := sel.X.(*ast.Ident)
	return ok && id.Name == "stack"
}

func (b *c16BodyWalk) render(e ast.Expr) string {
	switch x := e.(type) {
	case nil:
		return ""
	case *ast.Ident:
		if v, ok := b.env[x.Name]; ok {
			return v
		}
		return x.Name
	case *ast.BasicLit:
		return x.Value
	case *ast.ParenExpr:
		return "(" + b.render(x.X) + ")"
	case *ast.SelectorExpr:
		return b.render(x.X) + "." + x.Sel.Name
	case *ast.CallExpr:
		if c16IsPop(x) {
			return fmt.Sprintf("s%d", b.pops[x])
		}
		as := make([]string, len(x.Args))
		for i, a := range x.Args {
			as[i] = b.render(a)
		}
		return b.render(x.Fun) + "(" + strings.Join(as, ",") + ")"
	case *ast.IndexExpr:
		return b.render(x.X) + "[" + b.render(x.Index) + "]"
	case *ast.SliceExpr:
		return b.render(x.X) + "[" + b.render(x.Low) + ":" + b.render(x.High) + "]"
	case *ast.BinaryExpr:
		return b.render(x.X) + x.Op.String() + b.render(x.Y)
	case *ast.UnaryExpr:
		return x.Op.String() + b.render(x.X)
	case *ast.StarExpr:
		return "*" + b.render(x.X)
	}
	return "?"
}

func c16IsMemory(e ast.Expr) bool {
	id, ok := e.(*ast.Ident)
	return ok && id.Name == "memory"
}

// c16BodyCalls: every use of the identifier `memory` in a function body, in source order.
func c16BodyCalls(body *ast.BlockStmt) []string {
	b := &c16BodyWalk{pops: map[*ast.CallExpr]int{}, env: map[string]string{}}
	n := 0
	ast.Inspect(body, func(nd ast.Node) bool {
		if call, ok := nd.(*ast.CallExpr); ok && c16IsPop(call) {
			b.pops[call] = n
			n++
		}
		return true
	})
	hasPop := func(e ast.Expr) bool {
		found := false
		ast.Inspect(e, func(nd ast.Node) bool {
			if ex, ok := nd.(ast.Expr); ok && c16IsPop(ex) {
				found = true
			}
			return true
		})
		return found
	}
	bind := func(names []string, vals []ast.Expr) {
		if len(names) != len(vals) {
			return
		}
		for i, nm := range names {
			if hasPop(vals[i]) {
				b.env[nm] = b.render(vals[i])
			}
		}
	}
	ast.Inspect(body, func(nd ast.Node) bool {
		switch x := nd.(type) {
		case *ast.AssignStmt:
			var names []string
			for _, l := range x.Lhs {
				if id, ok := l.(*ast.Ident); ok {
					names = append(names, id.Name)
				} else {
					names = append(names, "")
				}
			}
			bind(names, x.Rhs)
		case *ast.ValueSpec:
			var names []string
			for _, id := range x.Names {
				names = append(names, id.Name)
			}
			bind(names, x.Values)
		}
		return true
	})
	var out []string
	done := map[ast.Node]bool{}
	ast.Inspect(body, func(nd ast.Node) bool {
		switch x := nd.(type) {
		case *ast.CallExpr:
			if sel, ok := x.Fun.(*ast.SelectorExpr); ok && c16IsMemory(sel.X) {
				done[sel] = true
				as := make([]string, len(x.Args))
				for i, a := range x.Args {
					as[i] = b.render(a)
					if sel.Sel.Name == "Set" && i == 2 {
						as[i] = "_"
					}
				}
				out = append(out, sel.Sel.Name+"("+strings.Join(as, ",")+")")
			} else {
				for _, a := range x.Args { // the store handed to another function
					if c16IsMemory(a) {
						out = append(out, "passed:"+b.render(x.Fun))
					}
				}
			}
		case *ast.IndexExpr:
			if sel, ok := x.X.(*ast.SelectorExpr); ok && c16IsMemory(sel.X) {
				done[sel] = true
				out = append(out, sel.Sel.Name+"["+b.render(x.Index)+"]")
			}
		case *ast.SliceExpr:
			if sel, ok := x.X.(*ast.SelectorExpr); ok && c16IsMemory(sel.X) {
				done[sel] = true
				out = append(out, sel.Sel.Name+"["+b.render(x.Low)+":"+b.render(x.High)+"]")
			}
		case *ast.SelectorExpr:
			if c16IsMemory(x.X) && !done[x] {
				out = append(out, "field:"+x.Sel.Name)
			}
		}
		return true
	})
	return out
}

// c16MemTableAst: every function of memory_table.go as the term it returns (local variables substituted).
func c16MemTableAst(c *Ctx, f *ast.File) {
	for _, d := range f.Decls {
		fd, ok := d.(*ast.FuncDecl)
		if !ok || fd.Recv != nil || fd.Body == nil {
			continue
		}
		b := &c16BodyWalk{pops: map[*ast.CallExpr]int{}, env: map[string]string{}}
		out := "no-return"
		for _, st := range fd.Body.List {
			switch x := st.(type) {
			case *ast.AssignStmt:
				if len(x.Lhs) != len(x.Rhs) {
					out = "unsupported-statement"
					continue
				}
				vals := make([]string, len(x.Rhs))
				for i, r := range x.Rhs {
					vals[i] = b.render(r) // all right-hand sides first (parallel assignment)
				}
				for i, l := range x.Lhs {
					if id, ok := l.(*ast.Ident); ok {
						b.env[id.Name] = vals[i]
					} else {
						out = "unsupported-statement"
					}
				}
			case *ast.ReturnStmt:
				if len(x.Results) == 1 && out == "no-return" {
					out = b.render(x.Results[0])
				} else {
					out = "unsupported-return"
				}
			default:
				out = "unsupported-statement"
			}
		}
		c.Count("mrt:function")
		c.Op("mrt "+fd.Name.Name, out)
	}
}

func c16MemAst(c *Ctx) {
	dir := filepath.Join(repoRoot(), "chain", "vm")
	fset := token.NewFileSet()
	parse := func(name string) *ast.File {
		f, err := parser.ParseFile(fset, filepath.Join(dir, name), nil, 0)
		if err != nil {
			panic(err)
		}
		return f
	}
	jt, ins := parse("jump_table.go"), parse("instructions.go")
	c16MemTableAst(c, parse("memory_table.go"))
	funcs := map[string]*ast.FuncDecl{}
	for _, d := range ins.Decls {
		if fd, ok := d.(*ast.FuncDecl); ok && fd.Recv == nil {
			funcs[fd.Name.Name] = fd
		}
	}
	bodyOf := func(e ast.Expr) (string, *ast.BlockStmt) {
		switch x := e.(type) {
		case *ast.Ident:
			if fd := funcs[x.Name]; fd != nil {
				return x.Name, fd.Body
			}
			return x.Name, nil
		case *ast.CallExpr: // makeEvent(2): the body of the function literal the maker returns
			id, ok := x.Fun.(*ast.Ident)
			if !ok || funcs[id.Name] == nil {
				return "?", nil
			}
			var lit *ast.FuncLit
			ast.Inspect(funcs[id.Name].Body, func(nd ast.Node) bool {
				if r, ok := nd.(*ast.ReturnStmt); ok && len(r.Results) == 1 {
					if fl, ok := r.Results[0].(*ast.FuncLit); ok && lit == nil {
						lit = fl
					}
				}
				return true
			})
			if lit == nil {
				return id.Name, nil
			}
			return id.Name, lit.Body
		}
		return "?", nil
	}
	type row struct {
		exec, mem string
		calls     []string
		ok        bool
	}
	rows := map[int]*row{}
	ast.Inspect(jt, func(nd ast.Node) bool {
		kv, ok := nd.(*ast.KeyValueExpr)
		if !ok {
			return true
		}
		key, ok := kv.Key.(*ast.Ident)
		lit, ok2 := kv.Value.(*ast.CompositeLit)
		if !ok || !ok2 {
			return true
		}
		r := &row{mem: "-"}
		for _, el := range lit.Elts {
			f, ok := el.(*ast.KeyValueExpr)
			if !ok {
				continue
			}
			fk, _ := f.Key.(*ast.Ident)
			if fk == nil {
				continue
			}
			switch fk.Name {
			case "execute":
				name, body := bodyOf(f.Value)
				r.exec, r.ok = name, body != nil
				if body != nil {
					r.calls = c16BodyCalls(body)
				}
			case "memorySize":
				if id, ok := f.Value.(*ast.Ident); ok {
					r.mem = id.Name
				} else {
					r.mem = "?"
				}
			}
		}
		if r.exec == "" {
			return true
		}
		op := int(vm.StringToOp(key.Name))
		if vm.OpCode(op).String() != key.Name {
			c.Fail("c16/harness/ast", "jump_table.go key "+key.Name+" is not an opcode name", nil)
			return true
		}
		rows[op] = r
		return true
	})
	for op := 0; op < 256; op++ {
		r := rows[op]
		if !c16Tab[op].Valid {
			if r != nil {
				c.Fail("c16/harness/ast", fmt.Sprintf("source row for opcode 0x%02x which the live table does not install", op), nil)
			}
			continue
		}
		if r == nil || !r.ok {
			c.Fail("c16/harness/ast", fmt.Sprintf("no source row / body found for the valid opcode 0x%02x", op), nil)
			continue
		}
		if (r.mem != "-") != c16Tab[op].HasMem {
			c.Fail("c16/harness/ast", fmt.Sprintf("opcode 0x%02x: source memorySize=%s but live HasMem=%v", op, r.mem, c16Tab[op].HasMem), nil)
		}
		calls := "-"
		if len(r.calls) > 0 {
			calls = strings.Join(r.calls, ";")
			c.Count("mra:touching-body")
		} else {
			c.Count("mra:no-memory-use")
		}
		c.Op(fmt.Sprintf("mra %d %s", op, r.exec), fmt.Sprintf("mem=%s calls=%s", r.mem, calls))
	}
}

/* ---------- shared helpers ---------- */

var (
	c16P32     = new(big.Int).Lsh(big.NewInt(1), 32)
	c16MemLim  = new(big.Int).SetUint64(c16MemLimit)
	c16MemSelf = c16Addr(0x3e3e01) // never funded: balance 0
	c16MemExt  = c16Addr(0x3e3e02)
)

// boundary words for offsets and sizes
func c16MemBoundary() []*big.Int {
	return []*big.Int{big.NewInt(0), big.NewInt(1), big.NewInt(31), big.NewInt(32), big.NewInt(33),
		c16BigSub(c16P32, 1), c16P32, c16BigAdd(c16P32, 1), c16P63, c16BigSub(c16P64, 1), c16P64, c16BigSub(c16P256, 1),
		c16BigSub(c16MemLim, 32), c16MemLim, c16BigAdd(c16MemLim, 1), c16BigSub(c16P64, 32), c16BigSub(c16P64, 31),
		c16BigSub(c16P64, 33), c16BigSub(c16P64, 64), c16BigAdd(c16P64, 5)}
}

func c16Words(ws []*big.Int) string {
	ss := make([]string, len(ws))
	for i, v := range ws {
		ss[i] = v.String()
	}
	if len(ss) == 0 {
		return "-"
	}
	return strings.Join(ss, ",")
}

func (w *c16World) memEVM(am vm.AccountManager, cfg vm.Config, txHash common.Hash) *vm.EVM {
	ctx := vm.Context{
		CanTransfer:  transaction.CanTransfer,
		Transfer:     transaction.Transfer,
		GetHash:      func(n uint32) common.Hash { return common.BigToHash(big.NewInt(int64(n) + 77)) },
		TxIndex:      1,
		TxHash:       txHash,
		BlockHash:    common.HexToHash("0xb10c"),
		Origin:       w.eoa,
		GasPrice:     big.NewInt(1000000000),
		MinerAddress: w.eoa,
		GasLimit:     105000000,
		BlockHeight:  1000,
		Time:         1538300000,
	}
	cfg.RewardManager = w.rewardMgr
	return vm.NewEVM(ctx, am, cfg)
}

// the slots of the row that are not memory operands get harmless values: call target = the identity
// precompile (0x04), no value, little gas; EXTCODECOPY reads c16MemExt
func c16MemFillOther(op int, ws []*big.Int, r c16Rand) {
	switch op {
	case int(vm.CALL), int(vm.CALLCODE):
		ws[0], ws[1], ws[2] = big.NewInt(int64(1000+r.Intn(5000))), big.NewInt(4), big.NewInt(0)
	case int(vm.DELEGATECALL), int(vm.STATICCALL):
		ws[0], ws[1] = big.NewInt(int64(1000+r.Intn(5000))), big.NewInt(4)
	case int(vm.CREATE):
		ws[0] = big.NewInt(0)
	case int(vm.EXTCODECOPY):
		ws[0] = c16MemExt.Big()
	}
}

func c16IsRangeSlot(op, slot int) bool {
	for _, mr := range c16Tab[op].MemRanges {
		if mr.Off == slot || mr.SizeSlot == slot {
			return true
		}
	}
	return false
}

/* ---------- mrg: memoryGasCost's bound inside every gas function ---------- */

func c16MemGasBound(c *Ctx, w *c16World) {
	am := account.NewManager(w.genesis, w.db)
	evm := w.memEVM(am, vm.Config{}, w.txHash)
	sizes := []uint64{0, 32, 4096, 1<<37 - 32, 1 << 37, 1<<37 + 32, 1 << 38, 1<<39 + 96, c16MemLimit - 32, c16MemLimit, c16MemLimit + 32, 1 << 40, 1 << 63, ^uint64(0) - 31}
	for op := 0; op < 256; op++ {
		if !c16Tab[op].Valid || !c16Tab[op].HasMem {
			continue
		}
		for _, ms := range sizes {
			ws := make([]*big.Int, c16Tab[op].MinStack)
			for i := range ws {
				ws[i] = big.NewInt(0)
			}
			self := vm.AccountRef(c16MemSelf)
			contract := vm.NewContract(self, self, big.NewInt(0), 1<<62)
			out := Safe(func() string {
				g, err := evm.VerifGasCost(byte(op), ws, contract, vm.NewMemory(), ms)
				if err != nil {
					return "err"
				}
				return fmt.Sprintf("ok cost=%d", g)
			})
			c.Count("mrg:" + firstWord(out))
			if ms >= 1<<37 && ms <= c16MemLimit && firstWord(out) == "ok" {
				// words >= 2^32: words*words wraps in uint64 (the model reproduces the wrapped price; LemoProofs.C16.memfee64_wraps)
				c.Count("mrg:quadratic-term-wrapped")
			}
			c.Op(fmt.Sprintf("mrg %d %d", op, ms), out)
			if firstWord(out) == "ok" && ms > c16MemLimit {
				c.Fail("c16/mem-overflow-not-refused/gasfn", fmt.Sprintf("the gas function of opcode 0x%02x prices a memory size of %d bytes (above memoryGasCost's bound)", op, ms), nil)
			}
		}
	}
}

/* ---------- mrs: the memory stage of the real Run ---------- */

type c16StageTracer struct {
	pc    uint64
	seen  bool
	err   error
	mlen  int
	input []byte
	start bool
}

func (t *c16StageTracer) CaptureStart(from common.Address, to common.Address, create bool, input []byte, gas uint64, value *big.Int) error {
	t.input, t.start = append([]byte{}, input...), true
	return nil
}
func (t *c16StageTracer) CaptureState(env *vm.EVM, pc uint64, op vm.OpCode, gas, cost uint64, memory *vm.Memory, stack *vm.Stack, contract *vm.Contract, depth int, err error) error {
	if depth == 1 && pc == t.pc && !t.seen {
		t.seen, t.err, t.mlen = true, err, memory.Len()
	}
	return nil
}
func (t *c16StageTracer) CaptureFault(env *vm.EVM, pc uint64, op vm.OpCode, gas, cost uint64, memory *vm.Memory, stack *vm.Stack, contract *vm.Contract, depth int, err error) error {
	return nil
}
func (t *c16StageTracer) CaptureEnd(output []byte, gasUsed uint64, tm time.Duration, err error) error {
	return nil
}

const c16StageGas = 1000000

func c16MemStage(c *Ctx, w *c16World) {
	r := c.Rnd
	B := c16MemBoundary()
	small := func() *big.Int { return big.NewInt(int64(r.Intn(5000))) }
	pickB := func() *big.Int {
		if r.Intn(5) == 0 {
			return small()
		}
		return B[r.Intn(len(B))]
	}
	for op := 0; op < 256; op++ {
		if !c16Tab[op].Valid || !c16Tab[op].HasMem {
			continue
		}
		n := c16Tab[op].MinStack
		ranges := c16Tab[op].MemRanges
		var cases [][]*big.Int
		mk := func(set map[int]*big.Int, others func() *big.Int) []*big.Int {
			ws := make([]*big.Int, n)
			for i := range ws {
				if c16IsRangeSlot(op, i) {
					ws[i] = big.NewInt(0)
				} else {
					ws[i] = others()
				}
			}
			c16MemFillOther(op, ws, r)
			for k, v := range set {
				ws[k] = v
			}
			return ws
		}
		for ri, mr := range ranges {
			// this range at the boundaries, the other ranges empty / small / random
			otherSet := func(set map[int]*big.Int) {
				for rj, o := range ranges {
					if rj == ri || o.SizeSlot < 0 {
						continue
					}
					switch r.Intn(3) {
					case 0: // empty at a huge offset
						set[o.Off], set[o.SizeSlot] = B[r.Intn(len(B))], big.NewInt(0)
					case 1:
						set[o.Off], set[o.SizeSlot] = small(), small()
					default:
						set[o.Off], set[o.SizeSlot] = pickB(), pickB()
					}
				}
			}
			if mr.SizeSlot < 0 {
				for _, off := range B {
					cases = append(cases, mk(map[int]*big.Int{mr.Off: off}, pickB))
				}
				for k := 0; k < 12; k++ {
					cases = append(cases, mk(map[int]*big.Int{mr.Off: small()}, pickB))
				}
				continue
			}
			fixed := [][2]*big.Int{{c16BigSub(c16P256, 1), big.NewInt(0)}, {c16P64, big.NewInt(0)}, {big.NewInt(0), big.NewInt(0)},
				{big.NewInt(31), big.NewInt(1)}, {big.NewInt(32), big.NewInt(1)}, {big.NewInt(0), big.NewInt(33)},
				{c16BigSub(c16P64, 33), big.NewInt(1)}, {c16BigSub(c16P64, 32), big.NewInt(1)}, {c16BigSub(c16P64, 1), big.NewInt(1)},
				{c16BigSub(c16MemLim, 1), big.NewInt(1)}, {c16MemLim, big.NewInt(1)}, {big.NewInt(1), c16BigSub(c16MemLim, 32)},
				{big.NewInt(0), c16P64}, {c16P64, c16P64}, {c16P63, c16P63}}
			for _, f := range fixed {
				set := map[int]*big.Int{mr.Off: f[0], mr.SizeSlot: f[1]}
				otherSet(set)
				cases = append(cases, mk(set, pickB))
			}
			for k := 0; k < 45*c16MemReps(c); k++ {
				set := map[int]*big.Int{mr.Off: pickB(), mr.SizeSlot: pickB()}
				if k%3 == 0 {
					set[mr.Off], set[mr.SizeSlot] = small(), small()
				}
				otherSet(set)
				cases = append(cases, mk(set, pickB))
			}
		}
		for _, ws := range cases {
			c16MemStageCase(c, w, op, ws)
		}
	}
}

func c16MemStageCase(c *Ctx, w *c16World, op int, ws []*big.Int) {
	am := account.NewManager(w.genesis, w.db)
	// the program: PUSH32 w_{n-1} … PUSH32 w_0 OP
	var code []byte
	for i := len(ws) - 1; i >= 0; i-- {
		code = append(code, byte(opPUSH1+31))
		code = append(code, common.BigToHash(ws[i]).Bytes()...)
	}
	code = append(code, byte(op))
	target := w.slots[0]
	am.GetAccount(target).SetCode(code)
	am.GetAccount(c16MemExt).SetCode([]byte{opPUSH1, 5, opPUSH1, 1, opSSTORE, opSTOP})
	tr := &c16StageTracer{pc: uint64(33 * len(ws))}
	evm := w.memEVM(am, vm.Config{Debug: true, Tracer: tr}, w.txHash)
	msz := "-"
	if v, has := evm.VerifMemorySize(byte(op), ws); has {
		msz = v.String()
	}
	gas := uint64(c16StageGas + 3*len(ws))
	verdict, pmsg := SafeMsg(func() string {
		evm.Call(vm.AccountRef(w.eoa), target, nil, gas, big.NewInt(0))
		switch {
		case !tr.seen:
			return "not-reached"
		case tr.err == nil:
			return fmt.Sprintf("ok mem=%d", tr.mlen)
		case tr.err.Error() == "gas uint64 overflow":
			return "ovf"
		case tr.err == vm.ErrOutOfGas:
			return "oog"
		}
		return "other:" + c16Slug(tr.err.Error())
	})
	c.Count(fmt.Sprintf("mrs:%s/%s", vm.OpCode(op).String(), firstWord(verdict)))
	c.Op(fmt.Sprintf("mrs %d %d %s", op, c16StageGas, c16Words(ws)), "msz="+msz+" "+verdict)
	if verdict == "panic" {
		c.Fail("c16/panic/memory-range", fmt.Sprintf("the real Run panicked executing %s on stack [%s] (top first): %s", vm.OpCode(op).String(), c16Words(ws), pmsg),
			map[string]string{"code": c16Hex(code)})
	}
}

/* ---------- mrx: the real bodies on chosen stores ---------- */

func c16MemExec(c *Ctx, w *c16World) {
	r := c.Rnd
	B := c16MemBoundary()
	// sizes that are safe to hand to a body WITHOUT the gas stage: small, or so large that the int / uint64
	// conversion makes them negative / zero / tiny (nothing is allocated before the bounds panic)
	bigSafe := []*big.Int{c16P63, c16BigSub(c16P64, 1), c16P64, c16BigAdd(c16P64, 5), c16BigSub(c16P256, 1)}
	caseNo := 0
	for op := 0; op < 256; op++ {
		if !c16Tab[op].Valid || !c16Tab[op].HasMem {
			continue
		}
		n := c16Tab[op].MinStack
		for k := 0; k < 70*c16MemReps(c); k++ {
			capN := []int{0, 32, 64, 96, 100, 33}[r.Intn(6)]
			lenN := capN
			if capN > 0 && r.Intn(3) == 0 {
				lenN = r.Intn(capN + 1)
			}
			mode := "r"
			if k%3 == 2 {
				mode = "s"
			}
			near := func() *big.Int {
				v := []int{0, 1, 31, 32, 33, 63, 64, 65, lenN - 1, lenN, lenN + 1, lenN - 32, capN, capN + 1, r.Intn(130)}[r.Intn(15)]
				if v < 0 {
					v = 0
				}
				return big.NewInt(int64(v))
			}
			ws := make([]*big.Int, n)
			for i := range ws {
				ws[i] = B[r.Intn(len(B))]
				if r.Intn(2) == 0 {
					ws[i] = near()
				}
			}
			c16MemFillOther(op, ws, r)
			if (op == int(vm.CALL) || op == int(vm.CALLCODE)) && r.Intn(5) == 0 {
				ws[2] = big.NewInt(1) // value the contract cannot pay: the call fails, nothing is written back
			}
			for _, mr := range c16Tab[op].MemRanges {
				ws[mr.Off] = near()
				if mr.SizeSlot >= 0 {
					ws[mr.SizeSlot] = near()
					switch {
					case r.Intn(6) == 0: // the zero-size short cut at any offset
						ws[mr.Off], ws[mr.SizeSlot] = B[r.Intn(len(B))], big.NewInt(0)
					case mode == "s" && r.Intn(4) == 0:
						ws[mr.SizeSlot] = bigSafe[r.Intn(len(bigSafe))]
					}
				}
				if mode == "s" && r.Intn(4) == 0 {
					ws[mr.Off] = B[r.Intn(len(B))]
				}
			}
			content := make([]byte, capN)
			r.Read(content)
			rb := func(max int) []byte {
				b := make([]byte, r.Intn(max+1))
				r.Read(b)
				return b
			}
			input, code, ext, ret := rb(70), rb(70), rb(40), rb(70)
			caseNo++
			c16MemExecCase(c, w, mode, op, ws, content, lenN, input, code, ext, ret, caseNo)
		}
	}
}

func c16MemExecCase(c *Ctx, w *c16World, mode string, op int, ws []*big.Int, content []byte, lenN int, input, code, ext, ret []byte, caseNo int) {
	am := account.NewManager(w.genesis, w.db)
	am.GetAccount(c16MemExt).SetCode(ext)
	tr := &c16StageTracer{}
	evm := w.memEVM(am, vm.Config{Debug: true, Tracer: tr}, common.BigToHash(big.NewInt(int64(0x3e30000+caseNo))))
	buf := make([]byte, len(content)) // capacity exactly len(content)
	copy(buf, content)
	m := vm.VerifNewMemory(buf, lenN)
	if mode == "r" {
		v, has := evm.VerifMemorySize(byte(op), ws)
		if !has {
			return
		}
		rounded := new(big.Int).Add(v, big.NewInt(31))
		rounded.Div(rounded, big.NewInt(32)).Mul(rounded, big.NewInt(32))
		if rounded.Cmp(big.NewInt(8192)) > 0 {
			c.Count("mrx:skipped-too-large")
			return
		}
		if rounded.Sign() > 0 {
			m.Resize(rounded.Uint64())
		}
	}
	before := append([]byte{}, vm.VerifMemoryBuf(m)...) // the backing array up to its capacity
	self := vm.AccountRef(c16MemSelf)
	contract := vm.NewContract(self, self, big.NewInt(0), 200000)
	contract.Code, contract.Input = code, input
	out, pmsg := SafeMsg(func() string {
		res, after, _ := evm.VerifExecute(byte(op), ws, contract, m, ret, 100000)
		read := "-"
		switch {
		case op == int(vm.SHA3):
			read = "?"
			cands := [][]byte{nil}
			// the hashed bytes are recognised among: nothing, or the slice of the backing array at the low 64 bits of the operands
			lo, sz := new(big.Int).And(ws[0], c16BigSub(c16P64, 1)).Uint64(), new(big.Int).And(ws[1], c16BigSub(c16P64, 1)).Uint64()
			if lo+sz >= lo && lo+sz <= uint64(len(before)) {
				cands = append(cands, before[lo:lo+sz])
			}
			for _, cand := range cands {
				if len(after) > 0 && after[0].Cmp(new(big.Int).SetBytes(crypto.Keccak256(cand))) == 0 {
					read = c16Hex(cand)
				}
			}
		case op == int(vm.MLOAD):
			if len(after) > 0 {
				read = c16Hex(after[0].Bytes())
			}
		case op >= int(vm.LOG0) && op <= int(vm.LOG4):
			read = "?"
			if evs := am.GetAccount(c16MemSelf).GetEvents(); len(evs) > 0 {
				read = c16Hex(evs[len(evs)-1].Data)
			}
		case op == int(vm.CREATE):
			read = "?"
			if tr.start {
				read = c16Hex(tr.input)
			}
		default:
			read = c16Hex(res)
		}
		if mode == "r" {
			return fmt.Sprintf("len=%d vis=%s read=%s", m.Len(), c16Hex(m.Data()), read)
		}
		return fmt.Sprintf("len=%d buf=%s read=%s", m.Len(), c16Hex(vm.VerifMemoryBuf(m)), read)
	})
	c.Count(fmt.Sprintf("mrx:%s/%s/%s", mode, vm.OpCode(op).String(), firstWord(out)[:3]))
	c.Op(fmt.Sprintf("mrx %s %d %s %s %d %s %s %s %s", mode, op, c16Words(ws), c16Hex(content), lenN, c16Hex(input), c16Hex(code), c16Hex(ext), c16Hex(ret)), out)
	if out == "panic" && mode == "r" {
		c.Fail("c16/panic/memory-range", fmt.Sprintf("the body of %s panicked on a store resized as Run resizes it (stack [%s], %d bytes before the resize): %s",
			vm.OpCode(op).String(), c16Words(ws), lenN, pmsg), map[string]string{"stack": c16Words(ws)})
	}
}

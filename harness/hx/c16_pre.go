package main

// C16: length-driven precompiles (MODEXP header words, pairing / dataCopy / hash input lengths).
//
// The structured inputs are executed in a CHILD process (`hx c16-prechild`, same binary) that caps its
// own address space (RLIMIT_AS), because the thing being looked for is "a precompile allocates / panics
// on a length the gas did not pay for": the child may be killed by the allocator; the parent then knows
// which case and phase it was in, reports it, and restarts the child after that case.
//
// Per case three phases: `direct` (RequiredGas + Run on the precompile object, allocation measured),
// `evm` (EVM.Call straight to the precompile address) and `code` (a contract copies its call data to
// memory and CALL/CALLCODE/DELEGATECALL/STATICCALLs the precompile with all its gas).
// Oracles: c16/panic/precompile-<addr>-…, c16/precompile-alloc-not-gas-bounded/precompile-<addr>[/oom].
// Ops (model LemoModel.ModExp): `modexp b e m dlen headBits ran` and `pregas addr len`.

import (
	"bufio"
	"bytes"
	"encoding/hex"
	"encoding/json"
	"fmt"
	"math/big"
	"math/rand"
	"os"
	"os/exec"
	"path/filepath"
	"runtime"
	"strconv"
	"strings"
	"syscall"

	"github.com/LemoFoundationLtd/lemochain-core/chain/account"
	"github.com/LemoFoundationLtd/lemochain-core/chain/vm"
	"github.com/LemoFoundationLtd/lemochain-core/common"
)

func init() { subs["c16-prechild"] = c16PreChild }

const (
	c16PreRunLimit = 10000000 // run a precompile directly only if its price is at most this (far above the EVM phases' gas)
	c16PreEVMGas   = 3000000
	c16PreAS       = 4 << 30 // address-space cap of the child
)

type c16PreCase struct {
	Addr  int    `json:"addr"`
	Input string `json:"input"` // hex
	Kind  string `json:"kind"`
	// memory-operand cases (Kind "memop"): bytecode run as the code of a contract
	Code     string `json:"code,omitempty"`
	Op       int    `json:"op,omitempty"`
	MustFail bool   `json:"mustFail,omitempty"` // the operands name >= 4 GiB of memory: the step must fail cleanly
	Operands string `json:"operands,omitempty"`
}

// c16MemOpCases: every memory-touching instruction with adversarial offset / size operands
func c16MemOpCases(w *c16World) []c16PreCase {
	p2 := func(n uint) *big.Int { return new(big.Int).Lsh(big.NewInt(1), n) }
	sub := func(v *big.Int, k int64) *big.Int { return new(big.Int).Sub(v, big.NewInt(k)) }
	offs := []*big.Int{p2(63), sub(p2(64), 1), sub(p2(64), 32), sub(p2(64), 33), p2(32), p2(40), sub(p2(256), 1), p2(64), new(big.Int).Add(p2(64), big.NewInt(1)), big.NewInt(0)}
	sizes := []*big.Int{big.NewInt(0), big.NewInt(1), big.NewInt(2), big.NewInt(32), big.NewInt(33), p2(32), sub(p2(64), 1), sub(p2(256), 1)}
	big32 := p2(32)
	var out []c16PreCase
	for op := 0; op < 256; op++ {
		o := &c16Tab[op]
		if !o.Valid || !o.HasMem {
			continue
		}
		for ri, r := range o.MemRanges {
			szs := sizes
			if r.SizeSlot < 0 {
				szs = []*big.Int{new(big.Int).SetUint64(r.ConstSize)}
			}
			for _, off := range offs {
				for _, sz := range szs {
					if off.Sign() == 0 && sz.Cmp(big32) < 0 {
						continue // nothing adversarial
					}
					args := make([]*big.Int, o.MinStack)
					for i := range args {
						args[i] = new(big.Int)
					}
					if isCallFamily(byte(op)) {
						args[0] = big.NewInt(100000)
						args[1] = w.empties[0].Big()
					}
					args[r.Off] = off
					if r.SizeSlot >= 0 {
						args[r.SizeSlot] = sz
					}
					a := &asm{}
					for i := len(args) - 1; i >= 0; i-- {
						a.pushBig(args[i])
					}
					a.op(byte(op), opSTOP)
					out = append(out, c16PreCase{Kind: "memop", Op: op, Code: hex.EncodeToString(a.b),
						MustFail: sz.Sign() != 0 && (off.Cmp(big32) >= 0 || sz.Cmp(big32) >= 0),
						Operands: fmt.Sprintf("range %d: offset %s size %s", ri, off, sz)})
				}
			}
		}
	}
	return out
}

type c16PreRes struct {
	Gas     uint64 `json:"gas"`     // direct: RequiredGas; evm/code: gas used
	Ran     bool   `json:"ran"`     // direct: Run was executed
	Outcome string `json:"outcome"` // ok | err:<class> | panic:<slug>
	RetLen  int    `json:"retlen"`
	Alloc   uint64 `json:"alloc"` // bytes allocated during the phase
}

var c16PrePhases = []string{"direct", "evm", "code"}

func c16U256(v *big.Int) []byte { return common.LeftPadBytes(v.Bytes(), 32) }

// c16PreCases: the structured inputs (deterministic in the seed)
func c16PreCases(r *rand.Rand, tier string) []c16PreCase {
	p2 := func(n uint) *big.Int { return new(big.Int).Lsh(big.NewInt(1), n) }
	sub1 := func(v *big.Int) *big.Int { return new(big.Int).Sub(v, big.NewInt(1)) }
	vals := []*big.Int{big.NewInt(0), big.NewInt(1), big.NewInt(31), big.NewInt(32), big.NewInt(33), p2(16), p2(24), p2(32), p2(33), p2(40),
		new(big.Int).Add(p2(48), big.NewInt(1)), p2(62), sub1(p2(63)), sub1(p2(64)), p2(64), p2(200)}
	small := []*big.Int{big.NewInt(0), big.NewInt(1), big.NewInt(32), big.NewInt(33)}
	var out []c16PreCase
	add := func(addr int, kind string, in []byte) {
		out = append(out, c16PreCase{Addr: addr, Kind: kind, Input: hex.EncodeToString(in)})
	}
	modexp := func(kind string, b, e, m *big.Int, data []byte) {
		in := append(append(append([]byte{}, c16U256(b)...), c16U256(e)...), c16U256(m)...)
		add(5, kind, append(in, data...))
	}
	rnd := func(n int) []byte { b := make([]byte, n); r.Read(b); return b }
	// every exponent length with zero / small operand lengths (where the price does not depend on it, or barely)
	for _, e := range vals {
		for _, b := range small {
			for _, m := range small {
				modexp("modexp:small-operands", b, e, m, nil)
				if r.Intn(3) == 0 {
					modexp("modexp:small-operands+data", b, e, m, rnd(1+r.Intn(70)))
				}
			}
		}
	}
	// the full grid, sampled in the quick tier
	for _, b := range vals {
		for _, e := range vals {
			for _, m := range vals {
				if tier != "thorough" && r.Intn(6) != 0 {
					continue
				}
				var data []byte
				if r.Intn(2) == 0 {
					data = rnd(r.Intn(100))
				}
				modexp("modexp:grid", b, e, m, data)
			}
		}
	}
	// random headers, truncated headers
	for i := 0; i < 60; i++ {
		pick := func() *big.Int {
			if r.Intn(2) == 0 {
				return vals[r.Intn(len(vals))]
			}
			return new(big.Int).Rand(r, p2(uint(1+r.Intn(70))))
		}
		modexp("modexp:random", pick(), pick(), pick(), rnd(r.Intn(120)))
	}
	for _, n := range []int{0, 1, 31, 32, 64, 95} {
		add(5, "modexp:truncated-header", rnd(n))
	}
	// valid arithmetic (EIP-198 style): 3^e mod m
	modexp("modexp:valid", big.NewInt(1), big.NewInt(32), big.NewInt(32), append(append([]byte{3}, c16U256(sub1(p2(255)))...), c16U256(sub1(p2(200)))...))
	// length-driven gas of the other precompiles
	for _, n := range []int{0, 1, 31, 32, 33, 191, 192, 193, 384, 1920, 1 << 16, 1 << 20} {
		for _, a := range []int{2, 3, 4} {
			add(a, "length", rnd(n))
		}
		if n <= 1920 {
			add(8, "length", make([]byte, n)) // zero points: valid pairs when the size is right
			add(8, "length", rnd(n))
		}
	}
	return out
}

// c16ModExpHeader: the model's view of a MODEXP input, computed without calling the precompile
func c16ModExpHeader(in []byte) (b, e, m *big.Int, dlen int, headBits int) {
	get := func(data []byte, start, size uint64) []byte {
		l := uint64(len(data))
		if start > l {
			start = l
		}
		end := start + size
		if end > l || end < start {
			end = l
		}
		out := make([]byte, size)
		copy(out, data[start:end])
		return out
	}
	b = new(big.Int).SetBytes(get(in, 0, 32))
	e = new(big.Int).SetBytes(get(in, 32, 32))
	m = new(big.Int).SetBytes(get(in, 64, 32))
	var data []byte
	if len(in) > 96 {
		data = in[96:]
	}
	dlen = len(data)
	size := uint64(32)
	if e.Cmp(big.NewInt(32)) <= 0 {
		size = e.Uint64()
	}
	headBits = new(big.Int).SetBytes(get(data, b.Uint64(), size)).BitLen()
	return
}

// ---------------------------------------------------------------- child

func c16PreChild(c *Ctx) {
	syscall.Setrlimit(syscall.RLIMIT_AS, &syscall.Rlimit{Cur: c16PreAS, Max: c16PreAS})
	var cases []c16PreCase
	raw, err := os.ReadFile(os.Getenv("VERIF_C16_PRE_CASES"))
	if err != nil {
		panic(err)
	}
	for _, l := range strings.Split(string(raw), "\n") {
		if l == "" {
			continue
		}
		var cs c16PreCase
		if err := json.Unmarshal([]byte(l), &cs); err != nil {
			panic(err)
		}
		cases = append(cases, cs)
	}
	start, _ := strconv.Atoi(os.Getenv("VERIF_C16_PRE_START"))
	startPhase, _ := strconv.Atoi(os.Getenv("VERIF_C16_PRE_PHASE"))
	w := newC16World()
	defer w.close()
	out := bufio.NewWriter(os.Stdout)
	say := func(format string, a ...interface{}) { fmt.Fprintf(out, format+"\n", a...); out.Flush() }
	measure := func(f func() c16PreRes) (res c16PreRes) {
		var m0, m1 runtime.MemStats
		runtime.ReadMemStats(&m0)
		defer func() {
			if r := recover(); r != nil {
				res.Outcome = "panic:" + c16Slug(fmt.Sprint(r))
			}
			runtime.ReadMemStats(&m1)
			res.Alloc = m1.TotalAlloc - m0.TotalAlloc
		}()
		return f()
	}
	callOps := []byte{opCALL, opCALLCODE, opDELEGATECALL, opSTATICCALL}
	for i := start; i < len(cases); i++ {
		cs := cases[i]
		if cs.Kind == "memop" {
			code, _ := hex.DecodeString(cs.Code)
			say("b %d 0", i)
			am := account.NewManager(w.genesis, w.db)
			am.GetAccount(w.slots[0]).SetCode(code)
			evm := w.newEVM(am, vm.Config{})
			res := measure(func() (r c16PreRes) {
				ret, left, err := evm.Call(vm.AccountRef(w.eoa), w.slots[0], nil, c16PreEVMGas, new(big.Int))
				r.Ran = true
				r.Gas = c16PreEVMGas - left
				r.RetLen = len(ret)
				r.Outcome = "ok"
				if err != nil {
					r.Outcome = "err:" + c16Err(err)
				}
				return
			})
			js, _ := json.Marshal(res)
			say("r %d 0 %s", i, js)
			continue
		}
		in, _ := hex.DecodeString(cs.Input)
		addr := common.BytesToAddress([]byte{byte(cs.Addr)})
		p := vm.PrecompiledContracts[addr]
		for ph, name := range c16PrePhases {
			if i == start && ph < startPhase {
				continue
			}
			say("b %d %d", i, ph)
			var res c16PreRes
			switch name {
			case "direct":
				res = measure(func() (r c16PreRes) {
					r.Gas = p.RequiredGas(in)
					if r.Gas > c16PreRunLimit {
						r.Outcome = "unaffordable"
						return
					}
					r.Ran = true
					ret, err := p.Run(in)
					r.RetLen = len(ret)
					r.Outcome = "ok"
					if err != nil {
						r.Outcome = "err:" + c16Slug(err.Error())
					}
					return
				})
			default:
				am := account.NewManager(w.genesis, w.db)
				target := addr
				if name == "code" {
					a := &asm{}
					a.op(opCALLDATASIZE).push(0).push(0).op(opCALLDATACOPY)
					op := callOps[i%len(callOps)]
					a.push(0).push(0).op(opCALLDATASIZE).push(0)
					if op == opCALL || op == opCALLCODE {
						a.push(0)
					}
					a.pushAddr(addr).op(opGAS).op(op, opPOP, opSTOP)
					am.GetAccount(w.slots[0]).SetCode(a.b)
					target = w.slots[0]
				}
				evm := w.newEVM(am, vm.Config{})
				res = measure(func() (r c16PreRes) {
					ret, left, err := evm.Call(vm.AccountRef(w.eoa), target, in, c16PreEVMGas, new(big.Int))
					r.Ran = true
					r.Gas = c16PreEVMGas - left
					r.RetLen = len(ret)
					r.Outcome = "ok"
					if err != nil {
						r.Outcome = "err:" + c16Err(err)
					}
					return
				})
			}
			js, _ := json.Marshal(res)
			say("r %d %d %s", i, ph, js)
		}
	}
	say("done")
}

// ---------------------------------------------------------------- parent

// c16PrePhase runs all structured precompile cases in children and turns the results into ops + oracle.
func c16PrePhase(c *Ctx, w *c16World) (memOpsClean bool) {
	cases := c16PreCases(rand.New(rand.NewSource(c.Seed*7919+16)), c.Tier)
	cases = append(c16MemOpCases(w), cases...)
	memOpsClean = true
	dir := filepath.Join(c.Out, "prechild")
	os.RemoveAll(dir)
	os.MkdirAll(filepath.Join(dir, "tmp"), 0755)
	defer os.RemoveAll(dir)
	cf := filepath.Join(dir, "cases.jsonl")
	var sb strings.Builder
	for _, cs := range cases {
		js, _ := json.Marshal(cs)
		sb.Write(js)
		sb.WriteByte('\n')
	}
	os.WriteFile(cf, []byte(sb.String()), 0644)
	exe, err := os.Executable()
	if err != nil {
		panic(err)
	}
	results := make([][]*c16PreRes, len(cases))
	for i := range results {
		results[i] = make([]*c16PreRes, len(c16PrePhases))
	}
	died := map[[2]int]string{}
	start, phase, restarts := 0, 0, 0
	for start < len(cases) && restarts < 400 {
		cmd := exec.Command(exe, "c16-prechild", "-out", filepath.Join(dir, "out"))
		cmd.Env = append(os.Environ(), "VERIF_C16_PRE_CASES="+cf, fmt.Sprintf("VERIF_C16_PRE_START=%d", start),
			fmt.Sprintf("VERIF_C16_PRE_PHASE=%d", phase), "TMPDIR="+filepath.Join(dir, "tmp"), "GOMEMLIMIT=3GiB", "GOTRACEBACK=single")
		var stderr bytes.Buffer
		cmd.Stderr = &stderr
		stdout, _ := cmd.StdoutPipe()
		if err := cmd.Start(); err != nil {
			panic(err)
		}
		sc := bufio.NewScanner(stdout)
		sc.Buffer(make([]byte, 1<<20), 1<<20)
		curI, curP, finished := -1, -1, false
		for sc.Scan() {
			f := strings.SplitN(sc.Text(), " ", 4)
			switch f[0] {
			case "b":
				curI, _ = strconv.Atoi(f[1])
				curP, _ = strconv.Atoi(f[2])
			case "r":
				i, _ := strconv.Atoi(f[1])
				p, _ := strconv.Atoi(f[2])
				var res c16PreRes
				json.Unmarshal([]byte(f[3]), &res)
				results[i][p] = &res
				curI, curP = -1, -1
			case "done":
				finished = true
			}
		}
		cmd.Wait()
		os.RemoveAll(filepath.Join(dir, "tmp"))
		os.MkdirAll(filepath.Join(dir, "tmp"), 0755)
		if finished {
			break
		}
		restarts++
		if curI < 0 { // died outside a case: give up on the rest
			c.Fail("c16/precompile-child-broken", "child died outside a case: "+tail(stderr.String(), 600), nil)
			break
		}
		died[[2]int{curI, curP}] = c16CrashLine(stderr.String())
		start, phase = curI, curP+1
		if phase >= len(c16PrePhases) || cases[curI].Kind == "memop" {
			start, phase = curI+1, 0
		}
	}
	c.Count(fmt.Sprintf("pre:child-restarts=%d", restarts))

	for i, cs := range cases {
		if cs.Kind == "memop" {
			name := strings.ToLower(vm.OpCode(cs.Op).String())
			replay := map[string]interface{}{"kind": "memop", "op": name, "code": cs.Code, "operands": cs.Operands, "gas": c16PreEVMGas}
			what := fmt.Sprintf("%s with %s (contract code %s, gas %d)", vm.OpCode(cs.Op), cs.Operands, cs.Code, c16PreEVMGas)
			c.Count("memop:" + name)
			if msg, ok := died[[2]int{i, 0}]; ok {
				memOpsClean = false
				low := strings.ToLower(msg)
				if strings.Contains(low, "out of memory") || strings.Contains(low, "cannot allocate") {
					c.Fail("c16/alloc-not-gas-bounded/"+name+"/oom", what+": the process ran out of its address space: "+msg, replay)
				} else {
					c.Fail("c16/panic/memory-operand-"+name+"-process-died", what+": the process died: "+msg, replay)
				}
				continue
			}
			res := results[i][0]
			if res == nil {
				c.Count("memop:not-run")
				continue
			}
			c.Count("memop:outcome=" + strings.SplitN(res.Outcome, ":", 2)[0])
			switch {
			case strings.HasPrefix(res.Outcome, "panic:"):
				memOpsClean = false
				c.Fail("c16/panic/memory-operand-"+name, what+": panic "+strings.TrimPrefix(res.Outcome, "panic:"), replay)
			case cs.MustFail && res.Outcome == "ok":
				memOpsClean = false
				c.Fail("c16/memory-operand-not-refused/"+name, what+": the call succeeded although the operands name at least 4 GiB of memory", replay)
			}
			if bound := uint64(8<<20) + 64*res.Gas; res.Alloc > bound {
				memOpsClean = false
				c.Fail("c16/alloc-not-gas-bounded/"+name, fmt.Sprintf("%s: %d bytes allocated for %d gas (bound %d)", what, res.Alloc, res.Gas, bound), replay)
			}
			continue
		}
		in, _ := hex.DecodeString(cs.Input)
		replay := map[string]interface{}{"precompile": cs.Addr, "input": cs.Input, "kind": cs.Kind}
		c.Count("pre:kind=" + cs.Kind)
		for p, name := range c16PrePhases {
			replay["phase"] = name
			if msg, ok := died[[2]int{i, p}]; ok {
				low := strings.ToLower(msg)
				if strings.Contains(low, "out of memory") || strings.Contains(low, "cannot allocate") {
					c.Fail(fmt.Sprintf("c16/precompile-alloc-not-gas-bounded/precompile-%d/oom", cs.Addr),
						fmt.Sprintf("precompile %d, phase %s: the process ran out of its %d GiB address space on input %s: %s", cs.Addr, name, c16PreAS>>30, c16Short(cs.Input), firstLine(msg)), replay)
				} else {
					c.Fail(fmt.Sprintf("c16/panic/precompile-%d-process-died", cs.Addr),
						fmt.Sprintf("precompile %d, phase %s: the process died on input %s: %s", cs.Addr, name, c16Short(cs.Input), firstLine(msg)), replay)
				}
				c.Count("pre:" + name + ":process-died")
				continue
			}
			res := results[i][p]
			if res == nil {
				c.Count("pre:" + name + ":not-run")
				continue
			}
			c.Count("pre:" + name + ":" + strings.SplitN(res.Outcome, ":", 2)[0])
			if strings.HasPrefix(res.Outcome, "panic:") {
				c.Fail(fmt.Sprintf("c16/panic/precompile-%d-%s", cs.Addr, strings.TrimPrefix(res.Outcome, "panic:")),
					fmt.Sprintf("precompile %d panics (phase %s, gas charged %d) on input %s", cs.Addr, name, res.Gas, c16Short(cs.Input)), replay)
			}
			// memory must be paid for: a generous bound proportional to the gas charged and the input supplied
			slack := uint64(1 << 20)
			if name != "direct" {
				slack = 8 << 20 // interpreter stack, memory, account cache
			}
			if bound := slack + 64*uint64(len(in)) + 64*res.Gas; res.Alloc > bound {
				c.Fail(fmt.Sprintf("c16/precompile-alloc-not-gas-bounded/precompile-%d", cs.Addr),
					fmt.Sprintf("precompile %d, phase %s: %d bytes allocated for %d gas and %d input bytes (bound %d) on input %s", cs.Addr, name, res.Alloc, res.Gas, len(in), bound, c16Short(cs.Input)), replay)
			}
		}
		// correspondence with the length model
		d := results[i][0]
		switch {
		case cs.Addr == 5:
			b, e, m, dlen, hb := c16ModExpHeader(in)
			ran, out := 0, "gas=? ret=?"
			if d != nil {
				ret := "-"
				if d.Ran {
					ran = 1
					ret = fmt.Sprint(d.RetLen)
					if strings.HasPrefix(d.Outcome, "panic:") {
						ret = "panic"
					}
				}
				out = fmt.Sprintf("gas=%d ret=%s", d.Gas, ret)
			} else if _, ok := died[[2]int{i, 0}]; ok {
				ran, out = 1, "gas=? ret=process-died"
			}
			c.Op(fmt.Sprintf("modexp %s %s %s %d %d %d", b, e, m, dlen, hb, ran), out)
		case d != nil && d.Ran && (cs.Addr == 2 || cs.Addr == 3):
			c.Op(fmt.Sprintf("pregas %d %d", cs.Addr, len(in)), fmt.Sprintf("gas=%d", d.Gas))
		case d != nil && d.Ran && cs.Addr == 4:
			c.Op(fmt.Sprintf("pregas %d %d", cs.Addr, len(in)), fmt.Sprintf("gas=%d ret=%d", d.Gas, d.RetLen))
		case d != nil && d.Ran && cs.Addr == 8:
			c.Op(fmt.Sprintf("pregas %d %d", cs.Addr, len(in)), fmt.Sprintf("gas=%d sizeerr=%d", d.Gas, b01(d.Outcome == "err:bad-elliptic-curve-pairing-size")))
		}
	}
	return memOpsClean
}

// c16CrashLine: the line of a Go crash dump that says what happened
func c16CrashLine(s string) string {
	for _, l := range strings.Split(s, "\n") {
		if strings.HasPrefix(l, "fatal error:") || strings.HasPrefix(l, "panic:") || strings.HasPrefix(l, "runtime:") {
			return strings.TrimSpace(l)
		}
	}
	if len(s) > 300 {
		s = s[:300]
	}
	return strings.TrimSpace(s)
}

func c16Short(h string) string {
	if len(h) > 200 {
		return h[:200] + "…(" + fmt.Sprint(len(h)/2) + " bytes)"
	}
	return h
}

func tail(s string, n int) string {
	if len(s) > n {
		return s[len(s)-n:]
	}
	return s
}

func firstLine(s string) string {
	for _, l := range strings.Split(s, "\n") {
		if strings.TrimSpace(l) != "" {
			return strings.TrimSpace(l)
		}
	}
	return ""
}

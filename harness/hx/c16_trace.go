package main

// C16: tracer (per-step resource accounting of the real interpreter), trace-level
// direct checks, and emission of the op lines replayed by the Lean model.

import (
	"fmt"
	"math/big"
	"os"
	"strings"
	"time"

	"github.com/LemoFoundationLtd/lemochain-core/chain/account"
	"github.com/LemoFoundationLtd/lemochain-core/chain/params"
	"github.com/LemoFoundationLtd/lemochain-core/chain/types"
	"github.com/LemoFoundationLtd/lemochain-core/chain/vm"
	"github.com/LemoFoundationLtd/lemochain-core/common"
	"github.com/LemoFoundationLtd/lemochain-core/common/crypto"
	"github.com/LemoFoundationLtd/lemochain-core/common/math"
)

type c16Step struct {
	depth    int
	pc       uint64
	op       byte
	gas      uint64
	cost     uint64
	stackLen int
	err      string // failure before execution (class), "" if none
	fault    string // failure/revert during execution (class), "" if none
	ro       bool
	temp     uint64
	jlen     int
	top      *big.Int
	// call family / create
	hasArgs     bool
	req         *big.Int
	value       bool
	canTransfer bool
	callee      string
	preq        uint64
	paddr       uint64
	isReward    bool
	retLen      uint64
	suicided    bool
	st          []*big.Int // the top (up to 7) stack items before the step, st[0] = top
	memBefore   int        // words of memory before the step (tracked from memory.Len() of earlier steps of the frame)
	memAfter    int        // memory.Len()/32 at capture time (after Resize when the gas stage passed)
	bits        [3]bool    // slotEmpty (SSTORE), beneficiaryNew (SELFDESTRUCT), calleeNew (CALL with value)
	wt          []int // ChangeLogTypes pushed by this step (observed when the next step is in the same frame)
	jabs        int   // absolute journal length before the step
	prun        string // pure precompile: outcome of running it independently ("ok"/"err"/"")
}

type c16Tracer struct {
	am       *account.Manager
	evm      *vm.EVM
	w        *c16World
	steps    []c16Step
	max      int
	overflow bool
	maxDepth int
	nsteps   int
	jlen0    int
	// top-level entry
	bCanTransfer bool
	bCallee      string
	bPreq        uint64
	bPaddr       uint64
	bReward      bool
	badDepth     string
	curMem       map[int]int     // depth -> words of memory of the live frame at that depth
	lastDepth    int
	destructed   map[string]bool // accounts (dump key) that executed SELFDESTRUCT
	prePanic     string
	prePanicSig  string
	prePanicGas  uint64
	firstTypes   []int // log types pushed between the entry and the first executed step
	sawFirst     bool
	// asset entry
	aEarly      bool
	aAmountZero bool
}

func isCallFamily(op byte) bool {
	return op == opCALL || op == opCALLCODE || op == opDELEGATECALL || op == opSTATICCALL
}

// c16PreWrites: address -> declared state-modifying (vm.VerifPrecompiles), filled by c16EmitTable
var c16PreWrites = map[uint64]bool{}

func c16LogTypes(logs []*types.ChangeLog) []int {
	out := make([]int, len(logs))
	for i, l := range logs {
		out[i] = int(l.LogType)
	}
	return out
}

// c16RLE: run-length encoding of a list of log types, e.g. "1x2 2 15"
func c16RLE(ts []int) string {
	var sb strings.Builder
	for i := 0; i < len(ts); {
		j := i
		for j < len(ts) && ts[j] == ts[i] {
			j++
		}
		if sb.Len() > 0 {
			sb.WriteByte(',')
		}
		if j-i > 1 {
			fmt.Fprintf(&sb, "%dx%d", ts[i], j-i)
		} else {
			fmt.Fprintf(&sb, "%d", ts[i])
		}
		i = j
	}
	if sb.Len() == 0 {
		return "-"
	}
	return sb.String()
}

func c16Tags(ts []int) string {
	if len(ts) == 0 {
		return "-"
	}
	var p []string
	for _, t := range ts {
		p = append(p, fmt.Sprint(t))
	}
	return strings.Join(p, ",")
}

// classify returns the callee class, the precompile address, its RequiredGas and whether the code
// declares it state-modifying.
func (t *c16Tracer) classify(addr common.Address, input func() []byte) (callee string, paddr uint64, preq uint64, writes bool) {
	if p := vm.PrecompiledContracts[addr]; p != nil {
		a := addr.Big().Uint64()
		return "pre", a, p.RequiredGas(input()), c16PreWrites[a]
	}
	code, err := t.am.GetAccount(addr).GetCode()
	if err != nil {
		return "loadfail", 0, 0, false
	}
	if len(code) == 0 {
		return "empty", 0, 0, false
	}
	return "code", 0, 0, false
}

func (t *c16Tracer) begin(w *c16World, cs *c16Case, am *account.Manager) {
	t.w = w
	t.jlen0 = len(am.GetChangeLogs())
	value := new(big.Int).SetUint64(cs.Value)
	t.bCanTransfer = true
	switch cs.Entry {
	case "call":
		t.bCanTransfer = am.GetAccount(cs.Caller).GetBalance().Cmp(value) >= 0
		t.bCallee, t.bPaddr, t.bPreq, t.bReward = t.classify(cs.Target, func() []byte { return cs.input })
	case "static":
		t.bCallee, t.bPaddr, t.bPreq, t.bReward = t.classify(cs.Target, func() []byte { return cs.input })
	case "asset":
		t.bCallee, t.bPaddr, t.bPreq, t.bReward = t.classify(cs.Target, func() []byte {
			if ta, err := types.GetTransferAsset(cs.assetTx); err == nil {
				return ta.Input
			}
			return nil
		})
		if ta, err := types.GetTransferAsset(cs.assetTx); err == nil && ta.Amount != nil {
			t.aAmountZero = ta.Amount.Sign() == 0
		}
	case "create":
		t.bCanTransfer = am.GetAccount(cs.Caller).GetBalance().Cmp(value) >= 0
		switch {
		case !am.GetAccount(crypto.CreateContractAddress(cs.Caller, w.txHash)).IsEmpty():
			t.bCallee = "collision"
		case len(cs.input) == 0:
			t.bCallee = "empty"
		default:
			t.bCallee = "code"
		}
	}
}

func (t *c16Tracer) finish(res c16Result) {}

func (t *c16Tracer) CaptureStart(from common.Address, to common.Address, call bool, input []byte, gas uint64, value *big.Int) error {
	return nil
}
func (t *c16Tracer) CaptureEnd(output []byte, gasUsed uint64, d time.Duration, err error) error {
	return nil
}

func (t *c16Tracer) CaptureState(env *vm.EVM, pc uint64, op vm.OpCode, gas, cost uint64, memory *vm.Memory, stack *vm.Stack, contract *vm.Contract, depth int, err error) error {
	t.nsteps++
	if depth > t.maxDepth {
		t.maxDepth = depth
	}
	if depth != env.VerifDepth() && t.badDepth == "" {
		t.badDepth = fmt.Sprintf("tracer depth %d != evm.depth %d", depth, env.VerifDepth())
	}
	if byte(op) == opSELFDESTRUCT && err == nil {
		if t.destructed == nil {
			t.destructed = map[string]bool{}
		}
		a := contract.GetAddress()
		t.destructed[fmt.Sprintf("%x", a[len(a)-4:])] = true
	}
	if len(t.steps) >= t.max {
		t.overflow = true
		return nil
	}
	logs := t.am.GetChangeLogs()
	if !t.sawFirst {
		t.sawFirst = true
		t.firstTypes = c16LogTypes(logs[t.jlen0:])
	}
	if n := len(t.steps); n > 0 {
		if prev := &t.steps[n-1]; prev.depth == depth && prev.err == "" && len(logs) > prev.jabs {
			prev.wt = c16LogTypes(logs[prev.jabs:])
		}
	}
	data := stack.Data()
	s := c16Step{jabs: len(logs), depth: depth, pc: pc, op: byte(op), gas: gas, cost: cost, stackLen: len(data), ro: env.VerifReadOnly(),
		temp: env.VerifCallGasTemp(), jlen: len(t.am.GetChangeLogs()) - t.jlen0, canTransfer: true, callee: "none"}
	if err != nil {
		s.err = c16Err(err)
	}
	if len(data) > 0 {
		s.top = new(big.Int).Set(data[len(data)-1])
	}
	for i := 0; i < 7 && i < len(data); i++ {
		s.st = append(s.st, new(big.Int).Set(data[len(data)-1-i]))
	}
	if t.curMem == nil {
		t.curMem = map[int]int{}
	}
	if depth > t.lastDepth {
		t.curMem[depth] = 0 // a new frame
	}
	t.lastDepth = depth
	s.memBefore = t.curMem[depth]
	s.memAfter = memory.Len() / 32
	t.curMem[depth] = s.memAfter
	b := byte(op)
	self := contract.GetAddress()
	switch {
	case b == opSSTORE && len(data) >= 2:
		v, e := t.am.GetAccount(self).GetStorageState(common.BigToHash(data[len(data)-1]))
		s.bits[0] = e == nil && len(v) == 0
	case b == opSELFDESTRUCT && len(data) >= 1:
		s.bits[1] = t.am.GetAccount(common.BigToAddress(data[len(data)-1])).IsEmpty() && t.am.GetAccount(self).GetBalance().Sign() != 0
	case b == opCALL && len(data) >= 3:
		s.bits[2] = t.am.GetAccount(common.BigToAddress(data[len(data)-2])).IsEmpty()
	}
	switch {
	case isCallFamily(b):
		need := 6
		if b == opCALL || b == opCALLCODE {
			need = 7
		}
		if len(data) >= need {
			s.hasArgs = true
			s.req = new(big.Int).Set(stack.Back(0))
			addr := common.BigToAddress(stack.Back(1))
			inOff, inSize := stack.Back(2), stack.Back(3)
			if need == 7 {
				v := math.U256(new(big.Int).Set(stack.Back(2)))
				s.value = v.Sign() != 0
				s.canTransfer = t.am.GetAccount(self).GetBalance().Cmp(v) >= 0
				inOff, inSize = stack.Back(3), stack.Back(4)
			}
			if err == nil {
				s.callee, s.paddr, s.preq, s.isReward = t.classify(addr, func() []byte { return memory.Get(inOff.Int64(), inSize.Int64()) })
				if s.callee == "pre" && !s.isReward {
					// precompiles 1..8 are pure: run them independently of the EVM to know the outcome
					in := memory.Get(inOff.Int64(), inSize.Int64())
					var pmsg string
					s.prun, pmsg = SafeMsg(func() string {
						if _, e := vm.PrecompiledContracts[addr].Run(in); e != nil {
							return "err"
						}
						return "ok"
					})
					if s.prun == "panic" {
						t.prePanic = fmt.Sprintf("precompile %d (RequiredGas %d) panics on input %x: %s", s.paddr, s.preq, in, pmsg)
						t.prePanicGas = s.preq
						t.prePanicSig = fmt.Sprintf("c16/panic/precompile-%d-%s", s.paddr, c16Slug(pmsg))
					}
				}
			}
		}
	case b == opCREATE:
		if len(data) >= 3 {
			s.hasArgs = true
			v := stack.Back(0)
			s.value = v.Sign() != 0
			s.canTransfer = t.am.GetAccount(self).GetBalance().Cmp(v) >= 0
			if err == nil {
				switch {
				case !t.am.GetAccount(crypto.CreateContractAddress(self, t.w.txHash)).IsEmpty():
					s.callee = "collision"
				case stack.Back(2).Sign() == 0:
					s.callee = "empty"
				default:
					s.callee = "code"
				}
			}
		}
	case b == opRETURN:
		if len(data) >= 2 && stack.Back(1).BitLen() <= 64 {
			s.retLen = stack.Back(1).Uint64()
		}
	case b == opSELFDESTRUCT:
		s.suicided = t.am.GetAccount(self).GetSuicide()

	}
	t.steps = append(t.steps, s)
	return nil
}

func (t *c16Tracer) CaptureFault(env *vm.EVM, pc uint64, op vm.OpCode, gas, cost uint64, memory *vm.Memory, stack *vm.Stack, contract *vm.Contract, depth int, err error) error {
	if t.overflow || len(t.steps) == 0 {
		return nil
	}
	last := &t.steps[len(t.steps)-1]
	if last.depth != depth || last.pc != pc {
		if t.badDepth == "" {
			t.badDepth = fmt.Sprintf("fault at depth %d pc %d does not follow its step (depth %d pc %d)", depth, pc, last.depth, last.pc)
		}
		return nil
	}
	f := c16Err(err)
	if f != "revert" {
		f = "exec"
	}
	last.fault = f
	return nil
}

// check: direct trace-level oracle (depth bound, gas bound per step, 63/64 rule).
func (t *c16Tracer) check(c *Ctx, cs *c16Case) {
	if t.prePanic != "" {
		c.Count("pre-indep:panics-standalone")
		if t.prePanicGas <= 105000000 { // affordable within one block's gas limit: a transaction can crash the node
			c.Fail(t.prePanicSig, t.prePanic, cs)
		}
	}
	if t.badDepth != "" {
		c.Fail("c16/trace-inconsistent", t.badDepth, cs)
	}
	if t.maxDepth > int(params.CallCreateDepth)+1 {
		c.Fail("c16/depth-exceeded", fmt.Sprintf("interpreter ran at depth %d > %d", t.maxDepth, params.CallCreateDepth+1), cs)
	}
	if t.maxDepth == int(params.CallCreateDepth)+1 {
		c.Count("nontrivial:depth-limit-reached")
	}
	if t.maxDepth >= 3 {
		c.Count("nontrivial:depth>=3")
	}
	for i := range t.steps {
		s := &t.steps[i]
		if s.gas > cs.Gas {
			c.Fail("c16/frame-gas-exceeds-supplied", fmt.Sprintf("step %d depth %d has gas %d > supplied %d", i, s.depth, s.gas, cs.Gas), cs)
			break
		}
		if s.err != "" || s.fault != "" || i+1 >= len(t.steps) || t.steps[i+1].depth != s.depth+1 {
			continue
		}
		child := t.steps[i+1].gas
		var bound uint64
		if isCallFamily(s.op) {
			base := s.cost - s.temp
			avail := s.gas - base
			bound = avail - avail/64
			if s.value && (s.op == opCALL || s.op == opCALLCODE) {
				bound += params.CallStipend
			}
		} else if s.op == opCREATE {
			after := s.gas - s.cost
			bound = after - after/64
		} else {
			c.Fail("c16/trace-inconsistent", fmt.Sprintf("depth grows after non-call op 0x%x", s.op), cs)
			continue
		}
		if child > bound {
			c.Fail("c16/child-gas-exceeds-63-64", fmt.Sprintf("op 0x%x at gas %d cost %d gave the child %d > %d", s.op, s.gas, s.cost, child, bound), cs)
		}
	}
}

func b01(b bool) int {
	if b {
		return 1
	}
	return 0
}

// emit writes the op lines of one case (begin, one line per executed step, end).
func (t *c16Tracer) emit(c *Ctx, cs *c16Case, res c16Result) {
	if res.panicMsg != "" {
		c.Count("trace:skipped-panic")
		return
	}
	if t.overflow {
		c.Count("trace:NOT-REPLAYED-over-20000-steps")
		return
	}
	if len(t.steps) > cs.maxTrace {
		// long traces are replayed in full only while the per-run budget lasts (line volume)
		if t.w.longBudget <= 0 {
			c.Count("trace:NOT-REPLAYED-long-budget-exhausted")
			return
		}
		t.w.longBudget--
		c.Count("trace:replayed-long")
	}
	c.Count("trace:replayed")
	pok := res.err == "nil" && res.nonVM == ""
	ptags := "-"
	if t.bReward && pok {
		ptags = fmt.Sprint(int(account.StorageLog))
	}
	if cs.Entry == "asset" {
		wt := "-"
		switch {
		case len(t.steps) > 0:
			wt = c16Tags(t.firstTypes)
		case pok:
			wt = c16Tags(res.newTypes)
		}
		c.Op(fmt.Sprintf("begin-asset %d %d %d %s %d %d %d %s", cs.Gas, b01(res.nonVM != ""), b01(t.aAmountZero), orNone(t.bCallee), t.bPaddr, t.bPreq, b01(pok), wt), "ok")
	} else {
		c.Op(fmt.Sprintf("begin %s %d %d %d %s %d %d %d %s", cs.Entry, cs.Gas, b01(cs.Value != 0), b01(t.bCanTransfer), orNone(t.bCallee), t.bPaddr, t.bPreq, b01(pok), ptags), "ok")
	}
	for i := range t.steps {
		s := &t.steps[i]
		var next *c16Step
		if i+1 < len(t.steps) {
			next = &t.steps[i+1]
		}
		c16CheckGas(c, cs, s)
		// by construction: a CREATE whose target address exists fails, pushes 0 and loses everything it handed over
		if s.op == opCREATE && s.callee == "collision" && s.err == "" && s.fault == "" && s.canTransfer && s.depth <= int(params.CallCreateDepth) && next != nil {
			after := s.gas - s.cost
			if next.depth != s.depth || next.top == nil || next.top.Sign() != 0 || next.gas != after/64 {
				c.Fail("c16/create-collision-not-refused", fmt.Sprintf("CREATE at pc %d onto an existing account: expected result 0 and %d gas left, the next step runs at depth %d with gas %d", s.pc, after/64, next.depth, next.gas), cs)
			}
		}
		var wt []int
		if s.err == "" && s.fault == "" {
			switch {
			case s.op == opSELFDESTRUCT:
				if !s.suicided {
					wt = []int{int(account.BalanceLog), int(account.SuicideLog)}
				}
			case s.op == opSSTORE || (s.op >= opLOG0 && s.op <= opLOG0+4):
				if next != nil && next.depth == s.depth {
					wt = s.wt
					want := int(account.StorageLog)
					if s.op != opSSTORE {
						want = int(account.AddEventLog)
					}
					if len(wt) != 1 || wt[0] != want {
						c.Fail("c16/trace-inconsistent", fmt.Sprintf("op 0x%x pushed change logs %v, expected exactly one of type %d", s.op, wt, want), cs)
					}
				}
			}
		}
		spok, sptags := false, "-"
		if s.callee == "pre" && next != nil && next.top != nil {
			spok = next.top.Sign() != 0
			if s.isReward && spok {
				sptags = fmt.Sprint(int(account.StorageLog))
			}
			// independent check of the fed "precompile succeeded" flag for the pure precompiles
			if s.prun == "err" && spok {
				c.Fail("c16/trace-inconsistent", fmt.Sprintf("precompile %d: Run fails on this input but the call reported success", s.paddr), cs)
			}
			if s.prun != "" {
				c.Count("pre-indep:" + s.prun + "/reported=" + fmt.Sprint(spok))
			}
		}
		stS := "-"
		if len(s.st) > 0 {
			var p []string
			for _, v := range s.st {
				p = append(p, v.String())
			}
			stS = strings.Join(p, ",")
		}
		// everything the model is told about the step: opcode, stack height, the operands themselves, whether
		// `execute` failed, the change-log types of a writing instruction, three account facts and the callee
		line := fmt.Sprintf("s %d %d %d %s %d %d %s %d %d %d %s %d%d%d %s", s.op, s.stackLen, b01(s.fault == "exec"),
			c16Tags(wt), s.retLen, b01(s.canTransfer), s.callee, s.paddr, s.preq, b01(spok), sptags, b01(s.bits[0]), b01(s.bits[1]), b01(s.bits[2]), stS)
		verdict := "ok"
		switch {
		case s.err != "":
			verdict = "err:" + s.err
		case s.fault == "revert":
			verdict = "revert"
		case s.fault != "":
			verdict = "err:exec"
		}
		out := fmt.Sprintf("%d %d %d %d %s mw=%d", s.depth, s.gas, b01(s.ro), s.jlen, verdict, s.memAfter)
		if verdict == "ok" || verdict == "revert" || verdict == "err:exec" {
			out += fmt.Sprintf(" cost=%d", s.cost)
		}
		if verdict == "ok" && isCallFamily(s.op) {
			child := s.temp
			if s.value && (s.op == opCALL || s.op == opCALLCODE) {
				child += params.CallStipend
			}
			out += fmt.Sprintf(" child=%d", child)
		}
		c.Op(line, out)
		// input classes
		c.Count("step:" + verdict)
		if isCallFamily(s.op) || s.op == opCREATE {
			c.Count(fmt.Sprintf("callop:0x%x/%s/%s", s.op, verdict, s.callee))
			if verdict == "ok" && !s.canTransfer {
				c.Count("callop:cannot-transfer")
			}
			if s.ro {
				c.Count("callop:under-readonly")
			}
			if s.depth == int(params.CallCreateDepth)+1 && verdict == "ok" {
				c.Count(fmt.Sprintf("callop:0x%x/refused-at-depth-limit", s.op))
			}
		}
		if s.ro {
			c.Count("step:readonly:" + verdict)
		}
	}
	ec := res.err
	if ec == "nil" && res.nonVM != "" {
		ec = "err"
	}
	if ec != "nil" && ec != "revert" {
		ec = "err"
	}
	// the kinds (ChangeLogTypes) of everything the call left in the journal, run-length encoded
	c.Op("end", fmt.Sprintf("%s %d %d %s", ec, res.gasLeft, res.logsPost-t.jlen0, c16RLE(res.newTypes)))
	c.Count("end:" + ec)
}

func orNone(s string) string {
	if s == "" {
		return "none"
	}
	return s
}

// c16EmitTable prints the jump table as derived from the real code (first op lines) and, when
// VERIF_C16_GEN=<file> is set, regenerates the baked Lean table.
func c16EmitTable(c *Ctx, w *c16World) {
	am := account.NewManager(w.genesis, w.db)
	tab := vm.VerifJumpTable(am, w.eoa)
	c16Tab = tab
	type kv struct {
		k string
		v uint64
	}
	ps := []kv{
		{"callCreateDepth", params.CallCreateDepth},
		{"stackLimit", params.StackLimit},
		{"callStipend", params.CallStipend},
		{"callValueTransferGas", params.CallValueTransferGas},
		{"callNewAccountGas", params.CallNewAccountGas},
		{"createDataGas", params.CreateDataGas},
		{"maxCodeSize", params.MaxCodeSize},
		{"createBySuicide", params.DefaultGasTable.CreateBySuicide},
		{"opCreate", uint64(vm.CREATE)},
		{"opCall", uint64(vm.CALL)},
		{"opCallCode", uint64(vm.CALLCODE)},
		{"opDelegateCall", uint64(vm.DELEGATECALL)},
		{"opStaticCall", uint64(vm.STATICCALL)},
		{"logBalance", uint64(account.BalanceLog)},
		{"logCode", uint64(account.CodeLog)},
		{"logEvent", uint64(account.AddEventLog)},
		{"memoryGas", params.MemoryGas},
		{"quadCoeffDiv", params.QuadCoeffDiv},
		{"memLimit", c16MemLimit},
		{"expByteGas", params.DefaultGasTable.ExpByte},
		{"sstoreSetGas", params.SstoreSetGas},
	}
	for _, p := range ps {
		c.Op(fmt.Sprintf("param %s %d", p.k, p.v), "ok")
	}
	pres := vm.VerifPrecompiles(am)
	var writing []string
	guarded := true
	for _, p := range pres {
		c16PreWrites[p.Addr] = p.WritesState
		c.Op(fmt.Sprintf("pre %d %d %d", p.Addr, b01(p.WritesState), b01(p.Guarded)), "ok")
		if p.WritesState {
			writing = append(writing, fmt.Sprint(p.Addr))
			if !p.Guarded {
				guarded = false // probed: RunPrecompiledContract does not refuse it under readOnly
			}
		}
	}
	c.Op(fmt.Sprintf("precount %d", len(pres)), "ok")
	var sb strings.Builder
	sb.WriteString("/-\n  GENERATED by `VERIF_C16_GEN=<this file> hx c16` from the jump table that\n  vm.NewInterpreter installs (hook chain/vm/verif_table.go). Do not edit: `hx c16` prints the\n  live table as its first op lines and the driver answers `table-mismatch` on any difference.\n-/\n")
	sb.WriteString("import LemoModel.Evm\nnamespace LemoModel.EvmTable\nopen LemoModel.Evm\n\n")
	sb.WriteString("def params : Params :=\n  { ")
	for i, p := range ps {
		if i > 0 {
			sb.WriteString(",\n    ")
		}
		fmt.Fprintf(&sb, "%s := %d", p.k, p.v)
	}
	fmt.Fprintf(&sb, ",\n    writingPre := [%s],\n    guardPre := %v", strings.Join(writing, ", "), guarded)
	sb.WriteString(" }\n\n/-- precompile addresses installed in vm.PrecompiledContracts -/\ndef precompiles : List Nat := [")
	for i, p := range pres {
		if i > 0 {
			sb.WriteString(", ")
		}
		fmt.Fprint(&sb, p.Addr)
	}
	sb.WriteString("]\n\n/-- columns: valid minStack maxStack writes halts reverts jumps returns hasMem minGas constGas mem memGas2 memGas1024 dyn -/\ndef rows : List OpInfo := [\n")
	valid := 0
	for i, o := range tab {
		if o.Valid {
			valid++
			if !o.StackInterval || !o.GasProbeOK {
				c.Fail("c16/table-probe", fmt.Sprintf("opcode 0x%x: stack interval=%v gas probe ok=%v", i, o.StackInterval, o.GasProbeOK), nil)
			}
		}
		memS, memL := "-", "[]"
		if len(o.MemRanges) > 0 {
			var ps, pl []string
			for _, r := range o.MemRanges {
				if r.SizeSlot >= 0 {
					ps = append(ps, fmt.Sprintf("%d:s%d", r.Off, r.SizeSlot))
					pl = append(pl, fmt.Sprintf("⟨%d, some %d, 0⟩", r.Off, r.SizeSlot))
				} else {
					ps = append(ps, fmt.Sprintf("%d:c%d", r.Off, r.ConstSize))
					pl = append(pl, fmt.Sprintf("⟨%d, none, %d⟩", r.Off, r.ConstSize))
				}
			}
			memS, memL = strings.Join(ps, ";"), "["+strings.Join(pl, ", ")+"]"
		}
		dynS, dynL := "-", ".none"
		switch {
		case !o.Valid:
		case o.PerWord > 0:
			dynS, dynL = fmt.Sprintf("w:%d:%d", o.DynSlot, o.PerWord), fmt.Sprintf(".words %d %d", o.DynSlot, o.PerWord)
		case o.PerByte > 0:
			dynS, dynL = fmt.Sprintf("b:%d:%d", o.DynSlot, o.PerByte), fmt.Sprintf(".bytes %d %d", o.DynSlot, o.PerByte)
		case i == opEXP:
			dynS, dynL = "exp", ".exp"
		case i == opSSTORE:
			dynS, dynL = "sstore", ".sstore"
		case i == opSELFDESTRUCT:
			dynS, dynL = "suicide", ".suicide"
		}
		if o.Valid && o.HasMem && !o.MemRangesOK {
			c.Fail("c16/table-probe", fmt.Sprintf("opcode 0x%x: the memory ranges recovered from memorySize do not reproduce it", i), nil)
		}
		c.Op(fmt.Sprintf("op %d %d %d %d %d %d %d %d %d %d %d %d %s %d %d %s", i, b01(o.Valid), o.MinStack, o.MaxStack, b01(o.Writes), b01(o.Halts), b01(o.Reverts), b01(o.Jumps), b01(o.Returns), b01(o.HasMem), o.MinGas, b01(o.ConstGas), memS, o.MemGas2, o.MemGas1024, dynS), "ok")
		sep := ","
		if i == 255 {
			sep = ""
		}
		if !o.Valid {
			fmt.Fprintf(&sb, "  OpInfo.invalid%s -- 0x%02x\n", sep, i)
		} else {
			fmt.Fprintf(&sb, "  ⟨true, %d, %d, %v, %v, %v, %v, %v, %v, %d, %v, %s, %d, %d, %s⟩%s -- 0x%02x %s\n", o.MinStack, o.MaxStack, o.Writes, o.Halts, o.Reverts, o.Jumps, o.Returns, o.HasMem, o.MinGas, o.ConstGas, memL, o.MemGas2, o.MemGas1024, dynL, sep, i, vm.OpCode(i).String())
		}
	}
	sb.WriteString("]\n\ndef table : Table := { params := params, rows := rows }\n\nend LemoModel.EvmTable\n")
	c.Count(fmt.Sprintf("table:valid-ops=%d", valid))
	if f := os.Getenv("VERIF_C16_GEN"); f != "" {
		if err := os.WriteFile(f, []byte(sb.String()), 0644); err != nil {
			panic(err)
		}
	}
}

package main

// hx c17 — C17 "state commitments bind content".
// Part A: common/merkle (flat-array Merkle tree) vs LemoModel.Merkle over the free hash algebra:
//         the STRUCTURE (array indices, sides) is compared, never a hash value.
// Part B: store/trie (plain Trie with raw keys, real BeansDB-backed TrieDatabase) vs LemoModel.Mpt:
//         TryGet results and the structure seen through the public NodeIterator.
// Direct oracles (implementation only): see c17_oracle.go.

import (
	"bytes"
	"encoding/hex"
	"fmt"
	"os"
	"strings"

	"github.com/LemoFoundationLtd/lemochain-core/common"
	"github.com/LemoFoundationLtd/lemochain-core/common/crypto"
	"github.com/LemoFoundationLtd/lemochain-core/common/merkle"
	"github.com/LemoFoundationLtd/lemochain-core/store"
	"github.com/LemoFoundationLtd/lemochain-core/store/trie"
)

func init() { subs["c17"] = c17 }

func c17(c *Ctx) {
	c17Merkle(c)
	c17MerkleShapes(c)
	dir, err := os.MkdirTemp("", "hx-c17-")
	if err != nil {
		panic(err)
	}
	defer os.RemoveAll(dir)
	cdb := store.NewChainDataBase(dir)
	defer cdb.Close()
	c17Trie(c, cdb)
	c17Store(c)
	c17TrieOracle(c, cdb)
	c17Storage(c, cdb)
	c17Decode(c)
	c17Sc(c, cdb)
}

// ---------------------------------------------------------------- Merkle

func mkLeaf(v int) common.Hash {
	return crypto.Keccak256Hash([]byte{'l', byte(v >> 8), byte(v)})
}

func listStr(l []int) string {
	if len(l) == 0 {
		return "-"
	}
	s := make([]string, len(l))
	for i, v := range l {
		s[i] = fmt.Sprint(v)
	}
	return strings.Join(s, ",")
}

type mtree struct {
	leaves []common.Hash
	nodes  []common.Hash
	root   common.Hash
	first  map[common.Hash]int // first index of a hash in nodes
}

func buildTree(l []int) *mtree {
	t := &mtree{}
	for _, v := range l {
		t.leaves = append(t.leaves, mkLeaf(v))
	}
	cp := append([]common.Hash{}, t.leaves...)
	m := merkle.New(cp)
	t.root = m.Root()
	t.nodes = m.HashNodes()
	t.first = map[common.Hash]int{}
	for i, h := range t.nodes {
		if _, ok := t.first[h]; !ok {
			t.first[h] = i
		}
	}
	return t
}

func (t *mtree) idx(h common.Hash) string {
	if i, ok := t.first[h]; ok {
		return fmt.Sprint(i)
	}
	return "?"
}

var absentHash = crypto.Keccak256Hash([]byte("absent"))

func (t *mtree) entry(j int) common.Hash {
	if j < 0 || j >= len(t.nodes) {
		return absentHash
	}
	return t.nodes[j]
}

// structure of the array, recovered from the hashes alone: for every interior entry k the pair
// (a,b) of (first) indices with Keccak(nodes[a]||nodes[b]) == nodes[k].
func (t *mtree) show() string {
	n := len(t.leaves)
	pair := map[common.Hash][2]int{}
	// distinct hashes only, by first index
	var ds []int
	for i, h := range t.nodes {
		if t.first[h] == i {
			ds = append(ds, i)
		}
	}
	for _, a := range ds {
		for _, b := range ds {
			h := crypto.Keccak256Hash(append(append([]byte{}, t.nodes[a][:]...), t.nodes[b][:]...))
			if _, ok := pair[h]; !ok {
				pair[h] = [2]int{a, b}
			}
		}
	}
	var sb []string
	for k := n; k < len(t.nodes); k++ {
		if p, ok := pair[t.nodes[k]]; ok {
			sb = append(sb, fmt.Sprintf("%d=%d,%d", k, p[0], p[1]))
		} else {
			sb = append(sb, fmt.Sprintf("%d=?", k))
		}
	}
	rs := t.idx(t.root)
	if len(t.nodes) == 0 && t.root == merkle.EmptyTrieHash {
		rs = "empty"
	}
	return fmt.Sprintf("%d %s root=%s", len(t.nodes), strings.Join(sb, " "), rs)
}

func sideStr(f merkle.NodeTypeFlag) string {
	switch f {
	case merkle.LeftNode:
		return "L"
	case merkle.RightNode:
		return "R"
	case merkle.RootNode:
		return "T"
	}
	return fmt.Sprintf("?%d", int(f))
}

func (t *mtree) pathStr(p []merkle.MerkleNode) string {
	s := make([]string, len(p))
	for i, m := range p {
		s[i] = t.idx(m.Hash) + ":" + sideStr(m.NodeType)
	}
	return strings.Join(s, " ")
}

func mutatePath(p []merkle.MerkleNode, drop, flip int) []merkle.MerkleNode {
	if drop > len(p) {
		drop = len(p)
	}
	q := append([]merkle.MerkleNode{}, p[drop:]...)
	if flip >= 0 && flip < len(q) {
		switch q[flip].NodeType {
		case merkle.LeftNode:
			q[flip].NodeType = merkle.RightNode
		case merkle.RightNode:
			q[flip].NodeType = merkle.LeftNode
		}
	}
	return q
}

func c17Merkle(c *Ctx) {
	maxN := 33
	nRand := 40
	if c.Tier == "thorough" {
		maxN = 90
		nRand = 400
	}
	var lists [][]int
	for n := 0; n <= maxN; n++ {
		l := make([]int, n)
		for i := range l {
			l[i] = i
		}
		lists = append(lists, l)
	}
	for r := 0; r < nRand; r++ { // short lists with duplicates / permutations
		n := c.Rnd.Intn(12)
		l := make([]int, n)
		for i := range l {
			l[i] = c.Rnd.Intn(5)
		}
		lists = append(lists, l)
	}
	for _, l := range lists {
		c17MerkleList(c, l)
	}
}

func c17MerkleList(c *Ctx, l []int) {
	defer func() {
		if r := recover(); r != nil {
			c.Fail("c17/merkle-panic", fmt.Sprintf("panic in common/merkle: %v", r), map[string]interface{}{"leaves": l})
		}
	}()
	{
		ls := listStr(l)
		t := buildTree(l)
		dup := len(t.first) != len(t.nodes)
		c.Count(fmt.Sprintf("merkle:n%%4=%d", len(l)%4))
		if dup {
			c.Count("merkle:duplicates")
		}
		c.Op("mt "+ls, Safe(func() string { return t.show() }))
		merkleOracle(c, l, t)
		// sibling paths: every entry (leaf and interior), plus a hash that is not in the tree
		for j := -1; j < len(t.nodes); j++ {
			if len(l) > 40 && j >= 0 && c.Rnd.Intn(3) != 0 {
				continue
			}
			src := t.entry(j)
			var path []merkle.MerkleNode
			out := Safe(func() string {
				p, err := merkle.FindSiblingNodes(src, t.nodes)
				if err != nil {
					return "err notfound"
				}
				path = p
				return fmt.Sprintf("ok %s verify=%v", t.pathStr(p), merkle.Verify(src, t.root, p))
			})
			c.Op(fmt.Sprintf("ms %s %d", ls, j), out)
			switch {
			case j < 0:
				c.Count("ms:absent")
			case j < len(l):
				c.Count("ms:leaf")
			default:
				c.Count("ms:interior")
			}
			if path == nil {
				continue
			}
			// mutated proofs: other target, truncated path, flipped side
			for rep := 0; rep < 3; rep++ {
				tj := c.Rnd.Intn(len(t.nodes)+1) - 1
				drop := 0
				if c.Rnd.Intn(3) == 0 {
					drop = c.Rnd.Intn(len(path) + 1)
				}
				flip := -1
				if c.Rnd.Intn(3) == 0 {
					flip = c.Rnd.Intn(len(path))
				}
				if rep == 0 { // the truncated path of j against its ancestor (interior accepted as "leaf")
					drop, flip = 1+c.Rnd.Intn(len(path)), -1
					tj = -1
					// ancestor after `drop` steps
					cur := j
					for s := 0; s < drop && cur < len(t.nodes)-1; s++ {
						cur = (len(t.nodes)+1)/2 + cur/2
					}
					tj = cur
				}
				q := mutatePath(path, drop, flip)
				res := Safe(func() string { return fmt.Sprint(merkle.Verify(t.entry(tj), t.root, q)) })
				c.Op(fmt.Sprintf("mv %s %d %d %d %d", ls, j, tj, drop, flip), res)
				c.Count("mv:" + res)
				if res == "true" && tj >= len(l) {
					c.Count("mv:interior-entry-accepted")
				}
			}
		}
	}
}

// ---------------------------------------------------------------- trie correspondence

func hx(b []byte) string {
	if len(b) == 0 {
		return "-"
	}
	return hex.EncodeToString(b)
}

func nibStr(p []byte) string {
	var sb strings.Builder
	for _, n := range p {
		if n == 16 {
			sb.WriteByte('g')
		} else {
			sb.WriteByte("0123456789abcdef"[n&15])
		}
	}
	return sb.String()
}

type nodeIterable interface {
	NodeIterator(start []byte) trie.NodeIterator
}

// structure through the public iterator: pre-order list of hex paths, values at leaves
func dumpTrie(t nodeIterable) string {
	return Safe(func() string {
		it := t.NodeIterator(nil)
		var sb []string
		for it.Next(true) {
			s := "/" + nibStr(it.Path())
			if it.Leaf() {
				s += "=" + hex.EncodeToString(it.LeafBlob())
			}
			sb = append(sb, s)
		}
		if it.Error() != nil {
			return "err " + it.Error().Error()
		}
		return strings.Join(sb, " ")
	})
}

func clamp(x, lo, hi int) int {
	if x < lo {
		return lo
	}
	if x > hi {
		return hi
	}
	return x
}

var keyAlphabet = []byte{0x00, 0x01, 0x10, 0x11, 0xf0, 0xff, 0xab}

func genKeyPool(c *Ctx, fixedLen int, size int) [][]byte {
	var pool [][]byte
	for len(pool) < size {
		l := fixedLen
		if fixedLen < 0 {
			l = c.Rnd.Intn(4) // variable length 0..3, the terminator keeps the key set prefix free
		}
		k := make([]byte, l)
		for i := range k {
			if c.Rnd.Intn(6) == 0 {
				k[i] = byte(c.Rnd.Intn(256))
			} else {
				k[i] = keyAlphabet[c.Rnd.Intn(len(keyAlphabet))]
			}
		}
		pool = append(pool, k)
	}
	return pool
}

func genVal(c *Ctx) []byte {
	switch c.Rnd.Intn(8) {
	case 0:
		return nil // empty value = delete
	case 1, 2:
		v := make([]byte, 33+c.Rnd.Intn(20)) // long: node >= 32 bytes, stored by hash
		for i := range v {
			v[i] = byte(c.Rnd.Intn(256))
		}
		return v
	default:
		v := make([]byte, 1+c.Rnd.Intn(3))
		for i := range v {
			v[i] = byte(1 + c.Rnd.Intn(255))
		}
		return v
	}
}

func c17Trie(c *Ctx, cdb *store.ChainDatabase) {
	for sc := 0; sc < c.N; sc++ {
		fixed := 3
		switch c.Rnd.Intn(5) {
		case 0:
			fixed = -1
			c.Count("trie:keys=variable-length")
		case 1:
			fixed = 1
			c.Count("trie:keys=1byte")
		default:
			c.Count("trie:keys=3byte")
		}
		pool := genKeyPool(c, fixed, 4+c.Rnd.Intn(20))
		tdb := cdb.GetTrieDatabase()
		tr, err := trie.New(common.Hash{}, tdb)
		if err != nil {
			panic(err)
		}
		limit := uint16(0)
		if c.Rnd.Intn(2) == 0 {
			limit = uint16(1 + c.Rnd.Intn(3)) // small cache limit: committed nodes get unloaded
			tr.SetCacheLimit(limit)
			c.Count("trie:cachelimit=small")
		} else {
			limit = 120
			tr.SetCacheLimit(limit)
			c.Count("trie:cachelimit=120")
		}
		c.Op("tnew", "ok")
		ref := map[string][]byte{}
		nodes := 1 // entries of the iterator walk (the empty trie shows one nil root)
		nops := 10 + c.Rnd.Intn(50)
		for i := 0; i < nops; i++ {
			k := pool[c.Rnd.Intn(len(pool))]
			switch r := c.Rnd.Intn(20); {
			case r < 10:
				v := genVal(c)
				if old, had := ref[string(k)]; had && c.Rnd.Intn(6) == 0 {
					v = old // rewrite the same value: insert reports "not dirty"
				}
				out := Safe(func() string {
					if err := tr.TryUpdate(k, v); err != nil {
						return "err " + err.Error()
					}
					return "ok"
				})
				c.Op(fmt.Sprintf("tput %s %s", hx(k), hx(v)), out)
				_, had := ref[string(k)]
				switch {
				case len(v) == 0 && had:
					c.Count("tput:empty-value-deletes")
				case len(v) == 0:
					c.Count("tput:empty-value-absent")
				case had && bytes.Equal(ref[string(k)], v):
					c.Count("tput:same-value")
				case had:
					c.Count("tput:overwrite")
				default:
					c.Count("tput:new")
				}
				if len(v) == 0 {
					delete(ref, string(k))
				} else {
					ref[string(k)] = v
				}
				d := dumpTrie(tr)
				c.Op("tdump", d)
				c.Count(fmt.Sprintf("tput:nodes%+d", clamp(strings.Count(d, "/")-nodes, -4, 4)))
				nodes = strings.Count(d, "/")
			case r < 14:
				out := Safe(func() string {
					if err := tr.TryDelete(k); err != nil {
						return "err " + err.Error()
					}
					return "ok"
				})
				c.Op("tdel "+hx(k), out)
				if _, had := ref[string(k)]; had {
					c.Count("tdel:present")
				} else {
					c.Count("tdel:absent")
				}
				delete(ref, string(k))
				d := dumpTrie(tr)
				c.Op("tdump", d)
				c.Count(fmt.Sprintf("tdel:nodes%+d", clamp(strings.Count(d, "/")-nodes, -4, 4)))
				nodes = strings.Count(d, "/")
			case r < 17:
				out := Safe(func() string {
					v, err := tr.TryGet(k)
					if err != nil {
						return "err " + err.Error()
					}
					if v == nil {
						return "nil"
					}
					return hex.EncodeToString(v)
				})
				c.Op("tget "+hx(k), out)
				want := "nil"
				if v, ok := ref[string(k)]; ok {
					want = hex.EncodeToString(v)
					c.Count("tget:present")
				} else {
					c.Count("tget:absent")
				}
				if out != want {
					c.Fail("c17/trie-read", fmt.Sprintf("TryGet(%x) = %s, last write was %s", k, out, want), nil)
				}
			case r < 19:
				// Commit to the node pool, sometimes flush the pool to BeansDB as chain/account does
				var root common.Hash
				out := Safe(func() string {
					var err error
					root, err = tr.Commit(nil)
					if err != nil {
						return "err " + err.Error()
					}
					if c.Rnd.Intn(2) == 0 {
						if err := tdb.Commit(root, false); err != nil {
							return "err " + err.Error()
						}
						c.Count("trie:commit+disk")
					} else {
						c.Count("trie:commit")
					}
					return dumpTrie(tr)
				})
				c.Op("tcommit", out)
			default:
				// reopen by root: flush to disk, then open through a NEW TrieDatabase over the same BeansDB
				out := Safe(func() string {
					root, err := tr.Commit(nil)
					if err != nil {
						return "err " + err.Error()
					}
					if err := tdb.Commit(root, false); err != nil {
						return "err " + err.Error()
					}
					if c.Rnd.Intn(2) == 0 {
						tdb = cdb.GetTrieDatabase()
						c.Count("trie:reopen-fresh-triedb")
					} else {
						c.Count("trie:reopen-same-triedb")
					}
					nt, err := trie.New(root, tdb)
					if err != nil {
						return "err " + err.Error()
					}
					nt.SetCacheLimit(limit)
					if h := nt.Hash(); h != root {
						return fmt.Sprintf("err reopened hash %x != %x", h, root)
					}
					tr = nt
					return dumpTrie(tr)
				})
				c.Op("treopen", out)
			}
		}
		// final sweep: every pool key
		for _, k := range pool {
			v, err := tr.TryGet(k)
			out := "nil"
			if err != nil {
				out = "err " + err.Error()
			} else if v != nil {
				out = hex.EncodeToString(v)
			}
			c.Op("tget "+hx(k), out)
		}
		c.Count(fmt.Sprintf("trie:final-size~%d", (len(ref)+3)/4*4))
	}
}

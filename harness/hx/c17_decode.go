package main

// hx c17, stream "d…": byte blobs through the REAL node decoder of store/trie/node.go
// (decodeNode / mustDecodeNode, reached through the add-only hook store/trie/verif_c17_decode.go)
// vs LemoModel.MptDecode (the decoder as a total function of the bytes).
//
//   dnode <h|-> <gen> <hex>   decodeNode(hash or nil, blob, gen): "ok <dump>" | "err <what>@<path>" | "panic-index"
//   dmust <hex>               mustDecodeNode: "ok" | "panic-err <what>@<path>" (its own panic(err)) | "panic-index"
//
// Generator: (a) every blob the real hasher wrote during the s-stream scenarios, (b) structured
// mutations of them and hand-built nodes (element counts, compact-key flags, reference sizes,
// embedded sizes, empty key, empty value, nesting, trailing bytes, non-minimal headers,
// truncation), (c) random bytes.
//
// Direct oracles on the implementation (no model involved):
//   c17/node-decode-panic      decodeNode itself panics (run-time error) on some input
//   c17/node-decode-reject     decodeNode rejects a blob the real hasher wrote
// Observed and COUNTED, not failures (no clause of C17 is violated: reads are content-addressed,
// VerifyProof checks every blob's hash; the correspondence still compares both blobs of each pair):
//   observed:node-decode-lax/<cls>  two DIFFERENT blobs decode to the same node (trailing-bytes,
//                              compact-flag, compact-padding), or a node the hasher can never
//                              write is accepted against the decoder's own message (embedded-32)

import (
	"bytes"
	"encoding/hex"
	"fmt"
	"sort"
	"strings"

	"github.com/LemoFoundationLtd/lemochain-core/common/rlp"
	"github.com/LemoFoundationLtd/lemochain-core/store"
	"github.com/LemoFoundationLtd/lemochain-core/store/trie"
)

// blobs written by the real hasher, collected by the s-stream after every Trie.Commit
var c17Blobs [][]byte
var c17BlobSeen = map[string]bool{}

func c17CollectBlobs(tdb *store.TrieDatabase) {
	for _, h := range tdb.Nodes() {
		blob, err := tdb.Node(h)
		if err != nil || len(blob) == 0 || c17BlobSeen[string(blob)] {
			continue
		}
		c17BlobSeen[string(blob)] = true
		c17Blobs = append(c17Blobs, append([]byte{}, blob...))
	}
}

// ---------------------------------------------------------------- RLP building blocks

func dSize(n int) []byte {
	var b []byte
	for n > 0 {
		b = append([]byte{byte(n)}, b...)
		n >>= 8
	}
	return b
}

func dHead(off byte, n int) []byte {
	if n < 56 {
		return []byte{off + byte(n)}
	}
	s := dSize(n)
	return append([]byte{off + 55 + byte(len(s))}, s...)
}

// canonical string / list
func dStr(b []byte) []byte {
	if len(b) == 1 && b[0] < 0x80 {
		return []byte{b[0]}
	}
	return append(dHead(0x80, len(b)), b...)
}

func dList(items ...[]byte) []byte {
	p := bytes.Join(items, nil)
	return append(dHead(0xc0, len(p)), p...)
}

// long-form header although the short form would do (non-minimal), optionally with a leading zero size byte
func dHeadLong(off byte, n int, leadingZero bool) []byte {
	s := dSize(n)
	if len(s) == 0 {
		s = []byte{0}
	}
	if leadingZero {
		s = append([]byte{0}, s...)
	}
	return append([]byte{off + 55 + byte(len(s))}, s...)
}

// hexToCompact with an arbitrary flag nibble / padding nibble
func dCompact(nibs []byte, flag byte, pad byte) []byte {
	if flag&1 == 1 {
		if len(nibs) == 0 {
			return []byte{flag<<4 | pad}
		}
		out := []byte{flag<<4 | nibs[0]}
		nibs = nibs[1:]
		for i := 0; i+1 < len(nibs); i += 2 {
			out = append(out, nibs[i]<<4|nibs[i+1])
		}
		return out
	}
	out := []byte{flag<<4 | pad}
	for i := 0; i+1 < len(nibs); i += 2 {
		out = append(out, nibs[i]<<4|nibs[i+1])
	}
	return out
}

func dCanonKey(nibs []byte, term bool) []byte {
	f := byte(0)
	if term {
		f = 2
	}
	if len(nibs)%2 == 1 {
		f |= 1
	}
	return dCompact(nibs, f, 0)
}

func (g *dGen) nibs(n int) []byte {
	b := make([]byte, n)
	for i := range b {
		b[i] = byte(g.c.Rnd.Intn(16))
	}
	return b
}

func (g *dGen) bytesN(n int) []byte {
	b := make([]byte, n)
	g.c.Rnd.Read(b)
	return b
}

// ---------------------------------------------------------------- running one blob

type dGen struct {
	c       *Ctx
	failed  map[string]bool
	dumpOf  map[string]string // dump (flags stripped) -> first blob that decoded to it
	maxOps  int
	ops     int
	panics  int
	laxSeen map[string]int
}

func dRlpErr(m string) string {
	switch m {
	case "unexpected EOF":
		return "UnexpectedEOF"
	case rlp.ErrExpectedString.Error():
		return "ExpectedString"
	case rlp.ErrExpectedList.Error():
		return "ExpectedList"
	case rlp.ErrCanonSize.Error():
		return "CanonSize"
	case rlp.ErrValueTooLarge.Error():
		return "ValueTooLarge"
	case rlp.ErrElemTooLarge.Error():
		return "ElemTooLarge"
	}
	return "other(" + strings.ReplaceAll(m, " ", "_") + ")"
}

// canonical class of the message of a decodeNode error (without the decode path)
func dWhat(m string) string {
	var n int
	switch {
	case strings.HasPrefix(m, "decode error: "):
		return "list:" + dRlpErr(strings.TrimPrefix(m, "decode error: "))
	case strings.HasPrefix(m, "invalid value node: "):
		return "value:" + dRlpErr(strings.TrimPrefix(m, "invalid value node: "))
	case strings.HasPrefix(m, "invalid number of list elements: "):
		fmt.Sscanf(m, "invalid number of list elements: %d", &n)
		return fmt.Sprintf("count:%d", n)
	case strings.HasPrefix(m, "oversized embedded node"):
		fmt.Sscanf(m, "oversized embedded node (size is %d bytes", &n)
		return fmt.Sprintf("oversized:%d", n)
	case m == "empty compact key":
		return "emptykey"
	case strings.HasPrefix(m, "invalid RLP string size"):
		fmt.Sscanf(m, "invalid RLP string size %d", &n)
		return fmt.Sprintf("strsize:%d", n)
	}
	return "rlp:" + dRlpErr(m)
}

func dErrStr(err error) string {
	what, path, _ := trie.VerifDecodeErrPath(err)
	p := "-"
	if len(path) > 0 {
		p = strings.Join(path, "<-")
	}
	return "err " + dWhat(what.Error()) + "@" + p
}

// the error text inside mustDecodeNode's panic message "node <hash>: <err>"
func dErrFromText(m string) string {
	p := "-"
	if i := strings.LastIndex(m, " (decode path: "); i >= 0 && strings.HasSuffix(m, ")") {
		p = m[i+len(" (decode path: ") : len(m)-1]
		m = m[:i]
	}
	return "err " + dWhat(m) + "@" + p
}

func dStripFlags(d string) string {
	// "[c12#]" / "[c12]" -> "" : the node without the flags decodeNode sets from its arguments
	var sb strings.Builder
	for i := 0; i < len(d); i++ {
		if d[i] == '[' {
			j := strings.IndexByte(d[i:], ']')
			i += j
			continue
		}
		sb.WriteByte(d[i])
	}
	return sb.String()
}

// run feeds one blob to decodeNode (and sometimes mustDecodeNode); returns the impl answer
func (g *dGen) run(class string, blob []byte) string {
	c := g.c
	if g.ops >= g.maxOps {
		return ""
	}
	g.ops++
	gen := uint16(c.Rnd.Intn(5))
	if c.Rnd.Intn(8) == 0 {
		gen = uint16(65535 - c.Rnd.Intn(3))
	}
	hf := "-"
	var hash []byte
	if c.Rnd.Intn(2) == 0 {
		hf = "h"
		hash = bytes.Repeat([]byte{0xab}, 32)
	}
	out, msg := SafeMsg(func() string {
		d, err := trie.VerifDecodeNode(hash, blob, gen, false)
		if err != nil {
			return dErrStr(err)
		}
		return "ok " + d
	})
	if out == "panic" {
		out = "panic-index"
		if !strings.Contains(msg, "index out of range") {
			out = "panic-other(" + strings.ReplaceAll(msg, " ", "_") + ")"
		}
		g.panics++
		if !g.failed["panic"] {
			g.failed["panic"] = true
			c.Fail("c17/node-decode-panic", fmt.Sprintf("decodeNode(%x) panics instead of returning an error: %s (class %s)", blob, msg, class),
				map[string]string{"blob": hex.EncodeToString(blob)})
		}
	}
	c.Op(fmt.Sprintf("dnode %s %d %s", hf, gen, hx(blob)), out)
	oc := strings.SplitN(out, " ", 2)[0]
	if oc == "err" {
		w := strings.SplitN(strings.TrimPrefix(out, "err "), "@", 2)
		kind := strings.SplitN(w[0], ":", 2)[0]
		depth := "top"
		if len(w) > 1 && strings.Contains(w[1], "<-") {
			depth = "nested"
		}
		c.Count("dnode:err=" + kind + ":" + depth)
		if kind == "rlp" || kind == "list" || kind == "value" {
			c.Count("dnode:err=" + w[0])
		}
	} else {
		c.Count("dnode:" + oc)
	}
	c.Count("dgen:" + class + ":" + oc)
	if c.Rnd.Intn(4) == 0 || oc != "ok" && c.Rnd.Intn(2) == 0 {
		mout, mmsg := SafeMsg(func() string {
			if _, err := trie.VerifDecodeNode(hash, blob, gen, true); err != nil {
				return "err-returned"
			}
			return "ok"
		})
		if mout == "panic" {
			switch {
			case strings.HasPrefix(mmsg, "node "):
				if i := strings.Index(mmsg, ": "); i >= 0 {
					mout = "panic-" + dErrFromText(mmsg[i+2:])
				}
			case strings.Contains(mmsg, "index out of range"):
				mout = "panic-index"
			default:
				mout = "panic-other(" + strings.ReplaceAll(mmsg, " ", "_") + ")"
			}
		}
		c.Op("dmust "+hx(blob), mout)
		c.Count("dmust:" + strings.SplitN(mout, " ", 2)[0])
		// mustDecodeNode may only panic with decodeNode's error; and it must agree with decodeNode
		if (oc == "ok") != (mout == "ok") || (oc == "err" && mout != "panic-"+out) {
			if !g.failed["must"] {
				g.failed["must"] = true
				c.Fail("c17/node-decode-must", fmt.Sprintf("mustDecodeNode(%x) = %s but decodeNode = %s", blob, mout, out), nil)
			}
		}
	}
	return out
}

// lax: `variant` (a different blob) decodes to the same node as `canon`
func (g *dGen) pair(class string, canon, variant []byte) {
	if bytes.Equal(canon, variant) {
		return
	}
	a := g.run("canon-of-"+class, canon)
	b := g.run(class, variant)
	if strings.HasPrefix(a, "ok ") && strings.HasPrefix(b, "ok ") && dStripFlags(a) == dStripFlags(b) {
		// an OBSERVATION about the decoder, not a violation of C17: reads are content-addressed and
		// VerifyProof checks the hash of every blob (LemoProofs.C17.proof_binds_value_bytes needs no
		// injectivity of the decoder); model and implementation must still agree on both blobs
		g.laxSeen[class]++
		g.c.Count("observed:node-decode-lax/" + class)
	}
}

// ---------------------------------------------------------------- hand-built nodes

func (g *dGen) smallLeaf(total int) []byte {
	// an embedded leaf [compact key, value] whose encoding is exactly `total` bytes (total in 4..55)
	key := dCanonKey(g.nibs(2), true) // 2 bytes: flag byte + one key byte -> string of 3 bytes
	ks := dStr(key)
	vl := total - 1 - len(ks) - 1
	if vl < 2 {
		vl = 2
	}
	v := g.bytesN(vl)
	v[0] |= 0x80
	return dList(ks, dStr(v))
}

func (g *dGen) ref(kind int) []byte {
	switch kind {
	case 0:
		return []byte{0x80} // nil
	case 1:
		return dStr(g.bytesN(32)) // hash
	default:
		return g.smallLeaf(8 + g.c.Rnd.Intn(20)) // embedded
	}
}

func (g *dGen) fullWith(slot int, elem []byte, val []byte) []byte {
	items := make([][]byte, 17)
	for i := 0; i < 16; i++ {
		items[i] = []byte{0x80}
		if g.c.Rnd.Intn(5) == 0 {
			items[i] = dStr(g.bytesN(32))
		}
	}
	items[16] = dStr(val)
	if slot >= 0 {
		items[slot] = elem
	}
	return dList(items...)
}

func (g *dGen) structured() {
	c := g.c
	// element counts
	for _, n := range []int{0, 1, 3, 16, 18} {
		var items [][]byte
		for i := 0; i < n; i++ {
			items = append(items, g.ref(c.Rnd.Intn(2)))
		}
		if n >= 1 && c.Rnd.Intn(2) == 0 {
			items[0] = dStr(dCanonKey(g.nibs(3), true))
		}
		g.run(fmt.Sprintf("count-%d", n), dList(items...))
	}
	// compact key: every flag nibble, padding nibble, odd/even, with/without terminator
	for flag := byte(0); flag < 16; flag++ {
		n := 1 + c.Rnd.Intn(5)
		if (n%2 == 1) != (flag&1 == 1) {
			n++
		}
		nb := g.nibs(n)
		term := flag >= 2
		var child []byte
		if term {
			child = dStr(append([]byte{0x81}, g.bytesN(c.Rnd.Intn(6))...))
		} else {
			child = g.ref(1 + c.Rnd.Intn(2))
		}
		canon := dList(dStr(dCanonKey(nb, term)), child)
		g.pair("compact-flag", canon, dList(dStr(dCompact(nb, flag, 0)), child))
		if flag&1 == 0 {
			g.pair("compact-padding", dList(dStr(dCompact(nb, flag, 0)), child), dList(dStr(dCompact(nb, flag, byte(1+c.Rnd.Intn(15)))), child))
		}
	}
	// key with terminator but a reference as value / key without terminator but a value
	g.run("term-key-hash-value", dList(dStr(dCanonKey(g.nibs(2), true)), dStr(g.bytesN(32))))
	g.run("term-key-list-value", dList(dStr(dCanonKey(g.nibs(2), true)), g.smallLeaf(10)))
	g.run("ext-key-short-value", dList(dStr(dCanonKey(g.nibs(2), false)), dStr(g.bytesN(1+c.Rnd.Intn(30)))))
	g.run("key-is-list", dList(dList(dStr([]byte{0x20})), dStr([]byte{0x81})))
	// child reference of 31/32/33 bytes, in a short node and in a full node
	for _, n := range []int{0, 1, 31, 32, 33, 55, 56} {
		r := dStr(g.bytesN(n))
		if n == 1 {
			r = []byte{byte(c.Rnd.Intn(0x80))}
		}
		g.run(fmt.Sprintf("short-ref-%d", n), dList(dStr(dCanonKey(g.nibs(2), false)), r))
		g.run(fmt.Sprintf("full-ref-%d", n), g.fullWith(c.Rnd.Intn(16), r, nil))
	}
	// embedded list child of total size 31/32/33
	for _, n := range []int{12, 31, 32, 33, 40} {
		e := g.smallLeaf(n)
		cls := fmt.Sprintf("embedded-%d", len(e))
		sb := dList(dStr(dCanonKey(g.nibs(2), false)), e)
		fb := g.fullWith(c.Rnd.Intn(16), e, nil)
		so := g.run("short-"+cls, sb)
		fo := g.run("full-"+cls, fb)
		if len(e) == 32 && (strings.HasPrefix(so, "ok ") || strings.HasPrefix(fo, "ok ")) {
			// observation, not a violation: the hasher never writes such a blob (it embeds < 32 only)
			g.laxSeen["embedded-32"]++
			c.Count("observed:node-decode-lax/embedded-32")
		}
	}
	// empty key (compactToHex of an empty string), at the top and in an embedded node
	g.run("empty-key", dList([]byte{0x80}, dStr([]byte{0x81})))
	g.run("empty-key", dList([]byte{0x80}, []byte{0x80}))
	g.run("empty-key-embedded", dList(dStr(dCanonKey(g.nibs(2), false)), dList([]byte{0x80}, []byte{0x80})))
	g.run("empty-key-embedded", g.fullWith(c.Rnd.Intn(16), dList([]byte{0x80}, dStr(g.bytesN(3))), nil))
	g.run("empty-key-after-bad-slot", g.fullWith(15, dList([]byte{0x80}, []byte{0x80}), nil)) // reached only if slots 0..14 are fine
	// zero-length hex key (compact 00), nil child, empty value
	g.run("zero-nibble-key", dList(dStr([]byte{0x00}), g.ref(c.Rnd.Intn(3))))
	g.run("term-only-key", dList(dStr([]byte{0x20}), dStr(g.bytesN(2))))
	g.run("empty-value", dList(dStr(dCanonKey(g.nibs(2), true)), []byte{0x80}))
	g.run("nil-child", dList(dStr(dCanonKey(g.nibs(2), false)), []byte{0x80}))
	// full node: value slot
	g.run("full-value", g.fullWith(-1, nil, g.bytesN(1+c.Rnd.Intn(40))))
	g.run("full-value-empty", g.fullWith(-1, nil, nil))
	g.run("full-value-32", g.fullWith(-1, nil, g.bytesN(32)))
	g.run("full-value-is-list", g.fullWith(16, g.smallLeaf(9), nil))
	g.run("full-slot-byte", g.fullWith(c.Rnd.Intn(16), []byte{byte(c.Rnd.Intn(0x80))}, nil))
	// nesting: embedded in embedded (depth 2, 3)
	inner := dList(dStr(dCanonKey(g.nibs(1), true)), dStr([]byte{0x81}))
	d1 := dList(dStr(dCanonKey(g.nibs(1), false)), inner)
	d2 := dList(dStr(dCanonKey(g.nibs(1), false)), d1)
	d3 := dList(dStr(dCanonKey(g.nibs(1), false)), d2)
	g.run("nested-1", d1)
	g.run("nested-2", d2)
	g.run("nested-3", d3)
	g.run("nested-2-in-full", g.fullWith(c.Rnd.Intn(16), d1, nil))
	g.run("nested-bad-count", dList(dStr(dCanonKey(g.nibs(1), false)), dList(dStr(dCanonKey(g.nibs(1), false)), dList([]byte{0x80}))))
	// trailing bytes after the list
	base := dList(dStr(dCanonKey(g.nibs(4), true)), dStr(g.bytesN(5)))
	g.pair("trailing-bytes", base, append(append([]byte{}, base...), g.bytesN(1+c.Rnd.Intn(5))...))
	// non-minimal headers
	payload := bytes.Join([][]byte{dStr(dCanonKey(g.nibs(4), true)), dStr(g.bytesN(5))}, nil)
	g.run("nonminimal-list-header", append(dHeadLong(0xc0, len(payload), false), payload...))
	g.run("nonminimal-list-header-zero", append(dHeadLong(0xc0, len(payload), true), payload...))
	v := g.bytesN(5)
	g.run("nonminimal-string-header", dList(dStr(dCanonKey(g.nibs(4), true)), append(dHeadLong(0x80, len(v), false), v...)))
	g.run("nonminimal-single-byte", dList(dStr(dCanonKey(g.nibs(4), true)), []byte{0x81, byte(c.Rnd.Intn(0x80))}))
	g.run("nonminimal-key-byte", dList([]byte{0x81, 0x20}, dStr(g.bytesN(3))))
	g.run("long-string-56", dList(dStr(dCanonKey(g.nibs(4), true)), dStr(g.bytesN(56+c.Rnd.Intn(300)))))
	g.run("value-too-large", dList(dStr(dCanonKey(g.nibs(4), true)), append(dHead(0x80, 9), g.bytesN(3)...)))
	g.run("not-a-list", dStr(g.bytesN(c.Rnd.Intn(40))))
	g.run("empty-blob", nil)
}

// mutations of a blob the hasher wrote
func (g *dGen) mutate(blob []byte) {
	c := g.c
	switch c.Rnd.Intn(9) {
	case 0:
		g.pair("trailing-bytes", blob, append(append([]byte{}, blob...), g.bytesN(1+c.Rnd.Intn(4))...))
	case 1:
		g.run("truncated", blob[:c.Rnd.Intn(len(blob))])
	case 2:
		b := append([]byte{}, blob...)
		b[c.Rnd.Intn(len(b))] ^= byte(1 << uint(c.Rnd.Intn(8)))
		g.run("bit-flip", b)
	case 3:
		i := c.Rnd.Intn(len(blob))
		g.run("byte-deleted", append(append([]byte{}, blob[:i]...), blob[i+1:]...))
	case 4:
		i := c.Rnd.Intn(len(blob) + 1)
		b := append(append(append([]byte{}, blob[:i]...), byte(c.Rnd.Intn(256))), blob[i:]...)
		g.run("byte-inserted", b)
	case 5:
		// header of the first few bytes replaced
		b := append([]byte{}, blob...)
		b[0] = byte(0xc0 + c.Rnd.Intn(0x40))
		g.run("list-header-changed", b)
	case 6:
		// the blob as an embedded child of a short node (valid iff it is at most 32 bytes)
		g.run(fmt.Sprintf("stored-blob-embedded:%v", len(blob) <= 32), dList(dStr(dCanonKey(g.nibs(2), false)), blob))
	case 7:
		// re-flag the compact key of a short node: the second byte of a short list with a 1..55 byte key
		if len(blob) > 3 && blob[0] >= 0xc0 && blob[0] < 0xf8 {
			b := append([]byte{}, blob...)
			at := 1
			if b[1] >= 0x81 && b[1] < 0xb8 {
				at = 2
			}
			if b[at]>>4 < 4 {
				b[at] += 0x40
				g.pair("compact-flag", blob, b)
			}
		}
	case 8:
		b := append([]byte{}, blob...)
		i := c.Rnd.Intn(len(b))
		for j := i; j < len(b) && j < i+1+c.Rnd.Intn(6); j++ {
			b[j] = byte(c.Rnd.Intn(256))
		}
		g.run("bytes-overwritten", b)
	}
}

func (g *dGen) random() {
	c := g.c
	n := c.Rnd.Intn(70)
	b := g.bytesN(n)
	if n > 0 {
		switch c.Rnd.Intn(4) {
		case 0: // a list header that fits
			if n-1 < 56 {
				b[0] = 0xc0 + byte(n-1)
			}
		case 1:
			b[0] = byte(0xc0 + c.Rnd.Intn(0x40))
		case 2: // list of small strings
			b[0] = 0xc0 + byte(n-1)%56
			for i := 1; i < n; i++ {
				if c.Rnd.Intn(3) != 0 {
					b[i] = byte(0x80 + c.Rnd.Intn(4))
				}
			}
		}
	}
	g.run("random-bytes", b)
}

func c17Decode(c *Ctx) {
	g := &dGen{c: c, failed: map[string]bool{}, dumpOf: map[string]string{}, laxSeen: map[string]int{}}
	g.maxOps = 12 * c.N
	if g.maxOps < 6000 {
		g.maxOps = 6000
	}
	// (a) blobs of the real hasher: all of them if they fit, the shortest and a random sample of the rest otherwise
	blobs := append([][]byte{}, c17Blobs...)
	sort.SliceStable(blobs, func(i, j int) bool { return len(blobs[i]) < len(blobs[j]) })
	budget := g.maxOps / 2
	var chosen [][]byte
	if len(blobs) <= budget {
		chosen = blobs
	} else {
		chosen = append(chosen, blobs[:budget/4]...)
		rest := blobs[budget/4:]
		for _, i := range c.Rnd.Perm(len(rest))[:budget-budget/4] {
			chosen = append(chosen, rest[i])
		}
	}
	c.Count(fmt.Sprintf("dgen:hasher-blobs-available>=%d", (len(blobs)/1000)*1000))
	for _, b := range chosen {
		if len(b) > 6000 {
			c.Count("dgen:hasher-blob-skipped-over-6000-bytes")
			continue
		}
		out := g.run("hasher-blob", b)
		switch {
		case len(b) < 32:
			c.Count("dblob:forced-root-under-32")
		case len(b) >= 56:
			c.Count("dblob:long-list-header")
		}
		if strings.Contains(out, "(s") || strings.Contains(out, ",s") || strings.Contains(out, "(f") || strings.Contains(out, ",f") {
			c.Count("dblob:has-embedded-child")
		}
		if strings.HasPrefix(out, "ok f") {
			c.Count("dblob:full")
			if !strings.HasSuffix(out, ",n)") {
				c.Count("dblob:full-with-value")
			}
		} else if strings.HasPrefix(out, "ok s") {
			c.Count("dblob:short")
		}
		if out != "" && !strings.HasPrefix(out, "ok ") && !g.failed["reject"] {
			g.failed["reject"] = true
			c.Fail("c17/node-decode-reject", fmt.Sprintf("decodeNode rejects a blob the hasher wrote: %x => %s", b, out), map[string]string{"blob": hex.EncodeToString(b)})
		}
	}
	// (b) structured
	rounds := 6
	if c.Tier == "thorough" {
		rounds = 60
	}
	for i := 0; i < rounds; i++ {
		g.structured()
	}
	for i := 0; len(chosen) > 0 && i < g.maxOps/4; i++ {
		g.mutate(chosen[c.Rnd.Intn(len(chosen))])
	}
	// (c) random bytes
	for g.ops < g.maxOps {
		g.random()
	}
}

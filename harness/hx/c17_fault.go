package main

// hx c17, stream "s…" continued: WRITE FAULTS of TrieDatabase.Commit (store/trie_database.go) vs
// LemoModel.MptStore.Db.flush.
//
// The TrieDatabase sits on a store.Database wrapper (flakyDB) whose batches can be armed to fail: the
// k-th batch.Commit() after arming returns an error and writes nothing (a full disk, an I/O error).
// Underneath: a store.MemDatabase (half of the scenarios) or the real BeansDB of a ChainDatabase.
//
// New op:  sflushfail #<root> <site>      => "err write mem=<pool size> lock=<free|held>"
//   site = final  the only batch.Commit() of a flush that fits one batch fails (nothing was written)
//          node   an intermediate batch.Commit() inside TrieDatabase.commit fails (flush > IdealBatchSize);
//                 k = 1: nothing was written; k = 2: the first batch had reached the store — WHICH nodes
//                 depends on Go's map iteration order over node.Children, so until the retry the script
//                 issues only ops answered from pool ∪ disk (theorem flush_retry_eq holds for every set)
//          pre    the intermediate batch.Commit() of the preimage loop fails (the harness has put more
//                 than IdealBatchSize bytes of preimages into the TrieDatabase; preimages are not in
//                 the model, the site is the generator's choice)
// The retry is a plain `sflush`.  After the failed flush the script re-opens the root through the SAME
// TrieDatabase and reads every key (model: failed_flush_keeps_pool / failed_flush_reads), through a
// FRESH TrieDatabase (one-batch faults: `err missing` on both sides for a root that never reached the
// disk), runs VerifyProof over the bare disk, goes on writing and committing into the pool; after the
// retry it re-opens through a fresh TrieDatabase (flush_retry_reopen_fresh).
//
// Direct oracles (implementation only):
//   c17/read-after-failed-flush   a key written before the failed flush does not read back through the
//                                 same TrieDatabase (trie.New(root) + TryGet)
//   c17/retry-flush-lost          the retried TrieDatabase.Commit(root) returned nil but a FRESH
//                                 TrieDatabase over the same key-value store cannot serve the trie
//   c17/commit-error-leaks-lock   after a Commit that returned an error the TrieDatabase lock cannot be
//                                 taken any more (a read lock leaked on the error path)
//   c17/partial-flush-not-closed  a node reached the key-value store in an earlier batch of a flush that
//                                 failed later, but one of its hash children is not there (children are
//                                 put before parents: the hypothesis DownClosed of the model, checked on
//                                 the real walk order with the injector's own record of what was written)
//   c17/failed-flush-not-reported TrieDatabase.Commit returned nil although the armed batch write failed

import (
	"bytes"
	"errors"
	"fmt"
	"os"
	"sort"
	"strings"
	"time"

	"github.com/LemoFoundationLtd/lemochain-core/common"
	"github.com/LemoFoundationLtd/lemochain-core/common/crypto"
	"github.com/LemoFoundationLtd/lemochain-core/common/rlp"
	"github.com/LemoFoundationLtd/lemochain-core/store"
	"github.com/LemoFoundationLtd/lemochain-core/store/leveldb"
	"github.com/LemoFoundationLtd/lemochain-core/store/trie"
)

var errInjectedWrite = errors.New("injected write failure")

// flakyDB is a key-value store whose batch writes fail on demand. A failed batch writes nothing.
// It keeps its own record of the trie-node items that DID reach the store since arming (the fault
// injector's view of the disk, not read from the TrieDatabase).
type flakyDB struct {
	store.Database
	failAt  int // fail the failAt-th batch.Commit() after arming (1 = the next one); 0 = disarmed
	calls   int // batch.Commit() calls since arming
	fired   bool
	written []flakyItem // node items of the batches that were written since arming, in order
}

type flakyItem struct{ key, val []byte }

type flakyBatch struct {
	store.Batch
	db      *flakyDB
	pending []flakyItem
}

func (d *flakyDB) NewBatch() store.Batch {
	return &flakyBatch{Batch: d.Database.NewBatch(), db: d}
}

func (d *flakyDB) arm(k int) { d.failAt, d.calls, d.fired, d.written = k, 0, false, nil }
func (d *flakyDB) disarm()   { d.failAt = 0 }

func (b *flakyBatch) Put(flg uint32, key, value []byte) error {
	if flg == leveldb.ItemFlagTrie && len(key) == common.HashLength {
		b.pending = append(b.pending, flakyItem{append([]byte{}, key...), append([]byte{}, value...)})
	}
	return b.Batch.Put(flg, key, value)
}

func (b *flakyBatch) Reset() {
	b.pending = nil
	b.Batch.Reset()
}

func (b *flakyBatch) Commit() error {
	if b.db.failAt > 0 {
		b.db.calls++
		if b.db.calls == b.db.failAt {
			b.db.failAt = 0
			b.db.fired = true
			return errInjectedWrite
		}
	}
	if err := b.Batch.Commit(); err != nil {
		return err
	}
	b.db.written = append(b.db.written, b.pending...)
	return nil
}

// hashChildren lists the 32-byte hash references of a stored node blob (what TrieDatabase.commit must
// have put BEFORE the node): the 16 child slots of a full node, the child of an extension node
func hashChildren(blob []byte) [][]byte {
	elems, _, err := rlp.SplitList(blob)
	if err != nil {
		return nil
	}
	n, _ := rlp.CountValues(elems)
	var out [][]byte
	switch n {
	case 2:
		key, rest, err := rlp.SplitString(elems)
		if err != nil || len(key) == 0 || key[0]&0x20 != 0 { // terminator flag: a leaf, its value is no reference
			return nil
		}
		if kind, c, _, err := rlp.Split(rest); err == nil && kind == rlp.String && len(c) == common.HashLength {
			out = append(out, c)
		}
	case 17:
		rest := elems
		for i := 0; i < 16; i++ {
			kind, c, r, err := rlp.Split(rest)
			if err != nil {
				return out
			}
			if kind == rlp.String && len(c) == common.HashLength {
				out = append(out, c)
			}
			rest = r
		}
	}
	return out
}

// danglingOnDisk: a node that reached the key-value store although one of its hash children is neither
// there nor (flushed earlier / never in the pool) anywhere: "" = the written part is closed under children
func danglingOnDisk(d *flakyDB) string {
	for _, it := range d.written {
		for _, ch := range hashChildren(it.val) {
			if ok, _ := d.Database.Has(leveldb.ItemFlagTrie, ch); !ok {
				if v, err := d.Database.Get(leveldb.ItemFlagTrie, ch); err != nil || len(v) == 0 {
					return fmt.Sprintf("node %x is on disk, its child %x is not", it.key[:6], ch[:6])
				}
			}
		}
	}
	return ""
}

// lockFree reports whether the TrieDatabase lock can still be taken (by a writer). A leaked read lock
// makes the probing goroutine block forever; the TrieDatabase is dead then and the scenario ends.
func lockFree(tdb *store.TrieDatabase) bool {
	done := make(chan struct{}, 1)
	go func() {
		tdb.Lock()
		tdb.UnLock()
		done <- struct{}{}
	}()
	select {
	case <-done:
		return true
	case <-time.After(1500 * time.Millisecond):
		return false
	}
}

// readBack opens root through tdb and compares every key of content (and the absent pool keys)
func readBack(tdb *store.TrieDatabase, root common.Hash, content map[string][]byte, pool [][]byte) string {
	return Safe(func() string {
		tr, err := trie.New(root, tdb)
		if err != nil {
			return fmt.Sprintf("trie.New(%x): %v", root[:6], err)
		}
		keys := make([]string, 0, len(content))
		for k := range content {
			keys = append(keys, k)
		}
		sort.Strings(keys)
		for _, k := range keys {
			v, err := tr.TryGet([]byte(k))
			if err != nil {
				return fmt.Sprintf("TryGet(%x): %v", k, err)
			}
			if !bytes.Equal(v, content[k]) {
				return fmt.Sprintf("TryGet(%x) = %s, written %s", k, sVal(v), sVal(content[k]))
			}
		}
		for _, k := range pool {
			if _, has := content[string(k)]; has {
				continue
			}
			v, err := tr.TryGet(k)
			if err != nil {
				return fmt.Sprintf("TryGet(%x): %v", k, err)
			}
			if v != nil {
				return fmt.Sprintf("TryGet(%x) = %s for a key that is not in the trie", k, sVal(v))
			}
		}
		return ""
	})
}

func c17Fault(c *Ctx) {
	dir, err := os.MkdirTemp("", "hx-c17f-")
	if err != nil {
		panic(err)
	}
	defer os.RemoveAll(dir)
	cdb := store.NewChainDataBase(dir)
	defer func() { cdb.Close() }()

	nsc := c.N / 12
	if nsc < 30 {
		nsc = 30
	}
scenarios:
	for sc := 0; sc < nsc; sc++ {
		// ---- the world
		var bare store.Database
		world := "mem"
		if sc%2 == 1 {
			world = "beansdb"
			bare = cdb.Beansdb
		} else {
			mem, _ := store.NewMemDatabase()
			bare = mem
		}
		flaky := &flakyDB{Database: bare}
		tdb := store.NewTrieDatabase(flaky)
		c.Count("sfault:world=" + world)

		// ---- the fault plan
		site, failAt := "final", 1
		switch {
		case sc == 4 || (c.Tier == "thorough" && sc%97 == 4):
			site, failAt = "node", 1
		case sc == 9 || (c.Tier == "thorough" && sc%97 == 9):
			site, failAt = "node", 2
		case sc%5 == 3:
			site = "pre"
		}
		batch := site == "node"
		partial := batch && failAt > 1
		c.Count(fmt.Sprintf("sfault:site=%s/k=%d", site, failAt))

		fixed := 3
		switch c.Rnd.Intn(5) {
		case 0:
			fixed = -1
		case 1, 2:
			fixed = 1
		}
		pool := genKeyPool(c, fixed, 3+c.Rnd.Intn(14))
		if c.Rnd.Intn(5) == 0 && !batch {
			pool = nil
			for n := 3 + c.Rnd.Intn(10); len(pool) < n; {
				k := make([]byte, 32)
				c.Rnd.Read(k)
				if len(pool) > 0 && c.Rnd.Intn(2) == 0 {
					copy(k, pool[c.Rnd.Intn(len(pool))][:1+c.Rnd.Intn(31)])
				}
				pool = append(pool, k)
			}
			c.Count("sfault:32-byte-keys")
		}
		if batch {
			pool = genKeyPool(c, 3, 45)
			if failAt == 1 {
				pool = pool[:24] // one intermediate write is enough: ~150 KiB
			}
		}
		salt := []byte{byte(sc >> 8), byte(sc), 0xfa}
		val := func() []byte {
			if batch {
				v := append([]byte{}, salt...)
				for i, n := 0, 7000+c.Rnd.Intn(1500); i < n; i++ {
					v = append(v, byte(c.Rnd.Intn(256)))
				}
				return v
			}
			switch c.Rnd.Intn(8) {
			case 0:
				return nil
			case 1, 2:
				v := append([]byte{}, salt...)
				for i, n := 0, 30+c.Rnd.Intn(40); i < n; i++ {
					v = append(v, byte(c.Rnd.Intn(256)))
				}
				return v
			case 3:
				v := append([]byte{}, salt...)
				for i, n := 0, 20+c.Rnd.Intn(10); i < n; i++ {
					v = append(v, byte(c.Rnd.Intn(256)))
				}
				return v
			default:
				return append(append([]byte{}, salt...), byte(1+c.Rnd.Intn(255)))
			}
		}
		limit := uint16(c.Rnd.Intn(3))
		if c.Rnd.Intn(4) == 0 {
			limit = 120
		}
		c.Count(fmt.Sprintf("sfault:cachelimit=%d", limit))

		tr, err := trie.New(common.Hash{}, tdb)
		if err != nil {
			panic(err)
		}
		tr.SetCacheLimit(limit)
		in := &sIntern{ids: map[common.Hash]int{}}
		var script []string
		op := func(o, out string) {
			line := o + " => " + out
			if len(line) > 400 {
				line = line[:400] + "…"
			}
			script = append(script, line)
			c.Op(o, out)
		}
		op(fmt.Sprintf("snew %d", limit), "ok")
		ref := map[string][]byte{}
		type rootRec struct {
			h       common.Hash
			content map[string][]byte
			flushed bool // a TrieDatabase.Commit(h) returned nil
		}
		var roots []*rootRec
		dead := false // the TrieDatabase lock leaked: nothing more can be done with it

		replay := func() interface{} {
			sc := script
			if len(sc) > 80 {
				sc = append([]string{fmt.Sprintf("… %d earlier ops", len(sc)-80)}, sc[len(sc)-80:]...)
			}
			return map[string]interface{}{"world": world, "site": site, "failAt": failAt, "script": sc}
		}
		put := func() {
			k := pool[c.Rnd.Intn(len(pool))]
			v := val()
			out := Safe(func() string {
				if err := tr.TryUpdate(k, v); err != nil {
					return sErr(err)
				}
				return "ok " + sShape(in, tr)
			})
			op(fmt.Sprintf("sput %s %s", hx(k), hx(v)), out)
			if out == "err missing" {
				c.Fail("c17/missing-node", fmt.Sprintf("TryUpdate(%x): MissingNodeError on a TrieDatabase whose flush failed or succeeded, never lost anything", k), replay())
			}
			if len(v) == 0 {
				delete(ref, string(k))
			} else {
				ref[string(k)] = v
			}
		}
		del := func() {
			k := pool[c.Rnd.Intn(len(pool))]
			out := Safe(func() string {
				if err := tr.TryDelete(k); err != nil {
					return sErr(err)
				}
				return "ok " + sShape(in, tr)
			})
			op("sdel "+hx(k), out)
			if out == "err missing" {
				c.Fail("c17/missing-node", fmt.Sprintf("TryDelete(%x): MissingNodeError", k), replay())
			}
			delete(ref, string(k))
		}
		get := func(k []byte, sig string) {
			val := ""
			out := Safe(func() string {
				v, err := tr.TryGet(k)
				if err != nil {
					return sErr(err)
				}
				val = "nil"
				if v != nil {
					val = sVal(v)
				}
				return val + " " + sShape(in, tr)
			})
			op("sget "+hx(k), out)
			want := "nil"
			if v, ok := ref[string(k)]; ok {
				want = sVal(v)
			}
			if val != want {
				c.Fail(sig, fmt.Sprintf("TryGet(%x) = %s, last write was %s", k, out, want), replay())
			}
		}
		commit := func() *rootRec {
			var root common.Hash
			res := Safe(func() string {
				var err error
				root, err = tr.Commit(nil)
				if err != nil {
					return sErr(err)
				}
				return "ok"
			})
			dec, _, _ := sDecisions(tr)
			out := res
			var rr *rootRec
			if res == "ok" {
				out = fmt.Sprintf("root=%s mem=%d %s", in.id(root[:]), len(tdb.Nodes()), sShape(in, tr))
				content := map[string][]byte{}
				for k, v := range ref {
					content[k] = v
				}
				rr = &rootRec{h: root, content: content}
				roots = append(roots, rr)
			}
			op("scommit "+dec, out)
			c.Count("sfault:scommit")
			return rr
		}
		reopen := func(rr *rootRec, mode string, expectOK bool, sig string) bool {
			ndb := tdb
			if mode == "fresh" {
				ndb = store.NewTrieDatabase(flaky)
			}
			ok := false
			out := Safe(func() string {
				nt, err := trie.New(rr.h, ndb)
				if err != nil {
					return sErr(err)
				}
				nt.SetCacheLimit(limit)
				tr, tdb = nt, ndb
				ref = map[string][]byte{}
				for k, v := range rr.content {
					ref[k] = v
				}
				ok = true
				return "ok " + sShape(in, tr)
			})
			op(fmt.Sprintf("sreopen %s %s", in.id(rr.h[:]), mode), out)
			c.Count("sfault:sreopen:" + mode + ":" + strings.SplitN(out, " ", 2)[0])
			if !ok && expectOK {
				c.Fail(sig, fmt.Sprintf("trie.New(root) through the %s TrieDatabase: %s", mode, out), replay())
			}
			return ok
		}
		flush := func(rr *rootRec, fail string, k int) bool {
			if fail != "" {
				flaky.arm(k)
			}
			var ferr error
			res := Safe(func() string {
				ferr = tdb.Commit(rr.h, false)
				return "ok"
			})
			fired := flaky.fired
			flaky.disarm()
			flaky.fired = false
			if res == "panic" {
				op("sflush "+in.id(rr.h[:]), "panic")
				return false
			}
			if fail == "" || !fired {
				if fail != "" {
					c.Count("sfault:injector-not-reached")
				}
				out := fmt.Sprintf("ok mem=%d", len(tdb.Nodes()))
				if ferr != nil {
					out = "err " + ferr.Error()
				} else {
					for _, o := range roots {
						if o.h == rr.h {
							o.flushed = true
						}
					}
				}
				op("sflush "+in.id(rr.h[:]), out)
				c.Count("sfault:sflush")
				return ferr == nil
			}
			mem := len(tdb.Nodes()) // before the probe: a pending writer blocks every later reader
			free := lockFree(tdb)
			lock := "free"
			if !free {
				lock = "held"
				dead = true
			}
			out := fmt.Sprintf("ok mem=%d lock=%s", mem, lock)
			if ferr != nil {
				out = fmt.Sprintf("err write mem=%d lock=%s", mem, lock)
			}
			op(fmt.Sprintf("sflushfail %s %s", in.id(rr.h[:]), fail), out)
			c.Count("sfault:sflushfail:" + fail)
			if ferr == nil {
				c.Fail("c17/failed-flush-not-reported", "TrieDatabase.Commit returned nil although a batch write failed", replay())
			} else if ferr != errInjectedWrite {
				c.Count("sfault:error-wrapped")
			}
			// what the earlier batches of this call put on disk is closed under hash children (the
			// hypothesis DownClosed of failed_flush_keeps_dbok, on the real walk order)
			if len(flaky.written) > 0 {
				c.Count("sfault:partial-write:nodes-on-disk")
			} else {
				c.Count("sfault:partial-write:none")
			}
			if msg := danglingOnDisk(flaky); msg != "" {
				c.Fail("c17/partial-flush-not-closed", "after a TrieDatabase.Commit that failed at a later batch: "+msg, replay())
			}
			if !free {
				c.Fail("c17/commit-error-leaks-lock", fmt.Sprintf("after TrieDatabase.Commit returned the write error (fault site: %s) the TrieDatabase lock cannot be taken any more (Lock() blocked > 1.5 s): a read lock leaked on the error path; every later Insert / Commit / Dereference blocks forever", fail), replay())
			}
			return false
		}
		preimagePile := func() {
			// > IdealBatchSize bytes of pending preimages: the preimage loop of the next Commit performs an
			// intermediate batch.Commit() before any node is batched
			tdb.Lock()
			for i := 0; i < 30; i++ {
				p := make([]byte, 4096)
				copy(p, salt)
				p[3] = byte(i)
				tdb.InsertPreimage(crypto.Keccak256Hash(p), p)
			}
			tdb.UnLock()
			c.Count("sfault:preimage-pile")
		}
		sweep := func(n int, sig string) {
			idx := c.Rnd.Perm(len(pool))
			if n > len(idx) {
				n = len(idx)
			}
			for _, i := range idx[:n] {
				get(pool[i], sig)
			}
		}

		// ---- phase 1: content, one or two commits (the pool holds the nodes of every committed root)
		rounds := 1 + c.Rnd.Intn(2)
		if batch {
			rounds = 1
		}
		for r := 0; r < rounds; r++ {
			n := 3 + c.Rnd.Intn(22)
			if batch {
				n = 85 // ~38 distinct keys x ~7.7 KiB: the flush needs at least two intermediate writes
				if failAt == 1 {
					n = 40
				}
			}
			for i := 0; i < n; i++ {
				switch x := c.Rnd.Intn(10); {
				case x < 7 || batch:
					put()
				case x < 8:
					del()
				default:
					get(pool[c.Rnd.Intn(len(pool))], "c17/store-read")
				}
			}
			commit()
			if !batch && c.Rnd.Intn(6) == 0 && len(roots) > 0 {
				flush(roots[len(roots)-1], "", 0) // an older root is already on disk
			}
		}
		if len(roots) == 0 {
			continue
		}
		rr := roots[len(roots)-1]
		if len(roots) > 1 && c.Rnd.Intn(4) == 0 {
			rr = roots[c.Rnd.Intn(len(roots))]
		}

		// ---- phase 2: the flush fails (once, sometimes twice, sometimes at two different sites)
		faults := 1
		if c.Rnd.Intn(4) == 0 {
			faults = 2
		}
		for f := 0; f < faults && !dead; f++ {
			s, k := site, failAt
			if f == 1 && site == "pre" {
				s = "final" // the preimage pile reached the disk? no: nothing did; now the node write fails
			}
			if s == "pre" {
				preimagePile()
			}
			if s == "final" && site == "pre" {
				// the pending pile makes the first batch.Commit() the preimage one: fail the LAST write instead
				k = 2
			}
			flush(rr, s, k)
			if dead {
				break
			}
			// the implementation alone: everything written before the failed flush reads back
			if msg := readBack(tdb, rr.h, rr.content, pool); msg != "" {
				c.Fail("c17/read-after-failed-flush", fmt.Sprintf("after TrieDatabase.Commit(root) failed with a write error (site %s), through the SAME TrieDatabase: %s", s, msg), replay())
			}
			// model and implementation: re-open through the same TrieDatabase, read
			if reopen(rr, "same", true, "c17/read-after-failed-flush") {
				sweep(8, "c17/read-after-failed-flush")
			}
			if !partial && !rr.flushed && len(rr.content) > 0 && c.Rnd.Intn(2) == 0 {
				// nothing reached the disk: a fresh TrieDatabase cannot open the root (both sides)
				if reopen(rr, "fresh", false, "") {
					// the script has moved to the fresh TrieDatabase; the pool under test is gone
					c.Count("sfault:fresh-after-fault:ok")
					continue scenarios
				}
				c.Count("sfault:fresh-after-fault:missing")
			}
			if !partial && c.Rnd.Intn(2) == 0 {
				k := pool[c.Rnd.Intn(len(pool))]
				out := Safe(func() string {
					v, err, n := trie.VerifyProof(rr.h, k, tdb.DiskDB())
					return sProof(v, err, n)
				})
				op(fmt.Sprintf("sverify %s %s", in.id(rr.h[:]), hx(k)), out)
				c.Count("sfault:sverify-after-fault:" + sProofClass(out))
			}
			if !batch && c.Rnd.Intn(3) == 0 {
				// life goes on: more writes and a commit into the same pool, then back to the root
				for i, n := 0, 1+c.Rnd.Intn(6); i < n; i++ {
					put()
				}
				if nr := commit(); nr != nil && c.Rnd.Intn(2) == 0 {
					rr = nr // the retry flushes the descendant root, which shares the unflushed nodes
					c.Count("sfault:retry-descendant-root")
				} else {
					reopen(rr, "same", true, "c17/read-after-failed-flush")
				}
			}
		}
		if dead {
			c.Count("sfault:scenario-dead")
			continue
		}

		// ---- phase 3: the retry succeeds; a FRESH TrieDatabase over the disk serves the trie
		if flush(rr, "", 0) {
			if msg := readBack(store.NewTrieDatabase(bare), rr.h, rr.content, pool); msg != "" {
				c.Fail("c17/retry-flush-lost", fmt.Sprintf("the retried TrieDatabase.Commit(root) returned nil, but through a FRESH TrieDatabase over the same key-value store: %s", msg), replay())
			}
			if msg := readBack(tdb, rr.h, rr.content, pool); msg != "" {
				c.Fail("c17/read-after-failed-flush", fmt.Sprintf("after the retried flush, through the SAME TrieDatabase: %s", msg), replay())
			}
			if reopen(rr, "fresh", true, "c17/retry-flush-lost") {
				n := len(pool)
				if batch {
					n = 12
				}
				sweep(n, "c17/retry-flush-lost")
			}
			if c.Rnd.Intn(2) == 0 {
				k := pool[c.Rnd.Intn(len(pool))]
				out := Safe(func() string {
					v, err, n := trie.VerifyProof(rr.h, k, tdb.DiskDB())
					return sProof(v, err, n)
				})
				op(fmt.Sprintf("sverify %s %s", in.id(rr.h[:]), hx(k)), out)
				c.Count("sfault:sverify-after-retry:" + sProofClass(out))
			}
		}
		// ---- phase 4: the TrieDatabase keeps working
		if !batch && c.Rnd.Intn(2) == 0 {
			for i, n := 0, 1+c.Rnd.Intn(8); i < n; i++ {
				if c.Rnd.Intn(4) == 0 {
					del()
				} else {
					put()
				}
			}
			if nr := commit(); nr != nil {
				if flush(nr, "", 0) {
					if msg := readBack(store.NewTrieDatabase(bare), nr.h, nr.content, pool); msg != "" {
						c.Fail("c17/retry-flush-lost", fmt.Sprintf("a later root flushed through the TrieDatabase that had met the write fault, FRESH TrieDatabase: %s", msg), replay())
					}
				}
				sweep(6, "c17/store-read")
			}
		}
	}
}

package main

// hx c17, Merkle part, leaf-slice SHAPES: merkle.New keeps the caller's slice; the node list must be
// built on a copy.  What is generated: exact-capacity slices, slices with spare capacity (a prefix
// arr[:k] of a longer array, an append-grown slice), ONE backing array used for the trees of all its
// prefixes (k increasing and decreasing) with the earlier trees kept alive, and the caller appending /
// overwriting inside its own spare capacity while a tree is still in use.
//
// Correspondence (value semantics: the Lean model takes the leaf LIST): op `mshape <shape> <leaf ids>`,
// answer = the array structure as for `mt` PLUS the identity of every leaf entry of the node array
// (`leaves=…`, `?` for an entry that is not the leaf value it should be).
// Oracles:
//   c17/merkle-mutates-input                   New/Root/HashNodes/FindSiblingNodes changed the caller's backing
//                                              array (anywhere up to its capacity)
//   c17/merkle-root-not-function-of-leaves     the root over a slice differs from the root over an
//                                              exact-capacity copy of the same leaf values
//   c17/merkle-tree-changed-by-caller-append   a finished tree (Root() taken) changes when the caller appends
//                                              to / overwrites the spare capacity of ITS slice: Root() moves or a
//                                              genuine inclusion proof stops verifying (a consequence of the
//                                              node list living in the caller's array; merkle.New documents no
//                                              ownership of the spare capacity)

import (
	"fmt"
	"strings"

	"github.com/LemoFoundationLtd/lemochain-core/common"
	"github.com/LemoFoundationLtd/lemochain-core/common/merkle"
)

// structure + leaf identities of the node array `nodes` built for `n` leaves with ids `ids`
func shapeShow(ids []int, nodes []common.Hash, root common.Hash) string {
	t := &mtree{nodes: nodes, root: root, first: map[common.Hash]int{}}
	for _, v := range ids {
		t.leaves = append(t.leaves, mkLeaf(v))
	}
	for i, h := range nodes {
		if _, ok := t.first[h]; !ok {
			t.first[h] = i
		}
	}
	var ls []string
	for i := range ids {
		if i < len(nodes) && nodes[i] == mkLeaf(ids[i]) {
			ls = append(ls, fmt.Sprint(ids[i]))
		} else {
			ls = append(ls, "?")
		}
	}
	l := "-"
	if len(ls) > 0 {
		l = strings.Join(ls, ",")
	}
	return t.show() + " leaves=" + l
}

func exactRoot(ids []int) common.Hash {
	in := make([]common.Hash, len(ids))
	for i, v := range ids {
		in[i] = mkLeaf(v)
	}
	return merkle.New(in).Root()
}

type liveTree struct {
	k     int
	t     *merkle.MerkleTree
	root  common.Hash
	nodes []common.Hash
}

func c17MerkleShapes(c *Ctx) {
	nsc := 25
	if c.Tier == "thorough" {
		nsc = 250
	}
	for sc := 0; sc < nsc; sc++ {
		n := 1 + c.Rnd.Intn(14)
		ids := make([]int, n)
		for i := range ids {
			ids[i] = c.Rnd.Intn(40) // duplicates possible
		}
		if c.Rnd.Intn(3) == 0 {
			for i := range ids {
				ids[i] = i
			}
		}
		extra := c.Rnd.Intn(2 * n)
		c17MerkleShapeScenario(c, ids, extra, sc%2 == 0)
	}
}

func c17MerkleShapeScenario(c *Ctx, ids []int, extra int, increasing bool) {
	n := len(ids)
	rep := func(shape string, k int) map[string]interface{} {
		return map[string]interface{}{"leaves": ids, "shape": shape, "k": k, "cap": n + extra, "increasing": increasing}
	}
	defer func() {
		if r := recover(); r != nil {
			c.Fail("c17/merkle-panic", fmt.Sprintf("panic in common/merkle on an aliased leaf slice: %v", r), rep("?", 0))
		}
	}()
	pristine := func(arr []common.Hash, orig []common.Hash) int {
		full := arr[:cap(arr)]
		for i := range orig {
			if full[i] != orig[i] {
				return i
			}
		}
		return -1
	}
	// ---- one backing array, trees over all its prefixes, earlier trees kept alive
	arr := make([]common.Hash, n, n+extra)
	for i, v := range ids {
		arr[i] = mkLeaf(v)
	}
	for i := n; i < n+extra; i++ { // recognisable filler in the spare capacity
		arr[:cap(arr)][i] = mkLeaf(5000 + i)
	}
	orig := append([]common.Hash{}, arr[:cap(arr)]...)
	var live []liveTree
	order := make([]int, 0, n)
	for k := 1; k <= n; k++ {
		order = append(order, k)
	}
	if !increasing {
		for i, j := 0, len(order)-1; i < j; i, j = i+1, j-1 {
			order[i], order[j] = order[j], order[i]
		}
	}
	for _, k := range order {
		shape := "prefix-spare-cap"
		if k == n && extra == 0 {
			shape = "exact-cap"
		}
		t := merkle.New(arr[:k])
		root := t.Root()
		nodes := t.HashNodes()
		c.Op(fmt.Sprintf("mshape %s %s", shape, listStr(ids[:k])), Safe(func() string { return shapeShow(ids[:k], nodes, root) }))
		c.Count("mshape:" + shape)
		if want := exactRoot(ids[:k]); root != want {
			c.Fail("c17/merkle-root-not-function-of-leaves", fmt.Sprintf("root over arr[:%d] (cap %d, earlier trees on the same array) %x != root %x over an exact-capacity copy of the same %d leaves", k, cap(arr), root[:6], want[:6], k), rep(shape, k))
		}
		for i := 0; i < k; i++ {
			if p, err := merkle.FindSiblingNodes(arr[i], nodes); err != nil || !merkle.Verify(mkLeaf(ids[i]), root, p) {
				c.Fail("c17/merkle-inclusion", fmt.Sprintf("leaf %d of arr[:%d]: genuine proof rejected (err=%v)", i, k, err), rep(shape, k))
				break
			}
		}
		if i := pristine(arr, orig); i >= 0 {
			c.Fail("c17/merkle-mutates-input", fmt.Sprintf("after New(arr[:%d]).Root()/HashNodes()/FindSiblingNodes the caller's backing array (len %d cap %d) differs at index %d", k, n, cap(arr), i), rep(shape, k))
			orig = append([]common.Hash{}, arr[:cap(arr)]...) // no repair: the next prefixes see what a caller would see
		}
		live = append(live, liveTree{k, t, root, append([]common.Hash{}, nodes...)})
	}
	// the earlier trees are still what they were
	for _, lt := range live {
		if lt.t.Root() != lt.root {
			c.Fail("c17/merkle-tree-changed-by-caller-append", fmt.Sprintf("tree over arr[:%d]: Root() changed after other trees were built over the same array", lt.k), rep("shared-array", lt.k))
			break
		}
	}
	c.Count("mshape:shared-array-roots-rechecked")

	// ---- append-grown slice, then the caller keeps appending / overwrites its spare capacity
	var g []common.Hash
	for _, v := range ids {
		g = append(g, mkLeaf(v))
	}
	shape := "append-grown"
	if cap(g) == len(g) {
		shape = "append-grown-exact"
	}
	gorig := append([]common.Hash{}, g[:cap(g)]...)
	t := merkle.New(g)
	root := t.Root()
	nodes := t.HashNodes()
	c.Op(fmt.Sprintf("mshape %s %s", shape, listStr(ids)), Safe(func() string { return shapeShow(ids, nodes, root) }))
	c.Count("mshape:" + shape)
	if i := pristine(g, gorig); i >= 0 {
		c.Fail("c17/merkle-mutates-input", fmt.Sprintf("after New(g).Root() the caller's append-grown slice (len %d cap %d) differs at index %d of its backing array", len(g), cap(g), i), rep(shape, n))
	}
	if want := exactRoot(ids); root != want {
		c.Fail("c17/merkle-root-not-function-of-leaves", fmt.Sprintf("root over an append-grown slice %x != root over an exact copy %x", root[:6], want[:6]), rep(shape, n))
	}
	// caller goes on using ITS slice: append within capacity, overwrite the spare capacity
	g2 := g
	for i := 0; len(g2) < cap(g2) && i < 4; i++ {
		g2 = append(g2, mkLeaf(7000+i))
	}
	full := g[:cap(g)]
	for i := len(g); i < len(full); i++ {
		full[i] = mkLeaf(8000 + i)
	}
	if len(full) > len(g) {
		c.Count("mshape:caller-wrote-spare-capacity")
	}
	if t.Root() != root {
		c.Fail("c17/merkle-tree-changed-by-caller-append", fmt.Sprintf("Root() of a finished tree over %d leaves changed after the caller appended to its own slice (cap %d)", n, cap(g)), rep(shape, n))
	} else {
		for i := 0; i < n; i++ {
			p, err := merkle.FindSiblingNodes(mkLeaf(ids[i]), t.HashNodes())
			if err != nil || !merkle.Verify(mkLeaf(ids[i]), root, p) {
				c.Fail("c17/merkle-tree-changed-by-caller-append", fmt.Sprintf("leaf %d of %d: the genuine proof no longer verifies after the caller appended to its own slice (err=%v)", i, n, err), rep(shape, n))
				break
			}
		}
	}
	// the same op line once more: the answer must not have moved
	c.Op(fmt.Sprintf("mshape %s-after-caller-append %s", shape, listStr(ids)), Safe(func() string { return shapeShow(ids, t.HashNodes(), t.Root()) }))
}

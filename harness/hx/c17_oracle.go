package main

// Direct property oracles of C17 on the implementation (no model involved).

import (
	"bytes"
	"fmt"
	"sort"

	"github.com/LemoFoundationLtd/lemochain-core/common"
	"github.com/LemoFoundationLtd/lemochain-core/common/crypto"
	"github.com/LemoFoundationLtd/lemochain-core/common/merkle"
	"github.com/LemoFoundationLtd/lemochain-core/store"
	"github.com/LemoFoundationLtd/lemochain-core/store/trie"
)

// ---------------------------------------------------------------- Merkle

func merkleRoot(leaves []common.Hash) common.Hash {
	return merkle.New(append([]common.Hash{}, leaves...)).Root()
}

func merkleOracle(c *Ctx, l []int, t *mtree) {
	n := len(l)
	rep := map[string]interface{}{"leaves": l}
	if n == 0 {
		if t.root != merkle.EmptyTrieHash || len(t.nodes) != 0 {
			c.Fail("c17/merkle-empty", "empty leaf list does not give EmptyTrieHash", rep)
		}
		if _, err := merkle.FindSiblingNodes(absentHash, nil); err == nil {
			c.Fail("c17/merkle-nil-nodes", "FindSiblingNodes(nil) returned no error", rep)
		}
		return
	}
	if len(t.nodes) != 2*n-1 {
		c.Fail("c17/merkle-shape", fmt.Sprintf("%d leaves give %d nodes", n, len(t.nodes)), rep)
	}
	// determinism, and the caller's leaf slice is left alone
	in := append([]common.Hash{}, t.leaves...)
	m := merkle.New(in)
	r1, r2 := m.Root(), m.Root()
	if r1 != t.root || r2 != t.root {
		c.Fail("c17/merkle-root-unstable", "Root() differs between calls on the same leaves", rep)
	}
	for i := range in {
		if in[i] != t.leaves[i] {
			c.Fail("c17/merkle-mutates-input", "leaf slice modified by Root()", rep)
			break
		}
	}
	for i := 0; i < n; i++ {
		p, err := merkle.FindSiblingNodes(t.leaves[i], t.nodes)
		if err != nil || !merkle.Verify(t.leaves[i], t.root, p) {
			c.Fail("c17/merkle-inclusion", fmt.Sprintf("leaf %d of %d: genuine proof rejected (err=%v)", i, n, err), rep)
			continue
		}
		c.Count("oracle:merkle-inclusion")
		// altered leaf under the genuine path
		alt := mkLeaf(1000 + i)
		if merkle.Verify(alt, t.root, p) {
			c.Fail("c17/merkle-accepts-altered", fmt.Sprintf("leaf %d of %d: altered leaf accepted", i, n), rep)
		}
		// any OTHER leaf value under this path
		j := c.Rnd.Intn(n)
		if t.leaves[j] != t.leaves[i] && merkle.Verify(t.leaves[j], t.root, p) {
			// legitimate only if both positions have the same shape and siblings, impossible for different values
			c.Fail("c17/merkle-accepts-altered", fmt.Sprintf("leaf %d accepted under the path of leaf %d (n=%d)", j, i, n), rep)
		}
		// the root changes when leaf i changes
		ch := append([]common.Hash{}, t.leaves...)
		ch[i] = alt
		if merkleRoot(ch) == t.root {
			c.Fail("c17/merkle-root-collision", fmt.Sprintf("changing leaf %d of %d keeps the root", i, n), rep)
		}
		// ... and when two different leaves change places
		if i+1 < n && t.leaves[i] != t.leaves[i+1] {
			sw := append([]common.Hash{}, t.leaves...)
			sw[i], sw[i+1] = sw[i+1], sw[i]
			if merkleRoot(sw) == t.root {
				c.Fail("c17/merkle-root-collision", fmt.Sprintf("swapping leaves %d,%d of %d keeps the root", i, i+1, n), rep)
			}
			c.Count("oracle:merkle-order")
		}
	}
	// appending / dropping a leaf changes the root
	if merkleRoot(append(append([]common.Hash{}, t.leaves...), mkLeaf(2000))) == t.root || merkleRoot(t.leaves[:n-1]) == t.root {
		c.Fail("c17/merkle-root-collision", fmt.Sprintf("length change keeps the root (n=%d)", n), rep)
	}
}

// ---------------------------------------------------------------- trie

type kv struct {
	k, v []byte
}

func sortedContent(ref map[string][]byte) []kv {
	var out []kv
	for k, v := range ref {
		out = append(out, kv{[]byte(k), v})
	}
	sort.Slice(out, func(i, j int) bool { return bytes.Compare(out[i].k, out[j].k) < 0 })
	return out
}

// content-addressed proof database, as an honest verifier would build from a list of node blobs
func proofDbOf(blobs [][]byte) *store.MemDatabase {
	db, _ := store.NewMemDatabase()
	for _, b := range blobs {
		db.Put(0, crypto.Keccak256(b), b)
	}
	return db
}

// the node blobs on the path of key (a proof, since Trie.Prove is commented out in /repo): walk the
// committed trie in the disk database by following VerifyProof's own lookups.
type recordingReader struct {
	inner store.DatabaseReader
	seen  [][]byte
}

func (r *recordingReader) Get(flg uint32, key []byte) ([]byte, error) {
	v, err := r.inner.Get(flg, key)
	if v != nil {
		r.seen = append(r.seen, append([]byte{}, v...))
	}
	return v, err
}
func (r *recordingReader) Has(flg uint32, key []byte) (bool, error) { return r.inner.Has(flg, key) }

type secureOrPlain interface {
	TryGet(key []byte) ([]byte, error)
	TryUpdate(key, value []byte) error
	TryDelete(key []byte) error
	Commit(onleaf trie.LeafCallback) (common.Hash, error)
	Hash() common.Hash
}

func c17TrieOracle(c *Ctx, cdb *store.ChainDatabase) {
	rounds := c.N / 6
	if rounds < 8 {
		rounds = 8
	}
	for r := 0; r < rounds; r++ {
		c17TrieOracleRound(c, cdb)
	}
}

// one round; a panic anywhere in the real code is a finding, not a harness crash
func c17TrieOracleRound(c *Ctx, cdb *store.ChainDatabase) {
	var script []string
	secure := false
	limit := uint16(0)
	defer func() {
		if r := recover(); r != nil {
			c.Fail("c17/trie-panic", fmt.Sprintf("panic in the trie code: %v", r),
				map[string]interface{}{"secure": secure, "cachelimit": limit, "script": script})
		}
	}()
	{
		secure = c.Rnd.Intn(3) != 0
		limit = []uint16{0, 1, 2, 120}[c.Rnd.Intn(4)]
		tdb := cdb.GetTrieDatabase()
		open := func(root common.Hash, db *store.TrieDatabase) (secureOrPlain, error) {
			if secure {
				return trie.NewSecure(root, db, limit)
			}
			t, err := trie.New(root, db)
			if err == nil {
				t.SetCacheLimit(limit)
			}
			return t, err
		}
		var rawKey func(k []byte) []byte // the key as stored in the underlying trie
		if secure {
			rawKey = func(k []byte) []byte { return crypto.Keccak256(k) }
			c.Count("oracle:secure-trie")
		} else {
			rawKey = func(k []byte) []byte { return k }
			c.Count("oracle:plain-trie")
		}
		c.Count(fmt.Sprintf("oracle:cachelimit=%d", limit))
		tr, err := open(common.Hash{}, tdb)
		if err != nil {
			c.Fail("c17/trie-open", err.Error(), nil)
			return
		}
		klen := 4
		if secure {
			klen = 1 + c.Rnd.Intn(40)
		}
		nkeys := 5 + c.Rnd.Intn(120)
		pool := make([][]byte, nkeys)
		for i := range pool {
			k := make([]byte, klen)
			for j := range k {
				if secure || c.Rnd.Intn(4) == 0 {
					k[j] = byte(c.Rnd.Intn(256))
				} else {
					k[j] = keyAlphabet[c.Rnd.Intn(len(keyAlphabet))]
				}
			}
			pool[i] = k
		}
		ref := map[string][]byte{}
		fail := func(sig, detail string) {
			c.Fail(sig, detail, map[string]interface{}{"secure": secure, "cachelimit": limit, "script": script})
		}
		checkReads := func(where string) bool {
			for _, k := range pool {
				v, err := tr.TryGet(k)
				w := ref[string(k)]
				if err != nil || !bytes.Equal(v, w) {
					fail("c17/trie-read", fmt.Sprintf("%s: TryGet(%x) = %x (err %v), last write %x", where, k, v, err, w))
					return false
				}
			}
			c.Count("oracle:reads-vs-map")
			return true
		}
		nops := 30 + c.Rnd.Intn(300)
		ok := true
		var lastRoot common.Hash
		for i := 0; i < nops && ok; i++ {
			k := pool[c.Rnd.Intn(len(pool))]
			switch x := c.Rnd.Intn(100); {
			case x < 55:
				v := genVal(c)
				script = append(script, fmt.Sprintf("put %x %x", k, v))
				if err := tr.TryUpdate(k, v); err != nil {
					fail("c17/trie-error", "TryUpdate: "+err.Error())
					ok = false
				}
				if len(v) == 0 {
					delete(ref, string(k))
				} else {
					ref[string(k)] = v
				}
			case x < 80:
				script = append(script, fmt.Sprintf("del %x", k))
				if err := tr.TryDelete(k); err != nil {
					fail("c17/trie-error", "TryDelete: "+err.Error())
					ok = false
				}
				delete(ref, string(k))
			case x < 85:
				script = append(script, "hash")
				tr.Hash()
			case x < 93:
				script = append(script, "commit")
				root, err := tr.Commit(nil)
				if err != nil {
					fail("c17/trie-error", "Commit: "+err.Error())
					ok = false
					break
				}
				lastRoot = root
				if c.Rnd.Intn(2) == 0 {
					script = append(script, "flush")
					if err := tdb.Commit(root, false); err != nil {
						fail("c17/trie-error", "TrieDatabase.Commit: "+err.Error())
						ok = false
					}
				}
				ok = ok && checkReads("after commit")
			default:
				script = append(script, "reopen")
				root, err := tr.Commit(nil)
				if err == nil {
					err = tdb.Commit(root, false)
				}
				if err != nil {
					fail("c17/trie-error", "Commit: "+err.Error())
					ok = false
					break
				}
				lastRoot = root
				if c.Rnd.Intn(2) == 0 {
					tdb = cdb.GetTrieDatabase() // fresh node pool: everything must come from BeansDB
				}
				nt, err := open(root, tdb)
				if err != nil {
					fail("c17/trie-reopen", fmt.Sprintf("cannot reopen committed root %x: %v", root, err))
					ok = false
					break
				}
				tr = nt
				if tr.Hash() != root {
					fail("c17/trie-reopen", "reopened trie has another root hash")
				}
				ok = ok && checkReads("after reopen")
				c.Count("oracle:reopen")
			}
		}
		if !ok {
			return
		}
		checkReads("final")
		final := tr.Hash()
		_ = lastRoot
		content := sortedContent(ref)
		// (1) same content, sorted insertion, no commit, fresh pool
		h1, err := buildPerm(c, open, cdb, content, pool, ref, false, false)
		if err != nil || h1 != final {
			fail("c17/trie-root-history", fmt.Sprintf("root after the script %x != root of the same %d pairs inserted in key order %x (err %v)", final, len(content), h1, err))
		}
		c.Count("oracle:root-vs-sorted-rebuild")
		for p := 0; p < 3; p++ {
			perm := append([]kv{}, content...)
			c.Rnd.Shuffle(len(perm), func(i, j int) { perm[i], perm[j] = perm[j], perm[i] })
			h2, err := buildPerm(c, open, cdb, perm, pool, ref, p == 1, p == 2)
			if err != nil || h2 != final {
				fail("c17/trie-root-order", fmt.Sprintf("root of a permutation of the same %d pairs %x != %x (err %v, noise=%v commits=%v)", len(content), h2, final, err, p == 1, p == 2))
			}
			c.Count("oracle:root-vs-permutation")
		}
		if len(content) == 0 {
			c.Count("oracle:final-empty")
		}
		// (2) proofs against the committed trie: flush, then VerifyProof over BeansDB and over an
		// honest content-addressed proof database built from the blobs VerifyProof itself read
		root, err := tr.Commit(nil)
		if err == nil {
			err = tdb.Commit(root, false)
		}
		if err != nil || root != final {
			fail("c17/trie-commit-root", fmt.Sprintf("Commit root %x != Hash %x (err %v)", root, final, err))
			return
		}
		if len(content) == 0 {
			return
		}
		disk := tdb.DiskDB()
		for pi := 0; pi < 6; pi++ {
			e := content[c.Rnd.Intn(len(content))]
			rec := &recordingReader{inner: disk}
			v, err, _ := trie.VerifyProof(root, rawKey(e.k), rec)
			if err != nil || !bytes.Equal(v, e.v) {
				fail("c17/proof-present", fmt.Sprintf("VerifyProof over BeansDB for present key %x: %x err %v, want %x", e.k, v, err, e.v))
				return
			}
			c.Count("oracle:proof-present")
			pdb := proofDbOf(rec.seen)
			v, err, _ = trie.VerifyProof(root, rawKey(e.k), pdb)
			if err != nil || !bytes.Equal(v, e.v) {
				fail("c17/proof-present", fmt.Sprintf("VerifyProof over the extracted proof for %x: %x err %v", e.k, v, err))
			}
			// alter the value inside the last blob (the one that holds the value): with a
			// content-addressed proof db the altered node is simply not found under the wanted hash
			last := append([]byte{}, rec.seen[len(rec.seen)-1]...)
			if i := bytes.LastIndex(last, e.v); i >= 0 {
				last[i+len(e.v)-1] ^= 0x01
				forged := append(append([][]byte{}, rec.seen[:len(rec.seen)-1]...), last)
				v2, err2, _ := trie.VerifyProof(root, rawKey(e.k), proofDbOf(forged))
				if err2 == nil && v2 != nil {
					fail("c17/proof-forged", fmt.Sprintf("altered value %x accepted for key %x", v2, e.k))
				}
				c.Count("oracle:proof-altered-rejected")
				// a reader that is NOT content-addressed answers the ORIGINAL hash of the last node with the
				// altered blob: since /repo 18a0e58 VerifyProof itself must reject it (before that fix it
				// returned the altered value: LemoProofs.C17.proof_forged_legacy)
				bad, _ := store.NewMemDatabase()
				for _, b := range rec.seen[:len(rec.seen)-1] {
					bad.Put(0, crypto.Keccak256(b), b)
				}
				bad.Put(0, crypto.Keccak256(rec.seen[len(rec.seen)-1]), last)
				if v3, err3, _ := trie.VerifyProof(root, rawKey(e.k), bad); err3 == nil && v3 != nil && !bytes.Equal(v3, e.v) {
					fail("c17/proof-forged", fmt.Sprintf("altered value %x accepted for key %x from a reader that is not content-addressed", v3, e.k))
				} else if err3 != nil {
					c.Count("oracle:proof-altered-raw-reader-rejected-by-VerifyProof")
				}
				// and an interior node: the root answered with the root blob of another trie
				if len(rec.seen) > 1 {
					bad2, _ := store.NewMemDatabase()
					for _, b := range rec.seen {
						bad2.Put(0, crypto.Keccak256(b), b)
					}
					bad2.Put(0, crypto.Keccak256(rec.seen[0]), rec.seen[1])
					if v4, err4, _ := trie.VerifyProof(root, rawKey(e.k), bad2); err4 == nil && v4 != nil {
						fail("c17/proof-forged", fmt.Sprintf("a proof whose root node is another node was accepted for key %x: %x", e.k, v4))
					} else {
						c.Count("oracle:proof-swapped-root-rejected")
					}
				}
			}
			// absent key: no value, no error
			abs := append(append([]byte{}, e.k...), 0x77)
			if _, in := ref[string(abs)]; !in {
				v, err, _ := trie.VerifyProof(root, rawKey(abs), disk)
				if err != nil || v != nil {
					fail("c17/proof-absent", fmt.Sprintf("VerifyProof for absent key %x: %x err %v", abs, v, err))
				}
				c.Count("oracle:proof-absent")
			}
		}
	}
}

func buildPerm(c *Ctx, open func(common.Hash, *store.TrieDatabase) (secureOrPlain, error), cdb *store.ChainDatabase,
	order []kv, pool [][]byte, ref map[string][]byte, noise, commits bool) (common.Hash, error) {
	db := cdb.GetTrieDatabase()
	t, err := open(common.Hash{}, db)
	if err != nil {
		return common.Hash{}, err
	}
	var extra [][]byte
	for i, e := range order {
		if noise && c.Rnd.Intn(3) == 0 {
			o := pool[c.Rnd.Intn(len(pool))]
			if _, in := ref[string(o)]; !in {
				if err := t.TryUpdate(o, []byte{9, 9, 9}); err != nil {
					return common.Hash{}, err
				}
				extra = append(extra, o)
			}
		}
		if noise && c.Rnd.Intn(4) == 0 { // a stale value first
			if err := t.TryUpdate(e.k, []byte{7}); err != nil {
				return common.Hash{}, err
			}
		}
		if err := t.TryUpdate(e.k, e.v); err != nil {
			return common.Hash{}, err
		}
		if commits && i%5 == 2 {
			root, err := t.Commit(nil)
			if err != nil {
				return common.Hash{}, err
			}
			if i%10 == 2 {
				if err := db.Commit(root, false); err != nil {
					return common.Hash{}, err
				}
			}
		}
	}
	for _, o := range extra {
		if err := t.TryDelete(o); err != nil {
			return common.Hash{}, err
		}
	}
	return t.Hash(), nil
}

package main

// hx c17, stream "sc.…": chain/account.StorageCache (account.go:36-186: NewStorageCache, Reset, GetTrie,
// Save, Update, SetState, IsDirty, RevertState, DelState, GetState) vs LemoModel.StorageCache
// (lean/LemoModel/StorageCache.lean).
//
// Random scripts of set/del/get/update/save/reset/fresh-open over the REAL StorageCache on the real
// BeansDB-backed ChainDatabase (most scenarios) or on a MemDatabase-backed TrieDatabase (fault
// injection: `sc.wipe` removes node blobs from the key-value store, so that NewSecure fails with
// ErrTrieFail, TryGet meets MissingNodeError — which GetState swallows — and Update fails in the
// middle of its loop, leaving a half-emptied dirty map).
//
// Op lines carry generator-chosen data only: cache number, pool index of the key, the value bytes,
// the root as a token (`zero`, `junk` = a hash nothing was stored under, `empty` = emptyRoot, `#i` =
// i-th distinct root printed so far in the scenario).  `sc.pool` gives, for every pool key, its
// Keccak256 as computed HERE with crypto.Keccak256 (the model's `hk`; not read from the trie code).
// One exception, a nondeterminism hint that the model CHECKS: when the real Update failed in the
// middle, `left=` lists the dirty keys that were left (Go's map iteration order decided it); the
// driver must find an iteration order with exactly that outcome, otherwise its answer differs.
//
// Both sides print after every op: the result (value read / root id / error name) and the state of
// the cache through the add-only hooks account.StorageCache.VerifState and trie.SecureTrie.VerifTrie:
//   c=[i:val,…]  cached map    d=[i:val,…]  dirty map    t=nil | g<cachegen>/<cachelimit>  trie handle
// Roots are compared as an EQUALITY PATTERN (interned ids), never as Keccak values.
// The in-memory node graph is NOT printed here: after an Update with several dirty keys it depends
// on Go's map iteration order (the s-stream compares it for single operations).
//
// Observations counted as `observed:` (facts of the code that the model reproduces, see
// LemoProofs.C17Storage): the two roots of the empty storage (zero hash / emptyRoot), Save(zero hash)
// accepting whatever the trie holds, the writing cache reading untrimmed bytes.

import (
	"bytes"
	"fmt"
	"strings"

	"github.com/LemoFoundationLtd/lemochain-core/chain/account"
	"github.com/LemoFoundationLtd/lemochain-core/chain/types"
	"github.com/LemoFoundationLtd/lemochain-core/common"
	"github.com/LemoFoundationLtd/lemochain-core/common/crypto"
	"github.com/LemoFoundationLtd/lemochain-core/store"
	"github.com/LemoFoundationLtd/lemochain-core/store/leveldb"
	"github.com/LemoFoundationLtd/lemochain-core/store/protocol"
	"github.com/LemoFoundationLtd/lemochain-core/store/trie"
)

// a ChainDB whose TrieDatabases sit on a MemDatabase the harness can damage
type scMemDB struct {
	protocol.ChainDB
	mem *store.MemDatabase
}

func (d *scMemDB) GetTrieDatabase() *store.TrieDatabase { return store.NewTrieDatabase(d.mem) }

var (
	scJunk      = crypto.Keccak256Hash([]byte("hx-c17-sc: a root nothing was ever stored under"))
	scEmptyRoot = common.HexToHash("56e81f171bcc55a6ff8345e692c0f86e5b48e01b996cadc001622fb5e363b421")
)

type scCache struct {
	c    *account.StorageCache
	root common.Hash // the root the owner (an Account) holds for this cache
}

type scWorld struct {
	c      *Ctx
	db     protocol.ChainDB
	mem    *store.MemDatabase // non-nil: fault-injection world
	in     *sIntern
	pool   []common.Hash
	caches []*scCache
	roots  []common.Hash        // distinct non-zero roots returned by Update
	saved  map[common.Hash]bool // roots a Save accepted
	wiped  bool
	held   map[common.Hash]bool // after the wipe: the keys the kept root holds a value for (read before the damage)
}

func (w *scWorld) rootTok(h common.Hash) string {
	switch {
	case h == (common.Hash{}):
		return "zero"
	case h == scJunk:
		return "junk"
	}
	if _, ok := w.in.ids[h]; ok {
		return w.in.id(h[:])
	}
	if h == scEmptyRoot {
		return "empty"
	}
	panic("hx c17 sc: root was never printed")
}

func (w *scWorld) stor(m account.Storage) string {
	var es []string
	for i, k := range w.pool {
		if v, ok := m[k]; ok {
			es = append(es, fmt.Sprintf("%d:%s", i, sVal(v)))
		}
	}
	if len(es) == 0 {
		return "-"
	}
	return strings.Join(es, ",")
}

func (w *scWorld) dump(sc *account.StorageCache) string {
	cached, dirty, tr, _ := sc.VerifState()
	t := "nil"
	if tr != nil {
		g, l := tr.VerifTrie().VerifCacheGen()
		t = fmt.Sprintf("g%d/%d", g, l)
	}
	return fmt.Sprintf("c=[%s] d=[%s] t=%s", w.stor(cached), w.stor(dirty), t)
}

func (w *scWorld) dirtyIdx(sc *account.StorageCache) []int {
	_, dirty, _, _ := sc.VerifState()
	var l []int
	for i, k := range w.pool {
		if _, ok := dirty[k]; ok {
			l = append(l, i)
		}
	}
	return l
}

func scErr(err error) string {
	switch err {
	case types.ErrTrieFail:
		return "err trieFail"
	case types.ErrTrieChanged:
		return "err trieChanged"
	}
	if _, ok := err.(*trie.MissingNodeError); ok {
		return "err missing"
	}
	return "err " + err.Error()
}

// outcome class of an answer line
func scClass(out string) string {
	f := strings.Fields(out)
	switch {
	case len(f) == 0:
		return "?"
	case f[0] == "err" && len(f) > 1:
		return "err-" + f[1]
	case strings.HasPrefix(f[0], "root=#"):
		return "root"
	case strings.HasPrefix(f[0], "v="):
		return "value"
	}
	return f[0]
}

// value classes: what contract storage, asset tables and equity tables put into a StorageCache
func scVal(c *Ctx) ([]byte, string) {
	rnd := func(n int) []byte {
		v := make([]byte, n)
		c.Rnd.Read(v)
		v[0] |= 1
		return v
	}
	switch c.Rnd.Intn(16) {
	case 0:
		return nil, "empty"
	case 1:
		return make([]byte, 1+c.Rnd.Intn(3)), "all-zero-short"
	case 2:
		return make([]byte, 32), "all-zero-32"
	case 3:
		return append(make([]byte, 1+c.Rnd.Intn(3)), rnd(1+c.Rnd.Intn(2))...), "leading-zero-short"
	case 4:
		return append(make([]byte, 1+c.Rnd.Intn(4)), rnd(33+c.Rnd.Intn(40))...), "leading-zero-long"
	case 5: // what the EVM writes never has this shape (big.Int.Bytes), what it reads back does: 32 bytes, left padded
		v := make([]byte, 32)
		copy(v[32-1-c.Rnd.Intn(8):], rnd(8))
		return v, "padded-32"
	case 6, 7:
		return rnd(32), "32-byte"
	case 8, 9:
		return rnd(33 + c.Rnd.Intn(60)), "long"
	case 10:
		return rnd(56 + c.Rnd.Intn(200)), "very-long"
	default:
		return rnd(1 + c.Rnd.Intn(3)), "short"
	}
}

func c17Sc(c *Ctx, cdb *store.ChainDatabase) {
	nsc := c.N / 8
	if nsc < 24 {
		nsc = 24
	}
	for sc := 0; sc < nsc; sc++ {
		scScenario(c, cdb, sc)
	}
}

func scScenario(c *Ctx, cdb *store.ChainDatabase, scn int) {
	w := &scWorld{c: c, db: cdb, in: &sIntern{ids: map[common.Hash]int{}}, saved: map[common.Hash]bool{}}
	fault := scn%3 == 1
	if fault {
		w.mem, _ = store.NewMemDatabase()
		w.db = &scMemDB{ChainDB: cdb, mem: w.mem}
		c.Count("sc:world=memdb(fault-injection)")
	} else {
		c.Count("sc:world=beansdb")
	}
	c.Op("sc.world", "ok")
	// key pool: scenario-unique 32-byte keys (so that no node of one scenario is a node of another on the shared BeansDB)
	n := 2 + c.Rnd.Intn(13)
	var decl []string
	for i := 0; i < n; i++ {
		k := crypto.Keccak256Hash([]byte{'s', 'c', byte(c.Seed), byte(scn >> 8), byte(scn), byte(i)})
		w.pool = append(w.pool, k)
		decl = append(decl, hx(k[:])+"/"+hx(crypto.Keccak256(k[:])))
	}
	c.Op("sc.pool "+strings.Join(decl, " "), fmt.Sprintf("ok %d", n))

	open := func(root common.Hash) int {
		w.caches = append(w.caches, &scCache{c: account.NewStorageCache(w.db), root: root})
		c.Op("sc.open", fmt.Sprintf("ok %d", len(w.caches)-1))
		return len(w.caches) - 1
	}
	cur := open(common.Hash{})

	otherRoot := func(not common.Hash) common.Hash {
		var cands []common.Hash
		for _, h := range []common.Hash{{}, scJunk, scEmptyRoot} {
			if h != not {
				cands = append(cands, h)
			}
		}
		for _, h := range w.roots {
			if h != not {
				cands = append(cands, h, h)
			}
		}
		return cands[c.Rnd.Intn(len(cands))]
	}
	rootClass := func(arg, own common.Hash) string {
		switch {
		case arg == own && arg == (common.Hash{}):
			return "own(zero)"
		case arg == own:
			return "own"
		case arg == (common.Hash{}):
			return "zero"
		case arg == scJunk:
			return "junk"
		case arg == scEmptyRoot:
			return "emptyRoot"
		}
		return "older"
	}

	doGet := func(ci int, root common.Hash, ki int) []byte {
		sc := w.caches[ci]
		cachedBefore, _, trBefore, _ := sc.c.VerifState()
		_, hit := cachedBefore[w.pool[ki]]
		op := fmt.Sprintf("sc.get %d %s %d", ci, w.rootTok(root), ki)
		var val []byte
		out := Safe(func() string {
			v, err := sc.c.GetState(root, w.pool[ki])
			if err != nil {
				return scErr(err) + " " + w.dump(sc.c)
			}
			val = v
			return "v=" + sVal(v) + " " + w.dump(sc.c)
		})
		c.Op(op, out)
		switch {
		case hit:
			c.Count("sc.get:cached-hit")
			if len(val) > 0 && val[0] == 0 {
				c.Count("observed:storage-writer-reads-untrimmed-bytes")
			}
		case strings.HasPrefix(out, "err trieFail"):
			c.Count("sc.get:ErrTrieFail")
		case strings.HasPrefix(out, "v=-") && w.wiped && w.held[w.pool[ki]] && root == sc.root:
			c.Count("sc.get:MissingNodeError-swallowed(the-root-holds-a-value)")
		case strings.HasPrefix(out, "v=-"):
			c.Count("sc.get:trie-absent(not-cached)")
		case strings.HasPrefix(out, "v="):
			c.Count("sc.get:trie-value(cached-now)")
		default:
			c.Count("sc.get:" + scClass(out))
		}
		if trBefore == nil && !hit {
			c.Count("sc.get:loads-trie:root=" + rootClass(root, sc.root))
		} else if !hit && root != sc.root {
			c.Count("sc.get:root-argument-ignored(trie-loaded)")
		}
		return val
	}

	doUpdate := func(ci int, root common.Hash) (common.Hash, string) {
		sc := w.caches[ci]
		before := w.dirtyIdx(sc.c)
		_, _, trBefore, _ := sc.c.VerifState()
		op := fmt.Sprintf("sc.update %d %s", ci, w.rootTok(root)) // the token of the ARGUMENT: before the result is interned
		var res common.Hash
		var missing bool
		out := Safe(func() string {
			h, err := sc.c.Update(root)
			if err != nil {
				_, missing = err.(*trie.MissingNodeError)
				return scErr(err) + " " + w.dump(sc.c)
			}
			res = h
			if h == (common.Hash{}) {
				return "root=zero " + w.dump(sc.c)
			}
			return "root=" + w.in.id(h[:]) + " " + w.dump(sc.c)
		})
		if missing {
			left := w.dirtyIdx(sc.c)
			ls := make([]string, len(left))
			for i, x := range left {
				ls[i] = fmt.Sprint(x)
			}
			if len(ls) == 0 {
				op += " left=-"
			} else {
				op += " left=" + strings.Join(ls, ",")
			}
			c.Count(fmt.Sprintf("sc.update:failed-in-the-middle:dirty=%d:left=%d", clamp(len(before), 0, 4), clamp(len(left), 0, 4)))
		}
		c.Op(op, out)
		c.Count("sc.update:" + scClass(out) + ":dirty=" + fmt.Sprint(clamp(len(before), 0, 3)))
		if trBefore == nil {
			c.Count("sc.update:trie-not-loaded:root=" + rootClass(root, sc.root))
		}
		if strings.HasPrefix(out, "root=") {
			if res == (common.Hash{}) {
				c.Count("sc.update:zero-root-short-cut")
			} else {
				known := false
				for _, h := range w.roots {
					known = known || h == res
				}
				if !known {
					w.roots = append(w.roots, res)
				}
				if res == scEmptyRoot {
					c.Count("observed:storage-empty-content-root-is-emptyRoot-not-zero")
				}
			}
		}
		return res, out
	}

	doSave := func(ci int, root common.Hash) string {
		sc := w.caches[ci]
		nd := len(w.dirtyIdx(sc.c))
		op := fmt.Sprintf("sc.save %d %s", ci, w.rootTok(root))
		out := Safe(func() string {
			if err := sc.c.Save(root); err != nil {
				return scErr(err) + " " + w.dump(sc.c)
			}
			return "ok " + w.dump(sc.c)
		})
		c.Op(op, out)
		cls := "clean"
		if nd > 0 {
			cls = "dirty"
		}
		c.Count("sc.save:" + scClass(out) + ":" + cls + ":root=" + rootClass(root, sc.root))
		if strings.HasPrefix(out, "ok") {
			w.saved[root] = true
			if root == (common.Hash{}) {
				if _, _, tr, _ := sc.c.VerifState(); tr != nil && tr.Hash() != scEmptyRoot {
					c.Count("observed:storage-save-zero-root-accepts-nonempty-trie")
				}
			}
		}
		return out
	}

	nops := 10 + c.Rnd.Intn(50)
	wipeAt := -1
	if fault {
		wipeAt = nops/2 + c.Rnd.Intn(nops/2)
	}
	for i := 0; i < nops; i++ {
		sc := w.caches[cur]
		ki := c.Rnd.Intn(len(w.pool))
		if fault && !w.wiped && i >= wipeAt {
			// the damage: needs a saved non-empty root to be interesting
			var cand []common.Hash
			for _, h := range w.roots {
				if w.saved[h] && h != scEmptyRoot {
					cand = append(cand, h)
				}
			}
			if len(cand) == 0 || c.Rnd.Intn(2) == 0 {
				// make one: a few entries whose leaves are stored by hash, finalised and saved
				for j, m := 0, 2+c.Rnd.Intn(5); j < m; j++ {
					kj := c.Rnd.Intn(len(w.pool))
					v := make([]byte, 1+c.Rnd.Intn(40))
					c.Rnd.Read(v)
					v[0] |= 1
					sc.c.SetState(w.pool[kj], v)
					c.Op(fmt.Sprintf("sc.set %d %d %s", cur, kj, hx(v)), "ok "+w.dump(sc.c))
				}
				if res, out := doUpdate(cur, sc.root); strings.HasPrefix(out, "root=") {
					sc.root = res
					doSave(cur, sc.root)
					if w.saved[res] && res != scEmptyRoot && res != (common.Hash{}) {
						cand = []common.Hash{res}
					}
				}
			}
			if len(cand) > 0 {
				keep := cand[c.Rnd.Intn(len(cand))]
				tok := w.rootTok(keep)
				all := c.Rnd.Intn(4) == 0
				if all {
					tok = "all"
				}
				// what the kept root holds, read through a throw-away cache BEFORE the damage (no op line: it shares nothing)
				w.held = map[common.Hash]bool{}
				probe := account.NewStorageCache(w.db)
				for _, k := range w.pool {
					if v, err := probe.GetState(keep, k); err == nil && len(v) > 0 && !all {
						w.held[k] = true
					}
				}
				left := 0
				for _, k := range w.mem.Keys() {
					if len(k) != common.HashLength {
						continue // pre-images of the secure trie
					}
					if !all && bytes.Equal(k, keep[:]) {
						left++
						continue
					}
					w.mem.Delete(leveldb.ItemFlagTrie, k)
				}
				c.Op("sc.wipe "+tok, fmt.Sprintf("ok %d", left))
				c.Count("sc.wipe:" + map[bool]string{true: "all", false: "keep-one-root-node"}[all])
				w.wiped = true
				w.caches = nil
				c.Op("sc.open", "ok 0")
				w.caches = append(w.caches, &scCache{c: account.NewStorageCache(w.db), root: keep})
				cur = 0
				continue
			}
		}
		r := c.Rnd.Intn(100)
		if w.wiped {
			// after the damage: reads, writes, updates (a failed multi-key update ends with a Reset)
			switch {
			case r < 30:
				v, cls := scVal(c)
				sc.c.SetState(w.pool[ki], v)
				c.Op(fmt.Sprintf("sc.set %d %d %s", cur, ki, hx(v)), "ok "+w.dump(sc.c))
				c.Count("sc.set:" + cls)
			case r < 65:
				doGet(cur, sc.root, ki)
			case r < 90:
				_, out := doUpdate(cur, sc.root)
				if strings.HasPrefix(out, "err missing") {
					sc.c.Reset()
					c.Op(fmt.Sprintf("sc.reset %d", cur), "ok "+w.dump(sc.c))
				}
			default:
				sc.c.Reset()
				c.Op(fmt.Sprintf("sc.reset %d", cur), "ok "+w.dump(sc.c))
				c.Count("sc.reset")
			}
			continue
		}
		switch {
		case r < 34:
			v, cls := scVal(c)
			if cached, _, _, _ := sc.c.VerifState(); c.Rnd.Intn(10) == 0 {
				if old, ok := cached[w.pool[ki]]; ok {
					v, cls = old, "same-as-cached"
				}
			}
			sc.c.SetState(w.pool[ki], v)
			c.Op(fmt.Sprintf("sc.set %d %d %s", cur, ki, hx(v)), "ok "+w.dump(sc.c))
			c.Count("sc.set:" + cls)
		case r < 36 && c.Rnd.Intn(2) == 0:
			// a change log is written and undone again (NewStorageLog / redoStorage / undoStorage since 3a69bc7):
			// read the old value, note whether the slot is clean, write, [other ops of the tx], undo
			old := doGet(cur, sc.root, ki)
			clean := !sc.c.IsDirty(w.pool[ki])
			c.Op(fmt.Sprintf("sc.isdirty %d %d", cur, ki), fmt.Sprintf("%v %s", !clean, w.dump(sc.c)))
			v, cls := scVal(c)
			sc.c.SetState(w.pool[ki], v)
			c.Op(fmt.Sprintf("sc.set %d %d %s", cur, ki, hx(v)), "ok "+w.dump(sc.c))
			if c.Rnd.Intn(3) == 0 {
				doGet(cur, sc.root, ki)
			}
			if clean {
				sc.c.RevertState(w.pool[ki], old)
				c.Op(fmt.Sprintf("sc.revert %d %d %s", cur, ki, hx(old)), "ok "+w.dump(sc.c))
				_ = cls
				c.Count("sc.undo:clean-slot:RevertState:old-empty=" + fmt.Sprint(len(old) == 0))
			} else {
				sc.c.SetState(w.pool[ki], old)
				c.Op(fmt.Sprintf("sc.set %d %d %s", cur, ki, hx(old)), "ok "+w.dump(sc.c))
				c.Count("sc.undo:dirty-slot:SetState(old)")
			}
		case r < 37:
			// RevertState out of protocol: any key, any old value
			old, cls := scVal(c)
			was := sc.c.IsDirty(w.pool[ki])
			c.Op(fmt.Sprintf("sc.isdirty %d %d", cur, ki), fmt.Sprintf("%v %s", was, w.dump(sc.c)))
			sc.c.RevertState(w.pool[ki], old)
			c.Op(fmt.Sprintf("sc.revert %d %d %s", cur, ki, hx(old)), "ok "+w.dump(sc.c))
			_ = cls
			c.Count(fmt.Sprintf("sc.revert:free:was-dirty=%v:old-empty=%v", was, len(old) == 0))
		case r < 38:
			_, dirty, _, _ := sc.c.VerifState()
			_, was := dirty[w.pool[ki]]
			sc.c.DelState(w.pool[ki])
			c.Op(fmt.Sprintf("sc.del %d %d", cur, ki), "ok "+w.dump(sc.c))
			c.Count(fmt.Sprintf("sc.del:was-dirty=%v", was))
		case r < 58:
			root := sc.root
			if c.Rnd.Intn(7) == 0 {
				root = otherRoot(sc.root)
			}
			doGet(cur, root, ki)
		case r < 72:
			root := sc.root
			if c.Rnd.Intn(8) == 0 {
				root = otherRoot(sc.root)
			}
			res, out := doUpdate(cur, root)
			if strings.HasPrefix(out, "root=") && c.Rnd.Intn(12) != 0 {
				sc.root = res
			}
		case r < 84:
			root := sc.root
			if c.Rnd.Intn(4) == 0 {
				root = otherRoot(sc.root)
			}
			doSave(cur, root)
		case r < 88:
			sc.c.Reset()
			c.Op(fmt.Sprintf("sc.reset %d", cur), "ok "+w.dump(sc.c))
			c.Count("sc.reset")
			if c.Rnd.Intn(3) == 0 && len(w.roots) > 0 { // Account.SetStorageRoot: another root + Reset
				sc.root = w.roots[c.Rnd.Intn(len(w.roots))]
				c.Count("sc.reset:+other-root")
				// the property's clause itself (seed C17k: Reset kept the non-dirty cached entries of the OLD root): after the
				// switch every key read through this cache equals the read through a cache freshly opened on the same root
				if !w.wiped && w.saved[sc.root] {
					nc := open(sc.root)
					for j := range w.pool {
						a, b := doGet(cur, sc.root, j), doGet(nc, sc.root, j)
						if !bytes.Equal(a, b) {
							c.Fail("c17/read-after-root-switch-differs-from-reopened-root", fmt.Sprintf("cache %d switched to root %s (Reset): key %d reads %s, a cache freshly opened on that root reads %s", cur, w.rootTok(sc.root), j, sVal(a), sVal(b)), nil)
						}
					}
					c.Count("sc.reset:+other-root:read-sweep-vs-fresh-cache")
				}
			}
		case r < 95:
			if !w.saved[sc.root] && c.Rnd.Intn(4) != 0 { // mostly after Finalise + Save, as a restart would see it
				if res, out := doUpdate(cur, sc.root); strings.HasPrefix(out, "root=") {
					sc.root = res
					doSave(cur, sc.root)
				}
			}
			nc := open(sc.root)
			if c.Rnd.Intn(2) == 0 {
				cur = nc
				c.Count("sc.open:continue-on-fresh-cache")
			} else {
				for j := range w.pool {
					doGet(nc, sc.root, j)
				}
				c.Count("sc.open:read-sweep-through-fresh-cache")
			}
		default:
			cur = c.Rnd.Intn(len(w.caches))
			c.Count("sc:switch-cache")
		}
	}
	// final: finalise + save + read everything back through a fresh cache, as Account.Finalise/Save + a restart do
	if !w.wiped {
		sc := w.caches[cur]
		res, out := doUpdate(cur, sc.root)
		if strings.HasPrefix(out, "root=") {
			sc.root = res
			if doSave(cur, sc.root); true {
				nc := open(sc.root)
				for j := range w.pool {
					doGet(nc, sc.root, j)
				}
			}
		}
	}
}

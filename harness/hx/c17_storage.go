package main

// hx c17, ORACLE stream on chain/account.StorageCache (anchor chain/account/account.go); the
// correspondence stream against the model LemoModel.StorageCache is c17_sc.go (`sc.…` ops).  Here: the
// contract-storage SecureTrie as the account code drives it — dirty entries applied in Go map order
// (random), values left-trimmed of zero bytes (an all-zero value deletes), Save's root check,
// TrieDatabase.Commit, reload by root through a NEW StorageCache.  Checked against a Go map:
//   c17/storage-root   Update's root != root of a SecureTrie rebuilt from the same content in key order
//   c17/storage-read   GetState after reload by root != last value written (trimmed)
//   c17/storage-save   Save accepts a root that is not the trie's root / rejects the right one
// TrieDatabase.Commit(common.Hash{}) followed by Reference(_, common.Hash{}) nil-dereferences
// (trie_database.go:208): no caller in /repo does either, counted as a note.

import (
	"bytes"
	"fmt"
	"sort"

	"github.com/LemoFoundationLtd/lemochain-core/chain/account"
	"github.com/LemoFoundationLtd/lemochain-core/chain/types"
	"github.com/LemoFoundationLtd/lemochain-core/common"
	"github.com/LemoFoundationLtd/lemochain-core/common/crypto"
	"github.com/LemoFoundationLtd/lemochain-core/store"
	"github.com/LemoFoundationLtd/lemochain-core/store/trie"
)

func c17Storage(c *Ctx, cdb *store.ChainDatabase) {
	// note: Commit(zero hash) uncaches the {} root entry; a later Reference(_, {}) panics
	if Safe(func() string {
		mdb, _ := store.NewMemDatabase()
		db := store.NewTrieDatabase(mdb)
		db.Commit(common.Hash{}, false)
		h := crypto.Keccak256Hash([]byte("x"))
		db.Insert(h, []byte{1})
		db.Reference(h, common.Hash{})
		return "ok"
	}) == "panic" {
		c.Count("note:TrieDatabase.Commit(zeroHash)-then-Reference(_,zeroHash)-nil-deref(no-caller-in-repo)")
	}

	nsc := c.N / 15
	if nsc < 10 {
		nsc = 10
	}
	for sc := 0; sc < nsc; sc++ {
		var pool []common.Hash
		for i, n := 0, 2+c.Rnd.Intn(12); i < n; i++ {
			pool = append(pool, crypto.Keccak256Hash([]byte{byte(sc >> 8), byte(sc), byte(i)}))
		}
		cache := account.NewStorageCache(cdb)
		ref := map[common.Hash][]byte{}
		root := common.Hash{}
		fail := func(sig, detail string) { c.Fail(sig, detail, map[string]interface{}{"scenario": sc}) }
		for round, rounds := 0, 1+c.Rnd.Intn(5); round < rounds; round++ {
			for i, n := 0, 1+c.Rnd.Intn(8); i < n; i++ {
				k := pool[c.Rnd.Intn(len(pool))]
				var v []byte
				switch c.Rnd.Intn(8) {
				case 0:
					v = nil
					c.Count("storage:set-empty(delete)")
				case 1:
					v = []byte{0, 0, byte(1 + c.Rnd.Intn(255))}
					c.Count("storage:set-leading-zeros")
				case 2:
					v = []byte{0, 0, 0}
					c.Count("storage:set-all-zero(delete)")
				case 3:
					v = make([]byte, 33+c.Rnd.Intn(60))
					c.Rnd.Read(v)
					v[0] |= 1
					c.Count("storage:set-long")
				default:
					v = []byte{byte(1 + c.Rnd.Intn(255)), byte(c.Rnd.Intn(256))}
					c.Count("storage:set-short")
				}
				cache.SetState(k, v)
				if t := bytes.TrimLeft(v, "\x00"); len(t) == 0 {
					delete(ref, k)
				} else {
					ref[k] = t
				}
			}
			if c.Rnd.Intn(3) == 0 { // Save with pending writes must refuse
				if err := cache.Save(root); err != types.ErrTrieChanged {
					fail("c17/storage-save", fmt.Sprintf("Save with dirty entries returned %v, want ErrTrieChanged", err))
				}
				c.Count("storage:save-dirty-refused")
			}
			var newRoot common.Hash
			out := Safe(func() string {
				var err error
				newRoot, err = cache.Update(root)
				if err != nil {
					return "err " + err.Error()
				}
				return "ok"
			})
			if out != "ok" {
				fail("c17/storage-root", "Update: "+out)
				break
			}
			// the same content inserted in key order into a fresh SecureTrie
			keys := make([]common.Hash, 0, len(ref))
			for k := range ref {
				keys = append(keys, k)
			}
			sort.Slice(keys, func(i, j int) bool { return bytes.Compare(keys[i][:], keys[j][:]) < 0 })
			st, _ := trie.NewSecure(common.Hash{}, cdb.GetTrieDatabase(), 0)
			for _, k := range keys {
				st.TryUpdate(k[:], ref[k])
			}
			if want := st.Hash(); want != newRoot {
				fail("c17/storage-root", fmt.Sprintf("StorageCache.Update root %x != root %x of the same %d entries in key order", newRoot, want, len(ref)))
			}
			c.Count("storage:update-root-vs-rebuild")
			// Save: wrong root refused, right root accepted and flushed
			if other := crypto.Keccak256Hash(newRoot[:]); true {
				if err := cache.Save(other); err != types.ErrTrieChanged {
					fail("c17/storage-save", fmt.Sprintf("Save(root that is not the trie's) returned %v, want ErrTrieChanged", err))
				}
				c.Count("storage:save-wrong-root-refused")
			}
			if err := cache.Save(newRoot); err != nil {
				fail("c17/storage-save", fmt.Sprintf("Save(root returned by Update) = %v", err))
				break
			}
			root = newRoot
			// reload by root through a new cache (new TrieDatabase over the same store)
			fresh := account.NewStorageCache(cdb)
			for _, k := range pool {
				v, err := fresh.GetState(root, k)
				if err != nil || !bytes.Equal(v, ref[k]) {
					fail("c17/storage-read", fmt.Sprintf("GetState(%x) after Save and reload by root = %x (err %v), last written %x", k[:4], v, err, ref[k]))
					break
				}
			}
			c.Count("storage:reload-reads")
			switch c.Rnd.Intn(3) {
			case 0:
				cache.Reset()
				c.Count("storage:reset")
			case 1:
				cache = fresh
				c.Count("storage:continue-on-reloaded")
			}
		}
	}
}

package main

// hx c17, stream "s…": the PARTIALLY RESOLVED trie (hash nodes, resolveHash, hasher, cache
// generations, Trie.Commit, TrieDatabase pool + Commit to BeansDB, re-open by root) vs
// LemoModel.MptStore.
//
// What both sides print after every op, without Keccak: the in-memory node graph as the real code
// holds it (read through the add-only hook store/trie/verif_c17.go): pre-order list of
//   /<path>:s<key>[<d|c><gen>#id]   short node, dirty/clean, cache generation, cached hash
//   /<path>:f[<d|c><gen>#id]        full node
//   /<path>:v<hex>                  value node
//   /<path>:#id                     hash node (unresolved subtree)
// Hashes are printed as small integers: the index of first appearance in the output of the
// scenario (both sides intern in the same order), so what is compared is the EQUALITY PATTERN of
// hashes (equal collapsed nodes <-> equal hashes), never a Keccak value.  `mem=` is the number of
// nodes in the TrieDatabase pool.
//
// The size threshold of the hasher (`len(rlp) < 32` => embedded) is NOT modelled: the op line of a
// commit/hash carries, for every resolved non-root node, whether the real hasher hashed (`h`) or
// embedded (`e`) it; the driver turns that into its `small` predicate (a function of the collapsed
// node; it reports `small-oracle-inconsistent` if the real decisions are not such a function).
//
// WRITE FAULTS of TrieDatabase.Commit (a batch write that fails once, retries, the lock on the error
// paths) are a continuation of this stream on the same driver state: c17_fault.go (`sflushfail`).

import (
	"bytes"
	"encoding/hex"
	"fmt"
	"os"
	"strings"

	"github.com/LemoFoundationLtd/lemochain-core/common"
	"github.com/LemoFoundationLtd/lemochain-core/store"
	"github.com/LemoFoundationLtd/lemochain-core/store/trie"
)

type sIntern struct {
	ids map[common.Hash]int
}

func (s *sIntern) id(h []byte) string {
	k := common.BytesToHash(h)
	i, ok := s.ids[k]
	if !ok {
		i = len(s.ids)
		s.ids[k] = i
	}
	return fmt.Sprintf("#%d", i)
}

func sFlags(in *sIntern, n trie.VerifNode) string {
	d := "c"
	if n.Dirty {
		d = "d"
	}
	h := ""
	if n.Hash != nil {
		h = in.id(n.Hash)
	}
	return fmt.Sprintf("[%s%d%s]", d, n.Gen, h)
}

// shape of the in-memory graph; interns hashes in print order
func sShape(in *sIntern, tr *trie.Trie) string {
	var sb []string
	tr.VerifWalk(func(n trie.VerifNode) {
		p := "/" + nibStr(n.Path) + ":"
		switch n.Kind {
		case 's':
			sb = append(sb, p+"s"+nibStr(n.Key)+sFlags(in, n))
		case 'f':
			sb = append(sb, p+"f"+sFlags(in, n))
		case 'v':
			sb = append(sb, p+"v"+sVal(n.Value))
		case 'h':
			sb = append(sb, p+in.id(n.Hash))
		}
	})
	if len(sb) == 0 {
		return "nil"
	}
	return strings.Join(sb, " ")
}

// the hasher's embed/hash decisions as visible after Commit/Hash: every resolved non-root node
func sDecisions(tr *trie.Trie) (string, int, int) {
	var sb []string
	nh, ne := 0, 0
	tr.VerifWalk(func(n trie.VerifNode) {
		if (n.Kind != 's' && n.Kind != 'f') || len(n.Path) == 0 {
			return
		}
		if n.Hash != nil {
			sb = append(sb, nibStr(n.Path)+":h")
			nh++
		} else {
			sb = append(sb, nibStr(n.Path)+":e")
			ne++
		}
	})
	if len(sb) == 0 {
		return "-", 0, 0
	}
	return strings.Join(sb, ","), nh, ne
}

// values longer than 40 bytes are printed as first 8 bytes + length (both sides)
func sVal(v []byte) string {
	if len(v) > 40 {
		return fmt.Sprintf("%s..%d", hex.EncodeToString(v[:8]), len(v))
	}
	return hx(v)
}

func sProof(v []byte, err error, nodes int) string {
	if err != nil {
		m := err.Error()
		switch {
		case strings.Contains(m, "missing"):
			return fmt.Sprintf("err missing %d", nodes)
		case strings.Contains(m, "does not hash"):
			return fmt.Sprintf("err mismatch %d", nodes)
		case strings.HasPrefix(m, "bad proof node"):
			return fmt.Sprintf("err bad %d", nodes)
		}
		return "err " + m
	}
	if v == nil {
		return fmt.Sprintf("nil n=%d", nodes)
	}
	return fmt.Sprintf("v=%s n=%d", sVal(v), nodes)
}

func sProofClass(out string) string {
	f := strings.Fields(out)
	switch {
	case strings.HasPrefix(out, "v="):
		return "value"
	case strings.HasPrefix(out, "nil"):
		return "absent"
	case len(f) >= 2:
		return f[0] + "-" + f[1]
	}
	return out
}

// a reader that is NOT content-addressed: it answers the hash `at` with `blob`
type forgingReader struct {
	inner store.DatabaseReader
	at    []byte
	blob  []byte
}

func (r *forgingReader) Get(flg uint32, key []byte) ([]byte, error) {
	if bytes.Equal(key, r.at) {
		return r.blob, nil
	}
	return r.inner.Get(flg, key)
}
func (r *forgingReader) Has(flg uint32, key []byte) (bool, error) { return r.inner.Has(flg, key) }

type keyRecorder struct {
	inner store.DatabaseReader
	keys  [][]byte
	vals  [][]byte
}

func (r *keyRecorder) Get(flg uint32, key []byte) ([]byte, error) {
	v, err := r.inner.Get(flg, key)
	if v != nil {
		r.keys = append(r.keys, append([]byte{}, key...))
		r.vals = append(r.vals, append([]byte{}, v...))
	}
	return v, err
}
func (r *keyRecorder) Has(flg uint32, key []byte) (bool, error) { return r.inner.Has(flg, key) }

func sErr(err error) string {
	if _, ok := err.(*trie.MissingNodeError); ok {
		return "err missing"
	}
	return "err " + err.Error()
}

func sCountShape(c *Ctx, shape string) {
	if strings.Contains(shape, ":#") {
		c.Count("s:shape=has-hash-node")
	}
	if strings.Contains(shape, " /:#") {
		c.Count("s:shape=root-is-hash-node")
	}
	if strings.Contains(shape, "[c") && strings.Contains(shape, "[d") {
		c.Count("s:shape=clean+dirty")
	}
}

func c17Store(c *Ctx) {
	dir, err := os.MkdirTemp("", "hx-c17s-")
	if err != nil {
		panic(err)
	}
	defer os.RemoveAll(dir)
	cdb := store.NewChainDataBase(dir)
	defer func() { cdb.Close() }()

	nsc := c.N / 3
	if nsc < 20 {
		nsc = 20
	}
	restarts, maxRestarts := 0, 6
	if c.Tier == "thorough" {
		maxRestarts = 40
	}
	for sc := 0; sc < nsc; sc++ {
		fixed := 3
		switch c.Rnd.Intn(5) {
		case 0:
			fixed = -1
		case 1, 2:
			fixed = 1
		}
		pool := genKeyPool(c, fixed, 3+c.Rnd.Intn(18))
		mode := "short-keys"
		bigVals, batch := false, false
		switch r := c.Rnd.Intn(20); {
		case r < 5: // 32-byte keys (65 nibbles, what SecureTrie produces), some with long shared prefixes
			mode = "32-byte-keys"
			pool = nil
			n := 3 + c.Rnd.Intn(14)
			for len(pool) < n {
				k := make([]byte, 32)
				if len(pool) > 0 && c.Rnd.Intn(2) == 0 {
					copy(k, pool[c.Rnd.Intn(len(pool))])
					for j := c.Rnd.Intn(32); j < 32; j++ {
						if j == 31 || c.Rnd.Intn(3) == 0 {
							k[j] = byte(c.Rnd.Intn(256))
						}
					}
				} else {
					c.Rnd.Read(k)
				}
				pool = append(pool, k)
			}
		case r < 8:
			mode = "long-values" // >= 56 bytes: the RLP long-string form
			bigVals = true
		}
		if (sc == 7 || (c.Tier == "thorough" && sc%499 == 11)) && mode != "32-byte-keys" {
			// enough data that one TrieDatabase.Commit exceeds IdealBatchSize (100 KiB): the batch is split
			mode = "batch-split"
			batch = true
			pool = genKeyPool(c, 3, 110)
		}
		c.Count("s:mode=" + mode)
		salt := []byte{byte(sc >> 8), byte(sc), 0x5a}
		val := func() []byte {
			if batch && c.Rnd.Intn(8) != 0 {
				v := append([]byte{}, salt...)
				for i, n := 0, 2400+c.Rnd.Intn(800); i < n; i++ {
					v = append(v, byte(c.Rnd.Intn(256)))
				}
				return v
			}
			if bigVals && c.Rnd.Intn(3) == 0 {
				v := append([]byte{}, salt...)
				for i, n := 0, 53+c.Rnd.Intn(300); i < n; i++ {
					v = append(v, byte(c.Rnd.Intn(256)))
				}
				return v
			}
			switch c.Rnd.Intn(8) {
			case 0:
				return nil
			case 1, 2:
				v := append([]byte{}, salt...)
				for i, n := 0, 30+c.Rnd.Intn(20); i < n; i++ {
					v = append(v, byte(c.Rnd.Intn(256)))
				}
				return v
			case 3: // medium: leaf around the 32-byte threshold
				v := append([]byte{}, salt...)
				for i, n := 0, 20+c.Rnd.Intn(10); i < n; i++ {
					v = append(v, byte(c.Rnd.Intn(256)))
				}
				return v
			default:
				return append(append([]byte{}, salt...), byte(1+c.Rnd.Intn(255)))
			}
		}
		limit := uint16(c.Rnd.Intn(4))
		if c.Rnd.Intn(5) == 0 {
			limit = 120
		}
		c.Count(fmt.Sprintf("s:cachelimit=%d", limit))
		tdb := cdb.GetTrieDatabase()
		tr, err := trie.New(common.Hash{}, tdb)
		if err != nil {
			panic(err)
		}
		tr.SetCacheLimit(limit)
		in := &sIntern{ids: map[common.Hash]int{}}
		c.Op(fmt.Sprintf("snew %d", limit), "ok")
		ref := map[string][]byte{}
		type rootRec struct {
			h       common.Hash
			content map[string][]byte
			flushed bool
			db      *store.TrieDatabase
		}
		var roots []*rootRec
		snapshot := func() map[string][]byte {
			m := map[string][]byte{}
			for k, v := range ref {
				m[k] = v
			}
			return m
		}
		nops := 12 + c.Rnd.Intn(60)
		if batch {
			nops = 240
		}
		restarted, abort := false, false
		for i := 0; i < nops && !abort; i++ {
			k := pool[c.Rnd.Intn(len(pool))]
			// rare ops first: cache generation near the uint16 wrap, store restart, proofs
			x := c.Rnd.Intn(400)
			if batch && i >= nops-2 {
				x = 399
			}
			if x < 3 {
				g := uint16(65536 - 1 - c.Rnd.Intn(4))
				tr.VerifSetCacheGen(g)
				c.Op(fmt.Sprintf("sgen %d", g), "ok")
				c.Count("sgen:near-wrap")
				continue
			} else if x < 5 && len(roots) > 0 && !restarted && restarts < maxRestarts {
				// persistence across a real restart of the store: flush, close the ChainDatabase, open
				// the directory again, re-open the trie by root through the new database
				rr := roots[len(roots)-1]
				restarted = true
				restarts++
				out := Safe(func() string {
					if rr.db == tdb {
						if err := tdb.Commit(rr.h, false); err != nil {
							return "err " + err.Error()
						}
						rr.flushed = true
					}
					cdb.Close()
					cdb = store.NewChainDataBase(dir)
					ndb := cdb.GetTrieDatabase()
					nt, err := trie.New(rr.h, ndb)
					if err != nil {
						abort = true // the old trie sits on the closed store: the scenario ends here
						return sErr(err)
					}
					nt.SetCacheLimit(limit)
					tr, tdb = nt, ndb
					ref = map[string][]byte{}
					for k, v := range rr.content {
						ref[k] = v
					}
					return "ok " + sShape(in, tr)
				})
				c.Op("srestart "+in.id(rr.h[:]), out)
				c.Count("srestart:" + strings.SplitN(out, " ", 2)[0])
				if strings.HasPrefix(out, "err") && rr.flushed {
					c.Fail("c17/restart-missing", fmt.Sprintf("after TrieDatabase.Commit(root), Close and re-opening the store, trie.New(root) fails: %s", out), nil)
				}
				for _, o := range roots {
					o.db = nil // the old pools are gone
				}
				continue
			} else if x < 25 && len(roots) > 0 {
				rr := roots[len(roots)-1]
				if c.Rnd.Intn(4) == 0 {
					rr = roots[c.Rnd.Intn(len(roots))]
				}
				if !rr.flushed && c.Rnd.Intn(4) != 0 { // mostly against a flushed root
					for j := len(roots) - 1; j >= 0; j-- {
						if roots[j].flushed {
							rr = roots[j]
							break
						}
					}
				}
				rec := &keyRecorder{inner: tdb.DiskDB()}
				var pv []byte
				var pn int
				out := Safe(func() string {
					v, err, n := trie.VerifyProof(rr.h, k, rec)
					pv, pn = v, n
					return sProof(v, err, n)
				})
				c.Op(fmt.Sprintf("sverify %s %s", in.id(rr.h[:]), hx(k)), out)
				c.Count("sverify:" + sProofClass(out))
				if rr.flushed {
					want, has := rr.content[string(k)]
					if (has && !bytes.Equal(pv, want)) || (!has && (pv != nil || strings.HasPrefix(out, "err"))) {
						if len(rr.content) > 0 {
							c.Fail("c17/proof-present", fmt.Sprintf("VerifyProof over the flushed database: %s for key %x, content has %x", out, k, want), nil)
						}
					}
				}
				// forged proof through a reader that is NOT content-addressed: the blob that holds the
				// value is answered with one altered value byte under the ORIGINAL hash
				if pv != nil && pn > 0 && len(rec.vals) == pn && bytes.Count(rec.vals[pn-1], pv) == 1 {
					blob := append([]byte{}, rec.vals[pn-1]...)
					at := bytes.LastIndex(blob, pv)
					blob[at+len(pv)-1] ^= 0x01
					fr := &forgingReader{inner: tdb.DiskDB(), at: rec.keys[pn-1], blob: blob}
					var fv []byte
					fout := Safe(func() string {
						v, err, n := trie.VerifyProof(rr.h, k, fr)
						fv = v
						return sProof(v, err, n)
					})
					c.Op(fmt.Sprintf("sverifyf %s %s", in.id(rr.h[:]), hx(k)), fout)
					c.Count("sverifyf:" + sProofClass(fout))
					if fv != nil && !bytes.Equal(fv, pv) {
						c.Fail("c17/proof-forged", fmt.Sprintf("VerifyProof returned the altered value %x for key %x (genuine %x) from a reader that is not content-addressed", fv, k, pv), nil)
					}
				}
				continue
			}
			r := c.Rnd.Intn(100)
			if batch && i == nops-2 {
				r = 70 // commit everything …
			} else if batch && i == nops-1 {
				r = 90 // … and flush it in one TrieDatabase.Commit
			} else if batch && r >= 68 && r < 86 && i < nops-2 {
				r = 10 // no intermediate commits: the pool grows past IdealBatchSize
			}
			switch {
			case r < 40:
				v := val()
				if old, had := ref[string(k)]; had && c.Rnd.Intn(8) == 0 {
					v = old
				}
				out := Safe(func() string {
					if err := tr.TryUpdate(k, v); err != nil {
						return sErr(err)
					}
					return "ok " + sShape(in, tr)
				})
				c.Op(fmt.Sprintf("sput %s %s", hx(k), hx(v)), out)
				c.Count("sput:" + strings.SplitN(out, " ", 2)[0])
				if out == "err missing" {
					c.Fail("c17/missing-node", fmt.Sprintf("TryUpdate(%x) on a trie over a closed store: MissingNodeError", k), nil)
				}
				if len(v) == 0 {
					delete(ref, string(k))
				} else {
					ref[string(k)] = v
				}
				sCountShape(c, out)
			case r < 52:
				out := Safe(func() string {
					if err := tr.TryDelete(k); err != nil {
						return sErr(err)
					}
					return "ok " + sShape(in, tr)
				})
				c.Op("sdel "+hx(k), out)
				if _, had := ref[string(k)]; had {
					c.Count("sdel:present")
				} else {
					c.Count("sdel:absent")
				}
				if out == "err missing" {
					c.Fail("c17/missing-node", fmt.Sprintf("TryDelete(%x) on a trie over a closed store: MissingNodeError", k), nil)
				}
				delete(ref, string(k))
				sCountShape(c, out)
			case r < 68:
				before := sShape(&sIntern{ids: map[common.Hash]int{}}, tr)
				val := ""
				out := Safe(func() string {
					v, err := tr.TryGet(k)
					if err != nil {
						return sErr(err)
					}
					val = "nil"
					if v != nil {
						val = sVal(v)
					}
					return val + " " + sShape(in, tr)
				})
				c.Op("sget "+hx(k), out)
				want := "nil"
				if v, ok := ref[string(k)]; ok {
					want = sVal(v)
				}
				if val != want {
					c.Fail("c17/store-read", fmt.Sprintf("TryGet(%x) = %s on a partially resolved trie, last write was %s", k, out, want), nil)
				}
				if before != sShape(&sIntern{ids: map[common.Hash]int{}}, tr) {
					c.Count("sget:resolved-something")
				} else {
					c.Count("sget:no-resolve")
				}
			case r < 82:
				var root common.Hash
				res := Safe(func() string {
					var err error
					root, err = tr.Commit(nil)
					if err != nil {
						return sErr(err)
					}
					return "ok"
				})
				dec, nh, ne := sDecisions(tr)
				out := res
				if res == "ok" {
					out = fmt.Sprintf("root=%s mem=%d %s", in.id(root[:]), len(tdb.Nodes()), sShape(in, tr))
					roots = append(roots, &rootRec{h: root, content: snapshot(), db: tdb})
					c17CollectBlobs(tdb) // real hasher output for the d-stream (c17_decode.go)
				}
				c.Op("scommit "+dec, out)
				c.Count("scommit")
				if nh > 0 {
					c.Count("scommit:hashed-nodes")
				}
				if ne > 0 {
					c.Count("scommit:embedded-nodes")
				}
				sCountShape(c, out)
			case r < 86:
				var root common.Hash
				res := Safe(func() string { root = tr.Hash(); return "ok" })
				dec, _, _ := sDecisions(tr)
				out := res
				if res == "ok" {
					out = fmt.Sprintf("root=%s %s", in.id(root[:]), sShape(in, tr))
				}
				c.Op("shash "+dec, out)
				c.Count("shash")
			case r < 92:
				if len(roots) == 0 || (batch && i < nops-1) {
					continue // batch-split: one big flush at the end
				}
				rr := roots[len(roots)-1]
				if c.Rnd.Intn(3) == 0 && !batch {
					rr = roots[c.Rnd.Intn(len(roots))]
				}
				if tdb.Size() > store.IdealBatchSize {
					c.Count("sflush:pool-over-IdealBatchSize")
				}
				out := Safe(func() string {
					if err := tdb.Commit(rr.h, false); err != nil {
						return "err " + err.Error()
					}
					return fmt.Sprintf("ok mem=%d", len(tdb.Nodes()))
				})
				if out != "panic" && !strings.HasPrefix(out, "err") && rr.db == tdb {
					rr.flushed = true
				}
				c.Op("sflush "+in.id(rr.h[:]), out)
				c.Count("sflush")
			default:
				if len(roots) == 0 {
					continue
				}
				rr := roots[len(roots)-1]
				if c.Rnd.Intn(3) == 0 {
					rr = roots[c.Rnd.Intn(len(roots))]
				}
				mode := "same"
				ndb := tdb
				if c.Rnd.Intn(2) == 0 {
					mode = "fresh"
					ndb = cdb.GetTrieDatabase()
				}
				out := Safe(func() string {
					nt, err := trie.New(rr.h, ndb)
					if err != nil {
						return sErr(err)
					}
					nt.SetCacheLimit(limit)
					tr, tdb = nt, ndb
					ref = map[string][]byte{}
					for k, v := range rr.content {
						ref[k] = v
					}
					return "ok " + sShape(in, tr)
				})
				c.Op(fmt.Sprintf("sreopen %s %s", in.id(rr.h[:]), mode), out)
				c.Count("sreopen:" + mode + ":" + strings.SplitN(out, " ", 2)[0])
				if strings.HasPrefix(out, "err") && (ndb == rr.db || rr.flushed) {
					c.Fail("c17/reopen-missing", fmt.Sprintf("trie.New(root) fails (%s) for a root that was committed (flushed=%v, mode=%s)", out, rr.flushed, mode), nil)
				}
			}
		}
		// final sweep through the partially resolved trie
		for _, k := range pool {
			if abort {
				break
			}
			val := ""
			out := Safe(func() string {
				v, err := tr.TryGet(k)
				if err != nil {
					return sErr(err)
				}
				val = "nil"
				if v != nil {
					val = sVal(v)
				}
				return val + " " + sShape(in, tr)
			})
			c.Op("sget "+hx(k), out)
			want := "nil"
			if v, ok := ref[string(k)]; ok {
				want = sVal(v)
			}
			if val != want {
				c.Fail("c17/store-read", fmt.Sprintf("TryGet(%x) = %s on a partially resolved trie, last write was %s", k, out, want), nil)
			}
		}
	}
	c17Fault(c) // write faults of TrieDatabase.Commit (c17_fault.go), same driver stream
}

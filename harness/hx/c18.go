package main

// hx c18 — the tx pool behaves like a set of pending txs (property C18).
//
//  * sequential differential: random op sequences on the REAL txpool.TxPool with real
//    types.Transaction objects; after every op the canonical answer + the whole internal
//    state (slots, hash index, cap; via the add-only hook TxPool.VerifState) + what a full
//    GetTxs(0, ·) hands out are written as one line and compared with the Lean model.
//  * direct oracle against a Go set model (signatures c18/...).
//  * lock-discipline facts from a go/ast scan of tx_pool.go (`lock M true` / `escape M false`).
//  * fork switches through the real DPoVP.onCurrentChanged + TxGuard (hook VerifOnCurrentChanged).
//  * concurrent stress (supporting evidence; results not part of the op lines).

import (
	"fmt"
	"go/ast"
	"go/parser"
	"go/token"
	"math/big"
	"math/rand"
	"os"
	"path/filepath"
	"runtime"
	"sort"
	"strings"
	"sync"
	"sync/atomic"
	"time"

	"github.com/LemoFoundationLtd/lemochain-core/chain/consensus"
	"github.com/LemoFoundationLtd/lemochain-core/chain/params"
	"github.com/LemoFoundationLtd/lemochain-core/chain/txpool"
	"github.com/LemoFoundationLtd/lemochain-core/chain/types"
	"github.com/LemoFoundationLtd/lemochain-core/common"
)

func init() { subs["c18"] = c18; subs["c18-stress"] = c18stress }

// ---------------------------------------------------------------- labelled transactions

type ltx struct {
	label int
	exp   uint64
	subs  []*ltx // what getSubTxs returns, as labelled txs
	tx    *types.Transaction
}

func (t *ltx) keys() []int {
	ks := []int{t.label}
	for _, s := range t.subs {
		ks = append(ks, s.label)
	}
	return ks
}

// spec: the op-line form of a tx. Expirations are read back from the real objects (tx.Expiration(), and
// for a box from the sub txs that types.GetBox decodes out of its data), not from the generator's intent.
func (t *ltx) spec() string {
	if t == nil {
		return "nil"
	}
	s := fmt.Sprintf("%d:%d", t.label, t.tx.Expiration())
	if len(t.subs) > 0 {
		b, err := types.GetBox(t.tx.Data())
		if err != nil || len(b.SubTxList) != len(t.subs) {
			panic("c18 harness: box does not decode")
		}
		for i, x := range t.subs {
			s += fmt.Sprintf(":%d:%d", x.label, b.SubTxList[i].Expiration())
		}
	}
	return s
}

func (t *ltx) timedOut(time uint64) bool {
	if t.exp < time {
		return true
	}
	for _, s := range t.subs {
		if s.exp < time {
			return true
		}
	}
	return false
}

func overlap(a, b *ltx) bool {
	for _, x := range a.keys() {
		for _, y := range b.keys() {
			if x == y {
				return true
			}
		}
	}
	return false
}

type c18gen struct {
	c           *Ctx
	byHash      map[common.Hash]*ltx
	next        int
	mu          sync.Mutex
	sizeChecked bool // GetTxs(0, -1) does not panic: size is validated before the allocation
}

var c18from = common.BigToAddress(big.NewInt(0xC18))

func (g *c18gen) reg(t *ltx) *ltx {
	h := t.tx.Hash()
	if o, ok := g.byHash[h]; ok && o.label != t.label {
		panic("c18 harness: two labels for one hash")
	}
	g.byHash[h] = t
	return t
}

func (g *c18gen) plain(exp uint64) *ltx {
	g.next++
	l := g.next
	tx := types.NewTransaction(c18from, common.BigToAddress(big.NewInt(int64(100000+l))), big.NewInt(int64(l)), 21000, big.NewInt(1), nil, params.OrdinaryTx, 100, exp, "", "")
	return g.reg(&ltx{label: l, exp: exp, tx: tx})
}

// box kinds: 0 = regular box over subs; 1 = BoxTx whose data is not a box (getSubTxs -> empty)
func (g *c18gen) box(exp uint64, subs []*ltx, kind int) *ltx {
	g.next++
	l := g.next
	var data []byte
	if kind == 1 {
		data = []byte("{not a box")
		subs = nil
	} else {
		var list types.Transactions
		for _, s := range subs {
			list = append(list, s.tx)
		}
		if list == nil {
			list = types.Transactions{}
		}
		var err error
		data, err = types.MarshalBoxData(list)
		if err != nil {
			panic(err)
		}
	}
	tx := types.NoReceiverTransaction(c18from, big.NewInt(int64(l)), 900000, big.NewInt(1), data, params.BoxTx, 100, exp, "", "")
	t := &ltx{label: l, exp: exp, subs: subs, tx: tx}
	// the JSON round trip inside the box must preserve hash and expiration of every sub tx
	if kind != 1 {
		b, err := types.GetBox(tx.Data())
		if err != nil || len(b.SubTxList) != len(subs) {
			panic("c18 harness: box does not round-trip")
		}
		for i, s := range b.SubTxList {
			if s.Hash() != subs[i].tx.Hash() || s.Expiration() != subs[i].exp {
				panic("c18 harness: sub tx hash changed in box")
			}
		}
	}
	return g.reg(t)
}

func (g *c18gen) lab(tx *types.Transaction) string {
	if tx == nil {
		return "_"
	}
	if t, ok := g.byHash[tx.Hash()]; ok {
		return fmt.Sprint(t.label)
	}
	return "?"
}

func (g *c18gen) labels(txs []*types.Transaction) ([]*ltx, string) {
	var out []*ltx
	var ss []string
	for _, tx := range txs {
		ss = append(ss, g.lab(tx))
		if tx != nil {
			if t, ok := g.byHash[tx.Hash()]; ok {
				out = append(out, t)
			}
		}
	}
	return out, c18join(ss)
}

func c18join(ss []string) string {
	if len(ss) == 0 {
		return "-"
	}
	return strings.Join(ss, ",")
}

// ---------------------------------------------------------------- one pool under test + oracle

type c18run struct {
	g    *c18gen
	c    *Ctx
	pool *txpool.TxPool
	log  []string
	// oracle (Go set model)
	must    map[int]*ltx // accepted, not touched by a delete, never seen expired by a GetTxs
	deleted map[int]bool // keys the pool was told to delete and that were not accepted again
	failed  map[string]bool
	kind    string
}

func newC18run(g *c18gen, kind string) *c18run {
	r := &c18run{g: g, c: g.c, kind: kind}
	r.reset()
	return r
}

func (r *c18run) reset() {
	r.pool = txpool.NewTxPool()
	r.must = map[int]*ltx{}
	r.deleted = map[int]bool{}
	r.failed = map[string]bool{}
	r.log = nil
	r.emit("new", "ok")
}

func (r *c18run) emit(op, out string) {
	r.log = append(r.log, op)
	r.c.Op(op, out)
}

func (r *c18run) fail(sig, detail string) {
	if r.failed[sig] {
		return
	}
	r.failed[sig] = true
	lg := r.log
	if len(lg) > 80 {
		lg = lg[len(lg)-80:]
	}
	r.c.Fail(sig, detail, map[string]interface{}{"episode": r.kind, "ops": append([]string{}, lg...)})
}

// dump: canonical whole state + full hand-out; also returns the full hand-out for the oracle
func (r *c18run) dump() (string, []*ltx) {
	slots, index, capacity := r.pool.VerifState()
	_, ss := r.g.labels(slots)
	type kv struct{ k, v int }
	var es []kv
	for h, v := range index {
		t, ok := r.g.byHash[h]
		if !ok {
			es = append(es, kv{-1, v})
			continue
		}
		es = append(es, kv{t.label, v})
	}
	sort.Slice(es, func(i, j int) bool { return es[i].k < es[j].k })
	var is []string
	for _, e := range es {
		is = append(is, fmt.Sprintf("%d>%d", e.k, e.v))
	}
	full := r.pool.GetTxs(0, len(slots)+1)
	fl, fs := r.g.labels(full)
	return fmt.Sprintf("cap=%d slots=%s idx=%s full=txs %s", capacity, ss, c18join(is), fs), fl
}

func specs(ts []*ltx) string {
	var ss []string
	for _, t := range ts {
		ss = append(ss, t.spec())
	}
	return strings.Join(ss, " ")
}

func realTxs(ts []*ltx) types.Transactions {
	out := make(types.Transactions, 0, len(ts))
	for _, t := range ts {
		if t == nil {
			out = append(out, nil)
		} else {
			out = append(out, t.tx)
		}
	}
	return out
}

// checkHandOut: the per-selection clauses of the property
func (r *c18run) checkHandOut(res []*ltx, time uint64, truncated bool, what string) {
	seen := map[int]bool{}
	for _, t := range res {
		if seen[t.label] {
			r.fail("c18/handed-out-twice", fmt.Sprintf("%s hands out tx %d twice (result %v)", what, t.label, labelsOf(res)))
		}
		seen[t.label] = true
		if t.timedOut(time) {
			r.fail("c18/expired-handed-out", fmt.Sprintf("%s hands out tx %s expired at time %d", what, t.spec(), time))
		}
		for _, k := range t.keys() {
			if r.deleted[k] {
				r.fail("c18/deleted-but-handed-out", fmt.Sprintf("%s hands out tx %s although the pool was told to delete hash %d and it was not added again (result %v)", what, t.spec(), k, labelsOf(res)))
			}
		}
	}
	for i := 0; i < len(res); i++ {
		for j := i + 1; j < len(res); j++ {
			if res[i].label != res[j].label && overlap(res[i], res[j]) {
				r.fail("c18/box-and-sub-both", fmt.Sprintf("%s hands out %s together with %s (box and its sub-tx / two boxes sharing a sub-tx)", what, res[i].spec(), res[j].spec()))
			}
		}
	}
	if !truncated {
		for _, m := range r.must {
			if !seen[m.label] && !m.timedOut(time) {
				r.fail("c18/lost", fmt.Sprintf("%s does not hand out tx %s which was accepted and neither deleted nor expired (result %v)", what, m.spec(), labelsOf(res)))
			}
		}
	}
}

func labelsOf(ts []*ltx) []int {
	var o []int
	for _, t := range ts {
		o = append(o, t.label)
	}
	return o
}

func (r *c18run) accepted(t *ltx) {
	r.must[t.label] = t
	for _, k := range t.keys() {
		delete(r.deleted, k)
	}
}

func (r *c18run) toldToDelete(ds []*ltx) {
	for _, d := range ds {
		if d == nil {
			continue
		}
		for _, k := range d.keys() {
			r.deleted[k] = true
		}
		for l, m := range r.must {
			if overlap(m, d) {
				delete(r.must, l)
			}
		}
	}
}

func (r *c18run) finish(op, res string) {
	r.log = append(r.log, op)
	d, full := r.dump()
	r.c.Op(op, res+" ; "+d)
	r.checkHandOut(full, 0, false, "a full GetTxs after `"+op+"`")
	r.checkIndex("after `" + op + "`")
}

// checkIndex: the hash index and the slots describe the same set.
//   - every index entry points at a live slot whose tx owns that hash (no stale entry);
//   - nothing pending <=> IsEmpty() (the miner's waitCanPackageTx and gc both rely on it).
func (r *c18run) checkIndex(what string) {
	slots, index, _ := r.pool.VerifState()
	live := 0
	for _, tx := range slots {
		if tx != nil {
			live++
		}
	}
	for h, i := range index {
		k := "?"
		if t, ok := r.g.byHash[h]; ok {
			k = fmt.Sprint(t.label)
		}
		if i < 0 || i >= len(slots) {
			r.fail("c18/stale-index/entry-out-of-range", fmt.Sprintf("%s the index maps hash %s to slot %d of %d", what, k, i, len(slots)))
			continue
		}
		if slots[i] == nil {
			r.c.Count("nontrivial:stale-index-entry")
			r.fail("c18/stale-index/entry-points-at-cleared-slot", fmt.Sprintf("%s the index still maps hash %s to slot %d, which was cleared: AddTx of that tx is refused (ErrTxIsExist) although it is not pending, IsEmpty() stays false and gc never reclaims the slots", what, k, i))
		}
	}
	empty := r.pool.IsEmpty()
	if live == 0 && !empty {
		r.fail("c18/stale-index/not-empty-with-nothing-pending", fmt.Sprintf("%s no transaction is pending (%d slots, all cleared) but IsEmpty() is false (%d index entries): the miner stops waiting for transactions and gc never fires", what, len(slots), len(index)))
	}
	if live > 0 && empty {
		r.fail("c18/lost", fmt.Sprintf("%s IsEmpty() is true although %d transactions are pending", what, live))
	}
}

func (r *c18run) opAdd(t *ltx) {
	op := "add " + t.spec()
	var err error
	res := Safe(func() string {
		if t == nil {
			err = r.pool.AddTx(nil)
		} else {
			err = r.pool.AddTx(t.tx)
		}
		switch err {
		case nil:
			return "ok"
		case txpool.ErrTxIsExist:
			return "err ErrTxIsExist"
		case txpool.ErrInvalidTx:
			return "err ErrInvalidTx"
		}
		return "err " + err.Error()
	})
	r.c.Count("add:" + res)
	if res == "ok" {
		r.accepted(t)
		if len(t.subs) > 0 {
			r.c.Count("add:ok:box")
		}
	}
	if res == "err ErrTxIsExist" && t != nil {
		// set semantics: a tx is refused only if a PENDING tx shares one of its hashes
		_, pending := r.dump()
		conflict := false
		for _, p := range pending {
			if overlap(p, t) {
				conflict = true
			}
		}
		if conflict {
			r.c.Count("add:refused:conflicts-with-pending")
		} else {
			r.c.Count("nontrivial:add-refused-without-pending-conflict")
			r.fail("c18/stale-index/add-refused", fmt.Sprintf("AddTx(%s) returns ErrTxIsExist although no pending transaction shares a hash with it (pending: %v)", t.spec(), labelsOf(pending)))
		}
	}
	r.finish(op, res)
}

func (r *c18run) opAdds(ts []*ltx) {
	op := strings.TrimSpace("adds " + specs(ts))
	before, _, _ := r.pool.VerifState()
	n := 0
	res := Safe(func() string {
		n = r.pool.AddTxs(realTxs(ts))
		return fmt.Sprintf("n %d", n)
	})
	// which ones were accepted: the slots appended by this call
	after, _, _ := r.pool.VerifState()
	if len(after) >= len(before) {
		for _, tx := range after[len(before):] {
			if tx != nil {
				if t, ok := r.g.byHash[tx.Hash()]; ok {
					r.accepted(t)
				}
			}
		}
	}
	if n > 0 && n < len(ts) {
		r.c.Count("adds:some-rejected")
	} else if n == 0 {
		r.c.Count("adds:none-accepted")
	} else {
		r.c.Count("adds:all-accepted")
	}
	if len(before) <= 128 && len(after) > 128 || len(before) <= 256 && len(after) > 256 {
		r.c.Count("branch:capacity-doubling")
	}
	r.finish(op, res)
}

func (r *c18run) opDel(ts []*ltx) {
	op := strings.TrimSpace("del " + specs(ts))
	// classify for the input distribution
	slots, index, capBefore := r.pool.VerifState()
	inSlot := map[int]bool{}
	for _, tx := range slots {
		if tx != nil {
			if t, ok := r.g.byHash[tx.Hash()]; ok {
				inSlot[t.label] = true
			}
		}
	}
	for _, t := range ts {
		switch {
		case t == nil:
			r.c.Count("del:nil")
		case len(t.subs) > 0 && inSlot[t.label]:
			r.c.Count("del:box-present")
		case len(t.subs) > 0:
			r.c.Count("del:box-absent")
			for _, s := range t.subs {
				if inSlot[s.label] {
					r.c.Count("nontrivial:del-absent-box-with-standalone-sub")
				}
			}
		case inSlot[t.label]:
			r.c.Count("del:plain-present")
		default:
			if i, ok := index[t.tx.Hash()]; ok && i < len(slots) && slots[i] != nil {
				r.c.Count("del:sub-of-pooled-box")
			} else if ok {
				r.c.Count("del:stale-index-entry")
			} else {
				r.c.Count("del:absent")
			}
		}
	}
	res := Safe(func() string {
		r.pool.DelTxs(realTxs(ts))
		return "ok"
	})
	r.toldToDelete(ts)
	after, _, capAfter := r.pool.VerifState()
	if len(slots) > 0 && len(after) == 0 {
		r.c.Count("branch:gc-reset")
		if capAfter < capBefore {
			r.c.Count("branch:gc-cap-decrement")
		}
	}
	r.finish(op, res)
}

func (r *c18run) opGet(time uint32, size int) {
	op := fmt.Sprintf("get %d %d", time, size)
	var got []*ltx
	res := Safe(func() string {
		txs := r.pool.GetTxs(time, size)
		var s string
		got, s = r.g.labels(txs)
		// the result must be the caller's own slice: overwrite it; if it aliased pool.txs the state dump
		// that follows (slots) would show cleared slots and diverge from the model
		for i := range txs {
			txs[i] = nil
		}
		if cap(txs) > 1<<20 {
			r.fail("c18/get-alloc-before-size-check", fmt.Sprintf("GetTxs(%d, %d) reserved capacity %d for a pool of a few slots", time, size, cap(txs)))
		}
		return "txs " + s
	})
	switch {
	case res == "panic":
		r.c.Count("get:panic")
		r.fail("c18/get-alloc-before-size-check", fmt.Sprintf("GetTxs(%d, %d) panics (make([]*Transaction, 0, size) before the `size <= 0` test) instead of returning an empty list; size comes from the RPC GetPendingTx", time, size))
	case size < 0:
		r.c.Count("get:negative-size")
	case size > 1<<40:
		r.c.Count("get:huge-size")
	case size == 0:
		r.c.Count("get:size0")
	case len(got) >= size:
		r.c.Count("get:truncated")
	default:
		r.c.Count("get:all")
	}
	if res != "panic" {
		// expiry seen by this scan excuses the tx from now on
		r.checkHandOut(got, uint64(time), size <= 0 || len(got) >= size, "GetTxs("+fmt.Sprint(time, ",", size)+")")
		for l, m := range r.must {
			if m.timedOut(uint64(time)) {
				delete(r.must, l)
				r.c.Count("get:expired-dropped")
			}
		}
	}
	r.finish(op, res)
}

func (r *c18run) opEmpty() {
	res := Safe(func() string { return fmt.Sprint(r.pool.IsEmpty()) })
	r.c.Count("empty:" + res)
	r.finish("empty", res) // both directions of "IsEmpty <=> nothing pending" are checked in checkIndex after every op
}

// ---------------------------------------------------------------- universes

type c18uni struct {
	plain []*ltx
	boxes []*ltx
	all   []*ltx
}

// small universe with heavy overlap: boxes over the plain txs, duplicates, degenerate boxes
func (g *c18gen) smallUniverse(withOdd bool) *c18uni {
	rnd := g.c.Rnd
	exps := []uint64{5, 10, 11, 20, 1000, 1000, 1000}
	u := &c18uni{}
	np := 4 + rnd.Intn(4)
	for i := 0; i < np; i++ {
		u.plain = append(u.plain, g.plain(exps[rnd.Intn(len(exps))]))
	}
	nb := 2 + rnd.Intn(3)
	for i := 0; i < nb; i++ {
		k := 1 + rnd.Intn(3)
		var ss []*ltx
		for j := 0; j < k; j++ {
			ss = append(ss, u.plain[rnd.Intn(len(u.plain))]) // duplicates inside one box possible
		}
		u.boxes = append(u.boxes, g.box(exps[rnd.Intn(len(exps))], ss, 0))
	}
	if withOdd {
		switch rnd.Intn(4) {
		case 0:
			u.boxes = append(u.boxes, g.box(1000, nil, 1)) // data is not a box
		case 1:
			u.boxes = append(u.boxes, g.box(1000, nil, 0)) // empty box
		case 2:
			// a box whose sub tx is itself a box (the pool looks one level deep only)
			u.boxes = append(u.boxes, g.box(1000, []*ltx{u.boxes[0]}, 0))
		}
	}
	u.all = append(append([]*ltx{}, u.plain...), u.boxes...)
	return u
}

func (u *c18uni) pick(g *c18gen) *ltx { return u.all[g.c.Rnd.Intn(len(u.all))] }

func (u *c18uni) pickSome(g *c18gen, max int, allowNil bool) []*ltx {
	n := g.c.Rnd.Intn(max + 1)
	var ts []*ltx
	for i := 0; i < n; i++ {
		if allowNil && g.c.Rnd.Intn(25) == 0 {
			ts = append(ts, nil)
		} else {
			ts = append(ts, u.pick(g))
		}
	}
	return ts
}

// ---------------------------------------------------------------- episodes

func (g *c18gen) episodeSmall() {
	rnd := g.c.Rnd
	r := newC18run(g, "small")
	u := g.smallUniverse(true)
	times := []uint32{0, 5, 6, 10, 11, 12, 21, 2000}
	sizes := []int{-1, 0, 1, 2, 3, 100, 100, 100}
	if g.sizeChecked {
		// only when GetTxs validates size before allocating (probed once): on the code before commit
		// 6d2038c these would reserve memory proportional to size
		sizes = append(sizes, -1<<62, 1<<62, 1<<45+1)
	}
	n := 15 + rnd.Intn(45)
	for i := 0; i < n; i++ {
		switch x := rnd.Intn(20); {
		case x < 7:
			if rnd.Intn(30) == 0 {
				r.opAdd(nil)
			} else {
				r.opAdd(u.pick(g))
			}
		case x < 10:
			r.opAdds(u.pickSome(g, 4, true))
		case x < 15:
			r.opDel(u.pickSome(g, 3, true))
		case x < 19:
			t := times[rnd.Intn(len(times))]
			if rnd.Intn(3) == 0 {
				t = 0
			}
			r.opGet(t, sizes[rnd.Intn(len(sizes))])
		default:
			r.opEmpty()
		}
	}
}

// episodeBulk: hundreds of txs (capacity doubling at 128/256, gc reset, cap decrement), boxes
// over private sub txs only: no oracle failure is expected here even on the unrepaired code.
func (g *c18gen) episodeBulk() {
	rnd := g.c.Rnd
	r := newC18run(g, "bulk")
	var pool []*ltx
	m := 100 + rnd.Intn(220)
	for i := 0; i < m; i++ {
		if i%17 == 16 {
			// a box over two fresh private sub txs
			a, b := g.plain(1000), g.plain(1000)
			pool = append(pool, g.box(1000, []*ltx{a, b}, 0))
		} else {
			e := uint64(1000)
			if rnd.Intn(10) == 0 {
				e = 10
			}
			pool = append(pool, g.plain(e))
		}
	}
	rounds := 2 + rnd.Intn(2)
	for round := 0; round < rounds; round++ {
		// fill in chunks
		rnd.Shuffle(len(pool), func(i, j int) { pool[i], pool[j] = pool[j], pool[i] })
		for i := 0; i < len(pool); {
			k := 1 + rnd.Intn(150)
			if i+k > len(pool) {
				k = len(pool) - i
			}
			chunk := pool[i : i+k]
			if rnd.Intn(3) == 0 && i > 0 {
				chunk = append(append([]*ltx{}, chunk...), pool[rnd.Intn(i)]) // a duplicate
			}
			r.opAdds(chunk)
			i += k
			switch rnd.Intn(4) {
			case 0:
				r.opGet(0, []int{1, 50, 127, 128, 129, 1000}[rnd.Intn(6)])
			case 1:
				// delete some of what is in
				var ds []*ltx
				for j := 0; j < 1+rnd.Intn(20); j++ {
					ds = append(ds, pool[rnd.Intn(i)])
				}
				r.opDel(ds)
			case 2:
				r.opGet(11, 1+rnd.Intn(40)) // drops the expired ones among the scanned prefix
			}
		}
		r.opGet(0, 100000)
		r.opEmpty()
		// delete everything (two halves) -> gc reset, cap decrement after a doubling
		rnd.Shuffle(len(pool), func(i, j int) { pool[i], pool[j] = pool[j], pool[i] })
		h := len(pool) / 2
		r.opDel(pool[:h])
		r.opDel(pool[h:])
		r.opEmpty()
	}
}

// ---------------------------------------------------------------- fork switches via the real onCurrentChanged

type c18block struct {
	b       *types.Block
	parent  *c18block
	txs     []*ltx
	height  uint32
	unsaved bool // never given to TxGuard.SaveBlock
}

func (g *c18gen) episodeFork() {
	rnd := g.c.Rnd
	r := newC18run(g, "fork")
	u := g.smallUniverse(false)
	guard := txpool.NewTxGuard(0)
	mk := func(parent *c18block, txs []*ltx, tag int) *c18block {
		h := &types.Header{Height: 0, Time: 100, Extra: fmt.Sprintf("c18-%d-%d", g.next, tag)}
		if parent != nil {
			h.ParentHash = parent.b.Hash()
			h.Height = parent.height + 1
			h.Time = 100 + h.Height
		}
		blk := &c18block{b: types.NewBlock(h, realTxs(txs), nil), parent: parent, txs: txs, height: h.Height}
		// now and then a block the guard never saw (expired from it / not yet saved): GetTxsByBranch then
		// fails and onCurrentChanged logs the error and goes on with two nil lists (generator reach 4)
		if parent != nil && rnd.Intn(12) == 0 {
			blk.unsaved = true
		} else {
			guard.SaveBlock(blk.b)
		}
		return blk
	}
	branchTxs := func(b *c18block) []*ltx {
		var ts []*ltx
		for x := b; x != nil; x = x.parent {
			ts = append(ts, x.txs...)
		}
		return ts
	}
	genesis := mk(nil, nil, 0)
	blocks := []*c18block{genesis}
	nb := 5 + rnd.Intn(8)
	for i := 1; i <= nb; i++ {
		var parent *c18block
		if rnd.Intn(3) == 0 {
			parent = blocks[rnd.Intn(len(blocks))]
		} else {
			parent = blocks[len(blocks)-1-rnd.Intn(min(3, len(blocks)))]
		}
		// txs valid on this branch: key-disjoint from everything on the branch and among themselves
		used := branchTxs(parent)
		var txs []*ltx
		for j := 0; j < rnd.Intn(4); j++ {
			t := u.pick(g)
			ok := true
			for _, o := range append(append([]*ltx{}, used...), txs...) {
				if overlap(o, t) {
					ok = false
				}
			}
			if ok {
				txs = append(txs, t)
			}
		}
		blocks = append(blocks, mk(parent, txs, i))
	}
	// some pending txs
	for i := 0; i < 2+rnd.Intn(5); i++ {
		r.opAdd(u.pick(g))
	}
	current := genesis
	steps := 4 + rnd.Intn(6)
	for s := 0; s < steps; s++ {
		next := blocks[rnd.Intn(len(blocks))]
		if next == current {
			continue
		}
		// independent recomputation of the two branches down to the common ancestor (leaf first)
		var oldB, newB []*c18block
		a, b := current, next
		for a != b {
			if a.height > b.height {
				oldB = append(oldB, a)
				a = a.parent
			} else if a.height < b.height {
				newB = append(newB, b)
				b = b.parent
			} else {
				oldB = append(oldB, a)
				newB = append(newB, b)
				a, b = a.parent, b.parent
			}
		}
		var oldTxs, newTxs []*ltx
		for _, x := range oldB {
			oldTxs = append(oldTxs, x.txs...)
		}
		for _, x := range newB {
			newTxs = append(newTxs, x.txs...)
		}
		var op string
		grow := next.parent == current
		guardErr := false
		if !grow {
			for _, x := range append(append([]*c18block{}, oldB...), newB...) {
				if x.unsaved {
					guardErr = true
				}
			}
		}
		if guardErr {
			// GetTxsByBranch returns (nil, nil, err); the error is only logged: AddTxs(nil); DelTxs(nil)
			oldTxs, newTxs = nil, nil
			op = "fork /"
			r.c.Count("fork:guard-error-ignored(pool left unchanged while the head switches)")
		} else if grow {
			op = strings.TrimSpace("del " + specs(next.txs))
			r.c.Count("fork:grow")
		} else {
			op = strings.TrimSpace("fork " + specs(oldTxs) + " / " + specs(newTxs))
			r.c.Count(fmt.Sprintf("fork:switch depth old=%d new=%d", min(len(oldB), 3), min(len(newB), 3)))
		}
		_, f0 := r.dump()
		_, indexBefore, _ := r.pool.VerifState()
		res := Safe(func() string {
			consensus.VerifOnCurrentChanged(r.pool, guard, current.b, next.b)
			return "ok"
		})
		current = next
		r.log = append(r.log, op)
		d, f1 := r.dump()
		r.c.Op(op, res+" ; "+d)
		r.checkIndex("after `" + op + "`")
		// oracle for the fork-switch clause
		in1 := map[int]bool{}
		for _, t := range f1 {
			in1[t.label] = true
		}
		in0 := map[int]bool{}
		for _, t := range f0 {
			in0[t.label] = true
		}
		onNew := func(t *ltx) bool {
			for _, n := range newTxs {
				if overlap(n, t) {
					return true
				}
			}
			return false
		}
		if grow {
			newTxs = next.txs
			oldTxs = nil
		}
		for _, t := range f1 {
			if onNew(t) {
				r.fail("c18/fork-new-tx-in-pool", fmt.Sprintf("after `%s` the pool still hands out %s, which is on the new fork (or shares a hash with a tx on it)", op, t.spec()))
			}
		}
		for _, t := range oldTxs {
			if onNew(t) || in1[t.label] {
				continue
			}
			// legitimate: a transaction that was pending before the switch (and is not the tx itself)
			// already owns one of its hashes -- the set keeps the older of two conflicting txs
			blocked := false
			for _, p0 := range f0 {
				if p0.label != t.label && overlap(p0, t) {
					blocked = true
				}
			}
			if blocked {
				r.c.Count("fork:old-tx-blocked-by-pending-conflict")
				continue
			}
			stale := false
			for _, k := range t.keys() {
				for h := range indexBefore {
					if x, ok := r.g.byHash[h]; ok && x.label == k {
						stale = true
					}
				}
			}
			if stale {
				r.c.Count("nontrivial:fork-old-tx-blocked-by-stale-index-entry")
				r.fail("c18/stale-index/fork-old-tx-missing", fmt.Sprintf("after `%s` the pool does not contain %s from the abandoned fork: a stale index entry (pointing at a cleared slot) made AddTxs refuse it", op, t.spec()))
				continue
			}
			r.fail("c18/fork-old-tx-missing", fmt.Sprintf("after `%s` the pool does not contain %s from the abandoned fork", op, t.spec()))
		}
		for _, t := range f0 {
			if !onNew(t) && !in1[t.label] {
				r.fail("c18/lost", fmt.Sprintf("after `%s` the pending tx %s is gone although it is not on the new fork", op, t.spec()))
			}
		}
		// generic per-selection clauses on the content, then re-seed the set model from the content
		r.must = map[int]*ltx{}
		r.deleted = map[int]bool{}
		r.toldToDelete(newTxs)
		for _, t := range f1 {
			if !onNew(t) {
				r.must[t.label] = t
			}
		}
		r.checkHandOut(f1, 0, false, "a full GetTxs after `"+op+"`")
		if rnd.Intn(3) == 0 {
			r.opAdd(u.pick(g))
		}
	}
}

// ---------------------------------------------------------------- lock discipline facts (go/ast)

func mentions(n ast.Node, name string) bool {
	found := false
	ast.Inspect(n, func(x ast.Node) bool {
		if id, ok := x.(*ast.Ident); ok && id.Name == name {
			found = true
		}
		return !found
	})
	return found
}

// isRWCall: `<recv>.RW.<method>()`
func isRWCall(e ast.Expr, recv string) (string, bool) {
	call, ok := e.(*ast.CallExpr)
	if !ok || len(call.Args) != 0 {
		return "", false
	}
	sel, ok := call.Fun.(*ast.SelectorExpr)
	if !ok {
		return "", false
	}
	in, ok := sel.X.(*ast.SelectorExpr)
	if !ok || in.Sel.Name != "RW" {
		return "", false
	}
	id, ok := in.X.(*ast.Ident)
	if !ok || id.Name != recv {
		return "", false
	}
	return sel.Sel.Name, true
}

// lockFacts: go/ast scan. Emits, for every exported method M of *TxPool (all non-test, non-verif files of the
// package):  `lock M <bool>`   M takes the EXCLUSIVE lock (`recv.RW.Lock()`; RLock is rejected: GetTxs writes, and
//                              an RLock'ed reader next to a writer is only safe if it never writes) immediately
//                              followed by `defer recv.RW.Unlock()`, nothing before it mentions the receiver, and
//                              the body has exactly these two lock calls, no `go` statement, no closure;
//                              `escape M <bool>` M returns, or copies into a local / another variable, a slice-
//                              or map-typed field of the receiver (txs, hashIndexMap), possibly re-sliced;
// once: `helpers <bool>`       every UNEXPORTED method of *TxPool and every plain function of the package files
//                              that define TxPool methods is free of lock calls, `go` statements and closures;
//       `foreignlock <bool>`   some file outside the package (non-test) selects `.RW` on an expression whose
//                              static name suggests the pool (txPool / pool / TxPool()).
func (g *c18gen) lockFacts() {
	c := g.c
	repo := os.Getenv("VERIF_REPO")
	if repo == "" {
		repo = "/repo"
	}
	dir := filepath.Join(repo, "chain", "txpool")
	fset := token.NewFileSet()
	entries, err := os.ReadDir(dir)
	if err != nil {
		c.Op("lock <parse> false", "ok")
		c.Fail("c18/lock-discipline", "cannot read "+dir+": "+err.Error(), nil)
		return
	}
	type fact struct{ locked, escapes bool }
	facts := map[string]fact{}
	var names []string
	helpersOK := true
	helperDetail := ""
	for _, e := range entries {
		n := e.Name()
		if !strings.HasSuffix(n, ".go") || strings.HasSuffix(n, "_test.go") || strings.HasPrefix(n, "verif_") {
			continue
		}
		f, err := parser.ParseFile(fset, filepath.Join(dir, n), nil, 0)
		if err != nil {
			c.Op("lock <parse> false", "ok")
			c.Fail("c18/lock-discipline", "cannot parse "+n+": "+err.Error(), nil)
			return
		}
		fileHasPoolMethod := false
		var plain []*ast.FuncDecl
		for _, d := range f.Decls {
			fd, ok := d.(*ast.FuncDecl)
			if !ok || fd.Body == nil {
				continue
			}
			if fd.Recv == nil {
				plain = append(plain, fd)
				continue
			}
			if len(fd.Recv.List) != 1 {
				continue
			}
			st, ok := fd.Recv.List[0].Type.(*ast.StarExpr)
			var tn string
			if ok {
				if id, ok := st.X.(*ast.Ident); ok {
					tn = id.Name
				}
			} else if id, ok := fd.Recv.List[0].Type.(*ast.Ident); ok {
				tn = id.Name
			}
			if tn != "TxPool" {
				continue
			}
			fileHasPoolMethod = true
			recv := "_"
			if len(fd.Recv.List[0].Names) == 1 {
				recv = fd.Recv.List[0].Names[0].Name
			}
			if !fd.Name.IsExported() {
				if why := c18HelperClean(fd, recv); why != "" {
					helpersOK = false
					helperDetail += fd.Name.Name + ": " + why + "; "
				}
				continue
			}
			facts[fd.Name.Name] = fact{c18Locked(fd, recv), c18Escapes(fd, recv)}
			names = append(names, fd.Name.Name)
		}
		if fileHasPoolMethod {
			for _, fd := range plain {
				if why := c18HelperClean(fd, ""); why != "" {
					helpersOK = false
					helperDetail += fd.Name.Name + ": " + why + "; "
				}
			}
		}
	}
	sort.Strings(names)
	for _, want := range []string{"AddTx", "AddTxs", "DelTxs", "GetTxs", "IsEmpty"} {
		if _, ok := facts[want]; !ok {
			c.Op("lock "+want+" false", "ok")
			c.Fail("c18/lock-discipline", "exported method "+want+" of *TxPool not found in package chain/txpool", nil)
		}
	}
	for _, n := range names {
		fa := facts[n]
		c.Op(fmt.Sprintf("lock %s %v", n, fa.locked), "ok")
		c.Op(fmt.Sprintf("escape %s %v", n, fa.escapes), "ok")
		c.Count(fmt.Sprintf("lockfact:%s:%v", n, fa.locked))
		if !fa.locked {
			c.Fail("c18/lock-discipline", "exported method "+n+" of *TxPool does not hold the exclusive pool.RW lock around every access of the pool (go/ast scan of "+dir+")", nil)
		}
		if fa.escapes {
			c.Fail("c18/lock-discipline", "exported method "+n+" of *TxPool returns or aliases a slice/map field of the pool (escapes the lock)", nil)
		}
	}
	c.Op(fmt.Sprintf("helpers %v", helpersOK), "ok")
	c.Count(fmt.Sprintf("lockfact:helpers:%v", helpersOK))
	if !helpersOK {
		c.Fail("c18/lock-discipline", "an unexported helper of the tx pool touches the lock, starts a goroutine or builds a closure: "+helperDetail, nil)
	}
	// users of TxPool.RW outside the package
	foreign := ""
	filepath.Walk(repo, func(path string, info os.FileInfo, err error) error {
		if err != nil {
			return nil
		}
		if info.IsDir() {
			if info.Name() == ".git" || info.Name() == "vendor" || path == dir {
				return filepath.SkipDir
			}
			return nil
		}
		if !strings.HasSuffix(path, ".go") || strings.HasSuffix(path, "_test.go") {
			return nil
		}
		src, err := os.ReadFile(path)
		if err != nil || !strings.Contains(string(src), ".RW") {
			return nil
		}
		f, err := parser.ParseFile(token.NewFileSet(), path, src, 0)
		if err != nil {
			return nil
		}
		ast.Inspect(f, func(x ast.Node) bool {
			sel, ok := x.(*ast.SelectorExpr)
			if !ok || sel.Sel.Name != "RW" {
				return true
			}
			var b strings.Builder
			ast.Inspect(sel.X, func(y ast.Node) bool {
				if id, ok := y.(*ast.Ident); ok {
					b.WriteString(id.Name + " ")
				}
				return true
			})
			low := strings.ToLower(b.String())
			if strings.Contains(low, "txpool") || strings.HasPrefix(low, "pool ") {
				rel, _ := filepath.Rel(repo, path)
				foreign += rel + " "
			}
			return true
		})
		return nil
	})
	c.Op(fmt.Sprintf("foreignlock %v", foreign != ""), "ok")
	c.Count(fmt.Sprintf("lockfact:foreignlock:%v", foreign != ""))
	if foreign != "" {
		c.Fail("c18/lock-discipline", "TxPool.RW is used outside package txpool: "+foreign, nil)
	}
}

// c18Locked: see lockFacts
func c18Locked(fd *ast.FuncDecl, recv string) bool {
	L := -1
	for i, s := range fd.Body.List {
		if es, ok := s.(*ast.ExprStmt); ok {
			if m, ok := isRWCall(es.X, recv); ok {
				if m == "Lock" && i+1 < len(fd.Body.List) {
					if ds, ok := fd.Body.List[i+1].(*ast.DeferStmt); ok {
						if u, ok := isRWCall(ds.Call, recv); ok && u == "Unlock" {
							L = i
						}
					}
				}
				break
			}
		}
		if mentions(s, recv) {
			break
		}
	}
	if L < 0 {
		return false
	}
	ok := true
	calls := 0
	ast.Inspect(fd.Body, func(x ast.Node) bool {
		switch v := x.(type) {
		case *ast.GoStmt, *ast.FuncLit:
			ok = false
		case *ast.CallExpr:
			if _, is := isRWCall(v, recv); is {
				calls++
			}
		case *ast.SelectorExpr:
			// any other use of recv.RW (passing it around, RLocker(), ...)
			if v.Sel.Name == "RW" {
				if id, is := v.X.(*ast.Ident); is && id.Name == recv {
					calls += 0
				}
			}
		}
		return true
	})
	rwUses := 0
	ast.Inspect(fd.Body, func(x ast.Node) bool {
		if v, is := x.(*ast.SelectorExpr); is && v.Sel.Name == "RW" {
			rwUses++
		}
		return true
	})
	return ok && calls == 2 && rwUses == 2
}

func c18FieldOfRecv(e ast.Expr, recv string) bool {
	for {
		switch v := e.(type) {
		case *ast.SliceExpr:
			e = v.X
			continue
		case *ast.ParenExpr:
			e = v.X
			continue
		case *ast.UnaryExpr:
			if v.Op == token.AND {
				e = v.X
				continue
			}
		}
		break
	}
	if sel, ok := e.(*ast.SelectorExpr); ok {
		if id, ok := sel.X.(*ast.Ident); ok && id.Name == recv && (sel.Sel.Name == "txs" || sel.Sel.Name == "hashIndexMap") {
			return true
		}
	}
	return false
}

// c18Escapes: a return value, or the right-hand side of an assignment / var declaration whose left-hand side is
// not the same receiver field, is a slice/map field of the receiver (possibly re-sliced or address-taken)
func c18Escapes(fd *ast.FuncDecl, recv string) bool {
	esc := false
	ast.Inspect(fd.Body, func(x ast.Node) bool {
		switch v := x.(type) {
		case *ast.ReturnStmt:
			for _, e := range v.Results {
				if c18FieldOfRecv(e, recv) {
					esc = true
				}
			}
		case *ast.AssignStmt:
			for i, e := range v.Rhs {
				if !c18FieldOfRecv(e, recv) {
					continue
				}
				if i < len(v.Lhs) && c18FieldOfRecv(v.Lhs[i], recv) {
					continue
				}
				esc = true
			}
		case *ast.ValueSpec:
			for _, e := range v.Values {
				if c18FieldOfRecv(e, recv) {
					esc = true
				}
			}
		}
		return true
	})
	return esc
}

// c18HelperClean: "" if the function body has no lock call, no go statement, no closure
func c18HelperClean(fd *ast.FuncDecl, recv string) string {
	why := ""
	ast.Inspect(fd.Body, func(x ast.Node) bool {
		switch v := x.(type) {
		case *ast.GoStmt:
			why = "go statement"
		case *ast.FuncLit:
			why = "closure"
		case *ast.SelectorExpr:
			if v.Sel.Name == "RW" {
				why = "touches RW"
			}
		}
		return true
	})
	if recv != "" && c18Escapes(fd, recv) {
		why = "aliases a pool field"
	}
	return why
}

// ---------------------------------------------------------------- concurrent stress (supporting evidence)

// Every goroutine owns a private set of txs (plain txs, and boxes over private subs that it also
// adds standalone) and runs guard-respecting ops on them, so its own view of the pool must follow
// its sequential set model whatever the other goroutines do; all goroutines also hammer a shared
// set of txs (some of which expire) for which only the per-selection clauses are checked.
func (g *c18gen) stress(rounds, workers, opsPer int) {
	c := g.c
	for round := 0; round < rounds; round++ {
		pool := txpool.NewTxPool()
		var shared []*ltx
		for i := 0; i < 12; i++ {
			e := uint64(1000)
			if i%3 == 0 {
				e = 10
			}
			shared = append(shared, g.plain(e))
		}
		type own struct {
			plain []*ltx
			boxes []*ltx
			seed  int64
		}
		owns := make([]*own, workers)
		owner := map[int]int{}
		for w := range owns {
			o := &own{seed: c.Rnd.Int63()}
			for i := 0; i < 40; i++ {
				t := g.plain(1000)
				o.plain = append(o.plain, t)
				owner[t.label] = w
			}
			for i := 0; i < 6; i++ {
				b := g.box(1000, []*ltx{o.plain[2*i], o.plain[2*i+1]}, 0)
				o.boxes = append(o.boxes, b)
				owner[b.label] = w
			}
			owns[w] = o
		}
		var mu sync.Mutex
		var fails [][2]string
		counts := map[string]int{}
		report := func(sig, detail string) {
			mu.Lock()
			if len(fails) < 20 {
				fails = append(fails, [2]string{sig, detail})
			}
			mu.Unlock()
		}
		expected := make([][]*ltx, workers)
		var wg sync.WaitGroup
		for w := 0; w < workers; w++ {
			wg.Add(1)
			go func(w int) {
				defer wg.Done()
				defer func() {
					if x := recover(); x != nil {
						report("c18/concurrent-panic", fmt.Sprint(x))
					}
				}()
				o := owns[w]
				rnd := rand.New(rand.NewSource(o.seed))
				var pend []*ltx // my sequential set model (insertion order)
				local := map[string]int{}
				has := func(t *ltx) bool {
					for _, p := range pend {
						if p == t {
							return true
						}
					}
					return false
				}
				conflicts := func(t *ltx) bool {
					for _, p := range pend {
						if overlap(p, t) {
							return true
						}
					}
					return false
				}
				checkSel := func(res types.Transactions, time uint64, full bool) {
					seen := map[common.Hash]bool{}
					var mine []*ltx
					for _, tx := range res {
						if tx == nil {
							report("c18/concurrent-nil-handed-out", "GetTxs returned a nil entry")
							continue
						}
						if seen[tx.Hash()] {
							report("c18/concurrent-handed-out-twice", "a concurrent GetTxs hands out one tx twice")
						}
						seen[tx.Hash()] = true
						t := g.byHash[tx.Hash()]
						if t.timedOut(time) {
							report("c18/concurrent-expired-handed-out", fmt.Sprintf("tx %s handed out at time %d", t.spec(), time))
						}
						if ow, ok := owner[t.label]; ok && ow == w {
							mine = append(mine, t)
						}
					}
					if full {
						// my own txs: exactly my sequential model, in insertion order
						ok := len(mine) == len(pend)
						for i := 0; ok && i < len(mine); i++ {
							ok = mine[i] == pend[i]
						}
						if !ok {
							report("c18/concurrent-own-view", fmt.Sprintf("worker %d: its own pending txs are %v but the pool hands out %v of them", w, labelsOf(pend), labelsOf(mine)))
						}
					}
				}
				for i := 0; i < opsPer; i++ {
					switch x := rnd.Intn(20); {
					case x < 6: // add own
						var t *ltx
						if rnd.Intn(4) == 0 {
							t = o.boxes[rnd.Intn(len(o.boxes))]
						} else {
							t = o.plain[rnd.Intn(len(o.plain))]
						}
						err := pool.AddTx(t.tx)
						want := !conflicts(t)
						if (err == nil) != want {
							report("c18/concurrent-own-view", fmt.Sprintf("worker %d: AddTx(%s) returned %v, sequential model says accepted=%v", w, t.spec(), err, want))
						}
						if err == nil {
							pend = append(pend, t)
							local["stress:add-ok"]++
						} else {
							local["stress:add-rejected"]++
						}
					case x < 9: // delete own pending ones (top-level present) or absent plain ones
						var ds []*ltx
						for j := 0; j < 1+rnd.Intn(3); j++ {
							if len(pend) > 0 && rnd.Intn(4) != 0 {
								ds = append(ds, pend[rnd.Intn(len(pend))])
							} else {
								t := o.plain[12+rnd.Intn(len(o.plain)-12)] // never a sub tx of my boxes
								if has(t) || !conflicts(t) {
									ds = append(ds, t)
								}
							}
						}
						pool.DelTxs(realTxs(ds))
						var np []*ltx
						for _, p := range pend {
							keep := true
							for _, d := range ds {
								if d == p {
									keep = false
								}
							}
							if keep {
								np = append(np, p)
							}
						}
						pend = np
						local["stress:del"]++
					case x < 12: // shared add / del
						t := shared[rnd.Intn(len(shared))]
						if rnd.Intn(2) == 0 {
							pool.AddTx(t.tx)
						} else {
							pool.DelTxs(types.Transactions{t.tx})
						}
						local["stress:shared"]++
					case x < 14:
						pool.AddTxs(realTxs([]*ltx{shared[rnd.Intn(len(shared))], shared[rnd.Intn(len(shared))]}))
						local["stress:shared"]++
					case x < 16: // bounded selection, possibly expiring shared txs
						time := uint32([]int{0, 11}[rnd.Intn(2)])
						size := 1 + rnd.Intn(30)
						res := pool.GetTxs(time, size)
						if len(res) > size {
							report("c18/concurrent-size", "GetTxs returned more than size")
						}
						checkSel(res, uint64(time), false)
						local["stress:get-bounded"]++
					case x < 19: // full selection: my own view
						checkSel(pool.GetTxs(0, 4096), 0, true)
						local["stress:get-full"]++
					default:
						pool.IsEmpty()
						local["stress:isempty"]++
					}
				}
				checkSel(pool.GetTxs(0, 4096), 0, true)
				mu.Lock()
				expected[w] = pend
				for k, v := range local {
					counts[k] += v
				}
				mu.Unlock()
			}(w)
		}
		wg.Wait()
		// quiescent: content restricted to owned txs = union of the workers' models; then clean up
		res := pool.GetTxs(0, 1<<16)
		got := map[int]bool{}
		for _, tx := range res {
			got[g.byHash[tx.Hash()].label] = true
		}
		for w, pend := range expected {
			for _, p := range pend {
				if !got[p.label] {
					report("c18/concurrent-lost", fmt.Sprintf("after the run, tx %d of worker %d is pending in its model but not handed out", p.label, w))
				}
				delete(got, p.label)
			}
		}
		for l := range got {
			if _, ok := owner[l]; ok {
				report("c18/concurrent-deleted-but-handed-out", fmt.Sprintf("after the run, tx %d is handed out although its owner deleted it", l))
			}
		}
		var rest types.Transactions
		rest = append(rest, res...)
		if out := Safe(func() string { pool.DelTxs(rest); return "ok" }); out != "ok" {
			report("c18/concurrent-panic", fmt.Sprintf("after the run, DelTxs of the %d txs the pool handed out: %s", len(rest), out))
		} else if !pool.IsEmpty() {
			slots, index, _ := pool.VerifState()
			report("c18/concurrent-not-empty", fmt.Sprintf("after deleting everything handed out the pool is not empty: %d slots, %d index entries", len(slots), len(index)))
		}
		for k, v := range counts {
			c.Stats[k] += v
		}
		c.Count("stress:rounds")
		for _, f := range fails {
			c.Fail(f[0], f[1], map[string]interface{}{"round": round, "workers": workers})
		}
	}
}

// ---------------------------------------------------------------- serialised goroutine rounds (compared with the model)

// episodeSerialised: several goroutines issue random calls (the heavy-overlap small universe, guard-violating
// deletes included) against ONE pool; each call is made while holding the harness' own mutex, so the order in
// the op log is the real order and every line is compared with the Lean model like any other op. What this
// adds to the sequential episodes: the calls come from different goroutines (state handed over between OS
// threads only through the pool's own and the harness' mutex). Scheduling is not reproducible from the seed;
// the replay of a failure is the op log itself.
func (g *c18gen) episodeSerialised(workers, opsPer int) {
	r := newC18run(g, "serialised")
	u := g.smallUniverse(true)
	var mu sync.Mutex
	var wg sync.WaitGroup
	seeds := make([]int64, workers)
	for i := range seeds {
		seeds[i] = g.c.Rnd.Int63()
	}
	times := []uint32{0, 5, 10, 11, 21, 2000}
	sizes := []int{0, 1, 2, 3, 100, 100}
	for w := 0; w < workers; w++ {
		wg.Add(1)
		go func(w int) {
			defer wg.Done()
			rnd := rand.New(rand.NewSource(seeds[w]))
			pick := func() *ltx { return u.all[rnd.Intn(len(u.all))] }
			some := func(max int) []*ltx {
				var ts []*ltx
				for i := rnd.Intn(max + 1); i > 0; i-- {
					ts = append(ts, pick())
				}
				return ts
			}
			for i := 0; i < opsPer; i++ {
				x := rnd.Intn(20)
				a, b := pick(), some(3)
				t, sz := times[rnd.Intn(len(times))], sizes[rnd.Intn(len(sizes))]
				mu.Lock()
				switch {
				case x < 7:
					r.opAdd(a)
				case x < 10:
					r.opAdds(b)
				case x < 15:
					r.opDel(b)
				case x < 19:
					r.opGet(t, sz)
				default:
					r.opEmpty()
				}
				r.c.Count("serialised:ops")
				mu.Unlock()
				runtime.Gosched()
			}
		}(w)
	}
	wg.Wait()
}

// ---------------------------------------------------------------- entry

func c18(c *Ctx) {
	g := &c18gen{c: c, byHash: map[common.Hash]*ltx{}}
	// The live model is the repaired delTx (/repo commit 85d2f65). VERIF_C18_ASIS=1 compares against the
	// model of the code before that commit instead (only useful with VERIF_REPO pointing at a tree
	// where the fix is reverted).
	if os.Getenv("VERIF_C18_ASIS") == "1" {
		c.Op("mode asis", "ok")
	}
	g.lockFacts()
	g.sizeChecked = Safe(func() string { txpool.NewTxPool().GetTxs(0, -1); return "ok" }) == "ok"
	// directed: the minimal witness of the delTx(box) defect repaired by /repo commit 85d2f65 (also the
	// Lean refutation witness for the code before that commit); must be silent on the repaired code
	{
		r := newC18run(g, "witness")
		a := g.plain(1000)
		cc := g.plain(1000)
		bx := g.box(1000, []*ltx{a}, 0)
		r.opAdd(a)
		r.opAdd(cc)
		r.opDel([]*ltx{bx})
		r.opGet(0, 10)
		r.opAdd(a)
		r.opGet(0, 10)
		r.opDel([]*ltx{a})
		r.opGet(0, 10)
		r.opAdd(bx)
		r.opGet(0, 10)
	}
	// directed: the witness of none_lost_refuted (an accepted, never deleted, never expired tx is dropped by gc)
	{
		r := newC18run(g, "witness-lost")
		a := g.plain(1000)
		cc := g.plain(1000)
		bx := g.box(1000, []*ltx{a}, 0)
		bx2 := g.box(5, []*ltx{a}, 0)
		r.opAdd(bx2)
		r.opDel([]*ltx{bx})
		r.opAdd(a)
		r.opGet(10, 100)
		r.opAdd(cc)
		r.opDel([]*ltx{cc})
		r.opGet(0, 100)
	}
	// directed: stale index entries after deleting a sub tx of a pooled box (review H1/H2)
	{
		r := newC18run(g, "witness-stale")
		s1, s2 := g.plain(1000), g.plain(1000)
		bx := g.box(1000, []*ltx{s1, s2}, 0)
		r.opDel([]*ltx{bx})
		r.opAdds([]*ltx{bx})
		r.opDel([]*ltx{s2})
		r.opEmpty()
		r.opAdd(s1)
		r.opGet(0, 10)
		// slots are reclaimed once nothing is pending
		for i := 0; i < 5; i++ {
			x := g.plain(1000)
			r.opAdd(x)
			r.opDel([]*ltx{x})
		}
	}
	bulk := 3
	if c.Tier == "thorough" {
		bulk = 25
	}
	budget := c.N
	for i := 0; c.nops < budget; i++ {
		switch {
		case i%12 == 5 && bulk > 0:
			bulk--
			g.episodeBulk()
			budget += 60 // bulk lines are long; do not let them eat the small episodes
		case i%4 == 3:
			g.episodeFork()
		default:
			g.episodeSmall()
		}
	}
	if c.Tier == "thorough" {
		c18Engine(g, 60)
		for i := 0; i < 10; i++ {
			g.episodeSerialised(6, 60)
		}
		g.stress(12, 8, 1500)
		g.hammer(1500 * time.Millisecond)
		c18Race(c) // the same stress + hammer built with -race, as a child process
	} else {
		c18Engine(g, 8)
		g.episodeSerialised(4, 40)
		g.stress(3, 8, 400)
		g.hammer(300 * time.Millisecond)
	}
}

// c18stress: the goroutine stress and the drain/add hammer alone (sub-command of the -race child)
func c18stress(c *Ctx) {
	g := &c18gen{c: c, byHash: map[common.Hash]*ltx{}}
	g.stress(c.N, 8, 1500)
	g.hammer(2 * time.Second)
}

// hammer: a runtime witness for "DelTxs is ONE critical section" (delTx loop + gc): goroutine A keeps draining the
// pool (AddTx(X); DelTxs([X]) -> the index becomes empty -> gc resets the slots), goroutine(s) B add a tx Y and
// immediately select: an accepted tx that nobody deleted must be handed out. If gc ran in a second critical
// section (or looked at the index outside the lock) Y would be accepted between the two and wiped by the reset.
func (g *c18gen) hammer(d time.Duration) {
	c := g.c
	pool := txpool.NewTxPool()
	x := g.plain(1 << 40)
	const adders = 2
	ys := make([][]*ltx, adders)
	for w := range ys {
		for i := 0; i < 256; i++ {
			ys[w] = append(ys[w], g.plain(1<<40))
		}
	}
	var stop int32
	var mu sync.Mutex
	var lost []string
	var wg sync.WaitGroup
	drains, adds := int64(0), int64(0)
	wg.Add(1)
	go func() {
		defer wg.Done()
		n := int64(0)
		for atomic.LoadInt32(&stop) == 0 {
			pool.AddTx(x.tx)
			pool.DelTxs(types.Transactions{x.tx})
			n++
		}
		atomic.AddInt64(&drains, n)
	}()
	for w := 0; w < adders; w++ {
		wg.Add(1)
		go func(w int) {
			defer wg.Done()
			defer func() {
				if r := recover(); r != nil {
					mu.Lock()
					lost = append(lost, fmt.Sprint("panic: ", r))
					mu.Unlock()
				}
			}()
			n := int64(0)
			for i := 0; atomic.LoadInt32(&stop) == 0; i++ {
				y := ys[w][i%len(ys[w])]
				if err := pool.AddTx(y.tx); err != nil {
					mu.Lock()
					lost = append(lost, fmt.Sprintf("AddTx(%d) refused (%v) although its owner deleted it before", y.label, err))
					mu.Unlock()
					pool.DelTxs(types.Transactions{y.tx})
					continue
				}
				found := false
				for _, tx := range pool.GetTxs(0, 4096) {
					if tx != nil && tx.Hash() == y.tx.Hash() {
						found = true
					}
				}
				if !found {
					mu.Lock()
					if len(lost) < 5 {
						lost = append(lost, fmt.Sprintf("tx %d was accepted by AddTx and deleted by nobody, but the GetTxs that follows does not hand it out (wiped by a concurrent DelTxs/gc)", y.label))
					}
					mu.Unlock()
				}
				pool.DelTxs(types.Transactions{y.tx})
				n++
			}
			atomic.AddInt64(&adds, n)
		}(w)
	}
	time.Sleep(d)
	atomic.StoreInt32(&stop, 1)
	wg.Wait()
	c.Stats["hammer:drain-rounds"] += int(drains)
	c.Stats["hammer:add-select-rounds"] += int(adds)
	c.Count("hammer:runs")
	for _, l := range lost {
		c.Fail("c18/hammer/accepted-tx-lost", l, map[string]interface{}{"schedule": "A: loop{AddTx(X); DelTxs([X])}  B: loop{AddTx(Y); GetTxs; DelTxs([Y])}"})
	}
}

package main

// c18_engine.go — family "forkswitch-real": the pool after REAL head changes of a real engine.
//
// The pool-level fork episodes of c18.go call DPoVP.onCurrentChanged with heads the harness chooses. Here the
// heads are whatever the engine computes: a full node (node.go World/Node: store + deputynode.Manager + tx pool
// + chain.BlockChain), random fork trees of 2–3 branches of 1–4 blocks from a stable base, blocks carrying plain
// txs, box txs, and boxes whose sub tx is also packaged standalone on another branch, inserted through
// BlockChain.InsertBlock in a random interleaving (the head switches when a side branch gets long enough), then
// confirms (InsertConfirms) making a block of a non-current branch stable so that the head flips back, then one
// more block on the new head. Users' submissions (Pool.AddTx) are mixed in.
//
// After EVERY engine event the harness recomputes, from its own block tree (ancestor walk old head -> new head),
// what the engine must have told the pool and emits it as an ordinary op line for the Lean model:
//
//	side block (head unchanged)        `side <txs of the block not on the current branch>`   (AddTx each)
//	head grew by one block             `del <txs of the new head>`
//	head switched (insert or confirm)  `fork <old-branch txs, tip first> / <new-branch txs, tip first>`
//
// followed by the real pool's whole state (slots, index, cap, full GetTxs) — so the exact pool content after the
// engine's own choice of (oldCurrent, newCurrent) is compared with the model — plus the direct clauses
// (signatures c18/forkswitch-real/...):
//
//	new-branch-tx-pending       a pending tx shares a hash with a tx of the current branch
//	old-branch-tx-missing       a tx of the abandoned branch that shares no hash with the current branch is not pending
//	handed-out-twice            ... or is handed out more than once
//	pending-tx-lost             a tx pending before the event, sharing no hash with the current branch, is gone
//	side-block-tx-not-pooled    a side block's tx that is neither on the current branch nor in conflict with a
//	                            pending tx did not become pending
//
// Deviations that a stale index entry explains are reported under c18/stale-index/... (the open finding).

import (
	"crypto/ecdsa"
	"fmt"
	"strings"
	"time"

	"github.com/LemoFoundationLtd/lemochain-core/chain/deputynode"
	"github.com/LemoFoundationLtd/lemochain-core/chain/types"
	"github.com/LemoFoundationLtd/lemochain-core/common"
	"github.com/LemoFoundationLtd/lemochain-core/common/rlp"
)

type c18eblk struct {
	b      *types.Block
	parent *c18eblk
	txs    []*ltx
	name   string
}

type c18eng struct {
	g        *c18gen
	c        *Ctx
	w        *World
	n        *Node
	observer *ecdsa.PrivateKey
	users    []*ecdsa.PrivateKey
	blocks   map[common.Hash]*c18eblk
	r        *c18run
	hist     []string
	nmsg     int
}

type c18eAbort struct{ why string }

func c18eWire(tx *types.Transaction) *types.Transaction {
	buf, err := rlp.EncodeToBytes(tx)
	if err != nil {
		panic(err)
	}
	var nt types.Transaction
	if err := rlp.DecodeBytes(buf, &nt); err != nil {
		panic(err)
	}
	return &nt
}

// regTx gives a signed engine tx a label in the shared registry
func (e *c18eng) regTx(tx *types.Transaction, subs []*ltx) *ltx {
	e.g.next++
	t := &ltx{label: e.g.next, exp: tx.Expiration(), subs: subs, tx: tx}
	if len(subs) > 0 {
		b, err := types.GetBox(tx.Data())
		if err != nil || len(b.SubTxList) != len(subs) {
			panic("c18 engine: box does not decode")
		}
		for i, s := range b.SubTxList {
			if s.Hash() != subs[i].tx.Hash() {
				panic("c18 engine: sub tx hash changed in box")
			}
		}
	}
	return e.g.reg(t)
}

func (e *c18eng) msg() string { e.nmsg++; return fmt.Sprintf("c18e-%d-%d", e.c.Seed, e.nmsg) }

func (e *c18eng) note(format string, a ...interface{}) {
	e.hist = append(e.hist, fmt.Sprintf(format, a...))
}

func (e *c18eng) fail(sig, detail string) {
	if e.r.failed[sig] {
		return
	}
	e.r.failed[sig] = true
	h := e.hist
	if len(h) > 60 {
		h = h[len(h)-60:]
	}
	ops := e.r.log
	if len(ops) > 40 {
		ops = ops[len(ops)-40:]
	}
	e.c.Fail(sig, detail, map[string]interface{}{"family": "forkswitch-real", "history": append([]string{}, h...), "ops": append([]string{}, ops...)})
}

func (e *c18eng) head() *c18eblk {
	h := e.n.BC.CurrentBlock().Hash()
	b, ok := e.blocks[h]
	if !ok {
		panic(c18eAbort{"head unknown to the harness"})
	}
	return b
}

// branchTxs: txs of the blocks from b down to (excluding) the scenario base, tip first
func (e *c18eng) branchTxs(b *c18eblk) []*ltx {
	var ts []*ltx
	for x := b; x != nil && x.parent != nil; x = x.parent {
		ts = append(ts, x.txs...)
	}
	return ts
}

func overlapsAny(t *ltx, ts []*ltx) bool {
	for _, o := range ts {
		if overlap(o, t) {
			return true
		}
	}
	return false
}

func height(b *c18eblk) int {
	h := 0
	for x := b; x.parent != nil; x = x.parent {
		h++
	}
	return h
}

func (e *c18eng) pending() []*ltx {
	_, full := e.r.dump()
	return full
}

// afterEvent: the engine handled `what`; head0/p0 are the head and pool content before it. side = the block
// just inserted when the head did not move (nil otherwise).
func (e *c18eng) afterEvent(what string, head0 *c18eblk, p0 []*ltx, side *c18eblk) {
	r := e.r
	head1 := e.head()
	var op string
	var oldTxs, newTxs, sideTxs []*ltx
	switched := false
	switch {
	case head1 == head0:
		if side == nil {
			e.c.Count("engine:" + what + ":head-unchanged")
			op = "side"
		} else {
			cur := e.branchTxs(head0)
			for _, t := range side.txs {
				if !overlapsAny(t, cur) {
					sideTxs = append(sideTxs, t)
				}
			}
			op = strings.TrimSpace("side " + specs(sideTxs))
			e.c.Count("engine:side-block")
			if len(sideTxs) < len(side.txs) {
				e.c.Count("nontrivial:engine:side-block-tx-already-on-current-branch")
			}
		}
	case head1.parent == head0:
		newTxs = head1.txs
		op = strings.TrimSpace("del " + specs(newTxs))
		e.c.Count("engine:grow")
	default:
		// independent ancestor walk (same as the pool-level episode)
		var oldB, newB []*c18eblk
		a, b := head0, head1
		for a != b {
			ha, hb := height(a), height(b)
			if ha > hb {
				oldB = append(oldB, a)
				a = a.parent
			} else if ha < hb {
				newB = append(newB, b)
				b = b.parent
			} else {
				oldB = append(oldB, a)
				newB = append(newB, b)
				a, b = a.parent, b.parent
			}
		}
		for _, x := range oldB {
			oldTxs = append(oldTxs, x.txs...)
		}
		for _, x := range newB {
			newTxs = append(newTxs, x.txs...)
		}
		switched = true
		op = strings.TrimSpace("fork " + specs(oldTxs) + " / " + specs(newTxs))
		e.c.Count(fmt.Sprintf("nontrivial:engine:switch by %s old=%d new=%d", what, len(oldB), len(newB)))
		boxy := false
		for _, t := range append(append([]*ltx{}, oldTxs...), newTxs...) {
			if len(t.subs) > 0 {
				boxy = true
			}
		}
		if boxy {
			e.c.Count("nontrivial:engine:switch-with-box-txs")
		}
	}
	e.note("%s -> head %s (was %s): expected pool call `%s`", what, head1.name, head0.name, op)
	r.log = append(r.log, op)
	d, p1 := r.dump()
	e.c.Op(op, "ok ; "+d)
	r.checkIndex("after `" + op + "`")

	// ---- direct clauses
	_, index, _ := r.pool.VerifState()
	staleFor := func(t *ltx) bool {
		slots, _, _ := r.pool.VerifState()
		for _, k := range t.keys() {
			for h, i := range index {
				if x, ok := e.g.byHash[h]; ok && x.label == k && i < len(slots) && slots[i] == nil {
					return true
				}
			}
		}
		return false
	}
	cur := e.branchTxs(head1)
	count := map[int]int{}
	for _, t := range p1 {
		count[t.label]++
		if overlapsAny(t, cur) {
			e.fail("c18/forkswitch-real/new-branch-tx-pending", fmt.Sprintf("after %s (head %s -> %s) the pool hands out %s, which shares a hash with a tx on the current branch", what, head0.name, head1.name, t.spec()))
		}
	}
	for l, n := range count {
		if n > 1 {
			e.fail("c18/forkswitch-real/handed-out-twice", fmt.Sprintf("after %s (head %s -> %s) tx %d is handed out %d times", what, head0.name, head1.name, l, n))
		}
	}
	in0 := map[int]bool{}
	for _, t := range p0 {
		in0[t.label] = true
	}
	if switched {
		for _, t := range oldTxs {
			if overlapsAny(t, cur) || count[t.label] > 0 {
				continue
			}
			if staleFor(t) {
				e.c.Count("nontrivial:engine:old-branch-tx-blocked-by-stale-index-entry")
				e.fail("c18/stale-index/fork-old-tx-missing", fmt.Sprintf("after the real switch %s -> %s the pool does not contain %s from the abandoned branch: a stale index entry refused it", head0.name, head1.name, t.spec()))
				continue
			}
			e.fail("c18/forkswitch-real/old-branch-tx-missing", fmt.Sprintf("after %s the head switched %s -> %s; tx %s of the abandoned branch shares no hash with the new branch but is not pending", what, head0.name, head1.name, t.spec()))
		}
	}
	for _, t := range p0 {
		if !overlapsAny(t, cur) && count[t.label] == 0 {
			e.fail("c18/forkswitch-real/pending-tx-lost", fmt.Sprintf("after %s (head %s -> %s) the pending tx %s is gone although it shares no hash with the current branch", what, head0.name, head1.name, t.spec()))
		}
	}
	for _, t := range sideTxs {
		if count[t.label] > 0 {
			continue
		}
		conflict := false
		for _, p := range p0 {
			if p.label != t.label && overlap(p, t) {
				conflict = true
			}
		}
		if conflict {
			e.c.Count("engine:side-block-tx-conflicts-with-pending")
			continue
		}
		if staleFor(t) {
			e.fail("c18/stale-index/add-refused", fmt.Sprintf("the tx %s of side block %s was refused because of a stale index entry", t.spec(), side.name))
			continue
		}
		e.fail("c18/forkswitch-real/side-block-tx-not-pooled", fmt.Sprintf("side block %s (head stays %s) carries %s, which is neither on the current branch nor in conflict with a pending tx, but it did not become pending", side.name, head0.name, t.spec()))
	}
	// re-seed the pool-level set model from the content
	r.must = map[int]*ltx{}
	r.deleted = map[int]bool{}
	r.toldToDelete(cur)
	for _, t := range p1 {
		if !overlapsAny(t, cur) {
			r.must[t.label] = t
		}
	}
	r.checkHandOut(p1, 0, false, "a full GetTxs after `"+op+"`")
}

// build + insert the next block on `parent`; returns nil if the miner dropped a tx or the validator refused
func (e *c18eng) insert(parent *c18eblk, name string, t uint32, txs []*ltx) *c18eblk {
	var real types.Transactions
	for _, x := range txs {
		real = append(real, c18eWire(x.tx))
	}
	b, invalid, err := e.n.Build(parent.b, t, real, nil)
	if err != nil || len(invalid) != 0 || len(b.Txs) != len(txs) {
		panic(c18eAbort{fmt.Sprintf("miner did not pack the block as planned (err=%v, dropped=%d)", err, len(invalid))})
	}
	blk := &c18eblk{b: b, parent: parent, txs: txs, name: name}
	head0, p0 := e.head(), e.pending()
	deputynode.SetSelfNodeKey(e.observer)
	res := Safe(func() string {
		if err := e.n.Insert(CloneBlock(b)); err != nil {
			return "reject " + err.Error()
		}
		return "accept"
	})
	e.note("InsertBlock %s (parent %s, height +%d, time %d, txs %s): %s", name, parent.name, height(blk), t, specs(txs), res)
	if res != "accept" {
		panic(c18eAbort{"block refused: " + res})
	}
	e.blocks[b.Hash()] = blk
	if e.head() == head0 {
		e.afterEvent("InsertBlock "+name, head0, p0, blk)
	} else {
		e.afterEvent("InsertBlock "+name, head0, p0, nil)
	}
	return blk
}

func (e *c18eng) otherDeputy(miner common.Address) *ecdsa.PrivateKey {
	for _, k := range e.w.DeputyKeys {
		if keyAddr(k) != miner {
			return k
		}
	}
	panic("no other deputy")
}

// confirm: a second deputy signature makes blk stable (2 of 3)
func (e *c18eng) confirm(blk *c18eblk, observe bool) bool {
	before := e.n.BC.StableBlock().Hash()
	if before == blk.b.Hash() {
		return true
	}
	var head0 *c18eblk
	var p0 []*ltx
	if observe {
		head0, p0 = e.head(), e.pending()
	}
	deputynode.SetSelfNodeKey(e.observer)
	e.n.BC.InsertConfirms(blk.b.Height(), blk.b.Hash(), []types.SignData{Confirm(blk.b, e.otherDeputy(blk.b.MinerAddress()))})
	ok := e.n.BC.StableBlock().Hash() == blk.b.Hash()
	if observe {
		e.note("InsertConfirms %s: stable=%v", blk.name, ok)
		e.afterEvent("InsertConfirms "+blk.name, head0, p0, nil)
	}
	return ok
}

func (e *c18eng) submit(t *ltx) {
	if overlapsAny(t, e.branchTxs(e.head())) {
		return // the network/RPC entry points ask TxGuard.ExistTx first
	}
	e.note("user submits %s", t.spec())
	e.r.opAdd(&ltx{label: t.label, exp: t.exp, subs: t.subs, tx: c18eWire(t.tx)})
}

func (e *c18eng) scenario(id int) {
	rnd := e.c.Rnd
	defer func() {
		if x := recover(); x != nil {
			if a, ok := x.(c18eAbort); ok {
				e.c.Count("engine:scenario-aborted")
				e.c.Samples = append(e.c.Samples, "c18 engine scenario aborted: "+a.why)
				return
			}
			panic(x)
		}
	}()
	// a stable base; everything older is irrelevant to the new txs
	h := e.n.BC.CurrentBlock()
	baseBlk, ok := e.blocks[h.Hash()]
	if !ok {
		baseBlk = &c18eblk{b: h, name: "base"}
	}
	if !e.confirm(baseBlk, false) {
		panic(c18eAbort{"base could not be made stable"})
	}
	base := &c18eblk{b: h, name: fmt.Sprintf("S%d", id)}
	e.blocks = map[common.Hash]*c18eblk{h.Hash(): base}
	e.hist = nil
	e.n.Pool.DelTxs(e.n.Pool.GetTxs(0, 100000))
	e.r = newC18run(e.g, "forkswitch-real")
	e.r.pool = e.n.Pool
	e.note("scenario %d: stable base %s height %d time %d", id, base.name, h.Height(), h.Time())

	// universe: plain txs, boxes over them (two boxes share a sub tx), all valid for the whole scenario
	expBase := uint64(h.Time()) + 300
	var plain, all []*ltx
	for i := 0; i < 6; i++ {
		from := e.users[rnd.Intn(len(e.users))]
		tx := txTransfer(from, keyAddr(detKey(e.msg())), lemo(int64(1+rnd.Intn(5))), TxOpt{Exp: expBase + uint64(rnd.Intn(600)), Msg: e.msg()})
		plain = append(plain, e.regTx(tx, nil))
	}
	mkBox := func(subs ...*ltx) *ltx {
		var list types.Transactions
		minExp := ^uint64(0)
		for _, s := range subs {
			list = append(list, s.tx)
			if s.tx.Expiration() < minExp {
				minExp = s.tx.Expiration()
			}
		}
		// checkBoxTx: no sub tx may expire before the box
		tx := txBox(e.users[rnd.Intn(len(e.users))], list, TxOpt{Exp: minExp - uint64(rnd.Intn(50)), Msg: e.msg()})
		return e.regTx(tx, subs)
	}
	boxes := []*ltx{mkBox(plain[0], plain[1]), mkBox(plain[1], plain[2]), mkBox(plain[3])}
	all = append(append(all, plain...), boxes...)

	// branches
	nb := 2 + rnd.Intn(2)
	lens := make([]int, nb)
	for i := range lens {
		lens[i] = 1 + rnd.Intn(4)
	}
	if lens[0] >= lens[1] { // make sure a longer side branch exists so that a switch by length happens
		lens[1] = min(4, lens[0]+1+rnd.Intn(2))
		if lens[1] <= lens[0] {
			lens[0] = lens[1] - 1
		}
	}
	tips := make([]*c18eblk, nb)
	for i := range tips {
		tips[i] = base
	}
	done := make([]int, nb)
	remaining := 0
	for _, l := range lens {
		remaining += l
	}
	pickTxs := func(parent *c18eblk) []*ltx {
		used := e.branchTxs(parent)
		var txs []*ltx
		for j := rnd.Intn(4); j > 0; j-- {
			t := all[rnd.Intn(len(all))]
			if !overlapsAny(t, used) && !overlapsAny(t, txs) {
				txs = append(txs, t)
			}
		}
		return txs
	}
	for remaining > 0 {
		if rnd.Intn(3) == 0 {
			e.submit(all[rnd.Intn(len(all))])
		}
		i := rnd.Intn(nb)
		if done[i] >= lens[i] {
			continue
		}
		parent := tips[i]
		t := parent.b.Time() + 1 + uint32(rnd.Intn(3)) + uint32(i) // sibling blocks differ at least by their time
		name := fmt.Sprintf("%c%d", 'A'+i, done[i]+1)
		tips[i] = e.insert(parent, name, t, pickTxs(parent))
		done[i]++
		remaining--
	}
	// confirms flip the head: a block of a branch the head is NOT on becomes stable
	cur := e.head()
	onCur := map[*c18eblk]bool{}
	for x := cur; x != nil; x = x.parent {
		onCur[x] = true
	}
	var cands []*c18eblk
	for i := range tips {
		for x := tips[i]; x.parent != nil; x = x.parent {
			if !onCur[x] {
				cands = append(cands, x)
			}
		}
	}
	if len(cands) > 0 && rnd.Intn(5) != 0 {
		if rnd.Intn(2) == 0 {
			e.submit(all[rnd.Intn(len(all))])
		}
		target := cands[rnd.Intn(len(cands))]
		if e.confirm(target, true) {
			e.c.Count("engine:confirm-flip")
		} else {
			e.c.Count("engine:confirm-did-not-stabilise")
		}
	}
	// one more block on whatever the head is now
	hd := e.head()
	e.insert(hd, hd.name+"+", hd.b.Time()+1+uint32(rnd.Intn(3)), pickTxs(hd))
	e.r.opGet(0, 100)
	e.c.Count("engine:scenarios")
}

// setup: a fresh world + node whose chain holds one funding block (the users get their LEMO)
func (e *c18eng) setup() (ok bool) {
	c := e.c
	if e.n != nil {
		e.n.Close()
		e.n = nil
	}
	now := uint32(time.Now().Unix()) // the chain lives in the past so that no block is "from the future"
	e.w = NewWorld(3, now-400000, 10000)
	e.blocks = map[common.Hash]*c18eblk{}
	ok = true
	defer func() {
		if x := recover(); x != nil {
			ok = false
			c.Count("engine:setup-failed")
			c.Samples = append(c.Samples, fmt.Sprintf("c18 engine setup failed: %v", x))
		}
	}()
	e.n = e.w.NewNode(3)
	gen := e.n.BC.CurrentBlock()
	t := gen.Time() + 1
	var txs types.Transactions
	for i, u := range e.users {
		txs = append(txs, txTransfer(e.w.FounderKey, keyAddr(u), lemo(int64(1000000+i)), TxOpt{Exp: uint64(t) + 600, Msg: e.msg()}))
	}
	b, invalid, err := e.n.Build(gen, t, txs, nil)
	if err != nil || len(invalid) != 0 {
		panic(fmt.Sprintf("funding block: %v, %d dropped", err, len(invalid)))
	}
	deputynode.SetSelfNodeKey(e.observer)
	if err := e.n.Insert(CloneBlock(b)); err != nil {
		panic(err)
	}
	return ok
}

func c18Engine(g *c18gen, scenarios int) {
	c := g.c
	e := &c18eng{g: g, c: c, observer: detKey("c18-observer"), blocks: map[common.Hash]*c18eblk{}}
	for i := 0; i < 4; i++ {
		e.users = append(e.users, detKey(fmt.Sprintf("c18-user-%d", i)))
	}
	defer func() {
		if e.n != nil {
			e.n.Close()
		}
	}()
	for i := 0; i < scenarios; i++ {
		if e.n != nil {
			// the model starts every scenario from `new`: the real pool must be pristine too. Deleting everything
			// pending resets it (gc) unless a stale index entry (open finding c18/stale-index) keeps gc from firing
			e.n.Pool.DelTxs(e.n.Pool.GetTxs(0, 100000))
			slots, index, capacity := e.n.Pool.VerifState()
			if len(slots) != 0 || len(index) != 0 || capacity != 128 {
				c.Count("engine:pool-not-pristine-after-clear:fresh-node")
				e.n.Close()
				e.n = nil
			}
		}
		if e.n == nil && !e.setup() {
			return
		}
		e.scenario(i)
	}
}

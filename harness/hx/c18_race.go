package main

// c18_race.go — THOROUGH tier only: the goroutine stress of c18.go (`hx c18-stress`) rebuilt with `-race` and run
// as a child process. Every `WARNING: DATA RACE` whose stack mentions package chain/txpool is reported as
// `c18/data-race/<funcA>~<funcB>` (top-most txpool frames of the two accesses, no line numbers). If the race
// build fails this is recorded as an inconclusive class, never as a failure of the property.
// (Same scheme as c19_race.go; kept separate so that each property builds from its own files.)

import (
	"fmt"
	"os"
	"os/exec"
	"path/filepath"
	"regexp"
	"sort"
	"strings"
	"time"
)

func c18Race(c *Ctx) {
	src := os.Getenv("VERIF_HARNESS_SRC")
	if src == "" {
		if exe, err := os.Executable(); err == nil {
			src = filepath.Join(filepath.Dir(filepath.Dir(exe)), "harness")
		} else {
			src = "/verif/harness"
		}
	}
	repo := os.Getenv("VERIF_REPO")
	if repo == "" {
		repo = "/repo"
	}
	outAbs, err := filepath.Abs(c.Out)
	if err != nil {
		outAbs = c.Out
	}
	bdir := filepath.Join(outAbs, "racebuild")
	os.RemoveAll(bdir)
	defer os.RemoveAll(bdir)
	os.MkdirAll(filepath.Join(bdir, "hx"), 0755)
	gm, err := os.ReadFile(filepath.Join(src, "go.mod"))
	if err != nil {
		c.Count("race:inconclusive:no-harness-source")
		return
	}
	gmod := regexp.MustCompile(`(?m)^(replace github.com/LemoFoundationLtd/lemochain-core =>) .*$`).ReplaceAllString(string(gm), "$1 "+repo)
	os.WriteFile(filepath.Join(bdir, "go.mod"), []byte(gmod), 0644)
	if gs, err := os.ReadFile(filepath.Join(repo, "go.sum")); err == nil {
		os.WriteFile(filepath.Join(bdir, "go.sum"), gs, 0644)
	}
	files, _ := filepath.Glob(filepath.Join(src, "hx", "c18*.go"))
	for _, n := range []string{"main.go", "util.go", "node.go", "txgen.go"} {
		files = append(files, filepath.Join(src, "hx", n))
	}
	for _, f := range files {
		b, err := os.ReadFile(f)
		if err != nil {
			c.Count("race:inconclusive:no-harness-source")
			return
		}
		os.WriteFile(filepath.Join(bdir, "hx", filepath.Base(f)), b, 0644)
	}
	exe := filepath.Join(bdir, "hx-race")
	cmd := exec.Command("go", "build", "-race", "-gcflags=all=-d=checkptr=0", "-tags", "verif", "-o", exe, "./hx")
	cmd.Dir = bdir
	cmd.Env = append(os.Environ(), "GOFLAGS=-mod=mod", "GOPROXY=off", "GOSUMDB=off", "GOTOOLCHAIN=local", "CGO_ENABLED=1")
	t0 := time.Now()
	if out, err := cmd.CombinedOutput(); err != nil {
		c.Count("race:inconclusive:race-build-failed")
		msg := string(out)
		if len(msg) > 600 {
			msg = msg[len(msg)-600:]
		}
		c.Samples = append(c.Samples, "race build failed: "+strings.ReplaceAll(msg, "\n", " | "))
		return
	}
	c.Stats["race:build-seconds"] = int(time.Since(t0).Seconds())
	odir := filepath.Join(bdir, "out")
	os.MkdirAll(odir, 0755)
	run := exec.Command(exe, "c18-stress", "-seed", fmt.Sprint(c.Seed), "-n", "4", "-tier", "thorough", "-out", odir)
	run.Env = append(os.Environ(), "GORACE=halt_on_error=0")
	done := make(chan struct{})
	var text []byte
	go func() { text, _ = run.CombinedOutput(); close(done) }()
	select {
	case <-done:
	case <-time.After(600 * time.Second):
		if run.Process != nil {
			run.Process.Kill()
		}
		c.Count("race:inconclusive:timeout")
		return
	}
	c.Count("race:ran")
	c.Stats["race:reports"] = strings.Count(string(text), "WARNING: DATA RACE")
	// oracle failures of the child (set-model checks under -race)
	if b, err := os.ReadFile(filepath.Join(odir, "oracle.jsonl")); err == nil && len(strings.TrimSpace(string(b))) > 0 {
		c.Fail("c18/concurrent-under-race", "the goroutine stress built with -race reported set-model violations: "+strings.TrimSpace(string(b))[:min(600, len(strings.TrimSpace(string(b))))], nil)
	}
	frame := regexp.MustCompile(`(?m)^  (\S*chain/txpool\.\S+)\(\)$`)
	pairs := map[string]string{}
	for _, blk := range strings.Split(string(text), "WARNING: DATA RACE")[1:] {
		if i := strings.Index(blk, "=================="); i >= 0 {
			blk = blk[:i]
		}
		parts := strings.SplitN(blk, "\nPrevious ", 2)
		var tops []string
		for _, part := range parts {
			if m := frame.FindStringSubmatch(part); m != nil {
				fn := m[1]
				fn = fn[strings.LastIndex(fn, "/")+1:]
				tops = append(tops, strings.NewReplacer("(*", "", ")", "").Replace(fn))
			}
		}
		if len(tops) == 0 {
			continue // not in the pool
		}
		sort.Strings(tops)
		k := strings.Join(tops, "~")
		if _, ok := pairs[k]; !ok {
			if len(blk) > 1500 {
				blk = blk[:1500]
			}
			pairs[k] = blk
		}
	}
	keys := make([]string, 0, len(pairs))
	for k := range pairs {
		keys = append(keys, k)
	}
	sort.Strings(keys)
	c.Stats["race:txpool-pairs"] = len(keys)
	for _, k := range keys {
		c.Fail("c18/data-race/"+k, "race detector: concurrent unsynchronised accesses in the tx pool", map[string]interface{}{"report": pairs[k]})
	}
}

package main

// hx c19 — the consensus engine is thread-safe under concurrent blocks, confirms and mining (C19, PARTIAL).
//
//  1. lock-discipline FACTS (c19_scan.go): `guard <var> <lock|atomic|none>` and
//     `access <var> <func> <r|w> <lockHeld> <entry>` op lines, regenerated from the source on every run
//     and compared by the Lean driver with the committed table LemoModel/LockFacts.lean
//     (`table-mismatch` on any difference, `access-end` checks completeness).  Every (variable, function)
//     that reaches the variable without its lock from a real entry point is also an oracle finding
//     `c19/unlocked-access/<var>/<func>`.
//  2. signer model correspondence (c19_signer.go): `sign …` = the REAL consensus.SignBlock run alone from a
//     preset cache state; `sched …` = a Go transliteration of SignBlock stepped by a schedule, against the
//     Lean interleaving model.
//  3. runtime (SUPPORTING EVIDENCE, not proof; results are counts + oracle findings, never op lines), each
//     in a CHILD process because Go's `fatal error: concurrent map …` cannot be recovered:
//       c19-hammer   one real engine hit from several goroutines, every emitted confirm checked, sequential replay
//       c19-maprace  the store's unlocked public reader GetActDatabase against the engine's writers
//       c19-writerlag  schedules of store requests against the sync / done goroutines (c19_writerlag.go); the ONLY
//                    child whose schedules are also op lines (`lagq`, `lagapi`) answered by the Lean model
//       thorough tier: c19-hammer built with -race, DATA RACE reports canonicalised (c19_race.go).
//     A timeout / a failed -race build is an inconclusive sample (counted), never a failure.
//  `hx c19-genfacts -out DIR` regenerates LockFacts.lean (by hand, after an intended change of the facts).

import (
	"encoding/json"
	"fmt"
	"os"
	"os/exec"
	"path/filepath"
	"sort"
	"strings"
	"syscall"
	"time"
)

func init() { subs["c19"] = c19 }

func c19Repo() string {
	if r := os.Getenv("VERIF_REPO"); r != "" {
		return r
	}
	return "/repo"
}

func c19(c *Ctx) {
	c19Facts(c)
	c19Signer(c)
	// runtime: supporting evidence, not part of the op lines
	rounds := 6
	if c.Tier == "thorough" {
		rounds = 25
	}
	if v := os.Getenv("VERIF_C19_ROUNDS"); v != "" {
		fmt.Sscan(v, &rounds)
	}
	if rounds > 0 {
		// schedules of the request threads against the store's sync / done goroutines: deterministic, its op lines are
		// model-checked; first, so that a broken store layer is reported with a schedule rather than with a hammer round
		c19WriterLag(c)
		c19RunHammer(c, os.Args[0], "c19-hammer", "plain", rounds, c19ChildLimit())
		c19RunHammer(c, os.Args[0], "c19-maprace", "maprace", 3, c19ChildLimit())
		cr := 6
		if c.Tier == "thorough" {
			cr = 20
		}
		c19RunHammer(c, os.Args[0], "c19-confirmrace", "confirmrace", cr, c19ChildLimit())
		mi := 2
		if c.Tier == "thorough" {
			mi = 5
		}
		c19RunHammer(c, os.Args[0], "c19-mineinsert", "mineinsert", mi, c19ChildLimit())
		c19RunHammer(c, os.Args[0], "c19-restart", "restart", 1, c19ChildLimit())
		ls := 3000
		if c.Tier == "thorough" {
			ls = 30000
		}
		c19RunHammer(c, os.Args[0], "c19-lastsig", "lastsig", ls, c19ChildLimit())
	}
	if c.Tier == "thorough" && os.Getenv("VERIF_C19_NORACE") == "" {
		c19Race(c)
	}
}

// c19RunHammer runs the hammer in a child process and folds its results into the parent's report.
func c19RunHammer(c *Ctx, exe, sub, mode string, rounds int, timeout time.Duration) (stderrTail string, ran bool) {
	dir := filepath.Join(c.Out, "hammer-"+mode)
	os.RemoveAll(dir)
	os.MkdirAll(dir, 0755)
	errFile := filepath.Join(dir, "stderr.txt")
	ef, err := os.Create(errFile)
	if err != nil {
		c.Count("hammer-" + mode + ":inconclusive:cannot-create-stderr-file")
		return "", false
	}
	cmd := exec.Command(exe, sub, "-seed", fmt.Sprint(c.Seed), "-n", fmt.Sprint(rounds), "-tier", c.Tier, "-out", dir)
	cmd.Stderr = ef
	cmd.Stdout = ef
	tmp := filepath.Join(dir, "tmp") // node data directories of the child; removed even when it dies
	os.MkdirAll(tmp, 0755)
	cmd.Env = append(os.Environ(), "GORACE=halt_on_error=0 history_size=7", "TMPDIR="+tmp)
	// The child has its own per-round watchdog (c19RoundLimit); this outer limit only catches a child that is stuck
	// outside a round.  On expiry the child gets SIGQUIT first: the Go runtime dumps every goroutine to stderr.
	timedOut := false
	t0 := time.Now()
	runErr := cmd.Start()
	if runErr == nil {
		waitCh := make(chan error, 1)
		go func() { waitCh <- cmd.Wait() }()
		select {
		case runErr = <-waitCh:
		case <-time.After(timeout):
			timedOut = true
			cmd.Process.Signal(syscall.SIGQUIT)
			select {
			case runErr = <-waitCh:
			case <-time.After(20 * time.Second):
				cmd.Process.Kill()
				runErr = <-waitCh
			}
		}
	}
	if sec := int(time.Since(t0).Seconds()); sec > c.Stats["hammer-"+mode+":max-child-seconds"] {
		c.Stats["hammer-"+mode+":max-child-seconds"] = sec
	}
	ef.Close()
	os.RemoveAll(tmp)
	raw, _ := os.ReadFile(errFile)
	text := string(raw)
	tail := text
	if len(tail) > 3000 {
		tail = tail[len(tail)-3000:]
	}
	var res c19HResult
	if b, err := os.ReadFile(filepath.Join(dir, "hammer.json")); err == nil {
		json.Unmarshal(b, &res)
	}
	for k, v := range res.Counts {
		if strings.HasPrefix(k, "hammer:") {
			k = "hammer-" + mode + ":" + strings.TrimPrefix(k, "hammer:")
		}
		if strings.HasSuffix(k, ":max-round-ms") {
			k = "hammer-" + mode + ":max-round-ms"
			if v > c.Stats[k] {
				c.Stats[k] = v
			}
			continue
		}
		c.Stats[k] += v
	}
	c.Stats["hammer-"+mode+":rounds-completed"] += res.Completed
	c.Stats["hammer-"+mode+":rounds-inconclusive(timeout)"] += res.Inconclusive
	for _, f := range res.Fails {
		replay := map[string]interface{}{"rerun": fmt.Sprintf("hx %s -seed %d -n %d -out DIR", sub, c.Seed, rounds)}
		if strings.HasPrefix(f.Sig, "c19/deadlock-or-timeout/") && res.Dump != "" {
			replay["goroutine_dump"] = res.Dump
		}
		c.Fail(f.Sig, fmt.Sprintf("[%s hammer, round %d, seed %d] %s", mode, f.Round, c.Seed, f.Detail), replay)
	}
	switch {
	case timedOut:
		// the whole child exceeded its limit: a deadlock or a hang is a FAILURE (SIGQUIT dump of all goroutines as replay)
		c.Fail("c19/deadlock-or-timeout/"+sub, fmt.Sprintf("[%s hammer, seed %d] child %s did not finish within %v (completed rounds: %d); goroutines blocked inside /repo: %s", mode, c.Seed, sub, timeout, res.Completed, c19BlockedSummary(text)), map[string]interface{}{"goroutine_dump": c19TrimDump(text)})
	case runErr != nil && !res.Done && !c19HasDeadlockFail(res):
		// the process died: Go fatal error (concurrent map read/write …) or an unrecovered panic in an engine goroutine
		kind := "exit"
		first := ""
		for _, l := range strings.Split(text, "\n") {
			if strings.HasPrefix(l, "fatal error:") || strings.HasPrefix(l, "panic:") {
				first = l
				break
			}
		}
		if strings.Contains(first, "concurrent map") {
			kind = "concurrent-map"
		} else if first != "" {
			kind = "engine-goroutine"
		}
		// the /repo frames of the crashing goroutine (the first goroutine block of the dump)
		var frames []string
		inBlock := false
		for _, l := range strings.Split(text, "\n") {
			if strings.HasPrefix(l, "goroutine ") {
				if inBlock {
					break
				}
				inBlock = true
				continue
			}
			if inBlock && strings.HasPrefix(l, "github.com/LemoFoundationLtd/lemochain-core/") && len(frames) < 6 {
				f := strings.TrimPrefix(l, "github.com/LemoFoundationLtd/lemochain-core/")
				if i := strings.LastIndex(f, "("); i > 0 {
					f = f[:i]
				}
				if j := strings.LastIndex(f, "/"); j >= 0 {
					f = f[j+1:]
				}
				frames = append(frames, strings.NewReplacer("(*", "", ")", "").Replace(f))
			}
		}
		if len(frames) > 0 {
			kind += "/" + frames[0]
		}
		c.Fail("c19/panic/"+kind, fmt.Sprintf("[%s hammer, seed %d] child process died (%v) after %d completed rounds: %s; top /repo frames: %s", mode, c.Seed, runErr, res.Completed, first, strings.Join(frames, " <- ")), map[string]interface{}{"stderr_tail": tail})
	}
	return text, true
}

func c19Facts(c *Ctx) {
	rows, guards, err := c19ScanRepo(c19Repo())
	if err != nil {
		c.Op("access-scan-failed", "ok")
		c.Fail("c19/scan-failed", "lock-discipline scan failed: "+err.Error(), nil)
		return
	}
	for _, name := range c19AllVarNames() {
		c.Op("guard "+name+" "+guards[name], "ok")
		c.Count("guard:" + name + ":" + guards[name])
	}
	bad := map[string][]string{} // "<var>/<func>" -> rows
	var order []string
	for _, r := range rows {
		c.Op(r.String(), "ok")
		switch {
		case r.Held:
			c.Count("fact:" + r.Var + ":locked")
		case r.Entry == "-":
			c.Count("fact:" + r.Var + ":unlocked-in-constructor/start-up")
		case r.Var == c19HeadDecision && inList(r.Fn, c19BenignPrechecks):
			c.Count("fact:" + r.Var + ":benign-precheck-outside-the-section(re-validated under the lock)")
		default:
			c.Count("fact:" + r.Var + ":UNLOCKED")
			k := r.Var + "/" + r.Fn
			if bad[k] == nil {
				order = append(order, k)
			}
			bad[k] = append(bad[k], r.String())
		}
	}
	c.Op("access-end", "ok")
	// calls the call graph cannot follow (function values): a committed list, so that a NEW one is noticed
	dyn := c19DynCalls()
	for _, d := range dyn {
		c.Op(fmt.Sprintf("dyncall %s %d %d", d.fn, d.calls, d.gos), "ok")
		c.Count("dyncall:function-value-calls-not-followed")
	}
	c.Op(fmt.Sprintf("dyncall-end %d", len(dyn)), "ok")
	// check-then-act splits: guarded read and guarded write of one variable in two different sections of one function
	var splits []c19Split
	if c19LastScan != nil {
		splits = c19LastScan.rmwSplits()
	}
	for _, sp := range splits {
		c.Op("rmw-split "+sp.Var+" "+sp.Fn, "ok")
		c.Fail("c19/check-then-act-split/"+sp.Var+"/"+sp.Fn, "in "+sp.Fn+" the variable "+sp.Var+" is read in one critical section of its lock and written in another one: every access is guarded, but the lock is released between the check and the update (fact `rmw-split "+sp.Var+" "+sp.Fn+"`)", nil)
	}
	c.Op(fmt.Sprintf("rmw-split-end %d", len(splits)), "ok")
	c.Count(fmt.Sprintf("fact:rmw-split:%d", len(splits)))
	// goroutine / deferred literals inside loops that read the loop variable (pre-1.22 semantics: one shared variable)
	c19LoopVarFacts(c)
	// lock leaks (a return path that keeps a lock) and the lock-order graph (a cycle = possible deadlock)
	if c19LastScan != nil {
		leaks := c19LastScan.lockLeaks()
		for _, l := range leaks {
			c.Op("lock-leak "+l.A+" "+l.B, "ok")
			if !inList(l.A, c19KnownLockLeaks) {
				c.Fail("c19/lock-leak/"+l.A, l.A+" takes "+l.B+" and can return still holding it (no deferred Unlock, no Unlock on that path): the next acquirer blocks forever", nil)
			}
		}
		c.Op(fmt.Sprintf("lock-leak-end %d", len(leaks)), "ok")
		edges := c19LastScan.lockOrder()
		for _, e := range edges {
			c.Op("lock-order "+e.A+" "+e.B, "ok")
		}
		c.Op(fmt.Sprintf("lock-order-end %d", len(edges)), "ok")
		c.Count(fmt.Sprintf("fact:lock-order-edges:%d", len(edges)))
		if _, bad := c19LockRank(edges); bad != nil {
			c.Fail("c19/lock-order-cycle/"+bad.A+"~"+bad.B, "the lock-order graph has a cycle through "+bad.A+" → "+bad.B+" (one thread takes them in this order, another in the opposite one, or a non-reentrant mutex is re-acquired): possible deadlock", nil)
		}
	}
	for _, k := range order {
		rs := bad[k]
		v := k[:strings.Index(k, "/")]
		lock := c19NominalLock(v)
		c.Fail("c19/unlocked-access/"+k, "shared variable "+v+" is accessed in "+k[len(v)+1:]+" without its lock ("+lock+") on "+fmt.Sprint(len(rs))+" entry path(s); fact-table rows with lockHeld=false: "+strings.Join(rs, " ; "), map[string]interface{}{"rows": rs})
	}
}

// ---------------------------------------------------------------- one-time generator of lean/LemoModel/LockFacts.lean

func init() { subs["c19-genfacts"] = c19GenFacts }

var c19LeanVar = map[string]string{
	"sigCache":                      "sigCache",
	"Confirmer.lastSig":             "lastSig",
	"ForkManager.head":              "head",
	"ChainDatabase.UnConfirmBlocks": "unConfirmBlocks",
	"ChainDatabase.LastConfirm":     "lastConfirm",
	"FileQueue.Offset":              "offset",
	"FileQueue.Index":               "index",
	"Manager.termList":              "termList",
	"Manager.evilDeputies":          "evilDeputies",
	"Beansdb.blockRecord":           "blockRecord",
	"ForkManager.head.decision":     "headDecision",
}

func c19Kind(entry string) string {
	switch {
	case entry == "-":
		return "startup"
	case strings.HasPrefix(entry, "go:"):
		return "go"
	case strings.HasPrefix(entry, "timer:"):
		return "timer"
	case strings.HasPrefix(entry, "store:"):
		return "store"
	case strings.HasPrefix(entry, "ext:"):
		return "ext"
	case strings.HasPrefix(entry, "api:"):
		return "api"
	case strings.HasPrefix(entry, "init:"):
		return "init"
	}
	return "engine"
}

// c19GenFacts writes <out>/LockFacts.lean (the EXPECTED table; committed, regenerated only by hand:
// `hx c19-genfacts -out DIR` then copy to lean/LemoModel/LockFacts.lean).
func c19GenFacts(c *Ctx) {
	rows, guards, err := c19ScanRepo(c19Repo())
	if err != nil {
		panic(err)
	}
	var b strings.Builder
	b.WriteString(`/-
  C19 — the EXPECTED lock-discipline table (a literal list; core Lean only).

  Generated ONCE by ` + "`hx c19-genfacts`" + ` (harness/hx/c19_scan.go: go/types scan of /repo) and committed.
  Every ` + "`./check C19`" + ` run re-scans the source and sends each row as an op line
  ` + "`access <var> <func> <r|w> <lockHeld> <entry>`" + ` to the driver, which answers ` + "`table-mismatch`" + ` for a row
  that is not in this table and, at ` + "`access-end`" + `, for a row of this table that was not sent.

  Row: the function ` + "`fn`" + ` reads (write = false) / writes the shared variable ` + "`var`" + `; on every call path
  from the entry point ` + "`entry`" + ` (public engine call, goroutine / timer root ` + "`go:`/`timer:`" + `, store API
  ` + "`store:`" + `, other exported accessor called from outside ` + "`ext:`" + `, ` + "`-`" + ` = reached from no entry point:
  constructor / start-up code) the variable's lock is held at the access (held = true) or not.
  The variable's nominal lock (harness/hx/c19_scan.go c19Vars): sigCache -> consensus.sigCacheMu, lastSig ->
  Confirmer.lastSigLock, FileQueue.Offset -> FileQueue.putLock (each falls back to DPoVP.chainLock / ChainDatabase.RW
  on a tree without the dedicated mutex); UnConfirmBlocks, LastConfirm -> ChainDatabase.RW; FileQueue.Index ->
  FileQueue.IndexRW; termList -> Manager.lock; evilDeputies -> Manager.edLock; ForkManager.head -> accessed through
  sync/atomic.Value Load/Store only.  held = the access holds the nominal lock or the variable's guard.
  Beansdb.blockRecord = the stored record of a STABLE block, read-modify-written by ChainDatabase.setConfirm
  (getBlock4DB; append confirms; setBlock2DB): the r row is held when ChainDatabase.RW is held at the read, the w
  row when RW is held at the write back AND it is the SAME critical section as the read (same Lock() statement, or
  both inherited from the caller and never released in between): a release between read and write = lost update.
  ForkManager.head.decision = reads of the fork head / stable head that feed a decision: inside every function that
  takes DPoVP.chainLock, each call that reads the head (directly or through its callees) is a row named
  <function>/<callee>; held = the call is made with the chain lock of that function held, i.e. the critical section
  starts BEFORE the head is read.  The rows listed in benignPrechecks are outside on purpose (false in this table):
  InsertBlock's early exit isIgnorableBlock tests monotone facts and is re-validated under the lock.
-/
namespace LemoModel.LockFacts

inductive Var where
  | sigCache | lastSig | head | unConfirmBlocks | lastConfirm | offset | index | termList | evilDeputies
  | blockRecord | headDecision
  deriving DecidableEq, Repr

def Var.ofString? : String → Option Var
  | "sigCache" => some .sigCache
  | "Confirmer.lastSig" => some .lastSig
  | "ForkManager.head" => some .head
  | "ChainDatabase.UnConfirmBlocks" => some .unConfirmBlocks
  | "ChainDatabase.LastConfirm" => some .lastConfirm
  | "FileQueue.Offset" => some .offset
  | "FileQueue.Index" => some .index
  | "Manager.termList" => some .termList
  | "Manager.evilDeputies" => some .evilDeputies
  | "Beansdb.blockRecord" => some .blockRecord
  | "ForkManager.head.decision" => some .headDecision
  | _ => none

/-- the kind of entry point a row is about (the prefix of the entry name) -/
inductive Kind where
  | engine | go | timer | store | ext | api | init | startup
  deriving DecidableEq, Repr

def Kind.ofEntry (e : String) : Kind :=
  if e == "-" then .startup
  else if e.startsWith "go:" then .go
  else if e.startsWith "timer:" then .timer
  else if e.startsWith "store:" then .store
  else if e.startsWith "ext:" then .ext
  else if e.startsWith "api:" then .api
  else if e.startsWith "init:" then .init
  else .engine

structure Row where
  var   : Var
  fn    : String
  write : Bool
  held  : Bool
  kind  : Kind
  entry : String
  deriving DecidableEq, Repr

def table : List Row := [
`)
	for i, r := range rows {
		sep := ","
		if i == len(rows)-1 {
			sep = ""
		}
		fmt.Fprintf(&b, "  ⟨.%s, %q, %v, %v, .%s, %q⟩%s\n", c19LeanVar[r.Var], r.Fn, r.RW == "w", r.Held, c19Kind(r.Entry), r.Entry, sep)
	}
	b.WriteString(`]

/-- the guard of each variable: a lock held at EVERY access from a real entry point ("atomic": only
    atomic.Value Load/Store; "none": no such lock) -/
def guards : List (Var × String) := [
`)
	names := c19AllVarNames()
	for i, name := range names {
		sep := ","
		if i == len(names)-1 {
			sep = ""
		}
		fmt.Fprintf(&b, "  (.%s, %q)%s\n", c19LeanVar[name], guards[name], sep)
	}
	b.WriteString(`]

/-- functions of the anchored packages that call (second number: start with go / time.AfterFunc) a function VALUE
    (func-typed variable, parameter or field): the scanner's call graph does not follow these calls; function literals
    are analysed where they are DEFINED.  The list is compared on every run: a new entry is a table-mismatch. -/
def dynCalls : List (String × Nat × Nat) := [` + func() string {
		var q []string
		for _, d := range c19DynCalls() {
			q = append(q, fmt.Sprintf("(%q, %d, %d)", d.fn, d.calls, d.gos))
		}
		return strings.Join(q, ", ")
	}() + `]

/-- check-then-act splits (a function that reads a variable in one section of its lock and writes it in another):
    expected none -/
def rmwSplits : List (String × String) := [` + func() string {
		var q []string
		if c19LastScan != nil {
			for _, sp := range c19LastScan.rmwSplits() {
				q = append(q, fmt.Sprintf("(%q, %q)", sp.Var, sp.Fn))
			}
		}
		return strings.Join(q, ", ")
	}() + `]

/-- functions that can return still holding a lock they took (expected: only the deliberate lock-handing wrapper) -/
def lockLeaks : List (String × String) := [` + func() string {
		var q []string
		if c19LastScan != nil {
			for _, l := range c19LastScan.lockLeaks() {
				q = append(q, fmt.Sprintf("(%q, %q)", l.A, l.B))
			}
		}
		return strings.Join(q, ", ")
	}() + `]

/-- lock-order edges (A, B): B is taken while A may be held (A held at the Lock() statement or by some caller path);
    at least one of the two is a lock of chain/consensus, store, chain/deputynode.  (A, A) = per-TYPE re-acquisition
    (different instances / over-approximated interface calls). -/
def lockOrder : List (String × String) := [
` + func() string {
		var q []string
		if c19LastScan != nil {
			for _, e := range c19LastScan.lockOrder() {
				q = append(q, fmt.Sprintf("  (%q, %q)", e.A, e.B))
			}
		}
		return strings.Join(q, ",\n")
	}() + `
]

/-- a topological order of the locks: every edge of lockOrder other than the (A, A) ones goes forward in it -/
def lockRank : List String := [` + func() string {
		var q []string
		if c19LastScan != nil {
			rank, _ := c19LockRank(c19LastScan.lockOrder())
			for _, r := range rank {
				q = append(q, fmt.Sprintf("%q", r))
			}
		}
		return strings.Join(q, ", ")
	}() + `]

/-- head reads that are deliberately made before the chain lock is taken (see the header) -/
def benignPrechecks : List String := [` + func() string {
		var q []string
		for _, x := range c19BenignPrechecks {
			q = append(q, fmt.Sprintf("%q", x))
		}
		return strings.Join(q, ", ")
	}() + `]

/-- every listed access of ` + "`v`" + ` from a real entry point holds ` + "`v`" + `'s lock
    (rows with entry "-" are constructor / start-up code that runs before the object is shared) -/
def disciplined (t : List Row) (v : Var) : Bool :=
  t.all (fun r => r.var != v || r.held || r.kind == .startup)

/-- the rows that break the discipline of ` + "`v`" + ` -/
def offenders (t : List Row) (v : Var) : List Row :=
  t.filter (fun r => r.var == v && !r.held && r.kind != .startup)

end LemoModel.LockFacts
`)
	if err := os.WriteFile(filepath.Join(c.Out, "LockFacts.lean"), []byte(b.String()), 0644); err != nil {
		panic(err)
	}
	fmt.Println("wrote", filepath.Join(c.Out, "LockFacts.lean"), len(rows), "rows")
}

type c19Dyn struct {
	fn         string
	calls, gos int
}

func c19DynCalls() []c19Dyn {
	var out []c19Dyn
	if c19LastScan == nil {
		return out
	}
	agg := map[string]*c19Dyn{}
	for _, f := range c19LastScan.all {
		if !inList(f.pkg, c19Anchored) || (f.dynCalls == 0 && f.dynGo == 0) {
			continue
		}
		d := agg[f.name]
		if d == nil {
			d = &c19Dyn{fn: f.name}
			agg[f.name] = d
		}
		d.calls += f.dynCalls
		d.gos += f.dynGo
	}
	for _, d := range agg {
		out = append(out, *d)
	}
	sort.Slice(out, func(i, j int) bool { return out[i].fn < out[j].fn })
	return out
}

// c19ChildLimit: outer limit of one child process (all its rounds).  Observed on /repo: the slowest plain child takes
// < 60 s, the slowest child under the race detector < 120 s on a loaded machine; the limit is 30 min.
func c19ChildLimit() time.Duration {
	limit := 1800
	if v := os.Getenv("VERIF_C19_CHILD_LIMIT_S"); v != "" {
		fmt.Sscan(v, &limit)
	}
	return time.Duration(limit) * time.Second
}

func c19HasDeadlockFail(res c19HResult) bool {
	for _, f := range res.Fails {
		if strings.HasPrefix(f.Sig, "c19/deadlock-or-timeout/") {
			return true
		}
	}
	return false
}

package main

// c19_confirms.go — linearizability of the CONFIRM SETS of stored blocks (child `c19-confirmrace`).
//
// Whatever the order of the same requests, a sequential execution ends with every acknowledged confirm
// stored: InsertConfirms that returned nil ⇒ its signatures are in the stored block; a confirm the node
// broadcast on the confirm feed ⇒ it is in the stored block (union semantics).  A confirm that is missing
// afterwards is a lost update: the outcome equals NO sequential order (`c19/confirm-lost/...`).
//
// The schedule that matters (only public engine calls):
//   * 15 deputies; node A = a deputy that mines none of the blocks used;
//   * A inserts X1 (a fork block at height 1) and confirms it: lastSig = X1;
//   * A inserts the main run M1..M11: none is confirmed by A (other fork, height ≤ lastSig + 2/3·deputies);
//   * the confirm packet completing the tip M11 arrives: M1..M11 become stable in one jump and the engine
//     spawns batchConfirmStable, which signs M1..M10 and stores A's own confirm through SetConfirms
//     OUTSIDE the chain lock;
//   * at the same moment remote deputies' confirm packets for M1..M10 arrive through InsertConfirms.
// Then, at store level, two SetConfirms on one stable block are released by a start barrier.

import (
	"fmt"
	"sync"
	"sync/atomic"
	"time"

	"github.com/LemoFoundationLtd/lemochain-core/chain/consensus"
	"github.com/LemoFoundationLtd/lemochain-core/chain/deputynode"
	"github.com/LemoFoundationLtd/lemochain-core/chain/types"
	"github.com/LemoFoundationLtd/lemochain-core/common"
	"github.com/LemoFoundationLtd/lemochain-core/common/crypto"
	"github.com/LemoFoundationLtd/lemochain-core/common/subscribe"
	"github.com/LemoFoundationLtd/lemochain-core/network"
)

func init() { subs["c19-confirmrace"] = c19ConfirmRaceChild }

const c19CRDeputies = 15

func c19ConfirmRaceChild(c *Ctx) {
	h := &c19Hammer{res: &c19HResult{Rounds: c.N, Counts: map[string]int{}}, out: c.Out, rnd: c.Rnd, seen: map[string]bool{}}
	h.flush()
	for r := 0; r < c.N; r++ {
		h.runRound("c19-confirmrace", r, func() { h.confirmRound(r) })
	}
	h.res.Done = true
	h.flush()
}

func (h *c19Hammer) confirmRound(round int) {
	now := uint32(time.Now().Unix())
	w := NewWorld(c19CRDeputies, now-150, 10000)
	b := w.NewNode(c19CRDeputies)
	defer b.Close()
	build := func(parent *types.Block, t uint32, name string) *types.Block {
		txs := types.Transactions{txTransfer(w.FounderKey, keyAddr(detKey("c19-cr-user")), lemo(int64(1+h.rnd.Intn(50))), TxOpt{Exp: uint64(t) + 600, Msg: fmt.Sprintf("cr-%d-%s", round, name)})}
		blk, _, err := b.Build(parent, t, txs, nil)
		if err != nil {
			panic(fmt.Sprintf("confirm-race scenario: build %s: %v", name, err))
		}
		if err := b.Insert(CloneBlock(blk)); err != nil {
			panic(fmt.Sprintf("confirm-race scenario: builder rejects %s: %v", name, err))
		}
		return blk
	}
	genesis := b.BC.CurrentBlock()
	x1 := build(genesis, genesis.Time()+21, "X1") // the deputy at distance 3
	const runLen = 11                             // heights 1..11 ≤ lastSig(1) + ⌈2·15/3⌉ = 11 stay unconfirmed by A
	var run []*types.Block
	parent := genesis
	for i := 1; i <= runLen; i++ {
		blk := build(parent, parent.Time()+1, fmt.Sprintf("M%d", i))
		run = append(run, blk)
		parent = blk
	}
	tip := run[runLen-1]
	// node A = a deputy that mined none of these blocks
	miners := map[common.Address]bool{x1.MinerAddress(): true}
	for _, m := range run {
		miners[m.MinerAddress()] = true
	}
	selfIdx := -1
	for i := len(w.DeputyKeys) - 1; i >= 0; i-- {
		if !miners[keyAddr(w.DeputyKeys[i])] {
			selfIdx = i
			break
		}
	}
	if selfIdx < 0 {
		panic("confirm-race scenario: every deputy mines a block of the run")
	}
	selfKey := w.DeputyKeys[selfIdx]
	deputynode.SetSelfNodeKey(selfKey)
	consensus.VerifSetSigCache(common.Hash{}, nil)
	a := w.NewNode(c19CRDeputies)
	defer a.Close()
	eng := a.BC.VerifEngine()

	feed := make(chan *network.BlockConfirmData, 1024)
	subscribe.Sub(subscribe.NewConfirm, feed)
	defer subscribe.UnSub(subscribe.NewConfirm, feed)

	if _, err := eng.InsertBlock(CloneBlock(x1)); err != nil {
		panic(fmt.Sprintf("confirm-race scenario: A rejects X1: %v", err))
	}
	for i, m := range run {
		if _, err := eng.InsertBlock(CloneBlock(m)); err != nil {
			panic(fmt.Sprintf("confirm-race scenario: A rejects M%d: %v", i+1, err))
		}
	}
	// drain what A broadcast so far (its confirm of X1); check that the run is unconfirmed by A
	time.Sleep(20 * time.Millisecond)
drain:
	for {
		select {
		case <-feed:
		default:
			break drain
		}
	}
	unconfirmed := 0
	for _, m := range run {
		if sb, err := a.DB.GetBlockByHash(m.Hash()); err == nil && len(sb.Confirms) == 0 {
			unconfirmed++
		}
	}
	if unconfirmed != runLen {
		// the precondition of the schedule does not hold: inconclusive sample, counted
		h.fail(round, "c19/harness/scenario-guarantee-broken", fmt.Sprintf("confirm-race: the node confirmed %d of the %d run blocks on insertion although X1 was signed first (the scenario guarantees an unconfirmed run)", runLen-unconfirmed, runLen))
		return
	}
	// remote deputies for a block: neither its miner nor A
	remotes := func(blk *types.Block) []int {
		var out []int
		for i, k := range w.DeputyKeys {
			if i != selfIdx && keyAddr(k) != blk.MinerAddress() {
				out = append(out, i)
			}
		}
		return out
	}
	// the packet that completes the tip
	var tipSigs []types.SignData
	for _, i := range remotes(tip)[:9] { // miner + 9 = ⌈2·15/3⌉ signers

		tipSigs = append(tipSigs, Confirm(tip, w.DeputyKeys[i]))
	}
	type acked struct {
		blk    *types.Block
		sig    types.SignData
		signer int
	}
	var acks []acked
	var amu sync.Mutex
	raced := run[:runLen-1]
	type packet struct {
		sig    types.SignData
		signer int
	}
	packets := make([][]packet, 3)
	for pass := range packets {
		for _, m := range raced {
			rs := remotes(m)
			signer := rs[(pass+round)%len(rs)]
			packets[pass] = append(packets[pass], packet{Confirm(m, w.DeputyKeys[signer]), signer})
		}
	}
	delay := time.Duration(h.rnd.Intn(5)*150) * time.Microsecond
	if err := eng.InsertConfirms(tip.Height(), tip.Hash(), tipSigs); err != nil {
		panic(fmt.Sprintf("confirm-race scenario: InsertConfirms(tip): %v", err))
	}
	if a.BC.StableBlock().Hash() != tip.Hash() {
		h.fail(round, "c19/harness/scenario-guarantee-broken", "confirm-race: the tip did not become stable after the packet with 9 valid confirms")
		return
	}
	for i, s := range tipSigs {
		acks = append(acks, acked{tip, s, remotes(tip)[i]})
	}
	// batchConfirmStable is running now (M1 → M10); the network thread delivers remote confirms for the same
	// blocks.  Signatures are prepared beforehand; the passes alternate direction (a reverse pass is
	// guaranteed to cross the batch goroutine) and start after a small random delay.
	var wg sync.WaitGroup
	var delivered, refused int32
	wg.Add(1)
	go func() {
		defer wg.Done()
		if d := delay; d > 0 {
			time.Sleep(d)
		}
		for pass := 0; pass < 3; pass++ {
			for j := range raced {
				bi := j
				if (pass+round)%2 == 0 {
					bi = len(raced) - 1 - j
				}
				m := raced[bi]
				pk := packets[pass][bi]
				err := eng.InsertConfirms(m.Height(), m.Hash(), []types.SignData{pk.sig})
				if err == nil {
					atomic.AddInt32(&delivered, 1)
					amu.Lock()
					acks = append(acks, acked{m, pk.sig, pk.signer})
					amu.Unlock()
				} else {
					atomic.AddInt32(&refused, 1)
				}
			}
		}
	}()
	wg.Wait()
	// own confirms: broadcast by batchConfirmStable after it stored all of them
	own := map[common.Hash]types.SignData{}
	timeout := time.After(5 * time.Second)
wait:
	for len(own) < runLen-1 {
		select {
		case p := <-feed:
			if !h.c19OwnSig(round, "own confirm broadcast by batchConfirmStable", selfKey, p.Hash, p.SignInfo[:]) {
				h.fail(round, "c19/emitted-invalid-confirm", fmt.Sprintf("confirm on the feed for block %d:%x is not this node's signature over that hash", p.Height, p.Hash[:4]))
				continue
			}
			own[p.Hash] = p.SignInfo
		case <-timeout:
			break wait
		}
	}
	time.Sleep(30 * time.Millisecond)
	h.count("confirmrace:remote-confirms-acknowledged", int(delivered))
	h.count("confirmrace:remote-confirms-refused", int(refused))
	h.count("confirmrace:own-confirms-broadcast", len(own))
	// the criterion: every acknowledged / broadcast confirm is in the stored block
	height := map[common.Hash]uint32{}
	for _, m := range run {
		height[m.Hash()] = m.Height()
	}
	lost := 0
	for _, ak := range acks {
		sb, err := a.DB.GetBlockByHash(ak.blk.Hash())
		if err != nil {
			h.fail(round, "c19/stable-block-missing", fmt.Sprintf("stable block %d cannot be loaded: %v", ak.blk.Height(), err))
			continue
		}
		if !sb.IsConfirmExist(ak.sig) {
			lost++
			h.fail(round, "c19/confirm-lost/acknowledged-remote-confirm", fmt.Sprintf("InsertConfirms(height %d) returned nil for deputy %d's confirm, but the stored block does not hold it (stored confirms: %d, own confirm broadcast: %v): the outcome of InsertConfirms || batchConfirmStable equals no sequential order of the same requests", ak.blk.Height(), ak.signer, len(sb.Confirms), own[ak.blk.Hash()] != types.SignData{}))
		}
	}
	for hash, sig := range own {
		sb, err := a.DB.GetBlockByHash(hash)
		if err != nil {
			continue
		}
		if !sb.IsConfirmExist(sig) {
			lost++
			h.fail(round, "c19/confirm-lost/own-broadcast-confirm", fmt.Sprintf("the node broadcast its own confirm of stable block %d, but the stored block does not hold it (stored confirms: %d)", height[hash], len(sb.Confirms)))
		}
	}
	h.count("confirmrace:engine-rounds", 1)
	if lost > 0 {
		h.count("confirmrace:engine-rounds-with-lost-confirm", 1)
	}

	// ---- store level: two SetConfirms on one stable block, start barrier
	slost := 0
	for rep := 0; rep < 2; rep++ {
		for bi, m := range run[:runLen-1] {
			hash := m.Hash()
			sigs := make([]types.SignData, 2)
			for wi := range sigs {
				k := detKey(fmt.Sprintf("c19-cr-synthetic-%d-%d-%d-%d", round, rep, bi, wi))
				s, err := crypto.Sign(hash[:], k)
				if err != nil {
					panic(err)
				}
				sigs[wi] = types.BytesToSignData(s)
			}
			start := make(chan struct{})
			errs := make([]error, 2)
			var swg sync.WaitGroup
			for wi := 0; wi < 2; wi++ {
				swg.Add(1)
				go func(wi int) {
					defer swg.Done()
					<-start
					_, errs[wi] = a.DB.SetConfirms(hash, []types.SignData{sigs[wi]})
				}(wi)
			}
			close(start)
			swg.Wait()
			sb, err := a.DB.GetBlockByHash(hash)
			if err != nil {
				continue
			}
			for wi := 0; wi < 2; wi++ {
				if errs[wi] == nil && !sb.IsConfirmExist(sigs[wi]) {
					slost++
					h.fail(round, "c19/confirm-lost/concurrent-SetConfirms", fmt.Sprintf("two concurrent ChainDatabase.SetConfirms on stable block %d both returned nil, but the confirm of writer %d is not stored (stored confirms: %d): no sequential order of the two requests gives this", m.Height(), wi, len(sb.Confirms)))
				}
			}
			h.count("confirmrace:store-barrier-pairs", 1)
		}
	}
	if slost > 0 {
		h.count("confirmrace:store-barrier-lost", slost)
	}
}

package main

// c19_hammer.go — runtime hammer of ONE real engine from several goroutines (C19, direct oracle,
// SUPPORTING EVIDENCE — a schedule that did not occur proves nothing).
//
// Runs in a CHILD process (`hx c19-hammer`; re-exec of os.Args[0], or the -race build in the
// thorough tier): a Go `fatal error: concurrent map writes` cannot be recovered and would kill
// the harness.  The child writes <out>/hammer.json after every round; the parent adds its exit
// status and the tail of its stderr.
//
// One round:
//   * a builder node assembles (sequentially, miner path) a main chain and competing forks with
//     transfers; confirm packets (signatures of all other deputies) for every third main block;
//   * node A (self = deputy 0) is then hit concurrently: InsertBlock of all blocks (one goroutine per
//     fork, failed blocks retried), InsertConfirms, MineBlock, readers (CurrentBlock, StableBlock,
//     GetBlockByHeight, account reads through account.NewManager(hash, db)), direct SignBlock
//     callers (what the RPC PrivateNetAPI.BroadcastConfirm does), a subscriber of the global
//     confirm feed checking EVERY emitted confirm;
//   * the requests are replayed sequentially, in completion order, on a fresh node: same ok/err per
//     request, same final head / stable / unconfirmed set?

import (
	"bytes"
	"encoding/json"
	"fmt"
	"math/rand"
	"os"
	"path/filepath"
	"runtime"
	"sort"
	"strings"
	"sync"
	"sync/atomic"
	"time"

	"github.com/LemoFoundationLtd/lemochain-core/chain/account"
	"github.com/LemoFoundationLtd/lemochain-core/chain/consensus"
	"github.com/LemoFoundationLtd/lemochain-core/chain/deputynode"
	"github.com/LemoFoundationLtd/lemochain-core/chain/types"
	"github.com/LemoFoundationLtd/lemochain-core/common"
	"github.com/LemoFoundationLtd/lemochain-core/common/rlp"
	"github.com/LemoFoundationLtd/lemochain-core/common/subscribe"
	"github.com/LemoFoundationLtd/lemochain-core/network"
)

func init() { subs["c19-hammer"] = c19HammerChild }

type c19HFail struct {
	Sig    string `json:"sig"`
	Detail string `json:"detail"`
	Round  int    `json:"round"`
}

type c19HResult struct {
	Rounds       int            `json:"rounds"`
	Completed    int            `json:"completed"`
	Inconclusive int            `json:"inconclusive"`
	Fails        []c19HFail     `json:"fails"`
	Counts       map[string]int `json:"counts"`
	Done         bool           `json:"done"`
	Dump         string         `json:"dump,omitempty"` // goroutine dump taken by the watchdog
}

type c19Req struct {
	id     int
	kind   string // block | confirm | mine
	blk    *types.Block
	name   string
	height uint32
	hash   common.Hash
	sigs   []types.SignData
}

type c19Done struct {
	req   *c19Req
	ok    bool
	err   string
	mined *types.Block
}

type c19Hammer struct {
	res  *c19HResult
	mu   sync.Mutex
	out  string
	rnd  *rand.Rand
	seen map[string]bool
}

func (h *c19Hammer) fail(round int, sig, detail string) {
	h.mu.Lock()
	defer h.mu.Unlock()
	k := sig + "|" + detail
	if h.seen[k] || len(h.res.Fails) >= 60 {
		return
	}
	h.seen[k] = true
	h.res.Fails = append(h.res.Fails, c19HFail{sig, detail, round})
}

func (h *c19Hammer) count(k string, n int) {
	h.mu.Lock()
	h.res.Counts[k] += n
	h.mu.Unlock()
}

func (h *c19Hammer) flush() {
	h.mu.Lock()
	b, _ := json.MarshalIndent(h.res, "", " ")
	h.mu.Unlock()
	tmp := filepath.Join(h.out, "hammer.json.tmp")
	os.WriteFile(tmp, b, 0644)
	os.Rename(tmp, filepath.Join(h.out, "hammer.json"))
}

func c19HammerChild(c *Ctx) {
	h := &c19Hammer{res: &c19HResult{Rounds: c.N, Counts: map[string]int{}}, out: c.Out, rnd: c.Rnd, seen: map[string]bool{}}
	h.flush()
	for r := 0; r < c.N; r++ {
		h.runRound("c19-hammer", r, func() { h.round(r) })
	}
	h.res.Done = true
	h.flush()
}

// c19RoundLimit: a round that does not finish within this limit is a DEADLOCK OR TIMEOUT failure (lock-order
// inversion, a missing Unlock, a lost wake-up are exactly what C19 must see).  The limit is generous: ≥ 10× the
// slowest round observed on /repo under the race detector on a loaded machine (see props assumptions).
func c19RoundLimit() time.Duration {
	limit := 600
	if v := os.Getenv("VERIF_C19_ROUND_LIMIT_S"); v != "" {
		fmt.Sscan(v, &limit)
	}
	return time.Duration(limit) * time.Second
}

// runRound runs one round of a child under the watchdog; records the slowest round; a harness panic is c19/panic.
func (h *c19Hammer) runRound(child string, r int, f func()) {
	done := make(chan bool, 1)
	t0 := time.Now()
	go func() {
		defer func() {
			if x := recover(); x != nil {
				h.fail(r, "c19/panic", child+": harness goroutine of the round panicked: "+c19FirstLine(fmt.Sprint(x)))
			}
			done <- true
		}()
		f()
	}()
	select {
	case <-done:
		h.res.Completed++
		ms := int(time.Since(t0) / time.Millisecond)
		h.mu.Lock()
		if ms > h.res.Counts[child+":max-round-ms"] {
			h.res.Counts[child+":max-round-ms"] = ms
		}
		h.mu.Unlock()
		h.flush()
	case <-time.After(c19RoundLimit()):
		buf := make([]byte, 4<<20)
		buf = buf[:runtime.Stack(buf, true)]
		h.fail(r, "c19/deadlock-or-timeout/"+child, fmt.Sprintf("round %d of %s did not finish within %v; goroutines blocked inside /repo: %s", r, child, c19RoundLimit(), c19BlockedSummary(string(buf))))
		h.mu.Lock()
		h.res.Dump = c19TrimDump(string(buf))
		h.mu.Unlock()
		h.flush()
		os.Exit(3) // the goroutines cannot be killed
	}
}

// c19BlockedSummary: one line per goroutine that waits on a lock / channel with a /repo frame on its stack:
// "state @ top /repo frame"
func c19BlockedSummary(dump string) string {
	var out []string
	seen := map[string]int{}
	for _, g := range strings.Split(dump, "\n\n") {
		lines := strings.Split(g, "\n")
		if len(lines) < 2 || !strings.HasPrefix(lines[0], "goroutine ") {
			continue
		}
		state := lines[0]
		if i := strings.Index(state, "["); i >= 0 {
			state = strings.Trim(state[i:], "[]:")
		}
		if !strings.Contains(state, "semacquire") && !strings.Contains(state, "sync.") && !strings.Contains(state, "chan") && !strings.Contains(state, "select") {
			continue
		}
		top := ""
		for _, l := range lines[1:] {
			if strings.HasPrefix(l, "github.com/LemoFoundationLtd/lemochain-core/") {
				top = strings.TrimPrefix(l, "github.com/LemoFoundationLtd/lemochain-core/")
				if i := strings.LastIndex(top, "("); i > 0 {
					top = top[:i]
				}
				break
			}
		}
		if top == "" {
			continue
		}
		k := strings.SplitN(state, ",", 2)[0] + " @ " + top
		if seen[k] == 0 {
			out = append(out, k)
		}
		seen[k]++
	}
	for i, k := range out {
		if seen[k] > 1 {
			out[i] = fmt.Sprintf("%s (x%d)", k, seen[k])
		}
	}
	if len(out) > 14 {
		out = out[:14]
	}
	return strings.Join(out, " ; ")
}

// c19TrimDump keeps the goroutines that have a /repo frame (the replay artefact of a deadlock)
func c19TrimDump(dump string) string {
	var keep []string
	n := 0
	for _, g := range strings.Split(dump, "\n\n") {
		if strings.Contains(g, "LemoFoundationLtd/lemochain-core/") {
			if len(g) > 1800 {
				g = g[:1800] + "\n\t…"
			}
			keep = append(keep, g)
			n += len(g)
			if n > 40000 {
				break
			}
		}
	}
	return strings.Join(keep, "\n\n")
}

const c19Deputies = 5

// scenario built on the builder node
type c19Scenario struct {
	w        *World
	chains   [][]*c19Req // chains[0] = main chain; others = forks, each in parent-before-child order
	confirms []*c19Req
	byHash   map[common.Hash]string
	users    []common.Address
}

func (h *c19Hammer) build(round int) *c19Scenario {
	now := uint32(time.Now().Unix())
	w := NewWorld(c19Deputies, now-150, 10000)
	b := w.NewNode(c19Deputies)
	defer b.Close()
	sc := &c19Scenario{w: w, byHash: map[common.Hash]string{}}
	for i := 0; i < 4; i++ {
		sc.users = append(sc.users, keyAddr(detKey(fmt.Sprintf("c19-user-%d", i))))
	}
	id := 0
	txn := 0
	mk := func(parent *types.Block, t uint32, name string) *types.Block {
		var txs types.Transactions
		for j := 0; j < 1+h.rnd.Intn(3); j++ {
			txn++
			txs = append(txs, txTransfer(w.FounderKey, sc.users[h.rnd.Intn(len(sc.users))], lemo(int64(10+h.rnd.Intn(500))), TxOpt{Exp: uint64(t) + 600, Msg: fmt.Sprintf("c19-%d-%d", round, txn)}))
		}
		blk, _, err := b.Build(parent, t, txs, nil)
		if err != nil {
			panic(fmt.Sprintf("c19 scenario: build %s: %v", name, err))
		}
		if err := b.Insert(CloneBlock(blk)); err != nil {
			panic(fmt.Sprintf("c19 scenario: builder rejects %s: %v", name, err))
		}
		sc.byHash[blk.Hash()] = name
		return blk
	}
	req := func(blk *types.Block, name string) *c19Req {
		id++
		return &c19Req{id: id, kind: "block", blk: blk, name: name, height: blk.Height(), hash: blk.Hash()}
	}
	genesis := b.BC.CurrentBlock()
	mainLen := 9 + h.rnd.Intn(4)
	var main []*types.Block
	parent := genesis
	var mainReqs []*c19Req
	for i := 1; i <= mainLen; i++ {
		blk := mk(parent, parent.Time()+1, fmt.Sprintf("M%d", i))
		main = append(main, blk)
		mainReqs = append(mainReqs, req(blk, fmt.Sprintf("M%d", i)))
		parent = blk
	}
	sc.chains = append(sc.chains, mainReqs)
	// forks: branch at main[k-1] with the deputy at distance d >= 2, then 1..3 more blocks
	nforks := 2 + h.rnd.Intn(2)
	for f := 0; f < nforks; f++ {
		k := 1 + h.rnd.Intn(mainLen-2)
		d := uint32(2 + h.rnd.Intn(3))
		p := main[k-1]
		var reqs []*c19Req
		flen := 1 + h.rnd.Intn(3)
		for j := 0; j < flen; j++ {
			t := p.Time() + 1
			if j == 0 {
				t = p.Time() + 10*(d-1) + 1
			}
			if t > now {
				break
			}
			name := fmt.Sprintf("F%d.%d", f, int(p.Height())+1)
			blk := mk(p, t, name)
			reqs = append(reqs, req(blk, name))
			p = blk
		}
		if len(reqs) > 0 {
			sc.chains = append(sc.chains, reqs)
		}
	}
	// confirm packets for every third main block: signatures of all deputies but node A (deputy 0);
	// the miner's own is dropped by the engine, the rest make the block stable whatever A signs itself
	for i := 2; i < mainLen; i += 3 {
		blk := main[i]
		var sigs []types.SignData
		for d := 1; d < c19Deputies; d++ {
			sigs = append(sigs, Confirm(blk, w.DeputyKeys[d]))
		}
		id++
		sc.confirms = append(sc.confirms, &c19Req{id: id, kind: "confirm", name: "C(" + sc.byHash[blk.Hash()] + ")", height: blk.Height(), hash: blk.Hash(), sigs: sigs})
	}
	return sc
}

func errName(err error) string {
	if err == nil {
		return ""
	}
	return err.Error()
}

// exec one request on a node
func c19Exec(n *Node, r *c19Req, mined *types.Block) c19Done {
	d := c19Done{req: r}
	switch r.kind {
	case "block":
		_, err := n.BC.VerifEngine().InsertBlock(CloneBlock(r.blk))
		d.ok, d.err = err == nil, errName(err)
	case "confirm":
		err := n.BC.VerifEngine().InsertConfirms(r.height, r.hash, append([]types.SignData{}, r.sigs...))
		d.ok, d.err = err == nil, errName(err)
	case "mine":
		if mined != nil { // replay of a block this node mined itself in the concurrent run
			_, err := n.BC.VerifEngine().InsertBlock(CloneBlock(mined))
			d.ok, d.err = err == nil, errName(err)
		} else {
			blk, err := n.BC.VerifEngine().MineBlock(5000)
			d.ok, d.err = err == nil, errName(err)
			if err == nil {
				d.mined = blk
			}
		}
	}
	return d
}

type c19Final struct {
	head, stable common.Hash
	headH, stabH uint32
	unconfirmed  []string
}

func c19FinalOf(n *Node) c19Final {
	var f c19Final
	hd, st := n.BC.CurrentBlock(), n.BC.StableBlock()
	f.head, f.headH, f.stable, f.stabH = hd.Hash(), hd.Height(), st.Hash(), st.Height()
	n.DB.IterateUnConfirms(func(b *types.Block) { f.unconfirmed = append(f.unconfirmed, b.Hash().Hex()) })
	sort.Strings(f.unconfirmed)
	return f
}

func (f c19Final) String() string {
	return fmt.Sprintf("head=%d:%x stable=%d:%x unconfirmed=%d", f.headH, f.head[:4], f.stabH, f.stable[:4], len(f.unconfirmed))
}

func (f c19Final) eq(g c19Final) bool {
	return f.head == g.head && f.stable == g.stable && strings.Join(f.unconfirmed, ",") == strings.Join(g.unconfirmed, ",")
}

func (h *c19Hammer) round(round int) {
	sc := h.build(round)
	selfKey := sc.w.DeputyKeys[0]
	deputynode.SetSelfNodeKey(selfKey)
	// the node id is derived from the key by the harness; /repo's GetSelfNodeID must agree
	if !bytes.Equal(deputynode.GetSelfNodeID(), c19NodeIDOf(selfKey)) {
		h.fail(round, "c19/fed-fact/signature", "deputynode.GetSelfNodeID() is not the uncompressed public key of the key the harness installed")
	}
	consensus.VerifSetSigCache(common.Hash{}, nil)
	a := sc.w.NewNode(c19Deputies)
	defer a.Close()
	var known sync.Map // hash -> height of every block that exists in this round
	for _, ch := range sc.chains {
		for _, r := range ch {
			known.Store(r.hash, r.height)
		}
	}
	genesis := a.BC.CurrentBlock()
	known.Store(genesis.Hash(), genesis.Height())

	// ---- confirm feed subscriber: EVERY emitted confirm is checked
	feed := make(chan *network.BlockConfirmData, 4096)
	subscribe.Sub(subscribe.NewConfirm, feed)
	var emitted int64
	feedDone := make(chan struct{})
	stopFeed := make(chan struct{})
	var late []*network.BlockConfirmData
	var ownEmitted []*network.BlockConfirmData
	check := func(p *network.BlockConfirmData) {
		atomic.AddInt64(&emitted, 1)
		ownEmitted = append(ownEmitted, p)
		if !h.c19OwnSig(round, "confirm on the feed", selfKey, p.Hash, p.SignInfo[:]) {
			h.fail(round, "c19/emitted-invalid-confirm", fmt.Sprintf("confirm on the feed for block %d:%x is not a signature of this node's key over that hash (ecdsa.Verify against the installed key)", p.Height, p.Hash[:4]))
			return
		}
		hh, ok := known.Load(p.Hash)
		if !ok {
			late = append(late, p) // a block mined during the round may be registered a moment later
			return
		}
		if hh.(uint32) != p.Height {
			h.fail(round, "c19/emitted-invalid-confirm", fmt.Sprintf("confirm names height %d but hash %x is the block at height %d", p.Height, p.Hash[:4], hh.(uint32)))
		}
	}
	go func() {
		defer close(feedDone)
		for {
			select {
			case p := <-feed:
				check(p)
			case <-stopFeed:
				for {
					select {
					case p := <-feed:
						check(p)
					default:
						return
					}
				}
			}
		}
	}()

	// ---- the concurrent requests
	var omu sync.Mutex
	var order []c19Done
	record := func(d c19Done) {
		omu.Lock()
		order = append(order, d)
		omu.Unlock()
	}
	var wg sync.WaitGroup
	guard := func(what string, f func()) {
		wg.Add(1)
		go func() {
			defer wg.Done()
			defer func() {
				if x := recover(); x != nil {
					h.fail(round, "c19/panic", what+" panicked: "+c19FirstLine(fmt.Sprint(x)))
				}
			}()
			f()
		}()
	}
	var writersDone int32
	nextID := int32(10000)
	for ci, ch := range sc.chains {
		ch := ch
		guard(fmt.Sprintf("inserter %d", ci), func() {
			pending := ch
			for pass := 0; pass < 6 && len(pending) > 0; pass++ {
				var again []*c19Req
				for _, r := range pending {
					rr := *r
					rr.id = int(atomic.AddInt32(&nextID, 1))
					d := c19Exec(a, &rr, nil)
					record(d)
					if !d.ok && d.err == consensus.ErrVerifyBlockFailed.Error() {
						again = append(again, r) // parent not there yet (or pruned): try again later
					}
				}
				pending = again
				if len(pending) > 0 {
					time.Sleep(time.Duration(1+pass) * time.Millisecond)
				}
			}
		})
	}
	guard("confirm sender", func() {
		pending := sc.confirms
		for pass := 0; pass < 40 && len(pending) > 0; pass++ {
			var again []*c19Req
			for _, r := range pending {
				rr := *r
				rr.id = int(atomic.AddInt32(&nextID, 1))
				d := c19Exec(a, &rr, nil)
				record(d)
				if !d.ok && d.err == consensus.ErrBlockNotExist.Error() {
					again = append(again, r)
				}
			}
			pending = again
			if len(pending) > 0 {
				time.Sleep(time.Millisecond)
			}
		}
	})
	guard("miner", func() {
		for i := 0; i < 4; i++ {
			rr := &c19Req{id: int(atomic.AddInt32(&nextID, 1)), kind: "mine", name: "mine"}
			d := c19Exec(a, rr, nil)
			if d.mined != nil {
				known.Store(d.mined.Hash(), d.mined.Height())
				h.count("hammer:mined-blocks", 1)
				// the header signature of a block this node mined must be its own signature over that block
				fresh := CloneBlock(d.mined) // decoded from its RLP: no memo of the engine's object is read
				if fresh.Hash() != d.mined.Hash() {
					h.fail(round, "c19/fed-fact/signature", "the block MineBlock returned hashes differently after an RLP round trip")
				}
				if !h.c19OwnSig(round, "header signature of a mined block", selfKey, fresh.Hash(), fresh.Header.SignData) {
					h.fail(round, "c19/mined-block-invalid-signature", fmt.Sprintf("MineBlock returned block %d:%x whose header signature is not this node's signature over its hash (ecdsa.Verify against the installed key)", fresh.Height(), fresh.Hash().Bytes()[:4]))
				}
			}
			record(d)
			time.Sleep(3 * time.Millisecond)
		}
	})
	// readers
	var rwg sync.WaitGroup
	for ri := 0; ri < 2; ri++ {
		ri := ri
		rwg.Add(1)
		go func() {
			defer rwg.Done()
			rnd := rand.New(rand.NewSource(int64(round*10 + ri)))
			stableSeen := uint32(0)
			stableHash := map[uint32]common.Hash{}
			reads, pruned := 0, 0
			for atomic.LoadInt32(&writersDone) == 0 {
				func() {
					defer func() {
						if x := recover(); x != nil {
							msg := fmt.Sprint(x)
							// reading the account state of a block that was pruned between the two calls
							// is also possible in a sequential order of the same calls: counted, not a failure
							if strings.Contains(msg, "not exist") || strings.Contains(msg, "ErrBlockNotExist") {
								pruned++
								return
							}
							h.fail(round, "c19/panic", fmt.Sprintf("reader %d panicked: %s", ri, c19FirstLine(msg)))
						}
					}()
					reads++
					st := a.BC.StableBlock()
					hd := a.BC.CurrentBlock()
					if st == nil || hd == nil {
						h.fail(round, "c19/reader-nil", "StableBlock/CurrentBlock returned nil")
						return
					}
					if st.Height() < stableSeen {
						h.fail(round, "c19/stable-went-back", fmt.Sprintf("reader saw stable height %d after %d", st.Height(), stableSeen))
					}
					stableSeen = st.Height()
					if prev, ok := stableHash[st.Height()]; ok && prev != st.Hash() {
						h.fail(round, "c19/stable-block-changed", fmt.Sprintf("two different stable blocks at height %d", st.Height()))
					}
					stableHash[st.Height()] = st.Hash()
					if stableSeen > 0 {
						hq := uint32(rnd.Intn(int(stableSeen) + 1))
						if b := a.BC.GetBlockByHeight(hq); b != nil {
							if b.Height() != hq {
								h.fail(round, "c19/reader-wrong-block", fmt.Sprintf("GetBlockByHeight(%d) returned height %d", hq, b.Height()))
							}
							if prev, ok := stableHash[hq]; ok && prev != b.Hash() {
								h.fail(round, "c19/stable-block-changed", fmt.Sprintf("GetBlockByHeight(%d) differs from the stable block seen at that height", hq))
							}
						}
					}
					// what a network / RPC thread does with a block it was handed (ProtocolManager.respBlocks:
					// ShallowCopy + RLP encoding for the peer): it reads the Confirms of the shared *types.Block
					for _, blk := range []*types.Block{hd, a.BC.GetBlockByHeight(hd.Height()), a.BC.GetBlockByHeight(st.Height() + 1)} {
						if blk == nil {
							continue
						}
						cp := blk.ShallowCopy()
						if _, err := rlp.EncodeToBytes(cp); err != nil {
							h.fail(round, "c19/reader-encode-failed", "RLP encoding of a block handed out by the chain failed: "+err.Error())
						}
						for _, sg := range cp.Confirms {
							if _, err := sg.RecoverNodeID(cp.Hash()); err != nil {
								h.fail(round, "c19/reader-invalid-confirm", fmt.Sprintf("a block handed out by the chain (height %d) carries a confirm that does not recover", cp.Height()))
							}
						}
					}
					// account reads in the view of the stable block and of the head
					am := account.NewManager(st.Hash(), a.DB)
					for _, u := range sc.users {
						if am.GetAccount(u).GetBalance().Sign() < 0 {
							h.fail(round, "c19/reader-negative-balance", "negative balance read")
						}
					}
					am2 := account.NewManager(hd.Hash(), a.DB)
					am2.GetAccount(sc.users[0]).GetBalance()
				}()
			}
			h.count("hammer:reader-iterations", reads)
			h.count("hammer:reader-hit-pruned-block", pruned)
		}()
	}
	// direct SignBlock callers (the RPC path PrivateNetAPI.BroadcastConfirm → consensus.SignBlock, no lock)
	var sgn sync.WaitGroup
	var signCalls, signBad int64
	nDirect := 0
	if round%2 == 1 { // even rounds: engine-internal concurrency only
		nDirect = 2
	}
	for si := 0; si < nDirect; si++ {
		si := si
		sgn.Add(1)
		go func() {
			defer sgn.Done()
			hs := []common.Hash{c19HashOf(1 + si), c19HashOf(3)}
			for i := 0; atomic.LoadInt32(&writersDone) == 0; i++ {
				hash := hs[i%2]
				sig, err := consensus.SignBlock(hash)
				atomic.AddInt64(&signCalls, 1)
				if err != nil {
					continue
				}
				if !c19SigBy(selfKey, hash, sig) {
					var err error
					if atomic.AddInt64(&signBad, 1) == 1 {
						h.fail(round, "c19/signblock-wrong-signature", fmt.Sprintf("consensus.SignBlock(%x…) called concurrently with the engine returned a signature that does not verify for that hash under the node key (recover err=%v)", hash[:4], err))
					}
				}
			}
		}()
	}
	wg.Wait()
	atomic.StoreInt32(&writersDone, 1)
	rwg.Wait()
	sgn.Wait()
	if nDirect > 0 {
		// pure API-level contention on the exported SignBlock (RPC callers + engine in production):
		// four callers, alternating hashes, every returned signature verified
		var stop int32
		var swg sync.WaitGroup
		for si := 0; si < 4; si++ {
			si := si
			swg.Add(1)
			go func() {
				defer swg.Done()
				for i := 0; atomic.LoadInt32(&stop) == 0; i++ {
					hash := c19HashOf(1 + (si+i)%3)
					sig, err := consensus.SignBlock(hash)
					atomic.AddInt64(&signCalls, 1)
					if err != nil {
						continue
					}
					if !c19SigBy(selfKey, hash, sig) {
						var err error
						if atomic.AddInt64(&signBad, 1) == 1 {
							h.fail(round, "c19/signblock-wrong-signature", fmt.Sprintf("consensus.SignBlock(%x…) called from four goroutines (alternating hashes) returned a signature that does not verify for the requested hash under the node key (recover err=%v)", hash[:4], err))
						}
					}
				}
			}()
		}
		time.Sleep(300 * time.Millisecond)
		atomic.StoreInt32(&stop, 1)
		swg.Wait()
	}
	time.Sleep(150 * time.Millisecond) // let batchConfirmStable / broadcastConfirm goroutines drain
	close(stopFeed)
	<-feedDone
	subscribe.UnSub(subscribe.NewConfirm, feed)
	for _, p := range late {
		if hh, ok := known.Load(p.Hash); !ok {
			h.fail(round, "c19/emitted-invalid-confirm", fmt.Sprintf("confirm on the feed names an unknown block %d:%x", p.Height, p.Hash[:4]))
		} else if hh.(uint32) != p.Height {
			h.fail(round, "c19/emitted-invalid-confirm", fmt.Sprintf("confirm names height %d but hash %x is the block at height %d", p.Height, p.Hash[:4], hh.(uint32)))
		}
	}
	h.count("hammer:confirms-emitted-and-checked", int(emitted))
	h.count("hammer:direct-SignBlock-calls", int(signCalls))
	h.count("hammer:direct-SignBlock-wrong", int(signBad))
	h.count("hammer:requests", len(order))
	for _, d := range order {
		cls := "ok"
		if !d.ok {
			cls = "err"
		}
		h.count("hammer:"+d.req.kind+":"+cls, 1)
	}
	final := c19FinalOf(a)
	if final.stabH > 0 {
		h.count("hammer:rounds-with-stable-advance", 1)
	}
	// every stable block is now confirmed by this node or has enough confirms; all stored confirms verify
	for ht := uint32(1); ht <= final.stabH; ht++ {
		b, err := a.DB.GetBlockByHeight(ht)
		if err != nil {
			h.fail(round, "c19/stable-block-missing", fmt.Sprintf("stable height %d cannot be loaded: %v", ht, err))
			continue
		}
		for _, sgd := range b.Confirms {
			if c19SignerAmong(sc.w.DeputyKeys, b.Hash(), sgd[:]) < 0 {
				h.fail(round, "c19/stored-invalid-confirm", fmt.Sprintf("stable block %d stores a confirm that is not a deputy's signature over its hash", ht))
			}
		}
	}

	// confirm sets (union semantics of every sequential order): a confirm whose InsertConfirms returned nil and
	// a confirm the node broadcast must be in the stored block (if the block still exists)
	for _, d := range order {
		if d.req.kind != "confirm" || !d.ok {
			continue
		}
		sb, err := a.DB.GetBlockByHash(d.req.hash)
		if err != nil {
			continue
		}
		miner, _ := sb.SignerNodeID()
		for _, sgd := range d.req.sigs {
			id, err := sgd.RecoverNodeID(d.req.hash)
			if err != nil || bytes.Equal(id, miner) {
				continue
			}
			found := false
			for _, st := range sb.Confirms {
				if sid, err := st.RecoverNodeID(d.req.hash); err == nil && bytes.Equal(sid, id) {
					found = true
				}
			}
			if !found {
				h.fail(round, "c19/confirm-lost/acknowledged-remote-confirm", fmt.Sprintf("InsertConfirms(%s) returned nil, but the stored block %d holds no confirm of signer %x… (stored confirms: %d)", d.req.name, d.req.height, firstBytes(id, 4), len(sb.Confirms)))
			}
		}
	}
	for _, p := range ownEmitted {
		if sb, err := a.DB.GetBlockByHash(p.Hash); err == nil && !sb.IsConfirmExist(p.SignInfo) {
			h.fail(round, "c19/confirm-lost/own-broadcast-confirm", fmt.Sprintf("the node broadcast its own confirm of block %d:%x, but the stored block does not hold it (stored confirms: %d)", p.Height, p.Hash[:4], len(sb.Confirms)))
		}
	}
	h.count("hammer:confirm-sets-checked", 1)

	// ---- sequential replay on a fresh node, in completion order (+ local repairs of the order)
	try := func(ord []c19Done) (int, c19Final) {
		consensus.VerifSetSigCache(common.Hash{}, nil)
		r := sc.w.NewNode(c19Deputies)
		defer r.Close()
		div := -1
		for i, d := range ord {
			var nd c19Done
			if d.req.kind == "mine" {
				if d.mined == nil {
					continue // a MineBlock that produced nothing changed nothing
				}
				nd = c19Exec(r, d.req, d.mined)
			} else {
				nd = c19Exec(r, d.req, nil)
			}
			if nd.ok != d.ok && div < 0 {
				div = i
			}
		}
		time.Sleep(20 * time.Millisecond)
		return div, c19FinalOf(r)
	}
	ord := append([]c19Done{}, order...)
	matched := false
	var lastDiv int
	var lastFinal c19Final
	exact := false
	for attempt := 0; attempt < 6; attempt++ {
		div, f := try(ord)
		if f.eq(final) {
			// the criterion: final head / stable / unconfirmed set equal to those of SOME sequential order
			matched = true
			if div < 0 {
				exact = true
				h.count(fmt.Sprintf("hammer:replay-matched-after-%d-repairs", attempt), 1)
				break
			}
		} else if !matched {
			lastDiv, lastFinal = div, f
		}
		if div <= 0 {
			break
		}
		// the recorded completion order may differ from the lock order for two back-to-back calls
		ord[div-1], ord[div] = ord[div], ord[div-1]
	}
	if matched && !exact {
		// same final state, but some request's ok/err differs in every tried order: the recorded completion
		// order is not exactly the lock order (or a pre-lock isIgnorableBlock answered): counted, not a failure
		h.count("hammer:replay-final-state-matched-with-a-differing-request-result", 1)
	}
	if !matched {
		var tail []string
		for i, d := range order {
			if i >= lastDiv-3 && i <= lastDiv+3 {
				tail = append(tail, fmt.Sprintf("#%d %s ok=%v %s", i, d.req.name, d.ok, d.err))
			}
		}
		h.fail(round, "c19/not-linearizable", fmt.Sprintf("concurrent run ended with %s; sequential replay in completion order (and 5 local repairs) ends with %s, first diverging request index %d; around it: %s", final, lastFinal, lastDiv, strings.Join(tail, " | ")))
	}
}

func firstBytes(b []byte, n int) []byte {
	if len(b) < n {
		return b
	}
	return b[:n]
}

func c19FirstLine(s string) string {
	if i := strings.IndexByte(s, '\n'); i >= 0 {
		s = s[:i]
	}
	if len(s) > 300 {
		s = s[:300]
	}
	return s
}

// ---------------------------------------------------------------- store readers without RW (child `c19-maprace`)

func init() { subs["c19-maprace"] = c19MapRaceChild }

// c19MapRaceChild: one goroutine inserts a prepared chain + confirm packets through the engine while
// three goroutines call the store's PUBLIC, unlocked reader ChainDatabase.GetActDatabase (what every
// account.NewManager(hash, db) of an RPC / tx-pool thread does) in a loop.  The unlocked map read of
// UnConfirmBlocks against SetBlock/SetStableBlock's locked map writes is caught by the Go runtime's own
// map check: `fatal error: concurrent map read and map write` kills the process (unrecoverable).
func c19MapRaceChild(c *Ctx) {
	h := &c19Hammer{res: &c19HResult{Rounds: c.N, Counts: map[string]int{}}, out: c.Out, rnd: c.Rnd, seen: map[string]bool{}}
	h.flush()
	for r := 0; r < c.N; r++ {
		h.runRound("c19-maprace", r, func() { h.mapRaceRound(r) })
	}
	h.res.Done = true
	h.flush()
}

func (h *c19Hammer) mapRaceRound(r int) {
	{
		sc := h.build(r)
		deputynode.SetSelfNodeKey(sc.w.DeputyKeys[0])
		a := sc.w.NewNode(c19Deputies)
		var stop int32
		var rwg sync.WaitGroup
		var reads int64
		first := sc.chains[0][0].hash
		for ri := 0; ri < 3; ri++ {
			rwg.Add(1)
			go func() {
				defer rwg.Done()
				for atomic.LoadInt32(&stop) == 0 {
					func() {
						defer func() { recover() }() // "the block not exist" once `first` is stable and pruned from the map
						a.DB.GetActDatabase(first)
						atomic.AddInt64(&reads, 1)
					}()
				}
			}()
		}
		ci := 0
		for _, rq := range sc.chains[0] {
			c19Exec(a, rq, nil)
			for ci < len(sc.confirms) && sc.confirms[ci].height <= rq.height {
				c19Exec(a, sc.confirms[ci], nil)
				ci++
			}
		}
		for _, ch := range sc.chains[1:] {
			for _, rq := range ch {
				c19Exec(a, rq, nil)
			}
		}
		atomic.StoreInt32(&stop, 1)
		rwg.Wait()
		h.count("maprace:GetActDatabase-calls", int(reads))
		a.Close()
	}
}

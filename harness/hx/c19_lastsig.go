package main

// c19_lastsig.go — the last-signed record is a MONOTONE-MAX register (child `c19-lastsig`).
//
// The two writers of Confirmer.lastSig that really run concurrently: the chain-lock holder (saveNewBlock →
// SetLastSig(own, high block)) and the batch-confirm goroutine spawned by UpdateStable outside the chain lock
// (confirmBlock → SetLastSig(lower, stable block)).  In EVERY sequential order the record ends at the highest block
// (SetLastSig only moves upwards).  Concurrent SetLastSig calls released by a start barrier must end there too;
// a lower final record = `c19/lastsig-moved-backwards` (needConfirm would then let the node sign a rival-fork block
// inside the sign distance).

import (
	"fmt"
	"sync"
	"time"

	"github.com/LemoFoundationLtd/lemochain-core/chain/consensus"
	"github.com/LemoFoundationLtd/lemochain-core/chain/deputynode"
	"github.com/LemoFoundationLtd/lemochain-core/chain/types"
	"github.com/LemoFoundationLtd/lemochain-core/common"
)

func init() { subs["c19-lastsig"] = c19LastSigChild }

func c19LastSigChild(c *Ctx) {
	h := &c19Hammer{res: &c19HResult{Rounds: c.N, Counts: map[string]int{}}, out: c.Out, rnd: c.Rnd, seen: map[string]bool{}}
	h.flush()
	h.runRound("c19-lastsig", 0, func() { h.lastSigTrials(c.N) })
	h.res.Completed = c.N
	h.res.Done = true
	h.flush()
}

func (h *c19Hammer) lastSigTrials(trials int) {
	now := uint32(time.Now().Unix())
	w := NewWorld(5, now-500, 10000)
	n := w.NewNode(5)
	defer n.Close()
	deputynode.SetSelfNodeKey(w.DeputyKeys[0])
	blk := func(height uint32, parent byte, salt int) *types.Block {
		return &types.Block{Header: &types.Header{Height: height, ParentHash: common.BytesToHash([]byte{parent}), Time: uint32(salt)}}
	}
	backwards := 0
	for t := 0; t < trials; t++ {
		// a fresh record per trial: NewConfirmer starts at the stable (genesis) block
		cf := consensus.NewConfirmer(n.DM, n.DB, n.DB, n.DB)
		heights := []uint32{109, 105}
		if t%3 == 2 {
			heights = []uint32{109, 105, 107}
		}
		blocks := make([]*types.Block, len(heights))
		for i, ht := range heights {
			blocks[i] = blk(ht, byte(i+1), t)
		}
		start := make(chan struct{})
		var wg sync.WaitGroup
		for _, b := range blocks {
			wg.Add(1)
			go func(b *types.Block) {
				defer wg.Done()
				<-start
				cf.SetLastSig(b)
			}(b)
		}
		close(start)
		wg.Wait()
		gotH, gotX := cf.VerifLastSig()
		if gotH != 109 || gotX != blocks[0].Hash() {
			backwards++
			h.fail(t, "c19/lastsig-moved-backwards", fmt.Sprintf("trial %d: concurrent SetLastSig(%v) (start barrier) left lastSig at height %d; every sequential order of the same calls ends at height 109 (the own mined block): the lower writer wrote last", t, heights, gotH))
		}
	}
	h.count("lastsig:trials", trials)
	h.count("lastsig:final-record-below-max", backwards)
}
